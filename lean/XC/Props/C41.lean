/-
  C41 — property theorems over XC.Model.C41 (the code AFTER fix 03f8929, "ssh: reject certificates that
  are not canonically encoded").

  Statement (properties.jsonl): CheckCert/Authenticate/CheckHostKey accept iff right type, accepted
  authority, matching principal (or none listed), ValidAfter ≤ now < ValidBefore (infinity allowed),
  only supported critical options, not revoked, and the CA signature verifies over exactly the
  certificate bytes that were received; SignCert / ssh-keygen -s certificates round-trip byte for byte.

  * `checkCert_iff`, `timeGo_iff`, `authenticate_iff`, `checkHostKey_iff`: the decision of the code, the
    time rule equal to the intended one for ALL uint64 values and all clocks;
  * `parse_marshal_canonical`: whatever ParsePublicKey accepts as a certificate equals its own Marshal()
    (proved from parseCert's final check); hence `checkCert_over_received_bytes` / `C41_full_holds`:
    the signature check of CheckCert is over exactly the received bytes, for EVERY accepted blob;
  * `marshal_parse` (XC/Proofs/C41.lean): ParsePublicKey(Marshal c) = c for every well-formed c;
  * what the check excludes, stated about the pre-fix parser `parseCertKeyNoCheck`:
    `nocheck_not_injective`, `nocheck_reencoding_accepted` (the former defect F4) and
    `noncanonical_rejected` (the same witness is now a parse error).
-/
import XC.Model.C41
import XC.Proofs.C41
namespace XC.C41
open XC XC.C38

/-! ## the time rule -/

/-- the intended rule: both stamps are non-negative int64 values (or ValidBefore = infinity) and
    ValidAfter ≤ now < ValidBefore -/
def timeSpec (now : Int) (va vb : Nat) : Prop :=
  va < 9223372036854775808 ∧ (va : Int) ≤ now ∧
    (vb = certTimeInfinity ∨ (vb < 9223372036854775808 ∧ now < (vb : Int)))   -- 9223372036854775808 = 2^63

theorem timeGo_true (now : Int) (va vb : Nat) :
    timeGo now va vb = true ↔
      ¬ (toInt64 va < 0 ∨ now < toInt64 va) ∧ ¬ (vb ≠ certTimeInfinity ∧ (now ≥ toInt64 vb ∨ toInt64 vb < 0)) := by
  unfold timeGo
  by_cases hA : (toInt64 va < 0 ∨ now < toInt64 va)
  · rw [if_pos hA]; exact ⟨fun h => absurd h (by decide), fun h => absurd hA h.1⟩
  · rw [if_neg hA]
    by_cases hB : (vb ≠ certTimeInfinity ∧ (now ≥ toInt64 vb ∨ toInt64 vb < 0))
    · rw [if_pos hB]; exact ⟨fun h => absurd h (by decide), fun h => absurd hB h.2⟩
    · rw [if_neg hB]; exact ⟨fun _ => ⟨hA, hB⟩, fun _ => rfl⟩

theorem toInt64_cases (u : Nat) :
    (u < 9223372036854775808 ∧ toInt64 u = (u : Int)) ∨
    (¬ u < 9223372036854775808 ∧ toInt64 u = (u : Int) - 18446744073709551616) := by
  unfold toInt64
  by_cases h : u < 9223372036854775808
  · exact Or.inl ⟨h, if_pos h⟩
  · exact Or.inr ⟨h, if_neg h⟩

/-- for every uint64 ValidAfter/ValidBefore and every clock value, the two tests written in CheckCert
    (with their int64 casts) decide exactly the intended window; stamps ≥ 2^63 (negative after the
    cast) are rejected, except ValidBefore = CertTimeInfinity -/
theorem timeGo_iff (now : Int) (va vb : Nat) (ha : va < 18446744073709551616) (hb : vb < 18446744073709551616) :
    timeGo now va vb = true ↔ timeSpec now va vb := by
  rw [timeGo_true]
  unfold timeSpec certTimeInfinity
  have ea := toInt64_cases va
  have eb := toInt64_cases vb
  generalize toInt64 va = x at *
  generalize toInt64 vb = y at *
  constructor
  · intro h; refine ⟨by omega, by omega, by omega⟩
  · intro h; refine ⟨by omega, by omega⟩

example : timeGo 100 100 101 = true ∧ timeGo 100 101 200 = false ∧ timeGo 100 0 100 = false ∧
    timeGo 100 0 certTimeInfinity = true ∧ timeGo 100 (2 ^ 63) certTimeInfinity = false ∧
    timeGo 100 0 (2 ^ 63) = false := by decide

/-! ## CheckCert -/

/-- `CheckCert` accepts iff: not revoked ∧ every critical option is source-address or supported ∧
    principal listed (or none listed) ∧ time rule ∧ the CA signature verifies over
    `bytesForSigning` (the re-marshalled certificate). -/
theorem checkCert_iff (verify : PubKey → Bytes → Sig → Bool) (ck : Checker) (p : Bytes) (c : Cert) :
    checkCert verify ck p c = .accept ↔
      ck.revoked c = false ∧
      (∀ kv ∈ c.critOpts, kv.1 = sourceAddress ∨ kv.1 ∈ ck.supported) ∧
      (c.principals = [] ∨ p ∈ c.principals) ∧
      timeGo ck.now c.validAfter c.validBefore = true ∧
      ∃ msg s, c.bytesForSigning = some msg ∧ c.sig = some s ∧ verify c.sigKey msg s = true := by
  unfold checkCert
  have ho : optsOk ck.supported c.critOpts = true ↔
      ∀ kv ∈ c.critOpts, kv.1 = sourceAddress ∨ kv.1 ∈ ck.supported := by
    simp [optsOk, List.all_eq_true]
  have hp : principalOk p c.principals = true ↔ (c.principals = [] ∨ p ∈ c.principals) := by
    simp [principalOk, List.isEmpty_iff]
  rw [← ho, ← hp]
  cases hr : ck.revoked c <;>
    cases h1 : optsOk ck.supported c.critOpts <;>
    cases h2 : principalOk p c.principals <;>
    cases h3 : timeGo ck.now c.validAfter c.validBefore <;>
    simp
  cases hb : c.bytesForSigning with
  | none => simp
  | some msg =>
    cases hs : c.sig with
    | none => simp
    | some s => cases hv : verify c.sigKey msg s <;> simp [hv]

/-- non-vacuity: the iff has accepting instances -/
example : ∃ (c : Cert), checkCert (fun _ _ _ => true) ⟨[], none, 5⟩ [] c = .accept :=
  ⟨⟨[], .ed25519 [], 0, 1, [], [], 0, certTimeInfinity, [], [], [], .ed25519 [], some ⟨[], [], []⟩⟩, by decide⟩

/-- a nil `*Signature` panics instead of being decided: never reached from `ParsePublicKey` output -/
theorem parseCertNoCheck_sig_some (o : PtOracle) (algo b : Bytes) (c : Cert) (h : parseCertNoCheck o algo b = some c) :
    c.sig ≠ none := by
  unfold parseCertNoCheck at h
  repeat (split at h; (· cases h))
  simp only [Option.some.injEq] at h
  subst h
  simp

/-! ## Authenticate / CheckHostKey -/

theorem authenticate_iff (cfg : AuthCfg) (key : AnyKey) (chk : Cert → Res) :
    authenticate cfg key chk = .accept ↔
      (∃ k, key = .plain k ∧ cfg.fallback = .ok) ∨
      (∃ c auths, key = .cert c ∧ c.certType = 1 ∧ cfg.authorities = some auths ∧
        c.sigKey.marshal ∈ auths ∧ chk c = .accept) := by
  unfold authenticate
  cases key with
  | plain k => cases hf : cfg.fallback <;> simp [hf]
  | cert c =>
    by_cases ht : c.certType = 1
    · cases ha : cfg.authorities with
      | none => simp [ht]
      | some auths =>
        by_cases hm : c.sigKey.marshal ∈ auths <;> simp [ht, hm]
    · simp [ht]

theorem checkHostKey_iff (cfg : AuthCfg) (key : AnyKey) (split : Option Bytes) (chk : Bytes → Cert → Res) :
    checkHostKey cfg key split chk = .accept ↔
      (∃ k, key = .plain k ∧ cfg.fallback = .ok) ∨
      (∃ c auths host, key = .cert c ∧ c.certType = 2 ∧ cfg.authorities = some auths ∧
        c.sigKey.marshal ∈ auths ∧ split = some host ∧ chk host c = .accept) := by
  unfold checkHostKey
  cases key with
  | plain k => cases hf : cfg.fallback <;> simp [hf]
  | cert c =>
    by_cases ht : c.certType = 2
    · cases ha : cfg.authorities with
      | none => simp [ht]
      | some auths =>
        by_cases hm : c.sigKey.marshal ∈ auths
        · cases hs : split <;> simp [ht, hm]
        · simp [ht, hm]
    · simp [ht]

/-! ## signed bytes: re-marshal vs received -/

theorem bytesForSigning_eq (c : Cert) (t : Bytes) (ht : certTypeOf c.key = some t) :
    c.bytesForSigning = some (c.signedPart t) := by
  unfold Cert.bytesForSigning Cert.marshal
  simp only [ht]
  have e : ({ c with sig := none } : Cert).signedPart t = c.signedPart t := rfl
  rw [e]
  have l4 : (putString ([] : Bytes)).length = 4 := rfl
  simp only [List.length_append, l4, Nat.add_sub_cancel, List.take_left']

/-- If the received bytes are the certificate's own marshalling, the received signed bytes are
    exactly `bytesForSigning` … -/
theorem recvSigned_of_canonical (c : Cert) (b : Bytes) (s : Sig) (hs : c.sig = some s)
    (hm : c.marshal = some b) : c.bytesForSigning = some (recvSigned b c) := by
  unfold Cert.marshal at hm
  cases ht : certTypeOf c.key with
  | none => simp [ht] at hm
  | some t =>
    simp only [ht, hs, Option.some.injEq] at hm
    rw [bytesForSigning_eq c t ht]
    unfold recvSigned
    simp only [hs, ← hm, List.length_append, Nat.add_sub_cancel, List.take_left']

/-- … hence on canonical input the code's decision is the property's decision. -/
theorem checkCert_eq_recv_of_canonical (verify : PubKey → Bytes → Sig → Bool) (ck : Checker) (p : Bytes)
    (c : Cert) (b : Bytes) (s : Sig) (hs : c.sig = some s) (hm : c.marshal = some b) :
    checkCert verify ck p c = checkCertRecv verify ck p c (recvSigned b c) := by
  unfold checkCert checkCertRecv
  rw [recvSigned_of_canonical c b s hs hm, hs]

/-! ## witnesses: what the canonical-encoding check excludes -/

def zeros32 : Bytes := List.replicate 32 0

/-- witness certificate: Ed25519 subject and CA keys, one extension `a` with the empty value -/
def wCert : Cert :=
  ⟨[], .ed25519 zeros32, 0, 1, [], [], 0, certTimeInfinity, [], [([97], [])], [], .ed25519 zeros32,
   some ⟨algoED25519, [], []⟩⟩

/-- its canonical encoding (what a CA signs) -/
def wCanon : Bytes := (wCert.marshal).getD []

/-- the same certificate with the extension's data field written as `00 00 00 04 00 00 00 00`
    (a data field holding an inner empty string) instead of `00 00 00 00` -/
def wRecv : Bytes :=
  putString certAlgoED25519 ++ putString wCert.nonce ++ wCert.key.body ++
   putU64 0 ++ putU32 1 ++ putString [] ++ putString [] ++ putU64 0 ++ putU64 certTimeInfinity ++
   putString [] ++ putString (putString [97] ++ putString (putString [])) ++ putString [] ++
   putString wCert.sigKey.marshal ++ putString (putSig ⟨algoED25519, [], []⟩)

def noPts : PtOracle := fun _ _ => false

/-- the field parser alone is not injective: two different byte strings, the same certificate -/
theorem nocheck_not_injective :
    wRecv ≠ wCanon ∧ parseCertKeyNoCheck noPts wRecv = some wCert ∧ parseCertKeyNoCheck noPts wCanon = some wCert := by
  decide +kernel

/-- without the check (the code before 03f8929) a certificate whose received bytes were never signed
    was accepted: the CA signed `wCanon`, the peer sent `wRecv` -/
theorem nocheck_reencoding_accepted :
    let verify : PubKey → Bytes → Sig → Bool := fun _ msg _ => msg = recvSigned wCanon wCert
    let ck : Checker := ⟨[], none, 0⟩
    parseCertKeyNoCheck noPts wRecv = some wCert ∧
    checkCert verify ck [] wCert = .accept ∧
    checkCertRecv verify ck [] wCert (recvSigned wRecv wCert) = .reject := by
  decide +kernel

/-- with the check the non-canonical encoding is a parse error, the canonical one still parses -/
theorem noncanonical_rejected :
    parsePublicKey noPts wRecv = none ∧ parsePublicKey noPts wCanon = some (.cert wCert) := by
  decide +kernel

/-- non-vacuity of `marshal_parse` (XC/Proofs/C41.lean): the witness certificate is well-formed, and the
    theorem applies to its canonical encoding -/
example : parsePublicKey noPts wCanon = some (.cert wCert) := by
  have hw : CertWF noPts wCert ⟨algoED25519, [], []⟩ := by
    refine ⟨?_, ?_, rfl, ?_, ?_, ?_, ?_, ?_, ?_, ?_, ?_, ?_, ?_, ?_, ?_, ?_, ?_, ?_, ?_, ?_, ?_⟩
    all_goals first
      | decide
      | (show zeros32.length = 32; decide)
      | (exact ⟨Or.inr rfl, by decide, by decide⟩)
      | (intro p hp; exact absurd hp List.not_mem_nil)
      | (intro kv hkv; simp only [wCert, List.mem_singleton] at hkv; subst hkv; exact ⟨by decide, by decide⟩)
  exact marshal_parse noPts wCert _ hw wCanon (by decide +kernel)

/-! ## the canonical-encoding check of parseCert (fix 03f8929) -/

theorem parseCert_unfold (o : PtOracle) (a b : Bytes) (c : Cert) (h : parseCert o a b = some c) :
    parseCertNoCheck o a b = some c ∧ ∃ m t, c.marshal = some m ∧ parseString m = some (t, b) := by
  unfold parseCert at h
  cases h1 : parseCertNoCheck o a b with
  | none => rw [h1] at h; cases h
  | some c' =>
    rw [h1] at h
    simp only at h
    cases h2 : c'.marshal with
    | none => rw [h2] at h; cases h
    | some m =>
      rw [h2] at h
      simp only at h
      cases h3 : parseString m with
      | none => rw [h3] at h; cases h
      | some p =>
        obtain ⟨t, body⟩ := p
        rw [h3] at h
        simp only at h
        by_cases hb : body = b
        · rw [if_pos hb] at h
          simp only [Option.some.injEq] at h
          subst h; subst hb
          exact ⟨rfl, m, t, h2, h3⟩
        · rw [if_neg hb] at h; cases h

theorem parseCertNoCheck_key_type (o : PtOracle) (a b : Bytes) (c : Cert) (h : parseCertNoCheck o a b = some c) :
    c.key.type = a := by
  unfold parseCertNoCheck at h
  split at h
  · cases h
  · split at h
    · cases h
    · rename_i hk
      have ht := parsePlain_type _ _ _ _ _ hk
      repeat (split at h; (· cases h))
      simp only [Option.some.injEq] at h
      subst h
      exact ht

/-- the certificate-name table is a bijection on the eight certificate arms of parsePubKey -/
theorem arms_table : certArms.all (fun algo =>
    match certKeyAlgoNames.find? (fun p => p.1 = algo) with
    | some p => ((certKeyAlgoNames.find? (fun q => q.2 = p.2)).map (·.1) == some algo) && decide (algo.length < 4294967296)
    | none => false) = true := by decide +kernel

/-- **parse_marshal_canonical**: whatever ParsePublicKey accepts as a certificate is its own
    marshalling — the received bytes ARE `Marshal()` of the parsed value -/
theorem parse_marshal_canonical (o : PtOracle) (b : Bytes) (c : Cert) (h : parseCertKey o b = some c) :
    c.marshal = some b := by
  unfold parseCertKey at h
  cases h1 : parseString b with
  | none => rw [h1] at h; cases h
  | some pr =>
    obtain ⟨algo, r⟩ := pr
    rw [h1] at h
    simp only at h
    by_cases harm : certArms.contains algo = true
    · rw [if_pos harm] at h
      cases h2 : certKeyAlgoNames.find? (fun p => p.1 = algo) with
      | none => rw [h2] at h; cases h
      | some p =>
        rw [h2] at h
        simp only at h
        obtain ⟨hnc, m, t, hm, hpm⟩ := parseCert_unfold o p.2 r c h
        have hkt := parseCertNoCheck_key_type o p.2 r c hnc
        have htab := List.all_eq_true.mp arms_table algo (by simpa using harm)
        rw [h2] at htab
        simp only [Bool.and_eq_true, beq_iff_eq, decide_eq_true_eq] at htab
        obtain ⟨hinv, hlen⟩ := htab
        -- Marshal(c) starts with the name `algo`
        have hct : certTypeOf c.key = some algo := by
          unfold certTypeOf; rw [hkt]; exact hinv
        unfold Cert.marshal at hm
        rw [hct] at hm
        simp only [Option.some.injEq] at hm
        obtain ⟨eb, _⟩ := parseString_inv h1
        -- m = putString algo ++ rest, and parseString m = (t, r)
        rw [← hm] at hpm
        simp only [Cert.signedPart, List.append_assoc] at hpm
        rw [parseString_putString _ hlen] at hpm
        simp only [Option.some.injEq, Prod.mk.injEq] at hpm
        unfold Cert.marshal
        rw [hct]
        simp only [Option.some.injEq]
        rw [eb, ← hpm.2]
        simp only [Cert.signedPart, List.append_assoc]
    · rw [if_neg harm] at h; cases h


theorem parseCert_sig_some (o : PtOracle) (algo b : Bytes) (c : Cert) (h : parseCert o algo b = some c) :
    c.sig ≠ none :=
  parseCertNoCheck_sig_some o algo b c (parseCert_unfold o algo b c h).1

theorem parseCertKey_sig_some (o : PtOracle) (b : Bytes) (c : Cert) (h : parseCertKey o b = some c) :
    c.sig ≠ none := by
  unfold parseCertKey at h
  repeat (split at h; (· cases h))
  split at h
  · split at h
    · cases h
    · exact parseCert_sig_some _ _ _ _ h
  · cases h

/-- **checkCert_over_received_bytes**: for every blob ParsePublicKey accepts, CheckCert's decision is
    the decision with the CA signature verified over exactly the received signed bytes -/
theorem checkCert_over_received_bytes (o : PtOracle) (verify : PubKey → Bytes → Sig → Bool) (ck : Checker)
    (p b : Bytes) (c : Cert) (h : parseCertKey o b = some c) :
    checkCert verify ck p c = checkCertRecv verify ck p c (recvSigned b c) := by
  have hm := parse_marshal_canonical o b c h
  cases hs : c.sig with
  | none => exact absurd hs (parseCertKey_sig_some o b c h)
  | some s => exact checkCert_eq_recv_of_canonical verify ck p c b s hs hm

/-- The full property clause as stated: for every received blob that parses, the decision is the one
    over the received bytes. -/
def C41_full : Prop :=
  ∀ (o : PtOracle) (verify : PubKey → Bytes → Sig → Bool) (ck : Checker) (p b : Bytes) (c : Cert),
    parseCertKey o b = some c → checkCert verify ck p c = checkCertRecv verify ck p c (recvSigned b c)

theorem C41_full_holds : C41_full := checkCert_over_received_bytes

/-- accept ⇔ the listed rules ∧ the CA signature verifies over the received signed bytes -/
theorem checkCert_received_iff (o : PtOracle) (verify : PubKey → Bytes → Sig → Bool) (ck : Checker)
    (p b : Bytes) (c : Cert) (h : parseCertKey o b = some c) :
    checkCert verify ck p c = .accept ↔
      ck.revoked c = false ∧
      (∀ kv ∈ c.critOpts, kv.1 = sourceAddress ∨ kv.1 ∈ ck.supported) ∧
      (c.principals = [] ∨ p ∈ c.principals) ∧
      timeGo ck.now c.validAfter c.validBefore = true ∧
      ∃ s, c.sig = some s ∧ verify c.sigKey (recvSigned b c) s = true := by
  rw [checkCert_iff]
  have hm := parse_marshal_canonical o b c h
  constructor
  · rintro ⟨h1, h2, h3, h4, msg, s, hb, hs, hv⟩
    have := recvSigned_of_canonical c b s hs hm
    rw [this] at hb
    simp only [Option.some.injEq] at hb
    exact ⟨h1, h2, h3, h4, s, hs, by rw [hb]; exact hv⟩
  · rintro ⟨h1, h2, h3, h4, s, hs, hv⟩
    exact ⟨h1, h2, h3, h4, _, s, recvSigned_of_canonical c b s hs hm, hs, hv⟩


/-! ## further non-vacuity examples -/

/-- hypothesis of `parse_marshal_canonical` / `checkCert_over_received_bytes`: a blob that parses -/
example : parseCertKey noPts wCanon = some wCert := by decide +kernel

/-- `authenticate_iff`: a user certificate signed by a listed authority is accepted … -/
example : authenticate ⟨some [wCert.sigKey.marshal], .unset⟩ (.cert wCert) (fun _ => .accept) = .accept := by
  decide +kernel
/-- … and rejected when the authority list does not contain its CA, or it is presented as a host key -/
example : authenticate ⟨some [], .unset⟩ (.cert wCert) (fun _ => .accept) = .reject ∧
    checkHostKey ⟨some [wCert.sigKey.marshal], .unset⟩ (.cert wCert) (some []) (fun _ _ => .accept) = .reject := by
  decide +kernel
/-- `checkHostKey_iff`: a host certificate (type 2) with a listed authority and a splittable address -/
example : checkHostKey ⟨some [wCert.sigKey.marshal], .unset⟩ (.cert { wCert with certType := 2 }) (some (nm "h"))
    (fun _ _ => .accept) = .accept := by decide +kernel
/-- `parseTuples_putTuples`: two sorted options, one with a value -/
example : parseTuples (putTuples [(nm "a", []), (nm "b", nm "v")]) = some [(nm "a", []), (nm "b", nm "v")] := by
  decide +kernel

/-! ## no panic inside the check -/

def plainAlgos : List Bytes :=
  [algoRSA, algoDSA, algoECDSA256, algoECDSA384, algoECDSA521, algoSKECDSA, algoED25519, algoSKED25519]

theorem parsePlain_algo_mem (o : PtOracle) (algo b : Bytes) (x : PubKey × Bytes)
    (h : parsePlain o algo b = some x) : algo ∈ plainAlgos := by
  unfold parsePlain at h
  unfold plainAlgos
  split at h
  · rename_i ha; simp [ha]
  · split at h
    · rename_i ha; simp [ha]
    · split at h
      · rename_i ha; rcases ha with ha | ha | ha <;> simp [ha]
      · split at h
        · rename_i ha; simp [ha]
        · split at h
          · rename_i ha; simp [ha]
          · split at h
            · rename_i ha; simp [ha]
            · cases h

theorem plainAlgos_have_cert_type : plainAlgos.all (fun a =>
    ((certKeyAlgoNames.find? (fun q => q.2 = a)).map (·.1)).isSome) = true := by decide +kernel

/-- the `c.Marshal()` inside parseCert's canonical-encoding check never panics: every key the field
    parser returns has a certificate type -/
theorem parseCertNoCheck_marshal_some (o : PtOracle) (a b : Bytes) (c : Cert)
    (h : parseCertNoCheck o a b = some c) : c.marshal ≠ none := by
  have hkt := parseCertNoCheck_key_type o a b c h
  have hmem : a ∈ plainAlgos := by
    unfold parseCertNoCheck at h
    split at h
    · cases h
    · split at h
      · cases h
      · rename_i hk; exact parsePlain_algo_mem _ _ _ _ hk
  have := List.all_eq_true.mp plainAlgos_have_cert_type a hmem
  unfold Cert.marshal certTypeOf
  rw [hkt]
  cases hf : (certKeyAlgoNames.find? (fun q => q.2 = a)).map (·.1) with
  | none => rw [hf] at this; cases this
  | some t => simp

/-! ## SignCert: the option maps are written in sorted order -/

theorem bytesLt_total : ∀ (a b : Bytes), bytesLt a b = false → a ≠ b → bytesLt b a = true := by
  intro a
  induction a with
  | nil => intro b h hne; cases b with
    | nil => exact absurd rfl hne
    | cons y t => simp [bytesLt] at h
  | cons x s ih =>
    intro b h hne
    cases b with
    | nil => simp [bytesLt]
    | cons y t =>
      simp only [bytesLt] at h ⊢
      by_cases h1 : x.toNat < y.toNat
      · simp [h1] at h
      · by_cases h2 : y.toNat < x.toNat
        · simp [h2]
        · have hxy : x = y := UInt8.toNat_inj.mp (by omega)
          subst hxy
          simp only [h1, ↓reduceIte] at h ⊢
          exact ih t h (fun e => hne (by rw [e]))

theorem okAfter_some (l k : Bytes) : okAfter (some l) k = bytesLt l k := by
  simp [okAfter, bytesLe]

theorem insertKV_sorted (kv : Bytes × Bytes) : ∀ (l : List (Bytes × Bytes)) (last : Option Bytes),
    sortedFrom last l = true → okAfter last kv.1 = true → sortedFrom last (insertKV kv l) = true := by
  intro l
  induction l with
  | nil => intro last _ hk; simp [insertKV, sortedFrom, hk]
  | cons x r ih =>
    intro last hs hk
    simp only [sortedFrom, Bool.and_eq_true] at hs
    obtain ⟨hx, hr⟩ := hs
    unfold insertKV
    by_cases h1 : bytesLt kv.1 x.1 = true
    · rw [if_pos h1]
      simp only [sortedFrom, hk, okAfter_some, h1, hr, Bool.and_self]
    · rw [if_neg h1]
      by_cases h2 : kv.1 = x.1
      · rw [if_pos h2]
        simp only [sortedFrom, hk, Bool.true_and]
        rw [h2]; exact hr
      · rw [if_neg h2]
        simp only [sortedFrom, hx, Bool.true_and]
        have ht : bytesLt x.1 kv.1 = true :=
          bytesLt_total kv.1 x.1 (by simpa using h1) h2
        exact ih (some x.1) hr (by rw [okAfter_some]; exact ht)

theorem foldl_insert_sorted : ∀ (l acc : List (Bytes × Bytes)), sortedFrom none acc = true →
    sortedFrom none (l.foldl (fun acc kv => insertKV kv acc) acc) = true := by
  intro l
  induction l with
  | nil => intro acc h; exact h
  | cons kv t ih => intro acc h; exact ih _ (insertKV_sorted kv acc none h rfl)

/-- `marshalTuples` (sort.Strings over the map keys): whatever order the Go map yields, the written
    tuples are strictly increasing — what parseTuples demands -/
theorem sortKV_sorted (l : List (Bytes × Bytes)) : sortedFrom none (sortKV l) = true :=
  foldl_insert_sorted l [] rfl

theorem insertKV_mem (kv : Bytes × Bytes) : ∀ (l : List (Bytes × Bytes)) (x : Bytes × Bytes),
    x ∈ insertKV kv l → x = kv ∨ x ∈ l := by
  intro l
  induction l with
  | nil => intro x hx; simp [insertKV] at hx; exact Or.inl hx
  | cons y r ih =>
    intro x hx
    unfold insertKV at hx
    split at hx
    · simp only [List.mem_cons] at hx ⊢; rcases hx with h | h | h <;> simp [h]
    · split at hx
      · simp only [List.mem_cons] at hx ⊢; rcases hx with h | h <;> simp [h]
      · simp only [List.mem_cons] at hx ⊢
        rcases hx with h | h
        · simp [h]
        · rcases ih x h with h' | h' <;> simp [h']

theorem sortKV_mem (l : List (Bytes × Bytes)) (x : Bytes × Bytes) (hx : x ∈ sortKV l) : x ∈ l := by
  unfold sortKV at hx
  have : ∀ (l acc : List (Bytes × Bytes)), x ∈ l.foldl (fun acc kv => insertKV kv acc) acc → x ∈ l ∨ x ∈ acc := by
    intro l
    induction l with
    | nil => intro acc h; exact Or.inr h
    | cons kv t ih =>
      intro acc h
      rcases ih _ h with h' | h'
      · exact Or.inl (List.mem_cons_of_mem _ h')
      · rcases insertKV_mem kv acc x h' with e | e
        · exact Or.inl (by rw [e]; exact List.mem_cons_self ..)
        · exact Or.inr e
  rcases this l [] hx with h | h
  · exact h
  · cases h

example : sortKV [(nm "b", nm "1"), (nm "a", []), (nm "b", nm "2")] = [(nm "a", []), (nm "b", nm "2")] := by
  decide +kernel

/-- the two option-map obligations of `CertWF` hold for whatever SignCert/Marshal writes from a Go map -/
theorem sortKV_wf (l : List (Bytes × Bytes)) (h : ∀ kv ∈ l, TupWF kv) :
    sortedFrom none (sortKV l) = true ∧ ∀ kv ∈ sortKV l, TupWF kv :=
  ⟨sortKV_sorted l, fun kv hkv => h kv (sortKV_mem l kv hkv)⟩

end XC.C41
