/-
  C41 — property theorems over XC.Model.C41.

  Statement (properties.jsonl): CheckCert/Authenticate/CheckHostKey accept iff right type, accepted
  authority, matching principal (or none listed), ValidAfter ≤ now < ValidBefore (infinity allowed),
  only supported critical options, not revoked, and the CA signature verifies over exactly the
  certificate bytes that were received; SignCert / ssh-keygen -s certificates round-trip byte for byte.

  What is proved here
  * `checkCert_iff`, `timeGo_iff`, `authenticate_iff`, `checkHostKey_iff`: the decision of the code as
    written, with the time rule shown equal to the intended one for ALL uint64 values and all clocks;
  * `checkCert_eq_recv_of_canonical`: on a certificate whose received bytes are their own re-marshal,
    the code's check (signature over the re-marshal) IS the property's check (signature over the
    received bytes);
  * `reencoding_accepted`, `parse_not_injective`, `parse_marshal_not_canonical`: the NEGATION for
    arbitrary received bytes, with a concrete witness: two different byte strings parse to the same
    certificate, so a certificate whose received bytes were never signed is accepted (DESIGN §6 F4).
-/
import XC.Model.C41
import XC.Proofs.C41
namespace XC.C41
open XC XC.C38

/-! ## the time rule -/

/-- the intended rule: both stamps are non-negative int64 values (or ValidBefore = infinity) and
    ValidAfter ≤ now < ValidBefore -/
def timeSpec (now : Int) (va vb : Nat) : Prop :=
  va < 9223372036854775808 ∧ (va : Int) ≤ now ∧
    (vb = certTimeInfinity ∨ (vb < 9223372036854775808 ∧ now < (vb : Int)))   -- 9223372036854775808 = 2^63

theorem timeGo_true (now : Int) (va vb : Nat) :
    timeGo now va vb = true ↔
      ¬ (toInt64 va < 0 ∨ now < toInt64 va) ∧ ¬ (vb ≠ certTimeInfinity ∧ (now ≥ toInt64 vb ∨ toInt64 vb < 0)) := by
  unfold timeGo
  by_cases hA : (toInt64 va < 0 ∨ now < toInt64 va)
  · rw [if_pos hA]; exact ⟨fun h => absurd h (by decide), fun h => absurd hA h.1⟩
  · rw [if_neg hA]
    by_cases hB : (vb ≠ certTimeInfinity ∧ (now ≥ toInt64 vb ∨ toInt64 vb < 0))
    · rw [if_pos hB]; exact ⟨fun h => absurd h (by decide), fun h => absurd hB h.2⟩
    · rw [if_neg hB]; exact ⟨fun _ => ⟨hA, hB⟩, fun _ => rfl⟩

theorem toInt64_cases (u : Nat) :
    (u < 9223372036854775808 ∧ toInt64 u = (u : Int)) ∨
    (¬ u < 9223372036854775808 ∧ toInt64 u = (u : Int) - 18446744073709551616) := by
  unfold toInt64
  by_cases h : u < 9223372036854775808
  · exact Or.inl ⟨h, if_pos h⟩
  · exact Or.inr ⟨h, if_neg h⟩

/-- for every uint64 ValidAfter/ValidBefore and every clock value, the two tests written in CheckCert
    (with their int64 casts) decide exactly the intended window; stamps ≥ 2^63 (negative after the
    cast) are rejected, except ValidBefore = CertTimeInfinity -/
theorem timeGo_iff (now : Int) (va vb : Nat) (ha : va < 18446744073709551616) (hb : vb < 18446744073709551616) :
    timeGo now va vb = true ↔ timeSpec now va vb := by
  rw [timeGo_true]
  unfold timeSpec certTimeInfinity
  have ea := toInt64_cases va
  have eb := toInt64_cases vb
  generalize toInt64 va = x at *
  generalize toInt64 vb = y at *
  constructor
  · intro h; refine ⟨by omega, by omega, by omega⟩
  · intro h; refine ⟨by omega, by omega⟩

example : timeGo 100 100 101 = true ∧ timeGo 100 101 200 = false ∧ timeGo 100 0 100 = false ∧
    timeGo 100 0 certTimeInfinity = true ∧ timeGo 100 (2 ^ 63) certTimeInfinity = false ∧
    timeGo 100 0 (2 ^ 63) = false := by decide

/-! ## CheckCert -/

/-- `CheckCert` accepts iff: not revoked ∧ every critical option is source-address or supported ∧
    principal listed (or none listed) ∧ time rule ∧ the CA signature verifies over
    `bytesForSigning` (the re-marshalled certificate). -/
theorem checkCert_iff (verify : PubKey → Bytes → Sig → Bool) (ck : Checker) (p : Bytes) (c : Cert) :
    checkCert verify ck p c = .accept ↔
      ck.revoked c = false ∧
      (∀ kv ∈ c.critOpts, kv.1 = sourceAddress ∨ kv.1 ∈ ck.supported) ∧
      (c.principals = [] ∨ p ∈ c.principals) ∧
      timeGo ck.now c.validAfter c.validBefore = true ∧
      ∃ msg s, c.bytesForSigning = some msg ∧ c.sig = some s ∧ verify c.sigKey msg s = true := by
  unfold checkCert
  have ho : optsOk ck.supported c.critOpts = true ↔
      ∀ kv ∈ c.critOpts, kv.1 = sourceAddress ∨ kv.1 ∈ ck.supported := by
    simp [optsOk, List.all_eq_true]
  have hp : principalOk p c.principals = true ↔ (c.principals = [] ∨ p ∈ c.principals) := by
    simp [principalOk, List.isEmpty_iff]
  rw [← ho, ← hp]
  cases hr : ck.revoked c <;>
    cases h1 : optsOk ck.supported c.critOpts <;>
    cases h2 : principalOk p c.principals <;>
    cases h3 : timeGo ck.now c.validAfter c.validBefore <;>
    simp
  cases hb : c.bytesForSigning with
  | none => simp
  | some msg =>
    cases hs : c.sig with
    | none => simp
    | some s => cases hv : verify c.sigKey msg s <;> simp [hv]

/-- non-vacuity: the iff has accepting instances -/
example : ∃ (c : Cert), checkCert (fun _ _ _ => true) ⟨[], none, 5⟩ [] c = .accept :=
  ⟨⟨[], .ed25519 [], 0, 1, [], [], 0, certTimeInfinity, [], [], [], .ed25519 [], some ⟨[], [], []⟩⟩, by decide⟩

/-- a nil `*Signature` or an unknown key type panics instead of being decided: never reached from
    `ParsePublicKey` output (see `parseCert_sig_some`) -/
theorem parseCert_sig_some (o : PtOracle) (algo b : Bytes) (c : Cert) (h : parseCert o algo b = some c) :
    c.sig ≠ none := by
  unfold parseCert at h
  repeat (split at h; (· cases h))
  simp only [Option.some.injEq] at h
  subst h
  simp

/-! ## Authenticate / CheckHostKey -/

theorem authenticate_iff (cfg : AuthCfg) (key : AnyKey) (chk : Cert → Res) :
    authenticate cfg key chk = .accept ↔
      (∃ k, key = .plain k ∧ cfg.fallback = .ok) ∨
      (∃ c auths, key = .cert c ∧ c.certType = 1 ∧ cfg.authorities = some auths ∧
        c.sigKey.marshal ∈ auths ∧ chk c = .accept) := by
  unfold authenticate
  cases key with
  | plain k => cases hf : cfg.fallback <;> simp [hf]
  | cert c =>
    by_cases ht : c.certType = 1
    · cases ha : cfg.authorities with
      | none => simp [ht]
      | some auths =>
        by_cases hm : c.sigKey.marshal ∈ auths <;> simp [ht, hm]
    · simp [ht]

theorem checkHostKey_iff (cfg : AuthCfg) (key : AnyKey) (split : Option Bytes) (chk : Bytes → Cert → Res) :
    checkHostKey cfg key split chk = .accept ↔
      (∃ k, key = .plain k ∧ cfg.fallback = .ok) ∨
      (∃ c auths host, key = .cert c ∧ c.certType = 2 ∧ cfg.authorities = some auths ∧
        c.sigKey.marshal ∈ auths ∧ split = some host ∧ chk host c = .accept) := by
  unfold checkHostKey
  cases key with
  | plain k => cases hf : cfg.fallback <;> simp [hf]
  | cert c =>
    by_cases ht : c.certType = 2
    · cases ha : cfg.authorities with
      | none => simp [ht]
      | some auths =>
        by_cases hm : c.sigKey.marshal ∈ auths
        · cases hs : split <;> simp [ht, hm]
        · simp [ht, hm]
    · simp [ht]

/-! ## signed bytes: re-marshal vs received -/

theorem bytesForSigning_eq (c : Cert) (t : Bytes) (ht : certTypeOf c.key = some t) :
    c.bytesForSigning = some (c.signedPart t) := by
  unfold Cert.bytesForSigning Cert.marshal
  simp only [ht]
  have e : ({ c with sig := none } : Cert).signedPart t = c.signedPart t := rfl
  rw [e]
  have l4 : (putString ([] : Bytes)).length = 4 := rfl
  simp only [List.length_append, l4, Nat.add_sub_cancel, List.take_left']

/-- If the received bytes are the certificate's own marshalling, the received signed bytes are
    exactly `bytesForSigning` … -/
theorem recvSigned_of_canonical (c : Cert) (b : Bytes) (s : Sig) (hs : c.sig = some s)
    (hm : c.marshal = some b) : c.bytesForSigning = some (recvSigned b c) := by
  unfold Cert.marshal at hm
  cases ht : certTypeOf c.key with
  | none => simp [ht] at hm
  | some t =>
    simp only [ht, hs, Option.some.injEq] at hm
    rw [bytesForSigning_eq c t ht]
    unfold recvSigned
    simp only [hs, ← hm, List.length_append, Nat.add_sub_cancel, List.take_left']

/-- … hence on canonical input the code's decision is the property's decision. -/
theorem checkCert_eq_recv_of_canonical (verify : PubKey → Bytes → Sig → Bool) (ck : Checker) (p : Bytes)
    (c : Cert) (b : Bytes) (s : Sig) (hs : c.sig = some s) (hm : c.marshal = some b) :
    checkCert verify ck p c = checkCertRecv verify ck p c (recvSigned b c) := by
  unfold checkCert checkCertRecv
  rw [recvSigned_of_canonical c b s hs hm, hs]

/-! ## the negation: parse is not injective, so unsigned received bytes are accepted -/

def zeros32 : Bytes := List.replicate 32 0

/-- witness certificate: Ed25519 subject and CA keys, one extension `a` with the empty value -/
def wCert : Cert :=
  ⟨[], .ed25519 zeros32, 0, 1, [], [], 0, certTimeInfinity, [], [([97], [])], [], .ed25519 zeros32,
   some ⟨algoED25519, [], []⟩⟩

/-- its canonical encoding (what a CA signs) -/
def wCanon : Bytes := (wCert.marshal).getD []

/-- the same certificate with the extension's data field written as `00 00 00 04 00 00 00 00`
    (a data field holding an inner empty string) instead of `00 00 00 00` -/
def wRecv : Bytes :=
  wCert.signedPart certAlgoED25519 |>.take 0 |>.append
    (putString certAlgoED25519 ++ putString wCert.nonce ++ wCert.key.body ++
     putU64 0 ++ putU32 1 ++ putString [] ++ putString [] ++ putU64 0 ++ putU64 certTimeInfinity ++
     putString [] ++ putString (putString [97] ++ putString (putString [])) ++ putString [] ++
     putString wCert.sigKey.marshal ++ putString (putSig ⟨algoED25519, [], []⟩))

def noPts : PtOracle := fun _ _ => false

/-- both byte strings are accepted by the parser, they differ, and they yield the same certificate -/
theorem parse_not_injective :
    wRecv ≠ wCanon ∧ parseCertKey noPts wRecv = some wCert ∧ parseCertKey noPts wCanon = some wCert := by
  decide +kernel

/-- `parseCert b = some c → Marshal c = b` is false -/
theorem parse_marshal_not_canonical :
    ¬ (∀ (o : PtOracle) (b : Bytes) (c : Cert), parseCertKey o b = some c → c.marshal = some b) := by
  intro h
  have h1 := h noPts wRecv wCert parse_not_injective.2.1
  have h2 : wCert.marshal = some wCanon := by decide +kernel
  rw [h2, Option.some.injEq] at h1
  exact parse_not_injective.1 h1.symm

/-- A CA that signed exactly the canonical bytes (and nothing else): the code accepts the
    certificate received as `wRecv`, although the CA signature does not verify over the received
    signed bytes — the clause "verifies over exactly the certificate bytes that were received" fails. -/
theorem reencoding_accepted :
    let verify : PubKey → Bytes → Sig → Bool := fun _ msg _ => msg = recvSigned wCanon wCert
    let ck : Checker := ⟨[], none, 0⟩
    parseCertKey noPts wRecv = some wCert ∧
    checkCert verify ck [] wCert = .accept ∧
    checkCertRecv verify ck [] wCert (recvSigned wRecv wCert) = .reject := by
  decide +kernel

/-- and the converse: a CA signature over the received (non-canonical) bytes is rejected -/
theorem received_signature_rejected :
    let verify : PubKey → Bytes → Sig → Bool := fun _ msg _ => msg = recvSigned wRecv wCert
    let ck : Checker := ⟨[], none, 0⟩
    checkCert verify ck [] wCert = .reject ∧
    checkCertRecv verify ck [] wCert (recvSigned wRecv wCert) = .accept := by
  decide +kernel

/-- non-vacuity of `marshal_parse` (XC/Proofs/C41.lean): the witness certificate is well-formed, and the
    theorem applies to its canonical encoding -/
example : parsePublicKey noPts wCanon = some (.cert wCert) := by
  have hw : CertWF noPts wCert ⟨algoED25519, [], []⟩ := by
    refine ⟨?_, ?_, rfl, ?_, ?_, ?_, ?_, ?_, ?_, ?_, ?_, ?_, ?_, ?_, ?_, ?_, ?_, ?_, ?_, ?_, ?_⟩
    all_goals first
      | decide
      | (show zeros32.length = 32; decide)
      | (exact ⟨Or.inr rfl, by decide, by decide⟩)
      | (intro p hp; exact absurd hp List.not_mem_nil)
      | (intro kv hkv; simp only [wCert, List.mem_singleton] at hkv; subst hkv; exact ⟨by decide, by decide⟩)
  exact marshal_parse noPts wCert _ hw wCanon (by decide +kernel)

/-- The full property as stated: for every received blob that parses, the decision is the one
    over the received bytes.  It does NOT hold of the code (`reencoding_accepted`); it holds on
    canonical blobs (`checkCert_eq_recv_of_canonical`). -/
def C41_full : Prop :=
  ∀ (o : PtOracle) (verify : PubKey → Bytes → Sig → Bool) (ck : Checker) (p b : Bytes) (c : Cert),
    parseCertKey o b = some c → checkCert verify ck p c = checkCertRecv verify ck p c (recvSigned b c)

theorem C41_full_fails : ¬ C41_full := by
  intro h
  have := h noPts (fun _ msg _ => msg = recvSigned wCanon wCert) ⟨[], none, 0⟩ [] wRecv wCert
    parse_not_injective.2.1
  have w := reencoding_accepted
  simp only at w
  rw [w.2.1, w.2.2] at this
  exact absurd this (by decide)

end XC.C41
