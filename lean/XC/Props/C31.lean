/-
  C31 — property theorems over XC.Model.C31: invariants of the send-side transition system, for all
  interleavings of any number of writers with the key-exchange loop.
-/
import XC.Model.C31
namespace XC.C31
set_option linter.unusedSimpArgs false

/-! ## list lemmas about the wire predicates -/

theorem wireScan_append (b : Bool) (l r : List Item) :
    wireScan b (l ++ r) = (wireScan b l && wireScan (inKexAfter b l) r) := by
  induction l generalizing b with
  | nil => simp [wireScan, inKexAfter]
  | cons x l ih =>
    cases x <;> simp [wireScan, inKexAfter, ih, Bool.and_assoc]

theorem inKexAfter_append (b : Bool) (l r : List Item) :
    inKexAfter b (l ++ r) = inKexAfter (inKexAfter b l) r := by
  induction l generalizing b with
  | nil => simp [inKexAfter]
  | cons x l ih => cases x <;> simp [inKexAfter, ih]

theorem wireScan_apps (l : List (Nat × Nat)) : wireScan false (l.map (fun p => Item.app p.1 p.2)) = true := by
  induction l with
  | nil => rfl
  | cons x l ih => simp [wireScan, ih]

theorem inKexAfter_apps (b : Bool) (l : List (Nat × Nat)) :
    inKexAfter b (l.map (fun p => Item.app p.1 p.2)) = b := by
  induction l with
  | nil => rfl
  | cons x l ih => simp [inKexAfter, ih]

theorem onWire_append (w : Nat) (l r : List Item) : onWire w (l ++ r) = onWire w l ++ onWire w r := by
  induction l with
  | nil => simp [onWire]
  | cons x l ih =>
    cases x with
    | app v n => by_cases h : v = w <;> simp [onWire, h, ih]
    | kexinit => simp [onWire, ih]
    | kexmsg => simp [onWire, ih]
    | newkeys => simp [onWire, ih]

/-- sequence numbers of writer w in a queue of (writer, seqno) pairs -/
def seqOf (w : Nat) (l : List (Nat × Nat)) : List Nat := (l.filter (fun p => p.1 == w)).map (·.2)

/-- sequence numbers of writer w among the parked writers -/
def parkedOf (w : Nat) (l : List Parked) : List Nat := (l.filter (fun p => p.w == w)).map (·.n)

theorem onWire_apps (w : Nat) (l : List (Nat × Nat)) :
    onWire w (l.map (fun p => Item.app p.1 p.2)) = seqOf w l := by
  induction l with
  | nil => rfl
  | cons x l ih =>
    by_cases h : x.1 = w
    · simp [onWire, seqOf, h, List.filter] at ih ⊢; exact ih
    · have h' : (x.1 == w) = false := by simpa using h
      simp [onWire, seqOf, h, h', List.filter] at ih ⊢; exact ih

theorem seqOf_append (w : Nat) (a b : List (Nat × Nat)) : seqOf w (a ++ b) = seqOf w a ++ seqOf w b := by
  simp [seqOf]

theorem parkedOf_append (w : Nat) (a b : List Parked) : parkedOf w (a ++ b) = parkedOf w a ++ parkedOf w b := by
  simp [parkedOf]

theorem parkedOf_map_signal (w : Nat) (l : List Parked) (f : Parked → Bool) :
    parkedOf w (l.map (fun q => { q with signalled := f q })) = parkedOf w l := by
  induction l with
  | nil => rfl
  | cons x l ih =>
    by_cases h : x.w == w <;> simp [parkedOf, List.filter, h] at ih ⊢ <;> exact ih

theorem parkedOf_of_not_parked (s : St) (w : Nat) (h : isParked s w = false) : parkedOf w s.parked = [] := by
  unfold isParked at h
  unfold parkedOf
  have : s.parked.filter (fun p => p.w == w) = [] := by
    rw [List.filter_eq_nil_iff]
    intro p hp
    have := List.any_eq_false.mp h p hp
    simpa using this
  simp [this]

theorem parkedOf_filter_other (w v : Nat) (l : List Parked) (h : w ≠ v) :
    parkedOf w (l.filter (fun q => !(q.w == v))) = parkedOf w l := by
  unfold parkedOf
  rw [List.filter_filter]
  congr 1
  apply List.filter_congr
  intro x _
  by_cases hx : x.w = w
  · have hv : ¬ x.w = v := fun e => h (hx ▸ e)
    simp [hx, hv]
    exact fun e => h e
  · simp [hx]

theorem parkedOf_filter_self (w : Nat) (l : List Parked) :
    parkedOf w (l.filter (fun q => !(q.w == w))) = [] := by
  unfold parkedOf
  rw [List.filter_filter]
  have : l.filter (fun a => (a.w == w) && !(a.w == w)) = [] := by
    rw [List.filter_eq_nil_iff]
    intro x _
    by_cases hx : x.w = w <;> simp [hx]
  rw [this]; rfl

theorem bump_self (f : Nat → Nat) (w : Nat) : bump f w w = f w + 1 := by simp [bump]
theorem bump_other (f : Nat → Nat) (w v : Nat) (h : v ≠ w) : bump f w v = f v := by simp [bump, h]

/-! ## the invariant -/

structure Inv (s : St) : Prop where
  wire_ok : wireOK s.wire = true
  inkex : inKexAfter false s.wire = (s.kphase == .sent)
  sent_iff : s.sentInit = (s.kphase != .idle)
  pend_empty : s.sentInit = false → s.pending = []
  bound : s.pending.length ≤ maxPending
  order : ∀ w, onWire w s.wire ++ seqOf w s.pending ++ parkedOf w s.parked = List.range (s.next w)
  one_parked : ∀ w, (parkedOf w s.parked).length ≤ 1
  wakeup : s.sentInit = false → ∀ p ∈ s.parked, p.signalled = true

theorem inv_init : Inv init := by
  refine ⟨rfl, rfl, rfl, fun _ => rfl, by simp [init], ?_, ?_, ?_⟩
  · intro w; simp [init, onWire, seqOf, parkedOf]
  · intro w; simp [init, parkedOf]
  · intro _ p hp; simp [init] at hp

theorem find_parked (l : List Parked) (w : Nat) (p : Parked)
    (hf : l.find? (fun p => p.w == w) = some p) (h1 : (parkedOf w l).length ≤ 1) :
    p.w = w ∧ parkedOf w l = [p.n] ∧ p ∈ l := by
  have hm := List.find?_some hf
  have hmem := List.mem_of_find?_eq_some hf
  have hw : p.w = w := by simpa using hm
  refine ⟨hw, ?_, hmem⟩
  have hin : p ∈ l.filter (fun p => p.w == w) := List.mem_filter.mpr ⟨hmem, hm⟩
  unfold parkedOf at h1 ⊢
  generalize l.filter (fun p => p.w == w) = fl at *
  match fl, hin, h1 with
  | [x], hin, _ => simp at hin; subst hin; rfl
  | _ :: _ :: _, _, h1 => simp at h1

theorem inv_step (s s' : St) (l : Label) (h : step s l = some s') (hi : Inv s) : Inv s' := by
  obtain ⟨h1, h2, h3, h4, h5, h6, h7, h8⟩ := hi
  cases l with
  | submit w =>
    simp only [step] at h
    by_cases hp : isParked s w = true
    · simp [hp] at h
    · have hp' : isParked s w = false := by simpa using hp
      have hpk := parkedOf_of_not_parked s w hp'
      simp only [hp', Bool.false_eq_true, if_false] at h
      by_cases hs : s.sentInit = true
      · -- queue or park
        simp only [hs, Bool.not_true, Bool.false_eq_true, if_false] at h
        by_cases hl : s.pending.length < maxPending
        · simp only [hl, if_true, Option.some.injEq] at h
          subst h
          refine ⟨h1, h2, hs ▸ h3, fun e => by simp at e, by simp; omega, ?_, h7, fun e => by simp at e⟩
          intro v
          by_cases hv : v = w
          · subst hv
            have := h6 v
            simp only [seqOf_append, bump_self]
            rw [hpk] at this ⊢
            simp only [List.append_nil] at this ⊢
            rw [List.range_succ, ← this]
            simp [seqOf, List.filter]
          · have := h6 v
            simp only [seqOf_append, bump_other _ _ _ hv]
            have hvw : (w == v) = false := by simpa using (fun e => hv e.symm)
            simp [seqOf, List.filter, hvw] at this ⊢
            exact this
        · simp only [hl, if_false, Option.some.injEq] at h
          subst h
          refine ⟨h1, h2, hs ▸ h3, fun e => by simp at e, h5, ?_, ?_, fun e => by simp at e⟩
          · intro v
            by_cases hv : v = w
            · subst hv
              have := h6 v
              simp only [parkedOf_append, bump_self]
              rw [hpk] at this ⊢
              simp only [List.append_nil, List.nil_append] at this ⊢
              rw [List.range_succ, ← this]
              simp [parkedOf, List.filter]
            · have := h6 v
              simp only [parkedOf_append, bump_other _ _ _ hv]
              have hvw : (w == v) = false := by simpa using (fun e => hv e.symm)
              simp [parkedOf, List.filter, hvw] at this ⊢
              exact this
          · intro v
            simp only [parkedOf_append]
            by_cases hv : v = w
            · subst hv; rw [hpk]; simp [parkedOf, List.filter]
            · have hvw : (w == v) = false := by simpa using (fun e => hv e.symm)
              have := h7 v
              simp [parkedOf, List.filter, hvw] at this ⊢
              exact this
      · -- direct push
        have hs' : s.sentInit = false := by simpa using hs
        have hpe := h4 hs'
        simp only [hs', Bool.not_false, if_true, Option.some.injEq] at h
        subst h
        refine ⟨?_, ?_, hs' ▸ h3, fun _ => hpe, h5, ?_, h7, fun _ => h8 hs'⟩
        · show wireOK (s.wire ++ [Item.app w (s.next w)]) = true
          unfold wireOK at h1 ⊢
          rw [wireScan_append, h1, h2]
          have : (s.kphase == KPhase.sent) = false := by
            rw [h3] at hs'
            cases hk : s.kphase <;> simp [hk] at hs' ⊢
          simp [this, wireScan]
        · show inKexAfter false (s.wire ++ [Item.app w (s.next w)]) = _
          rw [inKexAfter_append, h2]; simp [inKexAfter]
        · intro v
          have := h6 v
          rw [hpe] at this ⊢
          simp only [onWire_append]
          by_cases hv : v = w
          · subst hv
            rw [hpk] at this ⊢
            simp only [bump_self, seqOf, List.filter, List.map, List.append_nil] at this ⊢
            rw [List.range_succ, ← this]
            simp [onWire]
          · have hvw : ¬ w = v := fun e => hv e.symm
            simp only [bump_other _ _ _ hv]
            simp [onWire, hvw] at this ⊢
            exact this
  | wake w =>
    simp only [step] at h
    cases hf : s.parked.find? (fun p => p.w == w) with
    | none => simp [hf] at h
    | some p =>
      simp only [hf] at h
      obtain ⟨hpw, hpo, hpm⟩ := find_parked s.parked w p hf (h7 w)
      by_cases hsg : p.signalled = true
      · simp only [hsg, Bool.not_true, Bool.false_eq_true, if_false] at h
        by_cases hs : s.sentInit = true
        · simp only [hs, if_true, Option.some.injEq] at h
          subst h
          refine ⟨h1, h2, hs ▸ h3, fun e => by simp at e, h5, ?_, ?_, fun e => by simp at e⟩
          · intro v
            have := h6 v
            have e : parkedOf v (s.parked.map (fun q => if q.w == w then { q with signalled := false } else q))
                = parkedOf v s.parked := by
              have : (fun q : Parked => if q.w == w then { q with signalled := false } else q)
                  = (fun q : Parked => { q with signalled := (if q.w == w then false else q.signalled) }) := by
                funext q; by_cases hq : q.w == w <;> simp [hq]
              rw [this]
              exact parkedOf_map_signal v s.parked (fun q => if q.w == w then false else q.signalled)
            simp only [e]; exact this
          · intro v
            have e : parkedOf v (s.parked.map (fun q => if q.w == w then { q with signalled := false } else q))
                = parkedOf v s.parked := by
              have : (fun q : Parked => if q.w == w then { q with signalled := false } else q)
                  = (fun q : Parked => { q with signalled := (if q.w == w then false else q.signalled) }) := by
                funext q; by_cases hq : q.w == w <;> simp [hq]
              rw [this]
              exact parkedOf_map_signal v s.parked (fun q => if q.w == w then false else q.signalled)
            simp only [e]; exact h7 v
        · have hs' : s.sentInit = false := by simpa using hs
          have hpe := h4 hs'
          simp only [hs', Bool.false_eq_true, if_false, Option.some.injEq] at h
          subst h
          refine ⟨?_, ?_, hs' ▸ h3, fun _ => hpe, h5, ?_, ?_, ?_⟩
          · show wireOK (s.wire ++ [Item.app p.w p.n]) = true
            unfold wireOK at h1 ⊢
            rw [wireScan_append, h1, h2]
            have : (s.kphase == KPhase.sent) = false := by
              rw [h3] at hs'
              cases hk : s.kphase <;> simp [hk] at hs' ⊢
            simp [this, wireScan]
          · show inKexAfter false (s.wire ++ [Item.app p.w p.n]) = _
            rw [inKexAfter_append, h2]; simp [inKexAfter]
          · intro v
            have := h6 v
            rw [hpe] at this ⊢
            simp only [onWire_append]
            by_cases hv : v = w
            · subst hv
              rw [hpo] at this
              rw [parkedOf_filter_self]
              simp only [seqOf, List.filter, List.map, List.append_nil] at this ⊢
              rw [← this]
              simp [onWire, hpw]
            · rw [parkedOf_filter_other v w _ hv]
              have hvw : ¬ p.w = v := by rw [hpw]; exact fun e => hv e.symm
              simp [onWire, hvw] at this ⊢
              exact this
          · intro v
            by_cases hv : v = w
            · subst hv; rw [parkedOf_filter_self]; simp
            · rw [parkedOf_filter_other v w _ hv]; exact h7 v
          · intro _ q hq
            exact h8 hs' q (List.mem_filter.mp hq).1
      · have : p.signalled = false := by simpa using hsg
        simp [this] at h
  | kexinit =>
    simp only [step] at h
    by_cases hc : (s.kphase == .idle && !s.sentInit) = true
    · simp only [hc, if_true, Option.some.injEq] at h
      subst h
      have hk : s.kphase = .idle := by
        have := (Bool.and_eq_true _ _).mp hc
        simpa using this.1
      refine ⟨?_, ?_, rfl, fun e => by simp at e, h5, ?_, h7, fun e => by simp at e⟩
      · show wireOK (s.wire ++ [Item.kexinit]) = true
        unfold wireOK at h1 ⊢
        rw [wireScan_append, h1, h2]
        simp [hk, wireScan]
      · show inKexAfter false (s.wire ++ [Item.kexinit]) = _
        rw [inKexAfter_append]; simp [inKexAfter]
      · intro v; have := h6 v; simp only [onWire_append]; simpa [onWire] using this
    · have : (s.kphase == .idle && !s.sentInit) = false := by simpa using hc
      simp [this] at h
  | kexmsg =>
    simp only [step] at h
    by_cases hc : (s.kphase == .idle) = true
    · simp [hc] at h
    · have hc' : (s.kphase == .idle) = false := by simpa using hc
      simp only [hc', Bool.false_eq_true, if_false, Option.some.injEq] at h
      subst h
      refine ⟨?_, ?_, h3, h4, h5, ?_, h7, h8⟩
      · show wireOK (s.wire ++ [Item.kexmsg]) = true
        unfold wireOK at h1 ⊢
        rw [wireScan_append, h1]; simp [wireScan]
      · show inKexAfter false (s.wire ++ [Item.kexmsg]) = _
        rw [inKexAfter_append, h2]; simp [inKexAfter]
      · intro v; have := h6 v; simp only [onWire_append]; simpa [onWire] using this
  | newkeys =>
    simp only [step] at h
    by_cases hc : (s.kphase == .sent) = true
    · simp only [hc, if_true, Option.some.injEq] at h
      subst h
      have hk : s.kphase = .sent := by simpa using hc
      refine ⟨?_, ?_, ?_, fun e => ?_, h5, ?_, h7, fun e => ?_⟩
      · show wireOK (s.wire ++ [Item.newkeys]) = true
        unfold wireOK at h1 ⊢
        rw [wireScan_append, h1, h2]; simp [hk, wireScan]
      · show inKexAfter false (s.wire ++ [Item.newkeys]) = _
        rw [inKexAfter_append]; simp [inKexAfter]
      · show s.sentInit = _
        rw [h3, hk]; rfl
      · have : s.sentInit = true := by rw [h3, hk]; rfl
        simp [this] at e
      · intro v; have := h6 v; simp only [onWire_append]; simpa [onWire] using this
      · have : s.sentInit = true := by rw [h3, hk]; rfl
        simp [this] at e
    · have : (s.kphase == .sent) = false := by simpa using hc
      simp [this] at h
  | finish =>
    simp only [step] at h
    by_cases hc : (s.kphase == .finishing) = true
    · simp only [hc, if_true, Option.some.injEq] at h
      subst h
      have hk : s.kphase = .finishing := by simpa using hc
      refine ⟨?_, ?_, rfl, fun _ => rfl, by simp, ?_, ?_, ?_⟩
      · show wireOK (s.wire ++ s.pending.map (fun p => Item.app p.1 p.2)) = true
        unfold wireOK at h1 ⊢
        rw [wireScan_append, h1, h2, hk]
        have e : (KPhase.finishing == KPhase.sent) = false := by decide
        rw [e]; simp [wireScan_apps]
      · show inKexAfter false (s.wire ++ s.pending.map (fun p => Item.app p.1 p.2)) = _
        rw [inKexAfter_append, inKexAfter_apps, h2, hk]; rfl
      · intro v
        have := h6 v
        simp only [onWire_append, onWire_apps]
        rw [parkedOf_map_signal v s.parked (fun _ => true)]
        simpa [seqOf] using this
      · intro v
        rw [parkedOf_map_signal v s.parked (fun _ => true)]
        exact h7 v
      · intro _ p hp
        simp at hp
        obtain ⟨q, _, rfl⟩ := hp
        rfl
    · have : (s.kphase == .finishing) = false := by simpa using hc
      simp [this] at h

theorem inv_run (ls : List Label) : ∀ (s s' : St), Inv s → runFrom s ls = some s' → Inv s' := by
  induction ls with
  | nil => intro s s' hi h; simp [runFrom] at h; subst h; exact hi
  | cons l ls ih =>
    intro s s' hi h
    simp only [runFrom] at h
    cases hs : step s l with
    | none => simp [hs] at h
    | some t => simp only [hs] at h; exact ih t s' (inv_step s t l hs hi) h

/-! ## the property theorems: every reachable state, i.e. every interleaving of any number of writers -/

/-- **no_app_between_kexinit_and_newkeys** -/
theorem no_app_between_kexinit_and_newkeys (ls : List Label) (s : St) (h : runFrom init ls = some s) :
    wireOK s.wire = true := (inv_run ls init s inv_init h).wire_ok

/-- **exactly_once_in_order**: writer w's packets on the wire, then those still queued, then the one it is parked
    with, are exactly 0, 1, …, (number submitted) − 1 — nothing lost, nothing duplicated, order kept. -/
theorem exactly_once_in_order (ls : List Label) (s : St) (h : runFrom init ls = some s) (w : Nat) :
    onWire w s.wire ++ seqOf w s.pending ++ parkedOf w s.parked = List.range (s.next w) :=
  (inv_run ls init s inv_init h).order w

/-- at quiescence (nothing queued, nobody parked) the wire carries exactly what each writer submitted, in order -/
theorem quiescent_wire_complete (ls : List Label) (s : St) (h : runFrom init ls = some s)
    (hq : s.pending = []) (hp : s.parked = []) (w : Nat) :
    writerOrdered w (s.next w) s.wire = true := by
  have := exactly_once_in_order ls s h w
  rw [hq, hp] at this
  simp [seqOf, parkedOf] at this
  simp [writerOrdered, this]

/-- **pending_bounded** -/
theorem pending_bounded (ls : List Label) (s : St) (h : runFrom init ls = some s) :
    s.pending.length ≤ 64 := (inv_run ls init s inv_init h).bound

/-- **no_lost_wakeup**: whenever no key exchange is in progress, every parked writer has been signalled
    (the Broadcast is in the critical section that clears `sentInitMsg`) … -/
theorem no_lost_wakeup (ls : List Label) (s : St) (h : runFrom init ls = some s) (hs : s.sentInit = false) :
    ∀ p ∈ s.parked, p.signalled = true := (inv_run ls init s inv_init h).wakeup hs

/-- … and its `wake` step is enabled and puts its packet on the wire (progress of a parked writer) -/
theorem writer_unblocks (ls : List Label) (s : St) (h : runFrom init ls = some s) (hs : s.sentInit = false)
    (p : Parked) (hp : p ∈ s.parked) :
    ∃ s' q, step s (.wake p.w) = some s' ∧ s'.wire = s.wire ++ [.app p.w q] ∧ isParked s' p.w = false := by
  have hi := inv_run ls init s inv_init h
  have hex : ∃ q, s.parked.find? (fun x => x.w == p.w) = some q := by
    cases hf : s.parked.find? (fun x => x.w == p.w) with
    | some q => exact ⟨q, rfl⟩
    | none =>
      have := List.find?_eq_none.mp hf p hp
      simp at this
  obtain ⟨q, hq⟩ := hex
  obtain ⟨hqw, _, hqm⟩ := find_parked s.parked p.w q hq (hi.one_parked p.w)
  have hsig := hi.wakeup hs q hqm
  refine ⟨{ s with parked := s.parked.filter (fun x => !(x.w == p.w)), wire := s.wire ++ [.app q.w q.n] }, q.n, ?_, ?_, ?_⟩
  · simp only [step, hq, hsig, hs]
    simp
  · simp [hqw]
  · simp [isParked, List.any_eq_false]

/-- while our key exchange is in progress nothing a writer submits reaches the wire:
    it is queued (up to 64) or the writer is parked -/
theorem submit_during_kex_not_on_wire (s s' : St) (w : Nat) (hs : s.sentInit = true)
    (h : step s (.submit w) = some s') : s'.wire = s.wire := by
  simp only [step] at h
  by_cases hp : isParked s w = true
  · simp [hp] at h
  · have hp' : isParked s w = false := by simpa using hp
    simp only [hp', hs, Bool.false_eq_true, if_false, Bool.not_true] at h
    by_cases hl : s.pending.length < maxPending
    · simp only [hl, if_true, Option.some.injEq] at h; subst h; rfl
    · simp only [hl, if_false, Option.some.injEq] at h; subst h; rfl

/-! ## non-vacuity: a run with a re-key, a queued packet and a parked-free flush -/

example :
    (runFrom init [.submit 0, .kexinit, .submit 0, .submit 1, .kexmsg, .newkeys, .finish, .submit 1]).map (·.wire)
      = some [.app 0 0, .kexinit, .kexmsg, .newkeys, .app 0 1, .app 1 0, .app 1 1] := by
  decide

example : wireOK [.app 0 0, .kexinit, .app 0 1, .newkeys] = false := by decide

/-! ## receive side: what reaches `incoming` across key changes -/

def phaseOf : Bool → RPhase
  | true => .inKex
  | false => .idle

theorem recvRun_cons (s : RSt) (x : Item) (l : List Item) : recvRun s (x :: l) = recvRun (recv s x) l := rfl

theorem recvRun_of_wireScan (l : List Item) : ∀ (b : Bool) (d : List (Nat × Nat)), wireScan b l = true →
    recvRun ⟨phaseOf b, d⟩ l = ⟨phaseOf (inKexAfter b l), d ++ appsOf l⟩ := by
  induction l with
  | nil => intro b d _; simp [recvRun, inKexAfter, appsOf]
  | cons x l ih =>
    intro b d h
    rw [recvRun_cons]
    cases x with
    | app w n =>
      cases b with
      | true => simp [wireScan] at h
      | false =>
        simp only [wireScan, Bool.not_false, Bool.true_and] at h
        have e : recv ⟨phaseOf false, d⟩ (.app w n) = ⟨phaseOf false, d ++ [(w, n)]⟩ := rfl
        rw [e, ih false _ h]
        simp [inKexAfter, appsOf]
    | kexinit =>
      cases b with
      | true => simp [wireScan] at h
      | false =>
        simp only [wireScan, Bool.not_false, Bool.true_and] at h
        have e : recv ⟨phaseOf false, d⟩ .kexinit = ⟨phaseOf true, d⟩ := rfl
        rw [e, ih true _ h]
        simp [inKexAfter, appsOf]
    | kexmsg =>
      simp only [wireScan] at h
      have e : recv ⟨phaseOf b, d⟩ .kexmsg = ⟨phaseOf b, d⟩ := by cases b <;> rfl
      rw [e, ih b _ h]
      simp [inKexAfter, appsOf]
    | newkeys =>
      cases b with
      | false => simp [wireScan] at h
      | true =>
        simp only [wireScan, Bool.true_and] at h
        have e : recv ⟨phaseOf true, d⟩ .newkeys = ⟨phaseOf false, d⟩ := rfl
        rw [e, ih false _ h]
        simp [inKexAfter, appsOf]

/-- **delivered_exactly_once_in_order** (peer → us): whatever prefix of the peer's wire has arrived — the peer being
    any reachable state of the send-side system, i.e. any interleaving of its writers with its key exchanges — the
    receive side has not failed and `incoming` got exactly the application packets of that prefix, in wire order:
    none lost or duplicated across the key changes, none swallowed by the key exchange. -/
theorem delivered_exactly_once_in_order (ls : List Label) (s : St) (h : runFrom init ls = some s)
    (pre rest : List Item) (hw : s.wire = pre ++ rest) :
    (recvRun rinit pre).phase ≠ .failed ∧ (recvRun rinit pre).delivered = appsOf pre := by
  have hok := no_app_between_kexinit_and_newkeys ls s h
  unfold wireOK at hok
  rw [hw, wireScan_append] at hok
  have hpre : wireScan false pre = true := by
    cases hh : wireScan false pre <;> simp [hh] at hok ⊢
  have := recvRun_of_wireScan pre false [] hpre
  have e : rinit = ⟨phaseOf false, []⟩ := rfl
  rw [e, this]
  constructor
  · cases inKexAfter false pre <;> simp [phaseOf]
  · simp

theorem seqOf_appsOf (w : Nat) (l : List Item) : seqOf w (appsOf l) = onWire w l := by
  induction l with
  | nil => rfl
  | cons x l ih =>
    cases x with
    | app v n =>
      by_cases hv : v = w
      · simp [appsOf, onWire, seqOf, List.filter, hv] at ih ⊢; exact ih
      · have hv' : (v == w) = false := by simpa using hv
        simp [appsOf, onWire, seqOf, List.filter, hv, hv'] at ih ⊢; exact ih
    | kexinit => simpa [appsOf, onWire] using ih
    | kexmsg => simpa [appsOf, onWire] using ih
    | newkeys => simpa [appsOf, onWire] using ih

/-- end to end, per writer: once the peer is quiescent and its whole wire has arrived, writer w's packets in
    `incoming` are exactly 0, 1, …, submitted − 1 in order -/
theorem delivered_per_writer_complete (ls : List Label) (s : St) (h : runFrom init ls = some s)
    (hq : s.pending = []) (hp : s.parked = []) (w : Nat) :
    seqOf w (recvRun rinit s.wire).delivered = List.range (s.next w) := by
  have hd := (delivered_exactly_once_in_order ls s h s.wire [] (by simp)).2
  rw [hd, seqOf_appsOf]
  have := exactly_once_in_order ls s h w
  rw [hq, hp] at this
  simpa [seqOf, parkedOf] using this

/-! ## threshold accounting -/

structure BInv (m : Nat) (s : BSt) : Prop where
  sum : s.bytesLeft + (s.counted : Int) = (s.thr : Int)
  low : -(m : Int) < s.bytesLeft
  over0 : s.over = 0 → s.direct = s.counted
  req : 0 < s.over → (s.reqKex = true ∨ s.woken = true ∨ s.sentInit = true)
  pk : s.pktsLeft ≤ packetBudget

theorem binv_init (m thr : Nat) (hm : 0 < m) : BInv m (binit thr) := by
  refine ⟨by simp [binit], by simp [binit]; omega, fun _ => rfl, fun h => by simp [binit] at h, by simp [binit]⟩

theorem binv_step (m : Nat) (s s' : BSt) (l : BLabel) (hsz : sizesBounded m [l] = true)
    (h : bstep s l = some s') (hi : BInv m s) : BInv m s' := by
  obtain ⟨h1, h2, h3, h4, h5⟩ := hi
  cases l with
  | push z =>
    have hz : z ≤ m := by simpa [sizesBounded] using hsz
    simp only [bstep] at h
    by_cases hs : s.sentInit = true
    · simp [hs] at h
    · have hs' : s.sentInit = false := by simpa using hs
      simp only [hs', Bool.false_eq_true, if_false, Option.some.injEq] at h
      subst h
      by_cases hb : s.bytesLeft ≤ 0 <;> by_cases hp : s.pktsLeft = 0
      · refine ⟨by simpa [hb] using h1, by simpa [hb] using h2, fun e => by simp [hb] at e,
                fun _ => by simp [hb], by simpa [hp] using h5⟩
      · refine ⟨by simpa [hb] using h1, by simpa [hb] using h2, fun e => by simp [hb] at e,
                fun _ => by simp [hb], by simp [hp]; omega⟩
      · refine ⟨by simp [hb]; omega, by simp [hb]; omega, fun e => by simp [hb, hp] at e,
                fun _ => by simp [hp], by simpa [hp] using h5⟩
      · refine ⟨by simp [hb]; omega, by simp [hb]; omega, fun e => ?_, fun e => ?_, by simp [hp]; omega⟩
        · simp [hb, hp] at e ⊢
          have := h3 e; omega
        · simp [hb, hp] at e ⊢
          have := h4 e
          simpa [hs'] using this
  | request =>
    simp only [bstep, Option.some.injEq] at h; subst h
    exact ⟨h1, h2, h3, fun _ => Or.inl rfl, h5⟩
  | take =>
    simp only [bstep] at h
    split at h
    · simp only [Option.some.injEq] at h; subst h
      exact ⟨h1, h2, h3, fun _ => Or.inr (Or.inl rfl), h5⟩
    · simp at h
  | peerInit =>
    simp only [bstep] at h
    split at h
    · simp only [Option.some.injEq] at h; subst h
      exact ⟨h1, h2, h3, fun _ => Or.inr (Or.inl rfl), h5⟩
    · simp at h
  | drain =>
    simp only [bstep] at h
    split at h
    · rename_i hc
      simp only [Option.some.injEq] at h; subst h
      have : s.sentInit = true := by
        have := (Bool.and_eq_true _ _).mp hc; exact this.2
      exact ⟨h1, h2, h3, fun _ => Or.inr (Or.inr this), h5⟩
    · simp at h
  | kexinit =>
    simp only [bstep] at h
    split at h
    · simp only [Option.some.injEq] at h; subst h
      exact ⟨h1, h2, h3, fun _ => Or.inr (Or.inr rfl), h5⟩
    · simp at h
  | finish =>
    simp only [bstep] at h
    split at h
    · simp only [Option.some.injEq] at h; subst h
      refine ⟨by simp, by simp; omega, fun _ => rfl, fun e => by simp at e, by simp⟩
    · simp at h

theorem binv_run (m : Nat) : ∀ (ls : List BLabel) (s s' : BSt), sizesBounded m ls = true → BInv m s →
    brun s ls = some s' → BInv m s' := by
  intro ls
  induction ls with
  | nil => intro s s' _ hi h; simp [brun] at h; subst h; exact hi
  | cons l ls ih =>
    intro s s' hsz hi h
    simp only [brun] at h
    have hl : sizesBounded m [l] = true ∧ sizesBounded m ls = true := by
      cases l <;> simp [sizesBounded] at hsz ⊢ <;> first | exact hsz | exact ⟨hsz.1, hsz.2⟩
    cases hs : bstep s l with
    | none => simp [hs] at h
    | some t => simp only [hs] at h; exact ih t s' hl.2 (binv_step m s t l hl.1 hs hi) h

/-- the bytes charged to one budget never exceed the threshold by a full packet: the last charged packet started
    with a positive remainder -/
theorem budget_bounded (m thr : Nat) (hm : 0 < m) (ls : List BLabel) (s : BSt)
    (hsz : sizesBounded m ls = true) (h : brun (binit thr) ls = some s) :
    s.counted < s.thr + m := by
  have hi := binv_run m ls _ s hsz (binv_init m thr hm) h
  have := hi.sum; have := hi.low
  omega

/-- **exhausted ⇒ re-key pending**: as soon as one packet has been pushed with an exhausted byte or packet budget,
    a key exchange has been requested (token in `requestKex`), is about to start, or is running -/
theorem exhausted_implies_rekey_pending (m thr : Nat) (hm : 0 < m) (ls : List BLabel) (s : BSt)
    (hsz : sizesBounded m ls = true) (h : brun (binit thr) ls = some s) (ho : 0 < s.over) :
    s.reqKex = true ∨ s.woken = true ∨ s.sentInit = true :=
  (binv_run m ls _ s hsz (binv_init m thr hm) h).req ho

/-- **rekey_requested_before_budget_exhausted**: while no key exchange is requested, about to start or running,
    the application bytes pushed directly under the current keys are below threshold + one packet.
    (What the code does *not* bound: packets pushed after the request and before `kexLoop` gets to send KEXINIT,
    and the ≤ 64 queued packets flushed uncharged right after a key exchange.) -/
theorem rekey_requested_before_budget_exhausted (m thr : Nat) (hm : 0 < m) (ls : List BLabel) (s : BSt)
    (hsz : sizesBounded m ls = true) (h : brun (binit thr) ls = some s)
    (hq : s.reqKex = false ∧ s.woken = false ∧ s.sentInit = false) :
    s.direct < s.thr + m := by
  have hi := binv_run m ls _ s hsz (binv_init m thr hm) h
  have ho : s.over = 0 := by
    cases ho : s.over with
    | zero => rfl
    | succ k =>
      have := hi.req (by omega)
      obtain ⟨a, b, c⟩ := hq
      simp [a, b, c] at this
  rw [hi.over0 ho]
  have := hi.sum; have := hi.low
  omega

/-- the threshold stays what it was configured to be -/
example : (brun (binit 256) [.push 200, .push 100, .push 50, .take, .kexinit, .finish]).map (fun s => (s.bytesLeft, s.direct))
    = some (256, 0) := by decide
example : (brun (binit 256) [.push 200, .push 100, .push 50]).map (fun s => (s.bytesLeft, s.reqKex, s.over, s.direct))
    = some (-44, true, 1, 350) := by decide

/-- the effective byte budget is always between the 256-byte minimum and 2^63 − 1 (it fits an int64) -/
theorem effectiveThreshold_range (thr : Nat) (c : String) :
    256 ≤ effectiveThreshold thr c ∧ effectiveThreshold thr c ≤ 2 ^ 63 - 1 := by
  unfold effectiveThreshold
  repeat' split
  all_goals (simp_all <;> omega)

example : effectiveThreshold 0 "aes128-gcm@openssh.com" = 68719476736 ∧ effectiveThreshold 0 "chacha20-poly1305@openssh.com" = 1073741824 ∧
    effectiveThreshold 255 "aes128-ctr" = 256 ∧ effectiveThreshold 256 "aes128-ctr" = 256 ∧
    effectiveThreshold (2 ^ 63) "aes128-ctr" = 9223372036854775807 ∧
    effectiveThreshold (2 ^ 64 - 1) "aes128-ctr" = 9223372036854775807 := by decide

/-! ## the error path -/

theorem estep_ok_err (e e' : ESt) (l : Label) (h : estep e (.ok l) = some e') : e'.err = e.err := by
  cases l with
  | wake w =>
    simp only [estep] at h
    by_cases he : e.err = true
    · simp only [he, if_true] at h
      split at h
      · simp at h
      · split at h
        · simp at h
        · simp only [Option.some.injEq] at h; subst h; exact he.symm
    · have he' : e.err = false := by simpa using he
      simp only [he', Bool.false_eq_true, if_false, Option.map_eq_some_iff] at h
      obtain ⟨_, _, rfl⟩ := h; exact he'.symm
  | submit w =>
    simp only [estep] at h
    by_cases he : e.err = true
    · simp [he] at h
    · have he' : e.err = false := by simpa using he
      simp only [he', Bool.false_eq_true, if_false, Option.map_eq_some_iff] at h
      obtain ⟨_, _, rfl⟩ := h; exact he'.symm
  | kexinit =>
    simp only [estep] at h
    by_cases he : e.err = true
    · simp [he] at h
    · have he' : e.err = false := by simpa using he
      simp only [he', Bool.false_eq_true, if_false, Option.map_eq_some_iff] at h
      obtain ⟨_, _, rfl⟩ := h; exact he'.symm
  | kexmsg =>
    simp only [estep] at h
    by_cases he : e.err = true
    · simp [he] at h
    · have he' : e.err = false := by simpa using he
      simp only [he', Bool.false_eq_true, if_false, Option.map_eq_some_iff] at h
      obtain ⟨_, _, rfl⟩ := h; exact he'.symm
  | newkeys =>
    simp only [estep] at h
    by_cases he : e.err = true
    · simp [he] at h
    · have he' : e.err = false := by simpa using he
      simp only [he', Bool.false_eq_true, if_false, Option.map_eq_some_iff] at h
      obtain ⟨_, _, rfl⟩ := h; exact he'.symm
  | finish =>
    simp only [estep] at h
    by_cases he : e.err = true
    · simp [he] at h
    · have he' : e.err = false := by simpa using he
      simp only [he', Bool.false_eq_true, if_false, Option.map_eq_some_iff] at h
      obtain ⟨_, _, rfl⟩ := h; exact he'.symm

/-- while `writeError` is set every parked writer has been signalled -/
def EInv (e : ESt) : Prop := e.err = true → ∀ p ∈ e.s.parked, p.signalled = true

theorem einv_step (e e' : ESt) (l : ELabel) (h : estep e l = some e') (hi : EInv e) : EInv e' := by
  cases l with
  | ok l =>
    intro he'
    have hsame := estep_ok_err e e' l h
    rw [hsame] at he'
    -- with the error set only `wake` is enabled: the parked list shrinks
    cases l with
    | wake w =>
      simp only [estep, he', if_true] at h
      split at h
      · simp at h
      · split at h
        · simp at h
        · simp only [Option.some.injEq] at h; subst h
          intro p hp
          exact hi he' p (List.mem_filter.mp hp).1
    | submit w => simp [estep, he'] at h
    | kexinit => simp [estep, he'] at h
    | kexmsg => simp [estep, he'] at h
    | newkeys => simp [estep, he'] at h
    | finish => simp [estep, he'] at h
  | fail =>
    simp only [estep, Option.some.injEq] at h; subst h
    intro _ p hp
    simp at hp
    obtain ⟨q, _, rfl⟩ := hp; rfl
  | submitErr w =>
    simp only [estep] at h
    split at h
    · simp only [Option.some.injEq] at h; subst h; exact hi
    · simp at h
  | finishErr =>
    simp only [estep] at h
    split at h
    · simp at h
    · simp only [Option.some.injEq] at h; subst h
      intro _ p hp
      simp at hp
      obtain ⟨q, _, rfl⟩ := hp; rfl

theorem einv_run : ∀ (ls : List ELabel) (e e' : ESt), EInv e → erun e ls = some e' → EInv e' := by
  intro ls
  induction ls with
  | nil => intro e e' hi h; simp [erun] at h; subst h; exact hi
  | cons l ls ih =>
    intro e e' hi h
    simp only [erun] at h
    cases hs : estep e l with
    | none => simp [hs] at h
    | some t => simp only [hs] at h; exact ih t e' (einv_step e t l hs hi) h

/-- **error_releases_writers**: in every reachable state in which `writeError` is set, each parked writer has been
    signalled, its wake step is enabled, and taking it releases the writer (with the error: nothing is pushed) -/
theorem error_releases_writers (ls : List ELabel) (e : ESt) (h : erun einit ls = some e) (he : e.err = true)
    (p : Parked) (hp : p ∈ e.s.parked) :
    p.signalled = true ∧
    ∃ e', estep e (.ok (.wake p.w)) = some e' ∧ isParked e'.s p.w = false ∧ e'.s.wire = e.s.wire ∧ e'.err = true := by
  have hinv : EInv e := einv_run ls einit e (fun he0 => by simp [einit] at he0) h
  refine ⟨hinv he p hp, ?_⟩
  have hex : ∃ q, e.s.parked.find? (fun x => x.w == p.w) = some q := by
    cases hf : e.s.parked.find? (fun x => x.w == p.w) with
    | some q => exact ⟨q, rfl⟩
    | none =>
      have := List.find?_eq_none.mp hf p hp
      simp at this
  obtain ⟨q, hq⟩ := hex
  have hqm := List.mem_of_find?_eq_some hq
  have hsig := hinv he q hqm
  refine ⟨{ e with s := { e.s with parked := e.s.parked.filter (fun x => !(x.w == p.w)) } }, ?_, ?_, rfl, he⟩
  · simp [estep, he, hq, hsig]
  · simp [isParked, List.any_eq_false]

/-- the moment the error is recorded everybody is signalled (`recordWriteError`'s Broadcast) -/
theorem fail_signals_all (e e' : ESt) (h : estep e .fail = some e') :
    e'.err = true ∧ ∀ p ∈ e'.s.parked, p.signalled = true := by
  simp only [estep, Option.some.injEq] at h; subst h
  refine ⟨rfl, ?_⟩
  intro p hp
  simp at hp
  obtain ⟨q, _, rfl⟩ := hp; rfl

/-- **failed_rekey_writes_nothing**: when `enterKeyExchange` fails, the closing critical section pushes nothing
    (the queued packets are dropped), `writeError` is set, `sentInitMsg` is cleared and every parked writer is
    signalled — so by `error_releases_writers` they all leave with the error -/
theorem failed_rekey_writes_nothing (e e' : ESt) (h : estep e .finishErr = some e') :
    e'.s.wire = e.s.wire ∧ e'.err = true ∧ e'.s.pending = [] ∧ e'.s.sentInit = false ∧
    ∀ p ∈ e'.s.parked, p.signalled = true := by
  simp only [estep] at h
  split at h
  · simp at h
  · simp only [Option.some.injEq] at h; subst h
    refine ⟨rfl, rfl, rfl, rfl, ?_⟩
    intro p hp
    simp at hp
    obtain ⟨q, _, rfl⟩ := hp; rfl

/-- once set, the error stays set and nothing more reaches the wire -/
theorem err_sticky (e e' : ESt) (l : ELabel) (h : estep e l = some e') (he : e.err = true) :
    e'.err = true ∧ e'.s.wire = e.s.wire := by
  cases l with
  | ok l =>
    refine ⟨by rw [estep_ok_err e e' l h]; exact he, ?_⟩
    cases l with
    | wake w =>
      simp only [estep, he, if_true] at h
      split at h
      · simp at h
      · split at h
        · simp at h
        · simp only [Option.some.injEq] at h; subst h; rfl
    | submit w => simp [estep, he] at h
    | kexinit => simp [estep, he] at h
    | kexmsg => simp [estep, he] at h
    | newkeys => simp [estep, he] at h
    | finish => simp [estep, he] at h
  | fail => simp only [estep, Option.some.injEq] at h; subst h; exact ⟨rfl, rfl⟩
  | submitErr w =>
    simp only [estep, he, if_true, Option.some.injEq] at h; subst h; exact ⟨he, rfl⟩
  | finishErr => simp [estep, he] at h

/-- the wire predicate survives the error path: in every reachable state of the system with errors — including after
    a failed key exchange — no application packet follows a KEXINIT of ours without our NEWKEYS in between -/
def EWire (e : ESt) : Prop := (e.err = false → Inv e.s) ∧ wireOK e.s.wire = true

theorem ewire_step (e e' : ESt) (l : ELabel) (h : estep e l = some e') (hi : EWire e) : EWire e' := by
  obtain ⟨h1, h2⟩ := hi
  by_cases he : e.err = true
  · obtain ⟨a, b⟩ := err_sticky e e' l h he
    exact ⟨(fun c => by simp [a] at c), by rw [b]; exact h2⟩
  · have he' : e.err = false := by simpa using he
    have hinv := h1 he'
    cases l with
    | ok l =>
      have hs : ∃ s', step e.s l = some s' ∧ e'.s = s' := by
        cases l <;> (simp only [estep, he', Bool.false_eq_true, if_false, Option.map_eq_some_iff] at h;
                     obtain ⟨s', hs, rfl⟩ := h; exact ⟨s', hs, rfl⟩)
      obtain ⟨s', hs, hs'⟩ := hs
      have := inv_step e.s s' l hs hinv
      unfold EWire
      rw [hs']
      exact ⟨fun _ => this, this.wire_ok⟩
    | fail =>
      simp only [estep, Option.some.injEq] at h; subst h
      exact ⟨(fun c => by simp at c), h2⟩
    | submitErr w => simp [estep, he'] at h
    | finishErr =>
      simp only [estep] at h
      split at h
      · simp at h
      · simp only [Option.some.injEq] at h; subst h
        exact ⟨(fun c => by simp at c), h2⟩

theorem no_app_between_kexinit_and_newkeys_with_errors (ls : List ELabel) (e : ESt) (h : erun einit ls = some e) :
    wireOK e.s.wire = true := by
  have gen : ∀ (ls : List ELabel) (a b : ESt), EWire a → erun a ls = some b → EWire b := by
    intro ls
    induction ls with
    | nil => intro a b hi h; simp [erun] at h; subst h; exact hi
    | cons l ls ih =>
      intro a b hi h
      simp only [erun] at h
      cases hs : estep a l with
      | none => simp [hs] at h
      | some t => simp only [hs] at h; exact ih t b (ewire_step a t l hs hi) h
  exact (gen ls einit e ⟨fun _ => inv_init, rfl⟩ h).2

example : (erun einit [.ok .kexinit, .ok .kexmsg, .ok (.submit 0), .finishErr]).map (fun e => (e.s.wire, e.err))
    = some ([.kexinit, .kexmsg], true) := by decide

/-! ## bounded buffers: releasing the read loop before the flush cannot deadlock -/

/-- **no_deadlock_release_before_flush**: with the order of the code (`request.done` before the flush) a state in which
    nothing can move is a state in which both closing sections are finished and both buffers are drained — for any
    queue lengths, any buffer capacity ≥ 1, any buffer contents: there is no deadlock state at all -/
theorem no_deadlock_release_before_flush (s : DSt) (hc : 0 < s.cap) (h : dStuck true s) : dDone s := by
  have ph : ∀ i, (s.e i).phase = .idle := by
    intro i
    cases hp : (s.e i).phase with
    | idle => rfl
    | exch => have := h (.release i); simp [dstep, hp] at this
    | flushing =>
      exfalso
      by_cases hz : (s.e i).toFlush = 0
      · have := h (.flushDone i); simp [dstep, hp, hz] at this
      · by_cases hr : s.ch i < s.cap
        · have := h (.flushOne i)
          simp [dstep, hp, hr] at this
          omega
        · -- buffer full: the peer's read loop is free (the peer is not in `exch`, else `release` would be enabled)
          have hne : (s.e (!i)).phase ≠ .exch := by
            intro he; have := h (.release (!i)); simp [dstep, he] at this
          have hfree : readerFree true (s.e (!i)).phase = true := by
            cases hq : (s.e (!i)).phase <;> simp [readerFree, hq] at hne ⊢
          have := h (.consume (!i))
          simp [dstep, hfree] at this
          omega
  intro i
  refine ⟨ph i, ?_⟩
  have hfree : readerFree true (s.e (!i)).phase = true := by simp [readerFree, ph (!i)]
  by_cases hz : s.ch i = 0
  · exact hz
  · have := h (.consume (!i))
    simp [dstep, hfree] at this
    omega

/-- every step makes progress towards the end: runs are finite (at most `dMeasure` steps) -/
theorem dstep_measure (early : Bool) (s s' : DSt) (l : DLabel) (h : dstep early s l = some s') :
    dMeasure s' < dMeasure s := by
  cases l with
  | release i =>
    simp only [dstep] at h
    split at h
    · rename_i hp
      simp only [Option.some.injEq] at h; subst h
      have hp' : (s.e i).phase = .exch := by simpa using hp
      cases i <;> simp [dMeasure, setE, hp', phaseWeight]
    · simp at h
  | flushOne i =>
    simp only [dstep] at h
    split at h
    · rename_i hc
      simp only [Option.some.injEq] at h; subst h
      simp only [Bool.and_eq_true, decide_eq_true_eq] at hc
      obtain ⟨⟨_, hpos⟩, _⟩ := hc
      cases i <;> simp [dMeasure, setE, setCh] <;> omega
    · simp at h
  | flushDone i =>
    simp only [dstep] at h
    split at h
    · rename_i hc
      simp only [Option.some.injEq] at h; subst h
      have hp' : (s.e i).phase = .flushing := by
        have := (Bool.and_eq_true _ _).mp hc; simpa using this.1
      cases i <;> simp [dMeasure, setE, hp', phaseWeight]
    · simp at h
  | consume j =>
    simp only [dstep] at h
    split at h
    · rename_i hc
      simp only [Option.some.injEq] at h; subst h
      simp only [Bool.and_eq_true, decide_eq_true_eq] at hc
      obtain ⟨_, hpos⟩ := hc
      cases j <;> simp [dMeasure, setCh] at hpos ⊢ <;> omega
    · simp at h

theorem drun_length (early : Bool) : ∀ (ls : List DLabel) (s s' : DSt), drun early s ls = some s' →
    dMeasure s' + ls.length ≤ dMeasure s := by
  intro ls
  induction ls with
  | nil => intro s s' h; simp [drun] at h; subst h; simp
  | cons l ls ih =>
    intro s s' h
    simp only [drun] at h
    cases hs : dstep early s l with
    | none => simp [hs] at h
    | some t =>
      simp only [hs] at h
      have := ih t s' h
      have := dstep_measure early s t l hs
      simp only [List.length_cons]; omega

/-- a closing section is only left with an empty queue -/
def DInv (s : DSt) : Prop := ∀ i, (s.e i).phase = .idle → (s.e i).toFlush = 0

theorem dinv_step (early : Bool) (s s' : DSt) (l : DLabel) (h : dstep early s l = some s') (hi : DInv s) : DInv s' := by
  intro k hk
  cases l with
  | release i =>
    simp only [dstep] at h
    split at h
    · simp only [Option.some.injEq] at h; subst h
      by_cases e : k = i
      · subst e; simp [setE] at hk
      · simp [setE, e] at hk ⊢; exact hi k hk
    · simp at h
  | flushOne i =>
    simp only [dstep] at h
    split at h
    · rename_i hc
      simp only [Option.some.injEq] at h; subst h
      have hp : (s.e i).phase = .flushing := by
        simp only [Bool.and_eq_true] at hc; simpa using hc.1.1
      by_cases e : k = i
      · subst e; simp [setE, setCh, hp] at hk
      · simp [setE, setCh, e] at hk ⊢; exact hi k hk
    · simp at h
  | flushDone i =>
    simp only [dstep] at h
    split at h
    · rename_i hc
      simp only [Option.some.injEq] at h; subst h
      have hz : (s.e i).toFlush = 0 := by
        have := (Bool.and_eq_true _ _).mp hc; simpa using this.2
      by_cases e : k = i
      · subst e; simp [setE, hz]
      · simp [setE, e] at hk ⊢; exact hi k hk
    · simp at h
  | consume j =>
    simp only [dstep] at h
    split at h
    · simp only [Option.some.injEq] at h; subst h
      simp [setCh] at hk ⊢; exact hi k hk
    · simp at h

/-- **progress, end to end**: start with both endpoints inside the key exchange, any queue lengths q0, q1 and any buffer
    capacity ≥ 1. Every run is finite, and a run that cannot be extended has flushed both queues completely, drained
    both buffers and left both closing sections. -/
theorem rekey_flush_completes (cap q0 q1 : Nat) (hc : 0 < cap) (ls : List DLabel) (s : DSt)
    (h : drun true ⟨fun i => ⟨.exch, if i then q1 else q0⟩, fun _ => 0, cap⟩ ls = some s) (hst : dStuck true s) :
    dDone s ∧ (∀ i, (s.e i).toFlush = 0) ∧ ls.length ≤ 4 + 2 * q0 + 2 * q1 := by
  have hcap : s.cap = cap := by
    have gen : ∀ (ls : List DLabel) (a b : DSt), drun true a ls = some b → b.cap = a.cap := by
      intro ls
      induction ls with
      | nil => intro a b h; simp [drun] at h; subst h; rfl
      | cons l ls ih =>
        intro a b h
        simp only [drun] at h
        cases hs : dstep true a l with
        | none => simp [hs] at h
        | some t =>
          simp only [hs] at h
          rw [ih t b h]
          cases l <;> (simp only [dstep] at hs; split at hs <;> simp at hs <;> subst hs <;> simp [setE, setCh])
    simpa using gen ls _ s h
  have hd := no_deadlock_release_before_flush s (by rw [hcap]; exact hc) hst
  have hinv : DInv s := by
    have gen : ∀ (ls : List DLabel) (a b : DSt), DInv a → drun true a ls = some b → DInv b := by
      intro ls
      induction ls with
      | nil => intro a b hi h; simp [drun] at h; subst h; exact hi
      | cons l ls ih =>
        intro a b hi h
        simp only [drun] at h
        cases hs : dstep true a l with
        | none => simp [hs] at h
        | some t => simp only [hs] at h; exact ih t b (dinv_step true a t l hs hi) h
    exact gen ls _ s (by intro i hi; simp at hi) h
  refine ⟨hd, fun i => hinv i (hd i).1, ?_⟩
  have := drun_length true ls _ s h
  simp [dMeasure, phaseWeight] at this
  omega

/-- **the other order deadlocks**: if the read loop were released only after the flush, then with full buffers and
    packets left to flush on both sides nothing can move any more although nothing is finished -/
theorem deadlock_if_release_after_flush :
    ∃ s : DSt, 0 < s.cap ∧ dStuck false s ∧ ¬ dDone s ∧
      ∃ ls, drun false ⟨fun _ => ⟨.exch, 2⟩, fun _ => 0, 1⟩ ls = some s := by
  refine ⟨⟨fun _ => ⟨.flushing, 1⟩, fun _ => 1, 1⟩, by decide, ?_, ?_, ?_⟩
  · intro l
    cases l with
    | release i => cases i <;> rfl
    | flushOne i => cases i <;> rfl
    | flushDone i => cases i <;> rfl
    | consume j => cases j <;> rfl
  · intro h; have := (h true).1; simp at this
  · refine ⟨[.release false, .release true, .flushOne false, .flushOne true], ?_⟩
    simp only [drun, dstep, setE, setCh]
    simp
    constructor <;> funext k <;> cases k <;> simp

/-! ## non-vacuity: receive side, wake-up, error release -/

-- the receiver of the run above: app packets before, around and after a key exchange arrive in order
example : (recvRun rinit [.app 0 0, .kexinit, .kexmsg, .newkeys, .kexmsg, .app 0 1, .app 1 0]).delivered = [(0, 0), (0, 1), (1, 0)] ∧
    (recvRun rinit [.app 0 0, .kexinit, .app 0 1]).phase = .failed := by decide
-- a full queue: the 65th packet parks its writer; after the key exchange it is signalled, wakes and pushes
example :
    ((runFrom init ([.kexinit] ++ List.replicate 64 (.submit 0) ++ [.submit 1, .newkeys, .finish, .wake 1])).map
      (fun s => (s.parked, s.pending.length, s.wire.length, s.wire.getLast?))) = some ([], 0, 67, some (.app 1 0)) := by
  decide
-- error while a writer is parked: it is released without pushing
example :
    ((erun einit ([.ok .kexinit] ++ List.replicate 64 (.ok (.submit 0)) ++ [.ok (.submit 1), .fail, .ok (.wake 1)])).map
      (fun e => (e.err, e.s.parked, e.s.wire))) = some (true, [], [.kexinit]) := by
  decide

end XC.C31
