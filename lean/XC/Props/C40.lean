/-
  C40 — SSH signatures verify exactly when valid: theorems over XC.Model.C40.

  The cryptographic primitives are the abstract oracle `cv` (universally quantified in every theorem):
  what is proved is the decision structure — which formats a key accepts, which hash and which message
  go to the primitive, how the blob / rest must be shaped, the user-presence rule, and that
  MultiAlgorithmSigner refuses unlisted algorithms.  That "cv accepts only genuine signatures" is the
  standard library's / cryptography's business (C40_full below names the residue).
-/
import XC.Model.C40
import XC.Proofs.C38_Wire
namespace XC.C40
open XC XC.C38 XC.C41

/-! ## the specification, written independently of `hashFunc` / `algorithmsForKeyFormat` -/

/-- RFC 4253 §6.6 / RFC 8332: hash per RSA signature format -/
def rsaHashTag (f : Bytes) : Bytes :=
  if f = algoRSA then nm "sha1" else if f = algoRSASHA256 then nm "sha256" else nm "sha512"

/-- RFC 5656 §6.2.1: hash per curve size -/
def curveHashTag (bits : Nat) : Bytes :=
  if bits = 256 then nm "sha256" else if bits = 384 then nm "sha384" else nm "sha512"

def leftPad (size : Nat) (b : Bytes) : Bytes := zeros (size - b.length) ++ b

/-- "a signature is accepted" as the property states it, per key kind -/
def VerifySpec (cv : CV) (k : PubKey) (noTouch : Bool) (data : Bytes) (s : Sig) : Prop :=
  match k with
  | .rsa _ n =>
    (s.format = algoRSA ∨ s.format = algoRSASHA256 ∨ s.format = algoRSASHA512) ∧
    cv (rsaHashTag s.format) data (leftPad (rsaSize n) s.blob) = true
  | .dsa .. => s.format = algoDSA ∧ s.blob.length = 40 ∧ cv (nm "sha1") data s.blob = true
  | .ecdsa bits pt =>
    (bits = 256 ∨ bits = 384 ∨ bits = 521) ∧ s.format = (PubKey.ecdsa bits pt).type ∧
    ∃ r ss, parseRS s.blob = some (r, ss) ∧ cv (curveHashTag bits) data (rsKey r ss) = true
  | .ed25519 kb => s.format = algoED25519 ∧ kb.length = 32 ∧ cv (nm "ed") data s.blob = true
  | .skecdsa _ app =>
    s.format = algoSKECDSA ∧
    ∃ r ss flags counter, parseRS s.blob = some (r, ss) ∧ parseSKFields s.rest = some (flags, counter) ∧
      (flags.toNat % 2 = 1 ∨ noTouch = true) ∧
      cv (nm "sk-ecdsa") (skMessage app flags counter data) (rsKey r ss) = true
  | .sked25519 kb app =>
    s.format = algoSKED25519 ∧ kb.length = 32 ∧ s.blob ≠ [] ∧
    ∃ flags counter, parseSKFields s.rest = some (flags, counter) ∧
      (flags.toNat % 2 = 1 ∨ noTouch = true) ∧
      cv (nm "sk-ed") (skMessage app flags counter data) s.blob = true

theorem leftPad_eq (size : Nat) (b : Bytes) :
    (if b.length < size then zeros (size - b.length) ++ b else b) = leftPad size b := by
  unfold leftPad
  by_cases h : b.length < size
  · simp only [h, ↓reduceIte]
  · have : size - b.length = 0 := by omega
    simp only [h, ↓reduceIte, this, zeros, List.replicate_zero, List.nil_append]

theorem mod2 (n : Nat) : ¬ (n % 2 = 0) ↔ n % 2 = 1 := by omega

theorem hf_rsa : hashFunc algoRSA = some .sha1 := by decide
theorem hf_rsa256 : hashFunc algoRSASHA256 = some .sha256 := by decide
theorem hf_rsa512 : hashFunc algoRSASHA512 = some .sha512 := by decide
theorem hf_dsa : hashFunc algoDSA = some .sha1 := by decide
theorem hf_ed : hashFunc algoED25519 = some .none := by decide
theorem hf_skec : hashFunc algoSKECDSA = some .sha256 := by decide
theorem hf_sked : hashFunc algoSKED25519 = some .sha256 := by decide
theorem hf_ec256 (pt : Bytes) : hashFunc (PubKey.ecdsa 256 pt).type = some .sha256 := by
  show hashFunc (nm "ecdsa-sha2-" ++ curveName 256) = _; decide
theorem hf_ec384 (pt : Bytes) : hashFunc (PubKey.ecdsa 384 pt).type = some .sha384 := by
  show hashFunc (nm "ecdsa-sha2-" ++ curveName 384) = _; decide
theorem hf_ec521 (pt : Bytes) : hashFunc (PubKey.ecdsa 521 pt).type = some .sha512 := by
  show hashFunc (nm "ecdsa-sha2-" ++ curveName 521) = _; decide
theorem hf_ecOther (bits : Nat) (pt : Bytes) (h : ¬ (bits = 256 ∨ bits = 384 ∨ bits = 521)) :
    hashFunc (PubKey.ecdsa bits pt).type = none := by
  have : curveName bits = [] := by
    unfold curveName
    split <;> simp_all
  show hashFunc (nm "ecdsa-sha2-" ++ curveName bits) = none
  rw [this]; decide

/-- **verify_iff**: for every key, data, signature and every behaviour of the crypto primitives, the code
    accepts exactly when the specification holds -/
theorem verify_iff (cv : CV) (k : PubKey) (noTouch : Bool) (data : Bytes) (s : Sig) :
    verify cv k noTouch data s = true ↔ VerifySpec cv k noTouch data s := by
  obtain ⟨fmt, blob, rest⟩ := s
  cases k with
  | rsa e n =>
    simp only [verify, VerifySpec, leftPad_eq]
    by_cases h1 : fmt = algoRSA
    · subst h1
      simp [hf_rsa, algorithmsForKeyFormat, rsaHashTag, hashTag]
    · by_cases h2 : fmt = algoRSASHA256
      · subst h2
        have d : algoRSASHA256 ≠ algoRSA := by decide
        simp [hf_rsa256, d, algorithmsForKeyFormat, rsaHashTag, hashTag]
      · by_cases h3 : fmt = algoRSASHA512
        · subst h3
          have d : algoRSASHA512 ≠ algoRSA := by decide
          have d2 : algoRSASHA512 ≠ algoRSASHA256 := by decide
          simp [hf_rsa512, d, d2, algorithmsForKeyFormat, rsaHashTag, hashTag]
        · simp [h1, h2, h3, algorithmsForKeyFormat]
  | dsa p q g y =>
    simp only [verify, VerifySpec]
    by_cases h1 : fmt = algoDSA
    · subst h1
      by_cases h2 : blob.length = 40 <;> simp [h2, hf_dsa, hashTag]
    · simp [h1]
  | ecdsa bits pt =>
    simp only [verify, VerifySpec]
    by_cases h1 : fmt = (PubKey.ecdsa bits pt).type
    · subst h1
      by_cases hb : bits = 256 ∨ bits = 384 ∨ bits = 521
      · cases hp : parseRS blob with
        | none => rcases hb with hb | hb | hb <;> subst hb <;> simp [hf_ec256, hf_ec384, hf_ec521, hp]
        | some p =>
          obtain ⟨r, ss⟩ := p
          rcases hb with hb | hb | hb <;> subst hb <;>
            simp [hf_ec256, hf_ec384, hf_ec521, hp, hashTag, curveHashTag] <;>
            exact ⟨fun h => ⟨r, ss, ⟨rfl, rfl⟩, h⟩, fun ⟨_, _, ⟨e1, e2⟩, h⟩ => by subst e1; subst e2; exact h⟩
      · simp [hf_ecOther bits pt hb, hb]
    · simp [h1]
  | skecdsa pt app =>
    simp only [verify, VerifySpec]
    by_cases h1 : fmt = algoSKECDSA
    · subst h1
      cases hp : parseRS blob with
      | none => simp [hf_skec, hp]
      | some p =>
        obtain ⟨r, ss⟩ := p
        cases hf : parseSKFields rest with
        | none => simp [hf_skec, hp, hf]
        | some q =>
          obtain ⟨flags, counter⟩ := q
          by_cases hu : flags.toNat % 2 = 0 <;> cases noTouch <;> simp [hf_skec, hp, hf, hu] <;>
            (constructor
             · intro h
               first
                 | exact ⟨_, _, ⟨rfl, rfl⟩, _, _, ⟨rfl, rfl⟩, h⟩
                 | exact ⟨_, _, ⟨rfl, rfl⟩, _, _, ⟨rfl, rfl⟩, by omega, h⟩
             · rintro ⟨_, _, ⟨rfl, rfl⟩, _, _, ⟨rfl, rfl⟩, h⟩
               first
                 | exact h
                 | exact h.2)
    · simp [h1]
  | ed25519 kb =>
    simp only [verify, VerifySpec]
    by_cases h1 : fmt = algoED25519 <;> by_cases h2 : kb.length = 32 <;> simp [h1, h2]
  | sked25519 kb app =>
    simp only [verify, VerifySpec]
    by_cases h1 : fmt = algoSKED25519
    · subst h1
      by_cases h2 : kb.length = 32
      · by_cases h3 : blob = []
        · simp [h2, h3, hf_sked]
        · have h3' : blob.isEmpty = false := by cases blob <;> simp_all
          cases hf : parseSKFields rest with
          | none => simp [h2, h3, h3', hf_sked, hf]
          | some q =>
            obtain ⟨flags, counter⟩ := q
            by_cases hu : flags.toNat % 2 = 0 <;> cases noTouch <;> simp [h2, h3, h3', hf_sked, hf, hu] <;>
              (constructor
               · intro h
                 first
                   | exact ⟨_, _, ⟨rfl, rfl⟩, h⟩
                   | exact ⟨_, _, ⟨rfl, rfl⟩, by omega, h⟩
               · rintro ⟨_, _, ⟨rfl, rfl⟩, h⟩
                 first
                   | exact h
                   | exact h.2)
      · simp [h2]
    · simp [h1]

/-! ## format × key-type table (finite) -/

/-- the ten algorithm names that can appear as Signature.Format plus certificate names -/
def knownFormats : List Bytes :=
  [algoRSA, algoRSASHA256, algoRSASHA512, algoDSA, algoECDSA256, algoECDSA384, algoECDSA521, algoED25519,
   algoSKECDSA, algoSKED25519, certAlgoRSA, certAlgoRSASHA256, certAlgoRSASHA512, certAlgoED25519, certAlgoSKED25519]

/-- formats a key type accepts (the property's "format not allowed for the key type") -/
def allowedFormats (keyType : Bytes) : List Bytes :=
  if keyType = algoRSA then [algoRSA, algoRSASHA256, algoRSASHA512] else [keyType]

/-- an accepted signature always carries a format allowed for the key's type — for every format string -/
theorem verify_format_allowed (cv : CV) (k : PubKey) (nt : Bool) (data : Bytes) (s : Sig)
    (h : verify cv k nt data s = true) : s.format ∈ allowedFormats k.type := by
  rw [verify_iff] at h
  cases k with
  | rsa e n =>
    have : (PubKey.rsa e n).type = algoRSA := rfl
    simp only [allowedFormats, this, ↓reduceIte, List.mem_cons, List.not_mem_nil, or_false]
    exact h.1
  | dsa p q g y =>
    have d : (PubKey.dsa p q g y).type ≠ algoRSA := by show algoDSA ≠ algoRSA; decide
    simp only [allowedFormats, d, ↓reduceIte, List.mem_singleton]; exact h.1
  | ecdsa bits pt =>
    obtain ⟨hb, hf, _⟩ := h
    have d : (PubKey.ecdsa bits pt).type ≠ algoRSA := by
      rcases hb with hb | hb | hb <;> subst hb <;> (show nm "ecdsa-sha2-" ++ curveName _ ≠ algoRSA; decide)
    simp only [allowedFormats, d, ↓reduceIte, List.mem_singleton]; exact hf
  | skecdsa pt app =>
    have d : (PubKey.skecdsa pt app).type ≠ algoRSA := by show algoSKECDSA ≠ algoRSA; decide
    simp only [allowedFormats, d, ↓reduceIte, List.mem_singleton]; exact h.1
  | ed25519 kb =>
    have d : (PubKey.ed25519 kb).type ≠ algoRSA := by show algoED25519 ≠ algoRSA; decide
    simp only [allowedFormats, d, ↓reduceIte, List.mem_singleton]; exact h.1
  | sked25519 kb app =>
    have d : (PubKey.sked25519 kb app).type ≠ algoRSA := by show algoSKED25519 ≠ algoRSA; decide
    simp only [allowedFormats, d, ↓reduceIte, List.mem_singleton]; exact h.1

/-- the complete cross table over the known names: which (key type, format) pairs pass the gate;
    exactly 10 of the 8 × 15 pairs (3 for ssh-rsa, 1 for each other type) -/
theorem format_cross_table :
    ([algoRSA, algoDSA, algoECDSA256, algoECDSA384, algoECDSA521, algoED25519, algoSKECDSA, algoSKED25519].map
      (fun kt => (knownFormats.filter (fun f => (allowedFormats kt).contains f)).length)) = [3, 1, 1, 1, 1, 1, 1, 1] := by
  decide +kernel

/-- `algorithmsForKeyFormat` (used by Verify for RSA, by the server and by the signers) lists the same
    formats as the specification table, for every plain key type -/
theorem algorithmsForKeyFormat_perm (kt : Bytes) (h : kt ≠ certAlgoRSA) (f : Bytes) :
    f ∈ algorithmsForKeyFormat kt ↔ f ∈ allowedFormats kt := by
  unfold algorithmsForKeyFormat allowedFormats
  by_cases h1 : kt = algoRSA
  · simp only [h1, ↓reduceIte, List.mem_cons, List.not_mem_nil, or_false]
    constructor <;> (intro h; rcases h with h | h | h <;> simp [h])
  · simp only [h1, h, ↓reduceIte]

/-! ## security keys: the user-presence rule -/

/-- for every flag byte with the UP bit clear (all 128 of them), every key, data, counter and every
    behaviour of the crypto primitives: rejected unless the no-touch opt-out applies -/
theorem sk_flag_rule (cv : CV) (k : PubKey) (data : Bytes) (s : Sig) (flags : UInt8) (counter : Nat)
    (hk : (∃ pt app, k = .skecdsa pt app) ∨ (∃ kb app, k = .sked25519 kb app))
    (hr : parseSKFields s.rest = some (flags, counter)) (hup : flags.toNat % 2 = 0) :
    verify cv k false data s = false := by
  cases hv : verify cv k false data s with
  | false => rfl
  | true =>
    rw [verify_iff] at hv
    rcases hk with ⟨pt, app, rfl⟩ | ⟨kb, app, rfl⟩
    · obtain ⟨_, r, ss, f, c, _, hf, hu, _⟩ := hv
      rw [hr] at hf
      simp only [Option.some.injEq, Prod.mk.injEq] at hf
      obtain ⟨rfl, rfl⟩ := hf
      rcases hu with hu | hu
      · omega
      · exact absurd hu (by decide)
    · obtain ⟨_, _, _, f, c, hf, hu, _⟩ := hv
      rw [hr] at hf
      simp only [Option.some.injEq, Prod.mk.injEq] at hf
      obtain ⟨rfl, rfl⟩ := hf
      rcases hu with hu | hu
      · omega
      · exact absurd hu (by decide)

/-- the `rest` field is exactly flags ‖ counter: five bytes -/
theorem parseSKFields_some (rest : Bytes) (f : UInt8) (c : Nat) :
    parseSKFields rest = some (f, c) ↔ rest = f :: putU32 c ∧ c < 4294967296 := by
  unfold parseSKFields
  cases rest with
  | nil => simp
  | cons a t =>
    simp only
    cases hp : parseU32 t with
    | none =>
      simp only [false_iff, not_and, reduceCtorEq]
      intro h hc
      simp only [List.cons.injEq] at h
      have := parseU32_putU32 c hc []
      rw [List.append_nil, ← h.2, hp] at this
      exact absurd this (by simp)
    | some p =>
      obtain ⟨n, r'⟩ := p
      obtain ⟨e, hl⟩ := parseU32_inv hp
      by_cases hr : r'.isEmpty = true
      · have hr' : r' = [] := List.isEmpty_iff.mp hr
        subst hr'
        rw [List.append_nil] at e
        simp only [hr, ↓reduceIte, Option.some.injEq, Prod.mk.injEq, List.cons.injEq]
        constructor
        · rintro ⟨rfl, rfl⟩; exact ⟨⟨rfl, e⟩, hl⟩
        · rintro ⟨⟨rfl, h2⟩, hc⟩
          refine ⟨rfl, ?_⟩
          have h3 := parseU32_putU32 c hc []
          rw [List.append_nil, ← h2, hp] at h3
          simpa using h3
      · simp only [hr, Bool.false_eq_true, ↓reduceIte, false_iff, not_and, reduceCtorEq]
        intro h hc
        simp only [List.cons.injEq] at h
        have h3 := parseU32_putU32 c hc []
        rw [List.append_nil, ← h.2, hp] at h3
        simp only [Option.some.injEq, Prod.mk.injEq] at h3
        exact hr (by simp [h3.2])

/-- `noTouchAllowed`: only the Extensions of the callback's Permissions or of the certificate count -/
theorem noTouchAllowed_iff (k : AnyKey) (p : Option (List (Bytes × Bytes))) :
    noTouchAllowed k p = true ↔
      (∃ l, p = some l ∧ ∃ kv ∈ l, kv.1 = noTouchRequired) ∨
      (∃ c, k = .cert c ∧ ∃ kv ∈ c.exts, kv.1 = noTouchRequired) := by
  unfold noTouchAllowed
  cases p <;> cases k <;> simp [List.any_eq_true]

/-! ## RSA: leading zero bytes (DESIGN §6 O5) -/

/-- an RSA signature blob and the same blob with one more leading zero byte are the same integer and
    are treated alike as long as they are not longer than the modulus -/
theorem rsa_leading_zero (cv : CV) (e n : Int) (nt : Bool) (data : Bytes) (f blob rest : Bytes)
    (h : blob.length + 1 ≤ rsaSize n) :
    verify cv (.rsa e n) nt data ⟨f, 0 :: blob, rest⟩ = verify cv (.rsa e n) nt data ⟨f, blob, rest⟩ := by
  simp only [verify, leftPad_eq]
  have : leftPad (rsaSize n) (0 :: blob) = leftPad (rsaSize n) blob := by
    unfold leftPad zeros
    simp only [List.length_cons]
    have e1 : rsaSize n - blob.length = (rsaSize n - (blob.length + 1)) + 1 := by omega
    rw [e1, List.replicate_succ', List.append_assoc]
    rfl
  rw [this]

/-! ## MultiAlgorithmSigner -/

/-- an algorithm that is not in the signer's list is refused — also the empty request, which stands
    for the key type's own algorithm -/
theorem multialg_refuses_unlisted (kt : Bytes) (supported : List Bytes) (alg : Bytes)
    (h : (if alg.isEmpty then underlyingAlgo kt else alg) ∉ supported) : multiSign kt supported alg = none := by
  unfold multiSign isAlgorithmSupported
  have : supported.contains (if alg.isEmpty then underlyingAlgo kt else alg) = false := by
    simpa using h
  simp only [this, Bool.not_false, ↓reduceIte]

/-- whatever it signs with is in the list it was restricted to -/
theorem multialg_signs_listed (kt : Bytes) (supported : List Bytes) (alg f : Bytes) (hne : alg ≠ [])
    (h : multiSign kt supported alg = some f) : f = alg ∧ f ∈ supported := by
  unfold multiSign isAlgorithmSupported at h
  have he : alg.isEmpty = false := by cases alg <;> simp_all
  simp only [he, Bool.false_eq_true, ↓reduceIte] at h
  by_cases h1 : supported.contains alg = true
  · simp only [h1, Bool.not_true, Bool.false_eq_true, ↓reduceIte] at h
    split at h
    · cases h
    · split at h
      · cases h
      · simp only [Option.some.injEq] at h
        subst h
        exact ⟨rfl, by simpa using h1⟩
  · simp only [h1, Bool.not_false, ↓reduceIte, reduceCtorEq] at h

/-- NewSignerWithAlgorithms only accepts lists drawn from the formats of the key type -/
theorem newSigner_sound (kt : Bytes) (own : Option (List Bytes)) (algs : List Bytes)
    (h : newSignerWithAlgorithms kt own algs = true) :
    algs ≠ [] ∧ ∀ a ∈ algs, a ∈ algorithmsForKeyFormat (underlyingAlgo kt) := by
  unfold newSignerWithAlgorithms at h
  cases algs with
  | nil => simp at h
  | cons x t =>
    simp only [List.isEmpty_cons, Bool.false_eq_true, ↓reduceIte, List.all_eq_true, Bool.and_eq_true] at h
    refine ⟨by simp, fun a ha => ?_⟩
    have := (h a ha).1
    simpa using this

/-- The full property includes "rejects signatures over different data / with a different key / with a
    modified blob": that is unforgeability of the primitives behind `cv`, not a fact about this code.
    What the code contributes is `verify_iff`; the residue is this statement about `cv`. -/
def C40_full : Prop :=
  ∀ (cv : CV) (k : PubKey) (nt : Bool) (data : Bytes) (s : Sig),
    verify cv k nt data s = true ↔ VerifySpec cv k nt data s   -- proved: `verify_iff`

theorem C40_partial : C40_full := verify_iff

/-- non-vacuity: an accepting instance of each kind of rule -/
example : verify (fun _ _ _ => true) (.ed25519 (List.replicate 32 0)) false [] ⟨algoED25519, [], []⟩ = true ∧
    verify (fun _ _ _ => true) (.sked25519 (List.replicate 32 0) []) false [] ⟨algoSKED25519, [1], [1, 0, 0, 0, 0]⟩ = true ∧
    verify (fun _ _ _ => true) (.sked25519 (List.replicate 32 0) []) false [] ⟨algoSKED25519, [1], [0, 0, 0, 0, 0]⟩ = false ∧
    verify (fun _ _ _ => true) (.sked25519 (List.replicate 32 0) []) true [] ⟨algoSKED25519, [1], [0, 0, 0, 0, 0]⟩ = true ∧
    verify (fun _ _ _ => true) (.rsa 3 255) false [] ⟨algoED25519, [1], []⟩ = false := by
  decide +kernel


/-- `sk_flag_rule` hypotheses are satisfiable: flags 0x04 (UP clear), a five-byte rest -/
example : parseSKFields [4, 0, 0, 0, 7] = some (4, 7) ∧ (4 : UInt8).toNat % 2 = 0 := by decide
/-- `multialg_refuses_unlisted` / `multialg_signs_listed`: an RSA signer restricted to rsa-sha2-256 signs
    with it, refuses ssh-rsa, rsa-sha2-512 and the empty request (= the key type's own algorithm) -/
example : multiSign algoRSA [algoRSASHA256] algoRSASHA256 = some algoRSASHA256 ∧
    multiSign algoRSA [algoRSASHA256] algoRSA = none ∧ multiSign algoRSA [algoRSASHA256] algoRSASHA512 = none ∧
    multiSign algoRSA [algoRSASHA256] [] = none := by decide +kernel
/-- `newSigner_sound`: accepted and refused restriction lists -/
example : newSignerWithAlgorithms algoRSA none [algoRSASHA512, algoRSA] = true ∧
    newSignerWithAlgorithms algoRSA none [algoED25519] = false ∧ newSignerWithAlgorithms algoRSA none [] = false ∧
    newSignerWithAlgorithms algoRSA (some [algoRSASHA256]) [algoRSASHA512] = false := by decide +kernel
/-- `rsa_leading_zero`: a modulus of 2 bytes, blobs [5] and [0, 5] -/
example : rsaSize 65535 = 2 ∧ ([5] : Bytes).length + 1 ≤ rsaSize 65535 := by decide +kernel
/-- `noTouchAllowed_iff`: the extension in the callback's permissions -/
example : noTouchAllowed (.plain (.ed25519 [])) (some [(noTouchRequired, [])]) = true ∧
    noTouchAllowed (.plain (.ed25519 [])) (some [(nm "permit-pty", [])]) = false := by decide +kernel

/-! ## constructors and signer compositions -/

/-- NewSignerFromKey accepts nothing NewPublicKey would refuse (same key, same type) -/
theorem newSignerFromKey_sub (k : GoKey) (p : PubKey) (h : newSignerFromKey k = some p) : newPublicKey k = some p := by
  cases k <;> simp_all [newSignerFromKey, newPublicKey]

/-- NewPublicKey refuses exactly: unsupported curves, Ed25519 keys that are not 32 bytes, foreign types -/
theorem newPublicKey_none_iff (k : GoKey) :
    newPublicKey k = none ↔
      (∃ bits pt, k = .ecdsa bits pt ∧ bits ≠ 256 ∧ bits ≠ 384 ∧ bits ≠ 521) ∨ (∃ b, k = .ed25519 b ∧ b.length ≠ 32) ∨ k = .other := by
  cases k with
  | ecdsa bits pt =>
    simp only [newPublicKey]
    by_cases h : bits = 256 ∨ bits = 384 ∨ bits = 521
    · simp [h]; omega
    · simp [h]; omega
  | ed25519 b => by_cases h : b.length = 32 <;> simp [newPublicKey, h]
  | rsa e n => simp [newPublicKey]
  | dsa p q g y => simp [newPublicKey]
  | other => simp [newPublicKey]

/-- a restricted signer under a certificate refuses what its list does not contain, whatever the
    composition underneath (the certificate wrapper re-checks the list with the certificate's type) -/
theorem certSigner_refuses_unlisted (ct : Bytes) (inner : SignerM) (alg : Bytes) (hm : inner.caps.2 = true)
    (h : (if alg.isEmpty then underlyingAlgo ct else alg) ∉ inner.algorithms) :
    (SignerM.cert ct inner).signWith alg = none := by
  have : isAlgorithmSupported ct inner.algorithms alg = false := by
    unfold isAlgorithmSupported; simpa using h
  simp [SignerM.signWith, hm, this]

/-- OBSERVATION (modelled as the code is): `Sign` of a signer restricted by NewSignerWithAlgorithms is the
    embedded signer's `Sign` — it is not filtered by the list (an RSA signer restricted to rsa-sha2-256
    still answers `Sign` with an ssh-rsa signature); only `SignWithAlgorithm` is -/
theorem multi_sign_unrestricted (inner : SignerM) (algs : List Bytes) : (SignerM.multi inner algs).sign = inner.sign := rfl

example : (SignerM.multi (.wrapped algoRSA) [algoRSASHA256]).sign = some algoRSA ∧
    (SignerM.multi (.wrapped algoRSA) [algoRSASHA256]).signWith algoRSA = none ∧
    (SignerM.cert certAlgoRSA (.multi (.wrapped algoRSA) [algoRSASHA256])).signWith [] = none ∧
    (SignerM.cert certAlgoRSA (.hidden (.multi (.wrapped algoRSA) [algoRSASHA256]) true)).signWith algoRSASHA256 = some algoRSASHA256 ∧
    newPublicKey (.ecdsa 224 []) = none ∧ newSignerFromKey (.dsa 5 3 2 1) = none := by decide +kernel

end XC.C40
