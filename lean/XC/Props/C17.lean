/-
  C17 — bcrypt: parser totality (no panic), cost round trip, Hash() ↔ newFromHash round trip,
  Compare(Generate(pw)) = ok.  The "only if" direction of the password iff is collision resistance
  of bcrypt and stays a `def … : Prop` (C17_full).
-/
import XC.Model.C17
import XC.Proofs.C17
import XC.Proofs.C17_Key
import XC.Proofs.C17_B64
namespace XC.C17
open XC.C12

theorem idx_ok (s : Bytes) (i : Nat) (h : i < s.length) : idx s i = .ok s[i] := by
  simp [idx, h]

theorem bind_noPanic {α β : Type} (x : Res α) (f : α → Res β)
    (hx : x ≠ .panic) (hf : ∀ a, x = .ok a → f a ≠ .panic) : (x >>= f) ≠ .panic := by
  cases x with
  | ok a => exact hf a rfl
  | err e => simp [bind]
  | panic => exact absurd rfl hx

theorem decodeVersion_spec (s : Bytes) (hs : 3 ≤ s.length) :
    decodeVersion s ≠ .panic ∧ ∀ v, decodeVersion s = .ok v → v.2.2 = 3 ∨ v.2.2 = 4 := by
  unfold decodeVersion
  simp only [bind, idx_ok s 0 (by omega), idx_ok s 1 (by omega), idx_ok s 2 (by omega)]
  by_cases h0 : (s[0] != 36) = true
  · simp [h0]
  · by_cases h1 : s[1] > 50
    · simp [h0, h1]
    · by_cases h2 : (s[2] != 36) = true
      · simp only [h0, h1, h2, if_true, if_false, pure]
        refine ⟨by simp, ?_⟩
        intro v hv; injection hv with hv; subst hv; simp
      · simp only [h0, h1, h2, if_false, pure]
        refine ⟨by simp, ?_⟩
        intro v hv; injection hv with hv; subst hv; simp

theorem decodeCost_spec (s : Bytes) (hs : 2 ≤ s.length) :
    decodeCost s ≠ .panic ∧ ∀ v, decodeCost s = .ok v → v.2 = 3 ∧ 4 ≤ v.1 ∧ v.1 ≤ 31 := by
  unfold decodeCost
  have s1 : slice s 0 2 = .ok ((s.take 2).drop 0) := by
    simp only [slice]; rw [if_pos]; exact ⟨by omega, by omega⟩
  have l2 : ((s.take 2).drop 0).length = 2 := by simp; omega
  simp only [bind, s1, idx_ok _ 0 (show 0 < ((s.take 2).drop 0).length by omega),
    idx_ok _ 1 (show 1 < ((s.take 2).drop 0).length by omega)]
  split
  · simp
  · rename_i c hc
    simp only [checkCost]
    by_cases hr : c < 4 ∨ c > 31
    · simp [hr]
    · simp only [hr, if_false, pure]
      refine ⟨by simp, ?_⟩
      intro v hv; injection hv with hv; subst hv
      simp only [true_and]
      omega

/-- `newFromHash` never panics: every index / slice expression is guarded by the 59-byte check -/
theorem parse_total (h : Bytes) : newFromHash h ≠ .panic := by
  unfold newFromHash
  by_cases hl : h.length < 59
  · simp [hl]
  · simp only [hl, if_false]
    obtain ⟨v1, v2⟩ := decodeVersion_spec h (by omega)
    apply bind_noPanic _ _ v1
    intro ⟨maj, min, n⟩ hv
    have hn := v2 _ hv
    simp only at hn
    have hn4 : n ≤ 4 := by omega
    simp only
    have e1 : sliceFrom h n = .ok (h.drop n) := by simp [sliceFrom]; omega
    rw [e1]
    simp only [bind]
    have l1 : 55 ≤ (h.drop n).length := by simp; omega
    obtain ⟨c1, c2⟩ := decodeCost_spec (h.drop n) (by omega)
    apply bind_noPanic _ _ c1
    intro ⟨cost, m⟩ hc
    have hm := (c2 _ hc).1
    simp only at hm
    subst hm
    simp only
    have e2 : sliceFrom (h.drop n) 3 = .ok ((h.drop n).drop 3) := by simp [sliceFrom]; omega
    rw [e2]
    simp only [bind]
    have l2 : 52 ≤ ((h.drop n).drop 3).length := by simp; omega
    have e3 : slice ((h.drop n).drop 3) 0 22 = .ok ((((h.drop n).drop 3).take 22).drop 0) := by
      simp only [slice]; rw [if_pos]; exact ⟨by omega, by omega⟩
    have e4 : sliceFrom ((h.drop n).drop 3) 22 = .ok (((h.drop n).drop 3).drop 22) := by
      simp only [sliceFrom]; rw [if_pos]; omega
    rw [e3]
    simp only [e4, pure]
    simp

/-- `Cost` never panics either (it is `newFromHash` + a field read) -/
theorem cost_total (h : Bytes) : cost h ≠ .panic := by
  unfold cost
  apply bind_noPanic _ _ (parse_total h)
  intro a _; simp [pure]

/-- an accepted cost is always within MinCost..MaxCost -/
theorem cost_range (h : Bytes) (c : Int) (hc : cost h = .ok c) : 4 ≤ c ∧ c ≤ 31 := by
  unfold cost newFromHash at hc
  by_cases hl : h.length < 59
  · simp [hl] at hc
  · simp only [hl, if_false, bind] at hc
    cases hv : decodeVersion h with
    | panic => simp [hv] at hc
    | err e => simp [hv] at hc
    | ok v =>
      obtain ⟨maj, min, n⟩ := v
      simp only [hv] at hc
      cases h1 : sliceFrom h n with
      | panic => simp [h1] at hc
      | err e => simp [h1] at hc
      | ok h' =>
        simp only [h1] at hc
        cases h2 : decodeCost h' with
        | panic => simp [h2] at hc
        | err e => simp [h2] at hc
        | ok w =>
          obtain ⟨cc, m⟩ := w
          simp only [h2] at hc
          have hlen : 2 ≤ h'.length := by
            simp only [sliceFrom] at h1
            split at h1
            · injection h1 with h1; subst h1
              have := (decodeVersion_spec h (by omega)).2 _ hv
              simp only at this
              simp; omega
            · cases h1
          have := ((decodeCost_spec h' hlen).2 _ h2).2
          simp only at this
          cases h3 : sliceFrom h' m with
          | panic => simp [h3] at hc
          | err e => simp [h3] at hc
          | ok h'' =>
            simp only [h3] at hc
            cases h4 : slice h'' 0 22 with
            | panic => simp [h4] at hc
            | err e => simp [h4] at hc
            | ok sl =>
              simp only [h4] at hc
              cases h5 : sliceFrom h'' 22 with
              | panic => simp [h5] at hc
              | err e => simp [h5] at hc
              | ok h''' =>
                simp only [h5, pure] at hc
                injection hc with hc
                subst hc
                exact this

/-- cost round trip: the two characters `Hash()` writes for a legal cost parse back to it -/
theorem cost_roundtrip (c : Int) (h1 : 4 ≤ c) (h2 : c ≤ 31) :
    (fmt02 c).length = 2 ∧ atoi2 ((fmt02 c).getD 0 0) ((fmt02 c).getD 1 0) = some c := by
  have : ∃ n : Fin 32, c = (n.val : Int) := ⟨⟨c.toNat, by omega⟩, by simp; omega⟩
  obtain ⟨n, rfl⟩ := this
  have key : ∀ n : Fin 32, (fmt02 (n.val : Int)).length = 2 ∧
      (4 ≤ n.val → atoi2 ((fmt02 (n.val : Int)).getD 0 0) ((fmt02 (n.val : Int)).getD 1 0) = some (n.val : Int)) := by
    decide
  exact ⟨(key n).1, (key n).2 (by omega)⟩

/-! ## Hash() ↔ newFromHash, Compare ∘ Generate -/

theorem slice_ok (s : Bytes) (a b : Nat) (h : a ≤ b ∧ b ≤ s.length) : slice s a b = .ok ((s.take b).drop a) := by
  simp [slice, h]

theorem sliceFrom_ok (s : Bytes) (a : Nat) (h : a ≤ s.length) : sliceFrom s a = .ok (s.drop a) := by
  simp [sliceFrom, h]

theorem idx_ok' (s : Bytes) (i : Nat) (h : i < s.length) : idx s i = .ok s[i] := by
  simp [idx, h]

/-- `Hash()` of a well-formed value (22-byte salt, 31-byte hash, legal cost, version "2a") parses back -/
theorem newFromHash_hashString (h salt : Bytes) (cost : Int) (hs : salt.length = 22) (hh : h.length = 31)
    (h1 : 4 ≤ cost) (h2 : cost ≤ 31) :
    newFromHash (hashString ⟨h, salt, cost, 50, 97⟩) = .ok ⟨h, salt, cost, 50, 97⟩ := by
  have hf := fmt02_length cost h1 h2
  obtain ⟨f0, f1, hfe⟩ : ∃ f0 f1, fmt02 cost = [f0, f1] := by
    match hm : fmt02 cost, hf with
    | [a, b], _ => exact ⟨a, b, rfl⟩
  have hat := atoi2_fmt02 cost h1 h2
  simp only [hfe, List.getElem_cons_zero, List.getElem_cons_succ] at hat
  have hstr : hashString ⟨h, salt, cost, 50, 97⟩ = [36, 50, 97, 36, f0, f1, 36] ++ (salt ++ h) := by
    unfold hashString
    simp only [pad_self 22 salt hs, pad_self 31 h hh, hfe, pad_self 2 [f0, f1] rfl]
    simp
  rw [hstr]
  unfold newFromHash
  have hlen : ([36, 50, 97, 36, f0, f1, 36] ++ (salt ++ h)).length = 60 := by simp [hs, hh]
  simp only [hlen, show ¬ (60 < 59) by decide, if_false]
  unfold decodeVersion
  simp only [bind, idx, List.cons_append, List.getElem?_cons_zero, List.getElem?_cons_succ]
  simp only [show ((36 : UInt8) != 36) = false by decide, show ¬ ((50 : UInt8) > 50) by decide,
    show ((97 : UInt8) != 36) = true by decide, if_true, if_false, pure, Bool.false_eq_true]
  rw [sliceFrom_ok _ 4 (by simp)]
  simp only [List.drop_succ_cons, List.drop_zero, List.nil_append]
  unfold decodeCost
  rw [slice_ok _ 0 2 (by simp)]
  simp only [bind, List.take_succ_cons, List.take_zero, List.drop_zero, idx, List.getElem?_cons_zero,
    List.getElem?_cons_succ, hat, checkCost]
  have hc : ¬ (cost < 4 ∨ cost > 31) := by omega
  simp only [hc, if_false, pure]
  rw [sliceFrom_ok _ 3 (by simp)]
  simp only [List.drop_succ_cons, List.drop_zero]
  rw [slice_ok _ 0 22 (by simp [hs]), sliceFrom_ok _ 22 (by simp [hs])]
  simp only [List.drop_zero]
  rw [List.take_append_of_le_length (by omega), List.take_of_length_le (by omega)]
  rw [List.drop_append_of_le_length (by omega), List.drop_of_length_le (by omega)]
  simp

/-- Compare(Generate(pw)) succeeds: for every password Generate accepts (≤ 72 bytes), every cost and
    every 16 salt bytes -/
theorem compare_generate (pw rnd : Bytes) (cost : Int) (H : Bytes) (hr : rnd.length = 16)
    (hg : generate pw cost rnd = .ok H) : compare H pw = .ok () := by
  unfold generate at hg
  split at hg
  · cases hg
  · simp only [bind, checkCost] at hg
    generalize hc' : (if cost < 4 then (10 : Int) else cost) = c at hg
    by_cases hc : c < 4 ∨ c > 31
    · simp [hc] at hg
    · simp only [hc, if_false] at hg
      cases hb : bcrypt pw c.toNat (b64Encode rnd) with
      | panic => simp [hb] at hg
      | err e => simp [hb] at hg
      | ok h =>
        simp only [hb, pure] at hg
        injection hg with hg
        subst hg
        have hl := bcrypt_length _ _ _ _ hb
        have hs := b64Encode_length16 rnd hr
        unfold compare
        rw [newFromHash_hashString h _ c hs hl (by omega) (by omega)]
        simp only [bind, hb, pure]
        simp


example : generate (zeros 73) 4 (zeros 16) = .err .tooLong := by rfl
example : generate [] 33 (zeros 16) = .err .costRange := by rfl

/-! ## the 72-byte key equivalence ("if" direction of the password iff) -/

/-- the 72 bytes the key schedule reads: the key repeated cyclically -/
def cyc72 (key : Bytes) : Bytes := (List.range 72).map (fun p => cyc key.toArray p)

theorem cyc72_pointwise (k1 k2 : Bytes) (h : cyc72 k1 = cyc72 k2) :
    ∀ p, p < 72 → cyc k1.toArray p = cyc k2.toArray p := by
  intro p hp
  unfold cyc72 at h
  exact (List.map_inj_left.mp h) p (List.mem_range.mpr hp)

/-- two passwords whose NUL-terminated forms have the same 72-byte cyclic expansion give the same
    Blowfish state after `expensiveBlowfishSetup` (any cost, any decoded salt) … -/
theorem key_equiv_setup (pw1 pw2 csalt : Bytes) (cost : Nat) (hs : csalt ≠ [])
    (h : cyc72 (pw1 ++ [0]) = cyc72 (pw2 ++ [0])) :
    setupCore (pw1 ++ [0]) csalt cost = setupCore (pw2 ++ [0]) csalt cost := by
  have hp := cyc72_pointwise _ _ h
  have n1 : 0 < (pw1 ++ [0]).toArray.size := by simp
  have n2 : 0 < (pw2 ++ [0]).toArray.size := by simp
  have hx : ∀ c, Blowfish.xorKey (pw1 ++ [0]).toArray c = Blowfish.xorKey (pw2 ++ [0]).toArray c :=
    Blowfish.xorKey_congr _ _ n1 n2 hp
  have hsl : (csalt.length == 0) = false := by
    cases csalt with
    | nil => exact absurd rfl hs
    | cons a b => simp
  have l1 : ¬ (pw1 ++ [0]).length < 1 := by simp
  have l2 : ¬ (pw2 ++ [0]).length < 1 := by simp
  unfold setupCore Blowfish.newSaltedCipher
  simp only [hsl, l1, l2, if_false, Bool.false_eq_true]
  have he : (fun c => Blowfish.expandKey csalt.toArray (Blowfish.expandKey (pw1 ++ [0]).toArray c)) =
      (fun c => Blowfish.expandKey csalt.toArray (Blowfish.expandKey (pw2 ++ [0]).toArray c)) := by
    funext c; simp only [Blowfish.expandKey, hx]
  simp only [Blowfish.expandKeyWithSalt, hx, he]

/-- … hence the same bcrypt hash: `bcrypt pw₁ = bcrypt pw₂` whenever cyc72 (pw₁‖0) = cyc72 (pw₂‖0)
    (covers truncation at 72 bytes and the aliases pw vs pw‖0‖pw) -/
theorem key_equiv_if (pw1 pw2 salt : Bytes) (cost : Nat)
    (h : cyc72 (pw1 ++ [0]) = cyc72 (pw2 ++ [0])) :
    bcrypt pw1 cost salt = bcrypt pw2 cost salt := by
  unfold bcrypt setup
  cases hd : base64Decode salt with
  | none => rfl
  | some cs => simp only [key_equiv_setup pw1 pw2 cs cost (base64Decode_ne_nil salt cs hd) h]

/-- `expensiveBlowfishSetup` cannot panic (its only candidate, `ExpandKey` on an empty decoded salt,
    is unreachable), hence Compare never panics: with `parse_total`, every path returns a value or an error -/
theorem compare_total (hashed pw : Bytes) : compare hashed pw ≠ .panic := by
  unfold compare
  apply bind_noPanic _ _ (parse_total hashed)
  intro p _
  apply bind_noPanic
  · unfold bcrypt
    apply bind_noPanic
    · unfold setup
      cases hd : base64Decode p.salt with
      | none => simp
      | some cs =>
        have hne := base64Decode_ne_nil _ _ hd
        simp only
        unfold setupCore
        split
        · simp
        · have : cs.isEmpty = false := by cases cs with | nil => exact absurd rfl hne | cons a b => rfl
          simp [this]
    · intro a _; simp [pure]
  · intro a _
    split <;> simp [pure]

/-- non-vacuity: "ab" and "ab\0ab" are the same bcrypt key; so are two 80-byte passwords that agree
    on their first 72 bytes -/
example : cyc72 ([97, 98] ++ [0]) = cyc72 ([97, 98, 0, 97, 98] ++ [0]) := by decide
example : cyc72 ((List.replicate 72 7 ++ [1, 2, 3]) ++ [0]) = cyc72 ((List.replicate 72 7 ++ [9]) ++ [0]) := by decide

/-! ## base64 round trip (16-byte salts, 23-byte hashes) -/

/-- `base64Decode(base64Encode(salt)) = salt` for the 16 salt bytes: the salt Generate embeds is the
    salt Compare uses -/
theorem b64_roundtrip_salt (bs : Bytes) (h : bs.length = 16) : base64Decode (b64Encode bs) = some bs :=
  b64_roundtrip_16 bs h

theorem b64_roundtrip_hash (bs : Bytes) (h : bs.length = 23) : base64Decode (b64Encode bs) = some bs :=
  b64_roundtrip_23 bs h

/-! ## parser laxness (accepted malformed strings — none of them is a panic) -/

/-- the cost field goes through `strconv.Atoi`, so a sign is accepted: "+4" … "+9" are costs 4 … 9 -/
theorem parse_accepts_plus_cost (d : UInt8) (h1 : 52 ≤ d) (h2 : d ≤ 57) (rest : Bytes) :
    decodeCost (43 :: d :: rest) = .ok (((d.toNat - 48 : Nat) : Int), 3) := by
  unfold decodeCost
  have s1 : slice (43 :: d :: rest) 0 2 = .ok [43, d] := by simp [slice]
  have hd : isDigit d = true := by
    simp only [isDigit, Bool.and_eq_true, decide_eq_true_eq]; exact ⟨by
      have : (48 : UInt8) ≤ 52 := by decide
      exact UInt8.le_trans this h1, h2⟩
  have hd' : 48 ≤ d ∧ d ≤ 57 := by simpa [isDigit] using hd
  have ha : atoi2 43 d = some ((d.toNat - 48 : Nat) : Int) := by
    simp [atoi2, isDigit, hd']
  simp only [bind, s1, idx, List.getElem?_cons_zero, List.getElem?_cons_succ, ha, checkCost]
  have l1 : 52 ≤ d.toNat := UInt8.le_iff_toNat_le.mp h1
  have l2 : d.toNat ≤ 57 := UInt8.le_iff_toNat_le.mp h2
  have : ¬ (((d.toNat - 48 : Nat) : Int) < 4 ∨ ((d.toNat - 48 : Nat) : Int) > 31) := by omega
  simp [this, pure]

/-- a negative cost is syntactically accepted by Atoi and then rejected by the range check -/
theorem parse_minus_cost_range (d : UInt8) (hd' : 48 ≤ d ∧ d ≤ 57) (rest : Bytes) :
    decodeCost (45 :: d :: rest) = .err .costRange := by
  unfold decodeCost
  have s1 : slice (45 :: d :: rest) 0 2 = .ok [45, d] := by simp [slice]
  have ha : atoi2 45 d = some (-((d.toNat - 48 : Nat) : Int)) := by
    simp [atoi2, isDigit, hd']
  simp only [bind, s1, idx, List.getElem?_cons_zero, List.getElem?_cons_succ, ha, checkCost]
  have : (-((d.toNat - 48 : Nat) : Int) < 4 ∨ -((d.toNat - 48 : Nat) : Int) > 31) := by omega
  simp [this]

/-- the major version may be ANY byte ≤ '2' (NUL, '$', '0', '1', …), the minor any byte but '$' -/
theorem parse_accepts_any_major_le_2 (maj min : UInt8) (rest : Bytes) (h : maj ≤ 50) (hm : min ≠ 36) :
    decodeVersion (36 :: maj :: min :: rest) = .ok (maj, min, 4) := by
  unfold decodeVersion
  have : ¬ maj > 50 := UInt8.not_lt.mpr h
  simp [bind, idx, this, hm, pure]

/-- "$2$…" (no minor) is accepted too -/
theorem parse_accepts_no_minor (maj : UInt8) (rest : Bytes) (h : maj ≤ 50) :
    decodeVersion (36 :: maj :: 36 :: rest) = .ok (maj, 0, 3) := by
  unfold decodeVersion
  have : ¬ maj > 50 := UInt8.not_lt.mpr h
  simp [bind, idx, this, pure]

theorem decodeVersion_minor (a1 a2 z : UInt8) (rest : Bytes) (h2 : a2 ≠ 36) :
    decodeVersion (36 :: a1 :: a2 :: z :: rest) = if a1 > 50 then .err .version else .ok (a1, a2, 4) := by
  unfold decodeVersion
  have : (a2 != 36) = true := by simpa using h2
  simp only [bind, idx, List.getElem?_cons_zero, List.getElem?_cons_succ,
    show ((36 : UInt8) != 36) = false by decide, Bool.false_eq_true, if_false, this, if_true, pure]

/-- the byte after the minor version (where '$' belongs) is never looked at -/
theorem parse_ignores_byte_after_minor (a1 a2 x y : UInt8) (rest : Bytes) (h2 : a2 ≠ 36) :
    newFromHash (36 :: a1 :: a2 :: x :: rest) = newFromHash (36 :: a1 :: a2 :: y :: rest) := by
  unfold newFromHash
  rw [decodeVersion_minor a1 a2 x rest h2, decodeVersion_minor a1 a2 y rest h2]
  simp only [List.length_cons]
  by_cases hl : rest.length + 1 + 1 + 1 + 1 < 59
  · simp [hl]
  · by_cases hv : a1 > 50
    · simp [hl, hv, bind]
    · simp only [hl, hv, if_false, bind, sliceFrom, List.length_cons]
      simp

theorem decodeCost_cons (c0 c1 : UInt8) (rest : Bytes) :
    decodeCost (c0 :: c1 :: rest) = (match atoi2 c0 c1 with
      | none => .err .costSyntax
      | some c => if c < 4 ∨ c > 31 then .err .costRange else .ok (c, 3)) := by
  unfold decodeCost
  have s1 : slice (c0 :: c1 :: rest) 0 2 = .ok [c0, c1] := by simp [slice]
  simp only [bind, s1, idx, List.getElem?_cons_zero, List.getElem?_cons_succ]
  cases atoi2 c0 c1 with
  | none => rfl
  | some c =>
    simp only [checkCost]
    by_cases hc : c < 4 ∨ c > 31 <;> simp [hc, pure]

/-- the byte after the two cost characters (where '$' belongs) is never looked at -/
theorem parse_ignores_byte_after_cost (a1 a2 c0 c1 x y : UInt8) (rest : Bytes) (h2 : a2 ≠ 36) :
    newFromHash (36 :: a1 :: a2 :: 36 :: c0 :: c1 :: x :: rest) = newFromHash (36 :: a1 :: a2 :: 36 :: c0 :: c1 :: y :: rest) := by
  unfold newFromHash
  rw [decodeVersion_minor a1 a2 36 _ h2, decodeVersion_minor a1 a2 36 _ h2]
  simp only [List.length_cons]
  by_cases hl : rest.length + 1 + 1 + 1 + 1 + 1 + 1 + 1 < 59
  · simp [hl]
  · by_cases hv : a1 > 50
    · simp [hl, hv, bind]
    · simp only [hl, hv, if_false, bind, sliceFrom, List.length_cons]
      simp only [show 4 ≤ rest.length + 1 + 1 + 1 + 1 + 1 + 1 + 1 by omega, if_true, List.drop_succ_cons, List.drop_zero,
        decodeCost_cons]
      cases atoi2 c0 c1 with
      | none => rfl
      | some c =>
        by_cases hc : c < 4 ∨ c > 31
        · simp [hc]
        · simp [hc]

/-- everything after the 31st hash character is ignored by `Hash()`, hence by Compare:
    a valid 60-byte hash with arbitrary bytes appended still verifies -/
theorem hashString_ignores_tail (p : Hashed) (x : Bytes) (h : 31 ≤ p.hash.length) :
    hashString { p with hash := p.hash ++ x } = hashString p := by
  unfold hashString pad
  simp only
  congr 1
  rw [List.append_assoc, List.take_append_of_le_length (by omega), List.take_append_of_le_length (by omega)]

theorem idx_append (l x : Bytes) (i : Nat) (h : i < l.length) : idx (l ++ x) i = idx l i := by
  simp [idx, List.getElem?_append_left h]

theorem decodeVersion_append (l x : Bytes) (h : 3 ≤ l.length) : decodeVersion (l ++ x) = decodeVersion l := by
  unfold decodeVersion
  rw [idx_append l x 0 (by omega), idx_append l x 1 (by omega), idx_append l x 2 (by omega)]

theorem decodeCost_append (l x : Bytes) (h : 2 ≤ l.length) : decodeCost (l ++ x) = decodeCost l := by
  match l, h with
  | c0 :: c1 :: r, _ => simp only [List.cons_append, decodeCost_cons]

/-- appending bytes to an accepted hash string only extends the parsed hash part … -/
theorem newFromHash_append (h x : Bytes) (p : Hashed) (hp : newFromHash h = .ok p) :
    newFromHash (h ++ x) = .ok { p with hash := p.hash ++ x } := by
  unfold newFromHash at hp ⊢
  by_cases hl : h.length < 59
  · simp [hl] at hp
  · have hl' : ¬ (h ++ x).length < 59 := by simp; omega
    simp only [hl, hl', if_false, bind] at hp ⊢
    rw [decodeVersion_append h x (by omega)]
    obtain ⟨v1, v2⟩ := decodeVersion_spec h (by omega)
    cases hv : decodeVersion h with
    | panic => exact absurd hv v1
    | err e => simp [hv] at hp
    | ok v =>
      obtain ⟨maj, min, n⟩ := v
      have hn := v2 _ hv
      simp only at hn
      simp only [hv] at hp ⊢
      have e1 : sliceFrom h n = .ok (h.drop n) := by simp [sliceFrom]; omega
      have e1' : sliceFrom (h ++ x) n = .ok (h.drop n ++ x) := by
        simp only [sliceFrom, List.length_append]
        rw [if_pos (by omega), List.drop_append_of_le_length (by omega)]
      rw [e1] at hp; rw [e1']
      simp only at hp ⊢
      have l1 : 55 ≤ (h.drop n).length := by simp; omega
      rw [decodeCost_append _ x (by omega)]
      obtain ⟨c1, c2⟩ := decodeCost_spec (h.drop n) (by omega)
      cases hc : decodeCost (h.drop n) with
      | panic => exact absurd hc c1
      | err e => simp [hc] at hp
      | ok w =>
        obtain ⟨cost, m⟩ := w
        have hm := (c2 _ hc).1
        simp only at hm
        subst hm
        simp only [hc] at hp ⊢
        have e2 : sliceFrom (h.drop n) 3 = .ok ((h.drop n).drop 3) := by simp [sliceFrom]; omega
        have e2' : sliceFrom (h.drop n ++ x) 3 = .ok ((h.drop n).drop 3 ++ x) := by
          simp only [sliceFrom, List.length_append]
          rw [if_pos (by omega), List.drop_append_of_le_length (by omega)]
        rw [e2] at hp; rw [e2']
        simp only at hp ⊢
        have l2 : 52 ≤ ((h.drop n).drop 3).length := by simp; omega
        generalize (h.drop n).drop 3 = t at hp l2 ⊢
        have e3 : slice t 0 22 = .ok (t.take 22) := by simp [slice]; omega
        have e3' : slice (t ++ x) 0 22 = .ok (t.take 22) := by
          simp only [slice, List.length_append]
          rw [if_pos (by omega), List.take_append_of_le_length (by omega)]; rfl
        have e4 : sliceFrom t 22 = .ok (t.drop 22) := by simp [sliceFrom]; omega
        have e4' : sliceFrom (t ++ x) 22 = .ok (t.drop 22 ++ x) := by
          simp only [sliceFrom, List.length_append]
          rw [if_pos (by omega), List.drop_append_of_le_length (by omega)]
        rw [e3, e4] at hp; rw [e3', e4']
        simp only [pure] at hp ⊢
        injection hp with hp
        subst hp
        rfl

/-- … and `Hash()` only looks at its first 31 bytes, so CompareHashAndPassword ignores everything after
    a complete hash: a valid hash string with arbitrary bytes appended verifies exactly as before -/
theorem compare_ignores_trailing (h x pw : Bytes) (p : Hashed) (hp : newFromHash h = .ok p)
    (hlen : 31 ≤ p.hash.length) : compare (h ++ x) pw = compare h pw := by
  unfold compare
  rw [newFromHash_append h x p hp, hp]
  simp only [bind]
  cases bcrypt pw p.cost.toNat p.salt with
  | panic => rfl
  | err e => rfl
  | ok other =>
    simp only
    rw [hashString_ignores_tail p x hlen]


/-- Compare only depends on the candidate through `bcrypt candidate cost salt` -/
theorem compare_congr (H pw1 pw2 : Bytes) (h : ∀ c s, bcrypt pw1 c s = bcrypt pw2 c s) :
    compare H pw1 = compare H pw2 := by
  unfold compare
  cases newFromHash H with
  | panic => rfl
  | err e => rfl
  | ok p => simp only [bind, h]

/-- the "if" direction of the password iff, end to end: a candidate whose NUL-terminated form has the
    same 72-byte cyclic expansion as the password verifies against the generated hash -/
theorem compare_generate_equiv (pw cand rnd : Bytes) (cost : Int) (H : Bytes) (hr : rnd.length = 16)
    (hg : generate pw cost rnd = .ok H) (hc : cyc72 (pw ++ [0]) = cyc72 (cand ++ [0])) :
    compare H cand = .ok () := by
  rw [compare_congr H cand pw (fun c s => key_equiv_if cand pw s c hc.symm)]
  exact compare_generate pw rnd cost H hr hg

/-- GenerateFromPassword succeeds for every password of at most 72 bytes, every cost ≤ 31 (costs below 4
    become 10) and every 16 salt bytes — so the hypotheses of `compare_generate` are always satisfiable -/
theorem generate_ok (pw rnd : Bytes) (cost : Int) (hp : pw.length ≤ 72) (hc : cost ≤ 31) (hr : rnd.length = 16) :
    ∃ H, generate pw cost rnd = .ok H := by
  unfold generate
  have h72 : ¬ pw.length > 72 := by omega
  simp only [h72, if_false, bind, checkCost]
  generalize hc' : (if cost < 4 then (10 : Int) else cost) = c
  have hcr : ¬ (c < 4 ∨ c > 31) := by
    rw [← hc']; split <;> omega
  simp only [hcr, if_false]
  have hdec := b64_roundtrip_16 rnd hr
  have hne : rnd ≠ [] := by intro h; rw [h] at hr; simp at hr
  have hb : ∃ h, bcrypt pw c.toNat (b64Encode rnd) = .ok h := by
    unfold bcrypt setup
    rw [hdec]
    unfold setupCore Blowfish.newSaltedCipher
    have h1 : (rnd.length == 0) = false := by rw [hr]; rfl
    have h2 : ¬ (pw ++ [0]).length < 1 := by simp
    have h3 : rnd.isEmpty = false := by cases rnd with | nil => exact absurd rfl hne | cons a b => rfl
    simp only [h1, h2, if_false, Bool.false_eq_true, h3, bind, pure]
    exact ⟨_, rfl⟩
  obtain ⟨h, hh⟩ := hb
  rw [hh]
  exact ⟨_, rfl⟩


example : ∃ H, generate [112, 119] 4 (zeros 16) = .ok H := generate_ok _ _ _ (by decide) (by decide) rfl
example : ∃ H, generate (List.replicate 72 7) 31 (zeros 16) = .ok H := generate_ok _ _ _ (by decide) (by decide) rfl

/-- the full statement of the property (the "only if" direction is collision resistance of bcrypt and
    is not provable): Compare succeeds for a candidate iff the key schedule sees the same 72 bytes -/
def C17_full : Prop :=
  ∀ (pw cand rnd : Bytes) (cost : Int) (H : Bytes), rnd.length = 16 → generate pw cost rnd = .ok H →
    (compare H cand = .ok () ↔ cyc72 (pw ++ [0]) = cyc72 (cand ++ [0]))

end XC.C17
