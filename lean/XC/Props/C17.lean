/-
  C17 — bcrypt: parser totality (no panic), cost round trip, Hash() ↔ newFromHash round trip,
  Compare(Generate(pw)) = ok.  The "only if" direction of the password iff is collision resistance
  of bcrypt and stays a `def … : Prop` (C17_full).
-/
import XC.Model.C17
namespace XC.C17

theorem idx_ok (s : Bytes) (i : Nat) (h : i < s.length) : idx s i = .ok s[i] := by
  simp [idx, h]

theorem bind_noPanic {α β : Type} (x : Res α) (f : α → Res β)
    (hx : x ≠ .panic) (hf : ∀ a, x = .ok a → f a ≠ .panic) : (x >>= f) ≠ .panic := by
  cases x with
  | ok a => exact hf a rfl
  | err e => simp [bind]
  | panic => exact absurd rfl hx

theorem decodeVersion_spec (s : Bytes) (hs : 3 ≤ s.length) :
    decodeVersion s ≠ .panic ∧ ∀ v, decodeVersion s = .ok v → v.2.2 = 3 ∨ v.2.2 = 4 := by
  unfold decodeVersion
  simp only [bind, idx_ok s 0 (by omega), idx_ok s 1 (by omega), idx_ok s 2 (by omega)]
  by_cases h0 : (s[0] != 36) = true
  · simp [h0]
  · by_cases h1 : s[1] > 50
    · simp [h0, h1]
    · by_cases h2 : (s[2] != 36) = true
      · simp only [h0, h1, h2, if_true, if_false, pure]
        refine ⟨by simp, ?_⟩
        intro v hv; injection hv with hv; subst hv; simp
      · simp only [h0, h1, h2, if_false, pure]
        refine ⟨by simp, ?_⟩
        intro v hv; injection hv with hv; subst hv; simp

theorem decodeCost_spec (s : Bytes) (hs : 2 ≤ s.length) :
    decodeCost s ≠ .panic ∧ ∀ v, decodeCost s = .ok v → v.2 = 3 ∧ 4 ≤ v.1 ∧ v.1 ≤ 31 := by
  unfold decodeCost
  have s1 : slice s 0 2 = .ok ((s.take 2).drop 0) := by
    simp only [slice]; rw [if_pos]; exact ⟨by omega, by omega⟩
  have l2 : ((s.take 2).drop 0).length = 2 := by simp; omega
  simp only [bind, s1, idx_ok _ 0 (show 0 < ((s.take 2).drop 0).length by omega),
    idx_ok _ 1 (show 1 < ((s.take 2).drop 0).length by omega)]
  split
  · simp
  · rename_i c hc
    simp only [checkCost]
    by_cases hr : c < 4 ∨ c > 31
    · simp [hr]
    · simp only [hr, if_false, pure]
      refine ⟨by simp, ?_⟩
      intro v hv; injection hv with hv; subst hv
      simp only [true_and]
      omega

/-- `newFromHash` never panics: every index / slice expression is guarded by the 59-byte check -/
theorem parse_total (h : Bytes) : newFromHash h ≠ .panic := by
  unfold newFromHash
  by_cases hl : h.length < 59
  · simp [hl]
  · simp only [hl, if_false]
    obtain ⟨v1, v2⟩ := decodeVersion_spec h (by omega)
    apply bind_noPanic _ _ v1
    intro ⟨maj, min, n⟩ hv
    have hn := v2 _ hv
    simp only at hn
    have hn4 : n ≤ 4 := by omega
    simp only
    have e1 : sliceFrom h n = .ok (h.drop n) := by simp [sliceFrom]; omega
    rw [e1]
    simp only [bind]
    have l1 : 55 ≤ (h.drop n).length := by simp; omega
    obtain ⟨c1, c2⟩ := decodeCost_spec (h.drop n) (by omega)
    apply bind_noPanic _ _ c1
    intro ⟨cost, m⟩ hc
    have hm := (c2 _ hc).1
    simp only at hm
    subst hm
    simp only
    have e2 : sliceFrom (h.drop n) 3 = .ok ((h.drop n).drop 3) := by simp [sliceFrom]; omega
    rw [e2]
    simp only [bind]
    have l2 : 52 ≤ ((h.drop n).drop 3).length := by simp; omega
    have e3 : slice ((h.drop n).drop 3) 0 22 = .ok ((((h.drop n).drop 3).take 22).drop 0) := by
      simp only [slice]; rw [if_pos]; exact ⟨by omega, by omega⟩
    have e4 : sliceFrom ((h.drop n).drop 3) 22 = .ok (((h.drop n).drop 3).drop 22) := by
      simp only [sliceFrom]; rw [if_pos]; omega
    rw [e3]
    simp only [e4, pure]
    simp

/-- `Cost` never panics either (it is `newFromHash` + a field read) -/
theorem cost_total (h : Bytes) : cost h ≠ .panic := by
  unfold cost
  apply bind_noPanic _ _ (parse_total h)
  intro a _; simp [pure]

/-- an accepted cost is always within MinCost..MaxCost -/
theorem cost_range (h : Bytes) (c : Int) (hc : cost h = .ok c) : 4 ≤ c ∧ c ≤ 31 := by
  unfold cost newFromHash at hc
  by_cases hl : h.length < 59
  · simp [hl] at hc
  · simp only [hl, if_false, bind] at hc
    cases hv : decodeVersion h with
    | panic => simp [hv] at hc
    | err e => simp [hv] at hc
    | ok v =>
      obtain ⟨maj, min, n⟩ := v
      simp only [hv] at hc
      cases h1 : sliceFrom h n with
      | panic => simp [h1] at hc
      | err e => simp [h1] at hc
      | ok h' =>
        simp only [h1] at hc
        cases h2 : decodeCost h' with
        | panic => simp [h2] at hc
        | err e => simp [h2] at hc
        | ok w =>
          obtain ⟨cc, m⟩ := w
          simp only [h2] at hc
          have hlen : 2 ≤ h'.length := by
            simp only [sliceFrom] at h1
            split at h1
            · injection h1 with h1; subst h1
              have := (decodeVersion_spec h (by omega)).2 _ hv
              simp only at this
              simp; omega
            · cases h1
          have := ((decodeCost_spec h' hlen).2 _ h2).2
          simp only at this
          cases h3 : sliceFrom h' m with
          | panic => simp [h3] at hc
          | err e => simp [h3] at hc
          | ok h'' =>
            simp only [h3] at hc
            cases h4 : slice h'' 0 22 with
            | panic => simp [h4] at hc
            | err e => simp [h4] at hc
            | ok sl =>
              simp only [h4] at hc
              cases h5 : sliceFrom h'' 22 with
              | panic => simp [h5] at hc
              | err e => simp [h5] at hc
              | ok h''' =>
                simp only [h5, pure] at hc
                injection hc with hc
                subst hc
                exact this

/-- cost round trip: the two characters `Hash()` writes for a legal cost parse back to it -/
theorem cost_roundtrip (c : Int) (h1 : 4 ≤ c) (h2 : c ≤ 31) :
    (fmt02 c).length = 2 ∧ atoi2 ((fmt02 c).getD 0 0) ((fmt02 c).getD 1 0) = some c := by
  have : ∃ n : Fin 32, c = (n.val : Int) := ⟨⟨c.toNat, by omega⟩, by simp; omega⟩
  obtain ⟨n, rfl⟩ := this
  have key : ∀ n : Fin 32, (fmt02 (n.val : Int)).length = 2 ∧
      (4 ≤ n.val → atoi2 ((fmt02 (n.val : Int)).getD 0 0) ((fmt02 (n.val : Int)).getD 1 0) = some (n.val : Int)) := by
    decide
  exact ⟨(key n).1, (key n).2 (by omega)⟩

end XC.C17
