/-
  C52 — property theorems over XC.Model.C52 (encodings, GF(p²) laws); what is not proved is
  stated at the end as `def … : Prop`.
-/
import XC.Model.C52_Pairing
import XC.Proofs.C52_Codec
import XC.Proofs.C52_Field
import XC.Proofs.C52_Bits
import XC.Proofs.C52_Alias
import XC.Proofs.C52_FinalExp
import XC.Proofs.C52_Frob
import XC.Proofs.C52_Fp6
import XC.Proofs.C52_Gt
import XC.Proofs.C52_PairEval
namespace XC.C52

/-! ## G1 encodings -/

/-- coordinates read by `G1.Unmarshal` -/
def g1X (m : Bytes) : Int := natOfBE (m.take 32)
def g1Y (m : Bytes) : Int := natOfBE (m.drop 32)

/-- the affine curve equation mod p -/
def onCurve1 (x y : Int) : Prop := (y * y - x * x * x - 3) % p = 0

theorem ite_isSome {α : Type} (b : Bool) (a : α) :
    (if b = true then some a else none).isSome = true ↔ b = true := by
  cases b <;> simp

/-- **acceptance**: `G1.Unmarshal` succeeds iff the input is 64 bytes, both coordinates are
    reduced (`< p`), and it is the all-zero string or a point of the curve. -/
theorem g1_unmarshal_accepts_iff (m : Bytes) :
    (g1Unmarshal m).isSome ↔
      m.length = 64 ∧ g1X m < p ∧ g1Y m < p ∧
        ((g1X m = 0 ∧ g1Y m = 0) ∨ onCurve1 (g1X m) (g1Y m)) := by
  unfold g1Unmarshal g1X g1Y onCurve1
  by_cases hl : m.length = 64
  · simp only [hl, ne_eq, not_true_eq_false, ↓reduceIte, true_and]
    by_cases hx : (natOfBE (m.take 32) : Int) ≥ p
    · simp [hx]; omega
    by_cases hy : (natOfBE (m.drop 32) : Int) ≥ p
    · simp [hy]; omega
    simp only [hx, hy, or_self, ↓reduceIte]
    by_cases h0 : (natOfBE (m.take 32) : Int) = 0 ∧ (natOfBE (m.drop 32) : Int) = 0
    · simp [h0]; omega
    · simp only [h0, ↓reduceIte, false_or]
      have hx' : (natOfBE (m.take 32) : Int) < p := by omega
      have hy' : (natOfBE (m.drop 32) : Int) < p := by omega
      simp only [hx', hy', true_and]
      rw [ite_isSome]; simp [CurvePoint.isOnCurve]
  · simp [hl]

/-- **canonical**: whatever `Unmarshal` accepts, `Marshal` gives back byte for byte — so no two
    different strings decode to the same element (this is the clause the reduced-coordinates fix restored). -/
theorem g1_unmarshal_canonical (m : Bytes) (c : CurvePoint) (h : g1Unmarshal m = some c) :
    g1Marshal c = m := by
  unfold g1Unmarshal at h
  by_cases hl : m.length = 64
  · simp only [hl, ne_eq, not_true_eq_false, ↓reduceIte] at h
    have htl : (m.take 32).length = 32 := by simp [hl]
    have hdl : (m.drop 32).length = 32 := by simp [hl]
    have hm : m = m.take 32 ++ m.drop 32 := (List.take_append_drop 32 m).symm
    by_cases hxy : (natOfBE (m.take 32) : Int) ≥ p ∨ (natOfBE (m.drop 32) : Int) ≥ p
    · simp [hxy] at h
    simp only [hxy, ↓reduceIte] at h
    have hx' : (natOfBE (m.take 32) : Int) < p := by omega
    have hy' : (natOfBE (m.drop 32) : Int) < p := by omega
    by_cases h0 : (natOfBE (m.take 32) : Int) = 0 ∧ (natOfBE (m.drop 32) : Int) = 0
    · simp only [h0, and_self, ↓reduceIte, Option.some.injEq] at h
      subst h
      have e1 := eq_zeros_of_natOfBE_zero _ htl (by exact_mod_cast h0.1)
      have e2 := eq_zeros_of_natOfBE_zero _ hdl (by exact_mod_cast h0.2)
      rw [hm, e1, e2]
      simp [g1Marshal, CurvePoint.isInfinity, zeros]
    · simp only [h0, ↓reduceIte] at h
      split at h
      · simp only [Option.some.injEq] at h
        subst h
        simp only [g1Marshal, CurvePoint.isInfinity, CurvePoint.makeAffine]
        simp only [show ((1 : Int) == 0) = false by decide, Bool.false_eq_true, ↓reduceIte,
          show ((1 : Int).natAbs == 1) = true by decide]
        rw [be32_natOfBE _ htl hx', be32_natOfBE _ hdl hy']
        exact hm.symm
      · simp at h
  · simp [hl] at h

/-- **uniqueness of encodings**: two accepted strings that decode to the same element are equal. -/
theorem g1_encoding_unique (m1 m2 : Bytes) (c : CurvePoint)
    (h1 : g1Unmarshal m1 = some c) (h2 : g1Unmarshal m2 = some c) : m1 = m2 := by
  rw [← g1_unmarshal_canonical m1 c h1, ← g1_unmarshal_canonical m2 c h2]

/-- decoded points are affine-normalised: `z = t = 1` and reduced coordinates, or the fixed
    representation `(0 : 1 : 0)` of infinity -/
theorem g1_unmarshal_normalised (m : Bytes) (c : CurvePoint) (h : g1Unmarshal m = some c) :
    c = ⟨0, 1, 0, 0⟩ ∨ (c.z = 1 ∧ c.t = 1 ∧ 0 ≤ c.x ∧ c.x < p ∧ 0 ≤ c.y ∧ c.y < p ∧ onCurve1 c.x c.y) := by
  unfold g1Unmarshal at h
  by_cases hl : m.length = 64
  · simp only [hl, ne_eq, not_true_eq_false, ↓reduceIte] at h
    by_cases hxy : (natOfBE (m.take 32) : Int) ≥ p ∨ (natOfBE (m.drop 32) : Int) ≥ p
    · simp [hxy] at h
    simp only [hxy, ↓reduceIte] at h
    by_cases h0 : (natOfBE (m.take 32) : Int) = 0 ∧ (natOfBE (m.drop 32) : Int) = 0
    · simp only [h0, and_self, ↓reduceIte, Option.some.injEq] at h
      exact Or.inl h.symm
    · simp only [h0, ↓reduceIte] at h
      split at h
      · rename_i hc
        simp only [Option.some.injEq] at h
        subst h
        refine Or.inr ⟨rfl, rfl, by simp, by simp; omega, by simp, by simp; omega, ?_⟩
        simpa [CurvePoint.isOnCurve, onCurve1] using hc
      · simp at h
  · simp [hl] at h

/-- **Marshal then Unmarshal** returns the same element, for every affine-normalised point of
    the curve other than the pair (0,0) (which is not on the curve: 0 ≠ 3) and for infinity. -/
theorem g1_marshal_unmarshal (x y : Int) (hx0 : 0 ≤ x) (hx : x < p) (hy0 : 0 ≤ y) (hy : y < p)
    (hc : onCurve1 x y) :
    g1Unmarshal (g1Marshal ⟨x, y, 1, 1⟩) = some ⟨x, y, 1, 1⟩ := by
  have hm : g1Marshal ⟨x, y, 1, 1⟩ = be32 (x % p) ++ be32 (y % p) := by
    simp only [g1Marshal, CurvePoint.isInfinity, CurvePoint.makeAffine]
    simp only [show ((1 : Int) == 0) = false by decide, Bool.false_eq_true, ↓reduceIte,
      show ((1 : Int).natAbs == 1) = true by decide]
  have hne : ¬ (x = 0 ∧ y = 0) := by
    rintro ⟨rfl, rfl⟩
    revert hc; unfold onCurve1; decide
  rw [hm]
  unfold g1Unmarshal
  have hlen : (be32 (x % p) ++ be32 (y % p)).length = 64 := by simp [be32_length]
  have ht : (be32 (x % p) ++ be32 (y % p)).take 32 = be32 (x % p) := by
    rw [List.take_append_of_le_length (by simp [be32_length])]
    rw [List.take_of_length_le (by simp [be32_length])]
  have hd : (be32 (x % p) ++ be32 (y % p)).drop 32 = be32 (y % p) := by
    rw [List.drop_append_of_le_length (by simp [be32_length])]
    rw [List.drop_of_length_le (by simp [be32_length])]
    simp
  simp only [hlen, ne_eq, not_true_eq_false, ↓reduceIte, ht, hd]
  rw [natOfBE_be32 x hx0 hx, natOfBE_be32 y hy0 hy]
  have h1 : ¬ (x ≥ p ∨ y ≥ p) := by omega
  simp only [h1, hne, ↓reduceIte]
  have : CurvePoint.isOnCurve ⟨x, y, 1, 1⟩ = true := by
    simpa [CurvePoint.isOnCurve, onCurve1] using hc
  simp [this]

theorem g1_marshal_unmarshal_infinity (c : CurvePoint) (h : c.z = 0) :
    g1Unmarshal (g1Marshal c) = some ⟨0, 1, 0, 0⟩ := by
  have : g1Marshal c = zeros 64 := by simp [g1Marshal, CurvePoint.isInfinity, h]
  rw [this]; decide

/-- non-vacuity: the generator `(1, −2)`, marshalled as `(1, p−2)`, is accepted, and its alias
    `(1+p, p−2)` — accepted before the reduced-coordinates fix — is rejected -/
example : (g1Unmarshal (g1Marshal CurvePoint.gen)).isSome = true := by decide
example : g1Unmarshal (be32 (1 + p) ++ be32 (p - 2)) = none := by decide


/-! ## G2 encodings -/

def g2XX (m : Bytes) : Int := natOfBE (m.take 32)
def g2XY (m : Bytes) : Int := natOfBE ((m.drop 32).take 32)
def g2YX (m : Bytes) : Int := natOfBE ((m.drop 64).take 32)
def g2YY (m : Bytes) : Int := natOfBE (m.drop 96)

/-- the twist equation `y² = x³ + 3/ξ` over GF(p²), as the code evaluates it -/
def onCurve2 (x y : GFp2) : Prop := TwistPoint.isOnCurve ⟨x, y, .one, .one⟩ = true

theorem split4 (m : Bytes) :
    m = m.take 32 ++ ((m.drop 32).take 32 ++ ((m.drop 64).take 32 ++ m.drop 96)) := by
  have h1 := (List.take_append_drop 32 m).symm
  have h2 := (List.take_append_drop 32 (m.drop 32)).symm
  have h3 := (List.take_append_drop 32 (m.drop 64)).symm
  simp only [List.drop_drop] at h2 h3
  rw [← h3, ← h2, ← h1]

theorem g2_unmarshal_accepts_iff (m : Bytes) :
    (g2Unmarshal m).isSome ↔
      m.length = 128 ∧ g2XX m < p ∧ g2XY m < p ∧ g2YX m < p ∧ g2YY m < p ∧
        ((g2XX m = 0 ∧ g2XY m = 0 ∧ g2YX m = 0 ∧ g2YY m = 0) ∨
          onCurve2 ⟨g2XX m, g2XY m⟩ ⟨g2YX m, g2YY m⟩) := by
  unfold g2Unmarshal g2XX g2XY g2YX g2YY onCurve2
  by_cases hl : m.length = 128
  · simp only [hl, ne_eq, not_true_eq_false, ↓reduceIte, true_and]
    generalize (natOfBE (m.take 32) : Int) = a
    generalize (natOfBE ((m.drop 32).take 32) : Int) = b
    generalize (natOfBE ((m.drop 64).take 32) : Int) = c
    generalize (natOfBE (m.drop 96) : Int) = d
    by_cases hge : a ≥ p ∨ b ≥ p ∨ c ≥ p ∨ d ≥ p
    · simp only [hge, ↓reduceIte, Option.isSome_none, Bool.false_eq_true, false_iff]; omega
    simp only [hge, ↓reduceIte]
    have hlt : a < p ∧ b < p ∧ c < p ∧ d < p := by omega
    by_cases h0 : a = 0 ∧ b = 0 ∧ c = 0 ∧ d = 0
    · simp [h0]; have := p_pos; omega
    · simp only [h0, ↓reduceIte, false_or, hlt, true_and]
      rw [ite_isSome]
  · simp [hl]

theorem g2_unmarshal_canonical (m : Bytes) (c : TwistPoint) (h : g2Unmarshal m = some c) :
    g2Marshal c = m := by
  unfold g2Unmarshal at h
  by_cases hl : m.length = 128
  · simp only [hl, ne_eq, not_true_eq_false, ↓reduceIte] at h
    have l1 : (m.take 32).length = 32 := by simp [hl]
    have l2 : ((m.drop 32).take 32).length = 32 := by simp [hl]
    have l3 : ((m.drop 64).take 32).length = 32 := by simp [hl]
    have l4 : (m.drop 96).length = 32 := by simp [hl]
    have hm := split4 m
    by_cases hge : (natOfBE (m.take 32) : Int) ≥ p ∨ (natOfBE ((m.drop 32).take 32) : Int) ≥ p ∨
        (natOfBE ((m.drop 64).take 32) : Int) ≥ p ∨ (natOfBE (m.drop 96) : Int) ≥ p
    · simp [hge] at h
    simp only [hge, ↓reduceIte] at h
    have hlt : (natOfBE (m.take 32) : Int) < p ∧ (natOfBE ((m.drop 32).take 32) : Int) < p ∧
        (natOfBE ((m.drop 64).take 32) : Int) < p ∧ (natOfBE (m.drop 96) : Int) < p := by omega
    by_cases h0 : (natOfBE (m.take 32) : Int) = 0 ∧ (natOfBE ((m.drop 32).take 32) : Int) = 0 ∧
        (natOfBE ((m.drop 64).take 32) : Int) = 0 ∧ (natOfBE (m.drop 96) : Int) = 0
    · simp only [h0, and_self, ↓reduceIte, Option.some.injEq] at h
      subst h
      have e1 := eq_zeros_of_natOfBE_zero _ l1 (by exact_mod_cast h0.1)
      have e2 := eq_zeros_of_natOfBE_zero _ l2 (by exact_mod_cast h0.2.1)
      have e3 := eq_zeros_of_natOfBE_zero _ l3 (by exact_mod_cast h0.2.2.1)
      have e4 := eq_zeros_of_natOfBE_zero _ l4 (by exact_mod_cast h0.2.2.2)
      rw [hm, e1, e2, e3, e4]
      simp [g2Marshal, TwistPoint.isInfinity, GFp2.isZero, GFp2.zero, zeros]
    · simp only [h0, ↓reduceIte] at h
      split at h
      · simp only [Option.some.injEq] at h
        subst h
        simp only [g2Marshal, TwistPoint.isInfinity, TwistPoint.makeAffine, GFp2.one, GFp2.isZero, GFp2.isOne]
        simp only [show ((1 : Int) == 0) = false by decide, show ((0 : Int) == 0) = true by decide,
          Bool.and_false, Bool.false_eq_true, ↓reduceIte, Bool.true_and,
          show ((1 : Int).natAbs == 1) = true by decide]
        rw [be32_natOfBE _ l1 hlt.1, be32_natOfBE _ l2 hlt.2.1, be32_natOfBE _ l3 hlt.2.2.1,
          be32_natOfBE _ l4 hlt.2.2.2]
        exact hm.symm
      · simp at h
  · simp [hl] at h

theorem g2_encoding_unique (m1 m2 : Bytes) (c : TwistPoint)
    (h1 : g2Unmarshal m1 = some c) (h2 : g2Unmarshal m2 = some c) : m1 = m2 := by
  rw [← g2_unmarshal_canonical m1 c h1, ← g2_unmarshal_canonical m2 c h2]

theorem g2_marshal_unmarshal (x y : GFp2)
    (hxx : 0 ≤ x.x ∧ x.x < p) (hxy : 0 ≤ x.y ∧ x.y < p) (hyx : 0 ≤ y.x ∧ y.x < p) (hyy : 0 ≤ y.y ∧ y.y < p)
    (hne : ¬ (x.x = 0 ∧ x.y = 0 ∧ y.x = 0 ∧ y.y = 0)) (hc : onCurve2 x y) :
    g2Unmarshal (g2Marshal ⟨x, y, .one, .one⟩) = some ⟨x, y, .one, .one⟩ := by
  have hm : g2Marshal ⟨x, y, .one, .one⟩ =
      be32 (x.x % p) ++ (be32 (x.y % p) ++ (be32 (y.x % p) ++ be32 (y.y % p))) := by
    simp only [g2Marshal, TwistPoint.isInfinity, TwistPoint.makeAffine, GFp2.one, GFp2.isZero, GFp2.isOne]
    simp only [show ((1 : Int) == 0) = false by decide, show ((0 : Int) == 0) = true by decide,
      Bool.and_false, Bool.false_eq_true, ↓reduceIte, Bool.true_and,
      show ((1 : Int).natAbs == 1) = true by decide]
  rw [hm]
  unfold g2Unmarshal
  have bl := be32_length
  have hlen : (be32 (x.x % p) ++ (be32 (x.y % p) ++ (be32 (y.x % p) ++ be32 (y.y % p)))).length = 128 := by
    simp [bl]
  have t1 : (be32 (x.x % p) ++ (be32 (x.y % p) ++ (be32 (y.x % p) ++ be32 (y.y % p)))).take 32 = be32 (x.x % p) := by
    rw [List.take_append_of_le_length (by simp [bl]), List.take_of_length_le (by simp [bl])]
  have d1 : (be32 (x.x % p) ++ (be32 (x.y % p) ++ (be32 (y.x % p) ++ be32 (y.y % p)))).drop 32 =
      be32 (x.y % p) ++ (be32 (y.x % p) ++ be32 (y.y % p)) := by
    rw [List.drop_append_of_le_length (by simp [bl]), List.drop_of_length_le (by simp [bl])]; simp
  have d2 : (be32 (x.x % p) ++ (be32 (x.y % p) ++ (be32 (y.x % p) ++ be32 (y.y % p)))).drop 64 =
      be32 (y.x % p) ++ be32 (y.y % p) := by
    rw [show (64 : Nat) = 32 + 32 by rfl, ← List.drop_drop, d1,
      List.drop_append_of_le_length (by simp [bl]), List.drop_of_length_le (by simp [bl])]; simp
  have d3 : (be32 (x.x % p) ++ (be32 (x.y % p) ++ (be32 (y.x % p) ++ be32 (y.y % p)))).drop 96 =
      be32 (y.y % p) := by
    rw [show (96 : Nat) = 64 + 32 by rfl, ← List.drop_drop, d2,
      List.drop_append_of_le_length (by simp [bl]), List.drop_of_length_le (by simp [bl])]; simp
  have t2 : (be32 (x.y % p) ++ (be32 (y.x % p) ++ be32 (y.y % p))).take 32 = be32 (x.y % p) := by
    rw [List.take_append_of_le_length (by simp [bl]), List.take_of_length_le (by simp [bl])]
  have t3 : (be32 (y.x % p) ++ be32 (y.y % p)).take 32 = be32 (y.x % p) := by
    rw [List.take_append_of_le_length (by simp [bl]), List.take_of_length_le (by simp [bl])]
  simp only [hlen, ne_eq, not_true_eq_false, ↓reduceIte, t1, d1, d2, d3, t2, t3]
  rw [natOfBE_be32 _ hxx.1 hxx.2, natOfBE_be32 _ hxy.1 hxy.2, natOfBE_be32 _ hyx.1 hyx.2,
    natOfBE_be32 _ hyy.1 hyy.2]
  have h1 : ¬ (x.x ≥ p ∨ x.y ≥ p ∨ y.x ≥ p ∨ y.y ≥ p) := by omega
  simp only [h1, hne, ↓reduceIte]
  have : TwistPoint.isOnCurve ⟨⟨x.x, x.y⟩, ⟨y.x, y.y⟩, .one, .one⟩ = true := hc
  simp [this]

set_option maxRecDepth 20000 in
theorem g2_marshal_unmarshal_infinity (c : TwistPoint) (h : c.z.isZero = true) :
    g2Unmarshal (g2Marshal c) = some ⟨.zero, .one, .zero, .zero⟩ := by
  have : g2Marshal c = zeros 128 := by simp [g2Marshal, TwistPoint.isInfinity, h]
  rw [this]; decide

set_option maxRecDepth 20000 in
example : (g2Unmarshal (g2Marshal TwistPoint.gen)).isSome = true := by decide


/-! ## field arithmetic and scalar loops: see `XC.Proofs.C52_Field`, `XC.Proofs.C52_Bits`

  `GFp2.mul_comm`, `GFp2.mul_assoc`, `GFp2.mul_add`, `GFp2.mul_one`, `GFp2.mul_congr`,
  `GFp2.square_eq_mul`, `GFp2.mulXi_eqv`, `GFp2.conj_mul`; `goBits_value`,
  `goBits_negative_witness`; `XC.Proofs.C52_Alias` (Double alias safety, Add(a,a) = Double(a), P + (−P) = ∞,
  neutral element), `XC.Proofs.C52_FinalExp` (the final exponentiation's chain has exponent (p¹²−1)/n; constants),
  `XC.Proofs.C52_Frob` (Frobenius² = FrobeniusP2), `XC.Proofs.C52_Fp6` (Karatsuba = schoolbook). -/

/-- G1.Neg keeps a point on the curve (affine form) -/
theorem g1_neg_onCurve (x y : Int) (h : onCurve1 x y) : onCurve1 x (-y) := by
  unfold onCurve1 at *
  rw [Int.neg_mul_neg]; exact h

/-- **Marshal ; Unmarshal returns an equal element, for EVERY representative** (Jacobian or not):
    if the decoder accepts the encoding at all, the element it returns marshals to the same bytes.
    (It accepts iff the affine form is on the curve: `g1_unmarshal_accepts_iff`.) -/
theorem g1_roundtrip_equal (c c' : CurvePoint) (h : g1Unmarshal (g1Marshal c) = some c') :
    g1Marshal c' = g1Marshal c := g1_unmarshal_canonical _ _ h

theorem g2_roundtrip_equal (c c' : TwistPoint) (h : g2Unmarshal (g2Marshal c) = some c') :
    g2Marshal c' = g2Marshal c := g2_unmarshal_canonical _ _ h

/-- GT.ScalarMult with a negative scalar is the inverse of the power for |k| -/
theorem gt_exp_neg (a : GFp12) (k : Int) (h : k < 0) : a.exp k = (a.expLoop (-k)).invert ∧ 0 ≤ -k := by
  simp [GFp12.exp, h]; omega

/-! ### non-vacuity of the hypotheses used above -/

-- the generator of G1 in marshalled form (1, p−2) satisfies the hypotheses of `g1_marshal_unmarshal`
example : (0 : Int) ≤ 1 ∧ (1 : Int) < p ∧ 0 ≤ p - 2 ∧ p - 2 < p ∧ onCurve1 1 (p - 2) := by
  unfold onCurve1; decide
-- … and of `g1_roundtrip_equal` / `g1_unmarshal_canonical` with a Jacobian (z ≠ 1) representative
example : ∃ c', g1Unmarshal (g1Marshal (CurvePoint.gen.mul 5)) = some c' ∧ (CurvePoint.gen.mul 5).z ≠ 1 := by
  decide +kernel
-- the generator of G2 satisfies the hypotheses of `g2_marshal_unmarshal`
set_option maxRecDepth 20000 in
example : onCurve2 TwistPoint.gen.x TwistPoint.gen.y ∧ TwistPoint.gen.x.x < p ∧ 0 ≤ TwistPoint.gen.y.y := by
  unfold onCurve2; decide +kernel
-- `add_self`, `add_neg`, `add_infinity`: the generators are not infinity, `infinity0` is
example : CurvePoint.gen.isInfinity = false ∧ TwistPoint.gen.isInfinity = false ∧
    CurvePoint.infinity0.isInfinity = true ∧ TwistPoint.infinity0.isInfinity = true := by decide
-- `mul_neg`, `gt_exp_neg`: a negative scalar; and the result really is the negation: [−1]g = (1, 2)
example : ((-1 : Int) < 0) ∧ g1Marshal (CurvePoint.gen.mul (-1)) = be32 1 ++ be32 2 := by decide +kernel
-- `GFp2.mul_congr`, `GFp2.Eqv`: two different representatives of the same field element
example : GFp2.Eqv ⟨p + 1, -1⟩ ⟨1, p - 1⟩ ∧ (⟨p + 1, -1⟩ : GFp2) ≠ ⟨1, p - 1⟩ := by
  unfold GFp2.Eqv; decide
-- `pair_infinity`
example : pairNotOne CurvePoint.infinity0 TwistPoint.gen = false := by decide

/-! ## what is NOT proved (checked only differentially / as identities on the implementation) -/

/-- group laws of G1 on the model's Jacobian formulas, as observable through Marshal -/
def C52_g1_group_full : Prop :=
  ∀ a b : Int,
    g1Marshal ((CurvePoint.gen.mul a).add (CurvePoint.gen.mul b)) = g1Marshal (CurvePoint.gen.mul (a + b)) ∧
    g1Marshal ((CurvePoint.gen.mul a).mul b) = g1Marshal (CurvePoint.gen.mul (a * b)) ∧
    g1Marshal (CurvePoint.gen.mul order) = zeros 64

def C52_g2_group_full : Prop :=
  ∀ a b : Int,
    g2Marshal ((TwistPoint.gen.mul a).add (TwistPoint.gen.mul b)) = g2Marshal (TwistPoint.gen.mul (a + b)) ∧
    g2Marshal ((TwistPoint.gen.mul a).mul b) = g2Marshal (TwistPoint.gen.mul (a * b)) ∧
    g2Marshal (TwistPoint.gen.mul order) = zeros 128

/-- bilinearity and non-degeneracy of the optimal ate pairing -/
def C52_pairing_full : Prop :=
  ∀ a b : Int, ∀ e e0 : GFp12,
    pair (CurvePoint.gen.mul a) (TwistPoint.gen.mul b) = .val e →
    pair CurvePoint.gen TwistPoint.gen = .val e0 →
      gtMarshal e = gtMarshal (e0.exp (a * b)) ∧ (e0.isOne = false)

end XC.C52
