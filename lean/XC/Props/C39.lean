/-
  C39 — OpenSSH private keys: theorems over XC.Model.C39 (the code after fixes e406b17, 9cae9ca, 4d7287a).

  * padding: what generateOpenSSHPadding appends is accepted by checkOpenSSHKeyPadding and fills the
    block (`padding_accepted`, `padding_fills_8`, `padding_fills_16`);
  * wrong passphrase: a malformed / check-mismatching decrypted block is IncorrectPasswordError for
    encrypted files and a plain error otherwise (`wrong_pass_error`);
  * **consistent_if_accepted** (both APIs): an accepted key's marshalled public key IS the public key
    blob stored in the file, and per type: Ed25519 Pub = Priv[32:] = public key of the seed; ECDSA point
    valid, 0 < D < N, point = D·G; RSA size bounds, exponent rule, rsa.Validate
    (`ed_consistent`, `ec_consistent`, `rsa_consistent`, `privBlock_outer`, `consistent_if_accepted`,
    `consistent_if_accepted_pass`);
  * round trip of what MarshalPrivateKey writes for Ed25519 keys (`marshal_parse_ed25519`);
  * regression witnesses of the two former defects: `outer_mismatch_rejected`,
    `ec_nonpositive_scalar_rejected`.
-/
import XC.Model.C39
import XC.Proofs.C38_Wire
namespace XC.C39
open XC XC.C38 XC.C41

/-! ## padding -/

theorem padOkFrom_padGo : ∀ (f len i bs : Nat), i + f ≤ 255 → padOkFrom i (padGo f len i bs) = true := by
  intro f
  induction f with
  | zero => intro len i bs _; rfl
  | succ f ih =>
    intro len i bs h
    unfold padGo
    split
    · rfl
    · simp only [padOkFrom, u8_toNat, Bool.and_eq_true, decide_eq_true_eq]
      exact ⟨by omega, ih len (i + 1) bs (by omega)⟩

/-- the padding written by generateOpenSSHPadding passes checkOpenSSHKeyPadding (block sizes ≤ 255) -/
theorem padding_accepted (len bs : Nat) (h : bs ≤ 255) : padOk (genPadding len bs) = true :=
  padOkFrom_padGo bs len 0 bs (by omega)

theorem padGo_fills : ∀ (f len i bs : Nat), (∃ j, j < f ∧ (len + i + j) % bs = 0) →
    (len + i + (padGo f len i bs).length) % bs = 0 := by
  intro f
  induction f with
  | zero => intro len i bs ⟨j, hj, _⟩; omega
  | succ f ih =>
    intro len i bs ⟨j, hj, hm⟩
    unfold padGo
    by_cases h0 : (len + i) % bs = 0
    · simp only [h0, ↓reduceIte, List.length_nil, Nat.add_zero]
    · simp only [h0, ↓reduceIte, List.length_cons]
      have hj0 : j ≠ 0 := by intro e; subst e; exact h0 (by simpa using hm)
      have e1 : len + (i + 1) + (j - 1) = len + i + j := by omega
      have hm' : (len + (i + 1) + (j - 1)) % bs = 0 := by rw [e1]; exact hm
      have := ih len (i + 1) bs ⟨j - 1, by omega, hm'⟩
      have e : len + i + ((padGo f len (i + 1) bs).length + 1) = len + (i + 1) + (padGo f len (i + 1) bs).length := by omega
      rw [e]; exact this

/-- the padded private block is a whole number of 8-byte blocks (unencrypted files) … -/
theorem padding_fills_8 (len : Nat) : (len + (genPadding len 8).length) % 8 = 0 := by
  have := padGo_fills 8 len 0 8 ⟨(8 - len % 8) % 8, by omega, by omega⟩
  simpa [genPadding] using this

/-- … and of 16-byte AES blocks (encrypted files) -/
theorem padding_fills_16 (len : Nat) : (len + (genPadding len 16).length) % 16 = 0 := by
  have := padGo_fills 16 len 0 16 ⟨(16 - len % 16) % 16, by omega, by omega⟩
  simpa [genPadding] using this

/-! ## wrong passphrase -/

/-- the header of the decrypted block: check1 = check2 and a key type string -/
def headerOk (blk : Bytes) : Option (Bytes × Bytes) :=
  if blk.isEmpty then none else
  match parseU32 blk with
  | none => none
  | some (c1, b1) =>
    match parseU32 b1 with
    | none => none
    | some (c2, b2) =>
      match parseString b2 with
      | none => none
      | some (kt, rest) => if c1 ≠ c2 then none else some (kt, rest)

/-- A decrypted block whose check words differ (what a wrong passphrase produces, up to 2^-32) or that
    does not even parse is reported as x509.IncorrectPasswordError for encrypted files and as a plain
    error for unencrypted ones. -/
theorem wrong_pass_error (o : Oracles) (blk : Bytes) (h : headerOk blk = none) :
    ∀ outer, parsePrivBlock o outer true blk = .badPass ∧ parsePrivBlock o outer false blk = .err := by
  intro outer
  unfold headerOk at h
  unfold parsePrivBlock
  by_cases he : blk.isEmpty = true
  · simp [he]
  · simp only [he, Bool.false_eq_true, ↓reduceIte] at h ⊢
    cases h1 : parseU32 blk with
    | none => simp
    | some p1 =>
      obtain ⟨c1, b1⟩ := p1
      simp only [h1] at h ⊢
      cases h2 : parseU32 b1 with
      | none => simp
      | some p2 =>
        obtain ⟨c2, b2⟩ := p2
        simp only [h2] at h ⊢
        cases h3 : parseString b2 with
        | none => simp
        | some p3 =>
          obtain ⟨kt, rest⟩ := p3
          simp only [h3] at h ⊢
          by_cases hc : c1 = c2
          · simp [hc] at h
          · simp [hc]

/-! ## accepted keys are internally consistent -/

theorem checkPub_ok (outer : Bytes) (k k' : PrivKey) (c c' : Bytes) (h : checkPub outer k c = .ok k' c') :
    k' = k ∧ c' = c ∧ k.pub.marshal = outer := by
  unfold checkPub at h
  by_cases hm : k.pub.marshal ≠ outer
  · rw [if_pos hm] at h; cases h
  · rw [if_neg hm] at h
    simp only [Res.ok.injEq] at h
    exact ⟨h.1.symm, h.2.symm, Decidable.not_not.mp hm⟩

/-- Ed25519: an accepted key has a 64-byte private part whose second half is BOTH the `Pub` field of
    the file and the public key derived from the seed, and its public key blob is the outer one -/
theorem ed_consistent (o : Oracles) (outer b : Bytes) (k : PrivKey) (c : Bytes) (h : parseEdPriv o outer b = .ok k c) :
    ∃ priv, k = .ed25519 priv ∧ priv.length = 64 ∧ o.edPub = some (priv.drop 32) ∧ k.pub.marshal = outer := by
  unfold parseEdPriv at h
  repeat (split at h; (· cases h))
  obtain ⟨rfl, rfl, hout⟩ := checkPub_ok _ _ _ _ _ h
  refine ⟨_, rfl, ?_, ?_, hout⟩ <;> simp_all

/-- ECDSA: the point is valid on the named curve, 0 < D < N, the point is D·G (the oracle is evaluated
    at |D| = D), and the public key blob is the outer one -/
theorem ec_consistent (o : Oracles) (outer b : Bytes) (k : PrivKey) (c : Bytes) (h : parseECPriv o outer b = .ok k c) :
    ∃ bits pt d, k = .ecdsa bits pt d ∧ o.pt bits pt = true ∧ 0 < d ∧ d < (curveOrder bits : Int) ∧
      o.ecPub = some pt ∧ k.pub.marshal = outer := by
  unfold parseECPriv at h
  repeat (split at h; (· cases h))
  obtain ⟨rfl, rfl, hout⟩ := checkPub_ok _ _ _ _ _ h
  refine ⟨_, _, _, rfl, ?_, ?_, ?_, ?_, hout⟩
  · simp_all
  · rename_i hd _ _ _
    omega
  · rename_i hd _ _ _
    omega
  · simp_all

/-- RSA: size bounds, exponent rule, rsa.Validate, and the public key blob is the outer one -/
theorem rsa_consistent (o : Oracles) (outer b : Bytes) (k : PrivKey) (c : Bytes) (h : parseRSAPriv o outer b = .ok k c) :
    ∃ n e d iqmp p q, k = .rsa n e d iqmp p q ∧ o.rsaValid = some true ∧ bitLen n ≤ 16384 ∧
      bitLen p ≤ 8192 ∧ bitLen q ≤ 8192 ∧ bitLen e ≤ 24 ∧ 3 ≤ e ∧ e % 2 ≠ 0 ∧ k.pub.marshal = outer := by
  unfold parseRSAPriv at h
  repeat (split at h; (· cases h))
  · cases h
  · obtain ⟨rfl, rfl, hout⟩ := checkPub_ok _ _ _ _ _ h
    refine ⟨_, _, _, _, _, _, rfl, ?_, ?_, ?_, ?_, ?_, ?_, ?_, hout⟩ <;> first | assumption | omega

/-- whatever the decrypted private block yields, an accepted key's public key blob is `outer` -/
theorem privBlock_outer (o : Oracles) (outer : Bytes) (enc : Bool) (blk : Bytes) (k : PrivKey) (c : Bytes)
    (h : parsePrivBlock o outer enc blk = .ok k c) : k.pub.marshal = outer := by
  unfold parsePrivBlock at h
  simp only at h
  have hbad : ∀ (e : Bool), (if e = true then Res.badPass else Res.err) ≠ .ok k c := by
    intro e; cases e <;> simp
  repeat (split at h; (· exact absurd h (hbad _)))
  split at h
  · obtain ⟨_, _, _, _, _, _, _, _, _, _, _, _, _, _, ho⟩ := rsa_consistent _ _ _ _ _ h; exact ho
  · split at h
    · obtain ⟨_, _, _, _, ho⟩ := ed_consistent _ _ _ _ _ h; exact ho
    · split at h
      · obtain ⟨_, _, _, _, _, _, _, _, ho⟩ := ec_consistent _ _ _ _ _ h; exact ho
      · cases h

/-- **consistent_if_accepted**: a key ParseRawPrivateKey accepts has, as its marshalled public key,
    exactly the public key blob stored in the file -/
theorem consistent_if_accepted (o : Oracles) (file : Bytes) (k : PrivKey) (c : Bytes)
    (h : parsePlain o file = .ok k c) :
    ∃ w, parseContainer file = some w ∧ w.pubKey = k.pub.marshal := by
  unfold parsePlain at h
  cases hw : parseContainer file with
  | none => rw [hw] at h; cases h
  | some w =>
    rw [hw] at h
    simp only at h
    refine ⟨w, rfl, ?_⟩
    split at h
    · cases h
    · split at h
      · repeat (split at h; (· cases h))
        all_goals cases h
      · split at h
        · cases h
        · exact (privBlock_outer _ _ _ _ _ _ h).symm

/-- … and the same for ParseRawPrivateKeyWithPassphrase -/
theorem consistent_if_accepted_pass (o : Oracles) (pw file : Bytes) (k : PrivKey) (c : Bytes)
    (h : parseWithPass o pw file = .ok k c) :
    ∃ w, parseContainer file = some w ∧ w.pubKey = k.pub.marshal := by
  unfold parseWithPass at h
  cases hw : parseContainer file with
  | none => rw [hw] at h; cases h
  | some w =>
    rw [hw] at h
    simp only at h
    refine ⟨w, rfl, ?_⟩
    repeat (split at h; (· cases h))
    -- the three outcomes of bcrypt_pbkdf.Key: ok / err / panic
    all_goals first
      | cases h
      | (repeat (split at h; (· cases h))
         all_goals first
           | cases h
           | exact (privBlock_outer _ _ _ _ _ _ h).symm
           | (split at h
              · cases h
              · exact (privBlock_outer _ _ _ _ _ _ h).symm))

/-! ## regression witnesses of the two former defects -/

def wPriv : Bytes := List.replicate 64 7
def wOracles : Oracles := ⟨fun _ _ => false, none, none, some (List.replicate 32 7), none⟩
/-- an Ed25519 file as MarshalPrivateKey writes it, but with the outer public key of another key -/
def wFile : Bytes :=
  magic ++ putString none_ ++ putString none_ ++ putString [] ++ putU32 1 ++
    putString (PubKey.ed25519 (List.replicate 32 9)).marshal ++ putString (privBlockOf (.ed25519 wPriv) [] 5 8)

/-- a file whose stored public key is not the key's public key is rejected (9cae9ca), the same file
    with the right public key is accepted -/
theorem outer_mismatch_rejected :
    parsePlain wOracles wFile = .err ∧
    parsePlain wOracles (marshalPlain (.ed25519 wPriv) [] 5) = .ok (.ed25519 wPriv) [] := by
  decide +kernel

/-- a zero or negative ECDSA scalar is rejected (4d7287a): here -1 and 0 with oracles that would let
    everything else pass -/
theorem ec_nonpositive_scalar_rejected :
    let o : Oracles := ⟨fun _ _ => true, none, none, none, some [4]⟩
    let outer := (PubKey.ecdsa 256 [4]).marshal
    parseECPriv o outer (putString (nm "nistp256") ++ putString [4] ++ putString [255] ++ putString []) = .err ∧
    parseECPriv o outer (putString (nm "nistp256") ++ putString [4] ++ putString [] ++ putString []) = .err ∧
    parseECPriv o outer (putString (nm "nistp256") ++ putString [4] ++ putString [1] ++ putString []) =
      .ok (.ecdsa 256 [4] 1) [] := by
  decide +kernel

/-! ## round trip of MarshalPrivateKey output (Ed25519) -/

theorem putU32_append_isEmpty (n : Nat) (x : Bytes) : (putU32 n ++ x).isEmpty = false := by
  simp only [putU32, List.cons_append, List.isEmpty_cons]

theorem parseContainer_put (c k op p b : Bytes) (n : Nat)
    (hc : c.length < 4294967296) (hk : k.length < 4294967296) (ho : op.length < 4294967296)
    (hn : n < 4294967296) (hp : p.length < 4294967296) (hb : b.length < 4294967296) :
    parseContainer (magic ++ putString c ++ putString k ++ putString op ++ putU32 n ++ putString p ++ putString b)
      = some ⟨c, k, op, n, p, b⟩ := by
  simp only [List.append_assoc]
  unfold parseContainer
  have ht : (magic ++ (putString c ++ (putString k ++ (putString op ++ (putU32 n ++ (putString p ++ putString b)))))).take magic.length = magic :=
    List.take_left' rfl
  have hd : (magic ++ (putString c ++ (putString k ++ (putString op ++ (putU32 n ++ (putString p ++ putString b)))))).drop magic.length
      = putString c ++ (putString k ++ (putString op ++ (putU32 n ++ (putString p ++ putString b)))) :=
    List.drop_left' rfl
  rw [ht, hd]
  simp only [ne_eq, not_true_eq_false, ↓reduceIte, putString_append_isEmpty, Bool.false_eq_true]
  rw [parseString_putString _ hc]
  simp only []
  rw [parseString_putString _ hk]
  simp only []
  rw [parseString_putString _ ho]
  simp only []
  rw [parseU32_putU32 _ hn]
  simp only []
  rw [parseString_putString _ hp]
  simp only []
  have hl := parseString_putString b hb []
  rw [List.append_nil] at hl
  rw [hl]

/-- **marshal_parse (Ed25519)**: what MarshalPrivateKey writes for an Ed25519 key (any comment, any
    check word) is parsed back to the same key by ParseRawPrivateKey -/
theorem marshal_parse_ed25519 (o : Oracles) (priv comment : Bytes) (check : Nat)
    (hl : priv.length = 64) (hpub : o.edPub = some (priv.drop 32))
    (hcom : comment.length < 4294967296) (hchk : check < 4294967296)
    (hblk : (privBlockOf (.ed25519 priv) comment check 8).length < 4294967296) :
    parsePlain o (marshalPlain (.ed25519 priv) comment check) = .ok (.ed25519 priv) comment := by
  unfold marshalPlain parsePlain
  have hpubl : (PrivKey.ed25519 priv).pub.marshal.length < 4294967296 := by
    simp only [PrivKey.pub, PubKey.marshal, PubKey.type, PubKey.body, List.length_append, putString_length, List.length_drop, hl]
    decide
  rw [parseContainer_put none_ none_ [] _ _ 1 (by decide) (by decide) (by decide) (by decide) hpubl hblk]
  simp only [ne_eq, not_true_eq_false, or_self, ↓reduceIte, List.isEmpty_nil, Bool.not_true, Bool.false_eq_true]
  -- the private block
  unfold privBlockOf parsePrivBlock
  simp only [List.append_assoc, keytypeOf, privFields]
  simp only [putU32_append_isEmpty, Bool.false_eq_true, ↓reduceIte]
  rw [parseU32_putU32 _ hchk]
  simp only []
  rw [parseU32_putU32 _ hchk]
  simp only []
  rw [parseString_putString _ (by decide)]
  have d1 : algoED25519 ≠ algoRSA := by decide
  simp only [ne_eq, not_true_eq_false, ↓reduceIte, d1]
  -- the Ed25519 section
  unfold parseEdPriv
  simp only [putString_append_isEmpty, Bool.false_eq_true, ↓reduceIte]
  rw [parseString_putString _ (by simp only [List.length_drop, hl]; decide)]
  simp only []
  rw [parseString_putString _ (by omega)]
  simp only []
  rw [parseString_putString _ hcom]
  simp only [hl, ne_eq, not_true_eq_false, ↓reduceIte, padding_accepted _ 8 (by decide), Bool.not_true,
    Bool.false_eq_true, hpub, or_self, checkPub]

/-- curve orders: sanity of the pinned constants (bit sizes 256 / 384 / 521) -/
theorem curveOrder_bits : Nat.log2 (curveOrder 256) + 1 = 256 ∧ Nat.log2 (curveOrder 384) + 1 = 384 ∧
    Nat.log2 (curveOrder 521) + 1 = 521 := by decide +kernel


/-! ## non-vacuity examples -/

/-- `wrong_pass_error`: blocks with an invalid header exist (empty, and check words 1 ≠ 2) -/
example : headerOk [] = none ∧ headerOk (putU32 1 ++ putU32 2 ++ putString algoED25519) = none := by decide +kernel
/-- `marshal_parse_ed25519` / `consistent_if_accepted`: the hypotheses hold for the witness key -/
example : wPriv.length = 64 ∧ wOracles.edPub = some (wPriv.drop 32) ∧
    parsePlain wOracles (marshalPlain (.ed25519 wPriv) (nm "c") 9) = .ok (.ed25519 wPriv) (nm "c") := by
  decide +kernel
/-- `ec_consistent`: an accepted ECDSA section (toy oracle) -/
example : parseECPriv ⟨fun _ _ => true, none, none, none, some [4]⟩ (PubKey.ecdsa 256 [4]).marshal
    (putString (nm "nistp256") ++ putString [4] ++ putString [1] ++ putString []) = .ok (.ecdsa 256 [4] 1) [] := by
  decide +kernel
/-- padding: 13 bytes are padded with 1,2,3 to 16 -/
example : genPadding 13 8 = [1, 2, 3] ∧ genPadding 16 16 = [] := by decide

/-! ## the PEM front end (PKCS#1 / PKCS#8 / EC / DSA / legacy encrypted PEM) -/

/-- a block whose Proc-Type mentions ENCRYPTED is PassphraseMissingError for ParseRawPrivateKey, whatever
    its type and content -/
theorem pemRawPlain_needPass (i : PemIn) (h1 : i.noBlock = false) (h2 : encryptedBlock i = true) :
    pemRawPlain i = .needPass := by
  simp [pemRawPlain, h1, h2]

/-- IncorrectPasswordError only for really encrypted blocks, and only when DecryptPEMBlock says so or the
    decrypted bytes fail with an asn1.StructuralError -/
theorem pemRawPass_badPass (i : PemIn) (h : pemRawPass i = .badPass) :
    i.noBlock = false ∧ encryptedBlock i = true ∧ i.isEncPEM = true ∧ (i.decrypt = 1 ∨ (i.decrypt = 0 ∧ i.der = .structural)) := by
  unfold pemRawPass at h
  by_cases h1 : i.noBlock = true
  · simp [h1] at h
  · by_cases h2 : (!encryptedBlock i || !i.isEncPEM) = true
    · simp [h1, h2] at h
    · have hb : i.noBlock = false := by simpa using h1
      have he : encryptedBlock i = true ∧ i.isEncPEM = true := by
        cases hx : encryptedBlock i <;> cases hy : i.isEncPEM <;> simp_all
      refine ⟨hb, he.1, he.2, ?_⟩
      by_cases h3 : i.decrypt = 1
      · exact Or.inl h3
      · by_cases h4 : i.decrypt = 0
        · refine Or.inr ⟨h4, ?_⟩
          simp only [h1, h2, h3, h4, Bool.false_eq_true, ↓reduceIte, ne_eq, not_true_eq_false] at h
          by_cases t1 : i.ptype = tyRSA ∨ i.ptype = tyEC
          · simp only [t1, ↓reduceIte] at h
            cases hd : i.der <;> simp_all
          · by_cases t2 : i.ptype = tyDSA
            · simp only [t1, t2, ↓reduceIte] at h
              have hns : dsaDer i ≠ .structural := by
                unfold dsaDer
                cases i.der with
                | ok k p =>
                  by_cases hr : i.dsaRest = true <;> by_cases hg : dsaGroup i = true <;>
                    by_cases hc : dsaConsistent i = true <;> simp [hr, hg, hc]
                | structural => simp
                | err => simp
              cases hd : dsaDer i with
              | ok k p =>
                have d : ¬ (tyDSA = tyRSA ∨ tyDSA = tyEC) := by decide
                rw [hd] at h; simp [d] at h
              | structural => exact absurd hd hns
              | err =>
                have d : ¬ (tyDSA = tyRSA ∨ tyDSA = tyEC) := by decide
                rw [hd] at h; simp [d] at h
            · simp [t1, t2] at h
        · simp [h1, h2, h3, h4] at h

/-- a DSA block with bytes after the SEQUENCE is refused by every entry point -/
theorem dsa_garbage_refused (i : PemIn) (h : i.dsaRest = true) : ∀ k p, dsaDer i ≠ .ok k p := by
  intro k p
  unfold dsaDer
  cases i.der <;> simp [h]

/-- (a54718d) a DSA key whose public value is not G^X mod P, or whose X is outside (0, Q), is refused -/
theorem dsa_inconsistent_refused (i : PemIn) (h : dsaConsistent i = false) : ∀ k p, dsaDer i ≠ .ok k p := by
  intro k p
  unfold dsaDer
  cases i.der <;> simp [h]

/-- (f1d7a77) parameters that are not a DSA group — Q not a prime dividing P−1, or G not of order Q — are
    refused -/
theorem dsa_bad_group_refused (i : PemIn) (h : dsaGroup i = false) : ∀ k p, dsaDer i ≠ .ok k p := by
  intro k p
  unfold dsaDer
  cases i.der <;> simp [h]

/-- … and an accepted DSA key has group parameters (0 < P, Q prime by the stdlib test, Q | P−1, 1 < G < P,
    G^Q = 1) and satisfies 0 < X < Q and Pub = Exp(G, X, P) -/
theorem dsa_accepted_consistent (i : PemIn) (k p : Bytes) (h : dsaDer i = .ok k p) :
    (0 < i.dsaP ∧ 0 < i.dsaQ ∧ i.dsaQPrime = true ∧ (i.dsaP - 1) % i.dsaQ = 0 ∧ 1 < i.dsaG ∧ i.dsaG < i.dsaP ∧ i.dsaGQ = 1) ∧
    (0 < i.dsaX ∧ i.dsaX < i.dsaQ ∧ i.dsaExp = i.dsaY) := by
  unfold dsaDer at h
  cases hd : i.der with
  | ok k' p' =>
    rw [hd] at h
    by_cases hr : i.dsaRest = true
    · simp [hr] at h
    · by_cases hg : dsaGroup i = true
      · by_cases hc : dsaConsistent i = true
        · have a := by simpa [dsaGroup] using hg
          have b := by simpa [dsaConsistent] using hc
          exact ⟨⟨a.1.1.1.1.1.1, a.1.1.1.1.1.2, a.1.1.1.1.2, a.1.1.1.2, a.1.1.2, a.1.2, a.2⟩, b.1.1.2, b.1.2, b.2⟩
        · simp [hr, hg, hc] at h
      · simp [hr, hg] at h
  | structural => rw [hd] at h; simp at h
  | err => rw [hd] at h; simp at h

/-- ParsePrivateKey refuses keys NewSignerFromKey cannot use: P-224 and DSA parameters out of range -/
theorem signerOf_refuses (p : Bytes) : signerOf (.ok (nm "ecdsa224") p) true = .err ∧ signerOf (.ok (nm "dsa") p) false = .err := by
  constructor <;> simp [signerOf] <;> decide

example : pemRawPass ⟨false, tyRSA, nm "4,ENCRYPTED", true, 0, .structural, false, 0, 0, 0, 0, 0, 0, false, 0⟩ = .badPass ∧
    pemRawPass ⟨false, tyDSA, nm "4,ENCRYPTED", true, 0, .structural, false, 0, 0, 0, 0, 0, 0, false, 0⟩ = .err ∧
    pemRawPlain ⟨false, tyDSA, [], false, 0, .ok (nm "dsa") [], false, 23, 11, 3, 8, 8, 2, true, 1⟩ = .ok (nm "dsa") [] ∧
    pemRawPlain ⟨false, tyDSA, [], false, 0, .ok (nm "dsa") [], false, 23, 11, 3, 8, 8, 2, true, 2⟩ = .err ∧
    pemRawPlain ⟨false, tyDSA, [], false, 0, .ok (nm "dsa") [], false, 23, 10, 3, 8, 8, 2, false, 1⟩ = .err ∧
    pemRawPlain ⟨false, tyDSA, [], false, 0, .ok (nm "dsa") [], false, 23, 11, 3, 9, 8, 2, true, 1⟩ = .err ∧
    pemRawPass ⟨false, tyPKCS8, nm "4,ENCRYPTED", true, 0, .ok (nm "rsa") [], false, 0, 0, 0, 0, 0, 0, false, 0⟩ = .err ∧
    pemRawPlain ⟨false, tyPKCS8, [], false, 0, .ok (nm "ed25519") [1], false, 0, 0, 0, 0, 0, 0, false, 0⟩ = .ok (nm "ed25519") [1] ∧
    pemRawPlain ⟨false, tyRSA, nm "xENCRYPTEDx", false, 0, .err, false, 0, 0, 0, 0, 0, 0, false, 0⟩ = .needPass := by decide +kernel

end XC.C39
