/-
  C39 — OpenSSH private keys: theorems over XC.Model.C39.

  * padding: what generateOpenSSHPadding appends is accepted by checkOpenSSHKeyPadding and fills the
    block (`padding_accepted`, `padding_fills_8`, `padding_fills_16`);
  * wrong passphrase: a malformed / check-mismatching decrypted block is IncorrectPasswordError for
    encrypted files and a plain error otherwise (`wrong_pass_error`);
  * consistency of accepted keys, per type (`ed_consistent`, `ec_consistent`, `rsa_consistent`);
  * round trip of what MarshalPrivateKey writes for Ed25519 keys (`marshal_parse_ed25519`);
  * and the two places where the property FAILS on the code as written, with witnesses:
    the outer public key blob is never compared (`outer_ignored`, `outer_mismatch_accepted`) and a
    negative ECDSA scalar is accepted (`ec_negative_scalar_accepted`).
-/
import XC.Model.C39
import XC.Proofs.C38_Wire
namespace XC.C39
open XC XC.C38 XC.C41

/-! ## padding -/

theorem padOkFrom_padGo : ∀ (f len i bs : Nat), i + f ≤ 255 → padOkFrom i (padGo f len i bs) = true := by
  intro f
  induction f with
  | zero => intro len i bs _; rfl
  | succ f ih =>
    intro len i bs h
    unfold padGo
    split
    · rfl
    · simp only [padOkFrom, u8_toNat, Bool.and_eq_true, decide_eq_true_eq]
      exact ⟨by omega, ih len (i + 1) bs (by omega)⟩

/-- the padding written by generateOpenSSHPadding passes checkOpenSSHKeyPadding (block sizes ≤ 255) -/
theorem padding_accepted (len bs : Nat) (h : bs ≤ 255) : padOk (genPadding len bs) = true :=
  padOkFrom_padGo bs len 0 bs (by omega)

theorem padGo_fills : ∀ (f len i bs : Nat), (∃ j, j < f ∧ (len + i + j) % bs = 0) →
    (len + i + (padGo f len i bs).length) % bs = 0 := by
  intro f
  induction f with
  | zero => intro len i bs ⟨j, hj, _⟩; omega
  | succ f ih =>
    intro len i bs ⟨j, hj, hm⟩
    unfold padGo
    by_cases h0 : (len + i) % bs = 0
    · simp only [h0, ↓reduceIte, List.length_nil, Nat.add_zero]
    · simp only [h0, ↓reduceIte, List.length_cons]
      have hj0 : j ≠ 0 := by intro e; subst e; exact h0 (by simpa using hm)
      have e1 : len + (i + 1) + (j - 1) = len + i + j := by omega
      have hm' : (len + (i + 1) + (j - 1)) % bs = 0 := by rw [e1]; exact hm
      have := ih len (i + 1) bs ⟨j - 1, by omega, hm'⟩
      have e : len + i + ((padGo f len (i + 1) bs).length + 1) = len + (i + 1) + (padGo f len (i + 1) bs).length := by omega
      rw [e]; exact this

/-- the padded private block is a whole number of 8-byte blocks (unencrypted files) … -/
theorem padding_fills_8 (len : Nat) : (len + (genPadding len 8).length) % 8 = 0 := by
  have := padGo_fills 8 len 0 8 ⟨(8 - len % 8) % 8, by omega, by omega⟩
  simpa [genPadding] using this

/-- … and of 16-byte AES blocks (encrypted files) -/
theorem padding_fills_16 (len : Nat) : (len + (genPadding len 16).length) % 16 = 0 := by
  have := padGo_fills 16 len 0 16 ⟨(16 - len % 16) % 16, by omega, by omega⟩
  simpa [genPadding] using this

/-! ## wrong passphrase -/

/-- the header of the decrypted block: check1 = check2 and a key type string -/
def headerOk (blk : Bytes) : Option (Bytes × Bytes) :=
  if blk.isEmpty then none else
  match parseU32 blk with
  | none => none
  | some (c1, b1) =>
    match parseU32 b1 with
    | none => none
    | some (c2, b2) =>
      match parseString b2 with
      | none => none
      | some (kt, rest) => if c1 ≠ c2 then none else some (kt, rest)

/-- A decrypted block whose check words differ (what a wrong passphrase produces, up to 2^-32) or that
    does not even parse is reported as x509.IncorrectPasswordError for encrypted files and as a plain
    error for unencrypted ones. -/
theorem wrong_pass_error (o : Oracles) (blk : Bytes) (h : headerOk blk = none) :
    parsePrivBlock o true blk = .badPass ∧ parsePrivBlock o false blk = .err := by
  unfold headerOk at h
  unfold parsePrivBlock
  by_cases he : blk.isEmpty = true
  · simp [he]
  · simp only [he, Bool.false_eq_true, ↓reduceIte] at h ⊢
    cases h1 : parseU32 blk with
    | none => simp
    | some p1 =>
      obtain ⟨c1, b1⟩ := p1
      simp only [h1] at h ⊢
      cases h2 : parseU32 b1 with
      | none => simp
      | some p2 =>
        obtain ⟨c2, b2⟩ := p2
        simp only [h2] at h ⊢
        cases h3 : parseString b2 with
        | none => simp
        | some p3 =>
          obtain ⟨kt, rest⟩ := p3
          simp only [h3] at h ⊢
          by_cases hc : c1 = c2
          · simp [hc] at h
          · simp [hc]

/-! ## accepted keys are internally consistent (for what the code checks) -/

/-- Ed25519 (the fixed code): an accepted key has a 64-byte private part whose second half is BOTH the
    `Pub` field of the file and the public key derived from the seed -/
theorem ed_consistent (o : Oracles) (b : Bytes) (k : PrivKey) (c : Bytes) (h : parseEdPriv o b = .ok k c) :
    ∃ priv, k = .ed25519 priv ∧ priv.length = 64 ∧ o.edPub = some (priv.drop 32) := by
  unfold parseEdPriv at h
  repeat (split at h; (· cases h))
  simp only [Res.ok.injEq] at h
  obtain ⟨rfl, rfl⟩ := h
  refine ⟨_, rfl, ?_, ?_⟩ <;> simp_all

/-- ECDSA: the point is valid on the named curve, the scalar is below the group order and the point is
    |D|·G.  NOTE: nothing says `0 < D` (see `ec_negative_scalar_accepted`). -/
theorem ec_consistent (o : Oracles) (b : Bytes) (k : PrivKey) (c : Bytes) (h : parseECPriv o b = .ok k c) :
    ∃ bits pt d, k = .ecdsa bits pt d ∧ o.pt bits pt = true ∧ d < (curveOrder bits : Int) ∧ o.ecPub = some pt := by
  unfold parseECPriv at h
  repeat (split at h; (· cases h))
  simp only [Res.ok.injEq] at h
  obtain ⟨rfl, rfl⟩ := h
  refine ⟨_, _, _, rfl, ?_, ?_, ?_⟩
  · simp_all
  · rename_i hd _ _ _
    omega
  · simp_all

/-- RSA: size bounds, exponent rule and rsa.Validate -/
theorem rsa_consistent (o : Oracles) (b : Bytes) (k : PrivKey) (c : Bytes) (h : parseRSAPriv o b = .ok k c) :
    ∃ n e d iqmp p q, k = .rsa n e d iqmp p q ∧ o.rsaValid = some true ∧ bitLen n ≤ 16384 ∧
      bitLen p ≤ 8192 ∧ bitLen q ≤ 8192 ∧ bitLen e ≤ 24 ∧ 3 ≤ e ∧ e % 2 ≠ 0 := by
  unfold parseRSAPriv at h
  repeat (split at h; (· cases h))
  · cases h
  · simp only [Res.ok.injEq] at h
    obtain ⟨rfl, rfl⟩ := h
    refine ⟨_, _, _, _, _, _, rfl, ?_, ?_, ?_, ?_, ?_, ?_, ?_⟩ <;> first | assumption | omega

/-! ## where the property fails on the code as written -/

/-- a negative scalar passes every check of the ECDSA arm: the accepted key cannot sign -/
theorem ec_negative_scalar_accepted :
    let o : Oracles := ⟨fun _ _ => true, none, none, none, some [4]⟩
    let sect := putString (nm "nistp256") ++ putString [4] ++ putString [255] ++ putString []
    parseECPriv o sect = .ok (.ecdsa 256 [4] (-1)) [] ∧ usable (.ecdsa 256 [4] (-1)) = false := by
  decide +kernel

/-- the code's decision does not depend on the outer public key blob at all (unencrypted API, file not
    encrypted) … -/
theorem outer_ignored (o : Oracles) (k1 k2 : Bytes) (w1 w2 : Container)
    (h1 : parseContainer k1 = some w1) (h2 : parseContainer k2 = some w2)
    (hsame : w1.cipher = w2.cipher ∧ w1.kdf = w2.kdf ∧ w1.kdfOpts = w2.kdfOpts ∧ w1.numKeys = w2.numKeys ∧
      w1.privBlock = w2.privBlock)
    (hplain : w1.kdf = none_ ∧ w1.cipher = none_) : parsePlain o k1 = parsePlain o k2 := by
  obtain ⟨e1, e2, e3, e4, e5⟩ := hsame
  unfold parsePlain
  rw [h1, h2]
  simp only [← e1, ← e2, ← e3, ← e4, ← e5, hplain.1, hplain.2, ne_eq, not_true_eq_false, or_self, ↓reduceIte]

/-- … nor with the passphrase API -/
theorem outer_ignored_pass (o : Oracles) (k1 k2 : Bytes) (w1 w2 : Container)
    (h1 : parseContainer k1 = some w1) (h2 : parseContainer k2 = some w2)
    (hsame : w1.cipher = w2.cipher ∧ w1.kdf = w2.kdf ∧ w1.kdfOpts = w2.kdfOpts ∧ w1.numKeys = w2.numKeys ∧
      w1.privBlock = w2.privBlock) : parseWithPass o k1 = parseWithPass o k2 := by
  obtain ⟨e1, e2, e3, e4, e5⟩ := hsame
  unfold parseWithPass
  rw [h1, h2]
  simp only [← e1, ← e2, ← e3, ← e4, ← e5]

def wPriv : Bytes := List.replicate 64 7
def wOracles : Oracles := ⟨fun _ _ => false, none, none, some (List.replicate 32 7), none⟩
/-- an Ed25519 file as MarshalPrivateKey writes it, but with the outer public key of another key -/
def wFile : Bytes :=
  magic ++ putString none_ ++ putString none_ ++ putString [] ++ putU32 1 ++
    putString (PubKey.ed25519 (List.replicate 32 9)).marshal ++ putString (privBlockOf (.ed25519 wPriv) [] 5 8)

/-- … so a file whose stored public key is NOT the key's public key is accepted: the clause "that
    public key equals the one stored in the file" fails -/
theorem outer_mismatch_accepted :
    parsePlain wOracles wFile = .ok (.ed25519 wPriv) [] ∧
    specAccept wOracles wFile (parsePlain wOracles wFile) = .err := by
  decide +kernel

/-- The property clause for accepted keys, as a statement about the model of the code: false. -/
def C39_consistency_full : Prop :=
  ∀ (o : Oracles) (file : Bytes) (k : PrivKey) (c : Bytes),
    parsePlain o file = .ok k c → specAccept o file (.ok k c) = .ok k c

theorem C39_consistency_full_fails : ¬ C39_consistency_full := by
  intro h
  have w := outer_mismatch_accepted
  have := h wOracles wFile _ _ w.1
  rw [w.1] at w
  rw [w.2] at this
  exact absurd this (by decide)

/-! ## round trip of MarshalPrivateKey output (Ed25519) -/

theorem putU32_append_isEmpty (n : Nat) (x : Bytes) : (putU32 n ++ x).isEmpty = false := by
  simp only [putU32, List.cons_append, List.isEmpty_cons]

theorem parseContainer_put (c k op p b : Bytes) (n : Nat)
    (hc : c.length < 4294967296) (hk : k.length < 4294967296) (ho : op.length < 4294967296)
    (hn : n < 4294967296) (hp : p.length < 4294967296) (hb : b.length < 4294967296) :
    parseContainer (magic ++ putString c ++ putString k ++ putString op ++ putU32 n ++ putString p ++ putString b)
      = some ⟨c, k, op, n, p, b⟩ := by
  simp only [List.append_assoc]
  unfold parseContainer
  have ht : (magic ++ (putString c ++ (putString k ++ (putString op ++ (putU32 n ++ (putString p ++ putString b)))))).take magic.length = magic :=
    List.take_left' rfl
  have hd : (magic ++ (putString c ++ (putString k ++ (putString op ++ (putU32 n ++ (putString p ++ putString b)))))).drop magic.length
      = putString c ++ (putString k ++ (putString op ++ (putU32 n ++ (putString p ++ putString b)))) :=
    List.drop_left' rfl
  rw [ht, hd]
  simp only [ne_eq, not_true_eq_false, ↓reduceIte, putString_append_isEmpty, Bool.false_eq_true]
  rw [parseString_putString _ hc]
  simp only []
  rw [parseString_putString _ hk]
  simp only []
  rw [parseString_putString _ ho]
  simp only []
  rw [parseU32_putU32 _ hn]
  simp only []
  rw [parseString_putString _ hp]
  simp only []
  have hl := parseString_putString b hb []
  rw [List.append_nil] at hl
  rw [hl]

/-- **marshal_parse (Ed25519)**: what MarshalPrivateKey writes for an Ed25519 key (any comment, any
    check word) is parsed back to the same key by ParseRawPrivateKey -/
theorem marshal_parse_ed25519 (o : Oracles) (priv comment : Bytes) (check : Nat)
    (hl : priv.length = 64) (hpub : o.edPub = some (priv.drop 32))
    (hcom : comment.length < 4294967296) (hchk : check < 4294967296)
    (hblk : (privBlockOf (.ed25519 priv) comment check 8).length < 4294967296) :
    parsePlain o (marshalPlain (.ed25519 priv) comment check) = .ok (.ed25519 priv) comment := by
  unfold marshalPlain parsePlain
  have hpubl : (PrivKey.ed25519 priv).pub.marshal.length < 4294967296 := by
    simp only [PrivKey.pub, PubKey.marshal, PubKey.type, PubKey.body, List.length_append, putString_length, List.length_drop, hl]
    decide
  rw [parseContainer_put none_ none_ [] _ _ 1 (by decide) (by decide) (by decide) (by decide) hpubl hblk]
  simp only [ne_eq, not_true_eq_false, or_self, ↓reduceIte, List.isEmpty_nil, Bool.not_true, Bool.false_eq_true]
  -- the private block
  unfold privBlockOf parsePrivBlock
  simp only [List.append_assoc, keytypeOf, privFields]
  simp only [putU32_append_isEmpty, Bool.false_eq_true, ↓reduceIte]
  rw [parseU32_putU32 _ hchk]
  simp only []
  rw [parseU32_putU32 _ hchk]
  simp only []
  rw [parseString_putString _ (by decide)]
  have d1 : algoED25519 ≠ algoRSA := by decide
  simp only [ne_eq, not_true_eq_false, ↓reduceIte, d1]
  -- the Ed25519 section
  unfold parseEdPriv
  simp only [putString_append_isEmpty, Bool.false_eq_true, ↓reduceIte]
  rw [parseString_putString _ (by simp only [List.length_drop, hl]; decide)]
  simp only []
  rw [parseString_putString _ (by omega)]
  simp only []
  rw [parseString_putString _ hcom]
  simp only [hl, ne_eq, not_true_eq_false, ↓reduceIte, padding_accepted _ 8 (by decide), Bool.not_true,
    Bool.false_eq_true, hpub, or_self]

/-- curve orders: sanity of the pinned constants (bit sizes 256 / 384 / 521) -/
theorem curveOrder_bits : Nat.log2 (curveOrder 256) + 1 = 256 ∧ Nat.log2 (curveOrder 384) + 1 = 384 ∧
    Nat.log2 (curveOrder 521) + 1 = 521 := by decide +kernel

end XC.C39
