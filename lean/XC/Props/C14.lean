/-
  C14 — property theorems: MD4 / RIPEMD-160 streaming (`Write`/`Sum`/`Reset` as written in
  md4.go / ripemd160.go) computes the Merkle–Damgård hash `mdHash` of everything written since the
  last Reset, for every chunking and with Sums anywhere in the stream.
  All theorems are generic in the algorithm (`MD σ`) and are instantiated for both.
-/
import XC.Proofs.C14
namespace XC.C14

variable {σ : Type}

/-! ### padding -/

theorem zeros_take (n k : Nat) (h : k ≤ n) : (zeros n).take k = zeros k := by
  simp [zeros, List.take_replicate, Nat.min_eq_left h]

theorem len_mod (L : Nat) : ((UInt64.ofNat L) % 64).toNat = L % 64 := by
  rw [UInt64.toNat_mod, UInt64.toNat_ofNat']
  show L % 2 ^ 64 % 64 = L % 64
  exact Nat.mod_mod_of_dvd L (by decide)

/-- the padding Write of `Sum` (uint64 arithmetic, two cases) is `0x80` followed by the minimal
    number of zeros that brings the length to 56 mod 64 -/
theorem padBytes_eq (L : Nat) :
    padBytes (UInt64.ofNat L) = 0x80 :: zeros ((119 - L % 64) % 64) := by
  unfold padBytes
  have hm := len_mod L
  have hlt : L % 64 < 64 := Nat.mod_lt _ (by decide)
  by_cases h : UInt64.ofNat L % 64 < 56
  · have h' : L % 64 < 56 := by
      rw [UInt64.lt_iff_toNat_lt, hm] at h; exact h
    simp only [h, ↓reduceIte]
    have hs : (56 - UInt64.ofNat L % 64).toNat = 56 - L % 64 := by
      rw [UInt64.toNat_sub_of_le _ _ (by rw [UInt64.le_iff_toNat_le, hm]; show L % 64 ≤ 56; omega), hm]
      rfl
    rw [hs]
    have : 56 - L % 64 = (55 - L % 64) + 1 := by omega
    rw [this, List.take_succ_cons, zeros_take _ _ (by omega)]
    congr 2; omega
  · have h' : ¬ L % 64 < 56 := by
      rw [UInt64.lt_iff_toNat_lt, hm] at h; exact h
    simp only [h, ↓reduceIte]
    have hs : (64 + 56 - UInt64.ofNat L % 64).toNat = 120 - L % 64 := by
      rw [UInt64.toNat_sub_of_le _ _ (by rw [UInt64.le_iff_toNat_le, hm]; show L % 64 ≤ 120; omega), hm]
      rfl
    rw [hs]
    have : 120 - L % 64 = (119 - L % 64) + 1 := by omega
    rw [this, List.take_succ_cons, zeros_take _ _ (by omega)]
    congr 2; omega

/-- the length Write of `Sum`: `len << 3` on uint64 is the bit length mod 2^64 -/
theorem lenBytes_eq (L : Nat) : lenBytes (UInt64.ofNat L) = natToLE 8 (8 * L % 2 ^ 64) := by
  unfold lenBytes u64le
  congr 1
  rw [UInt64.toNat_shiftLeft, UInt64.toNat_ofNat']
  show (L % 2 ^ 64) <<< (3 % 64) % 2 ^ 64 = 8 * L % 2 ^ 64
  rw [Nat.shiftLeft_eq]
  have : (2:Nat) ^ (3 % 64) = 8 := by decide
  rw [this]
  omega

theorem sumWrites_eq_mdPad (L : Nat) :
    padBytes (UInt64.ofNat L) ++ lenBytes (UInt64.ofNat L) = mdPad L := by
  rw [padBytes_eq, lenBytes_eq]; rfl

theorem mdPad_length (L : Nat) : (mdPad L).length = 1 + (119 - L % 64) % 64 + 8 := by
  simp [mdPad, zeros, natToLE_length]; omega

/-- **padding-length lemma**: the padded message is a whole number of 64-byte blocks … -/
theorem pad_len (L : Nat) : (L + (mdPad L).length) % 64 = 0 := by
  rw [mdPad_length]; omega

/-- … and the pad is 9..72 bytes: one block suffices iff `L % 64 < 56` (the 56-byte case split of `Sum`) -/
theorem pad_len_cases (L : Nat) :
    (mdPad L).length = if L % 64 < 56 then 64 - L % 64 else 128 - L % 64 := by
  rw [mdPad_length]; split <;> omega

/-! ### `Sum` -/

/-- `Sum` on the state reached by writing `m` returns `in ++ H(m)`; in particular the
    `panic("d.nx != 0")` branch is unreachable from any reachable state -/
theorem sum_stateOf (alg : MD σ) (m pre : Bytes) :
    sum alg (stateOf alg m) pre = some (pre ++ mdHash alg m) := by
  unfold sum
  simp only
  have hl : (stateOf alg m).len = UInt64.ofNat m.length := rfl
  rw [hl, write_stateOf, write_stateOf, List.append_assoc, sumWrites_eq_mdPad]
  have hz : (m ++ mdPad m.length).length % 64 = 0 := by
    rw [List.length_append]; exact pad_len _
  simp only [stateOf, blocksGo_chunks alg.block alg.init _ hz]
  simp [mdHash]

/-- `nx == 0` after the two padding Writes (the explicit panic never fires) -/
theorem nx_zero_after_pad (alg : MD σ) (m : Bytes) :
    (write alg (write alg (stateOf alg m) (padBytes (UInt64.ofNat m.length)))
      (lenBytes (UInt64.ofNat m.length))).x = [] := by
  rw [write_stateOf, write_stateOf, List.append_assoc, sumWrites_eq_mdPad]
  have hz : (m ++ mdPad m.length).length % 64 = 0 := by
    rw [List.length_append]; exact pad_len _
  simp only [stateOf, blocksGo_chunks alg.block alg.init _ hz]

/-! ### digests in the middle of a (possibly astronomically long) message

The `at` op family starts from a digest whose chaining value, buffered tail and 64-bit byte count are
set directly (hook VerifNewAt).  These theorems say what Sum must return there — for every `len`,
including the lengths where 8·len no longer fits 32, 53 or 64 bits. -/

/-- a digest is consistent when the buffered tail is `len mod 64` bytes long -/
def Consistent (d : Digest σ) : Prop := d.x.length = d.len.toNat % 64

theorem write_consistent (alg : MD σ) (d : Digest σ) (p : Bytes) (h : Consistent d) :
    Consistent (write alg d p) := by
  have hx : d.x.length < 64 := by rw [h]; exact Nat.mod_lt _ (by decide)
  unfold Consistent at h ⊢
  rw [write_eq alg d p hx]
  simp only
  have hl : ∀ (s : σ) (q : Bytes), (blocksGo alg.block s q).2.length = q.length % 64 := by
    intro s q
    fun_induction blocksGo alg.block s q with
    | case1 s q hq ih => rw [ih, List.length_drop]; exact (Nat.mod_eq_sub_mod hq).symm
    | case2 s q hq =>
      show q.length = _
      exact (Nat.mod_eq_of_lt (by omega)).symm
  rw [hl, List.length_append, h, UInt64.toNat_add, UInt64.toNat_ofNat']
  have : (2:Nat) ^ 64 = 64 * 2 ^ 58 := by decide
  omega

/-- **Sum at an arbitrary total length**: the digest of "state `s`, tail `x`, `len` bytes so far" is
    the fold over `x ‖ pad(len)` where the pad carries 8·len mod 2^64 as 8 little-endian bytes -/
theorem sum_at (alg : MD σ) (s : σ) (x : Bytes) (len : UInt64) (pre : Bytes)
    (hx : x.length = len.toNat % 64) :
    sum alg ⟨s, x, len⟩ pre =
      some (pre ++ alg.out ((chunks 64 (x ++ mdPad len.toNat)).foldl alg.block s)) := by
  have hlt : x.length < 64 := by rw [hx]; exact Nat.mod_lt _ (by decide)
  have hlen : len = UInt64.ofNat len.toNat := by simp
  unfold sum
  simp only
  have h1 := write_eq alg ⟨s, x, len⟩ (padBytes len) hlt
  rw [h1]
  rw [write_eq alg _ _ (blocksGo_tail_lt _ _ _)]
  simp only
  rw [← blocksGo_append, List.append_assoc]
  conv => lhs; rw [hlen, sumWrites_eq_mdPad]
  have hz : (x ++ mdPad len.toNat).length % 64 = 0 := by
    rw [List.length_append, hx]
    have := pad_len len.toNat
    omega
  rw [blocksGo_chunks alg.block s _ hz]
  simp

/-- non-vacuity: at len = 2^29 (536 870 912 bytes) the bit count 2^32 no longer fits the low word: the
    length field is 00 00 00 00 01 00 00 00 -/
example : lenBytes (UInt64.ofNat (2 ^ 29)) = [0, 0, 0, 0, 1, 0, 0, 0] ∧
    lenBytes (UInt64.ofNat (2 ^ 61 + 1)) = [8, 0, 0, 0, 0, 0, 0, 0] := by decide

/-! ### histories: any interleaving of Write / Sum / Reset -/

/-- reference semantics of a history: every `Sum(in)` returns `in ++ H(bytes written since the last Reset)` -/
def specRun (alg : MD σ) : Bytes → List HOp → List (Option Bytes)
  | _, [] => []
  | m, .w p :: t => specRun alg (m ++ p) t
  | m, .s pre :: t => some (pre ++ mdHash alg m) :: specRun alg m t
  | _, .r :: t => specRun alg [] t

theorem run_stateOf (alg : MD σ) (m : Bytes) (ops : List HOp) :
    run alg (stateOf alg m) ops = specRun alg m ops := by
  induction ops generalizing m with
  | nil => rfl
  | cons o t ih =>
    cases o with
    | w p => simp only [run, specRun, write_stateOf, ih]
    | s pre => simp only [run, specRun, sum_stateOf, ih]
    | r => simp only [run, specRun, ← stateOf_nil, ih]

/-- **C14 main theorem**: for every history of Writes (any chunking), Sums (anywhere in the stream,
    any number of times, any `in` prefix) and Resets, starting from `New()`, every Sum returns the
    reference digest of exactly the bytes written since the last Reset; no Sum panics; the running
    state is unaffected by Sum (later Writes/Sums continue the same message). -/
theorem hash_history_eq_spec (alg : MD σ) (ops : List HOp) :
    run alg (reset alg) ops = specRun alg [] ops := by
  rw [← stateOf_nil]; exact run_stateOf alg [] ops

/-- chunking corollary in the usual form: Write the pieces one by one, then Sum -/
theorem hash_writes_eq_spec (alg : MD σ) (cs : List Bytes) (pre : Bytes) :
    sum alg (cs.foldl (write alg) (reset alg)) pre = some (pre ++ mdHash alg cs.flatten) := by
  have hx : (reset alg).x.length < 64 := by simp [reset]
  rw [foldl_write alg _ cs hx, ← stateOf_nil, write_stateOf, List.nil_append, sum_stateOf]

/-- Sum in mid-stream leaves the state usable: a Sum between two Writes does not change what the
    final Sum returns -/
theorem sum_pure (alg : MD σ) (a b pre pre' : Bytes) :
    run alg (reset alg) [.w a, .s pre, .w b, .s pre'] =
      [some (pre ++ mdHash alg a), some (pre' ++ mdHash alg (a ++ b))] := by
  rw [hash_history_eq_spec]; simp [specRun]

/-! ### instances -/

theorem md4_history (ops : List HOp) : run Md4.alg (reset Md4.alg) ops = specRun Md4.alg [] ops :=
  hash_history_eq_spec _ _
theorem ripemd160_history (ops : List HOp) : run Rmd.alg (reset Rmd.alg) ops = specRun Rmd.alg [] ops :=
  hash_history_eq_spec _ _


/-! ### MD4: the table-driven rounds of md4block.go are RFC 1320 §3.4's explicit operation lists -/
namespace Md4

/-- RFC 1320 §3.4: F(X,Y,Z) = XY v not(X) Z (the Go code uses the equivalent ((Y xor Z) and X) xor Z) -/
def Frfc (x y z : UInt32) : UInt32 := (x &&& y) ||| (~~~x &&& z)

theorem F_eq_rfc (x y z : UInt32) : F x y z = Frfc x y z := by
  unfold F Frfc
  apply UInt32.toBitVec_inj.mp
  ext i hi
  simp
  cases x.toBitVec[i] <;> cases y.toBitVec[i] <;> cases z.toBitVec[i] <;> rfl

/-- RFC 1320's `[abcd k s]`: a = (a + f(b,c,d) + X[k] + K) <<< s  (K = 0, 5A827999, 6ED9EBA1) -/
def op (f : UInt32 → UInt32 → UInt32 → UInt32) (K : UInt32) (X : Array UInt32) (a b c d : UInt32)
    (k s : Nat) : UInt32 :=
  rotl (a + f b c d + wd X k + K) s

theorem step_eq (f : UInt32 → UInt32 → UInt32 → UInt32) (K : UInt32) (X : Array UInt32) (x s : Nat) (v : St) :
    step f K X x s v = ⟨v.d, op f K X v.a v.b v.c v.d x s, v.b, v.c⟩ := by
  simp only [step, op, UInt32.add_assoc]

/-- Round 1: [ABCD 0 3] [DABC 1 7] [CDAB 2 11] [BCDA 3 19] … [BCDA 15 19] -/
def rfcRound1 (X : Array UInt32) (v : St) : St :=
  let A := v.a; let B := v.b; let C := v.c; let D := v.d
  let A := op Frfc 0 X A B C D 0 3
  let D := op Frfc 0 X D A B C 1 7
  let C := op Frfc 0 X C D A B 2 11
  let B := op Frfc 0 X B C D A 3 19
  let A := op Frfc 0 X A B C D 4 3
  let D := op Frfc 0 X D A B C 5 7
  let C := op Frfc 0 X C D A B 6 11
  let B := op Frfc 0 X B C D A 7 19
  let A := op Frfc 0 X A B C D 8 3
  let D := op Frfc 0 X D A B C 9 7
  let C := op Frfc 0 X C D A B 10 11
  let B := op Frfc 0 X B C D A 11 19
  let A := op Frfc 0 X A B C D 12 3
  let D := op Frfc 0 X D A B C 13 7
  let C := op Frfc 0 X C D A B 14 11
  let B := op Frfc 0 X B C D A 15 19
  ⟨A, B, C, D⟩

/-- Round 2: [ABCD 0 3] [DABC 4 5] [CDAB 8 9] [BCDA 12 13] … [BCDA 15 13] -/
def rfcRound2 (X : Array UInt32) (v : St) : St :=
  let A := v.a; let B := v.b; let C := v.c; let D := v.d
  let A := op G 0x5a827999 X A B C D 0 3
  let D := op G 0x5a827999 X D A B C 4 5
  let C := op G 0x5a827999 X C D A B 8 9
  let B := op G 0x5a827999 X B C D A 12 13
  let A := op G 0x5a827999 X A B C D 1 3
  let D := op G 0x5a827999 X D A B C 5 5
  let C := op G 0x5a827999 X C D A B 9 9
  let B := op G 0x5a827999 X B C D A 13 13
  let A := op G 0x5a827999 X A B C D 2 3
  let D := op G 0x5a827999 X D A B C 6 5
  let C := op G 0x5a827999 X C D A B 10 9
  let B := op G 0x5a827999 X B C D A 14 13
  let A := op G 0x5a827999 X A B C D 3 3
  let D := op G 0x5a827999 X D A B C 7 5
  let C := op G 0x5a827999 X C D A B 11 9
  let B := op G 0x5a827999 X B C D A 15 13
  ⟨A, B, C, D⟩

/-- Round 3: [ABCD 0 3] [DABC 8 9] [CDAB 4 11] [BCDA 12 15] … [BCDA 15 15] -/
def rfcRound3 (X : Array UInt32) (v : St) : St :=
  let A := v.a; let B := v.b; let C := v.c; let D := v.d
  let A := op H 0x6ed9eba1 X A B C D 0 3
  let D := op H 0x6ed9eba1 X D A B C 8 9
  let C := op H 0x6ed9eba1 X C D A B 4 11
  let B := op H 0x6ed9eba1 X B C D A 12 15
  let A := op H 0x6ed9eba1 X A B C D 2 3
  let D := op H 0x6ed9eba1 X D A B C 10 9
  let C := op H 0x6ed9eba1 X C D A B 6 11
  let B := op H 0x6ed9eba1 X B C D A 14 15
  let A := op H 0x6ed9eba1 X A B C D 1 3
  let D := op H 0x6ed9eba1 X D A B C 9 9
  let C := op H 0x6ed9eba1 X C D A B 5 11
  let B := op H 0x6ed9eba1 X B C D A 13 15
  let A := op H 0x6ed9eba1 X A B C D 3 3
  let D := op H 0x6ed9eba1 X D A B C 11 9
  let C := op H 0x6ed9eba1 X C D A B 7 11
  let B := op H 0x6ed9eba1 X B C D A 15 15
  ⟨A, B, C, D⟩

/-- RFC 1320 §3.4: save AA..DD, three rounds, A = A + AA … -/
def rfcBlock (s : St) (p : Bytes) : St :=
  let X := words p
  let v := rfcRound3 X (rfcRound2 X (rfcRound1 X s))
  ⟨v.a + s.a, v.b + s.b, v.c + s.c, v.d + s.d⟩

theorem range16 : List.range 16 = [0, 1, 2, 3, 4, 5, 6, 7, 8, 9, 10, 11, 12, 13, 14, 15] := by rfl

theorem round1_eq_rfc (X : Array UInt32) (v : St) : round1 X v = rfcRound1 X v := by
  have hF : (F : UInt32 → UInt32 → UInt32 → UInt32) = Frfc := by funext x y z; exact F_eq_rfc x y z
  unfold round1 rfcRound1
  rw [range16, hF]
  simp only [List.foldl_cons, List.foldl_nil, step_eq, Nat.reduceMod]
  rfl

theorem round2_eq_rfc (X : Array UInt32) (v : St) : round2 X v = rfcRound2 X v := by
  unfold round2 rfcRound2
  rw [range16]
  simp only [List.foldl_cons, List.foldl_nil, step_eq, Nat.reduceMod]
  rfl

theorem round3_eq_rfc (X : Array UInt32) (v : St) : round3 X v = rfcRound3 X v := by
  unfold round3 rfcRound3
  rw [range16]
  simp only [List.foldl_cons, List.foldl_nil, step_eq, Nat.reduceMod]
  rfl

/-- **the MD4 compression function of the model (loops over shift/index tables, as md4block.go) is
    RFC 1320's** -/
theorem block_eq_rfc (s : St) (p : Bytes) : block s p = rfcBlock s p := by
  unfold block rfcBlock
  simp only [round1_eq_rfc, round2_eq_rfc, round3_eq_rfc]

/-- MD4 exactly as RFC 1320 describes it: padding (§3.1–3.2), initial values (§3.3), the explicit
    operation lists (§3.4), little-endian output (§3.5) -/
def rfcAlg : MD St := { alg with block := rfcBlock }

theorem alg_eq_rfc : alg = rfcAlg := by
  unfold rfcAlg
  have : alg.block = rfcBlock := by funext s p; exact block_eq_rfc s p
  cases h : alg with
  | mk i b o => simp only [h] at this; simp [this]

end Md4

/-- **MD4 histories return the RFC 1320 digest** (RFC-shaped compression function) -/
theorem md4_history_rfc (ops : List HOp) :
    run Md4.alg (reset Md4.alg) ops = specRun Md4.rfcAlg [] ops := by
  rw [md4_history, Md4.alg_eq_rfc]

/-- non-vacuity: a two-chunk history with a Sum in the middle -/
example : run Md4.alg (reset Md4.alg) [.w [0x61], .s [], .w [0x62, 0x63], .s [0xff]] =
    [some (mdHash Md4.rfcAlg [0x61]), some (0xff :: mdHash Md4.rfcAlg [0x61, 0x62, 0x63])] := by
  rw [md4_history_rfc]; rfl

example : run Rmd.alg (reset Rmd.alg) [.w [1, 2], .r, .w [3], .s [], .s [9]] =
    [some (ripemd160 [3]), some (9 :: ripemd160 [3])] := by
  rw [ripemd160_history]; rfl

/-- digest sizes: 16 and 20 bytes -/
theorem md4_size (m : Bytes) : (md4 m).length = 16 := by
  simp [md4, mdHash, Md4.alg, u32le, natToLE_length]
theorem ripemd160_size (m : Bytes) : (ripemd160 m).length = 20 := by
  simp [ripemd160, mdHash, Rmd.alg, u32le, natToLE_length]

/-- non-vacuity: the padding of a 56-byte message spills into a second block (72 bytes of pad),
    that of a 55-byte message does not (9 bytes) -/
example : (mdPad 56).length = 72 ∧ (mdPad 55).length = 9 ∧ (mdPad 0).length = 64 := by
  simp [pad_len_cases]

end XC.C14
