/-
  C18 — property theorems for the HKDF reader (hkdf/hkdf.go `hkdfReader.Read`, byte counter and
  remaining-bytes check as written) against the RFC 5869 output stream T(1) ‖ … ‖ T(255), and for
  the PBKDF2 reference definition.
-/
import XC.Model.C18
import XC.Prim.Lemmas
namespace XC.C18
open XC.Prim

/-! ### the RFC 5869 stream -/

section stream
variable (prf : Bytes → Bytes) (info : Bytes) (size : Nat)
variable (hsz : ∀ x, (prf x).length = size)
include hsz

theorem T_length (i : Nat) : (T prf info (i + 1)).length = size := by
  simp [T, hsz]

theorem okmBlocks_length (j : Nat) : (okmBlocks prf info j).length = j * size := by
  induction j with
  | zero => simp [okmBlocks]
  | succ j ih =>
    simp only [okmBlocks, List.length_append, ih, T_length prf info size hsz, Nat.succ_mul]

/-- **exactly 255·HashLen bytes of output exist** -/
theorem okm_length : (okm prf info).length = 255 * size := okmBlocks_length prf info size hsz 255

/-- block decomposition of the stream: from offset j·size it continues with T(j+1) -/
theorem okmBlocks_drop (J j : Nat) (h : j < J) :
    (okmBlocks prf info J).drop (j * size) =
      T prf info (j + 1) ++ (okmBlocks prf info J).drop ((j + 1) * size) := by
  induction J with
  | zero => omega
  | succ J ih =>
    have hl := okmBlocks_length prf info size hsz J
    simp only [okmBlocks]
    by_cases hj : j < J
    · have h1 : j * size ≤ J * size := Nat.mul_le_mul_right _ (by omega)
      have h2 : (j + 1) * size ≤ J * size := Nat.mul_le_mul_right _ (by omega)
      rw [List.drop_append_of_le_length (by omega), List.drop_append_of_le_length (by omega), ih hj,
        List.append_assoc]
    · have : j = J := by omega
      subst this
      have hTl := T_length prf info size hsz j
      rw [List.drop_left' hl, List.drop_eq_nil_of_le (by
        rw [List.length_append, hl, hTl, Nat.add_one_mul]; omega), List.append_nil]

theorem okm_drop (j : Nat) (h : j < 255) :
    (okm prf info).drop (j * size) = T prf info (j + 1) ++ (okm prf info).drop ((j + 1) * size) :=
  okmBlocks_drop prf info size hsz 255 j h

end stream

/-! ### byte-counter arithmetic -/

/-- `int(255 - counter + 1)` in byte arithmetic, with counter = (j+1) mod 256 after j blocks:
    the number of blocks still available, 255 − j — including j = 255 where the counter has
    wrapped to 0 and `255 − 0 + 1` wraps to 0 -/
theorem blocks_left (j : Nat) (h : j ≤ 255) :
    ((255 : UInt8) - UInt8.ofNat (j + 1) + 1).toNat = 255 - j := by
  have : ∀ i : Fin 256, ((255 : UInt8) - UInt8.ofNat (i.val + 1) + 1).toNat = 255 - i.val := by decide +kernel
  exact this ⟨j, by omega⟩

theorem counter_succ (j : Nat) : UInt8.ofNat (j + 1) + 1 = UInt8.ofNat (j + 1 + 1) := by
  rw [UInt8.ofNat_add (j + 1) 1]; rfl

/-! ### the reader refines "position in the stream" -/

/-- abstraction: after `j` blocks were generated and `pos` bytes delivered -/
structure Inv (prf : Bytes → Bytes) (info : Bytes) (size : Nat) (f : Reader) (pos j : Nat) : Prop where
  hsize : f.size = size
  hinfo : f.info = info
  hj : j ≤ 255
  hc : f.counter = UInt8.ofNat (j + 1)
  hprev : f.prev = T prf info j
  hpos : pos ≤ j * size
  hbuf : f.buf ++ (okm prf info).drop (j * size) = (okm prf info).drop pos

section reader
variable (prf : Bytes → Bytes) (info : Bytes) (size : Nat)
variable (hsz : ∀ x, (prf x).length = size) (hpos : 0 < size)
include hsz hpos

/-- the block-generating loop -/
theorem fillLoop_spec (f : Reader) (p : Nat) (acc : Bytes) (n j : Nat)
    (hinfo : f.info = info) (hc : f.counter = UInt8.ofNat (j + 1)) (hprev : f.prev = T prf info j)
    (hp : 0 < p) (hroom : p ≤ (255 - j) * size) :
    ∃ j', j < j' ∧ j' ≤ 255 ∧ j * size + p ≤ j' * size ∧
      (fillLoop prf f p acc n).2.1 = acc ++ ((okm prf info).drop (j * size)).take p ∧
      (fillLoop prf f p acc n).1.info = info ∧ (fillLoop prf f p acc n).1.size = f.size ∧
      (fillLoop prf f p acc n).1.counter = UInt8.ofNat (j' + 1) ∧
      (fillLoop prf f p acc n).1.prev = T prf info j' ∧
      (fillLoop prf f p acc n).1.buf.drop (fillLoop prf f p acc n).2.2 ++ (okm prf info).drop (j' * size) =
        (okm prf info).drop (j * size + p) := by
  induction p using Nat.strongRecOn generalizing f acc n j with
  | _ p ih =>
    have hj : j < 255 := by
      rcases Nat.lt_or_ge j 255 with h | h
      · exact h
      · have : 255 - j = 0 := by omega
        rw [this, Nat.zero_mul] at hroom; omega
    have hblk : prf (f.prev ++ f.info ++ [f.counter]) = T prf info (j + 1) := by
      rw [hprev, hinfo, hc]; rfl
    have hTl : (T prf info (j + 1)).length = size := T_length prf info size hsz j
    have hdec := okm_drop prf info size hsz j hj
    have hmin : min p size ≠ 0 := by omega
    have hfl : fillLoop prf f p acc n =
        fillLoop prf { f with prev := T prf info (j + 1), counter := f.counter + 1, buf := T prf info (j + 1) }
          (p - min p size) (acc ++ (T prf info (j + 1)).take (min p size)) (min p size) := by
      rw [fillLoop]
      simp only [Nat.ne_of_gt hp, ↓reduceIte, hblk, hTl, hmin, ↓reduceDIte]
    rw [hfl]
    by_cases hle : p ≤ size
    · -- the last block
      have hm : min p size = p := Nat.min_eq_left hle
      rw [hm, Nat.sub_self, fillLoop]
      simp only [↓reduceIte]
      refine ⟨j + 1, by omega, by omega, ?_, ?_, hinfo, by trivial, ?_, by trivial, ?_⟩
      · rw [Nat.add_one_mul]; omega
      · rw [hdec, List.take_append_of_le_length (by omega)]
      · show f.counter + 1 = _
        rw [hc]; exact counter_succ j
      · show (T prf info (j + 1)).drop p ++ _ = _
        rw [← List.drop_drop, hdec, List.drop_append_of_le_length (by omega)]
    · -- a whole block, then continue
      have hm : min p size = size := Nat.min_eq_right (by omega)
      rw [hm]
      have hroom' : p - size ≤ (255 - (j + 1)) * size := by
        have : (255 - j) * size = (255 - (j + 1)) * size + size := by
          rw [← Nat.add_one_mul]; congr 1; omega
        omega
      obtain ⟨j', h1, h2, h3, h4, h5, h6, h7, h8, h9⟩ :=
        ih (p - size) (by omega)
          { f with prev := T prf info (j + 1), counter := f.counter + 1, buf := T prf info (j + 1) }
          (acc ++ (T prf info (j + 1)).take size) size (j + 1) hinfo
          (by show f.counter + 1 = _; rw [hc]; exact counter_succ j) rfl (by omega) hroom'
      rw [Nat.add_one_mul] at h3 h9
      refine ⟨j', by omega, h2, by omega, ?_, h5, h6, h7, h8, ?_⟩
      · rw [h4, List.take_of_length_le (by omega), List.append_assoc]
        congr 1
        rw [hdec, List.take_append, hTl, List.take_of_length_le (l := T prf info (j + 1)) (by omega),
          Nat.add_one_mul]
      · rw [h9]; congr 1; omega

/-- **one Read**: it fails iff more than the remaining 255·HashLen − pos bytes are requested (and then
    the reader is unchanged: `read` returns no new state); otherwise it returns exactly the next
    `need` bytes of the stream and the reader stands at `pos + need`. -/
theorem read_spec (f : Reader) (pos j need : Nat) (h : Inv prf info size f pos j) :
    (255 * size - pos < need → f.read prf need = none) ∧
    (need ≤ 255 * size - pos → ∃ f' j', f.read prf need = some (f', ((okm prf info).drop pos).take need) ∧
        Inv prf info size f' (pos + need) j') := by
  have hS := okm_length prf info size hsz
  have hbl : f.buf.length = j * size - pos := by
    have := congrArg List.length h.hbuf
    simp only [List.length_append, List.length_drop, hS] at this
    have : j * size ≤ 255 * size := Nat.mul_le_mul_right _ h.hj
    omega
  have hrem : f.buf.length + ((255 : UInt8) - f.counter + 1).toNat * f.size = 255 * size - pos := by
    rw [h.hc, blocks_left j h.hj, h.hsize, hbl, Nat.sub_mul]
    have := h.hpos
    have : j * size ≤ 255 * size := Nat.mul_le_mul_right _ h.hj
    omega
  unfold Reader.read
  simp only [hrem]
  constructor
  · intro hlt; simp [hlt]
  · intro hle
    have hnl : ¬ (255 * size - pos < need) := by omega
    simp only [hnl, ↓reduceIte]
    have hpj := h.hpos
    by_cases hb : need ≤ f.buf.length
    · -- served from the buffer
      have hm : min need f.buf.length = need := Nat.min_eq_left hb
      rw [hm, Nat.sub_self, fillLoop]
      simp only [↓reduceIte]
      have hout : f.buf.take need = ((okm prf info).drop pos).take need := by
        rw [← h.hbuf, List.take_append_of_le_length hb]
      refine ⟨{ f with buf := f.buf.drop need }, j, by rw [hout],
        ⟨h.hsize, h.hinfo, h.hj, h.hc, h.hprev, by omega, ?_⟩⟩
      show f.buf.drop need ++ _ = _
      rw [← List.drop_drop, ← h.hbuf, List.drop_append_of_le_length hb]
    · -- buffer exhausted, generate blocks
      have hm : min need f.buf.length = f.buf.length := Nat.min_eq_right (by omega)
      rw [hm, List.take_length]
      have hroom : need - f.buf.length ≤ (255 - j) * size := by
        rw [hbl, Nat.sub_mul]
        have : j * size ≤ 255 * size := Nat.mul_le_mul_right _ h.hj
        omega
      obtain ⟨j', h1, h2, h3, h4, h5, h6, h7, h8, h9⟩ :=
        fillLoop_spec prf info size hsz hpos f (need - f.buf.length) f.buf f.buf.length j h.hinfo h.hc h.hprev
          (by omega) hroom
      generalize fillLoop prf f (need - f.buf.length) f.buf f.buf.length = r at h4 h5 h6 h7 h8 h9 ⊢
      have hout : r.2.1 = ((okm prf info).drop pos).take need := by
        rw [h4, ← h.hbuf]
        have : need = f.buf.length + (need - f.buf.length) := by omega
        conv => rhs; rw [this]
        rw [List.take_append, List.take_of_length_le (l := f.buf) (by omega)]
        have : f.buf.length + (need - f.buf.length) - f.buf.length = need - f.buf.length := by omega
        rw [this]
      have hidx : j * size + (need - f.buf.length) = pos + need := by omega
      refine ⟨{ r.1 with buf := r.1.buf.drop r.2.2 }, j', by rw [hout],
        ⟨by rw [← h.hsize]; exact h6, h5, h2, h7, h8, by omega, ?_⟩⟩
      show r.1.buf.drop r.2.2 ++ _ = _
      rw [h9, hidx]

/-- reference semantics of a Read sequence: a Read of `k` bytes at position `pos` fails iff
    `k > |S| − pos`, consuming nothing; otherwise it returns `S[pos, pos+k)` -/
def specReads (S : Bytes) : Nat → List Nat → List (Option Bytes)
  | _, [] => []
  | pos, k :: ks =>
    if S.length - pos < k then none :: specReads S pos ks
    else some ((S.drop pos).take k) :: specReads S (pos + k) ks

omit hsz hpos in
theorem init_inv : Inv prf info size (Reader.init size info) 0 0 :=
  ⟨rfl, rfl, by omega, rfl, rfl, by omega, by simp [Reader.init]⟩

theorem readMany_spec (f : Reader) (pos j : Nat) (h : Inv prf info size f pos j) (ks : List Nat) :
    readMany prf f ks = specReads (okm prf info) pos ks := by
  induction ks generalizing f pos j with
  | nil => rfl
  | cons k ks ih =>
    have hS := okm_length prf info size hsz
    obtain ⟨hfail, hok⟩ := read_spec prf info size hsz hpos f pos j k h
    simp only [readMany, specReads, hS]
    by_cases hlt : 255 * size - pos < k
    · simp only [hfail hlt, hlt, ↓reduceIte]
      rw [ih f pos j h]
    · obtain ⟨f', j', hr, hinv'⟩ := hok (by omega)
      simp only [hr, hlt, ↓reduceIte]
      rw [ih f' (pos + k) j' hinv']

/-- **C18 main theorem (HKDF reader)**: for every sequence of Read sizes on a fresh reader
    (`Expand`/`New`), the successful Reads return consecutive segments of the single RFC 5869 stream
    T(1) ‖ … ‖ T(255); exactly 255·HashLen bytes are available; a Read that asks for more than what is
    left fails and consumes nothing (later Reads continue from the same position); zero-length Reads
    always succeed. -/
theorem read_history (ks : List Nat) :
    readMany prf (Reader.init size info) ks = specReads (okm prf info) 0 ks :=
  readMany_spec prf info size hsz hpos _ 0 0 (init_inv prf info size) ks

end reader

/-- instance for the Go API: `hkdf.Expand(hash, prk, info)` with HMAC from XC.Prim -/
theorem hkdf_reader_history (a : HashAlg) (ha : a.WellSized) (hs : 0 < a.size) (prk info : Bytes)
    (ks : List Nat) :
    readMany (hmac a prk) (newReader a info) ks = specReads (okm (hmac a prk) info) 0 ks :=
  read_history (hmac a prk) info a.size (fun x => hmac_length a ha prk x) hs ks

/-- one Read of `L` bytes from a fresh reader is HKDF-Expand(PRK, info, L) (RFC 5869 §2.3) -/
theorem expand_eq_read (a : HashAlg) (ha : a.WellSized) (hs : 0 < a.size) (prk info : Bytes) (L : Nat) :
    readMany (hmac a prk) (newReader a info) [L] = [expand a prk info L] := by
  rw [hkdf_reader_history a ha hs]
  have hS := okm_length (hmac a prk) info a.size (fun x => hmac_length a ha prk x)
  simp only [specReads, expand, hS, Nat.sub_zero, List.drop_zero]
  by_cases h : 255 * a.size < L
  · simp [h]
  · simp [h]

/-- non-vacuity of the limit (toy stream of 40 bytes): 40 bytes can be read, the 41st cannot, and
    a failed Read does not move the position -/
example : specReads (zeros 40) 0 [30, 11, 10, 1, 0] =
    [some (zeros 30), none, some (zeros 10), none, some []] := by decide

/-! ### PBKDF2 -/

section pbkdf2
variable (prf : Bytes → Bytes) (size : Nat) (hsz : ∀ x, (prf x).length = size)
include hsz

theorem xorIter_length (c : Nat) (u t : Bytes) (hu : u.length = size) (ht : t.length = size) :
    (xorIter prf c u t).length = size := by
  induction c generalizing u t with
  | zero => exact ht
  | succ c ih =>
    simp only [xorIter]
    exact ih _ _ (hsz u) (by simp [xorBytes_length, ht, hsz])

theorem pbkdf2F_length (salt : Bytes) (c i : Nat) : (pbkdf2F prf salt c i).length = size := by
  simp only [pbkdf2F]
  exact xorIter_length prf size hsz _ _ _ (hsz _) (hsz _)

theorem pbkdf2Blocks_length (salt : Bytes) (c l : Nat) : (pbkdf2Blocks prf salt c l).length = l * size := by
  induction l with
  | zero => simp [pbkdf2Blocks]
  | succ l ih => simp only [pbkdf2Blocks, List.length_append, ih, pbkdf2F_length prf size hsz, Nat.succ_mul]

omit hsz in
/-- block lists are prefix-consistent -/
theorem pbkdf2Blocks_prefix (salt : Bytes) (c l l' : Nat) (h : l ≤ l') :
    ∃ rest, pbkdf2Blocks prf salt c l' = pbkdf2Blocks prf salt c l ++ rest := by
  induction l' with
  | zero => exact ⟨[], by have : l = 0 := by omega
                          subst this; simp⟩
  | succ l' ih =>
    by_cases hl : l = l' + 1
    · subst hl; exact ⟨[], by simp⟩
    · obtain ⟨r, hr⟩ := ih (by omega)
      exact ⟨r ++ pbkdf2F prf salt c (l' + 1), by simp only [pbkdf2Blocks, hr, List.append_assoc]⟩

end pbkdf2


/-! ### PBKDF2: the running-xor loop is RFC 8018's F = U_1 ⊕ U_2 ⊕ … ⊕ U_c -/

/-- U_{j+1} of block `i`: U_1 = PRF(P, S ‖ INT(i)), U_{j+1} = PRF(P, U_j) -/
def uSeq (prf : Bytes → Bytes) (salt : Bytes) (i : Nat) : Nat → Bytes
  | 0 => prf (salt ++ natToBE 4 i)
  | j + 1 => prf (uSeq prf salt i j)

theorem xorIter_eq_fold (prf : Bytes → Bytes) (salt : Bytes) (i n k : Nat) (t : Bytes) :
    xorIter prf n (uSeq prf salt i k) t =
      ((List.range n).map fun j => uSeq prf salt i (k + 1 + j)).foldl xorBytes t := by
  induction n generalizing k t with
  | zero => rfl
  | succ n ih =>
    simp only [xorIter]
    have hu : prf (uSeq prf salt i k) = uSeq prf salt i (k + 1) := rfl
    rw [hu, ih (k + 1), List.range_succ_eq_map, List.map_cons, List.foldl_cons, List.map_map]
    congr 2
    funext j
    simp only [Function.comp, Nat.succ_eq_add_one]
    congr 1; omega

/-- **RFC 8018 §5.2 step 3**: F(P, S, c, i) = U_1 ⊕ U_2 ⊕ … ⊕ U_c (for c ≥ 1; the code treats c ≤ 1 as 1) -/
theorem pbkdf2F_eq_xor (prf : Bytes → Bytes) (salt : Bytes) (c i : Nat) :
    pbkdf2F prf salt c i =
      ((List.range (c - 1)).map fun j => uSeq prf salt i (j + 1)).foldl xorBytes (uSeq prf salt i 0) := by
  unfold pbkdf2F
  have := xorIter_eq_fold prf salt i (c - 1) 0 (uSeq prf salt i 0)
  simp only [Nat.zero_add] at this
  rw [show prf (salt ++ natToBE 4 i) = uSeq prf salt i 0 from rfl, this]
  congr 2
  funext j
  congr 1; omega

/-- **RFC 8018 §5.2 steps 2, 4**: DK = first dkLen octets of T_1 ‖ T_2 ‖ … ‖ T_l, l = ⌈dkLen / hLen⌉ -/
theorem pbkdf2Key_blocks (a : HashAlg) (pw salt : Bytes) (iter : Int) (dkLen : Nat) (h : 0 < dkLen) :
    pbkdf2Key a pw salt iter dkLen =
      some (((List.range ((dkLen + a.size - 1) / a.size)).flatMap fun l =>
        pbkdf2F (hmac a pw) salt iter.toNat (l + 1)).take dkLen) := by
  unfold pbkdf2Key
  have : ¬ ((dkLen : Int) ≤ 0) := by omega
  simp only [this, ↓reduceIte, Int.toNat_natCast, Option.some.injEq]
  congr 1
  generalize (dkLen + a.size - 1) / a.size = l
  induction l with
  | zero => rfl
  | succ l ih => rw [pbkdf2Blocks, ih, List.range_succ, List.flatMap_append]; simp

/-! ### HKDF-Extract -/

/-- RFC 5869 §2.2: "salt: if not provided, it is set to a string of HashLen zeros" — for HMAC the
    empty key and HashLen zero bytes give the same PRK (what crypto/hkdf.Extract does for a nil salt) -/
theorem extract_nil_salt (a : HashAlg) (hs : a.size ≤ a.blockSize) (secret : Bytes) :
    extract a secret [] = extract a secret (zeros a.size) := by
  unfold extract hmac
  have : hmacKey a [] = hmacKey a (zeros a.size) := by
    rw [hmacKey_short a [] (by simp), hmacKey_short a (zeros a.size) (by simp [zeros]; exact hs)]
    simp only [zeros, List.nil_append, List.length_nil, Nat.sub_zero, List.length_replicate,
      List.replicate_append_replicate]
    congr 1; omega
  rw [this]


/-! ### PBKDF2: block index and windows of long keys -/

/-- **INT(i) is the 4-octet big-endian encoding of i, for every i < 2^32**: it has 4 bytes and decodes
    back to i — in particular blocks 256, 65536, 65537, 2^24 … carry into the 2nd, 3rd and 4th octet and
    no two block numbers below 2^32 share an index -/
theorem blockIndex_spec (i : Nat) (h : i < 2 ^ 32) :
    (natToBE 4 i).length = 4 ∧ natOfBE (natToBE 4 i) = i := by
  refine ⟨by simp [natToBE, natToLE_length], ?_⟩
  unfold natOfBE natToBE
  rw [List.reverse_reverse, natOfLE_natToLE]
  exact Nat.mod_eq_of_lt (by simpa using h)

theorem blockIndex_injective (i j : Nat) (hi : i < 2 ^ 32) (hj : j < 2 ^ 32)
    (h : natToBE 4 i = natToBE 4 j) : i = j := by
  rw [← (blockIndex_spec i hi).2, ← (blockIndex_spec j hj).2, h]

example : natToBE 4 255 = [0, 0, 0, 255] ∧ natToBE 4 256 = [0, 0, 1, 0] ∧ natToBE 4 65536 = [0, 1, 0, 0] ∧
    natToBE 4 65537 = [0, 1, 0, 1] ∧ natToBE 4 16777216 = [1, 0, 0, 0] := by decide

section pbkdf2win
variable (prf : Bytes → Bytes) (size : Nat) (hsz : ∀ x, (prf x).length = size)
include hsz

/-- block decomposition of T_1 ‖ … ‖ T_J -/
theorem pbkdf2Blocks_drop (salt : Bytes) (c J j : Nat) (h : j < J) :
    (pbkdf2Blocks prf salt c J).drop (j * size) =
      pbkdf2F prf salt c (j + 1) ++ (pbkdf2Blocks prf salt c J).drop ((j + 1) * size) := by
  induction J with
  | zero => omega
  | succ J ih =>
    have hl := pbkdf2Blocks_length prf size hsz salt c J
    have hF := pbkdf2F_length prf size hsz salt c
    simp only [pbkdf2Blocks]
    by_cases hj : j < J
    · have h1 : j * size ≤ J * size := Nat.mul_le_mul_right _ (by omega)
      have h2 : (j + 1) * size ≤ J * size := Nat.mul_le_mul_right _ (by omega)
      rw [List.drop_append_of_le_length (by omega), List.drop_append_of_le_length (by omega), ih hj,
        List.append_assoc]
    · have : j = J := by omega
      subst this
      rw [List.drop_left' hl, List.drop_eq_nil_of_le (by
        rw [List.length_append, hl, hF, Nat.add_one_mul]; omega), List.append_nil]

end pbkdf2win

/-- **windows of a derived key**: bytes [(i−1)·hLen, i·hLen) of the key are the first
    min(hLen, keyLen − (i−1)·hLen) bytes of T_i = F(P, S, c, i), for every block 1 ≤ i ≤ ⌈keyLen/hLen⌉ —
    what the `pbw` ops compare for blocks 255/256/257 and 65535/65536/65537 -/
theorem pbkdf2Key_window (a : HashAlg) (ha : a.WellSized) (_hs : 0 < a.size) (pw salt : Bytes) (iter : Int)
    (keyLen i : Nat) (hk : 0 < keyLen) (hi1 : 1 ≤ i) (hi2 : i ≤ (keyLen + a.size - 1) / a.size) (key : Bytes)
    (e : pbkdf2Key a pw salt iter keyLen = some key) :
    (key.drop ((i - 1) * a.size)).take a.size = pbkdf2Window a pw salt iter keyLen i := by
  unfold pbkdf2Key at e
  have n1 : ¬ ((keyLen : Int) ≤ 0) := by omega
  simp only [n1, ↓reduceIte, Option.some.injEq, Int.toNat_natCast] at e
  subst e
  have hprf : ∀ x, (hmac a pw x).length = a.size := fun x => hmac_length a ha pw x
  have hF := pbkdf2F_length (hmac a pw) a.size hprf salt iter.toNat i
  have hd := pbkdf2Blocks_drop (hmac a pw) a.size hprf salt iter.toNat ((keyLen + a.size - 1) / a.size) (i - 1) (by omega)
  have hi : i - 1 + 1 = i := by omega
  rw [hi] at hd
  unfold pbkdf2Window
  have hmin : min a.size (keyLen - (i - 1) * a.size) ≤ (pbkdf2F (hmac a pw) salt iter.toNat i).length := by
    rw [hF]; exact Nat.min_le_left _ _
  rw [List.drop_take, hd, List.take_take, List.take_append_of_le_length hmin]
  by_cases hc : a.size ≤ keyLen - (i - 1) * a.size
  · rw [Nat.min_eq_left hc, List.take_of_length_le (by omega), List.take_of_length_le (by omega)]
  · rw [Nat.min_eq_right (by omega)]

/-- the driver's left-to-right construction of the whole key is `pbkdf2Key` -/
theorem pbkdf2KeyLinear_eq (a : HashAlg) (pw salt : Bytes) (iter : Int) (keyLen : Nat) (h : 0 < keyLen) :
    pbkdf2Key a pw salt iter keyLen = some (pbkdf2KeyLinear a pw salt iter keyLen) :=
  pbkdf2Key_blocks a pw salt iter keyLen h

/-- `pbkdf2.Key` panics exactly for `keyLen ≤ 0`; otherwise it returns exactly `keyLen` bytes -/
theorem pbkdf2Key_panic_iff (a : HashAlg) (pw salt : Bytes) (iter keyLen : Int) :
    pbkdf2Key a pw salt iter keyLen = none ↔ keyLen ≤ 0 := by
  unfold pbkdf2Key; split <;> simp_all

theorem pbkdf2Key_length (a : HashAlg) (ha : a.WellSized) (hs : 0 < a.size) (pw salt : Bytes)
    (iter keyLen : Int) (k : Bytes) (h : pbkdf2Key a pw salt iter keyLen = some k) :
    k.length = keyLen.toNat := by
  unfold pbkdf2Key at h
  split at h
  · simp at h
  · simp only [Option.some.injEq] at h
    subst h
    rw [List.length_take, pbkdf2Blocks_length _ a.size (fun x => hmac_length a ha pw x)]
    apply Nat.min_eq_left
    have := Nat.div_add_mod (keyLen.toNat + a.size - 1) a.size
    have := Nat.mod_lt (keyLen.toNat + a.size - 1) hs
    have hm : a.size * ((keyLen.toNat + a.size - 1) / a.size) =
        (keyLen.toNat + a.size - 1) / a.size * a.size := Nat.mul_comm _ _
    omega

/-- a shorter key is a prefix of a longer one (same password, salt, iterations): DK = T_1 ‖ T_2 ‖ … truncated -/
theorem pbkdf2Key_prefix (a : HashAlg) (ha : a.WellSized) (hs : 0 < a.size) (pw salt : Bytes) (iter : Int)
    (k1 k2 : Nat) (h1 : 0 < k1) (h12 : k1 ≤ k2) (key1 key2 : Bytes)
    (e1 : pbkdf2Key a pw salt iter k1 = some key1) (e2 : pbkdf2Key a pw salt iter k2 = some key2) :
    key1 = key2.take k1 := by
  unfold pbkdf2Key at e1 e2
  have n1 : ¬ ((k1 : Int) ≤ 0) := by omega
  have n2 : ¬ ((k2 : Int) ≤ 0) := by omega
  simp only [n1, n2, ↓reduceIte, Option.some.injEq, Int.toNat_natCast] at e1 e2
  subst e1 e2
  rw [List.take_take, Nat.min_eq_left h12]
  have hle : (k1 + a.size - 1) / a.size ≤ (k2 + a.size - 1) / a.size :=
    Nat.div_le_div_right (by omega)
  obtain ⟨rest, hr⟩ := pbkdf2Blocks_prefix (hmac a pw) salt iter.toNat _ _ hle
  rw [hr, List.take_append_of_le_length]
  rw [pbkdf2Blocks_length _ a.size (fun x => hmac_length a ha pw x)]
  have := Nat.div_add_mod (k1 + a.size - 1) a.size
  have := Nat.mod_lt (k1 + a.size - 1) hs
  have hm : a.size * ((k1 + a.size - 1) / a.size) = (k1 + a.size - 1) / a.size * a.size := Nat.mul_comm _ _
  omega

/-- non-vacuity: HMAC-SHA-256 (32-byte PRF, positive size) satisfies the hypotheses of `read_history`;
    PBKDF2-HMAC-SHA-1 with dkLen = 25 > hLen = 20 uses two blocks -/
example (prk info : Bytes) (ks : List Nat) :
    readMany (hmac algSha256 prk) (newReader algSha256 info) ks =
      specReads (okm (hmac algSha256 prk) info) 0 ks :=
  hkdf_reader_history algSha256 algSha256_wellSized (Nat.lt_of_sub_eq_succ rfl) prk info ks

example (pw salt : Bytes) :
    pbkdf2Key algSha1 pw salt 4096 ((25 : Nat) : Int) =
      some (((List.range ((25 + algSha1.size - 1) / algSha1.size)).flatMap fun l =>
        pbkdf2F (hmac algSha1 pw) salt 4096 (l + 1)).take 25) :=
  pbkdf2Key_blocks algSha1 pw salt 4096 25 (by decide)

end XC.C18
