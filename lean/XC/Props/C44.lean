/-
  C44 — OpenPGP message framing and integrity plumbing: property theorems over XC.Model.C44
  (readers from XC.Model.C45, canonical-text spec from XC.Model.C46).
-/
import XC.Model.C44
import XC.Proofs.C46_CS
import XC.Proofs.C44_PW
import XC.Proofs.C44_MDC
namespace XC.C44
open XC

/-! ## packet headers -/

theorem natOfBE4 (n : Nat) (h : n < 2 ^ 32) : natOfBE (natToBE 4 n) = n := by
  simp only [natOfBE, natToBE, List.reverse_reverse]
  rw [natOfLE_natToLE]
  exact Nat.mod_eq_of_lt (by simpa using h)

theorem natToBE4_shape (n : Nat) : ∃ b0 b1 b2 b3, natToBE 4 n = [b0, b1, b2, b3] := by
  have hl : (natToBE 4 n).length = 4 := by simp [natToBE, natToLE_length]
  match hh : natToBE 4 n, hl with
  | [b0, b1, b2, b3], _ => exact ⟨b0, b1, b2, b3, rfl⟩

/-- **header_roundtrip**: for every tag < 64 and every length < 2^32 (all three length forms),
    `readHeader` reads back exactly what `serializeHeader` wrote and leaves the body untouched. -/
theorem header_roundtrip (tag n : Nat) (ht : tag < 64) (hn : n < 2 ^ 32) (body : Bytes) :
    C45.readHeader (serializeHeader tag n ++ body) =
      .ok ⟨tag, n, .span n, body⟩ := by
  have htag : tag % 64 = tag := Nat.mod_eq_of_lt ht
  have k80 : ∀ t : Fin 64, ((UInt8.ofNat (0xC0 + t.val) &&& 0x80) == 0) = false := by decide
  have k40 : ∀ t : Fin 64, ((UInt8.ofNat (0xC0 + t.val) &&& 0x40) == 0) = false := by decide
  have ktg : ∀ t : Fin 64, (UInt8.ofNat (0xC0 + t.val) &&& 0x3f).toNat = t.val := by decide
  have h80 := k80 ⟨tag, ht⟩
  have h40 := k40 ⟨tag, ht⟩
  have htg := ktg ⟨tag, ht⟩
  simp only at h80 h40 htg
  unfold serializeHeader
  rw [htag]
  by_cases h1 : n < 192
  · have hl : (UInt8.ofNat n < 192) := by
      simp [UInt8.lt_iff_toNat_lt, UInt8.toNat_ofNat']; omega
    simp only [h1, ↓reduceIte, List.cons_append, List.nil_append, C45.readHeader, h80, h40,
      Bool.false_eq_true, ↓reduceIte, C45.readLength, hl, htg]
    simp [UInt8.toNat_ofNat']
    omega
  · by_cases h2 : n < 8384
    · have a1 : ¬ (UInt8.ofNat (192 + (n - 192) / 256) < 192) := by
        simp [UInt8.lt_iff_toNat_lt, UInt8.toNat_ofNat']; omega
      have a2 : UInt8.ofNat (192 + (n - 192) / 256) < 224 := by
        simp [UInt8.lt_iff_toNat_lt, UInt8.toNat_ofNat']; omega
      simp only [h1, h2, ↓reduceIte, List.cons_append, List.nil_append, C45.readHeader, h80, h40,
        Bool.false_eq_true, ↓reduceIte, C45.readLength, a1, a2, htg]
      simp [UInt8.toNat_ofNat']
      omega
    · obtain ⟨b0, b1, b2, b3, hb⟩ := natToBE4_shape n
      have hv := natOfBE4 n hn
      rw [hb] at hv
      have a1 : ¬ ((255 : UInt8) < 192) := by decide
      have a2 : ¬ ((255 : UInt8) < 224) := by decide
      have a3 : ¬ ((255 : UInt8) < 255) := by decide
      simp only [h1, h2, ↓reduceIte, List.cons_append, C45.readHeader, h80, h40,
        Bool.false_eq_true, ↓reduceIte, C45.readLength, a1, a2, a3, hb, htg, hv, List.nil_append]

/-! ## partial-length writer / reader -/

/-- **partial_roundtrip** (proved in `XC.Proofs.C44_PW`): any sequence of Writes to the partial-length
    writer, then Close, is read back by the partial-length reader as the concatenation of the writes,
    without error, and the reader stops exactly at the end of the packet. -/
theorem partial_roundtrip_any_chunking (chunks : List Bytes) (tail : Bytes) :
    readStream (pwAll chunks ++ tail) = (chunks.flatten, none, tail) :=
  partial_roundtrip chunks tail

/-- every partial chunk the writer emits has a length octet in 224..254 announcing a power of two ≤ 2^30 -/
theorem partial_length_octet (k : Nat) (hk : k ≤ 30) (rest : Bytes) :
    C45.readLength (UInt8.ofNat (224 + k) :: rest) = .ok (2 ^ k, true, rest) :=
  readLength_partial k hk rest

/-! ## canonical text filter: chunk independence -/

theorem cthWriteLoop_eq (l : Bytes) (s : Bool) (seg out : Bytes) :
    cthWriteLoop s seg out l =
      ((l.foldl C46.cthStep (s, [])).1, out ++ seg ++ (l.foldl C46.cthStep (s, [])).2) := by
  induction l generalizing s seg out with
  | nil => simp [cthWriteLoop]
  | cons c t ih =>
    have hfold := C46.cth_foldl_out (C46.cthStep (s, []) c) t
    simp only [List.foldl_cons]
    unfold cthWriteLoop
    by_cases hs : s = true
    · subst hs
      have hstep : C46.cthStep (true, []) c = (false, [c]) := by simp [C46.cthStep]
      rw [hstep] at hfold
      simp only [↓reduceIte, ih, hstep, hfold.1, hfold.2]
      simp [List.append_assoc]
    · have hs : s = false := by simpa using hs
      subst hs
      by_cases h13 : (c == 13) = true
      · have hstep : C46.cthStep (false, []) c = (true, [c]) := by
          simp [C46.cthStep, C46.CR, h13]
        rw [hstep] at hfold
        simp only [Bool.false_eq_true, ↓reduceIte, h13, ih, hstep, hfold.1, hfold.2]
        simp [List.append_assoc]
      · by_cases h10 : (c == 10) = true
        · have hstep : C46.cthStep (false, []) c = (false, [13, 10]) := by
            simp [C46.cthStep, C46.CR, C46.LF, C46.CRLF, h13, h10]
          rw [hstep] at hfold
          simp only [Bool.false_eq_true, ↓reduceIte, h13, h10, ih, hstep, hfold.1, hfold.2]
          simp [List.append_assoc]
        · have hstep : C46.cthStep (false, []) c = (false, [c]) := by
            simp [C46.cthStep, C46.CR, C46.LF, h13, h10]
          rw [hstep] at hfold
          simp only [Bool.false_eq_true, ↓reduceIte, h13, h10, ih, hstep, hfold.1, hfold.2]
          simp [List.append_assoc]

/-- **canonical_text**: however the text is cut into `Write` calls, the bytes that reach the underlying
    hash are those of the byte-wise two-state automaton run over the whole text
    (a lone LF in state 0 becomes CRLF; a CR makes the next byte pass unchanged). -/
theorem canonical_text_chunking (chunks : List Bytes) (s : Bool) :
    cthChunks s chunks =
      ((chunks.flatten.foldl C46.cthStep (s, [])).1, (chunks.flatten.foldl C46.cthStep (s, [])).2) := by
  induction chunks generalizing s with
  | nil => simp [cthChunks]
  | cons c cs ih =>
    simp only [cthChunks, cthWrite, cthWriteLoop_eq, List.flatten_cons, List.foldl_append, ih]
    have h := C46.cth_foldl_out (c.foldl C46.cthStep (s, [])) cs.flatten
    rw [h.1, h.2]
    simp

/-- in particular the digest input of a text signature does not depend on the chunking -/
theorem canonical_text_eq_cth (chunks : List Bytes) : (cthChunks false chunks).2 = C46.cth chunks.flatten := by
  rw [canonical_text_chunking]; rfl

/-! ## MDC -/

/-- **mdc_accept_iff** (decision structure of `Close` after EOF): the check passes exactly when the
    22 trailing bytes are `D3 14` followed by the hash of prefix ‖ delivered plaintext ‖ `D3 14`. -/
theorem mdc_accept_iff (H : Bytes → Bytes) (pre : Bytes) (st : MDCR) :
    mdcCheck H pre st = .ok ↔ st.trailer = mdcTag ++ H (pre ++ st.hashed ++ mdcTag) := by
  unfold mdcCheck
  constructor
  · intro h
    by_cases h1 : (st.trailer.take 2 != mdcTag) = true
    · rw [if_pos h1] at h; cases h
    · rw [if_neg h1] at h
      by_cases h2 : (H (pre ++ st.hashed ++ mdcTag) != st.trailer.drop 2) = true
      · rw [if_pos h2] at h; cases h
      · have e1 : st.trailer.take 2 = mdcTag := by simpa using h1
        have e2 : H (pre ++ st.hashed ++ mdcTag) = st.trailer.drop 2 := by
          have := h2
          rw [bne_iff_ne] at this
          exact Classical.not_not.mp this
        rw [e2, ← e1, List.take_append_drop]
  · intro h
    have e1 : st.trailer.take 2 = mdcTag := by rw [h]; simp [mdcTag]
    have e2 : st.trailer.drop 2 = H (pre ++ st.hashed ++ mdcTag) := by rw [h]; simp [mdcTag]
    rw [e1, e2]
    simp

/-- what the MDC writer appends is accepted by the reader's check -/
theorem mdc_seal_accepted (H : Bytes → Bytes) (pre pt : Bytes) :
    mdcCheck H pre { trailer := (mdcSeal H pre pt).drop pt.length, hashed := pt } = .ok := by
  have : (mdcSeal H pre pt).drop pt.length = mdcTag ++ H (pre ++ pt ++ mdcTag) := by
    simp [mdcSeal, List.append_assoc]
  rw [this]
  exact (mdc_accept_iff H pre _).2 rfl

/-- **mdc_window**: for EVERY short-read schedule `script` of the underlying reader and EVERY sequence of
    caller buffer sizes `ms`, on a body `D` of at least 22 bytes: no Read fails; the bytes delivered by
    the Reads (followed by what `Close` drains) are `D` without its last 22 bytes — the trailer window is
    never delivered as plaintext; and `Close` returns exactly the check of those last 22 bytes against the
    hash of prefix ‖ (D minus its last 22 bytes). -/
theorem mdc_window (H : Bytes → Bytes) (pre D : Bytes) (script ms : List Nat) (hD : 22 ≤ D.length) :
    (mdcSession H pre {} ⟨D, script⟩ ms).2 =
      mdcCheck H pre { trailer := D.drop (D.length - 22), hashed := D.take (D.length - 22) } ∧
    (∀ p ∈ (mdcSession H pre {} ⟨D, script⟩ ms).1, p.2 ≠ .ueof) ∧
    ∃ rest, ((mdcSession H pre {} ⟨D, script⟩ ms).1.map (·.1)).flatten ++ rest = D.take (D.length - 22) := by
  have := mdc_session_inv H pre D ms {} ⟨D, script⟩ [] (Inv.init D script) hD
  simpa [mdcTrailerSize] using this

/-- … hence, for every read pattern: `Close` = ok ⇔ the body ends with `D3 14 ‖ H(prefix ‖ plaintext ‖ D3 14)` -/
theorem mdc_close_ok_iff (H : Bytes → Bytes) (pre D : Bytes) (script ms : List Nat) (hD : 22 ≤ D.length) :
    (mdcSession H pre {} ⟨D, script⟩ ms).2 = .ok ↔
      D.drop (D.length - 22) = mdcTag ++ H (pre ++ D.take (D.length - 22) ++ mdcTag) := by
  rw [(mdc_window H pre D script ms hD).1]
  exact mdc_accept_iff H pre _

/-! ## v4 signature layout -/

theorem natToBE_len (n v : Nat) : (natToBE n v).length = n := by simp [natToBE, natToLE_length]

/-- **sig_trailer_layout**: the hash suffix is `04 type pk hash ‖ len16(hashed) ‖ hashed area ‖ 04 ff ‖ len32`,
    where the hashed area is `05 02 ctime32 ‖ 09 10 issuer64` (16 octets) and the final length counts
    everything before the 6-octet trailer (22 = 6 + 16). -/
theorem sig_trailer_layout (st pk hid : UInt8) (ct iss : Nat) :
    let suf := sigHashSuffix st pk hid ct iss
    suf.length = 28 ∧
    suf.take 6 = [4, st, pk, hid, 0, 16] ∧
    (suf.drop 6).take 16 = sigHashedArea ct iss ∧
    suf.drop 22 = [4, 0xff, 0, 0, 0, 22] := by
  have h4 : (natToBE 4 ct).length = 4 := natToBE_len 4 ct
  have h8 : (natToBE 8 iss).length = 8 := natToBE_len 8 iss
  have hh : (sigHashedArea ct iss).length = 16 := by
    simp [sigHashedArea, subpacket, h4, h8]
  have e2 : natToBE 2 16 = [0, 16] := by decide
  have e4 : natToBE 4 22 = [0, 0, 0, 22] := by decide
  simp only [sigHashSuffix, hh, e2, e4]
  refine ⟨by simp [hh], by simp, ?_, ?_⟩
  · simp [hh]
  · simp only [List.append_assoc, List.cons_append, List.nil_append]
    have : (4 :: st :: pk :: hid :: 0 :: 16 :: (sigHashedArea ct iss ++ [4, 0xff, 0, 0, 0, 22])) =
        ([4, st, pk, hid, 0, 16] ++ sigHashedArea ct iss) ++ [4, 0xff, 0, 0, 0, 22] := by simp
    rw [this, List.drop_left' (by simp [hh])]

/-! ## the packet grammar ReadMessage accepts -/

theorem readMessage_pkesks (n k : Nat) (rest : List Tok) :
    readMessage true k (List.replicate n Tok.pkesk ++ rest) = readMessage true (k + n) rest := by
  induction n generalizing k with
  | zero => simp
  | succ n ih =>
    rw [List.replicate_succ, List.cons_append, readMessage]
    simp only [tnext, ↓reduceIte]
    rw [ih]; congr 1; omega

theorem readSigned_body (enc signed compressed : Bool) (tail : List Tok) :
    readSigned enc false ((if compressed then [Tok.comp] ++ signedBody signed ++ [Tok.close] else signedBody signed) ++ tail) =
      .ok enc signed signed := by
  cases compressed <;> cases signed <;>
    simp [signedBody, readSigned, tnext, afterLiteral]

/-- **signed_message_grammar**: every packet sequence the writers emit — `SymmetricallyEncrypt`
    (SKESK, encrypted data [compressed] literal), `Encrypt` (n ≥ 1 PKESKs, encrypted data, [one-pass
    signature] literal [signature]), `Sign` (one-pass signature, literal, signature) — is accepted by the
    `ReadMessage` acceptor, with the encrypted / signed / verified flags the writer intended. -/
theorem signed_message_grammar (nrcpt : Nat) (signed compressed : Bool) (h : 1 ≤ nrcpt) :
    readMessage true 0 (writerShape "sym" nrcpt signed compressed) = .ok true signed signed ∧
    readMessage true 0 (writerShape "pk" nrcpt signed compressed) = .ok true signed signed ∧
    readMessage true 0 (writerShape "sign" nrcpt signed compressed) = .ok false true true := by
  refine ⟨?_, ?_, ?_⟩
  · have e : writerShape "sym" nrcpt signed compressed =
        Tok.skesk :: Tok.seipd :: ((if compressed then [Tok.comp] ++ signedBody signed ++ [Tok.close] else signedBody signed) ++ [Tok.close]) := by
      simp [writerShape]
    rw [e, readMessage]; simp only [tnext]
    rw [readMessage]; simp only [tnext]
    simpa using readSigned_body true signed compressed [Tok.close]
  · have e : writerShape "pk" nrcpt signed compressed =
        List.replicate nrcpt Tok.pkesk ++ (Tok.seipd :: ((if compressed then [Tok.comp] ++ signedBody signed ++ [Tok.close] else signedBody signed) ++ [Tok.close])) := by
      simp [writerShape]
    rw [e, readMessage_pkesks, readMessage]; simp only [tnext]
    have : ((0 + nrcpt == 0) || !true) = false := by simp; omega
    simp only [this, Bool.false_eq_true, ↓reduceIte]
    exact readSigned_body true signed compressed [Tok.close]
  · have e : writerShape "sign" nrcpt signed compressed = [Tok.ops true, Tok.lit, Tok.sig] := by
      simp [writerShape, signedBody]
    rw [e, readMessage]; simp [tnext, readSigned, afterLiteral]

/-- without usable key material an encrypted message is refused, and key packets followed by
    unencrypted data are refused -/
theorem grammar_rejects (nrcpt : Nat) (signed compressed : Bool) :
    readMessage false 0 (writerShape "sym" nrcpt signed compressed) = .err ∧
    readMessage true 0 (Tok.skesk :: signedBody signed) = .err := by
  constructor
  · simp [writerShape, readMessage, tnext]
  · cases signed <;> simp [signedBody, readMessage, tnext]

/-! ## non-vacuity: concrete instances satisfying the hypotheses of the theorems above -/

example : C45.readHeader (serializeHeader 11 300 ++ [1, 2]) = .ok ⟨11, 300, .span 300, [1, 2]⟩ :=
  header_roundtrip 11 300 (by decide) (by decide) [1, 2]
example : C45.readHeader (serializeHeader 18 70000 ++ []) = .ok ⟨18, 70000, .span 70000, []⟩ :=
  header_roundtrip 18 70000 (by decide) (by decide) []
example : readStream (pwAll [[1, 2], [], [3]] ++ [9]) = ([1, 2, 3], none, [9]) :=
  partial_roundtrip_any_chunking [[1, 2], [], [3]] [9]
example : (cthChunks false [[97, 13], [10, 10], [98]]).2 = C46.cth [97, 13, 10, 10, 98] :=
  canonical_text_eq_cth [[97, 13], [10, 10], [98]]
example : C46.cth [97, 13, 10, 10, 98] = [97, 13, 10, 13, 10, 98] := by decide
/-- a 30-byte body, reads of 5/1024/0 bytes over an underlying reader that returns 3, 1, 7, … bytes at a time -/
example : ∃ rest, ((mdcSession (fun _ => List.replicate 20 0) [1, 2] {} ⟨List.replicate 30 7, [3, 1, 7]⟩ [5, 1024, 0]).1.map (·.1)).flatten ++ rest
    = (List.replicate 30 (7 : UInt8)).take 8 :=
  (mdc_window (fun _ => List.replicate 20 0) [1, 2] (List.replicate 30 7) [3, 1, 7] [5, 1024, 0] (by decide)).2.2
example : (sigHashSuffix 0 1 8 1700000000 0xA34D7E18C20C31BB).drop 22 = [4, 0xff, 0, 0, 0, 22] :=
  (sig_trailer_layout 0 1 8 1700000000 0xA34D7E18C20C31BB).2.2.2
example : readMessage true 0 (writerShape "pk" 2 true false) = .ok true true true :=
  (signed_message_grammar 2 true false (by decide)).2.1

end XC.C44
