/-
  C44 — OpenPGP message framing and integrity plumbing: property theorems over XC.Model.C44
  (readers from XC.Model.C45, canonical-text spec from XC.Model.C46).
-/
import XC.Model.C44
import XC.Proofs.C46_CS
import XC.Proofs.C44_PW
namespace XC.C44
open XC

/-! ## packet headers -/

theorem natOfBE4 (n : Nat) (h : n < 2 ^ 32) : natOfBE (natToBE 4 n) = n := by
  simp only [natOfBE, natToBE, List.reverse_reverse]
  rw [natOfLE_natToLE]
  exact Nat.mod_eq_of_lt (by simpa using h)

theorem natToBE4_shape (n : Nat) : ∃ b0 b1 b2 b3, natToBE 4 n = [b0, b1, b2, b3] := by
  have hl : (natToBE 4 n).length = 4 := by simp [natToBE, natToLE_length]
  match hh : natToBE 4 n, hl with
  | [b0, b1, b2, b3], _ => exact ⟨b0, b1, b2, b3, rfl⟩

/-- **header_roundtrip**: for every tag < 64 and every length < 2^32 (all three length forms),
    `readHeader` reads back exactly what `serializeHeader` wrote and leaves the body untouched. -/
theorem header_roundtrip (tag n : Nat) (ht : tag < 64) (hn : n < 2 ^ 32) (body : Bytes) :
    C45.readHeader (serializeHeader tag n ++ body) =
      .ok ⟨tag, n, .span n, body⟩ := by
  have htag : tag % 64 = tag := Nat.mod_eq_of_lt ht
  have k80 : ∀ t : Fin 64, ((UInt8.ofNat (0xC0 + t.val) &&& 0x80) == 0) = false := by decide
  have k40 : ∀ t : Fin 64, ((UInt8.ofNat (0xC0 + t.val) &&& 0x40) == 0) = false := by decide
  have ktg : ∀ t : Fin 64, (UInt8.ofNat (0xC0 + t.val) &&& 0x3f).toNat = t.val := by decide
  have h80 := k80 ⟨tag, ht⟩
  have h40 := k40 ⟨tag, ht⟩
  have htg := ktg ⟨tag, ht⟩
  simp only at h80 h40 htg
  unfold serializeHeader
  rw [htag]
  by_cases h1 : n < 192
  · have hl : (UInt8.ofNat n < 192) := by
      simp [UInt8.lt_iff_toNat_lt, UInt8.toNat_ofNat']; omega
    simp only [h1, ↓reduceIte, List.cons_append, List.nil_append, C45.readHeader, h80, h40,
      Bool.false_eq_true, ↓reduceIte, C45.readLength, hl, htg]
    simp [UInt8.toNat_ofNat']
    omega
  · by_cases h2 : n < 8384
    · have a1 : ¬ (UInt8.ofNat (192 + (n - 192) / 256) < 192) := by
        simp [UInt8.lt_iff_toNat_lt, UInt8.toNat_ofNat']; omega
      have a2 : UInt8.ofNat (192 + (n - 192) / 256) < 224 := by
        simp [UInt8.lt_iff_toNat_lt, UInt8.toNat_ofNat']; omega
      simp only [h1, h2, ↓reduceIte, List.cons_append, List.nil_append, C45.readHeader, h80, h40,
        Bool.false_eq_true, ↓reduceIte, C45.readLength, a1, a2, htg]
      simp [UInt8.toNat_ofNat']
      omega
    · obtain ⟨b0, b1, b2, b3, hb⟩ := natToBE4_shape n
      have hv := natOfBE4 n hn
      rw [hb] at hv
      have a1 : ¬ ((255 : UInt8) < 192) := by decide
      have a2 : ¬ ((255 : UInt8) < 224) := by decide
      have a3 : ¬ ((255 : UInt8) < 255) := by decide
      simp only [h1, h2, ↓reduceIte, List.cons_append, C45.readHeader, h80, h40,
        Bool.false_eq_true, ↓reduceIte, C45.readLength, a1, a2, a3, hb, htg, hv, List.nil_append]

/-! ## partial-length writer / reader -/

/-- **partial_roundtrip** (proved in `XC.Proofs.C44_PW`): any sequence of Writes to the partial-length
    writer, then Close, is read back by the partial-length reader as the concatenation of the writes,
    without error, and the reader stops exactly at the end of the packet. -/
theorem partial_roundtrip_any_chunking (chunks : List Bytes) (tail : Bytes) :
    readStream (pwAll chunks ++ tail) = (chunks.flatten, none, tail) :=
  partial_roundtrip chunks tail

/-- every partial chunk the writer emits has a length octet in 224..254 announcing a power of two ≤ 2^30 -/
theorem partial_length_octet (k : Nat) (hk : k ≤ 30) (rest : Bytes) :
    C45.readLength (UInt8.ofNat (224 + k) :: rest) = .ok (2 ^ k, true, rest) :=
  readLength_partial k hk rest

/-! ## canonical text filter: chunk independence -/

theorem cthWriteLoop_eq (l : Bytes) (s : Bool) (seg out : Bytes) :
    cthWriteLoop s seg out l =
      ((l.foldl C46.cthStep (s, [])).1, out ++ seg ++ (l.foldl C46.cthStep (s, [])).2) := by
  induction l generalizing s seg out with
  | nil => simp [cthWriteLoop]
  | cons c t ih =>
    have hfold := C46.cth_foldl_out (C46.cthStep (s, []) c) t
    simp only [List.foldl_cons]
    unfold cthWriteLoop
    by_cases hs : s = true
    · subst hs
      have hstep : C46.cthStep (true, []) c = (false, [c]) := by simp [C46.cthStep]
      rw [hstep] at hfold
      simp only [↓reduceIte, ih, hstep, hfold.1, hfold.2]
      simp [List.append_assoc]
    · have hs : s = false := by simpa using hs
      subst hs
      by_cases h13 : (c == 13) = true
      · have hstep : C46.cthStep (false, []) c = (true, [c]) := by
          simp [C46.cthStep, C46.CR, h13]
        rw [hstep] at hfold
        simp only [Bool.false_eq_true, ↓reduceIte, h13, ih, hstep, hfold.1, hfold.2]
        simp [List.append_assoc]
      · by_cases h10 : (c == 10) = true
        · have hstep : C46.cthStep (false, []) c = (false, [13, 10]) := by
            simp [C46.cthStep, C46.CR, C46.LF, C46.CRLF, h13, h10]
          rw [hstep] at hfold
          simp only [Bool.false_eq_true, ↓reduceIte, h13, h10, ih, hstep, hfold.1, hfold.2]
          simp [List.append_assoc]
        · have hstep : C46.cthStep (false, []) c = (false, [c]) := by
            simp [C46.cthStep, C46.CR, C46.LF, h13, h10]
          rw [hstep] at hfold
          simp only [Bool.false_eq_true, ↓reduceIte, h13, h10, ih, hstep, hfold.1, hfold.2]
          simp [List.append_assoc]

/-- **canonical_text**: however the text is cut into `Write` calls, the bytes that reach the underlying
    hash are those of the byte-wise two-state automaton run over the whole text
    (a lone LF in state 0 becomes CRLF; a CR makes the next byte pass unchanged). -/
theorem canonical_text_chunking (chunks : List Bytes) (s : Bool) :
    cthChunks s chunks =
      ((chunks.flatten.foldl C46.cthStep (s, [])).1, (chunks.flatten.foldl C46.cthStep (s, [])).2) := by
  induction chunks generalizing s with
  | nil => simp [cthChunks]
  | cons c cs ih =>
    simp only [cthChunks, cthWrite, cthWriteLoop_eq, List.flatten_cons, List.foldl_append, ih]
    have h := C46.cth_foldl_out (c.foldl C46.cthStep (s, [])) cs.flatten
    rw [h.1, h.2]
    simp

/-- in particular the digest input of a text signature does not depend on the chunking -/
theorem canonical_text_eq_cth (chunks : List Bytes) : (cthChunks false chunks).2 = C46.cth chunks.flatten := by
  rw [canonical_text_chunking]; rfl

/-! ## MDC -/

/-- **mdc_accept_iff** (decision structure of `Close` after EOF): the check passes exactly when the
    22 trailing bytes are `D3 14` followed by the hash of prefix ‖ delivered plaintext ‖ `D3 14`. -/
theorem mdc_accept_iff (H : Bytes → Bytes) (pre : Bytes) (st : MDCR) :
    mdcCheck H pre st = .ok ↔ st.trailer = mdcTag ++ H (pre ++ st.hashed ++ mdcTag) := by
  unfold mdcCheck
  constructor
  · intro h
    by_cases h1 : (st.trailer.take 2 != mdcTag) = true
    · rw [if_pos h1] at h; cases h
    · rw [if_neg h1] at h
      by_cases h2 : (H (pre ++ st.hashed ++ mdcTag) != st.trailer.drop 2) = true
      · rw [if_pos h2] at h; cases h
      · have e1 : st.trailer.take 2 = mdcTag := by simpa using h1
        have e2 : H (pre ++ st.hashed ++ mdcTag) = st.trailer.drop 2 := by
          have := h2
          rw [bne_iff_ne] at this
          exact Classical.not_not.mp this
        rw [e2, ← e1, List.take_append_drop]
  · intro h
    have e1 : st.trailer.take 2 = mdcTag := by rw [h]; simp [mdcTag]
    have e2 : st.trailer.drop 2 = H (pre ++ st.hashed ++ mdcTag) := by rw [h]; simp [mdcTag]
    rw [e1, e2]
    simp

/-- what the MDC writer appends is accepted by the reader's check -/
theorem mdc_seal_accepted (H : Bytes → Bytes) (pre pt : Bytes) :
    mdcCheck H pre { trailer := (mdcSeal H pre pt).drop pt.length, hashed := pt } = .ok := by
  have : (mdcSeal H pre pt).drop pt.length = mdcTag ++ H (pre ++ pt ++ mdcTag) := by
    simp [mdcSeal, List.append_assoc]
  rw [this]
  exact (mdc_accept_iff H pre _).2 rfl

end XC.C44
