/-
  C20 — property theorems for OpenPGP S2K (openpgp/s2k/s2k.go).
-/
import XC.Model.C20
import XC.Props.C14
import XC.Prim.Lemmas
namespace XC.C20
open XC.Prim

/-! ### count codec (finite: all 256 count bytes) -/

/-- RFC 4880 §3.7.1.3: count = (16 + (c & 15)) << ((c >> 4) + 6), for every count byte -/
theorem decodeCount_formula (c : UInt8) :
    decodeCount c = (16 + c.toNat % 16) * 2 ^ (c.toNat / 16 + 6) := by
  have h : ∀ i : Fin 256, decodeCount (UInt8.ofNat i.val) = (16 + i.val % 16) * 2 ^ (i.val / 16 + 6) := by
    decide +kernel
  have := h ⟨c.toNat, c.toNat_lt⟩
  simpa using this

/-- the decoded counts are strictly increasing in the count byte -/
theorem decodeCount_strictMono :
    ∀ i : Fin 255, decodeCount (UInt8.ofNat i.val) < decodeCount (UInt8.ofNat (i.val + 1)) := by
  decide +kernel

theorem decodeCount_range : decodeCount 0 = 1024 ∧ decodeCount 96 = 65536 ∧ decodeCount 255 = 65011712 := by
  decide +kernel

/-- encoding a decoded count gives the count byte back, for all 256 bytes -/
theorem encode_decode :
    ∀ i : Fin 256, encodeCount (decodeCount (UInt8.ofNat i.val)) = some (UInt8.ofNat i.val) := by
  decide +kernel

/-- the search returns the first byte ≥ e whose decoded count reaches `i` (if any before e+fuel) -/
theorem encodeSearch_spec (i e fuel : Nat) (k : Nat) (hk1 : e ≤ k) (hk2 : k < e + fuel)
    (hk : decodeCount (UInt8.ofNat k) ≥ i) :
    ∃ r, e ≤ r ∧ r ≤ k ∧ encodeSearch i e fuel = UInt8.ofNat r ∧ decodeCount (UInt8.ofNat r) ≥ i ∧
      ∀ j, e ≤ j → j < r → decodeCount (UInt8.ofNat j) < i := by
  induction fuel generalizing e with
  | zero => omega
  | succ fuel ih =>
    unfold encodeSearch
    by_cases h : decodeCount (UInt8.ofNat e) ≥ i
    · exact ⟨e, Nat.le_refl _, hk1, by simp [h], h, fun j h1 h2 => by omega⟩
    · have hne : e ≠ k := by intro he; subst he; exact h hk
      obtain ⟨r, h1, h2, h3, h4, h5⟩ := ih (e + 1) (by omega) (by omega)
      refine ⟨r, by omega, h2, by simp [h, h3], h4, ?_⟩
      intro j hj1 hj2
      by_cases hje : j = e
      · subst hje; omega
      · exact h5 j (by omega) hj2

/-- **encodeCount is the least count byte whose count is ≥ i**, for every i in [1024, 65011712] -/
theorem decode_encode_ge (i : Int) (h1 : 1024 ≤ i) (h2 : i ≤ 65011712) :
    ∃ r : Nat, r < 256 ∧ encodeCount i = some (UInt8.ofNat r) ∧ (decodeCount (UInt8.ofNat r) : Int) ≥ i ∧
      ∀ j, j < r → (decodeCount (UInt8.ofNat j) : Int) < i := by
  have hk : decodeCount (UInt8.ofNat 255) ≥ i.toNat := by
    have : decodeCount (UInt8.ofNat 255) = 65011712 := by decide +kernel
    rw [this]; omega
  obtain ⟨r, _, hr2, hr3, hr4, hr5⟩ := encodeSearch_spec i.toNat 0 256 255 (by omega) (by omega) hk
  refine ⟨r, by omega, ?_, by omega, ?_⟩
  · unfold encodeCount
    have : ¬ (i < 1024 ∨ i > 65011712) := by omega
    simp only [this, ↓reduceIte, hr3]
  · intro j hj
    have := hr5 j (by omega) hj
    omega

/-- out-of-range arguments panic -/
theorem encodeCount_panic_iff (i : Int) : encodeCount i = none ↔ (i < 1024 ∨ i > 65011712) := by
  unfold encodeCount; split <;> simp_all

/-! ### the iterated byte stream -/

theorem cycleTake_lt (s : Bytes) (n : Nat) (h : n < s.length) : cycleTake s n = s.take n := by
  unfold cycleTake
  rw [Nat.div_eq_of_lt h]
  simp only [Nat.zero_add, List.replicate_one, List.flatten_cons, List.flatten_nil, List.append_nil]

theorem cycleTake_add (s : Bytes) (n : Nat) (hs : 0 < s.length) :
    cycleTake s (n + s.length) = s ++ cycleTake s n := by
  unfold cycleTake
  rw [Nat.add_div_right _ hs, List.replicate_succ, List.flatten_cons, List.take_append,
    List.take_of_length_le (by omega), Nat.add_sub_cancel]

/-- the `written` loop hashes exactly `count − written` bytes of the endless repetition of `combined` -/
theorem iterWritten_eq (combined : Bytes) (count written : Nat) (hs : 0 < combined.length) :
    iterWritten combined count written = some (cycleTake combined (count - written)) := by
  fun_induction iterWritten combined count written with
  | case1 written h =>
    have : count - written = 0 := by omega
    rw [this]; simp [cycleTake]
  | case2 written h h0 => omega
  | case3 written h h0 hgt =>
    rw [cycleTake_lt _ _ (by omega)]
  | case4 written h h0 hgt ih =>
    rw [ih]
    simp only [Option.map_some, Option.some.injEq]
    have : count - written = (count - (written + combined.length)) + combined.length := by omega
    rw [this, cycleTake_add _ _ hs]

/-! ### the hash-context loop -/

/-- D(0) ‖ D(1) ‖ … ‖ D(k-1) -/
def contextsF (D : Nat → Bytes) (k : Nat) : Bytes := ((List.range k).map D).flatten

section ctx
variable (D : Nat → Bytes) (size : Nat) (hsz : ∀ i, (D i).length = size) (hpos : 0 < size)
include hsz

theorem contextsF_length (k : Nat) : (contextsF D k).length = k * size := by
  induction k with
  | zero => simp [contextsF]
  | succ k ih =>
    simp only [contextsF, List.range_succ, List.map_append, List.flatten_append, List.length_append] at ih ⊢
    simp [ih, hsz, Nat.succ_mul]

omit hsz in
theorem contextsF_succ (k : Nat) : contextsF D (k + 1) = contextsF D k ++ D k := by
  simp [contextsF, List.range_succ]

omit hsz in
theorem contextsF_prefix (i k : Nat) (h : i ≤ k) : ∃ rest, contextsF D k = contextsF D i ++ rest := by
  induction k with
  | zero => exact ⟨[], by have : i = 0 := by omega
                          subst this; simp⟩
  | succ k ih =>
    by_cases hi : i = k + 1
    · subst hi; exact ⟨[], by simp⟩
    · obtain ⟨r, hr⟩ := ih (by omega)
      exact ⟨r ++ D k, by rw [contextsF_succ, hr, List.append_assoc]⟩

include hpos

/-- the context loop delivers the first `outLen` bytes of D(0) ‖ D(1) ‖ D(2) ‖ … -/
theorem ctxLoopF_eq (outLen i k : Nat) (hi : i * size ≤ outLen) (hk : outLen ≤ k * size) :
    ctxLoopF D outLen i (contextsF D i) = (contextsF D k).take outLen := by
  induction hn : outLen - i * size using Nat.strongRecOn generalizing i with
  | _ n ih =>
    have hlen := contextsF_length D size hsz i
    have hik : i ≤ k := by
      rcases Nat.lt_or_ge k i with h | h
      · have : (k + 1) * size ≤ i * size := Nat.mul_le_mul_right _ h
        rw [Nat.add_one_mul] at this; omega
      · exact h
    rw [ctxLoopF]
    by_cases hdone : (contextsF D i).length ≥ outLen
    · simp only [hdone, ↓reduceIte]
      obtain ⟨rest, hr⟩ := contextsF_prefix D i k hik
      rw [hr, List.take_append_of_le_length (by omega), List.take_of_length_le (by omega)]
    · simp only [hdone, ↓reduceIte, hsz]
      have hmin : min (outLen - (contextsF D i).length) size ≠ 0 := by omega
      simp only [hmin, ↓reduceDIte]
      by_cases hfull : size ≤ outLen - i * size
      · -- a whole digest fits
        rw [List.take_of_length_le (by rw [hsz, hlen]; exact hfull), ← contextsF_succ]
        exact ih (outLen - (i + 1) * size) (by rw [Nat.add_one_mul]; omega) (i + 1)
          (by rw [Nat.add_one_mul]; omega) rfl
      · -- the last, truncated digest: the next iteration stops
        rw [ctxLoopF]
        have hl2 : (contextsF D i ++ (D i).take (outLen - (contextsF D i).length)).length ≥ outLen := by
          simp only [List.length_append, List.length_take, hsz, hlen]; omega
        simp only [hl2, ↓reduceIte]
        have hik1 : i + 1 ≤ k := by
          rcases Nat.lt_or_ge i k with h | h
          · exact h
          · have : k = i := by omega
            subst this; omega
        obtain ⟨rest, hr⟩ := contextsF_prefix D (i + 1) k hik1
        have hD : (D i).length = size := hsz _
        rw [hr, contextsF_succ,
          List.take_append_of_le_length (by rw [List.length_append, hlen, hD]; omega),
          List.take_append, List.take_of_length_le (l := contextsF D i) (by omega), hlen]

theorem multi_contextF (outLen k : Nat) (hk : outLen ≤ k * size) :
    ctxLoopF D outLen 0 [] = (contextsF D k).take outLen := by
  have := ctxLoopF_eq D size hsz hpos outLen 0 k (by omega) hk
  simpa [contextsF] using this

end ctx

/-- **multi-context rule**: Salted/Iterated output = the first `outLen` bytes of
    H(msg) ‖ H(0x00‖msg) ‖ H(0x00 0x00‖msg) ‖ … (as many contexts as needed) -/
theorem multi_context (H : Bytes → Bytes) (msg : Bytes) (size : Nat) (hsz : ∀ x, (H x).length = size)
    (hpos : 0 < size) (outLen k : Nat) (hk : outLen ≤ k * size) :
    ctxLoop H msg outLen 0 [] = (contexts H msg k).take outLen :=
  multi_contextF (fun i => H (zeros i ++ msg)) size (fun _ => hsz _) hpos outLen k hk

theorem ceil_mul_ge (n s : Nat) (hs : 0 < s) : n ≤ (n + s - 1) / s * s := by
  have h1 := Nat.div_add_mod (n + s - 1) s
  have h2 := Nat.mod_lt (n + s - 1) hs
  have hm : s * ((n + s - 1) / s) = (n + s - 1) / s * s := Nat.mul_comm _ _
  omega

/-- Salted (and Simple, salt = ∅) derive the RFC 4880 §3.7.1.1/2 key -/
theorem salted_eq_spec (a : HashAlg) (ha : a.WellSized) (hs : 0 < a.size) (outLen : Nat) (pw salt : Bytes) :
    saltedKey a outLen pw salt = s2kSpec a (salt ++ pw) outLen := by
  unfold saltedKey s2kSpec
  exact multi_context a.hash _ a.size ha hs outLen _ (ceil_mul_ge _ _ hs)

/-- **Iterated derives the RFC 4880 §3.7.1.3 key**: every context hashes `max count |salt‖pw|` bytes of
    salt‖pw repeated (at least one full pass), and the contexts are prefixed by 0,1,2,… zero bytes -/
theorem iterated_eq_spec (a : HashAlg) (ha : a.WellSized) (hs : 0 < a.size) (outLen : Nat) (pw salt : Bytes)
    (count : Int) (hne : 0 < (salt ++ pw).length) :
    iteratedKey a outLen pw salt count = some (s2kSpec a (iterMessage salt pw count.toNat) outLen) := by
  unfold iteratedKey
  simp only
  rw [iterWritten_eq _ _ _ hne]
  simp only [Option.map_some, Option.some.injEq, Nat.sub_zero]
  have hcnt : (if count < ((salt ++ pw).length : Int) then (salt ++ pw).length else count.toNat) =
      max count.toNat (salt ++ pw).length := by
    split <;> omega
  rw [hcnt]
  unfold s2kSpec iterMessage
  exact multi_context a.hash _ a.size ha hs outLen _ (ceil_mul_ge _ _ hs)

/-! ### the streaming loops (Reset / Write / Sum as called by the Go code) equal the definition -/

theorem sum_write_reset {σ : Type} (alg : XC.C14.MD σ) (m : Bytes) :
    XC.C14.sum alg (XC.C14.write alg (XC.C14.reset alg) m) [] = some (XC.C14.mdHash alg m) := by
  rw [← XC.C14.stateOf_nil, XC.C14.write_stateOf, List.nil_append, XC.C14.sum_stateOf]; simp

/-- feeding the passes to `Write` one by one reaches the state of "everything written so far" -/
theorem iterStream_eq {σ : Type} (alg : XC.C14.MD σ) (combined : Bytes) (count written : Nat)
    (d : XC.C14.Digest σ) (m : Bytes) (hd : d = XC.C14.stateOf alg m) (hs : 0 < combined.length) :
    iterStream alg combined count written d =
      some (XC.C14.stateOf alg (m ++ cycleTake combined (count - written))) := by
  fun_induction iterStream alg combined count written d generalizing m with
  | case1 written d h =>
    have : count - written = 0 := by omega
    rw [this, hd]; simp [cycleTake]
  | case2 written d h h0 => omega
  | case3 written d h h0 hgt =>
    rw [hd, XC.C14.write_stateOf, cycleTake_lt _ _ (by omega)]
  | case4 written d h h0 hgt ih =>
    rw [ih (m ++ combined) (by rw [hd, XC.C14.write_stateOf])]
    have : count - written = (count - (written + combined.length)) + combined.length := by omega
    rw [this, cycleTake_add _ _ hs, List.append_assoc]

/-- one streamed context = the hash of `0^i ‖ (count bytes of the repeated salt‖passphrase)` -/
theorem streamCtx_eq {σ : Type} (alg : XC.C14.MD σ) (combined : Bytes) (cnt i : Nat) (hs : 0 < combined.length) :
    streamCtx alg combined cnt i = some (XC.C14.mdHash alg (zeros i ++ cycleTake combined cnt)) := by
  unfold streamCtx
  rw [iterStream_eq alg _ _ _ _ (zeros i) (by rw [← XC.C14.stateOf_nil, XC.C14.write_stateOf, List.nil_append]) hs]
  simp only [Option.bind_some, Nat.sub_zero]
  rw [XC.C14.sum_stateOf]; simp

/-- **the streaming evaluation of Iterated (no `count`-byte message in memory) is `iteratedKey`** for
    RIPEMD-160, every salt/passphrase/count/key length -/
theorem iteratedKeyStream_eq (outLen : Nat) (pw salt : Bytes) (count : Int) :
    iteratedKeyStream XC.C14.Rmd.alg outLen pw salt count = iteratedKey algRipemd160 outLen pw salt count := by
  unfold iteratedKeyStream iteratedKey
  simp only
  by_cases h0 : (salt ++ pw).length = 0
  · -- empty salt‖passphrase
    have hnil : salt ++ pw = [] := List.eq_nil_of_length_eq_zero h0
    simp only [hnil, List.length_nil, Int.natCast_zero] at *
    by_cases hc : count < 0
    · simp only [hc, ↓reduceIte, Nat.lt_irrefl, and_false]
      rw [iterWritten]; simp [ctxLoop, streamCtx, iterStream]
      congr 1
      funext i
      rw [sum_write_reset]; rfl
    · simp only [hc, ↓reduceIte]
      by_cases hz : count.toNat = 0
      · simp only [hz, Nat.lt_irrefl, and_false, ↓reduceIte]
        rw [iterWritten]; simp [ctxLoop, streamCtx, iterStream]
        congr 1
        funext i
        rw [sum_write_reset]; rfl
      · have : 0 < count.toNat := by omega
        simp only [this, and_self, ↓reduceIte]
        rw [iterWritten]; simp [hz]
  · have hs : 0 < (salt ++ pw).length := by omega
    have : ¬ ((salt ++ pw).length = 0 ∧
        0 < (if count < ((salt ++ pw).length : Int) then (salt ++ pw).length else count.toNat)) := by
      intro h; exact h0 h.1
    simp only [this, ↓reduceIte]
    rw [iterWritten_eq _ _ _ hs]
    simp only [Option.map_some, Nat.sub_zero, Option.some.injEq, ctxLoop]
    congr 1
    funext i
    rw [streamCtx_eq _ _ _ _ hs]
    rfl

/-- the driver's fast path computes the same function as `Spec.derive` -/
theorem derive_fast_eq (s : Spec) (pw : Bytes) (outLen : Nat) : s.deriveFast pw outLen = s.derive pw outLen := by
  unfold Spec.deriveFast
  split
  · rename_i salt c
    rw [iteratedKeyStream_eq]
    rfl
  · rfl

/-! ### Parse / Serialize -/

/-- Parse is canonical: whatever it accepts is exactly an encoded specifier followed by the unread rest -/
theorem parse_sound (bs : Bytes) (s : Spec) (rest : Bytes) (h : parse bs = .ok (s, rest)) :
    bs = s.encode ++ rest := by
  cases bs with
  | nil => simp [parse] at h
  | cons mode t =>
  cases t with
  | nil => simp [parse] at h
  | cons hid r =>
    simp only [parse] at h
    cases hh : hashOfId hid with
    | none => simp [hh] at h
    | some a =>
      simp only [hh] at h
      by_cases h0 : mode = 0
      · simp only [h0, ↓reduceIte, Except.ok.injEq, Prod.mk.injEq] at h
        obtain ⟨rfl, rfl⟩ := h
        simp [Spec.encode, h0]
      · by_cases h1 : mode = 1
        · have e : (1 : UInt8) ≠ 0 := by decide
          simp only [h1, e, ↓reduceIte] at h
          split at h
          · cases h
          · simp only [Except.ok.injEq, Prod.mk.injEq] at h
            obtain ⟨rfl, rfl⟩ := h
            simp [Spec.encode, h1]
        · by_cases h3 : mode = 3
          · have e1 : (3 : UInt8) ≠ 0 := by decide
            have e2 : (3 : UInt8) ≠ 1 := by decide
            simp only [h3, e1, e2, ↓reduceIte] at h
            split at h
            · cases h
            · rename_i hl
              simp only [Except.ok.injEq, Prod.mk.injEq] at h
              obtain ⟨rfl, rfl⟩ := h
              simp only [Spec.encode, h3, List.cons_append, List.nil_append, List.append_assoc, List.cons.injEq,
                true_and]
              have h9 : 8 < r.length := by omega
              conv => lhs; rw [← List.take_append_drop 8 r]
              congr 1
              rw [List.drop_eq_getElem_cons h9]
              simp [List.getD, List.getElem?_eq_getElem h9]
          · simp [h0, h1, h3] at h

/-- … and every well-formed specifier (supported hash, 8-byte salt) parses back to itself -/
theorem parse_encode (s : Spec) (rest : Bytes)
    (hs : match s with
      | .simple hid => (hashOfId hid).isSome
      | .salted hid salt => (hashOfId hid).isSome ∧ salt.length = 8
      | .iterated hid salt _ => (hashOfId hid).isSome ∧ salt.length = 8) :
    parse (s.encode ++ rest) = .ok (s, rest) := by
  cases s with
  | simple hid =>
    simp only at hs
    obtain ⟨a, ha⟩ := Option.isSome_iff_exists.mp hs
    simp [Spec.encode, parse, ha]
  | salted hid salt =>
    obtain ⟨h1, h2⟩ := hs
    obtain ⟨a, ha⟩ := Option.isSome_iff_exists.mp h1
    have e : (1 : UInt8) ≠ 0 := by decide
    simp only [Spec.encode, parse, List.cons_append, List.nil_append, ha, e, ↓reduceIte, List.length_append, h2]
    have : ¬ (8 + rest.length < 8) := by omega
    simp only [this, ↓reduceIte]
    rw [List.take_append_of_le_length (by omega), List.take_of_length_le (by omega), ← h2, List.drop_left]
  | iterated hid salt c =>
    obtain ⟨h1, h2⟩ := hs
    obtain ⟨a, ha⟩ := Option.isSome_iff_exists.mp h1
    have e1 : (3 : UInt8) ≠ 0 := by decide
    have e2 : (3 : UInt8) ≠ 1 := by decide
    simp only [Spec.encode, parse, List.cons_append, List.nil_append, List.append_assoc, ha, e1, e2, ↓reduceIte,
      List.length_append, h2, List.length_cons]
    have : ¬ (8 + (rest.length + 1) < 9) := by omega
    simp only [this, ↓reduceIte]
    have ht : (salt ++ c :: rest).take 8 = salt := by
      rw [List.take_append_of_le_length (by omega), List.take_of_length_le (by omega)]
    have hg : (salt ++ c :: rest).getD 8 0 = c := by
      simp [List.getD, h2]
    have hd : (salt ++ c :: rest).drop 9 = rest := by
      rw [List.drop_append, h2]
      simp [List.drop_eq_nil_of_le (by omega : salt.length ≤ 9)]
    rw [ht, hg, hd]

theorem configCount_isSome (cfg : Option Int) : (configCount cfg).isSome := by
  unfold configCount
  split
  · rfl
  · rfl
  · rename_i i _
    simp only
    have : ∀ j : Int, 1024 ≤ j → j ≤ 65011712 → (encodeCount j).isSome := by
      intro j h1 h2
      obtain ⟨r, _, hr, _⟩ := decode_encode_ge j h1 h2
      simp [hr]
    split
    · exact this _ (by omega) (by omega)
    · split
      · exact this _ (by omega) (by omega)
      · exact this _ (by omega) (by omega)

/-- **Serialize output parses back to the same function**: the 11 bytes written by Serialize are
    accepted by Parse (nothing left over) and the parsed function derives the very key Serialize
    returned, for every supported hash, salt, config count, passphrase and key length. Serialize never
    panics on the count. -/
theorem parse_serialize (hid : UInt8) (rnd : Bytes) (cfg : Option Int) (pw : Bytes) (n : Nat)
    (hh : (hashOfId hid).isSome) (hr : 8 ≤ rnd.length) :
    ∃ hdr key s, serialize hid rnd cfg pw n = .ok (some (hdr, key)) ∧ hdr.length = 11 ∧
      parse hdr = .ok (s, []) ∧ s.derive pw n = some key := by
  obtain ⟨a, ha⟩ := Option.isSome_iff_exists.mp hh
  obtain ⟨c, hc⟩ := Option.isSome_iff_exists.mp (configCount_isSome cfg)
  have hsalt : (rnd.take 8).length = 8 := by simp; omega
  have hne : 0 < (rnd.take 8 ++ pw).length := by simp; omega
  have hit : ∃ key, iteratedKey a n pw (rnd.take 8) (decodeCount c) = some key := by
    unfold iteratedKey
    simp only
    rw [iterWritten_eq _ _ _ hne]
    exact ⟨_, rfl⟩
  obtain ⟨key, hkey⟩ := hit
  refine ⟨Spec.encode (.iterated hid (rnd.take 8) c), key, .iterated hid (rnd.take 8) c, ?_, ?_, ?_, ?_⟩
  · unfold serialize
    have : ¬ rnd.length < 8 := by omega
    simp only [this, ↓reduceIte, hc, ha, hkey, Option.map_some]
  · simp [Spec.encode, hsalt]
  · have := parse_encode (.iterated hid (rnd.take 8) c) [] ⟨hh, hsalt⟩
    simpa using this
  · simp only [Spec.derive, ha, Option.bind_some, hkey]

/-! ### the hash-id tables -/

/-- the three lookup functions are mutually consistent and agree with the set of hashes Parse accepts:
    for all 256 ids, HashIdToHash succeeds iff HashIdToString succeeds iff Parse knows the hash, and
    HashToHashId inverts HashIdToHash -/
theorem idTable_consistent : ∀ i : Fin 256,
    ((hashIdToHash (UInt8.ofNat i.val)).isSome = (hashOfId (UInt8.ofNat i.val)).isSome) ∧
    ((hashIdToString (UInt8.ofNat i.val)).isSome = (hashOfId (UInt8.ofNat i.val)).isSome) ∧
    ((hashIdToHash (UInt8.ofNat i.val)).all fun h => hashToHashId h == some (UInt8.ofNat i.val)) = true := by
  decide +kernel

/-! ### Parse followed by the returned function = RFC 4880 §3.7.1 -/

theorem algRipemd160_wellSized : algRipemd160.WellSized := XC.C14.ripemd160_size

/-- every supported hash id names a hash with a fixed, positive digest size -/
theorem hashOfId_good (id : UInt8) (a : HashAlg) (h : hashOfId id = some a) : a.WellSized ∧ 0 < a.size := by
  unfold hashOfId at h
  split at h
  · cases h; exact ⟨algMd5_wellSized, Nat.lt_of_sub_eq_succ rfl⟩
  split at h
  · cases h; exact ⟨algSha1_wellSized, Nat.lt_of_sub_eq_succ rfl⟩
  split at h
  · cases h; exact ⟨algRipemd160_wellSized, Nat.lt_of_sub_eq_succ rfl⟩
  split at h
  · cases h; exact ⟨algSha256_wellSized, Nat.lt_of_sub_eq_succ rfl⟩
  split at h
  · cases h; exact ⟨algSha384_wellSized, Nat.lt_of_sub_eq_succ rfl⟩
  split at h
  · cases h; exact ⟨algSha512_wellSized, Nat.lt_of_sub_eq_succ rfl⟩
  split at h
  · cases h; exact ⟨algSha224_wellSized, Nat.lt_of_sub_eq_succ rfl⟩
  · cases h

/-- **the function returned by Parse derives the RFC 4880 key**, for the three specifier kinds, any
    supported hash, any count byte, any passphrase and key length:
    simple  → first n bytes of H(pw) ‖ H(0‖pw) ‖ …;
    salted  → the same over salt ‖ pw;
    iterated → the same over `decodeCount c` octets (at least one full pass) of salt ‖ pw repeated. -/
theorem derive_eq_spec (hid : UInt8) (a : HashAlg) (ha : hashOfId hid = some a) (salt pw : Bytes) (c : UInt8)
    (n : Nat) :
    (Spec.simple hid).derive pw n = some (s2kSpec a pw n) ∧
    (Spec.salted hid salt).derive pw n = some (s2kSpec a (salt ++ pw) n) ∧
    (0 < salt.length → (Spec.iterated hid salt c).derive pw n =
        some (s2kSpec a (iterMessage salt pw (decodeCount c)) n)) := by
  obtain ⟨hw, hs⟩ := hashOfId_good hid a ha
  refine ⟨?_, ?_, ?_⟩
  · simp only [Spec.derive, ha, Option.map_some, Option.some.injEq]
    have := salted_eq_spec a hw hs n pw []
    simpa using this
  · simp only [Spec.derive, ha, Option.map_some, Option.some.injEq]
    exact salted_eq_spec a hw hs n pw salt
  · intro hl
    simp only [Spec.derive, ha, Option.bind_some]
    have := iterated_eq_spec a hw hs n pw salt (decodeCount c) (by simp; omega)
    simpa using this

/-- Parse ∘ encode ∘ derive: an encoded iterated specifier (8-byte salt) followed by any trailing bytes
    parses and derives the RFC key -/
theorem parse_then_derive (hid : UInt8) (a : HashAlg) (ha : hashOfId hid = some a) (salt pw rest : Bytes)
    (c : UInt8) (n : Nat) (hl : salt.length = 8) :
    ∃ s, parse (Spec.encode (.iterated hid salt c) ++ rest) = .ok (s, rest) ∧
      s.derive pw n = some (s2kSpec a (iterMessage salt pw (decodeCount c)) n) :=
  ⟨_, parse_encode (.iterated hid salt c) rest ⟨by simp [ha], hl⟩,
    (derive_eq_spec hid a ha salt pw c n).2.2 (by omega)⟩

/-- non-vacuity: SHA-1 (id 2) is a supported hash; the default count byte 96 decodes to 65536 -/
example : hashOfId 2 = some algSha1 ∧ decodeCount 96 = 65536 := ⟨rfl, by decide +kernel⟩

/-- non-vacuity: a specifier that parses (one trailing byte left unread), one with an unsupported
    hash id, a truncated one -/
example : parse [3, 2, 1, 2, 3, 4, 5, 6, 7, 8, 96, 0xaa] =
      .ok (.iterated 2 [1, 2, 3, 4, 5, 6, 7, 8] 96, [0xaa]) := by rfl
example : parse [3, 4, 1, 2, 3, 4, 5, 6, 7, 8, 96] = .error .unsupported := by rfl
example : parse [3, 2, 1, 2, 3, 4, 5, 6, 7, 8] = .error .eof := by rfl

end XC.C20
