/-
  C25 — property theorems (statements over XC.Model.C25; proofs in XC.Proofs.C25_*).

  Statement: for every cipher × MAC pair and every payload sequence a reader keyed like the writer returns
  exactly the written payloads in order, sequence numbers increment (and wrap) per packet; every written
  packet is `length ‖ padding_length ‖ payload ‖ padding` with ≥ 4 padding bytes and the required alignment,
  encrypted / authenticated as RFC 4253 / 4344 / 5647 / openssh PROTOCOL.chacha20poly1305 prescribe.

  The primitives are abstract (universally quantified) with exactly the algebraic facts used:
    stream modes  — none beyond "the MAC has the advertised size" (XOR with a keystream is an involution);
    GCM           — Open (Seal x) = x and |Seal x| = |x| + 16;
    CBC           — Dec (Enc b) = b and |Enc b| = bs on blocks, bs ∈ {8, 16};
    ChaCha20/Poly — the keystream function returns the requested length, tags are 16 bytes.
-/
import XC.Proofs.C25_Seq
import XC.Proofs.C25_KeyMat
namespace XC.C25
open XC.C24 (be32_u32be u32be_length)

/-! ## framing (RFC 4253 §6): padding length and alignment, all modes -/

/-- 4 ≤ padding_length ≤ 255 in every mode, and the part of the packet the block alignment is computed
    over is a multiple of max(8, block size):
    stream (packetSizeMultiple 16; EtM excludes the 4 length bytes), GCM (excludes the length = AAD),
    chacha20-poly1305 (8; excludes the length), CBC (max(8, bs); whole packet, ≥ 16 bytes). -/
theorem framing (n : Nat) :
    (∀ aadlen, aadlen ≤ 4 →
      4 ≤ streamPadLen n aadlen ∧ streamPadLen n aadlen ≤ 255 ∧ (4 + 1 + n + streamPadLen n aadlen - aadlen) % 16 = 0) ∧
    (4 ≤ gcmPadLen n ∧ gcmPadLen n ≤ 255 ∧ (1 + n + gcmPadLen n) % 16 = 0) ∧
    (4 ≤ chaPadLen n ∧ chaPadLen n ≤ 255 ∧ (1 + n + chaPadLen n) % 8 = 0) ∧
    (∀ bs, bs = 8 ∨ bs = 16 →
      4 ≤ cbcEncLen bs n - 4 - (1 + n) ∧ cbcEncLen bs n - 4 - (1 + n) ≤ 255 ∧
      cbcEncLen bs n % (max 8 bs) = 0 ∧ 16 ≤ cbcEncLen bs n ∧
      cbcEncLen bs n = 4 + 1 + n + (cbcEncLen bs n - 4 - (1 + n))) := by
  refine ⟨fun a ha => ?_, ?_, ?_, fun bs hbs => ?_⟩
  · have := streamPadLen_spec n a ha; omega
  · have := gcmPadLen_spec n; omega
  · have := chaPadLen_spec n; omega
  · have := cbcEncLen_spec bs n hbs
    simp only at this
    omega

/-- what each writer puts on the wire, as the one-line descriptions of the RFCs (the Go-shaped writers of
    the model — several XORKeyStream calls, MAC fed in pieces — equal them):
    * encrypt-and-MAC:  `enc(pkt) ‖ MAC(seq ‖ pkt)`
    * EtM:              `len ‖ enc(pkt[4:]) ‖ MAC(seq ‖ len ‖ enc(pkt[4:]))`
    with `pkt = len ‖ padlen ‖ payload ‖ padding`, `len = 1 + |payload| + |padding|` -/
theorem stream_writer_is_rfc (c : StreamCfg) (st : St) (seq : UInt32) (payload rnd : Bytes) (padLen : Nat)
    (hP : streamPadLen payload.length (if c.etmOn then 4 else 0) = padLen)
    (hmax : payload.length ≤ maxPacket) (hrnd : padLen ≤ rnd.length) :
    streamWrite c st seq payload rnd =
      .ok (streamWriteSpec c st seq payload (rnd.take padLen),
           ⟨st.pos + (if c.etmOn then 1 else 5) + payload.length + padLen, st.iv⟩, rnd.drop padLen) :=
  streamWrite_eq_spec c st seq payload rnd padLen hP hmax hrnd

/-- the MAC input: E&M over `seq ‖ unencrypted packet`, EtM over `seq ‖ len ‖ ciphertext` -/
theorem mac_input (c : StreamCfg) (st : St) (seq : UInt32) (payload padding : Bytes) :
    streamWriteSpec c st seq payload padding =
      if c.etmOn then
        let body := (binaryPacket payload padding).take 4 ++ xorAt c.ks st.pos ((binaryPacket payload padding).drop 4)
        body ++ c.tag (u32be seq ++ body)
      else
        xorAt c.ks st.pos (binaryPacket payload padding) ++ c.tag (u32be seq ++ binaryPacket payload padding) := rfl

/-! ## read ∘ write = id, any packet sequence, any mode -/

/-- the property's round-trip clause: see `read_write_all` (Proofs/C25_Seq) -/
theorem roundtrip (m : Mode) (hm : m.OK) (ps : List Bytes) (c : Conn) (rnd tl : Bytes) (wires : List Bytes) (cw : Conn)
    (hst : m.StOK c.st) (hfit : ∀ p ∈ ps, m.fits p) (hw : writeAll m c rnd ps = (wires.map .ok, cw)) :
    readAll m ps.length c (wires.flatten ++ tl) =
      ((ps.zip wires).map (fun pw => (.ok pw.1, pw.2.length)), cw) :=
  read_write_all m hm ps c rnd tl wires cw hst hfit hw

/-- payload sizes covered by `roundtrip`: at least 1 … maxPacket − 32 in every mode -/
theorem roundtrip_range (m : Mode) (hm : m.OK) (p : Bytes) (h1 : 1 ≤ p.length) (h2 : p.length + 32 ≤ maxPacket) :
    m.fits p := fits_of_le m hm p h1 h2

/-- sequence numbers: after k written packets the counter is (s0 + k) mod 2^32 -/
theorem seq_wraps (m : Mode) (ps : List Bytes) (c : Conn) (rnd : Bytes) (wires : List Bytes) (cw : Conn)
    (hw : writeAll m c rnd ps = (wires.map .ok, cw)) :
    cw.seq.toNat = (c.seq.toNat + ps.length) % 4294967296 := by
  rw [writeAll_seq m ps c rnd wires cw hw, u32_add_ofNat_toNat]

/-- … and the reader's counter advances once per read call, error or not -/
theorem reader_seq_wraps (m : Mode) (n : Nat) (c : Conn) (inp : Bytes) :
    (readAll m n c inp).2.seq.toNat = (c.seq.toNat + (readAll m n c inp).1.length) % 4294967296 := by
  rw [readAll_seq, u32_add_ofNat_toNat]

example : (UInt32.ofNat 4294967295 + UInt32.ofNat 2).toNat = 1 := by decide

/-! ## the region above maxPacket − padding: written, but refused by the package's own reader -/

/-- streamPacketCipher accepts payloads up to maxPacket bytes but its reader refuses a `packet_length`
    (= 1 + payload + padding) above maxPacket: every payload the writer accepts whose packet_length exceeds
    maxPacket is rejected with a length error by a reader keyed alike.  (`roundtrip` therefore carries the
    hypothesis `fits`; the statement's range "1..maxPacket" is not met in the last ≤ 20 bytes.) -/
theorem stream_oversize_rejected (c : StreamCfg) (st : St) (seq : UInt32) (payload rnd tl : Bytes)
    (wire : Bytes) (st' : St) (rnd' : Bytes)
    (hover : payload.length + 1 + streamPadLen payload.length (if c.etmOn then 4 else 0) > maxPacket)
    (hw : streamWrite c st seq payload rnd = .ok (wire, st', rnd')) :
    (streamRead c st seq (wire ++ tl)).res = .error .len := by
  have hpad := streamPadLen_spec payload.length (if c.etmOn then 4 else 0) (by split <;> omega)
  obtain ⟨padLen, hP⟩ : ∃ p, streamPadLen payload.length (if c.etmOn then 4 else 0) = p := ⟨_, rfl⟩
  rw [hP] at hpad hover
  have hmaxP : maxPacket = 262144 := rfl
  have hmax : payload.length ≤ maxPacket := by
    by_cases h : payload.length > maxPacket
    · simp [streamWrite, h] at hw
    · omega
  by_cases hr : rnd.length < padLen
  · exfalso
    unfold streamWrite at hw
    have h1 : ¬ payload.length > maxPacket := by omega
    simp only [h1, if_false, hP, hr, if_true] at hw
    cases hw
  rw [streamWrite_eq_spec c st seq payload rnd padLen hP hmax (by omega)] at hw
  simp only [Except.ok.injEq, Prod.mk.injEq] at hw
  obtain ⟨hwire, _, _⟩ := hw
  obtain ⟨padding, hpd, hpl⟩ : ∃ padding, rnd.take padLen = padding ∧ padding.length = padLen :=
    ⟨_, rfl, by simp; omega⟩
  rw [hpd] at hwire
  have hlen32 : (UInt32.ofNat (payload.length + 1 + padLen)).toNat = payload.length + 1 + padLen :=
    ofNat_toNat_u32' _ (by omega)
  have hpad8 : (UInt8.ofNat padLen).toNat = padLen := ofNat_toNat_u8' _ (by omega)
  obtain ⟨lenBytes, hL, hL4⟩ : ∃ lb, u32be (UInt32.ofNat (payload.length + 1 + padLen)) = lb ∧ lb.length = 4 :=
    ⟨_, rfl, u32be_length _⟩
  have hbe : ∀ x, (be32 (lenBytes ++ x)).toNat = payload.length + 1 + padLen := by
    intro x; rw [← hL, be32_u32be, hlen32]
  have hget : (lenBytes ++ [UInt8.ofNat padLen]).getD 4 0 = UInt8.ofNat padLen := by
    rw [List.getD_eq_getElem?_getD, List.getElem?_append_right (by omega)]; simp [hL4]
  have hn1 : 1 ≤ payload.length := by omega
  have hc1 : ¬ payload.length + 1 + padLen ≤ padLen + 1 := by omega
  have hc2 : payload.length + 1 + padLen > maxPacket := hover
  simp only [streamWriteSpec, binaryPacket, hpl, hL] at hwire
  by_cases he : c.etmOn
  · simp only [he, if_true] at hwire
    have ht : List.take 4 (lenBytes ++ [UInt8.ofNat padLen] ++ payload ++ padding) = lenBytes := by
      simp only [List.append_assoc]; exact List.take_left' hL4
    have hd : List.drop 4 (lenBytes ++ [UInt8.ofNat padLen] ++ payload ++ padding) =
        [UInt8.ofNat padLen] ++ (payload ++ padding) := by
      simp only [List.append_assoc]; exact List.drop_left' hL4
    rw [ht, hd, xorAt_append] at hwire
    obtain ⟨p4, hp4, hp4l⟩ : ∃ x, xorAt c.ks st.pos [UInt8.ofNat padLen] = x ∧ x.length = 1 :=
      ⟨_, rfl, by rw [xorAt_length]; rfl⟩
    rw [hp4] at hwire
    obtain ⟨R, hR⟩ : ∃ r, xorAt c.ks (st.pos + [UInt8.ofNat padLen].length) (payload ++ padding) ++
        c.tag (u32be seq ++ (lenBytes ++ (p4 ++ xorAt c.ks (st.pos + [UInt8.ofNat padLen].length) (payload ++ padding)))) ++ tl = r :=
      ⟨_, rfl⟩
    have hw2 : wire ++ tl = (lenBytes ++ p4) ++ R := by rw [← hwire, ← hR]; simp
    rw [hw2]
    unfold streamRead
    have hlen5 : ¬ ((lenBytes ++ p4) ++ R).length < 5 := by simp; omega
    have hpre : ((lenBytes ++ p4) ++ R).take 5 = lenBytes ++ p4 := List.take_left' (by simp; omega)
    have htk4 : (lenBytes ++ p4).take 4 = lenBytes := List.take_left' hL4
    have hdr4 : (lenBytes ++ p4).drop 4 = p4 := List.drop_left' hL4
    have hdec4 : xorAt c.ks st.pos p4 = [UInt8.ofNat padLen] := by rw [← hp4, xorAt_involutive]
    simp only [hlen5, if_false, hpre, he, if_true, htk4, hdr4, hdec4, hbe, hget, hpad8, hc1, hc2]
  · simp only [he, Bool.false_eq_true, if_false] at hwire
    have hsplit : lenBytes ++ [UInt8.ofNat padLen] ++ payload ++ padding =
        (lenBytes ++ [UInt8.ofNat padLen]) ++ (payload ++ padding) := by simp
    rw [hsplit, xorAt_append] at hwire
    have h5 : (lenBytes ++ [UInt8.ofNat padLen]).length = 5 := by simp [hL4]
    obtain ⟨EPre, hEPre, hEPrel⟩ : ∃ x, xorAt c.ks st.pos (lenBytes ++ [UInt8.ofNat padLen]) = x ∧ x.length = 5 :=
      ⟨_, rfl, by rw [xorAt_length, h5]⟩
    rw [hEPre] at hwire
    obtain ⟨R, hR⟩ : ∃ r, xorAt c.ks (st.pos + (lenBytes ++ [UInt8.ofNat padLen]).length) (payload ++ padding) ++
        c.tag (u32be seq ++ ((lenBytes ++ [UInt8.ofNat padLen]) ++ (payload ++ padding))) ++ tl = r := ⟨_, rfl⟩
    have hw2 : wire ++ tl = EPre ++ R := by rw [← hwire, ← hR]; simp
    rw [hw2]
    unfold streamRead
    have hlen5 : ¬ (EPre ++ R).length < 5 := by simp; omega
    have hpre : (EPre ++ R).take 5 = EPre := List.take_left' hEPrel
    have hdecp : xorAt c.ks st.pos EPre = lenBytes ++ [UInt8.ofNat padLen] := by
      rw [← hEPre, xorAt_involutive]
    simp only [hlen5, if_false, hpre, he, Bool.false_eq_true, hdecp, hbe, hget, hpad8, hc1, hc2, if_true]

/-- the negation of the statement's range at its upper end, for the model of the code as it is: a payload of
    exactly maxPacket bytes is written without error by streamPacketCipher (every stream cipher, every MAC,
    EtM or not, also the initial `none` cipher) and rejected by a reader keyed alike -/
theorem maxPacket_payload_rejected (c : StreamCfg) (st : St) (seq : UInt32) (payload rnd tl : Bytes)
    (hlen : payload.length = maxPacket) (hrnd : 32 ≤ rnd.length) :
    ∃ wire st' rnd', streamWrite c st seq payload rnd = .ok (wire, st', rnd') ∧
      (streamRead c st seq (wire ++ tl)).res = .error .len := by
  have hpad := streamPadLen_spec payload.length (if c.etmOn then 4 else 0) (by split <;> omega)
  have hw := streamWrite_eq_spec c st seq payload rnd _ rfl (by omega) (by omega)
  exact ⟨_, _, _, hw, stream_oversize_rejected c st seq payload rnd tl _ _ _ (by omega) hw⟩

/-- a concrete witness against "payloads of 1..maxPacket bytes round-trip": the cipher a transport starts
    with (`none`, no MAC), one payload of maxPacket zero bytes -/
theorem range_counterexample :
    ∃ (c : StreamCfg) (payload rnd wire : Bytes) (st' : St) (rnd' : Bytes),
      c.OK ∧ 1 ≤ payload.length ∧ payload.length ≤ maxPacket ∧
      streamWrite c ⟨0, []⟩ 0 payload rnd = .ok (wire, st', rnd') ∧
      (streamRead c ⟨0, []⟩ 0 wire).res = .error .len := by
  let c : StreamCfg := ⟨fun _ => 0, none, 0, false⟩
  have hl : (zeros maxPacket).length = maxPacket := by simp [zeros]
  obtain ⟨wire, st', rnd', hw, hr⟩ :=
    maxPacket_payload_rejected c ⟨0, []⟩ 0 (zeros maxPacket) (zeros 32) [] hl (by simp [zeros])
  rw [List.append_nil] at hr
  refine ⟨c, zeros maxPacket, zeros 32, wire, st', rnd', ?_, ?_, ?_, hw, hr⟩
  · intro m hm; simp [c] at hm
  · rw [hl]; decide
  · rw [hl]; exact Nat.le_refl _

/-- the same at the AEAD modes' header: GCM — a written packet whose packet_length exceeds maxPacket is refused -/
theorem gcm_oversize_rejected (c : AeadCfg) (st : St) (payload rnd tl wire : Bytes) (st' : St) (rnd' : Bytes)
    (hover : payload.length + gcmPadLen payload.length + 1 > maxPacket) (h32 : payload.length + 32 < 4294967296)
    (hw : gcmWrite c st payload rnd = .ok (wire, st', rnd')) :
    (gcmRead c st (wire ++ tl)).res = .error .len := by
  have hpad := gcmPadLen_spec payload.length
  by_cases hr : rnd.length < gcmPadLen payload.length
  · simp [gcmWrite, hr] at hw
  rw [gcmWrite_eq_spec c st payload rnd (by omega)] at hw
  simp only [Except.ok.injEq, Prod.mk.injEq] at hw
  obtain ⟨hwire, _, _⟩ := hw
  have hpl : (rnd.take (gcmPadLen payload.length)).length = gcmPadLen payload.length := by simp; omega
  rw [hpl] at hwire
  obtain ⟨pfx, hL, hL4⟩ : ∃ lb, u32be (UInt32.ofNat (payload.length + gcmPadLen payload.length + 1)) = lb ∧ lb.length = 4 :=
    ⟨_, rfl, u32be_length _⟩
  have hbe : (be32 pfx).toNat = payload.length + gcmPadLen payload.length + 1 := by
    have := be32_u32be (UInt32.ofNat (payload.length + gcmPadLen payload.length + 1)) []
    rw [List.append_nil, hL] at this
    rw [this, ofNat_toNat_u32' _ (by omega)]
  rw [hL] at hwire
  subst hwire
  unfold gcmRead
  have h4 : ¬ (pfx ++ c.sealF st.iv pfx ([UInt8.ofNat (gcmPadLen payload.length)] ++ payload ++
      List.take (gcmPadLen payload.length) rnd) ++ tl).length < 4 := by simp; omega
  have htk : (pfx ++ c.sealF st.iv pfx ([UInt8.ofNat (gcmPadLen payload.length)] ++ payload ++
      List.take (gcmPadLen payload.length) rnd) ++ tl).take 4 = pfx := by
    rw [List.append_assoc]; exact List.take_left' hL4
  have hbig : (be32 pfx).toNat > maxPacket := by rw [hbe]; exact hover
  simp only [h4, if_false, htk, hbig, if_true]

/-! ## GCM invocation counter, ChaCha20-Poly1305 nonce -/

/-- RFC 5647 §7.1: incIV = +1 mod 2^64 on the big-endian invocation counter (bytes 4..11) -/
theorem incIV_is_plus_one (iv : Bytes) (h : iv.length = 12) :
    (incIV iv).take 4 = iv.take 4 ∧
    natOfBE (((incIV iv).drop 4).take 8) = (natOfBE ((iv.drop 4).take 8) + 1) % 2 ^ 64 ∧
    (incIV iv).length = 12 := incIV_eq iv h

example : incIV [1, 2, 3, 4, 0, 0, 0, 0, 0, 0, 0xff, 0xff] = [1, 2, 3, 4, 0, 0, 0, 0, 0, 1, 0, 0] ∧
    incIV [1, 2, 3, 4, 0xff, 0xff, 0xff, 0xff, 0xff, 0xff, 0xff, 0xff] = [1, 2, 3, 4, 0, 0, 0, 0, 0, 0, 0, 0] := by
  decide

/-- nonce = be64(sequence number) -/
theorem chacha_nonce_is_seq (seq : UInt32) : chaNonce seq = zeros 4 ++ u64be seq.toUInt64 := chaNonce_eq seq

/-! ## non-vacuity: the hypotheses on the abstract primitives are satisfiable, and a concrete history -/

/-- identity "ciphers": enough to show that every `OK` predicate has a model -/
def toyStream : StreamCfg := ⟨fun i => UInt8.ofNat (7 * i + 3), some (fun x => (x.take 2 ++ [0, 0]).take 2), 2, true⟩
def toyCbc : CbcCfg := ⟨8, fun b => b.map (· + 1), fun b => b.map (· - 1), fun _ => [9], 1⟩
def toyAead : AeadCfg := ⟨fun _ _ pt => pt ++ zeros 16, fun _ _ c => some (c.take (c.length - 16))⟩
def toyCha : ChaCfg := ⟨fun _ _ _ n => zeros n, fun _ _ => zeros 16, [], []⟩

example : toyStream.OK := by
  intro m hm x
  simp only [toyStream, Option.some.injEq] at hm
  subst hm
  show ((x.take 2 ++ [0, 0]).take 2).length = 2
  simp

example : toyCbc.OK := by
  refine ⟨Or.inl rfl, ?_, ?_, ?_⟩
  · intro b _
    simp only [toyCbc, List.map_map]
    have : ((fun x : UInt8 => x - 1) ∘ fun x => x + 1) = id := by
      funext x; simp [UInt8.add_sub_cancel]
    rw [this]; simp
  · intro b hb; simpa [toyCbc] using hb
  · intro x; rfl

example : toyAead.OK := by
  intro iv aad pt
  simp [toyAead, zeros]

example : toyCha.OK := ⟨fun _ _ _ n => by simp [toyCha, zeros], fun _ _ => by simp [toyCha, zeros]⟩


/-! ## the exact payload range that round-trips (pins the numbers of the recorded finding) -/

/-- `fits` in closed form: stream encrypt-and-MAC / `none` / CBC (8- and 16-byte blocks): payloads of 1..262135
    bytes; EtM / GCM / chacha20-poly1305: 1..262139 bytes (maxPacket = 262144) -/
theorem fits_exact (n : Nat) :
    ((1 ≤ n ∧ n + 1 + streamPadLen n 0 ≤ maxPacket) ↔ (1 ≤ n ∧ n ≤ 262135)) ∧
    ((1 ≤ n ∧ n + 1 + streamPadLen n 4 ≤ maxPacket) ↔ (1 ≤ n ∧ n ≤ 262139)) ∧
    ((1 ≤ n ∧ n + gcmPadLen n + 1 ≤ maxPacket) ↔ (1 ≤ n ∧ n ≤ 262139)) ∧
    ((1 ≤ n ∧ 1 + n + chaPadLen n ≤ maxPacket) ↔ (1 ≤ n ∧ n ≤ 262139)) ∧
    ((1 ≤ n ∧ cbcEncLen 16 n - 4 ≤ maxPacket) ↔ (1 ≤ n ∧ n ≤ 262135)) ∧
    ((1 ≤ n ∧ cbcEncLen 8 n - 4 ≤ maxPacket) ↔ (1 ≤ n ∧ n ≤ 262135)) := by
  have hm : maxPacket = 262144 := rfl
  have h16 : max 8 16 = 16 := rfl
  have h8 : max 8 8 = 8 := rfl
  refine ⟨?_, ?_, ?_, ?_, ?_, ?_⟩
  · simp only [streamPadLen, hm]; split <;> omega
  · simp only [streamPadLen, hm]; split <;> omega
  · simp only [gcmPadLen, hm]; split <;> omega
  · simp only [chaPadLen, hm]; split <;> omega
  · simp only [cbcEncLen, hm, h16]; rw [Nat.max_def]; split <;> omega
  · simp only [cbcEncLen, hm, h8]; rw [Nat.max_def]; split <;> omega

/-! ## non-vacuity: a concrete history through `roundtrip`, `seq_wraps`, and the writer specs -/

/-- a toy EtM stream mode, two payloads, sequence number wrapping from 2^32-1 to 1 -/
def toyHistory := writeAll (Mode.stream toyStream) ⟨⟨3, []⟩, 4294967295⟩ (zeros 64) [[1, 2, 3], [9]]
def toyWires : List Bytes := toyHistory.1.filterMap fun x => match x with | .ok b => some b | .error _ => none

example : toyHistory.2.seq = 1 ∧ toyWires.length = 2 ∧
    (readAll (Mode.stream toyStream) 2 ⟨⟨3, []⟩, 4294967295⟩ toyWires.flatten).1.map (·.1)
      = [.ok [1, 2, 3], .ok [9]] := by decide +kernel

example : (gcmWrite toyAead ⟨0, [0, 0, 0, 0, 0, 0, 0, 0, 0, 0, 0, 255]⟩ [7] (zeros 32)).toOption.map (fun r => r.2.1.iv)
    = some [0, 0, 0, 0, 0, 0, 0, 0, 0, 0, 1, 0] := by decide +kernel

example : (cbcRead toyCbc ⟨0, zeros 8⟩ 5
    ((cbcWrite toyCbc ⟨0, zeros 8⟩ 5 [1, 2, 3] (zeros 32)).toOption.map (·.1) |>.getD [])).res = .ok [1, 2, 3] := by
  decide +kernel

example : (chaRead toyCha ⟨0, []⟩ 5
    ((chaWrite toyCha ⟨0, []⟩ 5 [1, 2, 3] (zeros 32)).toOption.map (·.1) |>.getD [])).res = .ok [1, 2, 3] := by
  decide +kernel

end XC.C25
