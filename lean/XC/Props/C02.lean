/-
  C02 — AEAD Open rejects what it did not produce; nothing is left in dst on failure.

  What can be proved outright is the decision structure: Open accepts exactly when the input is at least
  16 bytes long and its last 16 bytes equal the Poly1305 tag recomputed over the unambiguous framing
  pad16(ad) ‖ pad16(ct) ‖ le64|ad| ‖ le64|ct| — so a change confined to the tag is rejected unconditionally,
  any change of ad / ct / their lengths changes the MAC input (`macData_injective`), and on failure the
  region handed out is all zero.  The residual "different MAC input ⇒ different tag" is a cryptographic
  statement about Poly1305 under a secret one-time key (false as a universally quantified statement: collisions
  exist); it is the hypothesis of `C02_partial` and the full statement is kept as `C02_full`.
-/
import XC.Proofs.C01
import XC.Model.C02
namespace XC.C02
open XC.C01

/-! ### chacha20poly1305 / xchacha20poly1305 -/

/-- the recomputed tag for a presented input `c = ct ‖ tag'` -/
def expectedTag (key nonce ad c : Bytes) : Bytes :=
  C04.tagSpec (polyKey key nonce) (macData ad (c.take (c.length - 16)))

theorem aeadOpen_eq_generic (key nonce dst c ad : Bytes) (hn : nonce.length = 12) (h16 : 16 ≤ c.length)
    (hc : c.length ≤ maxCiphertext) : aeadOpen key nonce dst c ad = openGeneric key nonce dst c ad := by
  unfold aeadOpen
  rw [if_neg (by simp [hn]), if_neg (by omega), if_neg (Nat.not_lt.mpr hc)]

theorem maxCiphertext_lt : maxCiphertext < 2 ^ 64 := by decide

/-- decision structure of `Open`: accept ↔ |c| ≥ 16 ∧ recomputed tag = presented tag; the result is then
    dst ‖ (ct xor keystream from block 1) -/
theorem open_iff (key nonce dst c ad r : Bytes) (hn : nonce.length = 12) (hc : c.length ≤ maxCiphertext)
    (ha : ad.length < 2 ^ 64) :
    aeadOpen key nonce dst c ad = .ok r ↔
      16 ≤ c.length ∧ c.drop (c.length - 16) = expectedTag key nonce ad c ∧
      r = dst ++ C03.xorStream key nonce 1 (c.take (c.length - 16)) := by
  have hc64 := Nat.lt_of_le_of_lt hc maxCiphertext_lt
  simp only [expectedTag]
  by_cases h16 : c.length < 16
  · simp [aeadOpen, hn, h16]; omega
  · rw [aeadOpen_eq_generic _ _ _ _ _ hn (by omega) hc, openGeneric_eq _ _ _ _ _ ha hc64]
    simp only []
    split
    · rename_i ht
      simp [ht]
      constructor
      · intro h; exact ⟨by omega, h.symm⟩
      · intro h; exact h.2.symm
    · rename_i ht
      simp [ht]

/-- every other outcome is the error — never a panic for a 12-byte nonce and an admissible length -/
theorem open_err_iff (key nonce dst c ad : Bytes) (hn : nonce.length = 12) (hc : c.length ≤ maxCiphertext)
    (ha : ad.length < 2 ^ 64) :
    (∃ out, aeadOpen key nonce dst c ad = .err out) ↔
      (c.length < 16 ∨ c.drop (c.length - 16) ≠ expectedTag key nonce ad c) := by
  have hc64 := Nat.lt_of_le_of_lt hc maxCiphertext_lt
  simp only [expectedTag]
  by_cases h16 : c.length < 16
  · simp [aeadOpen, hn, h16]
  · rw [aeadOpen_eq_generic _ _ _ _ _ hn (by omega) hc, openGeneric_eq _ _ _ _ _ ha hc64]
    simp only []
    split
    · rename_i ht; simp [ht, h16]
    · rename_i ht; simp [ht]

/-- inputs shorter than a tag are rejected, nothing is touched -/
theorem open_short (key nonce dst c ad : Bytes) (hn : nonce.length = 12) (h : c.length < 16) :
    aeadOpen key nonce dst c ad = .err [] := by
  simp [aeadOpen, hn, h]

/-- on failure the region handed out as `out` is all zero (and no slice is returned: `.err` carries none) -/
theorem open_fail_zero (key nonce dst c ad out : Bytes) (ha : ad.length < 2 ^ 64) (hc : c.length ≤ maxCiphertext)
    (h : aeadOpen key nonce dst c ad = .err out) : out = zeros out.length := by
  simp only [maxCiphertext] at hc
  simp only [aeadOpen] at h
  split at h
  · cases h
  · split at h
    · injection h with h; subst h; rfl
    · split at h
      · cases h
      · rw [openGeneric_eq _ _ _ _ _ ha (by omega)] at h
        simp only [] at h
        split at h
        · cases h
        · injection h with h; subst h; simp [zeros]

/-- the caller-visible memory effect: after a failed Open the first `n = |c| - 16` bytes of `dst[len:cap]`
    are zero whenever `out` was placed there (n ≤ spare) -/
theorem spare_zero_after_failure (spare : Nat) (f : UInt8) (dl : Nat) (out : Bytes)
    (hz : out = zeros out.length) (hfit : out.length ≤ spare) :
    (spareAfter spare f dl (.err out)).take out.length = zeros out.length := by
  simp only [spareAfter, hfit, if_true]
  rw [List.take_left]; exact hz

/-- a modification confined to the tag is rejected — unconditionally -/
theorem open_tag_flip (key nonce dst pt ad tag' : Bytes) (hn : nonce.length = 12) (hp : pt.length ≤ maxPlaintext)
    (ha : ad.length < 2 ^ 64) (hl : tag'.length = 16)
    (hne : tag' ≠ C04.tagSpec (polyKey key nonce) (macData ad (C03.xorStream key nonce 1 pt))) :
    aeadOpen key nonce dst (C03.xorStream key nonce 1 pt ++ tag') ad = .err (zeros pt.length) := by
  have hct : (C03.xorStream key nonce 1 pt).length = pt.length := xorStream_length ..
  simp only [maxPlaintext] at hp
  have hlen : (C03.xorStream key nonce 1 pt ++ tag').length = pt.length + 16 := by simp [hct, hl]
  simp only [aeadOpen, hn, bne_self_eq_false, Bool.false_eq_true, if_false, hlen, maxCiphertext]
  rw [if_neg (by omega), if_neg (by omega), openGeneric_eq _ _ _ _ _ ha (by omega)]
  have e1 : pt.length + 16 - 16 = pt.length := by omega
  simp only [hlen, e1]
  rw [← hct, List.take_left, List.drop_left, if_neg hne]


/-- non-vacuity of `open_tag_flip` / `C02_partial`: the hypotheses are satisfiable (a 3-byte message, 1-byte ad) -/
example : ∃ out, aeadOpen (zeros 32) (zeros 12) [9] ([1, 2, 3] ++ zeros 13) [7] = .err out ∨
    aeadOpen (zeros 32) (zeros 12) [9] ([1, 2, 3] ++ zeros 13) [7] = .ok out := by
  cases h : aeadOpen (zeros 32) (zeros 12) [9] ([1, 2, 3] ++ zeros 13) [7] with
  | ok r => exact ⟨r, Or.inr rfl⟩
  | err o => exact ⟨o, Or.inl rfl⟩
  | panic =>
    have := (open_err_iff (zeros 32) (zeros 12) [9] ([1, 2, 3] ++ zeros 13) [7] (by simp [zeros]) (by simp [zeros, maxCiphertext])
      (by simp))
    by_cases ht : (([1, 2, 3] : Bytes) ++ zeros 13).drop ((([1, 2, 3] : Bytes) ++ zeros 13).length - 16)
        = expectedTag (zeros 32) (zeros 12) [7] ([1, 2, 3] ++ zeros 13)
    · have h2 := (open_iff (zeros 32) (zeros 12) [9] ([1, 2, 3] ++ zeros 13) [7] _ (by simp [zeros])
        (by simp [zeros, maxCiphertext]) (by simp)).mpr ⟨by simp [zeros], ht, rfl⟩
      rw [h] at h2; cases h2
    · obtain ⟨o, ho⟩ := this.mpr (Or.inr ht)
      rw [h] at ho; cases ho

/-- presenting a sealed message under ANOTHER key and/or nonce: accepted exactly when the Poly1305 tag under the
    other one-time key happens to coincide — the decision is still "recomputed tag = presented tag"; that the two
    one-time keys give different tags is the cryptographic remainder -/
theorem open_other_key_iff (key nonce key' nonce' dst pt ad ad' : Bytes) (hn' : nonce'.length = 12)
    (hp : pt.length ≤ maxPlaintext) (ha' : ad'.length < 2 ^ 64) :
    (∃ r, aeadOpen key' nonce' dst (sealSpec key nonce pt ad) ad' = .ok r) ↔
      C04.tagSpec (polyKey key nonce) (macData ad (C03.xorStream key nonce 1 pt))
        = C04.tagSpec (polyKey key' nonce') (macData ad' (C03.xorStream key nonce 1 pt)) := by
  have hct : (C03.xorStream key nonce 1 pt).length = pt.length := xorStream_length ..
  have hl : (sealSpec key nonce pt ad).length = pt.length + 16 := by
    simp [sealSpec, hct, C04.tagSpec_length]
  have hc : (sealSpec key nonce pt ad).length ≤ maxCiphertext := by
    simp only [maxPlaintext] at hp; simp only [hl, maxCiphertext]; omega
  have e1 : pt.length + 16 - 16 = pt.length := by omega
  have ht : (sealSpec key nonce pt ad).take ((sealSpec key nonce pt ad).length - 16) = C03.xorStream key nonce 1 pt := by
    rw [hl, e1]; simp only [sealSpec]; rw [← hct, List.take_left]
  have hd : (sealSpec key nonce pt ad).drop ((sealSpec key nonce pt ad).length - 16)
      = C04.tagSpec (polyKey key nonce) (macData ad (C03.xorStream key nonce 1 pt)) := by
    rw [hl, e1]; simp only [sealSpec]; rw [← hct, List.drop_left]
  constructor
  · rintro ⟨r, hr⟩
    have := (open_iff key' nonce' dst _ ad' r hn' hc ha').mp hr
    rw [expectedTag, ht, hd] at this
    exact this.2.1
  · intro h
    refine ⟨_, (open_iff key' nonce' dst _ ad' _ hn' hc ha').mpr ⟨by omega, ?_, rfl⟩⟩
    rw [expectedTag, ht, hd]; exact h

/-! ### the framing of the MAC input is injective -/

theorem pad16_length (x : Bytes) : (pad16 x).length = x.length + (16 - x.length % 16) % 16 := by
  simp [pad16, zeros]

theorem natToLE8_inj (a b : Nat) (ha : a < 2 ^ 64) (hb : b < 2 ^ 64) (h : natToLE 8 a = natToLE 8 b) : a = b := by
  have h1 := natOfLE_natToLE 8 a
  have h2 := natOfLE_natToLE 8 b
  rw [h] at h1
  have e : (256 : Nat) ^ 8 = 2 ^ 64 := by decide
  rw [e, Nat.mod_eq_of_lt] at h1 h2 <;> first | omega | assumption

/-- pad16(ad) ‖ pad16(ct) ‖ le64|ad| ‖ le64|ct| determines ad and ct: any change of the additional data, of the
    ciphertext, or of where one ends and the other begins changes the Poly1305 input -/
theorem macData_injective (ad ct ad' ct' : Bytes) (ha : ad.length < 2 ^ 64) (hc : ct.length < 2 ^ 64)
    (ha' : ad'.length < 2 ^ 64) (hc' : ct'.length < 2 ^ 64)
    (h : macData ad ct = macData ad' ct') : ad = ad' ∧ ct = ct' := by
  simp only [macData] at h
  obtain ⟨h1, h2⟩ := List.append_inj' h (by simp [natToLE_length])
  obtain ⟨h3, h4⟩ := List.append_inj' h1 (by simp [natToLE_length])
  have la : ad.length = ad'.length := natToLE8_inj _ _ ha ha' h4
  have lc : ct.length = ct'.length := natToLE8_inj _ _ hc hc' h2
  obtain ⟨h5, h6⟩ := List.append_inj h3 (by simp [pad16_length, la])
  simp only [pad16] at h5 h6
  exact ⟨(List.append_inj h5 la).1, (List.append_inj h6 lc).1⟩

/-- the full reading of the property for modifications that keep the tag: every (ad', ct') other than the
    sealed one is rejected.  Not provable (and not true for every key: Poly1305 collisions exist). -/
def C02_full : Prop :=
  ∀ (key nonce dst pt ad ad' ct' : Bytes), nonce.length = 12 → pt.length ≤ maxPlaintext → ct'.length ≤ maxPlaintext →
    ad.length < 2 ^ 64 → ad'.length < 2 ^ 64 →
    (ad', ct') ≠ (ad, C03.xorStream key nonce 1 pt) →
    aeadOpen key nonce dst (ct' ++ C04.tagSpec (polyKey key nonce) (macData ad (C03.xorStream key nonce 1 pt))) ad'
      = .err (zeros ct'.length)

/-- what is proved: the same conclusion from the single cryptographic hypothesis that the two *different*
    MAC inputs (different by `macData_injective`) do not collide under this one-time key -/
theorem C02_partial (key nonce dst pt ad ad' ct' : Bytes) (hn : nonce.length = 12)
    (hc' : ct'.length ≤ maxPlaintext) (ha' : ad'.length < 2 ^ 64)
    (hnocoll : C04.tagSpec (polyKey key nonce) (macData ad' ct')
             ≠ C04.tagSpec (polyKey key nonce) (macData ad (C03.xorStream key nonce 1 pt))) :
    aeadOpen key nonce dst (ct' ++ C04.tagSpec (polyKey key nonce) (macData ad (C03.xorStream key nonce 1 pt))) ad'
      = .err (zeros ct'.length) := by
  simp only [maxPlaintext] at hc'
  have hlen : (ct' ++ C04.tagSpec (polyKey key nonce) (macData ad (C03.xorStream key nonce 1 pt))).length
      = ct'.length + 16 := by simp [C04.tagSpec_length]
  simp only [aeadOpen, hn, bne_self_eq_false, Bool.false_eq_true, if_false, hlen, maxCiphertext]
  rw [if_neg (by omega), if_neg (by omega), openGeneric_eq _ _ _ _ _ ha' (by omega)]
  have e1 : ct'.length + 16 - 16 = ct'.length := by omega
  simp only [hlen, e1]
  rw [List.take_left, List.drop_left, if_neg (fun h => hnocoll h.symm)]

/-- the hypothesis of `C02_partial` is about genuinely different MAC inputs -/
theorem modified_input_differs (ad ct ad' ct' : Bytes) (ha : ad.length < 2 ^ 64) (hc : ct.length < 2 ^ 64)
    (ha' : ad'.length < 2 ^ 64) (hc' : ct'.length < 2 ^ 64) (h : (ad', ct') ≠ (ad, ct)) :
    macData ad' ct' ≠ macData ad ct := by
  intro e
  obtain ⟨h1, h2⟩ := macData_injective _ _ _ _ ha' hc' ha hc e
  exact h (by rw [h1, h2])

/-! ### XChaCha20-Poly1305: the same decision under the derived key / nonce -/

theorem xopen_eq (key nonce dst c ad : Bytes) (hn : nonce.length = 24) :
    xaeadOpen key nonce dst c ad = aeadOpen (C03.xkey key nonce) (C03.xnonce nonce) dst c ad := by
  have h12 : (C03.xnonce nonce).length = 12 := by simp [C03.xnonce, zeros, hn]
  simp only [xaeadOpen, aeadOpen, hn, h12, bne_self_eq_false, Bool.false_eq_true, if_false]
  rfl


/-- XChaCha20-Poly1305: a tag-only modification is rejected unconditionally -/
theorem xopen_tag_flip (key nonce dst pt ad tag' : Bytes) (hn : nonce.length = 24) (hp : pt.length ≤ maxPlaintext)
    (ha : ad.length < 2 ^ 64) (hl : tag'.length = 16)
    (hne : tag' ≠ C04.tagSpec (polyKey (C03.xkey key nonce) (C03.xnonce nonce))
      (macData ad (C03.xorStream (C03.xkey key nonce) (C03.xnonce nonce) 1 pt))) :
    xaeadOpen key nonce dst (C03.xorStream (C03.xkey key nonce) (C03.xnonce nonce) 1 pt ++ tag') ad
      = .err (zeros pt.length) := by
  rw [xopen_eq _ _ _ _ _ hn]
  exact open_tag_flip _ _ dst pt ad tag' (by simp [C03.xnonce, zeros, hn]) hp ha hl hne

/-- XChaCha20-Poly1305: modified (ad, ct) with the tag kept is rejected unless the Poly1305 tags collide -/
theorem xC02_partial (key nonce dst pt ad ad' ct' : Bytes) (hn : nonce.length = 24)
    (hc' : ct'.length ≤ maxPlaintext) (ha' : ad'.length < 2 ^ 64)
    (hnocoll : C04.tagSpec (polyKey (C03.xkey key nonce) (C03.xnonce nonce)) (macData ad' ct')
      ≠ C04.tagSpec (polyKey (C03.xkey key nonce) (C03.xnonce nonce))
          (macData ad (C03.xorStream (C03.xkey key nonce) (C03.xnonce nonce) 1 pt))) :
    xaeadOpen key nonce dst (ct' ++ C04.tagSpec (polyKey (C03.xkey key nonce) (C03.xnonce nonce))
        (macData ad (C03.xorStream (C03.xkey key nonce) (C03.xnonce nonce) 1 pt))) ad'
      = .err (zeros ct'.length) := by
  rw [xopen_eq _ _ _ _ _ hn]
  exact C02_partial _ _ dst pt ad ad' ct' (by simp [C03.xnonce, zeros, hn]) hc' ha' hnocoll

theorem xopen_short (key nonce dst c ad : Bytes) (hn : nonce.length = 24) (h : c.length < 16) :
    xaeadOpen key nonce dst c ad = .err [] := by
  simp [xaeadOpen, hn, h]

/-! ### NaCl secretbox / box -/

theorem salsa20Block_length (key in16 : Bytes) : (C09.salsa20Block key in16).length = 64 := by
  simp [C09.salsa20Block, C09.core, C09.St.serialize, C09.w2b]

theorem blocksFrom_length (key c16 : Bytes) (i m : Nat) : (C09.blocksFrom key c16 i m).length = 64 * m := by
  induction m generalizing i with
  | zero => rfl
  | succ m ih => simp [C09.blocksFrom, salsa20Block_length, ih]; omega

theorem salsa_keystream_length (key c16 : Bytes) (n : Nat) : (C09.keystream key c16 n).length = n := by
  simp [C09.keystream, blocksFrom_length]; omega

theorem salsa_xor_length (key c16 src : Bytes) : (C09.xorKeyStream key c16 src).length = src.length := by
  simp [C09.xorKeyStream, xorBytes_length, salsa_keystream_length]

/-- the Poly1305 one-time key used by secretbox: first 32 bytes of the first keystream block -/
def sbPolyKey (key nonce : Bytes) : Bytes :=
  (C09.xorKeyStream (C10.setup key nonce).1 (C10.setup key nonce).2 (zeros 64)).take 32

theorem sbPolyKey_length (key nonce : Bytes) : (sbPolyKey key nonce).length = 32 := by
  simp [sbPolyKey, salsa_xor_length, zeros]

theorem verifyOneShot_eq (tag key msg : Bytes) (hk : key.length = 32) :
    C04.verifyOneShot tag key msg = some (decide (C04.tagSpec key msg = tag)) := by
  simp only [C04.verifyOneShot, C04.sum_eq_spec key msg hk, Option.map_some, C04.ctEq_decide]

/-- `secretbox.Open` as a function of the decision `box[:16] = Poly1305_{polykey}(box[16:])` -/
theorem secretbox_open_eq (out box nonce key : Bytes) :
    C10.openGo out box nonce key =
      if box.length < 16 then .fail
      else if C04.tagSpec (sbPolyKey key nonce) (box.drop 16) = box.take 16 then
        .ok (out ++ C10.cryptGo (C10.setup key nonce).1 (C10.setup key nonce).2
              (C09.xorKeyStream (C10.setup key nonce).1 (C10.setup key nonce).2 (zeros 64)) (box.drop 16))
      else .fail := by
  unfold C10.openGo
  split
  · rfl
  · simp only []
    have := verifyOneShot_eq (box.take 16) (sbPolyKey key nonce) (box.drop 16) (sbPolyKey_length key nonce)
    simp only [sbPolyKey] at this ⊢
    rw [this]
    by_cases ht : C04.tagSpec (List.take 32 (C09.xorKeyStream (C10.setup key nonce).fst (C10.setup key nonce).snd (zeros 64)))
        (List.drop 16 box) = List.take 16 box
    · simp [ht]
    · simp [ht]

/-- decision structure: accept ↔ |box| ≥ 16 ∧ presented tag = recomputed tag -/
theorem secretbox_open_iff (out box nonce key : Bytes) :
    (∃ r, C10.openGo out box nonce key = .ok r) ↔
      16 ≤ box.length ∧ box.take 16 = C04.tagSpec (sbPolyKey key nonce) (box.drop 16) := by
  rw [secretbox_open_eq]
  by_cases h : box.length < 16
  · simp [h]; omega
  · by_cases ht : C04.tagSpec (sbPolyKey key nonce) (box.drop 16) = box.take 16
    · simp [h, ht]; omega
    · simp [h, ht]; exact fun _ e => ht e.symm

/-- `secretbox.Open` never panics and a failure writes nothing (the failure value carries no data and
    `spareAfterNacl` leaves the caller's buffer as it was) -/
theorem secretbox_open_total (out box nonce key : Bytes) : C10.openGo out box nonce key ≠ .panic := by
  rw [secretbox_open_eq]; split <;> try split
  all_goals simp

theorem secretbox_fail_untouched (spare : Nat) (f : UInt8) (dl : Nat) :
    spareAfterNacl spare f dl .fail = List.replicate spare f := rfl

/-- tag-only modification of a box is rejected unconditionally -/
theorem secretbox_tag_flip (out ct tag' nonce key : Bytes) (hl : tag'.length = 16)
    (hne : tag' ≠ C04.tagSpec (sbPolyKey key nonce) ct) :
    C10.openGo out (tag' ++ ct) nonce key = .fail := by
  rw [secretbox_open_eq]
  have h1 : (tag' ++ ct).length = 16 + ct.length := by simp [hl]
  rw [if_neg (by omega)]
  rw [← hl, List.drop_left, List.take_left, if_neg (fun h => hne h.symm)]


/-- secretbox: a modified ciphertext with the tag kept (incl. truncation / extension of the ciphertext part) is
    rejected unless the Poly1305 tags of the two different ciphertexts collide under the one-time key -/
theorem secretbox_partial (out ct ct' nonce key : Bytes)
    (hnocoll : C04.tagSpec (sbPolyKey key nonce) ct' ≠ C04.tagSpec (sbPolyKey key nonce) ct) :
    C10.openGo out (C04.tagSpec (sbPolyKey key nonce) ct ++ ct') nonce key = .fail := by
  rw [secretbox_open_eq]
  have hl : (C04.tagSpec (sbPolyKey key nonce) ct).length = 16 := C04.tagSpec_length _ _
  rw [if_neg (by simp [hl])]
  rw [← hl, List.drop_left, List.take_left, if_neg hnocoll]

theorem secretbox_short (out box nonce key : Bytes) (h : box.length < 16) : C10.openGo out box nonce key = .fail := by
  rw [secretbox_open_eq, if_pos h]

/-- non-vacuity: a 16-byte box whose tag is wrong exists for every key (one of the two candidate tags differs) -/
example (out nonce key : Bytes) : ∃ box, box.length = 16 ∧ C10.openGo out box nonce key = .fail := by
  by_cases h : zeros 16 = C04.tagSpec (sbPolyKey key nonce) []
  · refine ⟨1 :: zeros 15, by simp [zeros], ?_⟩
    have := secretbox_tag_flip out [] (1 :: zeros 15) nonce key (by simp [zeros]) (by
      rw [← h]; simp [zeros, List.replicate_succ])
    simpa using this
  · have := secretbox_tag_flip out [] (zeros 16) nonce key (by simp [zeros]) h
    exact ⟨zeros 16, by simp [zeros], by simpa using this⟩

/-- `box.Open` / `OpenAfterPrecomputation` = `secretbox.Open` under the precomputed key: the same decision -/
theorem box_open_eq (out box nonce : Bytes) (dh : Option Bytes) :
    C10.boxOpen out box nonce dh = C10.openGo out box nonce (C10.precompute dh) := rfl

end XC.C02
