/-
  C10 — NaCl box / secretbox / sign / auth produce the NaCl formats.

  libsodium is not installed; the reference is the NaCl definition written in Lean (`secretboxSpec`: XSalsa20
  stream, first 32 bytes = Poly1305 key, box = tag ‖ (m xor stream[32..]); crypto_box = crypto_secretbox under
  HSalsa20(X25519(sk, pk), 0^16); sealed box = epk ‖ box with nonce BLAKE2b-24(epk ‖ pk); crypto_sign = sig ‖ m;
  crypto_auth = HMAC-SHA-512 truncated to 32 bytes).  X25519 / Ed25519 are stdlib parameters: their values are
  hypotheses (oracle fields in the correspondence), so interoperability with libsodium is carried only as far as
  "same published definition" — that is why the level is partial.
-/
import XC.Proofs.C10
namespace XC.C10

/-! ### secretbox -/

/-- `secretbox.Seal` = NaCl `crypto_secretbox` (tag ‖ ciphertext appended to `out`) for every message length -/
theorem secretbox_seal_eq_spec (out msg nonce key : Bytes) (hn : nonce.length = 24) :
    sealGo out msg nonce key = some (out ++ secretboxSpec key nonce msg) :=
  seal_eq_spec out msg nonce key hn

theorem secretboxSpec_length (key nonce msg : Bytes) : (secretboxSpec key nonce msg).length = msg.length + 16 := by
  simp [secretboxSpec, xsalsaStream, C04.tagSpec_length, xorBytes_length, C02.salsa_keystream_length]; omega

/-- `Open(Seal(m)) = m` -/
theorem secretbox_open_seal (out msg nonce key : Bytes) (hn : nonce.length = 24) :
    openGo out (secretboxSpec key nonce msg) nonce key = .ok (out ++ msg) :=
  open_seal out msg nonce key hn

/-- the ciphertext part is the XSalsa20 stream from byte 32, whatever the length: the two-stage encryption of
    the Go code has no seam at 32 bytes -/
theorem secretbox_crypt_seamless (sub n8 msg : Bytes) (h8 : n8.length = 8) :
    cryptGo sub (n8 ++ zeros 8) (C09.salsa20Block sub (C09.counterAt (n8 ++ zeros 8) 0)) msg
      = xorBytes msg ((C09.keystream sub (n8 ++ zeros 8) (32 + msg.length)).drop 32) :=
  crypt_eq_stream sub n8 msg h8

/-- non-vacuity: concrete Seal / Open below, at and above the 32-byte seam -/
example : sealGo [7] (zeros 33) (zeros 24) (zeros 32) = some ([7] ++ secretboxSpec (zeros 32) (zeros 24) (zeros 33)) ∧
    openGo [7] (secretboxSpec (zeros 32) (zeros 24) (zeros 32)) (zeros 24) (zeros 32) = .ok ([7] ++ zeros 32) ∧
    openGo [] (secretboxSpec (zeros 32) (zeros 24) [1]) (zeros 24) (zeros 32) = .ok [1] :=
  ⟨secretbox_seal_eq_spec _ _ _ _ (by simp [zeros]), secretbox_open_seal _ _ _ _ (by simp [zeros]),
   secretbox_open_seal _ _ _ _ (by simp [zeros])⟩

example : secretboxSpec (zeros 32) (zeros 24) [] ≠ [] := by
  intro h
  have := secretboxSpec_length (zeros 32) (zeros 24) []
  rw [h] at this; simp at this

/-! ### box -/

/-- `box.Seal` / `SealAfterPrecomputation` = `crypto_secretbox` under `HSalsa20(X25519(sk, pk), 0^16)` -/
theorem box_seal_eq_spec (out msg nonce dh : Bytes) (hn : nonce.length = 24) :
    boxSeal out msg nonce (some dh) = some (out ++ secretboxSpec (C09.hsalsa20 dh (zeros 16)) nonce msg) := by
  simp only [boxSeal, precompute, Option.getD_some]
  exact seal_eq_spec out msg nonce _ hn

/-- the two parties precompute the same key, **assuming** X25519 commutes
    (`X25519 a (X25519 b 9) = X25519 b (X25519 a 9)`, a property of the stdlib parameter) -/
theorem precompute_symmetric (dhAB dhBA : Option Bytes) (hcomm : dhAB = dhBA) :
    precompute dhAB = precompute dhBA := by rw [hcomm]

/-- and then each opens what the other sealed -/
theorem box_open_seal (out out' msg nonce : Bytes) (dhAB dhBA : Option Bytes) (hcomm : dhAB = dhBA)
    (hn : nonce.length = 24) (sealed : Bytes) (hs : boxSeal out' msg nonce dhAB = some (out' ++ sealed)) :
    boxOpen out sealed nonce dhBA = .ok (out ++ msg) := by
  subst hcomm
  simp only [boxSeal] at hs
  rw [seal_eq_spec out' msg nonce _ hn] at hs
  have : sealed = secretboxSpec (precompute dhAB) nonce msg := by
    have := Option.some.inj hs
    exact (List.append_cancel_left this).symm
  subst this
  exact open_seal out msg nonce _ hn

/-- non-vacuity: both parties with the same DH value; A seals, B opens -/
example : boxOpen [] (secretboxSpec (precompute (some (zeros 32))) (zeros 24) [1, 2]) (zeros 24) (some (zeros 32)) = .ok [1, 2] :=
  box_open_seal [] [] [1, 2] (zeros 24) _ _ rfl (by simp [zeros]) _
    (by simpa [boxSeal] using seal_eq_spec [] [1, 2] (zeros 24) (precompute (some (zeros 32))) (by simp [zeros]))

/-- a peer key for which crypto/ecdh reports an error (low-order point) yields the fixed key
    HSalsa20(0^32, 0^16): `curve25519.ScalarMult` zeroes the shared secret and `Precompute` goes on -/
theorem precompute_low_order : precompute none = C09.hsalsa20 (zeros 32) (zeros 16) := rfl

/-! ### sealed boxes -/

theorem flatten_u64le_length (l : List UInt64) : ((l.map u64le).flatten).length = 8 * l.length := by
  induction l with
  | nil => rfl
  | cons a t ih => simp [u64le, natToLE_length, ih]; omega

theorem compress_size (h : Array UInt64) (blk : Bytes) (t : UInt64) (last : Bool) :
    (B2.compress h blk t last).size = 8 := by
  unfold B2.compress; simp

theorem hashShort_length (n : Nat) (msg : Bytes) (hn : n ≤ 64) : (B2.hashShort n msg).length = n := by
  unfold B2.hashShort
  simp only [List.length_take, flatten_u64le_length, Array.length_toList, compress_size]
  omega

theorem sealNonce_length (epk pk : Bytes) : (sealNonce epk pk).length = 24 :=
  hashShort_length 24 _ (by decide)

/-- format: `out ‖ epk ‖ crypto_box(m, BLAKE2b-24(epk ‖ pk), pk, esk)` -/
theorem sealAnon_format (out msg rc epk dh : Bytes) :
    sealAnon out msg rc epk (some dh) =
      some (out ++ epk ++ secretboxSpec (C09.hsalsa20 dh (zeros 16)) (sealNonce epk rc) msg) := by
  have hn : (sealNonce epk rc).length = 24 := sealNonce_length epk rc
  simp only [sealAnon]
  rw [box_seal_eq_spec _ _ _ _ hn]

/-- `OpenAnonymous(SealAnonymous(m)) = m`, assuming X25519 commutes (`dh` is the same on both sides) -/
theorem openAnon_sealAnon (out msg rc epk dh : Bytes) (he : epk.length = 32) :
    openAnon out (epk ++ secretboxSpec (C09.hsalsa20 dh (zeros 16)) (sealNonce epk rc) msg) rc (some dh)
      = .ok (out ++ msg) := by
  have hn : (sealNonce epk rc).length = 24 := sealNonce_length epk rc
  simp only [openAnon, List.length_append, he, secretboxSpec_length]
  rw [if_neg (by omega), ← he, List.drop_left, List.take_left]
  exact open_seal out msg _ _ hn

example : openAnon [] (zeros 32 ++ secretboxSpec (C09.hsalsa20 (zeros 32) (zeros 16)) (sealNonce (zeros 32) (zeros 32)) [5])
    (zeros 32) (some (zeros 32)) = .ok [5] := by
  simpa using openAnon_sealAnon [] [5] (zeros 32) (zeros 32) (zeros 32) (by simp [zeros])

theorem openAnon_short (out box pk : Bytes) (dh : Option Bytes) (h : box.length < 48) :
    openAnon out box pk dh = .fail := by simp [openAnon, h]

/-! ### sign -/

theorem sign_format (out msg sig : Bytes) : signGo out msg sig = out ++ sig ++ msg := rfl

/-- `sign.Open` accepts exactly inputs of ≥ 64 bytes whose first 64 bytes verify over the rest, and returns
    the rest appended to `out` -/
theorem signOpen_iff (out signed r : Bytes) (valid : Bool) :
    signOpen out signed valid = some r ↔ 64 ≤ signed.length ∧ valid = true ∧ r = out ++ signed.drop 64 := by
  simp only [signOpen]
  by_cases h : signed.length < 64
  · simp [h]; omega
  · cases valid
    · simp [h]
    · simp [h]
      constructor
      · intro e; exact ⟨by omega, e.symm⟩
      · intro e; exact e.2.symm

/-- `Open(Sign(m)) = m`, **assuming** `ed25519.Verify(pk, m, ed25519.Sign(sk, m)) = true` -/
theorem sign_open (out out' msg sig : Bytes) (hs : sig.length = 64) :
    signOpen out ((signGo out' msg sig).drop out'.length) true = some (out ++ msg) := by
  simp only [signGo, List.append_assoc, List.drop_left]
  simp only [signOpen, List.length_append, hs]
  rw [if_neg (by omega)]
  simp [← hs]

example : signOpen [] (zeros 64 ++ [1, 2]) true = some [1, 2] ∧ signOpen [] (zeros 64 ++ [1, 2]) false = none ∧
    signOpen [] (zeros 63) true = none := by decide

/-! ### auth -/

theorem authSum_eq (m key : Bytes) : authSum m key = (Prim.hmacSha512 key m).take 32 := rfl

theorem authVerify_iff (digest m key : Bytes) :
    authVerify digest m key = true ↔ digest.length = 32 ∧ digest = authSum m key := by
  simp only [authVerify]
  by_cases h : digest.length = 32 <;> simp [h]

/-- non-vacuity: Verify only ever accepts 32-byte digests, and it accepts `Sum`'s output whenever that has 32 bytes -/
example (d m k : Bytes) (h : authVerify d m k = true) : d.length = 32 := ((authVerify_iff d m k).mp h).1

example (m k : Bytes) (h : (authSum m k).length = 32) : authVerify (authSum m k) m k = true :=
  (authVerify_iff _ _ _).mpr ⟨h, rfl⟩

example : authVerify [] [1] (zeros 32) = false := by simp [authVerify]

end XC.C10
