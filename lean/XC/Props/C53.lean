/-
  C53 — property theorems: in-place and overlapping buffers.

  Model: XC/Model/C53.lean (one arena, (off,len[,cap]) slices, internal/alias predicates, the left-to-right
  chunk loop, sliceForAppend, the guarded wrappers).  Lemmas: XC/Proofs/C53.lean.
-/
import XC.Proofs.C53
namespace XC.C53

/-- byte address `i` lies in slice `x` -/
def Sl.mem (x : Sl) (i : Nat) : Prop := x.off ≤ i ∧ i < x.off + x.len

/-! ## 1. the alias predicates are interval predicates -/

/-- `AnyOverlap x y` ↔ the two address intervals share a byte (empty slices never overlap) -/
theorem anyOverlap_iff (x y : Sl) : anyOverlap x y = true ↔ ∃ i, x.mem i ∧ y.mem i := by
  simp only [anyOverlap, Bool.and_eq_true, decide_eq_true_eq, Sl.mem]
  constructor
  · rintro ⟨⟨⟨hx, hy⟩, h1⟩, h2⟩
    refine ⟨max x.off y.off, ?_⟩
    omega
  · rintro ⟨i, ⟨h1, h2⟩, h3, h4⟩
    omega

/-- `InexactOverlap x y` ↔ the intervals share a byte and do not start at the same address -/
theorem inexactOverlap_iff (x y : Sl) :
    inexactOverlap x y = true ↔ (∃ i, x.mem i ∧ y.mem i) ∧ x.off ≠ y.off := by
  unfold inexactOverlap
  by_cases h : x.len = 0 ∨ y.len = 0 ∨ x.off = y.off
  · have hc : (x.len = 0 || y.len = 0 || x.off = y.off) = true := by
      rcases h with h | h | h <;> simp [h]
    rw [if_pos hc]
    constructor
    · intro hf; cases hf
    · rintro ⟨⟨i, ⟨h1, h2⟩, h3, h4⟩, hne⟩
      omega
  · have hc : ¬ ((x.len = 0 || y.len = 0 || x.off = y.off) = true) := by
      simp
      omega
    rw [if_neg hc, anyOverlap_iff]
    exact ⟨fun hh => ⟨hh, by omega⟩, fun hh => hh.1⟩

theorem anyOverlap_comm (x y : Sl) : anyOverlap x y = anyOverlap y x := by
  simp only [anyOverlap]
  cases decide (x.len > 0) <;> cases decide (y.len > 0) <;>
    cases decide (x.off ≤ y.off + (y.len - 1)) <;> cases decide (y.off ≤ x.off + (x.len - 1)) <;> rfl

/-- what the guard leaves for two slices of equal length `n`: same start, or disjoint -/
theorem not_inexact_cases (d s n : Nat) (h : inexactOverlap ⟨d, n⟩ ⟨s, n⟩ = false) :
    n = 0 ∨ d = s ∨ d + n ≤ s ∨ s + n ≤ d := by
  by_cases hn : n = 0
  · exact Or.inl hn
  by_cases hds : d = s
  · exact Or.inr (Or.inl hds)
  have : ¬ (inexactOverlap ⟨d, n⟩ ⟨s, n⟩ = true) := by simp [h]
  rw [inexactOverlap_iff] at this
  simp only [Sl.mem, not_and, ne_eq] at this
  by_cases c : d + n ≤ s ∨ s + n ≤ d
  · rcases c with c | c
    · exact Or.inr (Or.inr (Or.inl c))
    · exact Or.inr (Or.inr (Or.inr c))
  · exfalso
    apply this ⟨max d s, by omega⟩
    exact hds

/-! ## 2. exact overlap or disjoint ⇒ the in-place loop computes the functional result -/

/-- any left-to-right chunk loop (bytes, words, blocks, mixed) -/
theorem chunk_loop_functional (g : Nat → Bytes → Bytes) (hg : ∀ o b, (g o b).length = b.length)
    (cs : List Nat) (mem : Bytes) (d s : Nat)
    (hd : d + sum cs ≤ mem.length) (hs : s + sum cs ≤ mem.length)
    (hov : d = s ∨ d + sum cs ≤ s ∨ s + sum cs ≤ d) :
    chunkLoop g cs 0 mem d s = wr mem d (mapChunks g cs 0 (rd mem s (sum cs))) := by
  have := chunkLoop_eq g hg cs 0 mem d s (by omega) (by omega) (by omega)
  simpa using this

/-- the bytewise xor loop -/
theorem xor_loop_functional (ks mem : Bytes) (d s n : Nat) (hk : n ≤ ks.length)
    (hd : d + n ≤ mem.length) (hs : s + n ≤ mem.length) (hov : d = s ∨ d + n ≤ s ∨ s + n ≤ d) :
    xorLoop ks mem d s n = wr mem d (xorBytes (rd mem s n) (ks.take n)) :=
  xorLoop_eq ks mem d s n hk hd hs (by omega)

theorem rd_wr_same (mem : Bytes) (p : Nat) (A : Bytes) (h : p + A.length ≤ mem.length) :
    rd (wr mem p A) p A.length = A := by
  apply List.ext_getElem?
  intro i
  rw [getElem?_rd, getElem?_wr _ _ _ _ h]
  by_cases hi : i < A.length
  · have c1 : ¬ p + i < p := by omega
    have c2 : p + i < p + A.length := by omega
    simp only [hi, c1, c2, if_true, if_false]
    congr 1; omega
  · simp only [hi, if_false]
    rw [List.getElem?_eq_none (by omega)]

/-- **in place = separate buffers** (exact overlap): after the loop the buffer holds exactly what the
    function writes to a separate dst, and every byte outside the buffer is unchanged -/
theorem inplace_eq_separate (ks mem : Bytes) (s n : Nat) (hk : n ≤ ks.length) (hs : s + n ≤ mem.length) :
    rd (xorLoop ks mem s s n) s n = xorBytes (rd mem s n) (ks.take n) ∧
    (∀ i, ¬ (s ≤ i ∧ i < s + n) → (xorLoop ks mem s s n)[i]? = mem[i]?) := by
  have hx := xor_loop_functional ks mem s s n hk hs hs (Or.inl rfl)
  have hl : (xorBytes (rd mem s n) (ks.take n)).length = n := by
    simp [xorBytes_length, rd_length _ _ _ hs]; omega
  constructor
  · rw [hx]
    have := rd_wr_same mem s (xorBytes (rd mem s n) (ks.take n)) (by rw [hl]; exact hs)
    rw [hl] at this
    exact this
  · intro i hi
    rw [hx, getElem?_wr _ _ _ _ (by rw [hl]; exact hs), hl]
    by_cases c1 : i < s
    · simp [c1]
    · have c2 : ¬ i < s + n := by omega
      simp [c1, c2]

/-- **why the guard is needed**: with dst one byte after src (inexact forward overlap) the unguarded loop
    produces something else than the function on separate buffers -/
theorem corruption_witness :
    xorLoop [1, 1, 1] [10, 20, 30, 40] 1 0 3 ≠ wr [10, 20, 30, 40] 1 (xorBytes (rd [10, 20, 30, 40] 0 3) [1, 1, 1]) := by
  decide

/-! ## 3. the guarded functions: panic exactly on the documented condition, otherwise the functional result -/

theorem chachaXor_spec (ks mem : Bytes) (dst src : Sl) (hk : src.len ≤ ks.length)
    (hd : dst.off + dst.len ≤ mem.length) (hs : src.off + src.len ≤ mem.length) :
    chachaXor ks mem dst src =
      if src.len = 0 then .ok [] mem
      else if dst.len < src.len ∨ inexactOverlap ⟨dst.off, src.len⟩ src = true then .panic
      else .ok [] (wr mem dst.off (xorBytes (rd mem src.off src.len) (ks.take src.len))) := by
  unfold chachaXor
  by_cases h0 : src.len = 0
  · simp [h0]
  by_cases h1 : dst.len < src.len
  · simp [h0, h1]
  by_cases h2 : inexactOverlap ⟨dst.off, src.len⟩ src = true
  · simp [h0, h1, h2]
  · simp only [h0, h1, h2, if_false, false_or]
    have h2' : inexactOverlap ⟨dst.off, src.len⟩ ⟨src.off, src.len⟩ = false := by simpa using h2
    have := not_inexact_cases _ _ _ h2'
    rw [xor_loop_functional ks mem dst.off src.off src.len hk (by omega) hs (by omega)]

theorem salsaXor_spec (ks mem : Bytes) (out inp : Sl) (hk : inp.len ≤ ks.length)
    (hd : out.off + out.len ≤ mem.length) (hs : inp.off + inp.len ≤ mem.length) :
    salsaXor ks mem out inp =
      if out.len < inp.len ∨ inexactOverlap ⟨out.off, inp.len⟩ inp = true then .panic
      else .ok [] (wr mem out.off (xorBytes (rd mem inp.off inp.len) (ks.take inp.len))) := by
  unfold salsaXor
  by_cases h1 : out.len < inp.len
  · simp [h1]
  by_cases h2 : inexactOverlap ⟨out.off, inp.len⟩ inp = true
  · simp [h1, h2]
  · simp only [h1, h2, if_false, false_or]
    have h2' : inexactOverlap ⟨out.off, inp.len⟩ ⟨inp.off, inp.len⟩ = false := by simpa using h2
    have := not_inexact_cases _ _ _ h2'
    by_cases h0 : inp.len = 0
    · simp [h0, xorLoop, chunkLoop, wr, xorBytes, rd]
    rw [xor_loop_functional ks mem out.off inp.off inp.len hk (by omega) hs (by omega)]

theorem oracleG_length (orig out : Bytes) (o : Nat) (b : Bytes) : (oracleG orig out o b).length = b.length := by
  unfold oracleG
  split <;> simp [zeros]

theorem sum_replicate (k c : Nat) : sum (List.replicate k c) = k * c := by
  induction k with
  | zero => simp [sum]
  | succ k ih => simp [List.replicate_succ, sum, ih, Nat.succ_mul]; omega

theorem mapChunks_oracle (orig out : Bytes) (k o : Nat) (ho : orig.length = o + 16 * k)
    (hout : out.length = o + 16 * k) :
    mapChunks (oracleG orig out) (List.replicate k 16) o (orig.drop o) = out.drop o := by
  induction k generalizing o with
  | zero =>
    have h1 : out.drop o = [] := List.drop_eq_nil_of_le (by omega)
    simp [mapChunks, h1]
  | succ k ih =>
    simp only [List.replicate_succ, mapChunks, List.drop_drop]
    have hl : ((orig.drop o).take 16).length = 16 := by simp; omega
    have hg : oracleG orig out o ((orig.drop o).take 16) = (out.drop o).take 16 := by
      unfold oracleG
      rw [hl, if_pos rfl, List.take_append_of_le_length (by simp; omega)]
    rw [hg, ih (o + 16) (by omega) (by omega), ← List.drop_drop, List.take_append_drop]

/-- `xts.Encrypt` / `Decrypt`: panic on a short dst, a length that is not a multiple of 16 or an inexact
    overlap; otherwise (separate buffers or exactly in place) the arena holds the sector computed on
    separate buffers at dst and is unchanged elsewhere -/
theorem xtsCrypt_spec (out mem : Bytes) (dst src : Sl) (hout : out.length = src.len)
    (hd : dst.off + dst.len ≤ mem.length) (hs : src.off + src.len ≤ mem.length) :
    xtsCrypt (rd mem src.off src.len) out mem dst src =
      if dst.len < src.len ∨ src.len % 16 ≠ 0 ∨ inexactOverlap ⟨dst.off, src.len⟩ src = true then .panic
      else .ok [] (wr mem dst.off out) := by
  unfold xtsCrypt
  by_cases h1 : dst.len < src.len
  · simp [h1]
  by_cases h2 : src.len % 16 ≠ 0
  · simp [h1, h2]
  by_cases h3 : inexactOverlap ⟨dst.off, src.len⟩ src = true
  · simp [h1, h2, h3]
  · simp only [h1, h2, h3, if_false, false_or]
    have h3' : inexactOverlap ⟨dst.off, src.len⟩ ⟨src.off, src.len⟩ = false := by simpa using h3
    have hc := not_inexact_cases _ _ _ h3'
    have hk : src.len / 16 * 16 = src.len := by omega
    have hsum : sum (List.replicate (src.len / 16) 16) = src.len := by rw [sum_replicate]; exact hk
    rw [chunk_loop_functional _ (oracleG_length _ _) _ mem dst.off src.off (by rw [hsum]; omega)
      (by rw [hsum]; exact hs) (by rw [hsum]; omega), hsum]
    have hrl : (rd mem src.off src.len).length = src.len := rd_length _ _ _ hs
    have := mapChunks_oracle (rd mem src.off src.len) out (src.len / 16) 0 (by rw [hrl]; omega) (by omega)
    simp only [List.drop_zero] at this
    rw [this]

/-! ## 3b. chacha20poly1305 Seal / Open: in place (the documented `plaintext[:0]` / `ciphertext[:0]` prefix, or
   any dst whose appended region starts exactly at the input) = separate buffers -/

theorem xor_cancel (p c : Bytes) (h : p.length = c.length) : xorBytes p (xorBytes c p) = c := by
  induction p generalizing c with
  | nil => cases c with
    | nil => rfl
    | cons _ _ => simp at h
  | cons a p ih =>
    cases c with
    | nil => simp at h
    | cons b c =>
      simp only [List.length_cons, Nat.add_right_cancel_iff] at h
      simp only [xorBytes, List.zipWith_cons_cons] at ih ⊢
      rw [ih c h]
      congr 1
      rw [UInt8.xor_comm b a, ← UInt8.xor_assoc, UInt8.xor_self, UInt8.zero_xor]

/-- what the guard leaves when the output region (`n + e` bytes) is longer than the input (`n` bytes) -/
theorem not_inexact_cases_longer (d s n e : Nat) (h : inexactOverlap ⟨d, n + e⟩ ⟨s, n⟩ = false) :
    n = 0 ∨ d = s ∨ d + (n + e) ≤ s ∨ s + n ≤ d := by
  by_cases hn : n = 0
  · exact Or.inl hn
  by_cases hds : d = s
  · exact Or.inr (Or.inl hds)
  have : ¬ (inexactOverlap ⟨d, n + e⟩ ⟨s, n⟩ = true) := by simp [h]
  rw [inexactOverlap_iff] at this
  simp only [Sl.mem, not_and, ne_eq] at this
  by_cases c : d + (n + e) ≤ s ∨ s + n ≤ d
  · rcases c with c | c
    · exact Or.inr (Or.inr (Or.inl c))
    · exact Or.inr (Or.inr (Or.inr c))
  · exfalso
    apply this ⟨max d s, by omega⟩
    exact hds

/-- the in-place data path shared by Seal and Open: xor with `out xor src`, for a region that starts at the
    input or lies outside it, leaves exactly `out` in the output region -/
theorem xorLoop_oracle (out mem : Bytes) (d s n : Nat) (hout : out.length = n)
    (hd : d + n ≤ mem.length) (hs : s + n ≤ mem.length) (hov : d = s ∨ d + n ≤ s ∨ s + n ≤ d) :
    xorLoop (xorBytes out (rd mem s n)) mem d s n = wr mem d out := by
  have hr : (rd mem s n).length = n := rd_length _ _ _ hs
  have hk : (xorBytes out (rd mem s n)).length = n := by simp [xorBytes_length, hout, hr]
  have e : (xorBytes out (rd mem s n)).take n = xorBytes out (rd mem s n) :=
    List.take_of_length_le (by omega)
  rw [xor_loop_functional _ mem d s n (by omega) hd hs hov, e, xor_cancel _ _ (by rw [hr, hout])]

/-- **Seal**: panic exactly on the guard; otherwise the returned slice is `dst ‖ ct ‖ tag` and — when the
    capacity is reused — the arena holds `ct ‖ tag` in the appended region and is unchanged elsewhere, whether
    the region starts exactly at the plaintext (in place) or is disjoint from it: the same bytes as on
    separate buffers -/
theorem aeadSeal_spec (ct tag mem : Bytes) (dst : Dst) (pt ad : Sl) (hct : ct.length = pt.len)
    (htag : tag.length = 16) (hp : pt.off + pt.len ≤ mem.length) (hdst : dst.off + dst.cap ≤ mem.length) :
    aeadSeal ct tag mem dst pt ad =
      if inexactOverlapO (sliceForAppend dst (pt.len + 16)) pt = true ∨
         anyOverlapO (sliceForAppend dst (pt.len + 16)) ad = true then .panic
      else match sliceForAppend dst (pt.len + 16) with
        | none => .ok (rd mem dst.off dst.len ++ ct ++ tag) mem
        | some o => .ok (rd (wr mem o.off (ct ++ tag)) dst.off (dst.len + pt.len + 16)) (wr mem o.off (ct ++ tag)) := by
  unfold aeadSeal
  by_cases h1 : inexactOverlapO (sliceForAppend dst (pt.len + 16)) pt = true
  · simp [h1]
  by_cases h2 : anyOverlapO (sliceForAppend dst (pt.len + 16)) ad = true
  · simp [h1, h2]
  simp only [h1, h2, or_self, if_false]
  cases hs : sliceForAppend dst (pt.len + 16) with
  | none => rfl
  | some o =>
    have ho : o = ⟨dst.off + dst.len, pt.len + 16⟩ ∧ dst.len + (pt.len + 16) ≤ dst.cap := by
      simp only [sliceForAppend] at hs
      split at hs
      · cases hs; exact ⟨rfl, by omega⟩
      · cases hs
    obtain ⟨ho, hcap⟩ := ho
    simp only [hs, inexactOverlapO] at h1
    have h1' : inexactOverlap ⟨o.off, pt.len + 16⟩ ⟨pt.off, pt.len⟩ = false := by
      rw [ho] at h1 ⊢; simpa using h1
    have hc := not_inexact_cases_longer _ _ _ _ h1'
    have hoo : o.off = dst.off + dst.len := by rw [ho]
    simp only []
    by_cases hn : pt.len = 0
    · have hct0 : ct = [] := List.eq_nil_of_length_eq_zero (by omega)
      subst hct0
      simp [hn, xorLoop, chunkLoop, xorBytes, rd]
    · rw [xorLoop_oracle ct mem o.off pt.off pt.len hct (by omega) hp (by omega)]
      have := wr_wr_adjacent mem o.off ct tag (by omega)
      rw [hct] at this
      rw [this]
      simp

/-- **Open** (authentic input): panic exactly on the guard; otherwise the appended region holds the
    plaintext, in place or not -/
theorem aeadOpen_spec (pt mem : Bytes) (dst : Dst) (ct ad : Sl) (h16 : 16 ≤ ct.len) (hpt : pt.length = ct.len - 16)
    (hc : ct.off + ct.len ≤ mem.length) (hdst : dst.off + dst.cap ≤ mem.length) :
    aeadOpen pt mem dst ct ad =
      if inexactOverlapO (sliceForAppend dst (ct.len - 16)) ⟨ct.off, ct.len - 16⟩ = true ∨
         anyOverlapO (sliceForAppend dst (ct.len - 16)) ⟨ct.off + (ct.len - 16), 16⟩ = true ∨
         anyOverlapO (sliceForAppend dst (ct.len - 16)) ad = true then .panic
      else match sliceForAppend dst (ct.len - 16) with
        | none => .ok (rd mem dst.off dst.len ++ pt) mem
        | some o => .ok (rd (wr mem o.off pt) dst.off (dst.len + (ct.len - 16))) (wr mem o.off pt) := by
  unfold aeadOpen
  by_cases h1 : inexactOverlapO (sliceForAppend dst (ct.len - 16)) ⟨ct.off, ct.len - 16⟩ = true
  · simp [h1]
  by_cases h2 : anyOverlapO (sliceForAppend dst (ct.len - 16)) ⟨ct.off + (ct.len - 16), 16⟩ = true
  · simp [h1, h2]
  by_cases h3 : anyOverlapO (sliceForAppend dst (ct.len - 16)) ad = true
  · simp [h1, h2, h3]
  simp only [h1, h2, h3, or_self, Bool.or_self, if_false]
  cases hs : sliceForAppend dst (ct.len - 16) with
  | none => rfl
  | some o =>
    have ho : o = ⟨dst.off + dst.len, ct.len - 16⟩ ∧ dst.len + (ct.len - 16) ≤ dst.cap := by
      simp only [sliceForAppend] at hs
      split at hs
      · cases hs; exact ⟨rfl, by omega⟩
      · cases hs
    obtain ⟨ho, hcap⟩ := ho
    simp only [hs, inexactOverlapO] at h1
    have h1' : inexactOverlap ⟨o.off, ct.len - 16⟩ ⟨ct.off, ct.len - 16⟩ = false := by
      rw [ho] at h1 ⊢; simpa using h1
    have hcs := not_inexact_cases _ _ _ h1'
    have hoo : o.off = dst.off + dst.len := by rw [ho]
    simp only []
    by_cases hn : ct.len - 16 = 0
    · have hpt0 : pt = [] := List.eq_nil_of_length_eq_zero (by omega)
      subst hpt0
      simp [hn, xorLoop, chunkLoop, xorBytes, rd, wr]
    · rw [xorLoop_oracle pt mem o.off ct.off (ct.len - 16) hpt (by omega) (by omega) (by omega)]
      simp

/-- the panic conditions of the append-style functions, as decided by the model -/
theorem aeadSeal_panics_iff (ct tag mem : Bytes) (dst : Dst) (pt ad : Sl) :
    aeadSeal ct tag mem dst pt ad = .panic ↔
      (inexactOverlapO (sliceForAppend dst (pt.len + 16)) pt = true ∨
       anyOverlapO (sliceForAppend dst (pt.len + 16)) ad = true) := by
  unfold aeadSeal
  by_cases h1 : inexactOverlapO (sliceForAppend dst (pt.len + 16)) pt = true
  · simp [h1]
  by_cases h2 : anyOverlapO (sliceForAppend dst (pt.len + 16)) ad = true
  · simp [h1, h2]
  · simp only [h1, h2, or_self]
    cases sliceForAppend dst (pt.len + 16) <;> simp

/-- the guard of Open as coded: `InexactOverlap(out, ciphertext[:n]) || AnyOverlap(out, tag)`, then the AD -/
theorem aeadOpen_panics_iff (pt mem : Bytes) (dst : Dst) (ct ad : Sl) :
    aeadOpen pt mem dst ct ad = .panic ↔
      (inexactOverlapO (sliceForAppend dst (ct.len - 16)) ⟨ct.off, ct.len - 16⟩ = true ∨
       anyOverlapO (sliceForAppend dst (ct.len - 16)) ⟨ct.off + (ct.len - 16), 16⟩ = true ∨
       anyOverlapO (sliceForAppend dst (ct.len - 16)) ad = true) := by
  unfold aeadOpen
  by_cases h1 : inexactOverlapO (sliceForAppend dst (ct.len - 16)) ⟨ct.off, ct.len - 16⟩ = true
  · simp [h1]
  by_cases h2 : anyOverlapO (sliceForAppend dst (ct.len - 16)) ⟨ct.off + (ct.len - 16), 16⟩ = true
  · simp [h1, h2]
  by_cases h3 : anyOverlapO (sliceForAppend dst (ct.len - 16)) ad = true
  · simp [h1, h2, h3]
  · simp only [h1, h2, h3, or_self, Bool.or_self]
    cases sliceForAppend dst (ct.len - 16) <;> simp

/-- **the guard of Open is complete and exact**: for an in-place appended region `out` of `len(ct)-16` bytes,
    `InexactOverlap(out, ct[:n]) || AnyOverlap(out, tag)` holds exactly when `out` overlaps the *whole*
    ciphertext (tag included) inexactly — the documented condition -/
theorem open_guard_exact (o : Sl) (ct : Sl) (hct : 16 ≤ ct.len) (ho : o.len = ct.len - 16) :
    (inexactOverlap o ⟨ct.off, ct.len - 16⟩ = true ∨ anyOverlap o ⟨ct.off + (ct.len - 16), 16⟩ = true) ↔
      inexactOverlap o ct = true := by
  rw [inexactOverlap_iff, inexactOverlap_iff, anyOverlap_iff]
  simp only [Sl.mem]
  constructor
  · rintro (⟨⟨i, h1, h2⟩, hne⟩ | ⟨i, h1, h2⟩)
    · exact ⟨⟨i, h1, by omega⟩, hne⟩
    · exact ⟨⟨i, h1, by omega⟩, by omega⟩
  · rintro ⟨⟨i, h1, h2⟩, hne⟩
    by_cases hi : i < ct.off + (ct.len - 16)
    · exact Or.inl ⟨⟨i, h1, by omega⟩, hne⟩
    · exact Or.inr ⟨i, h1, by omega⟩

theorem appendNoOverlap_panics_iff (res mem : Bytes) (dst : Dst) (inp : Sl) :
    appendNoOverlap res mem dst inp = .panic ↔ anyOverlapO (sliceForAppend dst res.length) inp = true := by
  unfold appendNoOverlap
  by_cases h : anyOverlapO (sliceForAppend dst res.length) inp = true
  · simp [h]
  · simp only [h]
    cases sliceForAppend dst res.length <;> simp

/-- a fresh allocation (capacity too small) never panics and leaves the arena untouched -/
theorem append_alloc (res mem : Bytes) (dst : Dst) (inp : Sl) (h : dst.cap < dst.len + res.length) :
    appendNoOverlap res mem dst inp = .ok (rd mem dst.off dst.len ++ res) mem := by
  have : sliceForAppend dst res.length = none := by simp [sliceForAppend]; omega
  simp [appendNoOverlap, this, anyOverlapO]

/-- Seal with the documented prefix `plaintext[:0]` (exact overlap) and enough capacity does not panic
    when the AD is elsewhere -/
theorem aeadSeal_inplace_ok (ct tag mem : Bytes) (pt ad : Sl) (cap : Nat) (hcap : pt.len + 16 ≤ cap)
    (had : anyOverlap ⟨pt.off, pt.len + 16⟩ ad = false) :
    aeadSeal ct tag mem ⟨pt.off, 0, cap⟩ pt ad ≠ .panic := by
  rw [Ne, aeadSeal_panics_iff]
  have : sliceForAppend ⟨pt.off, 0, cap⟩ (pt.len + 16) = some ⟨pt.off, pt.len + 16⟩ := by
    simp [sliceForAppend]; omega
  simp [this, inexactOverlapO, anyOverlapO, inexactOverlap, had]

/-! ## non-vacuity: concrete instances of the hypotheses above -/

/-- exact overlap (dst = src) and disjoint buffers satisfy the loop hypothesis; an inexact overlap does not -/
example : inexactOverlap ⟨4, 8⟩ ⟨4, 8⟩ = false ∧ inexactOverlap ⟨20, 8⟩ ⟨4, 8⟩ = false ∧
    inexactOverlap ⟨5, 8⟩ ⟨4, 8⟩ = true ∧ anyOverlap ⟨4, 8⟩ ⟨11, 1⟩ = true ∧ anyOverlap ⟨4, 8⟩ ⟨12, 1⟩ = false := by decide

/-- chacha20 in place on bytes 1..3 of a 5-byte arena: xored in place, neighbours untouched -/
example : chachaXor [1, 2, 4] [10, 20, 30, 40, 50] ⟨1, 3⟩ ⟨1, 3⟩ = .ok [] [10, 21, 28, 44, 50] := by decide
/-- dst one byte after src panics; a short dst panics; an empty src is a no-op -/
example : chachaXor [1, 2, 4] [10, 20, 30, 40, 50] ⟨2, 3⟩ ⟨1, 3⟩ = .panic ∧
    chachaXor [1, 2, 4] [10, 20, 30, 40, 50] ⟨1, 2⟩ ⟨1, 3⟩ = .panic ∧
    chachaXor [] [10, 20] ⟨1, 0⟩ ⟨0, 0⟩ = .ok [] [10, 20] := by decide

/-- a word-wise then byte-wise schedule (chunks 4,4,1,1) in place -/
example : chunkLoop (xorG (List.replicate 10 0xff)) [4, 4, 1, 1] 0 (List.replicate 12 0x0f) 1 1 =
    wr (List.replicate 12 0x0f) 1 (List.replicate 10 0xf0) := by decide

/-- XTS on one 16-byte block in place (oracle: the sector computed on separate buffers), and the panics -/
example : xtsCrypt (rd (List.replicate 20 3) 2 16) (List.replicate 16 7) (List.replicate 20 3) ⟨2, 16⟩ ⟨2, 16⟩ =
      .ok [] ([3, 3] ++ List.replicate 16 7 ++ [3, 3]) ∧
    xtsCrypt (rd (List.replicate 20 3) 2 16) (List.replicate 16 7) (List.replicate 20 3) ⟨3, 16⟩ ⟨2, 16⟩ = .panic ∧
    xtsCrypt (rd (List.replicate 20 3) 2 15) (List.replicate 15 7) (List.replicate 20 3) ⟨2, 15⟩ ⟨2, 15⟩ = .panic := by
  decide

/-- Seal with the documented prefix plaintext[:0] and capacity for the tag: ct ‖ tag replaces the plaintext -/
example : aeadSeal [7, 8] (List.replicate 16 1) (List.replicate 20 0) ⟨0, 0, 18⟩ ⟨0, 2⟩ ⟨19, 1⟩ =
    .ok ([7, 8] ++ List.replicate 16 1) ([7, 8] ++ List.replicate 16 1 ++ [0, 0]) := by decide
/-- one byte of capacity short: a fresh allocation, the arena is untouched -/
example : aeadSeal [7, 8] (List.replicate 16 1) (List.replicate 20 0) ⟨0, 0, 17⟩ ⟨0, 2⟩ ⟨19, 1⟩ =
    .ok ([7, 8] ++ List.replicate 16 1) (List.replicate 20 0) := by decide
/-- the AD inside the appended region panics -/
example : aeadSeal [7, 8] (List.replicate 16 1) (List.replicate 20 0) ⟨0, 0, 18⟩ ⟨0, 2⟩ ⟨17, 1⟩ = .panic := by decide
/-- Open in place with ciphertext[:0] -/
example : aeadOpen [5] (List.replicate 20 9) ⟨2, 0, 17⟩ ⟨2, 17⟩ ⟨0, 0⟩ =
    .ok [5] ([9, 9, 5] ++ List.replicate 17 9) := by decide
/-- secretbox-style: message[:0] as out overlaps the message → panic; a disjoint out with capacity is written -/
example : appendNoOverlap [1, 2, 3] (List.replicate 8 0) ⟨0, 0, 8⟩ ⟨0, 2⟩ = .panic ∧
    appendNoOverlap [1, 2, 3] (List.replicate 8 0) ⟨4, 1, 4⟩ ⟨0, 2⟩ = .ok [0, 1, 2, 3] [0, 0, 0, 0, 0, 1, 2, 3] := by decide

/-! ## 4. Open: overlap with the tag bytes (fixed in /repo 6713907; see known_findings.txt) -/

/-- whenever the appended region of Open overlaps the ciphertext *including its tag* inexactly, Open panics -/
theorem open_guard_complete (pt mem : Bytes) (dst : Dst) (ct ad : Sl) (hct : 16 ≤ ct.len)
    (h : inexactOverlapO (sliceForAppend dst (ct.len - 16)) ct = true) :
    aeadOpen pt mem dst ct ad = .panic := by
  rw [aeadOpen_panics_iff]
  cases hs : sliceForAppend dst (ct.len - 16) with
  | none => simp [hs, inexactOverlapO] at h
  | some o =>
    have ho : o.len = ct.len - 16 := by
      simp only [sliceForAppend] at hs
      split at hs
      · cases hs; rfl
      · cases hs
    simp only [hs, inexactOverlapO] at h
    have := (open_guard_exact o ct hct ho).mpr h
    simp only [inexactOverlapO, anyOverlapO]
    rcases this with h1 | h1
    · exact Or.inl h1
    · exact Or.inr (Or.inl h1)

/-- non-vacuity (the former gap): ciphertext buf[0:31], dst = buf[14:15:30] — the appended region buf[15:30]
    lies inside the tag; Open now panics -/
example : aeadOpen [] (zeros 31) ⟨14, 1, 16⟩ ⟨0, 31⟩ ⟨0, 0⟩ = .panic := by decide

end XC.C53
