/-
  C36 — property theorems over `XC.C36.onePacket` / local calls / shutdown (model of ssh/mux.go + channel.go).

      mux_total (Proofs/C36)             no panic outcome for any non-empty packet; invariant "listed channels are open"
      unknown_channel                    error, or (channel request) untouched state + failure reply iff want-reply
      global_reply_dropped_when_not_pending, localGlobal_drains, gate_localGlobal, gate_init, gate_onePacket,
      gate_completions, gate_shutdown, global_reply_needs_waiter
                                         global reply gate: `Gate` (a reply is buffered only while a SendRequest
                                         waits) is an invariant of every model transition
      chan_reply_only_when_pending       CHANNEL_SUCCESS/FAILURE with no request in flight: dropped, state untouched
      chan_reply_queued_when_pending, chanReq_opens_gate_and_drains, chanReq_forgets_queue, chan_reply_fresh
                                         channel reply gate: sentRequestMu / gate / drain of the 16-slot msg queue;
                                         the reply returned is the first one received after the request started
      dup_confirm_rejected               confirmation for a decided or inbound channel ⇒ protocol error
      shutdown_closes_all, closed_channel_releases_callers
      non_channel_message_is_error, mux_never_blocks
                                         no packet parks the loop in a blocking send on ch.msg (the former finding
                                         mux-blocked-by-unsolicited-channel-messages, fixed in /repo 18df6c0)
      listed_init / listed_localOpen / listed_localGlobal / chanOk_chanReqCore / chanOk_completeChan /
      listed_completions                 the invariant `Listed` also survives the local calls
-/
import XC.Proofs.C36
set_option maxRecDepth 2000
namespace XC.C36

/-- a packet whose message number is not handled at mux level and that is long enough to carry a channel id -/
def chanPacket (p : Bytes) (id : Nat) : Prop :=
  ∃ t body r, p = t :: body ∧ t.toNat ≠ 90 ∧ t.toNat ≠ 80 ∧ t.toNat ≠ 81 ∧ t.toNat ≠ 82 ∧ t.toNat ≠ 192 ∧
    5 ≤ p.length ∧ rdU32 body = some (id, r)

/-- **unknown_channel**: a packet for an id that is not in chanList either ends the connection (error), or — a
    well-formed channel request — leaves the state untouched and is answered with CHANNEL_FAILURE iff it wanted a reply. -/
theorem unknown_channel {m : Mux} {p : Bytes} {id : Nat} {o : Outcome} {m' : Mux} {ev : Evs}
    (hp : chanPacket p id) (hunk : getChan m id = none) (h : onePacket m p = some (o, m', ev)) :
    (o = .err ∧ m' = m ∧ ev = []) ∨
    (o = .ok ∧ m' = m ∧ ∃ pid name want data, decode p = .ok (.chanRequest pid name want data) ∧
        ev = if want then [s!"w100:{pid}"] else []) := by
  obtain ⟨t, body, r, rfl, h90, h80, h81, h82, h192, hlen, hid⟩ := hp
  unfold onePacket at h
  simp only [h90, h80, h81, h82, h192, if_false, Bool.or_self, decide_false, Bool.false_eq_true] at h
  have : ¬ (t :: body).length < 5 := by omega
  simp only [this, if_false, hid, hunk] at h
  split at h
  · cases h; exact Or.inl ⟨rfl, rfl, rfl⟩
  · cases h; exact Or.inl ⟨rfl, rfl, rfl⟩
  · rename_i pid name want data hd
    split at h
    · rename_i hw
      cases h
      exact Or.inr ⟨rfl, rfl, pid, name, want, data, hd, by simp [hw]⟩
    · rename_i hw
      cases h
      exact Or.inr ⟨rfl, rfl, pid, name, want, data, hd, by simp [hw]⟩
  · cases h; exact Or.inl ⟨rfl, rfl, rfl⟩

/-- **reply_only_when_pending (global)**: a REQUEST_SUCCESS / REQUEST_FAILURE that arrives while no SendRequest is
    waiting is dropped without touching the state. -/
theorem global_reply_dropped_when_not_pending (m : Mux) (t : UInt8) (b : Bytes)
    (ht : t.toNat = 81 ∨ t.toNat = 82) (hnp : m.globalPending = false) :
    onePacket m (t :: b) = some (.ok, m, []) := by
  rcases ht with ht | ht <;>
  simp [onePacket, ht, decode, decodeBody, hnp]

/-- the gate: a buffered global reply exists only while a SendRequest is in flight -/
def Gate (m : Mux) : Prop := m.globalBuf.isSome = true → m.globalPending = true

/-- `SendRequest(wantReply)` starts with an empty reply buffer (stale replies are drained) and the gate open -/
theorem localGlobal_drains (m : Mux) (k : Nat) :
    (localGlobal m k true).1.globalBuf = none := by
  unfold localGlobal
  simp only [if_true]
  split <;> rfl

theorem gate_localGlobal {m : Mux} (k : Nat) (w : Bool) (h : Gate m) : Gate (localGlobal m k w).1 := by
  unfold localGlobal Gate
  cases w
  · simp only [Bool.false_eq_true, if_false, Bool.not_false, if_true]
    split
    · intro hb; exact h hb
    · exact h
  · simp only [if_true]
    split <;> simp

/-- **dup_confirm_rejected**: an OPEN_CONFIRMATION for a channel that was opened by the peer, or that has already
    been confirmed / failed, is a protocol error (the connection is torn down); nothing is delivered. -/
theorem dup_confirm_rejected {m : Mux} {id : Nat} {c : Chan} {p : Bytes}
    (hc : getChan m id = some c) (hbad : c.inbound = true ∨ c.decided = true)
    (hp : chanPacket p id) (ht : ∃ b, p = 91 :: b)
    (hd : ∃ i my win mp ex, decode p = .ok (.openConfirm i my win mp ex)) :
    onePacket m p = some (.err, m, []) := by
  obtain ⟨t, body, r, rfl, h90, h80, h81, h82, h192, hlen, hid⟩ := hp
  obtain ⟨b, hb⟩ := ht
  cases hb
  obtain ⟨i, my, win, mp, ex, hd⟩ := hd
  have hresp : responseOk c = none := by
    unfold responseOk
    rcases hbad with h | h <;> simp [h]
  unfold onePacket
  simp only [show (91 : UInt8).toNat = 91 by rfl, show ¬ (91 = 90) by decide, show ¬ (91 = 192) by decide, if_false]
  have : ¬ (91 :: body : Bytes).length < 5 := by omega
  simp only [this, if_false, hid, hc]
  simp [handleChanPacket, hd, hresp]

/-- **shutdown_closes_all**: when the loop exits no channel stays listed, every channel that was listed is torn
    down (msg / request stream closed, buffers at EOF), and after the blocked callers have been woken none is left
    waiting: OpenChannel, channel SendRequest and global SendRequest all return. -/
theorem shutdown_closes_all (m : Mux) :
    (shutdown m).ended = true ∧ (shutdown m).chans = [] ∧ (shutdown m).globalBuf = none ∧
    (∀ c, some c ∈ m.chans → ∃ c' ∈ (shutdown m).detached, c'.uid = c.uid ∧ c'.closed = true ∧ c'.sentClose = true) := by
  refine ⟨rfl, rfl, rfl, ?_⟩
  intro c hc
  refine ⟨{ c with closed := true, sentClose := true }, ?_, rfl, rfl, rfl⟩
  simp only [shutdown, List.mem_append, List.mem_map, List.mem_filterMap]
  exact Or.inr ⟨c, ⟨some c, hc, rfl⟩, rfl⟩

/-- a caller blocked on a torn-down channel returns (with an error unless a message is still queued) -/
theorem closed_channel_releases_callers (c : Chan) (hcl : c.closed = true) :
    (completeChan c).1.opener = none ∧ (completeChan c).1.requester = none ∨
    (c.opener.isSome ∧ (completeChan c).1.opener = none) := by
  unfold completeChan
  cases ho : c.opener with
  | some k =>
    right
    refine ⟨rfl, ?_⟩
    cases hq : c.msgQ with
    | nil => simp [hcl]
    | cons x q => cases x <;> simp
  | none =>
    left
    cases hr : c.requester with
    | none => simp [ho, hr]
    | some k =>
      cases hq : c.msgQ with
      | nil => simp [hcl, ho]
      | cons x q => cases x <;> simp [ho]

/-- non-vacuity: data for an unknown channel ends the connection; an unsolicited global reply is dropped;
    a solicited one is buffered for the waiting caller -/
example : onePacket Mux.init [94, 0, 0, 0, 5, 0, 0, 0, 0] = some (.err, Mux.init, []) := by
  simp [onePacket, Mux.init, rdU32, getChan, decode, decodeBody]

example : (onePacket { Mux.init with globalPending := true } [81]).map (·.2.1.globalBuf) = some (some .success) := by
  simp [onePacket, Mux.init, decode, decodeBody]



/-- **chan_reply_only_when_pending**: a CHANNEL_SUCCESS / CHANNEL_FAILURE for a known channel on which no
    SendRequest(wantReply) is in flight is dropped: no state change, nothing queued, nothing written. -/
theorem chan_reply_only_when_pending {m : Mux} {id : Nat} {c : Chan} (t : UInt8) (body : Bytes)
    (ht : t.toNat = 99 ∨ t.toNat = 100) (hid : rdU32 body = some (id, []))
    (hc : getChan m id = some c) (hnp : c.reqPending = false) :
    onePacket m (t :: body) = some (.ok, m, []) := by
  have hlen : body.length = 4 := by
    match body, hid with
    | [a, b, c, d], _ => rfl
  have h5 : ¬ (t :: body).length < 5 := by simp [hlen]
  rcases ht with ht | ht <;>
  (simp [onePacket, ht, hid, hc, handleChanPacket, decode, decodeBody, done, hnp]; omega)

/-- …and while one is in flight the reply is queued for it (non-blocking send) -/
theorem chan_reply_queued_when_pending {m : Mux} {id : Nat} {c : Chan} (body : Bytes)
    (hid : rdU32 body = some (id, [])) (hc : getChan m id = some c) (hp : c.reqPending = true)
    (hcl : c.closed = false) (hroom : c.msgQ.length < 16) :
    onePacket m (99 :: body) = some (.ok, setChan m id (some { c with msgQ := c.msgQ ++ [.success] }), []) := by
  have hlen : body.length = 4 := by
    match body, hid with
    | [a, b, c, d], _ => rfl
  have h5 : ¬ (99 :: body : Bytes).length < 5 := by simp [hlen]
  have hr : ¬ c.msgQ.length ≥ 16 := by omega
  simp [onePacket, show (99 : UInt8).toNat = 99 by rfl, hid, hc, handleChanPacket, decode, decodeBody, done, hp,
    tryPushMsg, hcl, hr]
  omega

/-- `SendRequest(wantReply)` takes the request mutex, opens the gate and throws away whatever was still buffered in
    `ch.msg` before it sends -/
theorem chanReq_opens_gate_and_drains (c : Chan) (k : Nat) (hd : c.decided = true) (hs : c.sentClose = false) :
    (chanReqCore c k true).1 = { c with reqPending := true, msgQ := [], requester := some k } := by
  simp [chanReqCore, hd, hs]

/-- so the outcome of a new request cannot depend on stale queue content -/
theorem chanReq_forgets_queue (c : Chan) (k : Nat) (q1 q2 : List QMsg) (hd : c.decided = true) :
    chanReqCore { c with msgQ := q1 } k true = chanReqCore { c with msgQ := q2 } k true := by
  simp only [chanReqCore, hd]
  cases c.sentClose <;> simp

/-- **reply matched to the request in flight**: whatever was queued before, the reply a wantReply request returns is
    the first CHANNEL_SUCCESS / CHANNEL_FAILURE the mux receives after the request was started -/
theorem chan_reply_fresh (c : Chan) (k : Nat) (stale : List QMsg) (x : QMsg)
    (hd : c.decided = true) (hs : c.sentClose = false) (hcl : c.closed = false) (hop : c.opener = none) :
    let c1 := (chanReqCore { c with msgQ := stale } k true).1
    let c2 := (tryPushMsg c1 x).2
    (completeChan c2).2.1 =
      match x with
      | .success => [s!"R{k}=ok"]
      | .reqFailure => [s!"R{k}=fail"]
      | _ => [s!"R{k}=err"] := by
  simp only [chanReqCore, hd, hs, tryPushMsg, hcl, completeChan, hop]
  cases x <;> simp



/-- SSH_MSG_SERVICE_ACCEPT with an empty service name: 5 bytes; read as a channel packet it addresses channel 0 -/
def svc : Bytes := [6, 0, 0, 0, 0]

/-- **non_channel_message_is_error** (repo commit 18df6c0): a message that decode() accepts but that is not a
    channel message, addressed to a known channel, ends the connection — it is NOT queued on `ch.msg` any more -/
theorem non_channel_message_is_error (m : Mux) (c : Chan) (h0 : getChan m 0 = some c) :
    onePacket m svc = some (.err, m, []) := by
  simp [onePacket, svc, rdU32, h0, handleChanPacket, decode, decodeBody, rdStr, done]

/-- **mux_never_blocks** (was: the witness mux_can_block_on_unsolicited, true of the code before 18df6c0): under the
    invariant `Listed` — listed channels are open, an undecided channel has an empty `msg` queue, the reply gate is
    open only on decided channels — no packet makes the loop park in a blocking `ch.msg <- msg`.  The only blocking
    sends left are those of the open confirmation / failure; they are gated by responseMessageReceived (undecided
    ⇒ queue empty, and the channel becomes decided), so each happens at most once per channel and finds room. -/
theorem mux_never_blocks {m : Mux} {p : Bytes} {o : Outcome} {m' : Mux} {ev : Evs}
    (hl : Listed m) (hne : p ≠ []) (h : onePacket m p = some (o, m', ev)) : o ≠ .blocks ∧ Listed m' :=
  ⟨(mux_total hl hne h).2.1, (mux_total hl hne h).2.2⟩

/-! ### the invariant also survives every local call -/

theorem listed_init : Listed Mux.init := by intro c hc; simp [Mux.init] at hc

theorem listed_localOpen {m : Mux} (hl : Listed m) (k : Nat) : Listed (localOpen m k).1 := by
  unfold localOpen
  have hnew : ChanOk { newChan false m.nextUid with opener := some k } := ⟨rfl, fun _ => rfl, by simp [newChan]⟩
  have hadd := listed_addChan (m := { m with nextUid := m.nextUid + 1 }) hl _ hnew
  simp only
  split
  · exact listed_setChan_some hadd _ _ ⟨rfl, fun _ => rfl, by simp [newChan]⟩
  · exact hadd

theorem listed_localGlobal {m : Mux} (hl : Listed m) (k : Nat) (w : Bool) : Listed (localGlobal m k w).1 := by
  unfold localGlobal
  cases w <;> simp only [Bool.false_eq_true, if_false, if_true] <;> (split <;> first | exact hl | (split <;> exact hl))

theorem chanOk_chanReqCore {c : Chan} (h : ChanOk c) (k : Nat) (w : Bool) : ChanOk (chanReqCore c k w).1 := by
  obtain ⟨hcl, hq, hrp⟩ := h
  unfold chanReqCore
  cases hd : c.decided
  · simp; exact ⟨hcl, hq, hrp⟩
  · cases w <;> cases hs : c.sentClose <;> simp [hd, hs] <;>
      first
        | exact ⟨hcl, by simp [hd], by simp [hd]⟩
        | exact ⟨hcl, fun h => by simp [hd] at h, fun _ => hd⟩

theorem chanOk_completeChan {c : Chan} (h : ChanOk c) : ChanOk (completeChan c).1 := by
  obtain ⟨hcl, hq, hrp⟩ := h
  unfold completeChan
  cases ho : c.opener with
  | some k =>
    cases hm : c.msgQ with
    | nil => simp only; split <;> exact ⟨hcl, by simpa [hm] using hq, hrp⟩
    | cons x q =>
      have hdec : c.decided = true := by
        cases hd : c.decided with
        | true => rfl
        | false => have := hq hd; rw [hm] at this; cases this
      cases x <;> exact ⟨hcl, fun h => by simp [hdec] at h, fun _ => hdec⟩
  | none =>
    cases hr : c.requester with
    | none => exact ⟨hcl, hq, hrp⟩
    | some k =>
      cases hm : c.msgQ with
      | nil => simp only; split
               · exact ⟨hcl, by simpa [hm] using hq, by simp⟩
               · exact ⟨hcl, by simpa [hm] using hq, hrp⟩
      | cons x q =>
        have hdec : c.decided = true := by
          cases hd : c.decided with
          | true => rfl
          | false => have := hq hd; rw [hm] at this; cases this
        cases x <;> exact ⟨hcl, fun h => by simp [hdec] at h, by simp⟩

theorem listed_completions {m : Mux} (hl : Listed m) : Listed (completions m).1 := by
  unfold completions
  intro c hc
  simp only at hc
  have hmem : ∀ (m0 : Mux), m0.chans = m.chans →
      some c ∈ m0.chans.map (Option.map (fun c => (completeChan c).1)) → ChanOk c := by
    intro m0 hm0 hin
    rw [hm0] at hin
    obtain ⟨oc, hoc, heq⟩ := List.mem_map.mp hin
    cases oc with
    | none => simp at heq
    | some c0 =>
      simp at heq; subst heq
      exact chanOk_completeChan (hl c0 hoc)
  split at hc <;> first
    | exact hmem _ rfl hc
    | (split at hc <;> exact hmem _ rfl hc)

def Globals (m m' : Mux) : Prop :=
  m'.globalBuf = m.globalBuf ∧ m'.globalPending = m.globalPending ∧ m'.globalCaller = m.globalCaller

theorem globals_setChan (m : Mux) (id : Nat) (x : Option Chan) : Globals m (setChan m id x) := ⟨rfl, rfl, rfl⟩

theorem globals_handleData (m : Mux) (id : Nat) (c : Chan) (p : Bytes) (hdr code : Nat) :
    Globals m (handleDataPkt m id c p hdr code).2.1 := by
  unfold handleDataPkt
  split
  · exact ⟨rfl, rfl, rfl⟩
  · split
    · exact ⟨rfl, rfl, rfl⟩
    · split
      · exact ⟨rfl, rfl, rfl⟩
      · split <;> exact ⟨rfl, rfl, rfl⟩

theorem globals_handleChan {m : Mux} {id : Nat} {c : Chan} {p : Bytes} {t : Nat} {o : Outcome} {m' : Mux} {ev : Evs}
    (h : handleChanPacket m id c p t = some (o, m', ev)) : Globals m m' := by
  unfold handleChanPacket at h
  split at h
  · simp only [Option.some.injEq] at h
    have := globals_handleData m id c p 9 0
    rw [h] at this; exact this
  · split at h
    · simp only [Option.some.injEq] at h
      have := globals_handleData m id c p 13 ((rdU32 (p.drop 5)).map (·.1) |>.getD 0)
      rw [h] at this; exact this
    · repeat' split at h
      all_goals first
        | (cases h; done)
        | (cases h; exact ⟨rfl, rfl, rfl⟩)
        | (simp only [Option.some.injEq, Prod.mk.injEq] at h; obtain ⟨_, rfl, _⟩ := h; exact ⟨rfl, rfl, rfl⟩)


theorem gate_of_globals {m m' : Mux} (h : Globals m m') (hg : Gate m) : Gate m' := by
  unfold Gate; rw [h.1, h.2.1]; exact hg

theorem globals_addChan (m : Mux) (c : Chan) : Globals m (addChan m c).1 := by
  unfold addChan; split <;> exact ⟨rfl, rfl, rfl⟩

/-- the gate invariant — "a global reply is buffered only while a SendRequest is waiting for one" — is preserved by
    every packet the peer can send -/
theorem gate_onePacket {m : Mux} {p : Bytes} {o : Outcome} {m' : Mux} {ev : Evs}
    (hg : Gate m) (h : onePacket m p = some (o, m', ev)) : Gate m' := by
  unfold onePacket at h
  split at h
  · cases h; exact hg
  · rename_i t8 body
    dsimp only at h
    split at h
    · -- channel open: only chanList changes
      have hadd : ∀ c, Globals m (addChan { m with nextUid := m.nextUid + 1 } c).1 := fun c =>
        globals_addChan { m with nextUid := m.nextUid + 1 } c
      repeat' split at h
      all_goals first
        | (cases h; done)
        | (cases h; exact hg)
        | (cases h; exact gate_of_globals (hadd _) hg)
    · split at h
      · -- global packets
        repeat' split at h
        all_goals first
          | (cases h; done)
          | (cases h; exact hg)
          | (cases h; intro _; simp_all [Gate])
      · split at h
        · repeat' split at h
          all_goals first
            | (cases h; done)
            | (cases h; exact hg)
        · split at h
          · cases h; exact hg
          · split at h
            · cases h; exact hg
            · split at h
              · exact gate_of_globals (globals_handleChan h) hg
              · repeat' split at h
                all_goals first
                  | (cases h; done)
                  | (cases h; exact hg)

theorem gate_init : Gate Mux.init := by simp [Gate, Mux.init]

/-- …and by the return of blocked callers and by the end of the connection: the reply a SendRequest returns is
    consumed together with the closing of the gate -/
theorem gate_completions {m : Mux} (hg : Gate m) : Gate (completions m).1 := by
  unfold completions Gate
  cases hc : m.globalCaller with
  | none => simp; exact hg
  | some k =>
    cases hb : m.globalBuf with
    | some r => cases r <;> simp
    | none =>
      by_cases he : m.ended = true
      · simp [he, hb]
      · simp [he, hb]

theorem gate_shutdown (m : Mux) : Gate (shutdown m) := by simp [Gate, shutdown]

/-- a global reply is handed over only to a waiting caller: with nobody waiting `completions` neither reports a
    G… result nor touches the reply buffer -/
theorem global_reply_needs_waiter (m : Mux) (h : m.globalCaller = none) :
    (completions m).1.globalBuf = m.globalBuf ∧ (completions m).1.globalPending = m.globalPending := by
  simp [completions, h]



/-- non-vacuity of `unknown_channel`: a channel request with want-reply for the never-used id 5 satisfies the
    hypotheses and is answered with CHANNEL_FAILURE (one packet written, state untouched) -/
example : chanPacket [98, 0, 0, 0, 5, 0, 0, 0, 0, 1] 5 ∧ getChan Mux.init 5 = none ∧
    ∃ ev, onePacket Mux.init [98, 0, 0, 0, 5, 0, 0, 0, 0, 1] = some (.ok, Mux.init, ev) ∧ ev.length = 1 := by
  refine ⟨⟨98, _, [0, 0, 0, 0, 1], rfl, by decide, by decide, by decide, by decide, by decide, by decide, rfl⟩,
    by simp [getChan, Mux.init], ?_⟩
  simp [onePacket, Mux.init, rdU32, getChan, decode, decodeBody, rdStr, rdBool]

/-- a mux with one channel opened by us and already confirmed -/
def muxConfirmed : Mux := { Mux.init with chans := [some { newChan false 0 with decided := true, accepted := true }] }

def confirm0 : Bytes := [91, 0, 0, 0, 0, 0, 0, 0, 7, 0, 16, 0, 0, 0, 0, 128, 0]

/-- non-vacuity of `dup_confirm_rejected`: a second confirmation for channel 0 -/
example : onePacket muxConfirmed confirm0 = some (.err, muxConfirmed, []) :=
  dup_confirm_rejected (c := { newChan false 0 with decided := true, accepted := true }) rfl (Or.inr rfl)
    ⟨91, _, [0, 0, 0, 7, 0, 16, 0, 0, 0, 0, 128, 0], rfl, by decide, by decide, by decide, by decide, by decide, by decide, rfl⟩
    ⟨_, rfl⟩ ⟨0, 7, 1048576, 32768, [], by simp [decode, decodeBody, confirm0, rdU32]⟩

/-- non-vacuity of `chan_reply_only_when_pending`: CHANNEL_SUCCESS for channel 0 with no request in flight -/
example : onePacket muxConfirmed [99, 0, 0, 0, 0] = some (.ok, muxConfirmed, []) :=
  chan_reply_only_when_pending (c := { newChan false 0 with decided := true, accepted := true }) 99 [0, 0, 0, 0]
    (Or.inl rfl) rfl rfl rfl

/-- non-vacuity of `mux_total` / `mux_never_blocks`: `Listed muxConfirmed` holds and the packet above is handled -/
example : Listed muxConfirmed := by
  intro c hc
  simp [muxConfirmed, Mux.init] at hc
  subst hc
  exact ⟨rfl, by simp [newChan], by simp [newChan]⟩


/-! ## The former blocked-loop finding
    Before repo commit 18df6c0 the `default:` arm of channel.handlePacket queued every decoded non-channel message
    with a blocking `ch.msg <- msg`; the 17th on an idle channel parked the loop for ever (witness theorem
    `mux_can_block_on_unsolicited`, reproduced on the real code: after the peer's hang-up mux.Wait did not return and
    channel reads stayed blocked — a violation of the clause "when the connection ends every channel and request
    stream is closed"). The arm is now an error; `mux_never_blocks` is the positive statement and the `cls=flood`
    ops are kept as regression cases (the first flood packet must end the connection with everything closed). -/

end XC.C36
