/-
  C36 — property theorems over `XC.C36.onePacket` / local calls / shutdown (model of ssh/mux.go + channel.go).
-/
import XC.Proofs.C36
set_option maxRecDepth 2000
namespace XC.C36

/-- a packet whose message number is not handled at mux level and that is long enough to carry a channel id -/
def chanPacket (p : Bytes) (id : Nat) : Prop :=
  ∃ t body r, p = t :: body ∧ t.toNat ≠ 90 ∧ t.toNat ≠ 80 ∧ t.toNat ≠ 81 ∧ t.toNat ≠ 82 ∧ t.toNat ≠ 192 ∧
    5 ≤ p.length ∧ rdU32 body = some (id, r)

/-- **unknown_channel**: a packet for an id that is not in chanList either ends the connection (error), or — a
    well-formed channel request — leaves the state untouched and is answered with CHANNEL_FAILURE iff it wanted a reply. -/
theorem unknown_channel {m : Mux} {p : Bytes} {id : Nat} {o : Outcome} {m' : Mux} {ev : Evs}
    (hp : chanPacket p id) (hunk : getChan m id = none) (h : onePacket m p = some (o, m', ev)) :
    (o = .err ∧ m' = m ∧ ev = []) ∨
    (o = .ok ∧ m' = m ∧ ∃ pid name want data, decode p = .ok (.chanRequest pid name want data) ∧
        ev = if want then [s!"w100:{pid}"] else []) := by
  obtain ⟨t, body, r, rfl, h90, h80, h81, h82, h192, hlen, hid⟩ := hp
  unfold onePacket at h
  simp only [h90, h80, h81, h82, h192, if_false, Bool.or_self, decide_false, Bool.false_eq_true] at h
  have : ¬ (t :: body).length < 5 := by omega
  simp only [this, if_false, hid, hunk] at h
  split at h
  · cases h
  · cases h; exact Or.inl ⟨rfl, rfl, rfl⟩
  · rename_i pid name want data hd
    split at h
    · rename_i hw
      cases h
      exact Or.inr ⟨rfl, rfl, pid, name, want, data, hd, by simp [hw]⟩
    · rename_i hw
      cases h
      exact Or.inr ⟨rfl, rfl, pid, name, want, data, hd, by simp [hw]⟩
  · cases h; exact Or.inl ⟨rfl, rfl, rfl⟩

/-- **reply_only_when_pending (global)**: a REQUEST_SUCCESS / REQUEST_FAILURE that arrives while no SendRequest is
    waiting is dropped without touching the state. -/
theorem global_reply_dropped_when_not_pending (m : Mux) (t : UInt8) (b : Bytes)
    (ht : t.toNat = 81 ∨ t.toNat = 82) (hnp : m.globalPending = false) :
    onePacket m (t :: b) = some (.ok, m, []) := by
  rcases ht with ht | ht <;>
  simp [onePacket, ht, decode, decodeBody, hnp]

/-- the gate: a buffered global reply exists only while a SendRequest is in flight -/
def Gate (m : Mux) : Prop := m.globalBuf.isSome = true → m.globalPending = true

/-- `SendRequest(wantReply)` starts with an empty reply buffer (stale replies are drained) and the gate open -/
theorem localGlobal_drains (m : Mux) (k : Nat) :
    (localGlobal m k true).1.globalBuf = none := by
  unfold localGlobal
  simp only [if_true]
  split <;> rfl

theorem gate_localGlobal {m : Mux} (k : Nat) (w : Bool) (h : Gate m) : Gate (localGlobal m k w).1 := by
  unfold localGlobal Gate
  cases w
  · simp only [Bool.false_eq_true, if_false, Bool.not_false, if_true]
    split
    · intro hb; exact h hb
    · exact h
  · simp only [if_true]
    split <;> simp

/-- **dup_confirm_rejected**: an OPEN_CONFIRMATION for a channel that was opened by the peer, or that has already
    been confirmed / failed, is a protocol error (the connection is torn down); nothing is delivered. -/
theorem dup_confirm_rejected {m : Mux} {id : Nat} {c : Chan} {p : Bytes}
    (hc : getChan m id = some c) (hbad : c.inbound = true ∨ c.decided = true)
    (hp : chanPacket p id) (ht : ∃ b, p = 91 :: b)
    (hd : ∃ i my win mp ex, decode p = .ok (.openConfirm i my win mp ex)) :
    onePacket m p = some (.err, m, []) := by
  obtain ⟨t, body, r, rfl, h90, h80, h81, h82, h192, hlen, hid⟩ := hp
  obtain ⟨b, hb⟩ := ht
  cases hb
  obtain ⟨i, my, win, mp, ex, hd⟩ := hd
  have hresp : responseOk c = none := by
    unfold responseOk
    rcases hbad with h | h <;> simp [h]
  unfold onePacket
  simp only [show (91 : UInt8).toNat = 91 by rfl, show ¬ (91 = 90) by decide, show ¬ (91 = 192) by decide, if_false]
  have : ¬ (91 :: body : Bytes).length < 5 := by omega
  simp only [this, if_false, hid, hc]
  simp [handleChanPacket, hd, hresp]

/-- **shutdown_closes_all**: when the loop exits no channel stays listed, every channel that was listed is torn
    down (msg / request stream closed, buffers at EOF), and after the blocked callers have been woken none is left
    waiting: OpenChannel, channel SendRequest and global SendRequest all return. -/
theorem shutdown_closes_all (m : Mux) :
    (shutdown m).ended = true ∧ (shutdown m).chans = [] ∧ (shutdown m).globalBuf = none ∧
    (∀ c, some c ∈ m.chans → ∃ c' ∈ (shutdown m).detached, c'.uid = c.uid ∧ c'.closed = true ∧ c'.sentClose = true) := by
  refine ⟨rfl, rfl, rfl, ?_⟩
  intro c hc
  refine ⟨{ c with closed := true, sentClose := true }, ?_, rfl, rfl, rfl⟩
  simp only [shutdown, List.mem_append, List.mem_map, List.mem_filterMap]
  exact Or.inr ⟨c, ⟨some c, hc, rfl⟩, rfl⟩

/-- a caller blocked on a torn-down channel returns (with an error unless a message is still queued) -/
theorem closed_channel_releases_callers (c : Chan) (hcl : c.closed = true) :
    (completeChan c).1.opener = none ∧ (completeChan c).1.requester = none ∨
    (c.opener.isSome ∧ (completeChan c).1.opener = none) := by
  unfold completeChan
  cases ho : c.opener with
  | some k =>
    right
    refine ⟨rfl, ?_⟩
    cases hq : c.msgQ with
    | nil => simp [hcl]
    | cons x q => cases x <;> simp
  | none =>
    left
    cases hr : c.requester with
    | none => simp [ho, hr]
    | some k =>
      cases hq : c.msgQ with
      | nil => simp [hcl, ho]
      | cons x q => cases x <;> simp [ho]

/-- non-vacuity: data for an unknown channel ends the connection; an unsolicited global reply is dropped;
    a solicited one is buffered for the waiting caller -/
example : onePacket Mux.init [94, 0, 0, 0, 5, 0, 0, 0, 0] = some (.err, Mux.init, []) := by
  simp [onePacket, Mux.init, rdU32, getChan, decode, decodeBody]

example : (onePacket { Mux.init with globalPending := true } [81]).map (·.2.1.globalBuf) = some (some .success) := by
  simp [onePacket, Mux.init, decode, decodeBody]

end XC.C36
