/-
  C36 — property theorems over `XC.C36.onePacket` / local calls / shutdown (model of ssh/mux.go + channel.go).

      mux_total (Proofs/C36)             no panic outcome for any non-empty packet; invariant "listed channels are open"
      unknown_channel                    error, or (channel request) untouched state + failure reply iff want-reply
      global_reply_dropped_when_not_pending, localGlobal_drains, gate_localGlobal      global reply gate
      chan_reply_only_when_pending       CHANNEL_SUCCESS/FAILURE with no request in flight: dropped, state untouched
      chan_reply_queued_when_pending, chanReq_opens_gate_and_drains, chanReq_forgets_queue, chan_reply_fresh
                                         channel reply gate: sentRequestMu / gate / drain of the 16-slot msg queue;
                                         the reply returned is the first one received after the request started
      dup_confirm_rejected               confirmation for a decided or inbound channel ⇒ protocol error
      shutdown_closes_all, closed_channel_releases_callers
      mux_can_block_on_unsolicited       WITNESS: 16 unsolicited messages on an idle channel are absorbed, the 17th
                                         parks the loop in `default: ch.msg <- msg` for ever (see the note at the end)
-/
import XC.Proofs.C36
set_option maxRecDepth 2000
namespace XC.C36

/-- a packet whose message number is not handled at mux level and that is long enough to carry a channel id -/
def chanPacket (p : Bytes) (id : Nat) : Prop :=
  ∃ t body r, p = t :: body ∧ t.toNat ≠ 90 ∧ t.toNat ≠ 80 ∧ t.toNat ≠ 81 ∧ t.toNat ≠ 82 ∧ t.toNat ≠ 192 ∧
    5 ≤ p.length ∧ rdU32 body = some (id, r)

/-- **unknown_channel**: a packet for an id that is not in chanList either ends the connection (error), or — a
    well-formed channel request — leaves the state untouched and is answered with CHANNEL_FAILURE iff it wanted a reply. -/
theorem unknown_channel {m : Mux} {p : Bytes} {id : Nat} {o : Outcome} {m' : Mux} {ev : Evs}
    (hp : chanPacket p id) (hunk : getChan m id = none) (h : onePacket m p = some (o, m', ev)) :
    (o = .err ∧ m' = m ∧ ev = []) ∨
    (o = .ok ∧ m' = m ∧ ∃ pid name want data, decode p = .ok (.chanRequest pid name want data) ∧
        ev = if want then [s!"w100:{pid}"] else []) := by
  obtain ⟨t, body, r, rfl, h90, h80, h81, h82, h192, hlen, hid⟩ := hp
  unfold onePacket at h
  simp only [h90, h80, h81, h82, h192, if_false, Bool.or_self, decide_false, Bool.false_eq_true] at h
  have : ¬ (t :: body).length < 5 := by omega
  simp only [this, if_false, hid, hunk] at h
  split at h
  · cases h
  · cases h; exact Or.inl ⟨rfl, rfl, rfl⟩
  · rename_i pid name want data hd
    split at h
    · rename_i hw
      cases h
      exact Or.inr ⟨rfl, rfl, pid, name, want, data, hd, by simp [hw]⟩
    · rename_i hw
      cases h
      exact Or.inr ⟨rfl, rfl, pid, name, want, data, hd, by simp [hw]⟩
  · cases h; exact Or.inl ⟨rfl, rfl, rfl⟩

/-- **reply_only_when_pending (global)**: a REQUEST_SUCCESS / REQUEST_FAILURE that arrives while no SendRequest is
    waiting is dropped without touching the state. -/
theorem global_reply_dropped_when_not_pending (m : Mux) (t : UInt8) (b : Bytes)
    (ht : t.toNat = 81 ∨ t.toNat = 82) (hnp : m.globalPending = false) :
    onePacket m (t :: b) = some (.ok, m, []) := by
  rcases ht with ht | ht <;>
  simp [onePacket, ht, decode, decodeBody, hnp]

/-- the gate: a buffered global reply exists only while a SendRequest is in flight -/
def Gate (m : Mux) : Prop := m.globalBuf.isSome = true → m.globalPending = true

/-- `SendRequest(wantReply)` starts with an empty reply buffer (stale replies are drained) and the gate open -/
theorem localGlobal_drains (m : Mux) (k : Nat) :
    (localGlobal m k true).1.globalBuf = none := by
  unfold localGlobal
  simp only [if_true]
  split <;> rfl

theorem gate_localGlobal {m : Mux} (k : Nat) (w : Bool) (h : Gate m) : Gate (localGlobal m k w).1 := by
  unfold localGlobal Gate
  cases w
  · simp only [Bool.false_eq_true, if_false, Bool.not_false, if_true]
    split
    · intro hb; exact h hb
    · exact h
  · simp only [if_true]
    split <;> simp

/-- **dup_confirm_rejected**: an OPEN_CONFIRMATION for a channel that was opened by the peer, or that has already
    been confirmed / failed, is a protocol error (the connection is torn down); nothing is delivered. -/
theorem dup_confirm_rejected {m : Mux} {id : Nat} {c : Chan} {p : Bytes}
    (hc : getChan m id = some c) (hbad : c.inbound = true ∨ c.decided = true)
    (hp : chanPacket p id) (ht : ∃ b, p = 91 :: b)
    (hd : ∃ i my win mp ex, decode p = .ok (.openConfirm i my win mp ex)) :
    onePacket m p = some (.err, m, []) := by
  obtain ⟨t, body, r, rfl, h90, h80, h81, h82, h192, hlen, hid⟩ := hp
  obtain ⟨b, hb⟩ := ht
  cases hb
  obtain ⟨i, my, win, mp, ex, hd⟩ := hd
  have hresp : responseOk c = none := by
    unfold responseOk
    rcases hbad with h | h <;> simp [h]
  unfold onePacket
  simp only [show (91 : UInt8).toNat = 91 by rfl, show ¬ (91 = 90) by decide, show ¬ (91 = 192) by decide, if_false]
  have : ¬ (91 :: body : Bytes).length < 5 := by omega
  simp only [this, if_false, hid, hc]
  simp [handleChanPacket, hd, hresp]

/-- **shutdown_closes_all**: when the loop exits no channel stays listed, every channel that was listed is torn
    down (msg / request stream closed, buffers at EOF), and after the blocked callers have been woken none is left
    waiting: OpenChannel, channel SendRequest and global SendRequest all return. -/
theorem shutdown_closes_all (m : Mux) :
    (shutdown m).ended = true ∧ (shutdown m).chans = [] ∧ (shutdown m).globalBuf = none ∧
    (∀ c, some c ∈ m.chans → ∃ c' ∈ (shutdown m).detached, c'.uid = c.uid ∧ c'.closed = true ∧ c'.sentClose = true) := by
  refine ⟨rfl, rfl, rfl, ?_⟩
  intro c hc
  refine ⟨{ c with closed := true, sentClose := true }, ?_, rfl, rfl, rfl⟩
  simp only [shutdown, List.mem_append, List.mem_map, List.mem_filterMap]
  exact Or.inr ⟨c, ⟨some c, hc, rfl⟩, rfl⟩

/-- a caller blocked on a torn-down channel returns (with an error unless a message is still queued) -/
theorem closed_channel_releases_callers (c : Chan) (hcl : c.closed = true) :
    (completeChan c).1.opener = none ∧ (completeChan c).1.requester = none ∨
    (c.opener.isSome ∧ (completeChan c).1.opener = none) := by
  unfold completeChan
  cases ho : c.opener with
  | some k =>
    right
    refine ⟨rfl, ?_⟩
    cases hq : c.msgQ with
    | nil => simp [hcl]
    | cons x q => cases x <;> simp
  | none =>
    left
    cases hr : c.requester with
    | none => simp [ho, hr]
    | some k =>
      cases hq : c.msgQ with
      | nil => simp [hcl, ho]
      | cons x q => cases x <;> simp [ho]

/-- non-vacuity: data for an unknown channel ends the connection; an unsolicited global reply is dropped;
    a solicited one is buffered for the waiting caller -/
example : onePacket Mux.init [94, 0, 0, 0, 5, 0, 0, 0, 0] = some (.err, Mux.init, []) := by
  simp [onePacket, Mux.init, rdU32, getChan, decode, decodeBody]

example : (onePacket { Mux.init with globalPending := true } [81]).map (·.2.1.globalBuf) = some (some .success) := by
  simp [onePacket, Mux.init, decode, decodeBody]



/-- **chan_reply_only_when_pending**: a CHANNEL_SUCCESS / CHANNEL_FAILURE for a known channel on which no
    SendRequest(wantReply) is in flight is dropped: no state change, nothing queued, nothing written. -/
theorem chan_reply_only_when_pending {m : Mux} {id : Nat} {c : Chan} (t : UInt8) (body : Bytes)
    (ht : t.toNat = 99 ∨ t.toNat = 100) (hid : rdU32 body = some (id, []))
    (hc : getChan m id = some c) (hnp : c.reqPending = false) :
    onePacket m (t :: body) = some (.ok, m, []) := by
  have hlen : body.length = 4 := by
    match body, hid with
    | [a, b, c, d], _ => rfl
  have h5 : ¬ (t :: body).length < 5 := by simp [hlen]
  rcases ht with ht | ht <;>
  (simp [onePacket, ht, hid, hc, handleChanPacket, decode, decodeBody, done, hnp]; omega)

/-- …and while one is in flight the reply is queued for it (non-blocking send) -/
theorem chan_reply_queued_when_pending {m : Mux} {id : Nat} {c : Chan} (body : Bytes)
    (hid : rdU32 body = some (id, [])) (hc : getChan m id = some c) (hp : c.reqPending = true)
    (hcl : c.closed = false) (hroom : c.msgQ.length < 16) :
    onePacket m (99 :: body) = some (.ok, setChan m id (some { c with msgQ := c.msgQ ++ [.success] }), []) := by
  have hlen : body.length = 4 := by
    match body, hid with
    | [a, b, c, d], _ => rfl
  have h5 : ¬ (99 :: body : Bytes).length < 5 := by simp [hlen]
  have hr : ¬ c.msgQ.length ≥ 16 := by omega
  simp [onePacket, show (99 : UInt8).toNat = 99 by rfl, hid, hc, handleChanPacket, decode, decodeBody, done, hp,
    tryPushMsg, hcl, hr]
  omega

/-- `SendRequest(wantReply)` takes the request mutex, opens the gate and throws away whatever was still buffered in
    `ch.msg` before it sends -/
theorem chanReq_opens_gate_and_drains (c : Chan) (k : Nat) (hd : c.decided = true) (hs : c.sentClose = false) :
    (chanReqCore c k true).1 = { c with reqPending := true, msgQ := [], requester := some k } := by
  simp [chanReqCore, hd, hs]

/-- so the outcome of a new request cannot depend on stale queue content -/
theorem chanReq_forgets_queue (c : Chan) (k : Nat) (q1 q2 : List QMsg) (hd : c.decided = true) :
    chanReqCore { c with msgQ := q1 } k true = chanReqCore { c with msgQ := q2 } k true := by
  simp only [chanReqCore, hd]
  cases c.sentClose <;> simp

/-- **reply matched to the request in flight**: whatever was queued before, the reply a wantReply request returns is
    the first CHANNEL_SUCCESS / CHANNEL_FAILURE the mux receives after the request was started -/
theorem chan_reply_fresh (c : Chan) (k : Nat) (stale : List QMsg) (x : QMsg)
    (hd : c.decided = true) (hs : c.sentClose = false) (hcl : c.closed = false) (hop : c.opener = none) :
    let c1 := (chanReqCore { c with msgQ := stale } k true).1
    let c2 := (tryPushMsg c1 x).2
    (completeChan c2).2.1 =
      match x with
      | .success => [s!"R{k}=ok"]
      | .reqFailure => [s!"R{k}=fail"]
      | _ => [s!"R{k}=err"] := by
  simp only [chanReqCore, hd, hs, tryPushMsg, hcl, completeChan, hop]
  cases x <;> simp



/-- SSH_MSG_SERVICE_ACCEPT with an empty service name: 5 bytes; read as a channel packet it addresses channel 0 -/
def svc : Bytes := [6, 0, 0, 0, 0]

/-- the peer opens a channel of type "a" (accepted by the application) -/
def openA : Bytes := [90, 0, 0, 0, 1, 97, 0, 0, 0, 7, 0, 16, 0, 0, 0, 0, 128, 0]

/-- such a packet always takes `default: ch.msg <- msg` on channel 0 -/
theorem svc_packet (m : Mux) (c : Chan) (h0 : getChan m 0 = some c) :
    onePacket m svc = some ((pushMsg c .other).1, setChan m 0 (some (pushMsg c .other).2), []) := by
  simp [onePacket, svc, rdU32, h0, handleChanPacket, decode, decodeBody, rdStr, done]

/-- feed `n` of them, as long as the mux accepts them -/
def flood : Nat → Mux → Option Mux
  | 0, m => some m
  | n+1, m => match onePacket m svc with
    | some (.ok, m', _) => flood n m'
    | _ => none

theorem getChan_setChan_same {m : Mux} {id : Nat} {c c' : Chan} (h : getChan m id = some c) :
    getChan (setChan m id (some c')) id = some c' := by
  unfold getChan at h ⊢
  have hlt : id < m.chans.length := by
    cases hg : m.chans[id]? with
    | none => simp [hg] at h
    | some x => exact (List.getElem?_eq_some_iff.mp hg).1
  simp [setChan, List.getElem?_set, hlt]

theorem flood_fills (n : Nat) : ∀ (m : Mux) (c : Chan), getChan m 0 = some c → c.closed = false →
    c.msgQ.length + n ≤ 16 →
    ∃ m' c', flood n m = some m' ∧ getChan m' 0 = some c' ∧ c'.closed = false ∧
      c'.msgQ.length = c.msgQ.length + n ∧ c'.opener = c.opener ∧ c'.requester = c.requester := by
  induction n with
  | zero => intro m c h0 hc _; exact ⟨m, c, rfl, h0, hc, rfl, rfl, rfl⟩
  | succ n ih =>
    intro m c h0 hc hlen
    have hpush : pushMsg c .other = (.ok, { c with msgQ := c.msgQ ++ [.other] }) := by
      unfold pushMsg
      have : ¬ c.msgQ.length ≥ 16 := by omega
      simp [hc, this]
    have hstep := svc_packet m c h0
    rw [hpush] at hstep
    simp only [flood, hstep]
    obtain ⟨m', c', hf, hg, hcl, hl, ho, hr⟩ :=
      ih (setChan m 0 (some { c with msgQ := c.msgQ ++ [.other] })) { c with msgQ := c.msgQ ++ [.other] }
        (getChan_setChan_same h0) hc (by simp; omega)
    exact ⟨m', c', hf, hg, hcl, by simp at hl; omega, ho, hr⟩

/-- **mux_can_block_on_unsolicited** (observation O-default-arm, proved on the model of the code as written):
    after the peer has opened one channel (accepted; nobody waits on its `msg` queue) and sent 16 five-byte
    SERVICE_ACCEPT packets — all handled without error — a 17th makes `onePacket` never return: the loop goroutine
    is parked in `ch.msg <- msg`, so no later packet (not even the peer's hang-up) is ever read. -/
theorem mux_can_block_on_unsolicited :
    ∃ m0 ev0 m16 mB, onePacket Mux.init openA = some (.ok, m0, ev0) ∧ flood 16 m0 = some m16 ∧
      onePacket m16 svc = some (.blocks, mB, []) ∧
      (∃ c, getChan m16 0 = some c ∧ c.opener = none ∧ c.requester = none ∧ c.msgQ.length = 16) := by
  have hopen : ∃ m0 ev0 c0, onePacket Mux.init openA = some (.ok, m0, ev0) ∧ getChan m0 0 = some c0 ∧
      c0.closed = false ∧ c0.msgQ = [] ∧ c0.opener = none ∧ c0.requester = none := by
    simp [onePacket, openA, decode, decodeBody, rdStr, rdU32, rdBool, Mux.init, addChan, newChan, chanSend, setChan,
      getChan, C35.minPacketLength]
  obtain ⟨m0, ev0, c0, ho, hg0, hc0, hq0, hop0, hrq0⟩ := hopen
  obtain ⟨m16, c16, hf, hg, hcl, hl, hop, hrq⟩ := flood_fills 16 m0 c0 hg0 hc0 (by simp [hq0])
  have hblk : pushMsg c16 .other = (.blocks, c16) := by
    unfold pushMsg
    have : c16.msgQ.length ≥ 16 := by rw [hl, hq0]; simp
    simp [hcl, this]
  refine ⟨m0, ev0, m16, setChan m16 0 (some c16), ho, hf, ?_, c16, hg, by rw [hop, hop0], by rw [hrq, hrq0],
    by rw [hl, hq0]; rfl⟩
  rw [svc_packet m16 c16 hg, hblk]


/-! ## Does the blocked loop contradict a clause of C36?
    "never panic", "unknown channel ⇒ error / failure reply", "reply only to a waiting request" and "duplicate
    confirmation rejected" are untouched by it (mux_total covers the `blocks` outcome: it is not a panic).
    The last clause — "when the connection ends every channel and request stream is closed" — presupposes that the
    loop notices the end of the connection. In the state of `mux_can_block_on_unsolicited` it cannot: `shutdown` is
    only ever applied after `onePacket` RETURNS an error, and `Outcome.blocks` is the outcome in which `onePacket`
    does not return. The correspondence check confirms the consequence on the real code (trace
    `…|BLOCKED|STUCK,shut=bad:loop-never-exits`: after the peer's hang-up mux.Wait does not return and channel reads
    stay blocked), so the clause IS violated on this input; it is registered as known finding
    mux-blocked-by-unsolicited-channel-messages. -/

end XC.C36
