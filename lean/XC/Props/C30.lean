/-
  C30 — property theorems over XC.Model.C30 (all packet sequences, any kex method's expectation list).
-/
import XC.Model.C30
namespace XC.C30
set_option linter.unusedSimpArgs false

/-! ## basic facts -/

theorem step_failed (cfg : Cfg) (s : St) (ty : UInt8) (h : s.phase = .failed) : step cfg s ty = s := by
  unfold step; rw [h]

theorem run_failed (cfg : Cfg) (s : St) (tys : List UInt8) (h : s.phase = .failed) : run cfg s tys = s := by
  induction tys with
  | nil => rfl
  | cons t tl ih => simp only [run, List.foldl] at ih ⊢; rw [step_failed cfg s t h]; exact ih

theorem run_cons (cfg : Cfg) (s : St) (t : UInt8) (tl : List UInt8) :
    run cfg s (t :: tl) = run cfg (step cfg s t) tl := rfl

theorem run_append (cfg : Cfg) (s : St) (a b : List UInt8) :
    run cfg s (a ++ b) = run cfg (run cfg s a) b := by
  simp [run, List.foldl_append]

theorem fail_phase (s : St) : (fail s).phase = .failed := rfl
theorem fail_initialDone (s : St) : (fail s).initialDone = s.initialDone := rfl

/-- a failed state never completes later -/
theorem failed_never_done (cfg : Cfg) (s : St) (tys : List UInt8) (h : s.phase = .failed)
    (hd : s.initialDone = false) : (run cfg s tys).initialDone = false := by
  rw [run_failed cfg s tys h]; exact hd

/-! ## strict mode is rigid -/

/-- the strict first handshake in progress -/
def InStrictKex (s : St) : Prop := s.strict = true ∧ s.initialDone = false

/-- one step inside the strict first handshake, in phase `enterKex (t :: r)`:
    anything but `t` fails; `t` moves on to `enterKex r` -/
theorem step_kex_strict (cfg : Cfg) (s : St) (t : UInt8) (r : List UInt8) (ty : UInt8)
    (hp : s.phase = .kex (t :: r)) (hs : InStrictKex s) :
    (ty = t ∧ (step cfg s ty).phase = enterKex r ∧ InStrictKex (step cfg s ty) ∧ t ≠ msgNewKeys) ∨
    ((step cfg s ty).phase = .failed ∧ (step cfg s ty).initialDone = false) := by
  obtain ⟨h1, h2⟩ := hs
  unfold step
  rw [hp]
  simp only
  by_cases a : ty == msgNewKeys
  · right; simp [a, fail, h2]
  · by_cases b : ty == msgDisconnect
    · right; simp [a, b, fail, h2]
    · simp only [a, b, h1, h2]
      by_cases c : ty == t
      · left
        have : ty = t := by simpa using c
        subst this
        refine ⟨rfl, ?_⟩
        simp [InStrictKex, h1, h2]
        intro h; simp [h] at a
      · right; simp [c, fail, h2]

theorem step_newkeys_strict (cfg : Cfg) (s : St) (ty : UInt8)
    (hp : s.phase = .newkeys) (hs : InStrictKex s) :
    (ty = msgNewKeys ∧ (step cfg s ty).phase = .done ∧ (step cfg s ty).seq = 0) ∨
    ((step cfg s ty).phase = .failed ∧ (step cfg s ty).initialDone = false) := by
  obtain ⟨h1, h2⟩ := hs
  unfold step
  rw [hp]
  simp only
  by_cases a : ty == msgNewKeys
  · left; simp [a, h1]; simpa using a
  · by_cases b : ty == msgDisconnect
    · right; simp [a, b, fail, h2]
    · right; simp [a, b, h1, h2, fail]

/-- from inside the strict first handshake with expectation list `ks`, completion needs exactly `ks ++ [NEWKEYS]` next -/
theorem rigid_from_kex (cfg : Cfg) (ks : List UInt8) : ∀ (s : St) (tys : List UInt8),
    s.phase = enterKex ks → InStrictKex s → (run cfg s tys).initialDone = true →
    ∃ rest, tys = ks ++ msgNewKeys :: rest := by
  induction ks with
  | nil =>
    intro s tys hp hs hd
    have hp' : s.phase = .newkeys := by simpa [enterKex] using hp
    cases tys with
    | nil => simp [run, hs.2] at hd
    | cons ty tl =>
      rw [run_cons] at hd
      rcases step_newkeys_strict cfg s ty hp' hs with ⟨h, _, _⟩ | ⟨hf, hi⟩
      · exact ⟨tl, by simp [h]⟩
      · rw [failed_never_done cfg _ tl hf hi] at hd; simp at hd
  | cons t r ih =>
    intro s tys hp hs hd
    have hp' : s.phase = .kex (t :: r) := by simpa [enterKex] using hp
    cases tys with
    | nil => simp [run, hs.2] at hd
    | cons ty tl =>
      rw [run_cons] at hd
      rcases step_kex_strict cfg s t r ty hp' hs with ⟨h, hph, hin, _⟩ | ⟨hf, hi⟩
      · obtain ⟨rest, hr⟩ := ih (step cfg s ty) tl hph hin hd
        exact ⟨rest, by simp [h, hr]⟩
      · rw [failed_never_done cfg _ tl hf hi] at hd; simp at hd

theorem add_one_eq_one (s : UInt32) (h : (s + 1 == 1) = true) : s = 0 := by
  have h1 : s + 1 = 1 := by simpa using h
  have := congrArg (· - 1) h1
  simpa using this

theorem ofNat_succ (n : Nat) : UInt32.ofNat (n + 1) = UInt32.ofNat n + 1 := by
  simp [UInt32.ofNat_add]

/-- **prefix_counted** (with the real uint32 arithmetic): from the state "nothing delivered yet, `q` packets counted",
    a strict handshake completes only along `pre ++ honest ++ rest` where `pre` consists of IGNORE / DEBUG packets
    only (dropped but counted) and `q + |pre|` is 0 modulo 2^32 — the KEXINIT must carry sequence number 0. -/
theorem prefix_counted (cfg : Cfg) (hsp : cfg.strictPeer = true) : ∀ (tys : List UInt8) (s : St),
    s.phase = .first → s.strict = false → s.initialDone = false →
    (run cfg s tys).initialDone = true →
    ∃ pre rest, tys = pre ++ honest cfg ++ rest ∧ (∀ t ∈ pre, keep t = false) ∧
      s.seq + UInt32.ofNat pre.length = 0 := by
  intro tys
  induction tys with
  | nil => intro s _ _ hi hd; simp [run, hi] at hd
  | cons ty tl ih =>
    intro s hp hst hi hd
    rw [run_cons] at hd
    by_cases a : ty == msgNewKeys
    · have hf : (step cfg s ty).phase = .failed ∧ (step cfg s ty).initialDone = false := by
        simp [step, hp, a, fail, hi]
      rw [failed_never_done cfg _ tl hf.1 hf.2] at hd; simp at hd
    · by_cases b : ty == msgDisconnect
      · have hf : (step cfg s ty).phase = .failed ∧ (step cfg s ty).initialDone = false := by
          simp [step, hp, a, b, fail, hi]
        rw [failed_never_done cfg _ tl hf.1 hf.2] at hd; simp at hd
      · by_cases c : (ty == msgIgnore || ty == msgDebug)
        · -- dropped, but counted
          have hstep : step cfg s ty = { s with seq := s.seq + 1 } := by
            simp [step, hp, a, b, c, hst]
          rw [hstep] at hd
          obtain ⟨pre, rest, h1, h2, h3⟩ := ih { s with seq := s.seq + 1 } hp hst hi hd
          refine ⟨ty :: pre, rest, by simp [h1], ?_, ?_⟩
          · intro t ht
            rcases List.mem_cons.mp ht with rfl | ht
            · simp [keep, c]
            · exact h2 t ht
          · simp only [List.length_cons, ofNat_succ]
            simp only at h3
            rw [← h3, UInt32.add_assoc, UInt32.add_comm 1]
        · by_cases d : ty == msgKexInit
          · by_cases e : (s.seq + 1 == 1) = true
            · have hstep : step cfg s ty =
                  { phase := enterKex cfg.kexTypes, seq := s.seq + 1, strict := true, initialDone := s.initialDone } := by
                simp [step, hp, a, b, c, d, hsp, e]
              rw [hstep] at hd
              obtain ⟨rest, hr⟩ := rigid_from_kex cfg cfg.kexTypes
                { phase := enterKex cfg.kexTypes, seq := s.seq + 1, strict := true, initialDone := s.initialDone } tl rfl ⟨rfl, hi⟩ hd
              have hty : ty = msgKexInit := by simpa using d
              refine ⟨[], rest, by simp [honest, hr, hty], by simp, ?_⟩
              simp [add_one_eq_one s.seq e]
            · have hf : (step cfg s ty).phase = .failed ∧ (step cfg s ty).initialDone = false := by
                simp [step, hp, a, b, c, d, hsp, e, fail, hi]
              rw [failed_never_done cfg _ tl hf.1 hf.2] at hd; simp at hd
          · have hf : (step cfg s ty).phase = .failed ∧ (step cfg s ty).initialDone = false := by
              simp [step, hp, a, b, c, d, fail, hi]
            rw [failed_never_done cfg _ tl hf.1 hf.2] at hd; simp at hd

/-- **strict_rigid** (uint32 arithmetic): if the peer offers strict kex, the first key exchange completes only if what
    was delivered is `pre ++ KEXINIT ++ kex messages ++ NEWKEYS ++ …` where `pre` is a block of IGNORE / DEBUG packets
    whose length is a multiple of 2^32 (the counter wrapped back to 0). -/
theorem strict_rigid_wrap (cfg : Cfg) (hsp : cfg.strictPeer = true) (tys : List UInt8)
    (hd : (run cfg init tys).initialDone = true) :
    ∃ pre rest, tys = pre ++ honest cfg ++ rest ∧ (∀ t ∈ pre, keep t = false) ∧ pre.length % 2 ^ 32 = 0 := by
  obtain ⟨pre, rest, h1, h2, h3⟩ := prefix_counted cfg hsp tys init rfl rfl rfl hd
  refine ⟨pre, rest, h1, h2, ?_⟩
  have := congrArg UInt32.toNat h3
  simpa [init, UInt32.toNat_ofNat'] using this

/-- **strict_rigid**: with fewer than 2^32 packets delivered — i.e. always, in practice: 2^32 minimal packets are
    64 GiB — the delivered sequence must *start* with exactly KEXINIT, the kex method's messages and NEWKEYS:
    no inserted packet of any type (IGNORE and DEBUG included), no deletion, no reordering. -/
theorem strict_rigid (cfg : Cfg) (hsp : cfg.strictPeer = true) (tys : List UInt8) (hlen : tys.length < 2 ^ 32)
    (hd : (run cfg init tys).initialDone = true) : ∃ rest, tys = honest cfg ++ rest := by
  obtain ⟨pre, rest, h1, _, h3⟩ := strict_rigid_wrap cfg hsp tys hd
  have hl : pre.length < 2 ^ 32 := by
    have : pre.length ≤ tys.length := by rw [h1]; simp [List.length_append, Nat.add_assoc]
    omega
  have : pre.length = 0 := by omega
  have hp : pre = [] := List.eq_nil_of_length_eq_zero this
  exact ⟨rest, by simp [h1, hp]⟩

/-- non-vacuity: the honest sequence does complete, with the sequence number back at 0 -/
theorem strict_honest_completes (cfg : Cfg) (hsp : cfg.strictPeer = true)
    (hk : ∀ t ∈ cfg.kexTypes, t ≠ msgNewKeys ∧ t ≠ msgDisconnect) :
    (run cfg init (honest cfg)).phase = .done ∧ (run cfg init (honest cfg)).seq = 0 ∧
    (run cfg init (honest cfg)).initialDone = true := by
  have hst : step cfg init msgKexInit =
      { phase := enterKex cfg.kexTypes, seq := 1, strict := true, initialDone := false } := by
    simp [step, init, hsp, msgKexInit, msgNewKeys, msgDisconnect, msgIgnore, msgDebug]
  unfold honest
  rw [run_cons, hst]
  -- walk through the expectation list
  have walk : ∀ (ks : List UInt8) (s : St), (∀ t ∈ ks, t ≠ msgNewKeys ∧ t ≠ msgDisconnect) →
      s.phase = enterKex ks → InStrictKex s →
      (run cfg s (ks ++ [msgNewKeys])).phase = .done ∧ (run cfg s (ks ++ [msgNewKeys])).seq = 0 ∧
      (run cfg s (ks ++ [msgNewKeys])).initialDone = true := by
    intro ks
    induction ks with
    | nil =>
      intro s _ hp hs
      have hp' : s.phase = .newkeys := by simpa [enterKex] using hp
      simp [run, step, hp', hs.1, msgNewKeys]
    | cons t r ih =>
      intro s hk hp hs
      have hp' : s.phase = .kex (t :: r) := by simpa [enterKex] using hp
      have ht := hk t (by simp)
      have hstep : step cfg s t = { s with phase := enterKex r, seq := s.seq + 1 } := by
        have a : ¬ (t == msgNewKeys) = true := by simpa using ht.1
        have b : ¬ (t == msgDisconnect) = true := by simpa using ht.2
        simp [step, hp', a, b, hs.1, hs.2]
      rw [List.cons_append, run_cons, hstep]
      exact ih _ (fun x hx => hk x (by simp [hx])) rfl ⟨hs.1, hs.2⟩
  exact walk cfg.kexTypes _ hk rfl ⟨rfl, rfl⟩

example : (run ⟨true, [31]⟩ init [20, 31, 21]).phase = .done := by decide
example : (run ⟨true, [31]⟩ init [2, 20, 31, 21]).phase = .failed := by decide
example : (run ⟨true, [31]⟩ init [20, 2, 31, 21]).phase = .failed := by decide
example : (run ⟨true, [31]⟩ init [20, 31, 4, 21]).phase = .failed := by decide
example : (run ⟨false, [31]⟩ init [2, 20, 4, 31, 2, 21]).phase = .done := by decide

/-! ## sequence numbers restart at 0 after every NEWKEYS (both directions) -/

/-- strict mode, once negotiated, stays on (across re-keys) -/
def StrictInv (s : St) : Prop := s.phase = .first ∨ s.phase = .failed ∨ s.strict = true

theorem strictInv_step (cfg : Cfg) (hsp : cfg.strictPeer = true) (s : St) (ty : UInt8) (h : StrictInv s) :
    StrictInv (step cfg s ty) := by
  unfold StrictInv at *
  unfold step
  cases hp : s.phase with
  | failed => simp [hp]
  | first =>
    simp only
    by_cases a : ty == msgNewKeys <;> by_cases b : ty == msgDisconnect <;>
      by_cases c : (ty == msgIgnore || ty == msgDebug) <;> by_cases d : ty == msgKexInit <;>
      by_cases e : (s.seq + 1 == 1) <;> by_cases f : s.strict <;> by_cases g : s.initialDone <;>
      simp [a, b, c, d, e, f, g, hsp, fail, hp]
  | kex l =>
    have hs : s.strict = true := by rcases h with h | h | h <;> simp_all
    cases l with
    | nil => simp only; by_cases a : ty == msgNewKeys <;> by_cases b : ty == msgDisconnect <;>
              by_cases c : (ty == msgIgnore || ty == msgDebug) <;> by_cases g : s.initialDone <;>
              simp [a, b, c, g, hs, fail]
    | cons t r => simp only; by_cases a : ty == msgNewKeys <;> by_cases b : ty == msgDisconnect <;>
                    by_cases c : (ty == msgIgnore || ty == msgDebug) <;> by_cases d : ty == t <;>
                    by_cases g : s.initialDone <;> simp [a, b, c, d, g, hs, fail]
  | newkeys =>
    have hs : s.strict = true := by rcases h with h | h | h <;> simp_all
    simp only
    by_cases a : ty == msgNewKeys <;> by_cases b : ty == msgDisconnect <;>
      by_cases c : (ty == msgIgnore || ty == msgDebug) <;> by_cases g : s.initialDone <;>
      simp [a, b, c, g, hs, fail]
  | done =>
    have hs : s.strict = true := by rcases h with h | h | h <;> simp_all
    simp only
    by_cases a : ty == msgNewKeys <;> by_cases b : ty == msgDisconnect <;>
      by_cases c : (ty == msgIgnore || ty == msgDebug) <;> by_cases d : ty == msgKexInit <;>
      by_cases g : s.initialDone <;> simp [a, b, c, d, g, hs, fail]

theorem strictInv_run (cfg : Cfg) (hsp : cfg.strictPeer = true) (tys : List UInt8) :
    StrictInv (run cfg init tys) := by
  have : ∀ (tys : List UInt8) (s : St), StrictInv s → StrictInv (run cfg s tys) := by
    intro tys
    induction tys with
    | nil => intro s h; exact h
    | cons t tl ih => intro s h; rw [run_cons]; exact ih _ (strictInv_step cfg hsp s t h)
  exact this tys init (Or.inl rfl)

/-- **seq_zero_after_newkeys** (receive direction): with a strict peer, after any history whatsoever
    (first exchange or any later re-key), every NEWKEYS that is accepted leaves `seqNum = 0`. -/
theorem seq_zero_after_newkeys (cfg : Cfg) (hsp : cfg.strictPeer = true) (tys : List UInt8)
    (hacc : (step cfg (run cfg init tys) msgNewKeys).phase = .done) :
    (step cfg (run cfg init tys) msgNewKeys).seq = 0 := by
  have hinv := strictInv_run cfg hsp tys
  generalize run cfg init tys = s at *
  unfold step at hacc ⊢
  cases hp : s.phase with
  | failed => rw [hp] at hacc; simp [hp] at hacc
  | first => rw [hp] at hacc; simp [msgNewKeys, fail] at hacc
  | kex l => rw [hp] at hacc; simp [msgNewKeys, fail] at hacc
  | done => rw [hp] at hacc; simp [msgNewKeys, fail] at hacc
  | newkeys =>
    have hs : s.strict = true := by rcases hinv with h | h | h <;> simp_all
    simp [hs]

/-- write direction: the packet after a NEWKEYS is sent with sequence number 0 iff strict mode is on -/
theorem wseq_zero_after_newkeys (seq : UInt32) : wstep true seq msgNewKeys = 0 := by
  simp [wstep]

theorem wseq_nonstrict (seq : UInt32) (ty : UInt8) : wstep false seq ty = seq + 1 := by
  simp [wstep]

/-- without strict mode the counter simply keeps counting across NEWKEYS -/
theorem nonstrict_seq_counts (cfg : Cfg) (s : St) (hp : s.phase = .newkeys) (hs : s.strict = false) :
    (step cfg s msgNewKeys).seq = s.seq + 1 := by
  simp [step, hp, hs]

/-! ## without strict mode IGNORE / DEBUG are transparent at any point -/

/-- same control state, strict mode off on both sides (sequence numbers may differ) -/
def Sim (a b : St) : Prop := a.phase = b.phase ∧ a.strict = false ∧ b.strict = false

theorem sim_step (cfg : Cfg) (hsp : cfg.strictPeer = false) (a b : St) (ty : UInt8) (h : Sim a b) :
    Sim (step cfg a ty) (step cfg b ty) := by
  obtain ⟨h1, h2, h3⟩ := h
  unfold Sim step
  rw [← h1]
  cases hp : a.phase with
  | failed => simp [← h1, hp, h2, h3]
  | first =>
    simp only
    by_cases x : ty == msgNewKeys <;> by_cases y : ty == msgDisconnect <;>
      by_cases c : (ty == msgIgnore || ty == msgDebug) <;> by_cases d : ty == msgKexInit <;>
      simp [x, y, c, d, h2, h3, hsp, fail, ← h1, hp]
  | kex l =>
    cases l with
    | nil => simp only; by_cases x : ty == msgNewKeys <;> by_cases y : ty == msgDisconnect <;>
              by_cases c : (ty == msgIgnore || ty == msgDebug) <;> simp [x, y, c, h2, h3, fail, ← h1, hp]
    | cons t r => simp only; by_cases x : ty == msgNewKeys <;> by_cases y : ty == msgDisconnect <;>
                    by_cases c : (ty == msgIgnore || ty == msgDebug) <;> by_cases d : ty == t <;>
                    simp [x, y, c, d, h2, h3, fail, ← h1, hp]
  | newkeys =>
    simp only
    by_cases x : ty == msgNewKeys <;> by_cases y : ty == msgDisconnect <;>
      by_cases c : (ty == msgIgnore || ty == msgDebug) <;> simp [x, y, c, h2, h3, fail, ← h1, hp]
  | done =>
    simp only
    by_cases x : ty == msgNewKeys <;> by_cases y : ty == msgDisconnect <;>
      by_cases c : (ty == msgIgnore || ty == msgDebug) <;> by_cases d : ty == msgKexInit <;>
      simp [x, y, c, d, h2, h3, fail, ← h1, hp]

/-- an IGNORE / DEBUG packet changes nothing but the counter -/
theorem sim_skip (cfg : Cfg) (a b : St) (ty : UInt8) (hk : keep ty = false) (h : Sim a b) :
    Sim (step cfg a ty) b := by
  obtain ⟨h1, h2, h3⟩ := h
  have c : (ty == msgIgnore || ty == msgDebug) = true := by
    unfold keep at hk
    cases hc : (ty == msgIgnore || ty == msgDebug) with
    | true => rfl
    | false => rw [hc] at hk; simp at hk
  have x : ¬ (ty == msgNewKeys) = true := by
    intro hx; have : ty = msgNewKeys := by simpa using hx
    subst this; simp [msgNewKeys, msgIgnore, msgDebug] at c
  have y : ¬ (ty == msgDisconnect) = true := by
    intro hx; have : ty = msgDisconnect := by simpa using hx
    subst this; simp [msgDisconnect, msgIgnore, msgDebug] at c
  unfold Sim step
  cases hp : a.phase with
  | failed => simp [← h1, hp, h2, h3]
  | first => simp [x, y, c, h2, h3, ← h1, hp]
  | kex l => simp [x, y, c, h2, h3, ← h1, hp]
  | newkeys => simp [x, y, c, h2, h3, ← h1, hp]
  | done => simp [x, y, c, h2, h3, ← h1, hp]

/-- **ignore_debug_transparent**: when strict mode is not negotiated, any packet sequence and the same sequence
    with all IGNORE / DEBUG packets removed drive the endpoint to the same control state (same progress, same
    success / failure) — IGNORE and DEBUG may appear at any position, any number of times. -/
theorem ignore_debug_transparent (cfg : Cfg) (hsp : cfg.strictPeer = false) (tys : List UInt8) :
    (run cfg init tys).phase = (run cfg init (tys.filter keep)).phase := by
  have gen : ∀ (tys : List UInt8) (a b : St), Sim a b → Sim (run cfg a tys) (run cfg b (tys.filter keep)) := by
    intro tys
    induction tys with
    | nil => intro a b h; exact h
    | cons t tl ih =>
      intro a b h
      by_cases hk : keep t = true
      · simp only [List.filter, hk, run_cons]
        exact ih _ _ (sim_step cfg hsp a b t h)
      · have hk' : keep t = false := by simpa using hk
        simp only [List.filter, hk', run_cons]
        exact ih _ _ (sim_skip cfg a b t hk' h)
  exact (gen tys init init ⟨rfl, rfl, rfl⟩).1

/-- …and every packet is still counted -/
theorem nonstrict_counts_all (cfg : Cfg) (hsp : cfg.strictPeer = false) (tys : List UInt8)
    (hok : (run cfg init tys).phase ≠ .failed) : (run cfg init tys).seq = UInt32.ofNat tys.length := by
  have gen : ∀ (tys : List UInt8) (s : St), s.strict = false → (run cfg s tys).phase ≠ .failed →
      (run cfg s tys).seq = s.seq + UInt32.ofNat tys.length ∧ True := by
    intro tys
    induction tys with
    | nil => intro s _ _; simp [run]
    | cons t tl ih =>
      intro s hs hok
      rw [run_cons] at hok ⊢
      have hnf : s.phase ≠ .failed := by
        intro hf; rw [step_failed cfg s t hf, run_failed cfg s tl hf] at hok; exact hok hf
      have hstep : (step cfg s t).strict = false ∧ ((step cfg s t).phase = .failed ∨ (step cfg s t).seq = s.seq + 1) := by
        unfold step
        cases hp : s.phase with
        | failed => exact absurd hp hnf
        | first =>
          simp only
          by_cases x : t == msgNewKeys <;> by_cases y : t == msgDisconnect <;>
            by_cases c : (t == msgIgnore || t == msgDebug) <;> by_cases d : t == msgKexInit <;>
            simp [x, y, c, d, hs, hsp, fail]
        | kex l =>
          cases l with
          | nil => simp only; by_cases x : t == msgNewKeys <;> by_cases y : t == msgDisconnect <;>
                    by_cases c : (t == msgIgnore || t == msgDebug) <;> simp [x, y, c, hs, fail]
          | cons u r => simp only; by_cases x : t == msgNewKeys <;> by_cases y : t == msgDisconnect <;>
                          by_cases c : (t == msgIgnore || t == msgDebug) <;> by_cases d : t == u <;>
                          simp [x, y, c, d, hs, fail]
        | newkeys =>
          simp only
          by_cases x : t == msgNewKeys <;> by_cases y : t == msgDisconnect <;>
            by_cases c : (t == msgIgnore || t == msgDebug) <;> simp [x, y, c, hs, fail]
        | done =>
          simp only
          by_cases x : t == msgNewKeys <;> by_cases y : t == msgDisconnect <;>
            by_cases c : (t == msgIgnore || t == msgDebug) <;> by_cases d : t == msgKexInit <;>
            simp [x, y, c, d, hs, fail]
      rcases hstep with ⟨h1, h2 | h2⟩
      · rw [run_failed cfg _ tl h2] at hok; exact absurd h2 hok
      · have := (ih _ h1 hok).1
        refine ⟨?_, trivial⟩
        rw [this, h2, List.length_cons, ofNat_succ, UInt32.add_assoc, UInt32.add_comm 1]
  have := (gen tys init rfl hok).1
  simpa [init] using this

/-! ## non-vacuity of the sequence-number and transparency theorems -/

-- strict: first exchange, application data, a re-key: the counter is 0 after each NEWKEYS and counts in between
example : (run ⟨true, [31]⟩ init [20, 31, 21]).seq = 0 ∧ (run ⟨true, [31]⟩ init [20, 31, 21, 7, 94]).seq = 2 ∧
    (run ⟨true, [31]⟩ init [20, 31, 21, 7, 94, 20, 31, 21]).seq = 0 ∧
    (run ⟨true, [31]⟩ init [20, 31, 21, 7, 94, 20, 31, 21]).phase = .done := by decide
-- the wrap-around: the counter before KEXINIT is what matters, 2^32 − 1 + 1 = 0
example : (step ⟨true, [31]⟩ ⟨.first, 0xFFFFFFFF, false, false⟩ 2).seq = 0 := by decide
-- non-strict: IGNORE / DEBUG anywhere, same outcome as without them, every packet counted, no reset
example : (run ⟨false, [34, 32]⟩ init [4, 20, 2, 34, 32, 2, 2, 21]).phase = (run ⟨false, [34, 32]⟩ init [20, 34, 32, 21]).phase ∧
    (run ⟨false, [34, 32]⟩ init [4, 20, 2, 34, 32, 2, 2, 21]).phase = .done ∧
    (run ⟨false, [34, 32]⟩ init [4, 20, 2, 34, 32, 2, 2, 21]).seq = 8 := by decide
example : wstep true 41 21 = 0 ∧ wstep false 41 21 = 42 ∧ wstep true 41 94 = 42 := by decide

end XC.C30
