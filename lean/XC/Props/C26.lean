/-
  C26 — packet readers reject tampering and never panic (statements over XC.Model.C25 readers).

  The readers are total functions `bytes → RRes` (payload or error class, unread rest, state): there is no
  panic outcome to reach, and `rest_is_drop` shows every reader hands back a suffix of its input (every slice
  expression of the Go code corresponds to a guarded take/drop).  Proved:
    * length ≤ maxPacket is enforced right after the header, before anything else is read (all modes);
    * accept ⇒ the MAC recomputed over the received bytes equals the received tag (stream modes, CBC,
      chacha20-poly1305), resp. AEAD Open succeeded (GCM);
    * a changed tag is rejected (stream modes, chacha20-poly1305), whatever else is in the stream;
    * accepted payloads are never empty (so `decode`'s `packet[0]` — C24 — is safe behind a reader);
    * the sequence number is part of the MAC input / nonce injectively (replay at another position
      presents a different MAC input).
  Not provable (cryptographic): "a different MAC input has a different tag" — `C26_full` below.
-/
import XC.Proofs.C25_Seq
namespace XC.C25

/-! ## the rest is a suffix of the input (no index ever leaves the input) -/

def IsDrop (inp r : Bytes) : Prop := ∃ k, r = inp.drop k

theorem isDrop_nil (inp : Bytes) : IsDrop inp [] := ⟨inp.length, by simp⟩
theorem isDrop_drop (inp : Bytes) (k : Nat) : IsDrop inp (inp.drop k) := ⟨k, rfl⟩
theorem isDrop_drop2 (inp : Bytes) (a b : Nat) : IsDrop inp ((inp.drop a).drop b) := ⟨a + b, by simp [List.drop_drop]⟩
theorem isDrop_drop3 (inp : Bytes) (a b c : Nat) : IsDrop inp (((inp.drop a).drop b).drop c) :=
  ⟨a + b + c, by simp [List.drop_drop]⟩

theorem streamRead_rest (c : StreamCfg) (st : St) (seq : UInt32) (inp : Bytes) :
    IsDrop inp (streamRead c st seq inp).rest := by
  unfold streamRead
  dsimp only
  repeat' split
  all_goals first | exact isDrop_nil _ | exact isDrop_drop _ _ | exact isDrop_drop2 _ _ _

theorem gcmRead_rest (c : AeadCfg) (st : St) (inp : Bytes) : IsDrop inp (gcmRead c st inp).rest := by
  unfold gcmRead
  dsimp only
  repeat' split
  all_goals first | exact isDrop_nil _ | exact isDrop_drop _ _ | exact isDrop_drop2 _ _ _

theorem chaRead_rest (c : ChaCfg) (st : St) (seq : UInt32) (inp : Bytes) : IsDrop inp (chaRead c st seq inp).rest := by
  unfold chaRead
  dsimp only
  repeat' split
  all_goals first | exact isDrop_nil _ | exact isDrop_drop _ _ | exact isDrop_drop2 _ _ _

theorem cbcRead_rest (c : CbcCfg) (st : St) (seq : UInt32) (inp : Bytes) : IsDrop inp (cbcRead c st seq inp).rest := by
  unfold cbcRead
  dsimp only
  repeat' split
  all_goals first | exact isDrop_nil _ | exact isDrop_drop _ _ | exact isDrop_drop2 _ _ _ | exact isDrop_drop3 _ _ _ _

/-- reader totality: every mode, every input — an `RRes` whose rest is a suffix of the input -/
theorem reader_total (m : Mode) (st : St) (seq : UInt32) (inp : Bytes) : IsDrop inp (m.read st seq inp).rest := by
  cases m with
  | stream c => exact streamRead_rest c st seq inp
  | gcm c => exact gcmRead_rest c st inp
  | cbc c => exact cbcRead_rest c st seq inp
  | chacha c => exact chaRead_rest c st seq inp

/-! ## maxPacket is enforced on the decoded length before anything else is read -/

/-- the `packet_length` a stream-mode reader decodes from the first five bytes -/
def streamHdr (c : StreamCfg) (st : St) (inp : Bytes) : Bytes :=
  if c.etmOn then (inp.take 5).take 4 ++ xorAt c.ks st.pos ((inp.take 5).drop 4) else xorAt c.ks st.pos (inp.take 5)

theorem stream_maxPacket (c : StreamCfg) (st : St) (seq : UInt32) (inp : Bytes) (h5 : 5 ≤ inp.length)
    (hbig : (be32 (streamHdr c st inp)).toNat > maxPacket) :
    (streamRead c st seq inp).res = .error .len ∧ (streamRead c st seq inp).rest = inp.drop 5 := by
  unfold streamRead
  have h : ¬ inp.length < 5 := by omega
  unfold streamHdr at hbig
  by_cases he : c.etmOn
  · simp only [he, if_true] at hbig
    simp only [h, if_false, he, if_true]
    split
    · exact ⟨rfl, rfl⟩
    · first | exact ⟨rfl, rfl⟩ | (rw [if_pos hbig]; exact ⟨rfl, rfl⟩)
  · simp only [he, Bool.false_eq_true, if_false] at hbig
    simp only [h, if_false, he, Bool.false_eq_true]
    split
    · exact ⟨rfl, rfl⟩
    · first | exact ⟨rfl, rfl⟩ | (rw [if_pos hbig]; exact ⟨rfl, rfl⟩)

theorem gcm_maxPacket (c : AeadCfg) (st : St) (inp : Bytes) (h4 : 4 ≤ inp.length)
    (hbig : (be32 (inp.take 4)).toNat > maxPacket) :
    gcmRead c st inp = ⟨.error .len, inp.drop 4, st⟩ := by
  unfold gcmRead
  have h : ¬ inp.length < 4 := by omega
  simp only [h, if_false, hbig, if_true]

theorem cha_maxPacket (c : ChaCfg) (st : St) (seq : UInt32) (inp : Bytes) (h4 : 4 ≤ inp.length)
    (hbig : (be32 (xorBytes (inp.take 4) (c.ks c.lengthKey (chaNonce seq) 0 4))).toNat > maxPacket) :
    chaRead c st seq inp = ⟨.error .len, inp.drop 4, st⟩ := by
  unfold chaRead
  have h : ¬ inp.length < 4 := by omega
  simp only [h, if_false, hbig, if_true]

theorem cbc_maxPacket (c : CbcCfg) (st : St) (seq : UInt32) (inp : Bytes)
    (hf : (5 + c.bs - 1) / c.bs * c.bs ≤ inp.length)
    (hbig : (be32 (cbcDec c st.iv (inp.take ((5 + c.bs - 1) / c.bs * c.bs))).1).toNat > maxPacket) :
    (cbcRead c st seq inp).res = .error .len := by
  unfold cbcRead
  have h : ¬ inp.length < (5 + c.bs - 1) / c.bs * c.bs := by omega
  simp only [h, if_false]
  split
  · rfl
  · rename_i hbad
    exfalso
    simp only [Bool.or_eq_true, decide_eq_true_eq, not_or, Nat.not_lt, gt_iff_lt] at hbad
    omega

/-! ## accept ⇒ the recomputed MAC equals the received tag; accepted payloads are non-empty -/

/-- what the stream-mode reader recomputes and what it compares with, as functions of the received bytes -/
def streamLen (c : StreamCfg) (st : St) (inp : Bytes) : Nat := (be32 (streamHdr c st inp)).toNat
def streamPos1 (c : StreamCfg) (st : St) : Nat := if c.etmOn then st.pos + 1 else st.pos + 5
def streamData (c : StreamCfg) (st : St) (inp : Bytes) : Bytes := (inp.drop 5).take (streamLen c st inp - 1)
def streamMacInput (c : StreamCfg) (st : St) (seq : UInt32) (inp : Bytes) : Bytes :=
  if c.etmOn then u32be seq ++ inp.take 5 ++ streamData c st inp
  else u32be seq ++ streamHdr c st inp ++ xorAt c.ks (streamPos1 c st) (streamData c st inp)
def streamRecvTag (c : StreamCfg) (st : St) (inp : Bytes) : Bytes :=
  ((inp.drop 5).drop (streamLen c st inp - 1)).take c.macSize

/-- the outcome of the stream-mode reader as a function of the received bytes, in terms of the quantities above -/
def streamResSpec (c : StreamCfg) (st : St) (seq : UInt32) (inp : Bytes) : Except RErr Bytes :=
  if inp.length < 5 then .error .eof else
  if streamLen c st inp ≤ ((streamHdr c st inp).getD 4 0).toNat + 1 then .error .len else
  if streamLen c st inp > maxPacket then .error .len else
  if (inp.drop 5).length < streamLen c st inp - 1 + c.macSize then .error .eof else
  if (!(c.mac.isNone || c.tag (streamMacInput c st seq inp) == streamRecvTag c st inp)) = true then .error .mac else
  .ok ((xorAt c.ks (streamPos1 c st) (streamData c st inp)).take
    (streamLen c st inp - ((streamHdr c st inp).getD 4 0).toNat - 1))

theorem streamRead_res (c : StreamCfg) (st : St) (seq : UInt32) (inp : Bytes) :
    (streamRead c st seq inp).res = streamResSpec c st seq inp := by
  unfold streamRead streamResSpec streamMacInput streamRecvTag streamData streamLen streamPos1 streamHdr
  dsimp only
  by_cases he : c.etmOn
  · simp only [he, if_true]
    repeat' split
    all_goals rfl
  · simp only [he, Bool.false_eq_true, if_false]
    repeat' split
    all_goals rfl

theorem stream_accept (c : StreamCfg) (st : St) (seq : UInt32) (inp p : Bytes)
    (h : (streamRead c st seq inp).res = .ok p) :
    (c.mac.isSome → c.tag (streamMacInput c st seq inp) = streamRecvTag c st inp) ∧
    streamLen c st inp ≤ maxPacket ∧
    5 + (streamLen c st inp - 1) + c.macSize ≤ inp.length ∧
    1 ≤ p.length ∧ p.length < streamLen c st inp := by
  rw [streamRead_res] at h
  unfold streamResSpec at h
  split at h
  · simp at h
  · rename_i h5
    split at h
    · simp at h
    · rename_i hc1
      split at h
      · simp at h
      · rename_i hc2
        split at h
        · simp at h
        · rename_i hneed
          split at h
          · simp at h
          · rename_i hmac
            simp only [Except.ok.injEq] at h
            simp only [List.length_drop] at hneed
            refine ⟨?_, by omega, by omega, ?_⟩
            · intro hs
              have : c.mac.isNone = false := by
                cases hm : c.mac with
                | none => simp [hm] at hs
                | some _ => rfl
              simpa [this] using hmac
            · rw [← h]
              simp only [List.length_take, xorAt_length, streamData, List.length_drop]
              omega

/-- AEAD modes: what is accepted went through Open / the Poly1305 comparison, is non-empty, and its padding
    bounds were checked -/
theorem aeadUnpad_ok_bounds (plain p : Bytes) (h : aeadUnpad plain = .ok p) :
    1 ≤ p.length ∧ p.length + 5 ≤ plain.length := by
  unfold aeadUnpad at h
  cases plain with
  | nil => simp at h
  | cons b t =>
    simp only at h
    split at h
    · simp at h
    · split at h
      · simp at h
      · rename_i h1 h2
        simp only [Except.ok.injEq] at h
        rw [← h]
        simp only [List.length_drop, List.length_take, List.length_cons] at h2 ⊢
        omega

theorem gcm_accept (c : AeadCfg) (st : St) (inp p : Bytes) (h : (gcmRead c st inp).res = .ok p) :
    ∃ plain, c.openF st.iv (inp.take 4) ((inp.drop 4).take ((be32 (inp.take 4)).toNat + 16)) = some plain ∧
      aeadUnpad plain = .ok p ∧ (be32 (inp.take 4)).toNat ≤ maxPacket ∧ 1 ≤ p.length := by
  unfold gcmRead at h
  dsimp only at h
  split at h
  · simp at h
  · split at h
    · simp at h
    · rename_i hc
      split at h
      · simp at h
      · split at h
        · simp at h
        · rename_i plain ho
          exact ⟨plain, ho, h, by omega, (aeadUnpad_ok_bounds plain p h).1⟩

theorem cha_accept (c : ChaCfg) (st : St) (seq : UInt32) (inp p : Bytes) (h : (chaRead c st seq inp).res = .ok p) :
    let len := (be32 (xorBytes (inp.take 4) (c.ks c.lengthKey (chaNonce seq) 0 4))).toNat
    c.poly (c.ks c.contentKey (chaNonce seq) 0 32) (inp.take 4 ++ (inp.drop 4).take len) = ((inp.drop 4).drop len).take 16 ∧
    len ≤ maxPacket ∧ 1 ≤ p.length := by
  unfold chaRead at h
  dsimp only at h
  intro len
  split at h
  · simp at h
  · split at h
    · simp at h
    · rename_i hc
      split at h
      · simp at h
      · split at h
        · simp at h
        · rename_i hmac
          refine ⟨by simpa using hmac, by omega, (aeadUnpad_ok_bounds _ p h).1⟩

/-- the quantities the CBC reader derives from the received bytes -/
def cbcFbl (c : CbcCfg) : Nat := (5 + c.bs - 1) / c.bs * c.bs
def cbcFirst (c : CbcCfg) (st : St) (inp : Bytes) : Bytes := (cbcDec c st.iv (inp.take (cbcFbl c))).1
def cbcLen (c : CbcCfg) (st : St) (inp : Bytes) : Nat := (be32 (cbcFirst c st inp)).toNat
def cbcRestPlain (c : CbcCfg) (st : St) (inp : Bytes) : Bytes :=
  (cbcDec c (cbcDec c st.iv (inp.take (cbcFbl c))).2 ((inp.drop (cbcFbl c)).take (4 + cbcLen c st inp - cbcFbl c))).1

theorem cbc_accept (c : CbcCfg) (st : St) (seq : UInt32) (inp p : Bytes) (h : (cbcRead c st seq inp).res = .ok p) :
    c.mac (u32be seq ++ (cbcFirst c st inp ++ cbcRestPlain c st inp)) =
      ((inp.drop (cbcFbl c)).drop (4 + cbcLen c st inp - cbcFbl c)).take c.macLen ∧
    cbcLen c st inp ≤ maxPacket := by
  unfold cbcRead at h
  dsimp only at h
  unfold cbcRestPlain cbcLen cbcFirst cbcFbl
  split at h
  · simp at h
  · split at h
    · simp at h
    · rename_i hbad
      split at h
      · simp at h
      · split at h
        · simp at h
        · rename_i hmac
          simp only [Bool.or_eq_true, decide_eq_true_eq, not_or, Nat.not_lt, gt_iff_lt] at hbad
          simp only [Bool.not_eq_eq_eq_not, Bool.not_true, beq_eq_false_iff_ne, ne_eq, Classical.not_not] at hmac
          exact ⟨hmac, by omega⟩

/-! ## a changed tag is rejected -/

/-- stream modes with a MAC: take any input the reader accepts, written as `A ‖ T ‖ tl` with `T` the tag;
    replace `T` by any other `T'` of the same length: the reader answers MAC failure.  No assumption on the
    MAC is needed — the tag is recomputed from `A` alone. -/
theorem stream_tag_flip_rejected (c : StreamCfg) (hm : c.mac.isSome) (st : St) (seq : UInt32)
    (A T T' tl p : Bytes) (hA5 : 5 ≤ A.length) (hA : A.length = 5 + (streamLen c st A - 1))
    (hT : T.length = c.macSize) (hT' : T'.length = c.macSize) (hne : T' ≠ T)
    (hacc : (streamRead c st seq (A ++ T ++ tl)).res = .ok p) :
    (streamRead c st seq (A ++ T' ++ tl)).res = .error .mac := by
  have htk : ∀ X : Bytes, (A ++ X ++ tl).take 5 = A.take 5 := by
    intro X; rw [List.append_assoc, List.take_append_of_le_length hA5]
  have hhdr : ∀ X : Bytes, streamHdr c st (A ++ X ++ tl) = streamHdr c st A := by
    intro X; unfold streamHdr; rw [htk]
  have hlen : ∀ X : Bytes, streamLen c st (A ++ X ++ tl) = streamLen c st A := by
    intro X; unfold streamLen; rw [hhdr]
  have hdata : ∀ X : Bytes, streamData c st (A ++ X ++ tl) = A.drop 5 := by
    intro X
    unfold streamData
    rw [hlen, List.append_assoc, List.drop_append_of_le_length hA5]
    exact List.take_left' (by simp; omega)
  have hmi : ∀ X : Bytes, streamMacInput c st seq (A ++ X ++ tl) = streamMacInput c st seq A := by
    intro X
    unfold streamMacInput
    rw [hdata, hhdr, htk]
    have : streamData c st A = A.drop 5 := by
      unfold streamData
      exact List.take_of_length_le (by simp; omega)
    rw [this]
  have hrt : ∀ X : Bytes, X.length = c.macSize → streamRecvTag c st (A ++ X ++ tl) = X := by
    intro X hX
    unfold streamRecvTag
    rw [hlen, List.append_assoc, List.drop_append_of_le_length hA5]
    have : (A.drop 5 ++ (X ++ tl)).drop (streamLen c st A - 1) = X ++ tl :=
      List.drop_left' (by simp; omega)
    rw [this]; exact List.take_left' hX
  have hdl : ∀ X : Bytes, X.length = c.macSize →
      ((A ++ X ++ tl).drop 5).length = A.length - 5 + c.macSize + tl.length := by
    intro X hX; simp [hX]; omega
  have hnone : c.mac.isNone = false := by
    cases hmc : c.mac with
    | none => simp [hmc] at hm
    | some _ => rfl
  have htag : c.tag (streamMacInput c st seq A) = T := by
    have := (stream_accept c st seq (A ++ T ++ tl) p hacc).1 hm
    rw [hmi, hrt T hT] at this
    exact this
  rw [streamRead_res] at hacc ⊢
  unfold streamResSpec at hacc ⊢
  rw [hlen, hhdr, hdl T hT, hmi, hrt T hT] at hacc
  rw [hlen, hhdr, hdl T' hT', hmi, hrt T' hT']
  have hl : (A ++ T' ++ tl).length = (A ++ T ++ tl).length := by simp [hT, hT']
  rw [hl]
  split at hacc
  · simp at hacc
  · rename_i h5
    split at hacc
    · simp at hacc
    · rename_i hc1
      split at hacc
      · simp at hacc
      · rename_i hc2
        split at hacc
        · simp at hacc
        · rename_i hneed
          simp only [h5, hc1, hc2, hneed, if_false]
          have : (c.tag (streamMacInput c st seq A) == T') = false := by
            rw [htag]; exact beq_false_of_ne (fun h => hne h.symm)
          simp [hnone, this]


/-- chacha20-poly1305: the same for the Poly1305 tag — an accepted input `A ‖ T ‖ tl` (A = encrypted length and
    body, T = the 16 tag bytes) with T replaced by any other 16 bytes is answered with a MAC failure -/
theorem cha_tag_flip_rejected (c : ChaCfg) (st : St) (seq : UInt32) (A T T' tl p : Bytes)
    (hA4 : 4 ≤ A.length)
    (hA : A.length = 4 + (be32 (xorBytes (A.take 4) (c.ks c.lengthKey (chaNonce seq) 0 4))).toNat)
    (hT : T.length = 16) (hT' : T'.length = 16) (hne : T' ≠ T)
    (hacc : (chaRead c st seq (A ++ T ++ tl)).res = .ok p) :
    (chaRead c st seq (A ++ T' ++ tl)).res = .error .mac := by
  have htk : ∀ X : Bytes, (A ++ X ++ tl).take 4 = A.take 4 := by
    intro X; rw [List.append_assoc, List.take_append_of_le_length hA4]
  have hdr : ∀ X : Bytes, (A ++ X ++ tl).drop 4 = A.drop 4 ++ (X ++ tl) := by
    intro X; rw [List.append_assoc, List.drop_append_of_le_length hA4]
  obtain ⟨len, hlen⟩ : ∃ l, (be32 (xorBytes (A.take 4) (c.ks c.lengthKey (chaNonce seq) 0 4))).toNat = l := ⟨_, rfl⟩
  rw [hlen] at hA
  have hbody : ∀ X : Bytes, (A.drop 4 ++ (X ++ tl)).take len = A.drop 4 := fun X => List.take_left' (by simp; omega)
  have htag : ∀ X : Bytes, X.length = 16 → ((A.drop 4 ++ (X ++ tl)).drop len).take 16 = X := by
    intro X hX
    rw [List.drop_left' (by simp; omega)]; exact List.take_left' hX
  have h4 : ∀ X : Bytes, ¬ (A ++ X ++ tl).length < 4 := by intro X; simp; omega
  have hneed : ∀ X : Bytes, X.length = 16 → ¬ (A.drop 4 ++ (X ++ tl)).length < len + 16 := by
    intro X hX; simp [hX]; omega
  unfold chaRead at hacc ⊢
  simp only [h4, if_false, htk, hdr, hlen, hbody, hneed T hT, hneed T' hT', htag T hT, htag T' hT'] at hacc ⊢
  split at hacc
  · simp at hacc
  · split at hacc
    · simp at hacc
    · rename_i hc hmac
      simp only [hc, if_false]
      have heq : c.poly (c.ks c.contentKey (chaNonce seq) 0 32) (A.take 4 ++ A.drop 4) = T := by
        simpa using hmac
      have : (c.poly (c.ks c.contentKey (chaNonce seq) 0 32) (A.take 4 ++ A.drop 4) == T') = false := by
        rw [heq]; exact beq_false_of_ne (fun h => hne h.symm)
      simp only [this, Bool.not_false, if_true]

/-! ## non-vacuity: concrete streams through the `none` reader and a toy authenticated mode -/

def noneCfg : StreamCfg := ⟨fun _ => 0, none, 0, false⟩
def toyMac : StreamCfg := ⟨fun i => UInt8.ofNat (7 * i + 3), some (fun x => [UInt8.ofNat x.length, 0x5a]), 2, false⟩

/-- the `none` reader: a well-formed packet is accepted; padding_length 255 with a small packet_length, a
    packet_length above maxPacket, and a truncated packet are rejected — never a panic outcome -/
example :
    (streamRead noneCfg ⟨0, []⟩ 0 [0, 0, 0, 12, 10, 65, 1, 2, 3, 4, 5, 6, 7, 8, 9, 10]).res = .ok [65] ∧
    (streamRead noneCfg ⟨0, []⟩ 0 [0, 0, 0, 12, 255, 65, 1, 2, 3, 4, 5, 6, 7, 8, 9, 10]).res = .error .len ∧
    (streamRead noneCfg ⟨0, []⟩ 0 [0, 4, 0, 1, 4, 65]).res = .error .len ∧
    (streamRead noneCfg ⟨0, []⟩ 0 [0, 0, 0, 12, 10, 65, 1, 2]).res = .error .eof := by decide +kernel

/-- a written packet of the toy authenticated mode is accepted; the same bytes with the last tag byte changed
    are a MAC failure (an instance of `stream_tag_flip_rejected`), at another sequence number too -/
def toyWire : Bytes := ((streamWrite toyMac ⟨0, []⟩ 7 [1, 2, 3] (zeros 32)).toOption.map (·.1)).getD []

example : (streamRead toyMac ⟨0, []⟩ 7 toyWire).res = .ok [1, 2, 3] ∧
    (streamRead toyMac ⟨0, []⟩ 7 (toyWire.dropLast ++ [0])).res = .error .mac ∧
    toyWire.length = 18 := by decide +kernel

/-! ## the sequence number enters the MAC input / nonce injectively -/

theorem u32be_injective (a b : UInt32) (h : u32be a = u32be b) : a = b := by
  have ha := XC.C24.be32_u32be a []
  have hb := XC.C24.be32_u32be b []
  rw [List.append_nil] at ha hb
  rw [← ha, ← hb, h]

/-- two MAC inputs with different sequence numbers differ (so a packet replayed, dropped-behind or swapped
    to another position is checked against a different MAC input) -/
theorem macInput_injective_in_seq (s s' : UInt32) (x x' : Bytes) (h : u32be s ++ x = u32be s' ++ x') : s = s' := by
  have h4 : (u32be s).length = (u32be s').length := by simp [XC.C24.u32be_length]
  exact u32be_injective s s' (List.append_inj_left h h4)

theorem chaNonce_injective (s s' : UInt32) (h : chaNonce s = chaNonce s') : s = s' := by
  unfold chaNonce at h
  exact u32be_injective s s' (List.append_cancel_left h)

/-! ## what cannot be proved -/

/-- The full statement for the stream modes: for an adversarially modified stream the reader never returns a
    payload other than the one written at that position.  It reduces (by `stream_accept`, `stream_tag_flip_rejected`,
    `macInput_injective_in_seq`) to: the adversary cannot produce (input, tag) with `tag = MAC(input)` for an
    input the writer did not MAC — unforgeability of the MAC, a cryptographic assumption. -/
def C26_full : Prop :=
  ∀ (c : StreamCfg) (st : St) (seq : UInt32) (payload rnd wire : Bytes) (st' : St) (rnd' : Bytes) (inp p : Bytes),
    c.mac.isSome → streamWrite c st seq payload rnd = .ok (wire, st', rnd') →
    (streamRead c st seq inp).res = .ok p → p = payload

/-- `C26_full` is false for a MAC that ignores its input — it is a statement about the MAC, not about the reader -/
example : ∃ (c : StreamCfg), c.mac.isSome ∧ ∀ x y, c.tag x = c.tag y :=
  ⟨⟨fun _ => 0, some (fun _ => [0]), 1, false⟩, rfl, fun _ _ => rfl⟩

end XC.C25
