/-
  C49 — property theorems over XC.Model.C49.
-/
import XC.Model.C49
namespace XC.C49
open XC

/-! ## base64url-nopad round trip -/

theorem b64Val_b64Char (n : Nat) (h : n < 64) : b64Val (b64Char n) = some n := by
  have : ∀ k : Fin 64, b64Val (b64Char k.val) = some k.val := by decide
  exact this ⟨n, h⟩

theorem sextets_lt (bs : Bytes) : ∀ x ∈ sextets bs, x < 64 := by
  fun_induction sextets bs with
  | case1 a b c r ih =>
    intro x hx
    have ha := a.toNat_lt; have hb := b.toNat_lt; have hc := c.toNat_lt
    simp only [List.mem_cons] at hx
    rcases hx with rfl | rfl | rfl | rfl | hx
    · omega
    · omega
    · omega
    · omega
    · exact ih x hx
  | case2 a b =>
    intro x hx
    have ha := a.toNat_lt; have hb := b.toNat_lt
    simp only [List.mem_cons, List.not_mem_nil, or_false] at hx
    rcases hx with rfl | rfl | rfl <;> omega
  | case3 a =>
    intro x hx
    have ha := a.toNat_lt
    simp only [List.mem_cons, List.not_mem_nil, or_false] at hx
    rcases hx with rfl | rfl <;> omega
  | case4 => simp

theorem ofNat_eq (a : UInt8) (n : Nat) (h : n = a.toNat) : UInt8.ofNat n = a := by
  subst h; simp

theorem unsextets_sextets (bs : Bytes) : unsextets (sextets bs) = some bs := by
  fun_induction sextets bs with
  | case1 a b c r ih =>
    have ha := a.toNat_lt; have hb := b.toNat_lt; have hc := c.toNat_lt
    simp only [unsextets, ih, Option.map_some]
    congr 1
    rw [ofNat_eq a _ (by omega), ofNat_eq b _ (by omega), ofNat_eq c _ (by omega)]
  | case2 a b =>
    have ha := a.toNat_lt; have hb := b.toNat_lt
    simp only [unsextets]
    rw [ofNat_eq a _ (by omega), ofNat_eq b _ (by omega)]
  | case3 a =>
    have ha := a.toNat_lt
    simp only [unsextets]
    rw [ofNat_eq a _ (by omega)]
  | case4 => rfl

theorem mapM_b64Val (l : List Nat) (h : ∀ x ∈ l, x < 64) : (l.map b64Char).mapM b64Val = some l := by
  induction l with
  | nil => rfl
  | cons x r ih =>
    have hx := b64Val_b64Char x (h x (by simp))
    have hr := ih (fun y hy => h y (by simp [hy]))
    simp [List.mapM_cons, hx, hr]

/-- **b64url round trip**: decoding what `b64Enc` produced gives the bytes back, for every byte string. -/
theorem b64_roundtrip (bs : Bytes) : b64Dec (b64Enc bs) = some bs := by
  unfold b64Dec b64Enc
  rw [mapM_b64Val _ (sextets_lt bs)]
  simp [unsextets_sextets]

theorem b64Char_ne_dot (n : Nat) : b64Char n ≠ 0x2e := by
  unfold b64Char
  split
  · intro h; have := congrArg UInt8.toNat h; simp at this; omega
  · split
    · intro h; have := congrArg UInt8.toNat h; simp at this; omega
    · split
      · intro h; have := congrArg UInt8.toNat h; simp at this; omega
      · split <;> decide

theorem b64Enc_no_dot (bs : Bytes) : ∀ c ∈ b64Enc bs, c ≠ 0x2e := by
  intro c hc
  simp only [b64Enc, List.mem_map] at hc
  obtain ⟨n, _, rfl⟩ := hc
  exact b64Char_ne_dot n


/-! ## signing input -/

/-- split at the first '.' -/
def splitDot (s : Bytes) : Bytes × Bytes :=
  (s.takeWhile (· != 0x2e), (s.dropWhile (· != 0x2e)).drop 1)

theorem splitDot_append (a b : Bytes) (h : ∀ c ∈ a, c ≠ 0x2e) :
    splitDot (a ++ [0x2e] ++ b) = (a, b) := by
  induction a with
  | nil => simp [splitDot]
  | cons x r ih =>
    have hx : (x != 0x2e) = true := by simpa using h x (by simp)
    have := ih (fun c hc => h c (by simp [hc]))
    simp only [splitDot, List.cons_append, List.takeWhile_cons, hx, List.dropWhile_cons, if_true] at this ⊢
    simp only [List.append_assoc, List.cons_append, List.nil_append] at this ⊢
    rw [Prod.mk.injEq] at this ⊢
    exact ⟨by rw [this.1], this.2⟩

/-- **signing_input_shape**: the signing input is `b64(header) ‖ "." ‖ payload`; because the base64url
    alphabet has no '.', splitting at the first dot recovers both parts and the first part decodes to
    the protected header — also for string payloads that themselves contain dots. -/
theorem signing_input_shape (hj payload : Bytes) :
    splitDot (signingInput (b64Enc hj) payload) = (b64Enc hj, payload) ∧
    b64Dec (splitDot (signingInput (b64Enc hj) payload)).1 = some hj := by
  have h := splitDot_append (b64Enc hj) payload (b64Enc_no_dot hj)
  unfold signingInput
  rw [h]
  exact ⟨rfl, b64_roundtrip hj⟩

/-! ## minimal and fixed-width big-endian integers -/

theorem byteLen_zero : byteLen 0 = 0 := by unfold byteLen; simp
theorem byteLen_pos (n : Nat) (h : n ≠ 0) : byteLen n = byteLen (n / 256) + 1 := by
  rw [byteLen]; simp [h]

theorem lt_pow_byteLen (n : Nat) : n < 256 ^ byteLen n := by
  induction n using Nat.strongRecOn with
  | _ n ih =>
    by_cases h : n = 0
    · subst h; simp [byteLen_zero]
    · rw [byteLen_pos n h, Nat.pow_succ]
      have := ih (n / 256) (by omega)
      omega

theorem byteLen_le_of_lt (n k : Nat) (h : n < 256 ^ k) : byteLen n ≤ k := by
  induction k generalizing n with
  | zero => simp at h; subst h; simp [byteLen_zero]
  | succ k ih =>
    by_cases h0 : n = 0
    · subst h0; simp [byteLen_zero]
    · rw [byteLen_pos n h0]
      have : n / 256 < 256 ^ k := by rw [Nat.pow_succ] at h; omega
      have := ih _ this
      omega

theorem natToLE_pad (k : Nat) (n : Nat) (m : Nat) (h : n < 256 ^ k) :
    natToLE (k + m) n = natToLE k n ++ zeros m := by
  induction k generalizing n with
  | zero =>
    simp at h; subst h
    simp only [Nat.zero_add, natToLE, List.nil_append]
    induction m with
    | zero => rfl
    | succ m ih => simp [natToLE, zeros, List.replicate_succ] at ih ⊢; exact ih
  | succ k ih =>
    have : n / 256 < 256 ^ k := by rw [Nat.pow_succ] at h; omega
    rw [show k + 1 + m = (k + m) + 1 by omega]
    simp only [natToLE, List.cons_append, ih _ this]

theorem natBytes_length (n : Nat) : (natBytes n).length = byteLen n := by
  simp [natBytes, natToBE, natToLE_length]

/-- left-padding the minimal encoding with zeros is the fixed-width encoding -/
theorem pad_natBytes (size n : Nat) (h : byteLen n ≤ size) :
    zeros (size - byteLen n) ++ natBytes n = natToBE size n := by
  have e : size = byteLen n + (size - byteLen n) := by omega
  conv => rhs; rw [e]
  simp only [natToBE, natBytes, natToLE_pad _ _ _ (lt_pow_byteLen n), List.reverse_append, zeros,
    List.reverse_replicate]

theorem natOfBE_natToBE (size n : Nat) (h : n < 256 ^ size) : natOfBE (natToBE size n) = n := by
  simp [natOfBE, natToBE, natOfLE_natToLE, Nat.mod_eq_of_lt h]


/-! ## ECDSA R‖S -/

theorem copyAt_length (dst src : Bytes) (off : Nat) (h : off ≤ dst.length) :
    (copyAt dst off src).length = dst.length := by
  simp only [copyAt, List.length_append, List.length_take, List.length_drop]
  omega

/-- whenever `jwsSign` does not panic, the signature is exactly `2·size` bytes long -/
theorem rsFixed_length (size r s : Nat) (sig : Bytes) (h : rsFixed size r s = some sig) :
    sig.length = 2 * size := by
  unfold rsFixed at h
  simp only at h
  split at h
  · simp at h
  · split at h
    · simp at h
    · simp only [Option.some.injEq] at h
      subst h
      have l1 : (copyAt (zeros (size * 2)) (size - (natBytes r).length) (natBytes r)).length = size * 2 := by
        rw [copyAt_length] <;> simp [zeros]; omega
      rw [copyAt_length _ _ _ (by rw [l1]; omega), l1]; omega

theorem copyAt_first (k : Nat) (rb : Bytes) (h : rb.length ≤ k) :
    copyAt (zeros (k * 2)) (k - rb.length) rb = zeros (k - rb.length) ++ rb ++ zeros k := by
  simp only [copyAt, zeros, List.length_replicate, List.take_replicate, List.drop_replicate]
  rw [List.take_of_length_le (by omega)]
  congr 2
  · congr 1; omega
  · omega

theorem copyAt_second (k : Nat) (P sb : Bytes) (hP : P.length = k) (h : sb.length ≤ k) :
    copyAt (P ++ zeros k) (k * 2 - sb.length) sb = P ++ (zeros (k - sb.length) ++ sb) := by
  simp only [copyAt, zeros, List.length_append, List.length_replicate, hP]
  rw [List.take_of_length_le (l := sb) (by omega)]
  rw [List.drop_of_length_le (by simp [hP]; omega)]
  rw [List.take_append, hP]
  rw [List.take_of_length_le (l := P) (by omega)]
  simp only [List.take_replicate, List.append_nil, List.append_assoc]
  congr 2
  congr 1
  omega

/-- **rs_width (general form).** For r, s that fit the width, the copy-into-zeroed-buffer code computes
    the fixed-width big-endian R followed by the fixed-width big-endian S. -/
theorem rsFixed_spec (size r s : Nat) (hr : r < 256 ^ size) (hs : s < 256 ^ size) :
    rsFixed size r s = some (natToBE size r ++ natToBE size s) := by
  have lr := byteLen_le_of_lt r size hr
  have ls := byteLen_le_of_lt s size hs
  unfold rsFixed
  simp only [natBytes_length]
  rw [if_neg (by omega), if_neg (by omega)]
  have h1 := copyAt_first size (natBytes r) (by rw [natBytes_length]; exact lr)
  rw [natBytes_length] at h1
  rw [h1, pad_natBytes size r lr]
  have h2 := copyAt_second size (natToBE size r) (natBytes s) (by simp [natToBE, natToLE_length])
    (by rw [natBytes_length]; exact ls)
  rw [natBytes_length] at h2
  rw [h2, pad_natBytes size s ls]

/-- R and S are read back from the two halves -/
theorem rs_recover (size r s : Nat) (hr : r < 256 ^ size) (hs : s < 256 ^ size) (sig : Bytes)
    (h : rsFixed size r s = some sig) :
    natOfBE (sig.take size) = r ∧ natOfBE (sig.drop size) = s := by
  rw [rsFixed_spec size r s hr hs] at h
  simp only [Option.some.injEq] at h
  subst h
  have hl : (natToBE size r).length = size := by simp [natToBE, natToLE_length]
  rw [List.take_left' hl, List.drop_left' hl]
  exact ⟨natOfBE_natToBE size r hr, natOfBE_natToBE size s hs⟩

/-- the size rule as written (`size%8` instead of `BitSize%8`) is right on the three supported curves… -/
theorem sigSize_supported (c : Curve) (h : c = .p256 ∨ c = .p384 ∨ c = .p521) :
    sigSize c = (c.bits + 7) / 8 ∧ sigSize c = coordSize c := by
  rcases h with rfl | rfl | rfl <;> decide

/-- …but only there: for P-224 it would give 29 bytes instead of 28 (unreachable: `jwsHasher` rejects P-224). -/
theorem sigSize_p224 : sigSize .p224 = 29 ∧ coordSize .p224 = 28 ∧ jwsHasher (.ec .p224 0 0) = none := by
  decide

/-- **rs_width** (finite over the three curves, as the code's rule allows no more): for every supported
    curve and every signature with r, s < 2^bits — in particular every valid ECDSA signature — the JWS
    signature is 64 / 96 / 132 bytes, left-padded R then left-padded S. -/
theorem rs_width (c : Curve) (hc : c = .p256 ∨ c = .p384 ∨ c = .p521) (r s : Nat)
    (hr : r < 2 ^ c.bits) (hs : s < 2 ^ c.bits) :
    ∃ sig, rsFixed (sigSize c) r s = some sig ∧ sig.length = 2 * ((c.bits + 7) / 8) ∧
      sig = natToBE (sigSize c) r ++ natToBE (sigSize c) s ∧
      natOfBE (sig.take (sigSize c)) = r ∧ natOfBE (sig.drop (sigSize c)) = s := by
  have hb : 2 ^ c.bits ≤ 256 ^ sigSize c := by
    have e : (256 : Nat) = 2 ^ 8 := by decide
    rw [e, ← Nat.pow_mul]
    apply Nat.pow_le_pow_right (by decide)
    rcases hc with rfl | rfl | rfl <;> decide
  have hr' : r < 256 ^ sigSize c := by omega
  have hs' : s < 256 ^ sigSize c := by omega
  have h := rsFixed_spec (sigSize c) r s hr' hs'
  refine ⟨_, h, ?_, rfl, ?_⟩
  · rw [rsFixed_length _ _ _ _ h, (sigSize_supported c hc).1]
  · exact rs_recover _ r s hr' hs' _ h

example : rsFixed 32 1 255 = some (natToBE 32 1 ++ natToBE 32 255) :=
  rsFixed_spec 32 1 255 (by decide) (by decide)


/-- the slice expressions of `jwsSign` panic exactly when r is wider than the field or s wider than the
    whole buffer (only a misbehaving `crypto.Signer` can produce that) -/
theorem rsFixed_panics_iff (size r s : Nat) :
    rsFixed size r s = none ↔ byteLen r > size ∨ byteLen s > size * 2 := by
  unfold rsFixed
  simp only [natBytes_length]
  by_cases h1 : byteLen r > size
  · simp [h1]
  · by_cases h2 : byteLen s > size * 2
    · simp [h1, h2]
    · simp [h1, h2]

/-! ## protected header: `jwk` xor `kid` -/

def hasMember (ms : Members) (k : String) : Bool := ms.any fun m => m.1 == asc k

/-- **jwk_xor_kid**: the protected header carries the JWK exactly when no key ID is given and the key
    ID exactly when one is given — never both, never neither; `alg` and `url` are always present and
    `nonce` exactly when non-empty. -/
theorem jwk_xor_kid (alg : Bytes) (p : Pub) (kid nonce url : Bytes) :
    let ms := headerMembers alg p kid nonce url
    (hasMember ms "jwk" = kid.isEmpty) ∧ (hasMember ms "kid" = !kid.isEmpty) ∧
    (hasMember ms "jwk" != hasMember ms "kid") = true ∧
    hasMember ms "alg" = true ∧ hasMember ms "url" = true ∧ (hasMember ms "nonce" = !nonce.isEmpty) := by
  simp only [headerMembers, hasMember]
  cases hk : kid.isEmpty <;> cases hn : nonce.isEmpty <;> simp <;> decide

/-- the member that is present has the right value -/
theorem header_values (alg : Bytes) (p : Pub) (kid nonce url : Bytes) :
    let ms := headerMembers alg p kid nonce url
    (kid.isEmpty = true → (asc "jwk", JVal.raw (jwkEncode p)) ∈ ms) ∧
    (kid.isEmpty = false → (asc "kid", JVal.str kid) ∈ ms) ∧
    (nonce.isEmpty = false → (asc "nonce", JVal.str nonce) ∈ ms) ∧
    (asc "url", JVal.str url) ∈ ms ∧ (asc "alg", JVal.str alg) ∈ ms := by
  simp only [headerMembers]
  cases hk : kid.isEmpty <;> cases hn : nonce.isEmpty <;> simp

/-! ## JWK -/

/-- **ec_coord_padding**: a coordinate that fits the field is written with exactly ⌈bits/8⌉ bytes —
    leading zero bytes are kept, i.e. the field decodes to the fixed-width big-endian form; a wider value
    is never truncated. In both cases the field's integer value is the coordinate. -/
theorem ec_coord_padding (c : Curve) (x : Nat) :
    (x < 256 ^ coordSize c → leftPad (coordSize c) (natBytes x) = natToBE (coordSize c) x) ∧
    (¬ x < 256 ^ coordSize c → leftPad (coordSize c) (natBytes x) = natBytes x) ∧
    natOfBE (leftPad (coordSize c) (natBytes x)) = x ∧
    b64Dec (b64Enc (leftPad (coordSize c) (natBytes x))) = some (leftPad (coordSize c) (natBytes x)) := by
  have hval : natOfBE (natBytes x) = x := natOfBE_natToBE _ _ (lt_pow_byteLen x)
  refine ⟨?_, ?_, ?_, b64_roundtrip _⟩
  · intro h
    have hl := byteLen_le_of_lt x _ h
    unfold leftPad
    rw [natBytes_length]
    split
    · exact pad_natBytes _ _ hl
    · have : byteLen x = coordSize c := by omega
      have := pad_natBytes (coordSize c) x hl
      simp_all [zeros]
  · intro h
    unfold leftPad
    rw [natBytes_length]
    have : ¬ coordSize c > byteLen x := by
      intro hh
      have := lt_pow_byteLen x
      have : 256 ^ byteLen x ≤ 256 ^ coordSize c := Nat.pow_le_pow_right (by decide) (by omega)
      omega
    simp [this]
  · by_cases h : x < 256 ^ coordSize c
    · have hl := byteLen_le_of_lt x _ h
      unfold leftPad
      rw [natBytes_length]
      split
      · rw [pad_natBytes _ _ hl]; exact natOfBE_natToBE _ _ h
      · exact hval
    · unfold leftPad
      rw [natBytes_length]
      split
      · rename_i hh
        have := lt_pow_byteLen x
        have : 256 ^ byteLen x ≤ 256 ^ coordSize c := Nat.pow_le_pow_right (by decide) (by omega)
        omega
      · exact hval

def bytesLt : Bytes → Bytes → Bool
  | [], [] => false
  | [], _ :: _ => true
  | _ :: _, [] => false
  | a :: r, b :: t => a < b || (a == b && bytesLt r t)

def strictlySorted : List Bytes → Bool
  | a :: b :: r => bytesLt a b && strictlySorted (b :: r)
  | _ => true

theorem natOfLE_append (a b : Bytes) : natOfLE (a ++ b) = natOfLE a + 256 ^ a.length * natOfLE b := by
  induction a with
  | nil => simp [natOfLE]
  | cons x r ih => simp only [List.cons_append, natOfLE, ih, List.length_cons, Nat.pow_succ]; rw [Nat.mul_add]; ac_rfl

theorem natOfLE_lt (bs : Bytes) : natOfLE bs < 256 ^ bs.length := by
  induction bs with
  | nil => simp [natOfLE]
  | cons x r ih =>
    have := x.toNat_lt
    simp only [natOfLE, List.length_cons, Nat.pow_succ]; omega

theorem pow_byteLen_le (n : Nat) (h : n ≠ 0) : 256 ^ (byteLen n - 1) ≤ n := by
  induction n using Nat.strongRecOn with
  | _ n ih =>
    rw [byteLen_pos n h, Nat.add_sub_cancel]
    by_cases hq : n / 256 = 0
    · rw [hq, byteLen_zero]; simp; omega
    · have := ih (n / 256) (by omega) hq
      have e := byteLen_pos _ hq
      rw [e, Nat.add_sub_cancel] at this
      rw [e, Nat.pow_succ]
      omega

/-- `big.Int.Bytes()` is minimal: no leading zero byte -/
theorem natBytes_head_ne_zero (n : Nat) : (natBytes n).head? ≠ some 0 := by
  intro h
  by_cases h0 : n = 0
  · subst h0; simp [natBytes, byteLen_zero, natToBE, natToLE] at h
  · cases hb : natBytes n with
    | nil => simp [hb] at h
    | cons x t =>
      rw [hb] at h
      simp only [List.head?_cons, Option.some.injEq] at h
      subst h
      have hl : t.length + 1 = byteLen n := by rw [← natBytes_length, hb]; rfl
      have hv : natOfBE (natBytes n) = n := natOfBE_natToBE _ _ (lt_pow_byteLen n)
      rw [hb, natOfBE, List.reverse_cons, natOfLE_append] at hv
      simp only [natOfLE, List.length_reverse] at hv
      have h1 := natOfLE_lt t.reverse
      rw [List.length_reverse] at h1
      have h2 := pow_byteLen_le n h0
      rw [← hl, Nat.add_sub_cancel] at h2
      simp at hv
      omega

/-- **RFC 7638 canonical form**: `jwkEncode` writes exactly the required members of the key type, in
    lexicographic order of their names, with no whitespace (`jsonObj`); RSA `e` and `n` are the
    minimal big-endian integers (no leading zero byte). The thumbprint is the base64url SHA-256 of
    that text. -/
theorem jwk_canonical (p : Pub) :
    strictlySorted ((jwkMembers p).map (·.1)) = true ∧
    (match p with
     | .rsa n e => (jwkMembers p).map (·.1) = [asc "e", asc "kty", asc "n"] ∧
         (asc "e", JVal.str (b64Enc (natBytes e))) ∈ jwkMembers p ∧
         (asc "n", JVal.str (b64Enc (natBytes n))) ∈ jwkMembers p ∧
         natOfBE (natBytes e) = e ∧ natOfBE (natBytes n) = n ∧
         (natBytes n).head? ≠ some 0 ∧ (natBytes e).head? ≠ some 0
     | .ec _ _ _ => (jwkMembers p).map (·.1) = [asc "crv", asc "kty", asc "x", asc "y"]) ∧
    thumbprint p = b64Enc (XC.Prim.sha256 (jsonObj (jwkMembers p))) := by
  cases p with
  | rsa n e =>
    refine ⟨?_, ⟨rfl, by simp [jwkMembers], by simp [jwkMembers],
      natOfBE_natToBE _ _ (lt_pow_byteLen e), natOfBE_natToBE _ _ (lt_pow_byteLen n),
      natBytes_head_ne_zero n, natBytes_head_ne_zero e⟩, rfl⟩
    show strictlySorted [asc "e", asc "kty", asc "n"] = true
    decide
  | ec c x y =>
    refine ⟨?_, rfl, rfl⟩
    show strictlySorted [asc "crv", asc "kty", asc "x", asc "y"] = true
    decide

/-! ## external account binding -/

/-- **eab_is_hs256_over_account_jwk**: an EAB JWS exists iff the MAC key is non-empty; its protected
    header is `{"alg":"HS256","kid":<eab kid>[,"url":<newAccount URL>]}`, its payload decodes to the
    account key's JWK text, and its signature is HMAC-SHA-256 under the EAB key of
    `b64(header) ‖ "." ‖ payload`. -/
theorem eab_is_hs256_over_account_jwk (acct : Pub) (url kid key : Bytes) :
    (eab acct url kid key = none ↔ key = []) ∧
    ∀ hj payload sig, eab acct url kid key = some (hj, payload, sig) →
      hj = jsonObj ([(asc "alg", .str (asc "HS256")), (asc "kid", .str kid)] ++
                    (if url.isEmpty then [] else [(asc "url", .str url)])) ∧
      b64Dec payload = some (jwkEncode acct) ∧
      sig = XC.Prim.hmacSha256 key (signingInput (b64Enc hj) payload) := by
  unfold eab jwsWithMAC
  constructor
  · cases key <;> simp
  · intro hj payload sig h
    cases key with
    | nil => simp at h
    | cons k ks =>
      simp only [List.isEmpty_cons, Bool.false_eq_true, if_false, Option.some.injEq, Prod.mk.injEq] at h
      obtain ⟨h1, h2, h3⟩ := h
      subst h1 h2 h3
      exact ⟨rfl, b64_roundtrip _, rfl⟩


/-! ## the complete output and account key rollover -/

/-- what a successful `jwsEncodeJSON` consists of -/
theorem jwsEncode_ok (p : Pub) (kid nonce url : Bytes) (pl : Payload) (sg : SigScript)
    (alg hj payload digest sig : Bytes) (h : jwsEncode p kid nonce url pl sg = .ok alg hj payload digest sig) :
    ∃ hash, jwsHasher p = some (alg, hash) ∧ hj = jsonObj (headerMembers alg p kid nonce url) ∧
      payload = payloadField pl ∧ digest = hash.run (signingInput (b64Enc hj) payload) := by
  unfold jwsEncode at h
  cases hh : jwsHasher p with
  | none => simp [hh] at h
  | some ah =>
    obtain ⟨a, hash⟩ := ah
    simp only [hh] at h
    cases p with
    | rsa n e =>
      cases sg with
      | der r s => simp at h
      | fail => simp at h
      | raw b =>
        simp only [Out.ok.injEq] at h
        obtain ⟨h1, h2, h3, h4, _⟩ := h
        subst h1 h2 h3 h4
        exact ⟨hash, rfl, rfl, rfl, rfl⟩
    | ec c x y =>
      cases sg with
      | raw b => simp at h
      | fail => simp at h
      | der r s =>
        simp only at h
        cases hr : rsFixed (sigSize c) r s with
        | none => simp [hr] at h
        | some sg' =>
          simp only [hr, Out.ok.injEq] at h
          obtain ⟨h1, h2, h3, h4, _⟩ := h
          subst h1 h2 h3 h4
          exact ⟨hash, rfl, rfl, rfl, rfl⟩

/-- **rollover_shape** (RFC 8555 §7.3.5). The body POSTed to keyChange is an outer JWS in KID form by the
    account key whose payload is the base64url of an inner JWS; the inner JWS is signed by the NEW key,
    carries the new key's JWK and the same `url`, no nonce and no kid, and its payload decodes to
    `{"account": <kid>, "oldKey": <JWK of the old key>}`. -/
theorem rollover_shape (old new : Pub) (kid nonce url : Bytes) (si so : SigScript) (body : Bytes)
    (hk : kid.isEmpty = false) (h : rollover old new kid nonce url si so = some body) :
    ∃ algI plI sigI algO sigO,
      let hI := headerMembers algI new [] [] url
      let inner := jwsJSON (b64Enc (jsonObj hI)) plI sigI
      let hO := headerMembers algO old kid nonce url
      hasMember hI "jwk" = true ∧ hasMember hI "kid" = false ∧ hasMember hI "nonce" = false ∧
      (asc "url", JVal.str url) ∈ hI ∧ (asc "jwk", JVal.raw (jwkEncode new)) ∈ hI ∧
      b64Dec plI = some (rolloverPayload kid old) ∧
      hasMember hO "kid" = true ∧ hasMember hO "jwk" = false ∧ (asc "kid", JVal.str kid) ∈ hO ∧
      (asc "url", JVal.str url) ∈ hO ∧
      body = jwsJSON (b64Enc (jsonObj hO)) (b64Enc inner) sigO ∧ b64Dec (b64Enc inner) = some inner := by
  unfold rollover at h
  cases hin : rolloverInner old new kid url si with
  | err => simp [hin, Out.json] at h
  | panic => simp [hin, Out.json] at h
  | ok algI hjI plI dI sigI =>
    simp only [hin, Out.json] at h
    cases hout : jwsEncode old kid nonce url (.str (b64Enc (jwsJSON (b64Enc hjI) plI sigI))) so with
    | err => simp [hout] at h
    | panic => simp [hout] at h
    | ok algO hjO plO dO sigO =>
      simp only [hout, Option.some.injEq] at h
      obtain ⟨_, _, e2, e3, _⟩ := jwsEncode_ok _ _ _ _ _ _ _ _ _ _ _ hin
      obtain ⟨_, _, f2, f3, _⟩ := jwsEncode_ok _ _ _ _ _ _ _ _ _ _ _ hout
      subst e2 e3 f2 f3
      have x1 := jwk_xor_kid algI new [] [] url
      have x2 := header_values algI new [] [] url
      have y1 := jwk_xor_kid algO old kid nonce url
      have y2 := header_values algO old kid nonce url
      simp only [List.isEmpty_nil, Bool.not_true] at x1 x2
      simp only [hk, Bool.not_false] at y1 y2
      refine ⟨algI, _, sigI, algO, sigO, x1.1, x1.2.1, x1.2.2.2.2.2, x2.2.2.2.1, x2.1 trivial, ?_,
        y1.2.1, y1.1, y2.2.1 trivial, y2.2.2.2.1, h.symm, b64_roundtrip _⟩
      exact b64_roundtrip _


/-- **advertised alg.** The `alg` header names exactly the scheme the signer is asked to perform:
    RS256 = RSA with SHA-256, ES256/384/512 = ECDSA on P-256/384/521 with SHA-256/384/512; any other
    curve is refused. The signer receives the digest of `b64(header) ‖ "." ‖ payload` under that hash
    (`jwsEncode_ok`). -/
theorem jwsHasher_spec (p : Pub) :
    (∀ n e, p = .rsa n e → jwsHasher p = some (asc "RS256", .sha256)) ∧
    (∀ x y, p = .ec .p256 x y → jwsHasher p = some (asc "ES256", .sha256)) ∧
    (∀ x y, p = .ec .p384 x y → jwsHasher p = some (asc "ES384", .sha384)) ∧
    (∀ x y, p = .ec .p521 x y → jwsHasher p = some (asc "ES512", .sha512)) ∧
    (∀ x y, p = .ec .p224 x y → jwsHasher p = none ∧ ∀ k n u pl sg, jwsEncode p k n u pl sg = .err) := by
  refine ⟨?_, ?_, ?_, ?_, ?_⟩ <;> intros <;> subst_vars <;> simp [jwsHasher, jwsEncode]

/-- **which requests carry the JWK.** Of all signing methods only the two account lookups by key
    (`Register`, `GetReg`) and requests signed with a key handed in by the caller (`RevokeCert` with the
    certificate key) are sent in JWK form; every other request names the account by its key ID — given
    that one is known. -/
theorem api_key_form (acct signer : Pub) (explicitKey : Bool) (kid nonce url regURL : Bytes) (r : ApiReq)
    (sg : SigScript) (alg hj payload digest sig : Bytes) (hk : kid.isEmpty = false)
    (h : apiEncode acct signer explicitKey kid nonce url regURL r sg = .ok alg hj payload digest sig) :
    ∃ ms, hj = jsonObj ms ∧ hasMember ms "jwk" = (explicitKey || apiJWKForm r) ∧
      hasMember ms "kid" = !(explicitKey || apiJWKForm r) ∧ (asc "url", JVal.str url) ∈ ms := by
  unfold apiEncode at h
  cases hp : apiPayload acct regURL r with
  | none => simp [hp] at h
  | some pl =>
    simp only [hp] at h
    obtain ⟨_, _, e2, _, _⟩ := jwsEncode_ok _ _ _ _ _ _ _ _ _ _ _ h
    refine ⟨_, e2, ?_, ?_, ?_⟩
    · have := (jwk_xor_kid alg signer (if (explicitKey || apiJWKForm r) = true then [] else kid) nonce url).1
      rw [this]; cases hb : (explicitKey || apiJWKForm r) <;> simp [hb, hk]
    · have := (jwk_xor_kid alg signer (if (explicitKey || apiJWKForm r) = true then [] else kid) nonce url).2.1
      rw [this]; cases hb : (explicitKey || apiJWKForm r) <;> simp [hb, hk]
    · exact (header_values alg signer _ nonce url).2.2.2.1

/-! ## non-vacuity -/

example : ∃ sig, rsFixed (sigSize .p256) 1 2 = some sig ∧ sig.length = 64 := by
  obtain ⟨sig, h1, h2, _⟩ := rs_width .p256 (Or.inl rfl) 1 2 (by decide) (by decide)
  exact ⟨sig, h1, by simpa [Curve.bits] using h2⟩

example : ∃ sig, rsFixed (sigSize .p521) (2 ^ 520) 0 = some sig ∧ sig.length = 132 := by
  obtain ⟨sig, h1, h2, _⟩ := rs_width .p521 (Or.inr (Or.inr rfl)) (2 ^ 520) 0
    (Nat.pow_lt_pow_right (by decide) (by decide)) (Nat.pow_pos (by decide))
  exact ⟨sig, h1, by simpa [Curve.bits] using h2⟩

example : rsFixed 32 (256 ^ 32) 1 = none := (rsFixed_panics_iff 32 (256 ^ 32) 1).2 (Or.inl (by
  have := lt_pow_byteLen (256 ^ 32)
  have h : ¬ byteLen (256 ^ 32) ≤ 32 := fun hle =>
    absurd (Nat.lt_of_lt_of_le this (Nat.pow_le_pow_right (by decide) hle)) (Nat.lt_irrefl _)
  omega))

example : ∃ body, rollover (.rsa 35 3) (.rsa 77 3) (asc "k") (asc "n") (asc "u") (.raw [1]) (.raw [2]) = some body := by
  simp [rollover, rolloverInner, jwsEncode, jwsHasher, Out.json]

example : eab (.rsa 35 3) (asc "u") (asc "k") [1] ≠ none :=
  fun h => by have := (eab_is_hs256_over_account_jwk (.rsa 35 3) (asc "u") (asc "k") [1]).1.1 h; simp at this

example : hasMember (headerMembers (asc "ES256") (.ec .p256 1 2) [] (asc "n") (asc "u")) "jwk" = true :=
  (jwk_xor_kid _ _ _ _ _).1
example : hasMember (headerMembers (asc "ES256") (.ec .p256 1 2) (asc "kid1") (asc "n") (asc "u")) "jwk" = false :=
  (jwk_xor_kid _ _ _ _ _).1

end XC.C49
