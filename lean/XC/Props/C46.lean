/-
  C46 — ASCII armor and cleartext signatures: property theorems over XC.Model.C46.
-/
import XC.Model.C46
import XC.Proofs.C46_LB
import XC.Proofs.C46_CS
import XC.Proofs.C46_RT
import XC.Proofs.C46_CSD
namespace XC.C46
open XC

/-! ## armor: encoder -/

/-- **lineBreaker, any chunking**: whatever pieces reach `lineBreaker.Write`, the bytes written (with
    `Close`) are the text cut into 64-byte lines joined by single LFs, and the slice-bounds panic
    (`used ≥ lineLength`) is unreachable. -/
theorem linebreaker_chunking (pieces : List Bytes) :
    lbAll pieces = breakLines pieces.flatten ∧ (lbRun {} pieces).1.panicked = false :=
  ⟨lbAll_eq pieces, lbRun_no_panic pieces⟩

/-- **shape**: every line is non-empty and at most 64 bytes, every line but the last has exactly 64,
    and the lines concatenate to the text. -/
theorem linebreaker_shape (text : Bytes) :
    (∀ c ∈ chunks lineLength text, 0 < c.length ∧ c.length ≤ 64) ∧
    (∀ c ∈ (chunks lineLength text).dropLast, c.length = 64) ∧
    (chunks lineLength text).flatten = text :=
  chunks_shape lineLength (by decide) text

example : breakLines (List.replicate 130 65) =
    List.replicate 64 65 ++ [LF] ++ List.replicate 64 65 ++ [LF] ++ List.replicate 2 65 := by
  rw [breakLines, intercalate_eq_joinLF]
  rw [chunks_cons _ _ (by decide) (by decide), chunks_cons _ _ (by decide) (by decide),
    chunks_cons _ _ (by decide) (by decide)]
  simp [lineLength, chunks_nil, joinLF]

theorem cutAt_flatten (bs : Bytes) (pos : Nat) (offs : List Nat) : (cutAt bs pos offs).flatten = bs := by
  induction offs generalizing bs pos with
  | nil => simp [cutAt]
  | cons o os ih => simp [cutAt, ih]

/-- **Encode, any Write chunking**: the implementation-shaped encoder (running CRC per Write, base64 text
    reaching the lineBreaker in pieces) produces the spec-shaped armor of the concatenated body. -/
theorem encode_chunking (ty : Bytes) (hdr : Hdr) (chunks : List Bytes) :
    encodeGo ty hdr chunks = encode ty hdr chunks.flatten := by
  unfold encodeGo encode
  simp only [lbAll_eq, cutAt_flatten]
  have : chunks.foldl crc24 crc24Init = crc24 crc24Init chunks.flatten := by
    have e : crc24 = fun b l => List.foldl crcByte b l := by funext b l; rfl
    rw [e]; simp only [List.foldl_flatten]
  rw [this]

/-! ## armor: CRC decision -/

/-- **CRC-24 mismatch ⇒ reject**: if the armor carries a checksum line (the lineReader ended with
    `crcSet`), reading the body ends with EOF only if the checksum equals the CRC-24 of the bytes
    delivered; in every other case the reader returns an error (`corrupt`, `b64`, `ueof`). -/
theorem b64Stream_end (left : Bytes) (fin : LineEnd) (ls : List Bytes) :
    (b64Stream left fin ls).2 = none ∨ (b64Stream left fin ls).2 = some fin ∨
    (b64Stream left fin ls).2 = some .b64err := by
  induction ls generalizing left with
  | nil =>
    unfold b64Stream
    by_cases h : left.isEmpty = true
    · simp [h]
    · cases fin <;> simp [h]
  | cons l ls ih =>
    unfold b64Stream
    simp only
    split
    · exact ih _
    · split
      · simp
      · exact ih _

theorem crc_reject (s body : Bytes) (c : Nat)
    (hcrc : (bodyLines s).2 = .eofCrc c) (hok : readBody s = (body, .eof)) :
    c = crc24 crc24Init body % 16777216 := by
  unfold readBody at hok
  simp only [hcrc] at hok
  have hend := b64Stream_end [] (LineEnd.eofCrc c) (bodyLines s).1
  generalize b64Stream [] (LineEnd.eofCrc c) (bodyLines s).1 = r at hok hend
  obtain ⟨out, e⟩ := r
  rcases hend with h | h | h
  · simp only at h; subst h; simp at hok
  · simp only at h; subst h
    simp only at hok
    by_cases hc : (c != crc24 crc24Init out % 16777216) = true
    · simp [hc] at hok
    · simp only [hc, Bool.false_eq_true, ↓reduceIte, Prod.mk.injEq, and_true] at hok
      subst hok
      simpa using hc
  · simp only at h; subst h; simp at hok

/-! ## armor: round trip -/

/-- **armor_roundtrip**: for every body, every chunking of the Writes, every well-formed block type and
    header list (`WFType`, `WFH`: per encoded line `key ": " value` — no LF, ≤ 99 bytes, no White_Space
    rune at either end, first `": "` is the separator; keys pairwise distinct), decoding what `Encode`
    wrote yields the same type, the same headers, the same body, and ends with EOF (checksum accepted). -/
theorem armor_roundtrip (ty : Bytes) (hdr : Hdr) (chunks : List Bytes) (hty : WFType ty) (hh : WFH hdr) :
    decode (encodeGo ty hdr chunks) = some (ty, hdr, chunks.flatten, .eof) := by
  rw [encode_chunking]
  unfold encode
  rw [decode_encoded ty hdr chunks.flatten _ hty hh]
  simp

/-- **CRC-24 mismatch ⇒ rejected**: the same armor with any other 24-bit value in the `=XXXX` line
    decodes to the same type/headers/body bytes but reading the body ends with `ArmorCorrupt`. -/
theorem crc_mismatch_rejected (ty : Bytes) (hdr : Hdr) (body : Bytes) (crc : Nat) (hty : WFType ty) (hh : WFH hdr)
    (hne : crc % 16777216 ≠ crc24 crc24Init body % 16777216) :
    decode (encHead ty hdr ++ breakLines (b64enc body) ++ encTail ty crc) = some (ty, hdr, body, .corrupt) := by
  rw [decode_encoded ty hdr body crc hty hh]
  simp [hne]

/-- non-vacuity of the hypotheses: a usual type and header list are well-formed -/
example : WFType (str "PGP MESSAGE") := by
  refine ⟨by decide, ?_, by decide⟩
  unfold noLF; decide

example : WFH [(str "Version", str "GnuPG v1"), (str "Comment", str "a: b c")] := by
  refine ⟨?_, by decide⟩
  intro kv hkv
  simp only [List.mem_cons, List.not_mem_nil, or_false] at hkv
  rcases hkv with rfl | rfl <;>
  · refine ⟨?_, by decide, ⟨by decide, by decide⟩, by decide⟩
    unfold noLF; decide

/-- non-vacuity of `crc_mismatch_rejected` / `crc_reject`: checksum 0 is not the CRC-24 of the body `01 02 03`,
    and the encoder's own checksum is accepted -/
example : (0 : Nat) % 16777216 ≠ crc24 crc24Init [1, 2, 3] % 16777216 := by
  simp [crc24, crcByte, crcShift, crc24Init]
example : readBody (breakLines (b64enc [1, 2, 3]) ++ encTail (str "X") (crc24 crc24Init [1, 2, 3])) = ([1, 2, 3], .eof) := by
  rw [readBody_encoded (str "X") [1, 2, 3] _ ⟨by decide, by unfold noLF; decide, by decide⟩]
  simp
example : lbAll [[65, 66], [], [67]] = [65, 66, 67] := by
  rw [lbAll_eq]; rw [breakLines, intercalate_eq_joinLF, chunks_cons _ _ (by decide) (by decide)]
  simp [lineLength, chunks_nil, joinLF]

/-! ## clearsign -/

/-- **dashEscaper, any Write chunking, every plaintext**: the text written is the dash-escaped
    canonical lines (trailing SP/TAB/CR stripped per line, LF line ends, a final unterminated non-empty
    segment counts as a line) and the bytes fed to the signature hash are those lines joined by CRLF. -/
theorem dashEscaper_canonical (hashName : Bytes) (chunks : List Bytes) :
    csEncode hashName chunks =
      (csStart ++ [LF] ++ str "Hash: " ++ hashName ++ [LF, LF] ++ escText (canonLines chunks.flatten),
       signedBytes (canonLines chunks.flatten)) := by
  unfold csEncode
  rw [deWrite_chunks]
  have h := de_all chunks.flatten {} rfl rfl
  simp only [List.nil_append] at h
  simp only [h.1, h.2, hashOf_true]

/-- **dash_unescape_escape / clearsign round trip to the canonical form**: `Decode`'s text loop run on
    the escaper's output (followed by the armored signature's first line) returns exactly the canonical
    lines, so `Plaintext` = canonical lines each with LF and `Bytes` = canonical lines joined by CRLF. -/
theorem clearsign_text_roundtrip (pt tail : Bytes) :
    csText (escText (canonLines pt) ++ csEndText ++ LF :: tail) = some (canonLines pt, csEndText ++ LF :: tail) :=
  csText_escText (canonLines pt) (canonLines_canon pt) tail

/-- **the embedded signature verifies (hash level)**: the verifier hashes `Block.Bytes` through the
    canonical-text filter; on the decoded bytes that filter is the identity, so it hashes exactly the
    bytes the signer hashed. -/
theorem clearsign_hash_agrees (hashName : Bytes) (chunks : List Bytes) :
    cth (signedBytes (canonLines chunks.flatten)) = (csEncode hashName chunks).2 := by
  rw [dashEscaper_canonical]
  simp only
  rw [← hashOf_true]
  exact cth_signedBytes _ (canonLines_canon _)

/-- **clearsign_roundtrip** (whole message): `Decode (Encode pt ‖ armored signature)` = hash name,
    `Plaintext` = canonical lines with LF, `Bytes` = canonical lines joined by CRLF, signature block =
    whatever `armor.Decode` yields on the armored signature (proved in `XC.Proofs.C46_CSD`). -/
theorem clearsign_roundtrip (name : Bytes) (chunks : List Bytes) (A' : Bytes) (hn : WFHashName name) :
    csDecode ((csEncode name chunks).1 ++ (csEndText ++ LF :: A')) =
      (csArmor (csEndText ++ LF :: A')).map (fun a =>
        ⟨[name], plainText (canonLines chunks.flatten), signedBytes (canonLines chunks.flatten),
          a.1, a.2.1, a.2.2.1, a.2.2.2.1, a.2.2.2.2⟩) :=
  clearsign_decode_encode name chunks A' hn

example : WFHashName (str "SHA256") := ⟨by decide, by decide⟩

/-- canonical lines have no LF and no trailing blank; canonicalisation is idempotent on them -/
theorem canonical_lines (pt : Bytes) : ∀ l ∈ canonLines pt, noLF l ∧ trimR l = l := canonLines_canon pt

/-- non-vacuity: a plaintext exercising escapes, trailing blanks, CRLF and a missing final newline -/
example : canonLines (str "-a \r\n\n b\t\n- c") = [str "-a", [], str " b", str "- c"] := by
  simp [canonLines, linesOf, splitLF, str, LF, trimR, isWs]
example : escText [str "-a", [], str " b", str "- c"] = str "- -a\n\n b\n- - c\n" := by decide

end XC.C46
