/-
  C05 — BLAKE2b / BLAKE2s digests are RFC 7693; Sum is pure; Reset restores the keyed initial state.

  Statements are over the model of the Go code in XC.Model.C05 (`Digest.write` = the lazy Write,
  `Digest.finalize` = the counter-borrow finalisation, `hashBlocks` with the two-word counter,
  `compressGo` = the loop body of hashBlocksGeneric with the permuted `precomputed` table).
  The spec side is `blake2Spec` (RFC 7693 §3.3) over `F` (§3.2) with σ (§2.7).
-/
import XC.Proofs.C05
namespace XC.C05
open Variant

variable {A : Alg}

/-! ## histories of Write / Sum / Reset -/

inductive Ev where
  | write (p : Bytes)
  | sum
  | reset

/-- outputs of the Sum calls of a history run on the Go-shaped digest -/
def run (d : Digest A) : List Ev → List Bytes
  | [] => []
  | .write p :: r => run (d.write p) r
  | .sum :: r => d.sum :: run d r
  | .reset :: r => run d.reset r

/-- what RFC 7693 says the Sums must be: the digest of everything written since the last Reset -/
def specRun (A : Alg) (size : Nat) (key : Bytes) (pending : Bytes) : List Ev → List Bytes
  | [] => []
  | .write p :: r => specRun A size key (pending ++ p) r
  | .sum :: r => blake2Spec A size key pending :: specRun A size key pending r
  | .reset :: r => specRun A size key [] r

def keyBlock (A : Alg) (key : Bytes) : Bytes := if key.isEmpty then [] else key ++ zeros (A.bs - key.length)

/-- refinement relation: the concrete state stands for "`pending` has been written under (size, key)" -/
def Rel (size : Nat) (key : Bytes) (d : Digest A) (pending : Bytes) : Prop :=
  Inv d ∧ d.size = size ∧ d.keyLen = key.length ∧ d.key = copyAt (zeros A.bs) 0 key ∧ key.length ≤ A.bs ∧
  ∃ t, d.c = A.cof t ∧ ∀ sfx,
    specLoop A d.h t (d.buf ++ sfx) = specLoop A (A.init size key.length) 0 (keyBlock A key ++ pending ++ sfx)

theorem rel_reset (size : Nat) (key : Bytes) (d : Digest A)
    (hb : d.block.length = A.bs) (hs : d.size = size) (hk : d.keyLen = key.length)
    (hkey : d.key = copyAt (zeros A.bs) 0 key) (hkl : key.length ≤ A.bs) :
    Rel size key d.reset [] := by
  have hkeylen : d.key.length = A.bs := by
    rw [hkey, copyAt_length _ _ _ (by simp)]; exact zeros_length _
  by_cases h0 : d.keyLen > 0
  · have hne : key.isEmpty = false := by
      cases key with
      | nil => simp at hk; omega
      | cons a t => rfl
    refine ⟨⟨?_, ?_⟩, ?_, ?_, ?_, hkl, 0, ?_, ?_⟩
    all_goals simp only [Digest.reset, if_pos h0]
    · exact Nat.le_refl _
    · exact hkeylen
    · exact hs
    · exact hk
    · exact hkey
    · intro sfx
      simp only [Digest.buf, keyBlock, hne, hs, hk, List.append_nil]
      rw [← hkeylen, List.take_length, hkey, copyAt_zeros _ _ hkl]
      simp [zeros_length]
  · have hnil : key = [] := by
      cases key with
      | nil => rfl
      | cons a t => simp at hk; omega
    refine ⟨⟨?_, ?_⟩, ?_, ?_, ?_, hkl, 0, ?_, ?_⟩
    all_goals simp only [Digest.reset, if_neg h0]
    · exact Nat.zero_le _
    · exact hb
    · exact hs
    · exact hk
    · exact hkey
    · intro sfx
      simp [Digest.buf, keyBlock, hnil, hs, hk]

theorem rel_new (L : Laws A) (size : Nat) (key : Bytes) (d0 : Digest A)
    (h : newDigest A size key = some d0) : Rel size key d0 [] := by
  unfold newDigest at h
  split at h
  · cases h
  · split at h
    · cases h
    · rename_i hk
      injection h with h
      subst h
      have := L.maxSize_le
      apply rel_reset
      · exact zeros_length _
      · rfl
      · rfl
      · rfl
      · omega

theorem rel_write (L : Laws A) (size : Nat) (key : Bytes) (d : Digest A) (pend p : Bytes)
    (h : Rel size key d pend) : Rel size key (d.write p) (pend ++ p) := by
  obtain ⟨hI, hs, hk, hkey, hkl, t, hc, hsp⟩ := h
  obtain ⟨t', h1, h2, h3⟩ := write_spec L d p t hI hc
  obtain ⟨e1, e2, e3⟩ := write_size d p
  refine ⟨h2, by rw [e1, hs], by rw [e3, hk], by rw [e2, hkey], hkl, t', h1, ?_⟩
  intro sfx
  rw [h3 sfx, List.append_assoc, hsp (p ++ sfx)]
  simp only [List.append_assoc]

theorem rel_sum (L : Laws A) (size : Nat) (key : Bytes) (d : Digest A) (pend : Bytes)
    (h : Rel size key d pend) : d.sum = blake2Spec A size key pend := by
  obtain ⟨hI, hs, hk, hkey, hkl, t, hc, hsp⟩ := h
  have := hsp []
  simp only [List.append_nil] at this
  simp only [Digest.sum, blake2Spec, finalize_spec L d t hI hc, this, hs]
  rfl

theorem run_rel (L : Laws A) (size : Nat) (key : Bytes) (evs : List Ev) :
    ∀ (d : Digest A) (pend : Bytes), Rel size key d pend → run d evs = specRun A size key pend evs := by
  induction evs with
  | nil => intros; rfl
  | cons e r ih =>
    intro d pend hrel
    cases e with
    | write p =>
      simp only [run, specRun]
      exact ih (d.write p) (pend ++ p) (rel_write L size key d pend p hrel)
    | sum =>
      simp only [run, specRun]
      rw [rel_sum L size key d pend hrel, ih d pend hrel]
    | reset =>
      simp only [run, specRun]
      obtain ⟨hI, hs, hk, hkey, hkl, _⟩ := hrel
      exact ih d.reset [] (rel_reset size key d hI.2 hs hk hkey hkl)

/-- **Main theorem (C05).** For every digest size and key accepted by `newDigest`, and every history of
    Write / Sum / Reset calls (any chunking, any interleaving), each Sum returns the RFC 7693 digest of the
    bytes written since the last Reset (or since creation): so Write is chunking-invariant, Sum does not
    disturb later results, and Reset restores the keyed initial state. -/
theorem history_spec (L : Laws A) (size : Nat) (key : Bytes) (d0 : Digest A)
    (h : newDigest A size key = some d0) (evs : List Ev) :
    run d0 evs = specRun A size key [] evs :=
  run_rel L size key evs d0 [] (rel_new L size key d0 h)

/-- chunking invariance, the form quoted in the property: any sequence of Writes then Sum -/
theorem hash_writes_eq_spec (L : Laws A) (size : Nat) (key : Bytes) (d0 : Digest A)
    (h : newDigest A size key = some d0) (chunks : List Bytes) :
    (chunks.foldl Digest.write d0).sum = blake2Spec A size key chunks.flatten := by
  have hrel := rel_new L size key d0 h
  have : ∀ (cs : List Bytes) (d : Digest A) (pend : Bytes), Rel size key d pend →
      Rel size key (cs.foldl Digest.write d) (pend ++ cs.flatten) := by
    intro cs
    induction cs with
    | nil => intro d pend h; simpa using h
    | cons c r ih =>
      intro d pend h
      simp only [List.foldl_cons, List.flatten_cons, ← List.append_assoc]
      exact ih _ _ (rel_write L size key d pend c h)
  have := this chunks d0 [] hrel
  rw [rel_sum L size key _ _ this]
  simp

/-- Sum is pure and repeatable: a Sum in the middle of a history changes no later output -/
theorem sum_pure (d : Digest A) (pre post : List Ev) :
    run d (pre ++ Ev.sum :: post) =
      (run d pre) ++ ((pre.foldl (fun d e => match e with
          | .write p => d.write p | .sum => d | .reset => d.reset) d).sum :: []) ++
      run (pre.foldl (fun d e => match e with
          | .write p => d.write p | .sum => d | .reset => d.reset) d) post := by
  induction pre generalizing d with
  | nil => simp [run]
  | cons e r ih =>
    cases e <;> simp [run, ih]

/-- Reset restores the keyed initial state: after a Reset, whatever happened before, the hash answers
    like a freshly created one -/
theorem reset_eq_new (L : Laws A) (size : Nat) (key : Bytes) (d0 : Digest A)
    (h : newDigest A size key = some d0) (pre post : List Ev) :
    run d0 (pre ++ Ev.reset :: post) = run d0 pre ++ run d0 post := by
  rw [history_spec L size key d0 h, history_spec L size key d0 h, history_spec L size key d0 h]
  have : ∀ pend, specRun A size key pend (pre ++ Ev.reset :: post) =
      specRun A size key pend pre ++ specRun A size key [] post := by
    induction pre with
    | nil => intro pend; simp [specRun]
    | cons e r ih => intro pend; cases e <;> simp [specRun, ih]
  exact this []

/-- one-shot `checkSum` (Sum512, Sum384, Sum256) is the RFC digest of the unkeyed message -/
theorem checkSum_eq_spec (L : Laws A) (size : Nat) (data : Bytes) :
    checkSum A size data = blake2Spec A size [] data := by
  let d : Digest A := { h := A.init size 0, c := A.cof 0, size := size, block := zeros A.bs, offset := 0,
                        key := [], keyLen := 0 }
  have hI : Inv d := ⟨Nat.zero_le _, zeros_length _⟩
  obtain ⟨t', h1, h2, h3⟩ := writeTail_spec L d data 0 hI rfl rfl
  have hs : checkSum A size data = (d.writeTail data).sum := by
    have hbuf : ∀ (x : Bytes), x.length ≤ A.bs → (copyAt (zeros A.bs) 0 x).take (0 + x.length) = x := by
      intro x hx
      have := take_copyAt (zeros A.bs) 0 x (by rw [zeros_length]; omega)
      simpa using this
    by_cases hl : data.length > A.bs
    · obtain ⟨k, hk, hlt, hle⟩ := directLen_spec A.bs data.length L.bs_pos hl
      have hx : (data.drop (directLen A.bs data.length)).length ≤ A.bs := by
        rw [List.length_drop]; omega
      simp only [checkSum, Digest.sum, Digest.finalize, Digest.writeTail, if_pos hl, d]
      rw [hbuf _ hx]; simp only [Nat.zero_add]
    · have hx : data.length ≤ A.bs := by omega
      simp only [checkSum, Digest.sum, Digest.finalize, Digest.writeTail, if_neg hl, d]
      rw [hbuf _ hx]; simp only [Nat.zero_add]
  rw [hs]
  have hsz : (d.writeTail data).size = size := (writeTail_size d data).1
  simp only [Digest.sum, finalize_spec L _ t' h2 h1, hsz, blake2Spec]
  have := h3 []
  simp only [List.append_nil] at this
  rw [this]
  rfl

/-! ## the two instances, with the RFC compression function spelled out -/

/-- BLAKE2b exactly as RFC 7693 writes it: F with σ, t as (t mod 2^64, ⌊t/2^64⌋) -/
def Brfc : Alg := { B with comp := fun (h : H8 UInt64) (c : UInt64 × UInt64) last blk => F h blk c.1 c.2 last }
def Srfc : Alg := { S with comp := fun (h : H8 UInt32) (c : UInt32 × UInt32) last blk => F h blk c.1 c.2 last }

/-- the Go block step (permuted table, interleaved half-G's, flag word) is RFC 7693 F -/
theorem B_eq_Brfc : B = Brfc := by
  unfold Brfc
  have : B.comp = fun (h : H8 UInt64) (c : UInt64 × UInt64) last blk => F h blk c.1 c.2 last := by
    funext h c last blk
    exact compressGo_eq_F wordLaws64 h blk c.1 c.2 last
  rw [← this]

theorem S_eq_Srfc : S = Srfc := by
  unfold Srfc
  have : S.comp = fun (h : H8 UInt32) (c : UInt32 × UInt32) last blk => F h blk c.1 c.2 last := by
    funext h c last blk
    exact compressGo_eq_F wordLaws32 h blk c.1 c.2 last
  rw [← this]

/-- BLAKE2b: every Write/Sum/Reset history of the Go-shaped digest answers with RFC 7693 BLAKE2b -/
theorem blake2b_history_rfc (size : Nat) (key : Bytes) (d0 : Digest B)
    (h : newDigest B size key = some d0) (evs : List Ev) :
    run d0 evs = specRun B size key [] evs ∧ specRun B size key [] evs = specRun Brfc size key [] evs :=
  ⟨history_spec B_laws size key d0 h evs, by rw [← B_eq_Brfc]⟩

theorem blake2s_history_rfc (size : Nat) (key : Bytes) (d0 : Digest S)
    (h : newDigest S size key = some d0) (evs : List Ev) :
    run d0 evs = specRun S size key [] evs ∧ specRun S size key [] evs = specRun Srfc size key [] evs :=
  ⟨history_spec S_laws size key d0 h evs, by rw [← S_eq_Srfc]⟩

/-- the counter word pair fed to the last compression is the total byte count mod 2^128 (2^64 for 2s):
    this is `Laws.cdec_cinc` + `Laws.cinc_cof`, instantiated (carry into and borrow from `c[1]`) -/
theorem counter_finalize_b (t r : Nat) (hr : r ≤ 128) :
    B.cinc (B.cdec (B.cof t) r) = B.cof (t + (128 - r)) := B_laws.cdec_cinc t r hr
theorem counter_finalize_s (t r : Nat) (hr : r ≤ 64) :
    S.cinc (S.cdec (S.cof t) r) = S.cof (t + (64 - r)) := S_laws.cdec_cinc t r hr

/-! non-vacuity: the hypotheses are satisfiable (a keyed and an unkeyed digest exist) -/
example : (newDigest B 64 []).isSome = true := by decide
example : (newDigest S 32 [1, 2, 3]).isSome = true := by decide
example : (newDigest B 0 []).isSome = false := by decide
example : (newDigest B 65 []).isSome = false := by decide
/-- an instance of `history_spec`: a keyed BLAKE2b-256 with a Write, Sum, Reset, Sum history -/
example : ∃ d0, newDigest B 32 [1, 2, 3] = some d0 ∧
    run d0 [.write [9], .sum, .reset, .sum] =
      [blake2Spec B 32 [1, 2, 3] [9], blake2Spec B 32 [1, 2, 3] []] := by
  have h : (newDigest B 32 [1, 2, 3]).isSome = true := by decide
  obtain ⟨d0, hd⟩ := Option.isSome_iff_exists.mp h
  refine ⟨d0, hd, ?_⟩
  rw [history_spec B_laws 32 [1, 2, 3] d0 hd]
  simp [specRun]

end XC.C05
