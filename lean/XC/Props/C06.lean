/-
  C06 — BLAKE2X XOF: the bytes read equal the BLAKE2X construction whatever the Read chunking; exactly the
  declared length is produced before EOF; Write after Read panics.  Statements over XC.Model.C06
  (`Xof.read` = the Go Read with its three phases); lemmas in XC.Proofs.C06.
-/
import XC.Proofs.C06
namespace XC.C06
open XC.C05

variable {X : XAlg}

/-! ### absorbing phase -/

/-- the state after Writes (none of them after a Read) -/
def absorb (x : Xof X) (chunks : List Bytes) : Xof X := { x with d := chunks.foldl Digest.write x.d }

theorem write_absorb (x : Xof X) (h : x.readMode = false) (chunks : List Bytes) :
    chunks.foldlM (fun x p => x.write p) x = some (absorb x chunks) := by
  induction chunks generalizing x with
  | nil => simp [absorb]
  | cons p r ih =>
    have hw : x.write p = some { x with d := x.d.write p } := by simp [Xof.write, h]
    rw [List.foldlM_cons, hw]
    show List.foldlM (fun x p => x.write p) { x with d := x.d.write p } r = _
    rw [ih { x with d := x.d.write p } h]
    simp [absorb]

theorem foldl_write_spec (L : Laws X.A) (chunks : List Bytes) : ∀ (d : Digest X.A) (t : Nat),
    Inv d → d.c = X.A.cof t →
    ∃ t', (chunks.foldl Digest.write d).c = X.A.cof t' ∧ Inv (chunks.foldl Digest.write d) ∧
      ∀ sfx, specLoop X.A (chunks.foldl Digest.write d).h t' ((chunks.foldl Digest.write d).buf ++ sfx) =
        specLoop X.A d.h t (d.buf ++ chunks.flatten ++ sfx) := by
  induction chunks with
  | nil => intro d t hI hc; exact ⟨t, hc, hI, fun sfx => by simp⟩
  | cons p r ih =>
    intro d t hI hc
    obtain ⟨t1, a1, a2, a3⟩ := write_spec L d p t hI hc
    obtain ⟨t2, b1, b2, b3⟩ := ih (d.write p) t1 a2 a1
    refine ⟨t2, b1, b2, fun sfx => ?_⟩
    simp only [List.foldl_cons, List.flatten_cons]
    rw [b3 sfx, List.append_assoc, a3]
    simp only [List.append_assoc]

/-- the root hash: after NewXOF (or Reset) and any chunking of the message, the first Read's `finalize`
    yields BLAKE2 of the (keyed) message under the tweaked parameter block — `rootHash` -/
theorem root_eq_spec (W : XLaws X) (hsz : X.size ≤ X.A.bs) (size : Nat) (key : Bytes) (x0 : Xof X)
    (h : newXOF X size key = .ok x0) (chunks : List Bytes) :
    X.A.out (absorb x0 chunks).d.finalize = rootHash X x0.length key chunks.flatten ∧
    (absorb x0 chunks).d.block.length = X.A.bs := by
  unfold newXOF at h
  split at h
  · cases h
  · rename_i hk
    split at h
    · cases h
    · injection h with h
      subst h
      let d : Digest X.A := { h := X.A.init 0 0, c := X.A.cof 0, size := X.size, block := zeros X.A.bs, offset := 0,
                              key := copyAt (zeros X.A.bs) 0 key, keyLen := key.length }
      have hkl : key.length ≤ X.A.bs := by omega
      have hrel := rel_reset X.size key d (zeros_length _) rfl rfl rfl hkl
      obtain ⟨hI, _, _, _, _, t, hc, hsp⟩ := hrel
      -- the XOF's digest is `d.reset` with the tweaked chaining value
      let len := if size = 0 then X.unknown else size
      let d0 : Digest X.A := { d.reset with h := X.rootTweak d.reset.h len }
      have hI0 : Inv d0 := hI
      have hc0 : d0.c = X.A.cof 0 := by
        show d.reset.c = _
        unfold Digest.reset; simp only []; split <;> rfl
      have hbuf : d0.buf = keyBlock X.A key := by
        show d.reset.buf = _
        have hkeylen : d.key.length = X.A.bs := by
          show (copyAt (zeros X.A.bs) 0 key).length = _
          rw [copyAt_length _ _ _ (by simp)]; exact zeros_length _
        unfold Digest.reset Digest.buf keyBlock
        simp only []
        by_cases hk0 : key.length > 0
        · have hne : key.isEmpty = false := by cases key <;> simp_all
          rw [if_pos hk0]
          simp only [hne]
          show List.take X.A.bs (copyAt (zeros X.A.bs) 0 key) = _
          rw [copyAt_zeros _ _ hkl, List.take_of_length_le]
          · rfl
          · simp [zeros_length]; omega
        · have hnil : key = [] := by cases key <;> simp_all
          rw [if_neg hk0]
          simp [hnil]
      have hh : d0.h = X.rootTweak (X.A.init X.size key.length) len := by
        show X.rootTweak d.reset.h len = _
        unfold Digest.reset; simp only []; split <;> rfl
      obtain ⟨t', b1, b2, b3⟩ := foldl_write_spec W.L chunks d0 0 hI0 hc0
      have hfin := finalize_spec W.L _ t' b2 b1
      have := b3 []
      simp only [List.append_nil] at this
      refine ⟨?_, b2.2⟩
      show X.A.out (chunks.foldl Digest.write d0).finalize = _
      rw [hfin, this, hbuf, hh]
      rfl

/-! ### main theorem -/

theorem enterRead_idem (x : Xof X) : x.enterRead.enterRead = x.enterRead := by
  unfold Xof.enterRead
  split <;> simp_all

theorem read_enterRead (x : Xof X) (n : Nat) : x.read n = x.enterRead.read n := by
  unfold Xof.read Xof.readG
  rw [enterRead_idem]

theorem readAll_enterRead (x : Xof X) (reads : List Nat) :
    (readAll x reads).2 = (readAll x.enterRead reads).2 := by
  cases reads with
  | nil => rfl
  | cons n r => simp only [readAll, read_enterRead x n]

/-- a Read on an XOF in read mode reports EOF exactly when nothing remains (from `read_future`) -/
theorem eof_iff (W : XLaws X) (len : Nat) (h0 : Bytes) (x : Xof X) (n : Nat) (hw : WF len h0 x) :
    (x.read n).2.2 = true ↔ x.remaining = 0 := (read_future W len h0 x n hw).2.2.2

/-- the state at the first Read of a freshly created (or Reset) XOF that has absorbed `chunks`: it is a
    well-formed read-mode state whose root is the BLAKE2X root hash and whose future is the whole BLAKE2X output -/
theorem fresh_wf (W : XLaws X) (hsz : X.size ≤ X.A.bs) (size : Nat) (key : Bytes) (x0 : Xof X)
    (h : newXOF X size key = .ok x0) (chunks : List Bytes) :
    WF x0.length (rootHash X x0.length key chunks.flatten) (absorb x0 chunks).enterRead ∧
    future x0.length (rootHash X x0.length key chunks.flatten) (absorb x0 chunks).enterRead =
      blake2xSpec X x0.length key chunks.flatten := by
  obtain ⟨hroot, hblk⟩ := root_eq_spec W hsz size key x0 h chunks
  have hx0 : x0.readMode = false ∧ x0.offset = 0 ∧ x0.nodeOffset = 0 ∧ x0.remaining = outLen X x0.length ∧
      x0.cfg = ⟨X.size, 0⟩ ∧ x0.block.length = X.size := by
    unfold newXOF at h
    split at h
    · cases h
    · split at h
      · cases h
      · injection h with h
        subst h
        simp [Xof.reset, outLen, zeros_length]
  obtain ⟨m1, m2, m3, m4, m5, m6⟩ := hx0
  have hx : (absorb x0 chunks).enterRead =
      { absorb x0 chunks with root := X.A.out (absorb x0 chunks).d.finalize, readMode := true } := by
    unfold Xof.enterRead
    rw [if_neg (by show ¬ x0.readMode = true; simp [m1])]
  rw [hx]
  constructor
  · refine ⟨rfl, hroot, rfl, m6, by show x0.offset < X.size; rw [m2]; exact W.size_pos, hblk, ?_⟩
    intro _
    show x0.cfg.dlen = X.size
    rw [m5]
  · unfold future bufPart
    simp only []
    rw [if_neg (by show ¬ x0.offset > 0; omega)]
    simp only [List.nil_append, List.length_nil, Nat.sub_zero]
    show nodesFrom X x0.length _ x0.nodeOffset x0.remaining = _
    rw [m3, m4]
    rfl

/-- **Main theorem (C06).**  For every declared length and key accepted by NewXOF, every message in any Write
    chunking, and every sequence of Read sizes: the concatenated Read outputs are the prefix of the BLAKE2X
    output (`blake2xSpec`: root hash H0 with the xof length in its parameter block, node i = BLAKE2 with node
    offset i and digest length min(Size, bytes left) over H0) of length min(Σ sizes, declared length). -/
theorem read_history (W : XLaws X) (hsz : X.size ≤ X.A.bs) (size : Nat) (key : Bytes) (x0 : Xof X)
    (h : newXOF X size key = .ok x0) (chunks : List Bytes) (reads : List Nat) :
    ((readAll (absorb x0 chunks) reads).2.map (·.1)).flatten =
      (blake2xSpec X x0.length key chunks.flatten).take reads.sum := by
  obtain ⟨hw, hfut⟩ := fresh_wf W hsz size key x0 h chunks
  rw [readAll_enterRead]
  obtain ⟨r1, _, _⟩ := readAll_future W _ _ reads _ hw
  rw [r1, hfut]

/-- **EOF exactly at the declared length**: after any Reads `pre`, the next Read reports io.EOF if and only if
    the Reads so far have asked for at least the declared length (2^32·Size when unknown) -/
theorem eof_history (W : XLaws X) (hsz : X.size ≤ X.A.bs) (size : Nat) (key : Bytes) (x0 : Xof X)
    (h : newXOF X size key = .ok x0) (chunks : List Bytes) (pre : List Nat) (n : Nat) :
    ((readAll (absorb x0 chunks).enterRead pre).1.read n).2.2 = true ↔ outLen X x0.length ≤ pre.sum := by
  obtain ⟨hw, hfut⟩ := fresh_wf W hsz size key x0 h chunks
  obtain ⟨_, r2, r3⟩ := readAll_future W _ _ pre _ hw
  rw [eof_iff W _ _ _ n r2]
  have hl := future_length W _ _ _ r2
  rw [r3, hfut, List.length_drop] at hl
  unfold blake2xSpec at hl
  rw [nodesFrom_length W] at hl
  omega

/-- exactly the declared length (2^32·Size for OutputLengthUnknown) is produced before EOF -/
theorem total_len (W : XLaws X) (hsz : X.size ≤ X.A.bs) (size : Nat) (key : Bytes) (x0 : Xof X)
    (h : newXOF X size key = .ok x0) (chunks : List Bytes) (reads : List Nat) :
    ((readAll (absorb x0 chunks) reads).2.map (·.1)).flatten.length = min reads.sum (outLen X x0.length) := by
  rw [read_history W hsz size key x0 h chunks reads, List.length_take]
  unfold blake2xSpec
  rw [nodesFrom_length W]

/-! ### the two instances -/

theorem u64toLE_len (n : Nat) (w : UInt64) : (u64toLE n w).length = n := by
  induction n generalizing w with
  | zero => rfl
  | succ n ih => simp [u64toLE, ih]

theorem u32toLE_len (n : Nat) (w : UInt32) : (u32toLE n w).length = n := by
  induction n generalizing w with
  | zero => rfl
  | succ n ih => simp [u32toLE, ih]

theorem XB_laws : XLaws XB where
  L := B_laws
  size_pos := by decide
  out_len := by
    intro h
    show (outH h).length = 64
    simp only [outH, List.length_append]
    show (u64toLE 8 _).length + (u64toLE 8 _).length + (u64toLE 8 _).length + (u64toLE 8 _).length +
      (u64toLE 8 _).length + (u64toLE 8 _).length + (u64toLE 8 _).length + (u64toLE 8 _).length = 64
    simp only [u64toLE_len]

theorem XS_laws : XLaws XS where
  L := S_laws
  size_pos := by decide
  out_len := by
    intro h
    show (outH h).length = 32
    simp only [outH, List.length_append]
    show (u32toLE 4 _).length + (u32toLE 4 _).length + (u32toLE 4 _).length + (u32toLE 4 _).length +
      (u32toLE 4 _).length + (u32toLE 4 _).length + (u32toLE 4 _).length + (u32toLE 4 _).length = 32
    simp only [u32toLE_len]

/-- BLAKE2Xb -/
theorem blake2xb_read_history (size : Nat) (key : Bytes) (x0 : Xof XB) (h : newXOF XB size key = .ok x0)
    (chunks : List Bytes) (reads : List Nat) :
    ((readAll (absorb x0 chunks) reads).2.map (·.1)).flatten =
      (blake2xSpec XB x0.length key chunks.flatten).take reads.sum :=
  read_history XB_laws (by decide) size key x0 h chunks reads

/-- BLAKE2Xs -/
theorem blake2xs_read_history (size : Nat) (key : Bytes) (x0 : Xof XS) (h : newXOF XS size key = .ok x0)
    (chunks : List Bytes) (reads : List Nat) :
    ((readAll (absorb x0 chunks) reads).2.map (·.1)).flatten =
      (blake2xSpec XS x0.length key chunks.flatten).take reads.sum :=
  read_history XS_laws (by decide) size key x0 h chunks reads

/-- Write after the first Read panics -/
theorem write_after_read_panics (W : XLaws X) (len : Nat) (h0 : Bytes) (x : Xof X) (n : Nat) (p : Bytes)
    (hw : WF len h0 x) : (x.read n).1.write p = none := by
  have := (read_future W len h0 x n hw).2.2.1.1
  simp [Xof.write, this]

/-- Write after the first Read of a fresh XOF panics -/
theorem write_after_first_read_panics (x : Xof X) (n : Nat) (p : Bytes) : (x.read n).1.write p = none := by
  have hr : (x.read n).1.readMode = true := by
    have he : x.enterRead.readMode = true := by unfold Xof.enterRead; split <;> simp_all
    have hf : ∀ (keep : Bool) (k : Nat) (y : Xof X) (acc : Bytes), (fullNodes X keep k y acc).1.readMode = y.readMode := by
      intro keep k
      induction k with
      | zero => intros; rfl
      | succ k ih => intro y acc; simp only [fullNodes]; rw [ih]
    have hn : ∀ (keep : Bool) (m : Nat) (y : Xof X) (acc : Bytes), (y.readNodes keep m acc).1.readMode = y.readMode := by
      intro keep m y acc
      unfold Xof.readNodes
      simp only []
      split
      · simp only [Xof.partialNode]; exact hf _ _ _ _
      · exact hf _ _ _ _
    unfold Xof.read Xof.readG
    simp only []
    split
    · exact he
    · split
      · split
        · exact he
        · rw [hn]; exact he
      · rw [hn]; exact he
  simp [Xof.write, hr]

/-- discarding the output (the harness's skip step) leaves exactly the state a normal Read leaves -/
theorem fullNodes_state (k : Nat) : ∀ (x : Xof X) (keep keep' : Bool) (acc acc' : Bytes),
    (fullNodes X keep k x acc).1 = (fullNodes X keep' k x acc').1 := by
  induction k with
  | zero => intros; rfl
  | succ k ih => intro x keep keep' acc acc'; simp only [fullNodes]; exact ih _ _ _ _ _

theorem readNodes_state (x : Xof X) (keep keep' : Bool) (n : Nat) (acc acc' : Bytes) :
    (x.readNodes keep n acc).1 = (x.readNodes keep' n acc').1 := by
  unfold Xof.readNodes
  simp only []
  rw [fullNodes_state (n / X.size) x keep keep' acc acc']
  split <;> simp [Xof.partialNode]

theorem skip_eq_read_state (x : Xof X) (n : Nat) : x.skip n = (x.read n).1 := by
  unfold Xof.skip Xof.read Xof.readG
  simp only []
  split
  · rfl
  · split
    · split
      · rfl
      · exact readNodes_state _ _ _ _ _ _
    · exact readNodes_state _ _ _ _ _ _

theorem newXOF_ok_iff (size : Nat) (key : Bytes) :
    (∃ x, newXOF X size key = .ok x) ↔ key.length ≤ X.size ∧ size ≠ X.unknown := by
  unfold newXOF
  by_cases h1 : key.length > X.size
  · simp [h1]; omega
  · by_cases h2 : size = X.unknown
    · simp [h1, h2]
    · simp [h1, h2]; omega

/-! non-vacuity: NewXOF accepts these, so `read_history` / `eof_history` / `total_len` apply to them -/
example : ∃ x0, newXOF XB 100 [1, 2, 3] = .ok x0 ∧
    ((readAll (absorb x0 [[7], [8, 9]]) [0, 3, 64, 40]).2.map (·.1)).flatten.length = 100 := by
  obtain ⟨x0, h⟩ := (newXOF_ok_iff (X := XB) 100 [1, 2, 3]).mpr (by decide)
  refine ⟨x0, h, ?_⟩
  rw [total_len XB_laws (by decide) 100 [1, 2, 3] x0 h]
  have : x0.length = 100 := by
    unfold newXOF at h
    rw [if_neg (by decide), if_neg (by decide)] at h
    injection h with h
    rw [← h]; rfl
  rw [this]; decide

example : ∃ x, newXOF XB 100 [1, 2, 3] = .ok x := (newXOF_ok_iff 100 [1, 2, 3]).mpr (by decide)
example : ∃ x, newXOF XS 0 [] = .ok x := (newXOF_ok_iff 0 []).mpr (by decide)

end XC.C06
