/-
  C06 — BLAKE2X XOF.  Statements over XC.Model.C06 (`Xof.read` = the Go Read with its three phases).
-/
import XC.Model.C06
import XC.Props.C05
namespace XC.C06
open XC.C05

variable {X : XAlg}

/-- the full statement of the property over the model: for every accepted (length, key), message, and
    sequence of Read sizes, the concatenated output is the BLAKE2X stream prefix and EOF is reported
    exactly once the declared length is exhausted -/
def readAll (x : Xof X) : List Nat → Xof X × List (Bytes × Bool)
  | [] => (x, [])
  | n :: r => let (x', out, eof) := x.read n; let (x'', l) := readAll x' r; (x'', (out, eof) :: l)

def C06_full (X : XAlg) : Prop :=
  ∀ (length : Nat) (key msg : Bytes) (x0 : Xof X), newXOF X length key = .ok x0 →
  ∀ (chunks : List Bytes) (reads : List Nat),
    let x := { x0 with d := chunks.foldl Digest.write x0.d }
    let outs := (readAll x reads).2
    (outs.map (·.1)).flatten = blake2xSpec X x0.length key chunks.flatten 0 reads.sum

/-! ### each output node is BLAKE2 with the node's parameter block over the root hash -/

/-- `initConfig; Write(root); finalize` — whatever state the scratch digest was left in — is the one-block
    BLAKE2 computation `specLoop (cfgH cfg) 0 root` (counter = |root|, final flag) -/
theorem nodeHash_eq (L : Laws X.A) (d : Digest X.A) (cfg root : Bytes)
    (hb : d.block.length = X.A.bs) :
    (nodeHash X d cfg root).2 = X.A.out (specLoop X.A (X.cfgH cfg) 0 root) ∧
    (nodeHash X d cfg root).1.block.length = X.A.bs := by
  let d1 : Digest X.A := { d with offset := 0, c := X.A.cof 0, h := X.cfgH cfg }
  have hI : Inv d1 := ⟨Nat.zero_le _, hb⟩
  obtain ⟨t', h1, h2, h3⟩ := write_spec L d1 root 0 hI rfl
  have hf := finalize_spec L (d1.write root) t' h2 h1
  have := h3 []
  simp only [List.append_nil] at this
  constructor
  · show X.A.out (d1.write root).finalize = _
    rw [hf, this]
    simp [Digest.buf, d1]
  · exact h2.2

/-! ### Write after Read panics; EOF exactly when nothing remains; byte accounting -/

theorem fullNodes_fields (keep : Bool) (k : Nat) : ∀ (x : Xof X) (acc : Bytes),
    (fullNodes X keep k x acc).1.readMode = x.readMode ∧
    (fullNodes X keep k x acc).1.remaining = x.remaining - k * X.size ∧
    (fullNodes X keep k x acc).1.offset = x.offset ∧
    (fullNodes X keep k x acc).1.length = x.length ∧
    (fullNodes X keep k x acc).1.root = x.root := by
  induction k with
  | zero => intro x acc; simp [fullNodes]
  | succ k ih =>
    intro x acc
    simp only [fullNodes]
    obtain ⟨h1, h2, h3, h4, h5⟩ := ih
      { x with cfg := setBytes x.cfg 8 (le32n x.nodeOffset), nodeOffset := (x.nodeOffset + 1) % 4294967296,
               d := (nodeHash X x.d (setBytes x.cfg 8 (le32n x.nodeOffset)) x.root).1,
               block := (nodeHash X x.d (setBytes x.cfg 8 (le32n x.nodeOffset)) x.root).2,
               remaining := x.remaining - X.size }
      (if keep then acc ++ (nodeHash X x.d (setBytes x.cfg 8 (le32n x.nodeOffset)) x.root).2 else acc)
    refine ⟨h1, ?_, h3, h4, h5⟩
    rw [h2, Nat.succ_mul]
    simp only []
    omega

theorem readNodes_fields (x : Xof X) (keep : Bool) (n : Nat) (acc : Bytes) :
    (x.readNodes keep n acc).1.readMode = x.readMode ∧
    (x.readNodes keep n acc).1.remaining = x.remaining - n ∧
    (x.readNodes keep n acc).1.length = x.length ∧ (x.readNodes keep n acc).1.root = x.root := by
  obtain ⟨h1, h2, _, h4, h5⟩ := fullNodes_fields keep (n / X.size) x acc
  have hdm := Nat.div_add_mod n X.size
  rw [Nat.mul_comm] at hdm
  unfold Xof.readNodes
  simp only []
  split
  · simp only [Xof.partialNode, h1, h2, h4, h5]
    refine ⟨trivial, ?_, trivial, trivial⟩
    omega
  · rename_i hz
    refine ⟨h1, ?_, h4, h5⟩
    rw [h2]
    have : n % X.size = 0 := by omega
    omega

theorem enterRead_fields (x : Xof X) :
    x.enterRead.readMode = true ∧ x.enterRead.remaining = x.remaining ∧ x.enterRead.length = x.length := by
  unfold Xof.enterRead
  split <;> simp_all

/-- every Read leaves the XOF in read mode, returns EOF exactly when nothing remained, and consumes
    `min(len(p), remaining)` of the remaining budget -/
theorem readG_fields (x : Xof X) (keep : Bool) (n : Nat) :
    (x.readG keep n).1.readMode = true ∧
    ((x.readG keep n).2.2 = true ↔ x.remaining = 0) ∧
    (x.readG keep n).1.remaining = x.remaining - min n x.remaining ∧
    (x.readG keep n).1.length = x.length := by
  obtain ⟨e1, e2, e3⟩ := enterRead_fields x
  unfold Xof.readG
  simp only []
  by_cases h0 : x.enterRead.remaining = 0
  · rw [if_pos h0]
    rw [e2] at h0
    simp [e1, e2, e3, h0]
  · rw [if_neg h0]
    have h0' : x.remaining ≠ 0 := by rw [← e2]; exact h0
    by_cases ho : x.enterRead.offset > 0
    · rw [if_pos ho]
      by_cases hn : min n x.enterRead.remaining < X.size - x.enterRead.offset
      · rw [if_pos hn]
        simp [e1, e2, e3, h0']
      · rw [if_neg hn]
        obtain ⟨r1, r2, r3, _⟩ := readNodes_fields
          { x.enterRead with offset := 0, remaining := x.enterRead.remaining - (X.size - x.enterRead.offset) } keep
          (min n x.enterRead.remaining - (X.size - x.enterRead.offset)) (x.enterRead.block.drop x.enterRead.offset)
        refine ⟨by rw [r1]; exact e1, by simp [h0'], ?_, by rw [r3]; exact e3⟩
        rw [r2]
        simp only [e2] at hn ⊢
        omega
    · rw [if_neg ho]
      obtain ⟨r1, r2, r3, _⟩ := readNodes_fields x.enterRead keep (min n x.enterRead.remaining) []
      refine ⟨by rw [r1]; exact e1, by simp [h0'], ?_, by rw [r3]; exact e3⟩
      rw [r2, e2]

theorem read_fields (x : Xof X) (n : Nat) :
    (x.read n).1.readMode = true ∧
    ((x.read n).2.2 = true ↔ x.remaining = 0) ∧
    (x.read n).1.remaining = x.remaining - min n x.remaining ∧
    (x.read n).1.length = x.length := readG_fields x true n

/-- Write after the first Read panics -/
theorem write_after_read_panics (x : Xof X) (n : Nat) (p : Bytes) : ((x.read n).1.write p) = none := by
  simp [Xof.write, (read_fields x n).1]

/-- over a whole sequence of Reads exactly `min(Σ requested, remaining)` of the budget is consumed: with
    `remaining = outLen` after NewXOF/Reset this is "exactly the declared length before io.EOF" -/
theorem readAll_remaining (reads : List Nat) : ∀ (x : Xof X),
    (readAll x reads).1.remaining = x.remaining - min reads.sum x.remaining := by
  induction reads with
  | nil => intro x; simp [readAll]
  | cons n r ih =>
    intro x
    simp only [readAll, List.sum_cons]
    rw [ih, (read_fields x n).2.2.1]
    omega

/-- Reset sets the budget to the declared length (2^32·Size for OutputLengthUnknown) and leaves read mode -/
theorem reset_fields (x : Xof X) :
    x.reset.remaining = outLen X x.length ∧ x.reset.readMode = false ∧ x.reset.offset = 0 ∧ x.reset.nodeOffset = 0 := by
  simp [Xof.reset, outLen]

/-- discarding the output (the harness's skip step) leaves exactly the state a normal Read leaves -/
theorem fullNodes_state (k : Nat) : ∀ (x : Xof X) (keep keep' : Bool) (acc acc' : Bytes),
    (fullNodes X keep k x acc).1 = (fullNodes X keep' k x acc').1 := by
  induction k with
  | zero => intros; rfl
  | succ k ih => intro x keep keep' acc acc'; simp only [fullNodes]; exact ih _ _ _ _ _

theorem readNodes_state (x : Xof X) (keep keep' : Bool) (n : Nat) (acc acc' : Bytes) :
    (x.readNodes keep n acc).1 = (x.readNodes keep' n acc').1 := by
  unfold Xof.readNodes
  simp only []
  rw [fullNodes_state (n / X.size) x keep keep' acc acc']
  split <;> simp [Xof.partialNode]

theorem skip_eq_read_state (x : Xof X) (n : Nat) : x.skip n = (x.read n).1 := by
  unfold Xof.skip Xof.read Xof.readG
  simp only []
  split
  · rfl
  · split
    · split
      · rfl
      · exact readNodes_state _ _ _ _ _ _
    · exact readNodes_state _ _ _ _ _ _

theorem newXOF_ok_iff (size : Nat) (key : Bytes) :
    (∃ x, newXOF X size key = .ok x) ↔ key.length ≤ X.size ∧ size ≠ X.unknown := by
  unfold newXOF
  by_cases h1 : key.length > X.size
  · simp [h1]; omega
  · by_cases h2 : size = X.unknown
    · simp [h1, h2]
    · simp [h1, h2]; omega

end XC.C06
