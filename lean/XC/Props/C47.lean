/-
  C47 — property theorems over XC.Model.C47_Wire / XC.Model.C47.
-/
import XC.Model.C47
import XC.Proofs.C47_Round
import XC.Proofs.C47_Ake
import XC.Proofs.C47_NoPanic
namespace XC.C47

/-! ## fragmentation -/

/-- `Conversation.encode` (fixed code) never divides by zero: no FragmentSize, no message makes it panic. -/
theorem encode_total (F : Int) (t : Bytes) : encodeText F t ≠ .panic := by
  unfold encodeText
  split
  · simp
  · rename_i h
    have hF : ¬ F ≤ minFragmentSize := fun hh => h (Or.inl hh)
    have : (F - minFragmentSize).toNat ≠ 0 := by simp [minFragmentSize] at hF ⊢; omega
    simp [goDiv, this]

theorem encode_total' (F : Int) (msg : Bytes) : encode F msg ≠ .panic := encode_total F _

/-- a text without commas does not start with `?OTR,` -/
theorem not_prefix_of_no_comma (t : Bytes) (h : comma ∉ t) : hasPrefix fragmentPrefix t = false := by
  cases hp : hasPrefix fragmentPrefix t with
  | false => rfl
  | true =>
    exfalso; apply h
    simp only [hasPrefix, beq_iff_eq] at hp
    have : comma ∈ t.take fragmentPrefix.length := by rw [hp]; simp [fragmentPrefix, comma]
    exact List.mem_of_mem_take this

/-- **fragment_roundtrip.** For every FragmentSize `F` and every comma-free text `t` (the framed base64
    text `?OTR:`…`.` is one: `frame_no_comma`), whatever the receiver's fragment state `s`:
    delivering the pieces `encode` produced, in order, through `Receive`'s fragment front end yields
    nothing for every piece but the last and exactly `t` for the last — including the case where
    `len(t)` is a multiple of `bytesPerFragment` and the last piece is the empty fragment `?OTR,n,n,,`.
    (`t.length < 2^62`: Go slice lengths fit an int.) -/
theorem fragment_roundtrip (F : Int) (t : Bytes) (s : FragSt) (frs : List Bytes)
    (hc : comma ∉ t) (hlen : t.length < 2 ^ 62) (h : encodeText F t = .ok frs) :
    ∃ s', feed s frs = (s', List.replicate (frs.length - 1) FrontOut.nothing ++ [.msg t]) := by
  unfold encodeText at h
  split at h
  · -- single piece
    injection h with h; subst h
    refine ⟨s, ?_⟩
    simp [feed, frontEnd, not_prefix_of_no_comma t hc]
  · rename_i hcond
    have hF : 18 < F := by
      have : ¬ F ≤ minFragmentSize := fun hh => hcond (Or.inl hh)
      simpa [minFragmentSize] using this
    have hL : F < (t.length : Int) := by
      have : ¬ (t.length : Int) ≤ F := fun hh => hcond (Or.inr hh)
      omega
    generalize hb : (F - minFragmentSize).toNat = bpf at h
    have hbpf : 1 ≤ bpf := by simp [minFragmentSize] at hb; omega
    have hbL : bpf + 18 < t.length := by simp [minFragmentSize] at hb; omega
    have hne : bpf ≠ 0 := by omega
    simp only [goDiv, hne, if_false] at h
    injection h with h
    generalize hN : (t.length + bpf) / bpf = N at h
    -- N ≥ 2, N * bpf > length, N < 2^63
    have hdiv := Nat.div_add_mod (t.length + bpf) bpf
    have hmod := Nat.mod_lt (t.length + bpf) (show bpf > 0 by omega)
    rw [hN] at hdiv
    have hNb : t.length < bpf * N := by omega
    have hN2 : 2 ≤ N := by
      rcases Nat.lt_or_ge N 2 with h2 | h2
      · have : bpf * N ≤ bpf * 1 := Nat.mul_le_mul_left bpf (by omega)
        omega
      · exact h2
    have hN63 : N < 2 ^ 63 := by
      have : N ≤ t.length + bpf := by rw [← hN]; exact Nat.div_le_self _ _
      omega
    subst h
    -- first fragment
    obtain ⟨c, rfl⟩ : ∃ c, N = c + 1 := ⟨N - 1, by omega⟩
    have hpiece : t.take bpf ≠ [] := by
      intro e
      have h1 := congrArg List.length e
      rw [List.length_take] at h1
      have h2 : min bpf t.length = bpf := Nat.min_eq_left (by omega)
      simp [h2] at h1; omega
    have hpf := processFragment_encoded s 1 (c + 1) (t.take bpf) (not_mem_take bpf hc) (by omega) (by omega) hN63
    have hset : fragSet s.frag (t.take bpf) = some (t.take bpf) := by
      unfold fragSet; cases s.frag <;> simp [hpiece]
    have hnot : ¬ (c + 1 > 0 ∧ 1 = c + 1) := by omega
    simp only [if_true, hset, hnot, if_false] at hpf
    have htail := feed_tail bpf (c + 1) hN63 c 1 (t.drop bpf) (t.take bpf) (by omega) (by omega) (by omega)
      (not_mem_drop bpf hc)
    have hall : List.take bpf t ++ List.take (c * bpf) (List.drop bpf t) = t := by
      rw [← List.take_add]
      apply List.take_of_length_le
      have : bpf * (c + 1) = bpf + c * bpf := by rw [Nat.mul_add, Nat.mul_one, Nat.mul_comm, Nat.add_comm]
      omega
    rw [hall] at htail
    refine ⟨⟨0, 0, some t⟩, ?_⟩
    have hlen' : (fragLoop bpf (c + 1) (c + 1) 0 t).length = c + 1 := by
      have : ∀ (cnt i : Nat) (t : Bytes) (n : Nat), (fragLoop bpf n cnt i t).length = cnt := by
        intro cnt; induction cnt with
        | zero => intros; rfl
        | succ k ih => intro i t n; simp [fragLoop, ih]
      exact this _ _ _ _
    rw [hlen']
    simp only [fragLoop, feed, frontEnd_frag, hpf, htail]
    have e2 : c + 1 - 1 = (c - 1) + 1 := by omega
    simp only [e2, List.replicate_succ, List.cons_append]

/-! ### the framed text `?OTR:` base64 `.` is comma free, so the round trip applies to `encode` -/

theorem b64char_ne_comma : ∀ v, v < 64 → b64char v ≠ comma := by decide

theorem b64enc_no_comma (m : Bytes) : comma ∉ b64enc m := by
  induction m using b64enc.induct with
  | case1 => simp [b64enc]
  | case2 a =>
    have ha := a.toNat_lt
    simp only [b64enc, List.mem_cons, List.not_mem_nil, or_false, not_or]
    refine ⟨fun h => b64char_ne_comma _ (by omega) h.symm, fun h => b64char_ne_comma _ (by omega) h.symm, by decide, by decide⟩
  | case3 a b =>
    have ha := a.toNat_lt
    have hb := b.toNat_lt
    simp only [b64enc, List.mem_cons, List.not_mem_nil, or_false, not_or]
    refine ⟨fun h => b64char_ne_comma _ (by omega) h.symm, fun h => b64char_ne_comma _ (by omega) h.symm,
      fun h => b64char_ne_comma _ (by omega) h.symm, by decide⟩
  | case4 a b c r ih =>
    have ha := a.toNat_lt
    have hb := b.toNat_lt
    have hc := c.toNat_lt
    simp only [b64enc, List.mem_cons, not_or]
    refine ⟨fun h => b64char_ne_comma _ (by omega) h.symm, fun h => b64char_ne_comma _ (by omega) h.symm,
      fun h => b64char_ne_comma _ (by omega) h.symm, fun h => b64char_ne_comma _ (by omega) h.symm, ih⟩

theorem frame_no_comma (msg : Bytes) : comma ∉ frame msg := by
  simp only [frame, List.mem_append, not_or]
  exact ⟨⟨by decide, b64enc_no_comma msg⟩, by decide⟩

/-- **fragment_roundtrip** for `Conversation.encode`: for every message, every FragmentSize and every
    prior fragment state, the peer's `Receive` front end reassembles exactly the framed text. -/
theorem encode_roundtrip (F : Int) (msg : Bytes) (s : FragSt) (hlen : (frame msg).length < 2 ^ 62) :
    ∃ frs s', encode F msg = .ok frs ∧
      feed s frs = (s', List.replicate (frs.length - 1) FrontOut.nothing ++ [.msg (frame msg)]) := by
  cases h : encode F msg with
  | panic => exact absurd h (encode_total' F msg)
  | ok frs =>
    obtain ⟨s', hs⟩ := fragment_roundtrip F (frame msg) s frs (frame_no_comma msg) hlen h
    exact ⟨frs, s', rfl, hs⟩

/-- non-vacuity: FragmentSize 20 (2 bytes per fragment) on a 12-byte message, i.e. the 22-byte text
    `?OTR:AQIDBAUGBwgJCgsM.` — 12 fragments, the last one empty; the hypotheses of `encode_roundtrip` are
    satisfiable -/
example : ∃ frs s', encode 20 [1, 2, 3, 4, 5, 6, 7, 8, 9, 10, 11, 12] = .ok frs ∧
    feed {} frs = (s', List.replicate (frs.length - 1) FrontOut.nothing ++
      [.msg (frame [1, 2, 3, 4, 5, 6, 7, 8, 9, 10, 11, 12])]) :=
  encode_roundtrip 20 [1, 2, 3, 4, 5, 6, 7, 8, 9, 10, 11, 12] {} (by simp [frame, b64enc, msgPrefix])

/-- the fragment count is `len/bpf + 1`, so a text whose length is a multiple of `bpf` ends in an empty
    fragment: 22 bytes at 2 per fragment give 12 pieces -/
example : ∀ frs, encodeText 20 (List.replicate 22 65) = .ok frs → frs.length = 12 := by
  intro frs h
  have : encodeText 20 (List.replicate 22 65) = .ok (fragLoop 2 12 12 0 (List.replicate 22 65)) := by
    simp [encodeText, minFragmentSize, goDiv]
  rw [this] at h
  injection h with h
  subst h
  simp [fragLoop]

/-! ## AKE progress on the abstract two-party machine -/

/-- **ake_progress.** Two fresh parties; each may receive one `?OTRv2?` at *any* moment (so: one-sided
    starts, simultaneous starts with crossing DH commits, and a second start while the first AKE is under
    way), messages are delivered FIFO per direction in *any* interleaving. For both outcomes of the
    DH-commit digest comparison (the oracle bit: `dga > dgb` or `dgb > dga`), every reachable
    configuration `c'`: is reached within 20 events; no enabled event makes `Receive` panic; whenever no
    message is in flight after a start, both sides are encrypted with no AKE pending; and a
    configuration with no enabled event (a maximal run) is such a state. Complete case analysis
    (`allRuns`, checked by the kernel) lifted to all runs by `allRuns_sound`. -/
theorem ake_progress (dga dgb : Bytes)
    (hd : (dga = [1] ∧ dgb = [0]) ∨ (dga = [0] ∧ dgb = [1]))
    (k : Nat) (c' : Cfg) (hr : Reach dga dgb {} k c') :
    k ≤ 20 ∧
    (∀ e, c'.next dga dgb e ≠ some .panic) ∧
    (c'.w.quiet = true → c'.started = true → c'.w.secure = true) ∧
    ((∀ e, c'.next dga dgb e = none) → c'.w.quiet = true ∧ c'.w.secure = true) := by
  have hex : allRuns dga dgb 20 {} = true := by
    rcases hd with ⟨rfl, rfl⟩ | ⟨rfl, rfl⟩
    · exact explore_a_wins
    · exact explore_b_wins
  obtain ⟨hk, hrest⟩ := allRuns_sound dga dgb hr 20 hex
  have hgood := allRuns_good _ _ _ _ hrest
  simp only [Cfg.good, Bool.and_eq_true, Bool.or_eq_true, Bool.not_eq_true', beq_iff_eq] at hgood
  have hsec : c'.w.quiet = true → c'.started = true → c'.w.secure = true := by
    intro hq hs
    rcases hgood.2 with h | h
    · simp [hq, hs] at h
    · exact h
  refine ⟨hk, allRuns_no_panic _ _ _ _ hrest, hsec, ?_⟩
  intro hnone
  have hA := hnone .deliverA
  have hB := hnone .deliverB
  have hqa := hnone .queryA
  simp only [Cfg.next] at hA hB hqa
  have hA' : c'.w.toA.isEmpty = true := by
    cases h : c'.w.toA.isEmpty <;> simp [h] at hA ⊢
  have hB' : c'.w.toB.isEmpty = true := by
    cases h : c'.w.toB.isEmpty <;> simp [h] at hB ⊢
  have hq : c'.w.quiet = true := by simp [World.quiet, hA', hB']
  have hqa' : c'.qa = false := by
    cases h : c'.qa <;> simp [h] at hqa ⊢
  have hst : c'.started = true := by rw [hgood.1]; simp [hqa']
  exact ⟨hq, hsec hq hst⟩

/-- the crossing case really occurs in the explored space: both queries first, then the four deliveries;
    with `dga > dgb` A keeps its commit and B answers with a DH key -/
example : ∃ c', Reach [1] [0] {} 2 c' ∧ c'.w.a.auth = .awKey ∧ c'.w.b.auth = .awKey ∧
    c'.w.toA.length = 1 ∧ c'.w.toB.length = 1 := by
  refine ⟨_, .step .queryA rfl (.step .queryB rfl (.refl _)), ?_⟩
  decide

/-- `bytes.Compare` is a total order: for different digests exactly one side wins the crossing -/
theorem bytesGt_total (a b : Bytes) (h : a ≠ b) : bytesGt a b = !bytesGt b a := by
  induction a generalizing b with
  | nil => cases b with
    | nil => exact absurd rfl h
    | cons y s => simp [bytesGt]
  | cons x r ih =>
    cases b with
    | nil => simp [bytesGt]
    | cons y s =>
      simp only [bytesGt]
      by_cases h1 : x.toNat > y.toNat
      · have : ¬ y.toNat > x.toNat := by omega
        have h2 : y.toNat < x.toNat := h1
        simp [h1, this, h2]
      · by_cases h2 : x.toNat < y.toNat
        · have h3 : y.toNat > x.toNat := h2
          simp [h1, h2, h3]
        · have hxy : x = y := UInt8.toNat_inj.mp (by omega)
          subst hxy
          have hrs : r ≠ s := fun e => h (by rw [e])
          simp [ih s hrs]

/-! ## the reassembly automaton -/

/-- the reassembly automaton on a syntactically valid fragment number `k` of `n` -/
def fragStep (s : FragSt) (k n : Nat) (piece : Bytes) : FragSt × FragOut :=
  let s1 : FragSt :=
    if k = 1 then ⟨k, n, fragSet s.frag piece⟩
    else if n = s.n ∧ k = s.k + 1 then ⟨s.k + 1, s.n, fragAppend s.frag piece⟩
    else ⟨0, 0, fragClear s.frag⟩
  if s1.n > 0 ∧ s1.k = s1.n then (⟨0, 0, s1.frag⟩, .done s1.frag) else (s1, .pending)

/-- **fragment_total.** `processFragment` either rejects the input leaving the state untouched, or the
    input is `k,n,piece,` with `Atoi`-readable `1 ≤ k ≤ n` and the result is the automaton step. No other
    behaviour exists (every slice index / conversion in the Go code is guarded). -/
theorem processFragment_cases (s : FragSt) (inp : Bytes) :
    processFragment s inp = (s, .err) ∨
    ∃ (p0 p1 p2 : Bytes) (k n : Nat), split comma (inp.drop fragmentPrefix.length) = [p0, p1, p2, []] ∧
      atoi p0 = some (k : Int) ∧ atoi p1 = some (n : Int) ∧ 1 ≤ k ∧ k ≤ n ∧
      processFragment s inp = fragStep s k n p2 := by
  unfold processFragment
  dsimp only
  generalize hsp : split comma (List.drop fragmentPrefix.length inp) = parts
  rcases parts with _ | ⟨p0, _ | ⟨p1, _ | ⟨p2, _ | ⟨p3, _ | ⟨p4, rest⟩⟩⟩⟩⟩
  · left; rfl
  · left; rfl
  · left; rfl
  · left; rfl
  · by_cases h3 : p3.isEmpty
    · have hp3 : p3 = [] := by simpa using h3
      subst hp3
      cases h0 : atoi p0 with
      | none => left; simp [h0]
      | some k =>
        cases h1 : atoi p1 with
        | none => left; simp [h0, h1]
        | some n =>
          by_cases hr : k < 1 ∨ n < 1 ∨ k > n
          · left; simp [h0, h1, hr]
          · right
            have hk : (k.toNat : Int) = k := Int.toNat_of_nonneg (by omega)
            have hn : (n.toNat : Int) = n := Int.toNat_of_nonneg (by omega)
            refine ⟨p0, p1, p2, k.toNat, n.toNat, rfl, by rw [hk]; exact h0, by rw [hn]; exact h1, by omega, by omega, ?_⟩
            simp [h0, h1, hr, fragStep]
    · left; simp [h3]
  · left; rfl

def FragInv (s : FragSt) : Prop := (s.k = 0 ∧ s.n = 0) ∨ (1 ≤ s.k ∧ s.k < s.n)

theorem fragStep_inv (s : FragSt) (k n : Nat) (piece : Bytes) (hk : 1 ≤ k) (hkn : k ≤ n) :
    FragInv (fragStep s k n piece).1 := by
  unfold fragStep
  by_cases h1 : k = 1
  · subst h1
    by_cases hn : n = 1
    · subst hn; left; simp
    · have hc : ¬ (n > 0 ∧ 1 = n) := by omega
      right; simp [hc]; omega
  · by_cases h2 : n = s.n ∧ k = s.k + 1
    · dsimp only
      rw [if_neg h1, if_pos h2]
      by_cases h3 : s.n > 0 ∧ s.k + 1 = s.n
      · rw [if_pos h3]; left; simp
      · rw [if_neg h3]; right; dsimp only; omega
    · dsimp only
      rw [if_neg h1, if_neg h2]
      left; simp

/-- the fragment counters always satisfy `k = n = 0` or `1 ≤ k < n` -/
theorem processFragment_inv (s : FragSt) (inp : Bytes) (h : FragInv s) : FragInv (processFragment s inp).1 := by
  rcases processFragment_cases s inp with he | ⟨p0, p1, p2, k, n, _, _, _, hk, hkn, he⟩
  · rw [he]; exact h
  · rw [he]; exact fragStep_inv s k n p2 hk hkn

/-- **out_of_order_resets.** A fragment that is neither the first one nor the successor of the last one
    received (same `n`, `k = c.k + 1`) drops everything collected so far. -/
theorem out_of_order_resets (s : FragSt) (k n : Nat) (piece : Bytes)
    (h1 : k ≠ 1) (h2 : ¬ (n = s.n ∧ k = s.k + 1)) :
    fragStep s k n piece = (⟨0, 0, fragClear s.frag⟩, .pending) := by
  simp [fragStep, h1, h2]

/-- a message is only ever completed by its own last fragment: `done` needs `k = n` and either `n = 1`
    or the state held fragments `1 … n-1` of an `n`-fragment message -/
theorem done_needs_all (s : FragSt) (k n : Nat) (piece : Bytes) (b : Option Bytes) (s' : FragSt)
    (h : fragStep s k n piece = (s', .done b)) :
    k = n ∧ (k = 1 ∨ (s.n = n ∧ s.k + 1 = n)) := by
  unfold fragStep at h
  dsimp only at h
  by_cases h1 : k = 1
  · subst h1
    rw [if_pos rfl] at h
    by_cases hc : n > 0 ∧ 1 = n
    · exact ⟨hc.2, Or.inl rfl⟩
    · rw [if_neg hc] at h; simp at h
  · by_cases h2 : n = s.n ∧ k = s.k + 1
    · rw [if_neg h1, if_pos h2] at h
      by_cases h3 : s.n > 0 ∧ s.k + 1 = s.n
      · obtain ⟨rfl, rfl⟩ := h2
        exact ⟨h3.2, Or.inr ⟨rfl, h3.2⟩⟩
      · rw [if_neg h3] at h; simp at h
    · rw [if_neg h1, if_neg h2] at h
      simp at h


/-! ## TLVs and the data-message plaintext -/

theorem natToBE_length (n v : Nat) : (natToBE n v).length = n := by simp [natToBE, natToLE_length]

theorem natOfBE_natToBE (n v : Nat) : natOfBE (natToBE n v) = v % 256 ^ n := by
  simp [natOfBE, natToBE, natOfLE_natToLE]

theorem getU16_append (v : Nat) (hv : v < 65536) (rest : Bytes) :
    getU16 (natToBE 2 v ++ rest) = some (v, rest) := by
  have hl := natToBE_length 2 v
  have h1 : ¬ (natToBE 2 v ++ rest).length < 2 := by simp [hl]
  have h2 : (natToBE 2 v ++ rest).take 2 = natToBE 2 v := by
    rw [List.take_append_of_le_length (by omega)]; exact List.take_of_length_le (by omega)
  have h3 : (natToBE 2 v ++ rest).drop 2 = rest := by
    rw [List.drop_append_of_le_length (by omega), List.drop_of_length_le (by omega)]; simp
  simp only [getU16, h1, if_false, h2, h3, natOfBE_natToBE]
  congr 2; exact Nat.mod_eq_of_lt (by simpa using hv)

theorem getNBytes_append (d rest : Bytes) : getNBytes (d ++ rest) d.length = some (d, rest) := by
  simp [getNBytes]

theorem ser_ne_nil (t : Tlv) : t.ser ≠ [] := by
  intro h
  have := congrArg List.length h
  simp [Tlv.ser, natToBE_length] at this

/-- the TLV reader inverts TLV serialisation (types and lengths are 16-bit) -/
theorem parseTlvsFuel_ser (ts : List Tlv) (h : ∀ t ∈ ts, t.typ < 65536 ∧ t.data.length < 65536) :
    ∀ fuel, ts.length ≤ fuel → parseTlvsFuel fuel (ts.flatMap Tlv.ser) = (ts, true) := by
  induction ts with
  | nil => intro fuel _; cases fuel <;> simp [parseTlvsFuel]
  | cons t ts ih =>
    intro fuel hf
    cases fuel with
    | zero => simp at hf
    | succ f =>
      obtain ⟨ht, hd⟩ := h t (by simp)
      have hne : ((t :: ts).flatMap Tlv.ser).isEmpty = false := by
        simp [List.flatMap_cons, ser_ne_nil]
      have e : (t :: ts).flatMap Tlv.ser
          = natToBE 2 t.typ ++ (natToBE 2 t.data.length ++ (t.data ++ ts.flatMap Tlv.ser)) := by
        simp [List.flatMap_cons, Tlv.ser]
      rw [parseTlvsFuel, hne]
      simp only [Bool.false_eq_true, if_false]
      rw [e, getU16_append _ ht]
      simp only
      rw [getU16_append _ hd]
      simp only
      rw [getNBytes_append]
      simp only
      rw [ih (fun x hx => h x (by simp [hx])) f (by simpa using hf)]

theorem parseTlvs_ser (ts : List Tlv) (h : ∀ t ∈ ts, t.typ < 65536 ∧ t.data.length < 65536) :
    parseTlvs (ts.flatMap Tlv.ser) = (ts, true) := by
  apply parseTlvsFuel_ser ts h
  induction ts with
  | nil => simp
  | cons t ts ih =>
    have := ih (fun x hx => h x (by simp [hx]))
    simp only [List.flatMap_cons, List.length_append, List.length_cons]
    have : 1 ≤ t.ser.length := by
      have := ser_ne_nil t
      cases h : t.ser with
      | nil => exact absurd h this
      | cons _ _ => simp
    omega

theorem takeWhile_nul (msg rest : Bytes) (h : (0 : UInt8) ∉ msg) :
    (msg ++ 0 :: rest).takeWhile (· ≠ 0) = msg ∧ (msg ++ 0 :: rest).dropWhile (· ≠ 0) = 0 :: rest := by
  induction msg with
  | nil => simp
  | cons c r ih =>
    have hc : c ≠ 0 := by intro e; apply h; simp [e]
    have hr : (0 : UInt8) ∉ r := by intro e; apply h; simp [e]
    have ih' := ih hr
    simp only [ne_eq, decide_not] at ih' ⊢
    simp [hc, ih'.1, ih'.2]

/-- **data-message text round trip.** A user text without NUL bytes comes back unchanged from the
    plaintext `generateData` builds (text ‖ 00 ‖ padding TLV), with exactly the padding TLV after it.
    The hypothesis is necessary: see `nul_truncates`. -/
theorem data_text_roundtrip (msg : Bytes) (h : (0 : UInt8) ∉ msg) :
    splitPlain (dataPlain msg none) =
      (msg, [⟨0, zeros (256 - ((msg.length + 1 + 4) % 256))⟩], true) := by
  have hpad : (256 - ((msg.length + 1 + 4) % 256)) < 65536 := by omega
  have e : dataPlain msg none
      = msg ++ 0 :: ([(⟨0, zeros (256 - ((msg.length + 1 + 4) % 256))⟩ : Tlv)].flatMap Tlv.ser) := by
    simp [dataPlain]
  have hc : (dataPlain msg none).contains 0 = true := by rw [e]; simp
  obtain ⟨h1, h2⟩ := takeWhile_nul msg ([(⟨0, zeros (256 - ((msg.length + 1 + 4) % 256))⟩ : Tlv)].flatMap Tlv.ser) h
  unfold splitPlain
  rw [hc]
  simp only [if_true]
  rw [e, h1, h2]
  simp only [List.drop_succ_cons, List.drop_zero]
  rw [parseTlvs_ser]
  intro t ht
  simp only [List.mem_singleton] at ht
  subst ht
  simp [zeros]; omega

set_option maxRecDepth 100000 in
/-- a NUL inside the user text truncates it at the peer, and what follows is read as TLVs: here the
    peer sees the text `A` and a "disconnected" TLV (type 1) -/
theorem nul_truncates :
    (splitPlain (dataPlain [65, 0, 0, 1, 0, 0] none)).1 = [65] ∧
    (splitPlain (dataPlain [65, 0, 0, 1, 0, 0] none)).2.1.head? = some ⟨1, []⟩ := by
  decide



theorem getU16_len {b r : Bytes} {v : Nat} (h : getU16 b = some (v, r)) : r.length + 2 = b.length := by
  unfold getU16 at h
  split at h
  · simp at h
  · injection h with h; injection h with _ h; subst h; simp; omega

theorem getNBytes_len {b d r : Bytes} {n : Nat} (h : getNBytes b n = some (d, r)) : r.length ≤ b.length := by
  unfold getNBytes at h
  split at h
  · simp at h
  · injection h with h; injection h with _ h; subst h; simp

/-- **tlv_total.** The `for len(tlvData) > 0` loop terminates: every iteration consumes at least four
    bytes, so any fuel ≥ the input length gives the same answer (fuel never runs out). -/
theorem tlv_total : ∀ (f1 f2 : Nat) (b : Bytes), b.length ≤ f1 → b.length ≤ f2 →
    parseTlvsFuel f1 b = parseTlvsFuel f2 b := by
  intro f1
  induction f1 with
  | zero =>
    intro f2 b h1 _
    have : b = [] := List.eq_nil_of_length_eq_zero (by omega)
    subst this
    cases f2 <;> simp [parseTlvsFuel]
  | succ f ih =>
    intro f2 b h1 h2
    cases hb : b with
    | nil => cases f2 <;> simp [parseTlvsFuel]
    | cons c r =>
      cases f2 with
      | zero => rw [hb] at h2; simp at h2
      | succ g =>
        rw [← hb]
        have hne : b.isEmpty = false := by rw [hb]; rfl
        simp only [parseTlvsFuel, hne, Bool.false_eq_true, if_false]
        cases h16 : getU16 b with
        | none => rfl
        | some p1 =>
          obtain ⟨typ, b1⟩ := p1
          simp only
          cases h16' : getU16 b1 with
          | none => rfl
          | some p2 =>
            obtain ⟨len, b2⟩ := p2
            simp only
            cases hn : getNBytes b2 len with
            | none => rfl
            | some p3 =>
              obtain ⟨d, b3⟩ := p3
              simp only
              have l1 := getU16_len h16
              have l2 := getU16_len h16'
              have l3 := getNBytes_len hn
              rw [ih g b3 (by omega) (by omega)]


/-! ## Receive does not panic (AKE level) -/

/-- what the AKE code dereferences: `c.gy`, `c.y` while a reveal-signature is awaited, `c.gy` while a
    signature is awaited, `c.x` while a DH key is awaited -/
def AkeInv (p : Party) : Prop :=
  (p.auth = .awReveal → p.gy.isSome ∧ p.y.isSome) ∧
  (p.auth = .awSig → p.gy.isSome) ∧
  (p.auth = .awKey → p.x.isSome)

theorem akeInv_init (side : Nat) : AkeInv { side := side } := by
  simp [AkeInv]

/-- **Receive never panics on AKE / plaintext / malformed input** (fixed code): for every party state
    satisfying `AkeInv` and every non-data input, `Receive` returns. -/
theorem recv_ake_no_panic (p : Party) (h : AkeInv p) (i : In)
    (hi : ∀ a b c d e, i ≠ .data a b c d e) : p.recv i ≠ .panic := by
  obtain ⟨h1, h2, h3⟩ := h
  cases i with
  | data a b c d e => exact absurd rfl (hi a b c d e)
  | plain b => simp [Party.recv]
  | bad => simp [Party.recv]
  | query dg => simp [Party.recv]
  | commit ok x dg =>
    cases ha : p.auth with
    | none => simp only [Party.recv, ha]; split <;> simp
    | awKey => simp only [Party.recv, ha]; split <;> (try split) <;> simp
    | awReveal =>
      have := (h1 ha).1
      simp only [Party.recv, ha]
      split
      · simp
      · obtain ⟨g, hg⟩ := Option.isSome_iff_exists.mp this
        simp [Party.serKey, Party.procCommit, hg]
    | awSig => simp only [Party.recv, ha]; split <;> simp
  | key ok inr y =>
    cases ha : p.auth with
    | none => simp [Party.recv, ha]
    | awReveal => simp [Party.recv, ha]
    | awKey =>
      obtain ⟨xv, hx⟩ := Option.isSome_iff_exists.mp (h3 ha)
      simp only [Party.recv, ha]
      split
      · simp
      · cases hg : p.gy with
        | none => simp [Party.genReveal, hx]
        | some g =>
          simp only
          split
          · simp
          · simp [Party.genReveal, hx, hg]
    | awSig =>
      obtain ⟨g, hg⟩ := Option.isSome_iff_exists.mp (h2 ha)
      simp only [Party.recv, ha]
      split
      · simp
      · simp only [hg]
        split
        · simp [Party.serKey, hg]
        · simp
  | reveal ok aes x rest =>
    by_cases ha : p.auth = .awReveal
    · obtain ⟨yv, hy⟩ := Option.isSome_iff_exists.mp (h1 ha).2
      simp only [Party.recv, ha, hy]
      repeat' split
      all_goals simp
    · simp [Party.recv, ha]
  | sig ok g =>
    simp only [Party.recv]
    split
    · simp
    · split
      · simp
      · split
        · simp
        · split <;> simp


set_option hygiene false in
macro "close_inv" : tactic => `(tactic|
  first
    | (obtain ⟨rfl, _⟩ := hr; exact h)
    | (obtain ⟨rfl, _⟩ := hr; simp_all [AkeInv])
    | (cases hr; done))

theorem akeInv_recv (p : Party) (h : AkeInv p) (i : In)
    (hi : ∀ a b c d e, i ≠ .data a b c d e) (p' : Party) (o : Out) (hr : p.recv i = .ok (p', o)) :
    AkeInv p' := by
  cases i with
  | data a b c d e => exact absurd rfl (hi a b c d e)
  | plain b => simp [Party.recv] at hr; rw [← hr.1]; exact h
  | bad => simp [Party.recv] at hr; rw [← hr.1]; exact h
  | query dg =>
    simp [Party.recv] at hr; rw [← hr.1]
    simp [AkeInv, Party.genCommit, Party.newId, Party.reset]
  | commit ok x dg =>
    cases ha : p.auth <;> cases ok <;>
      simp [Party.recv, ha, Party.genKey, Party.procCommit, Party.reset, Party.newId, Party.serKey, Party.serCommit] at hr
    all_goals first
      | close_inv
      | (split at hr <;> simp at hr <;> close_inv)
  | key ok inr y =>
    cases ha : p.auth with
    | none => simp [Party.recv, ha] at hr; close_inv
    | awReveal => simp [Party.recv, ha] at hr; close_inv
    | awKey =>
      obtain ⟨xv, hx⟩ := Option.isSome_iff_exists.mp (h.2.2 ha)
      cases ok <;> cases inr <;> simp [Party.recv, ha] at hr <;> (try close_inv)
      cases hg : p.gy with
      | none =>
        simp [hg, hx, Party.genReveal, Party.rotate, Party.newId] at hr
        close_inv
      | some g =>
        simp [hg, hx, Party.genReveal, Party.rotate, Party.newId] at hr
        split at hr <;> simp at hr <;> close_inv
    | awSig =>
      obtain ⟨g, hg⟩ := Option.isSome_iff_exists.mp (h.2.1 ha)
      cases ok <;> cases inr <;> simp [Party.recv, ha, hg, Party.serKey] at hr <;> (try close_inv)
      split at hr <;> simp at hr <;> close_inv
  | reveal ok aes x rest =>
    by_cases ha : p.auth = .awReveal
    · simp only [Party.recv, ha] at hr
      (repeat' split at hr) <;> (try simp [Party.genSig, Party.rotate, Party.newId] at hr) <;> close_inv
    · simp [Party.recv, ha] at hr; close_inv
  | sig ok g =>
    by_cases ha : p.auth = .awSig
    · simp only [Party.recv, ha] at hr
      (repeat' split at hr) <;> (try simp at hr) <;> close_inv
    · simp [Party.recv, ha] at hr; close_inv

/-! ## Receive never panics — all message types (fixed code bd0cb13 + af2a104) -/

/-- the invariant: what the AKE code dereferences is there (`AkeInv`), and the key-slot cache has four
    slots whose used entries hold pairwise distinct key-id pairs (`SlotInv`) -/
def Inv (p : Party) : Prop := AkeInv p ∧ SlotInv p.slots

theorem inv_init (side : Nat) : Inv { side := side } := by
  refine ⟨akeInv_init side, rfl, ?_⟩
  simp [usedKeys]

theorem akeInv_of_view {p q : Party} (h : akeView q = akeView p) (hi : AkeInv p) : AkeInv q := by
  simp only [akeView, Prod.mk.injEq] at h
  obtain ⟨h1, h2, h3, h4⟩ := h
  unfold AkeInv at *
  rw [h1, h2, h3, h4]; exact hi

/-- data messages (genuine, replayed, forged, with any TLVs / SMP content): `Receive` returns -/
theorem recv_data_no_panic (p : Party) (h : Inv p) (ok ign : Bool) (skid rkid : Nat) (g : Option DataMsg) :
    p.recv (.data ok ign skid rkid g) ≠ .panic := by
  obtain ⟨q, o, hq, _⟩ := recv_data_ok p ok ign skid rkid g h.2
  rw [hq]; exact fun e => by cases e

/-- **recv_no_panic.** Under `Inv`, `Receive` returns for every input: plaintext, queries, malformed
    messages, DH commit / DH key / reveal-signature / signature (valid or not), data messages of any
    content (SMP 1–4, abort, disconnect, unknown TLVs). No `R.panic` outcome of the model — nil `c.gy` /
    `c.y` / `c.x`, `generateData`'s "failed to generate sending keys" — is reachable. -/
theorem recv_no_panic (p : Party) (h : Inv p) (i : In) : p.recv i ≠ .panic := by
  cases i with
  | data a b c d e => exact recv_data_no_panic p h a b c d e
  | plain b => exact recv_ake_no_panic p h.1 _ (fun _ _ _ _ _ e => by cases e)
  | bad => exact recv_ake_no_panic p h.1 _ (fun _ _ _ _ _ e => by cases e)
  | query dg => exact recv_ake_no_panic p h.1 _ (fun _ _ _ _ _ e => by cases e)
  | commit a b c => exact recv_ake_no_panic p h.1 _ (fun _ _ _ _ _ e => by cases e)
  | key a b c => exact recv_ake_no_panic p h.1 _ (fun _ _ _ _ _ e => by cases e)
  | reveal a b c d => exact recv_ake_no_panic p h.1 _ (fun _ _ _ _ _ e => by cases e)
  | sig a b => exact recv_ake_no_panic p h.1 _ (fun _ _ _ _ _ e => by cases e)

/-- **the invariant is preserved by every `Receive`** -/
theorem inv_recv (p : Party) (h : Inv p) (i : In) (p' : Party) (o : Out) (hr : p.recv i = .ok (p', o)) :
    Inv p' := by
  refine ⟨?_, slotInv_recv p i h.2 p' o hr⟩
  cases i with
  | data a b c d e =>
    obtain ⟨q, o', hq, hk⟩ := recv_data_ok p a b c d e h.2
    rw [hq] at hr
    injection hr with hr; injection hr with hr _
    subst hr
    exact akeInv_of_view hk.view h.1
  | plain b => exact akeInv_recv p h.1 _ (fun _ _ _ _ _ e => by cases e) p' o hr
  | bad => exact akeInv_recv p h.1 _ (fun _ _ _ _ _ e => by cases e) p' o hr
  | query dg => exact akeInv_recv p h.1 _ (fun _ _ _ _ _ e => by cases e) p' o hr
  | commit a b c => exact akeInv_recv p h.1 _ (fun _ _ _ _ _ e => by cases e) p' o hr
  | key a b c => exact akeInv_recv p h.1 _ (fun _ _ _ _ _ e => by cases e) p' o hr
  | reveal a b c d => exact akeInv_recv p h.1 _ (fun _ _ _ _ _ e => by cases e) p' o hr
  | sig a b => exact akeInv_recv p h.1 _ (fun _ _ _ _ _ e => by cases e) p' o hr

/-- the byte-level `Receive` (fragment front end, framing, base64, classification): never panics and
    keeps the invariant, for every byte string and every oracle -/
theorem recvBytes_no_panic (p : Party) (h : Inv p) (orc : Oracle) (inp : Bytes) :
    p.recvBytes orc inp ≠ .panic ∧ ∀ p' o, p.recvBytes orc inp = .ok (p', o) → Inv p' := by
  unfold Party.recvBytes
  have hfs : ∀ fs, Inv { p with fs := fs } := fun fs => h
  generalize (frontEnd p.fs inp) = r
  obtain ⟨fs, fo⟩ := r
  cases fo with
  | err =>
    dsimp only
    refine ⟨(fun e => by cases e), ?_⟩
    intro p' o hr
    simp only [R.ok.injEq, Prod.mk.injEq] at hr
    obtain ⟨rfl, _⟩ := hr
    exact hfs fs
  | nothing =>
    dsimp only
    refine ⟨(fun e => by cases e), ?_⟩
    intro p' o hr
    simp only [R.ok.injEq, Prod.mk.injEq] at hr
    obtain ⟨rfl, _⟩ := hr
    exact hfs fs
  | msg m =>
    dsimp only
    exact ⟨recv_no_panic _ (hfs fs) _, fun p' o hr => inv_recv _ (hfs fs) _ p' o hr⟩

/-- any sequence of `Receive` calls on a fresh conversation -/
def recvAll (p : Party) : List (Oracle × Bytes) → R Party
  | [] => .ok p
  | (orc, b) :: rest =>
    match p.recvBytes orc b with
    | .panic => .panic
    | .ok (p', _) => recvAll p' rest

/-- **Receive never panics on any input**: no sequence of byte strings makes a fresh conversation's
    `Receive` panic (model of the fixed code) -/
theorem receive_never_panics (side : Nat) (ins : List (Oracle × Bytes)) :
    recvAll { side := side } ins ≠ .panic := by
  have : ∀ (ins : List (Oracle × Bytes)) (p : Party), Inv p → recvAll p ins ≠ .panic := by
    intro ins
    induction ins with
    | nil => intro p _ e; cases e
    | cons x rest ih =>
      intro p hp
      obtain ⟨orc, b⟩ := x
      obtain ⟨h1, h2⟩ := recvBytes_no_panic p hp orc b
      unfold recvAll
      cases hr : p.recvBytes orc b with
      | panic => exact absurd hr h1
      | ok r => obtain ⟨p', o⟩ := r; exact ih p' (h2 p' o hr)
  exact this ins _ (inv_init side)

/-- `Send` and `End` cannot hit the `generateData` panic either -/
theorem send_no_panic (p : Party) (h : Inv p) (text : Bytes) : p.send text ≠ .panic := by
  unfold Party.send
  split
  · exact fun e => by cases e
  · obtain ⟨q, m, hq, _⟩ := genData_ok p text none h.2
    rw [hq]; exact fun e => by cases e
  · exact fun e => by cases e

theorem endConv_no_panic (p : Party) (h : Inv p) : p.endConv ≠ .panic := by
  unfold Party.endConv
  split
  · exact fun e => by cases e
  · obtain ⟨q, m, hq, _⟩ := genData_ok { p with st := .plain } [] (some .disconnect) h.2
    rw [hq]; exact fun e => by cases e
  · exact fun e => by cases e


/-! ## the 8-byte message counter -/

theorem natOfLE_lt (r : Bytes) : natOfLE r < 256 ^ r.length := by
  induction r with
  | nil => simp [natOfLE]
  | cons b r ih =>
    have hb := b.toNat_lt
    simp only [natOfLE, List.length_cons, Nat.pow_succ]
    omega

/-- `incCounter`'s loop, on the reversed array, is +1 modulo 256^n -/
theorem natOfLE_incRev (r : Bytes) : natOfLE (incRev r) = (natOfLE r + 1) % 256 ^ r.length := by
  induction r with
  | nil => simp [incRev, natOfLE]
  | cons b r ih =>
    have hb := b.toNat_lt
    have hr := natOfLE_lt r
    unfold incRev
    by_cases h : b + 1 = 0
    · have hb255 : b.toNat = 255 := by
        have := congrArg UInt8.toNat h
        simp [UInt8.toNat_add] at this
        omega
      have h0 : (b + 1).toNat = 0 := by rw [h]; rfl
      rw [if_pos h]
      show (b + 1).toNat + 256 * natOfLE (incRev r) = (b.toNat + 256 * natOfLE r + 1) % 256 ^ (r.length + 1)
      rw [h0, ih, hb255, Nat.pow_succ, Nat.mul_comm (256 ^ r.length) 256]
      have e : 255 + 256 * natOfLE r + 1 = 256 * (natOfLE r + 1) := by omega
      rw [e, Nat.mul_mod_mul_left]
      omega
    · have hne : b.toNat ≠ 255 := by
        intro e
        apply h
        apply UInt8.toNat_inj.mp
        simp [UInt8.toNat_add, e]
      have hb1 : (b + 1).toNat = b.toNat + 1 := by
        simp [UInt8.toNat_add]; omega
      simp only [h, if_false, natOfLE, hb1, List.length_cons, Nat.pow_succ]
      rw [Nat.mod_eq_of_lt]
      · omega
      · omega

/-- **counter_monotone (increment).** `incCounter` as written is +1 on the big-endian value, modulo 2^64 -/
theorem natOfBE_incCounter (c : Bytes) : natOfBE (incCounter c) = (natOfBE c + 1) % 256 ^ c.length := by
  simp [natOfBE, incCounter, natOfLE_incRev]

theorem incCounter_length (c : Bytes) : (incCounter c).length = c.length := by
  have : ∀ r : Bytes, (incRev r).length = r.length := by
    intro r; induction r with
    | nil => rfl
    | cons b r ih => unfold incRev; split <;> simp [ih]
  simp [incCounter, this]

theorem natOfLE_append (a b : Bytes) : natOfLE (a ++ b) = natOfLE a + 256 ^ a.length * natOfLE b := by
  induction a with
  | nil => simp [natOfLE]
  | cons x r ih => simp only [List.cons_append, natOfLE, ih, List.length_cons, Nat.pow_succ]; rw [Nat.mul_add]; ac_rfl

theorem natOfBE_cons (a : UInt8) (r : Bytes) : natOfBE (a :: r) = a.toNat * 256 ^ r.length + natOfBE r := by
  simp [natOfBE, natOfLE_append, natOfLE]; ac_rfl

theorem natOfBE_lt (r : Bytes) : natOfBE r < 256 ^ r.length := by
  have := natOfLE_lt r.reverse
  simpa [natOfBE] using this

/-- **counter_monotone (comparison).** `bytes.Compare(a, b) > 0` on equally long arrays is `>` on the
    big-endian values: a data message is accepted iff its counter is strictly greater than the last one
    accepted in that key slot -/
theorem bytesGt_iff (a b : Bytes) (h : a.length = b.length) : bytesGt a b = true ↔ natOfBE a > natOfBE b := by
  induction a generalizing b with
  | nil => cases b <;> simp_all [bytesGt, natOfBE, natOfLE]
  | cons x r ih =>
    cases b with
    | nil => simp at h
    | cons y s =>
      have hl : r.length = s.length := by simpa using h
      have hr := natOfBE_lt r
      have hs := natOfBE_lt s
      rw [natOfBE_cons, natOfBE_cons, hl]
      rw [hl] at hr
      have hpos : 0 < 256 ^ s.length := Nat.pow_pos (by omega)
      unfold bytesGt
      by_cases h1 : x.toNat > y.toNat
      · simp only [h1, if_true, true_iff]
        have : (y.toNat + 1) * 256 ^ s.length ≤ x.toNat * 256 ^ s.length := Nat.mul_le_mul_right _ h1
        rw [Nat.add_mul] at this; omega
      · simp only [h1, if_false]
        by_cases h2 : x.toNat < y.toNat
        · simp only [h2, if_true]
          have : (x.toNat + 1) * 256 ^ s.length ≤ y.toNat * 256 ^ s.length := Nat.mul_le_mul_right _ h2
          rw [Nat.add_mul] at this
          constructor
          · intro e; cases e
          · intro e; omega
        · simp only [h2, if_false]
          have hxy : x.toNat = y.toNat := by omega
          rw [ih s hl, hxy]
          omega

/-- the counter after `k` messages -/
def counterAfter : Nat → Bytes
  | 0 => zeros 8
  | k + 1 => incCounter (counterAfter k)

/-- the k-th increment of the zero counter holds k (no wrap below 2^64) -/
theorem counter_value (k : Nat) (hk : k < 2 ^ 64) :
    natOfBE (counterAfter k) = k ∧ (counterAfter k).length = 8 := by
  induction k with
  | zero => exact ⟨by decide, rfl⟩
  | succ n ih =>
    obtain ⟨h1, h2⟩ := ih (by omega)
    refine ⟨?_, by rw [counterAfter, incCounter_length, h2]⟩
    rw [counterAfter, natOfBE_incCounter, h1, h2]
    exact Nat.mod_eq_of_lt (by omega)

/-- **counter_monotone.** In one key slot the (k+1)-th message is accepted after the k-th, for every k < 2^64-1,
    and a replay of the k-th is refused -/
theorem counter_monotone (k : Nat) (hk : k + 1 < 2 ^ 64) :
    bytesGt (counterAfter (k + 1)) (counterAfter k) = true ∧ bytesGt (counterAfter k) (counterAfter k) = false := by
  obtain ⟨v1, l1⟩ := counter_value k (by omega)
  obtain ⟨v2, l2⟩ := counter_value (k + 1) hk
  constructor
  · rw [bytesGt_iff _ _ (by rw [l1, l2]), v1, v2]; omega
  · cases h : bytesGt (counterAfter k) (counterAfter k) with
    | false => rfl
    | true => rw [bytesGt_iff _ _ rfl] at h; omega



/-! ## data messages: round trip, revealed MAC keys, and the reveal-signature poisoning witness -/

theorem tlvLoop_other (p : Party) (o : Out) (ts : List RTlv) (h : ∀ t ∈ ts, t = .other) :
    p.tlvLoop o ts = .ok (p, o) := by
  induction ts with
  | nil => rfl
  | cons t ts ih =>
    have ht := h t (by simp)
    subst ht
    simp only [Party.tlvLoop]
    exact ih (fun t ht => h t (by simp [ht]))

/-- **data_roundtrip.** A data message `d` carrying a NUL-free user text, received by a party that is in
    the encrypted state and whose key-slot cache resolves the message's key ids to the very DH pair the
    sender used, with a counter above the slot's last one — the situation of every honest exchange in
    which no `Send` happens while a re-AKE is in flight — is delivered with exactly the sender's text,
    flagged encrypted, without error, and nothing is sent back. -/
theorem data_roundtrip (q q1 : Party) (d : DataMsg) (i : Nat)
    (henc : q.st = .enc)
    (hcalc : q.calcDataKeys d.rkid d.skid = (q1, some i))
    (hkeys : (q1.slots.getD i {}).myDH = d.rdh ∧ (q1.slots.getD i {}).theirDH = d.sdh)
    (hctr : bytesGt d.ctr (q1.slots.getD i {}).lastCtr = true)
    (hextra : d.extra = none) (hnul : (0 : UInt8) ∉ d.text) :
    ∃ q', q.recv (inOfMsg (.data d)) = .ok (q', { out := d.text, enc := true }) := by
  have hsplit := data_text_roundtrip d.text hnul
  simp only [inOfMsg, Party.recv, henc, ne_eq, not_true_eq_false, if_false, Bool.not_true, Bool.false_eq_true,
    hcalc, hkeys, and_self, if_true, Party.acceptData, hctr, Party.deliver, hextra, hsplit]
  refine ⟨_, tlvLoop_other _ _ _ ?_⟩
  intro t ht
  simp only [List.map_cons, List.map_nil, List.mem_singleton] at ht
  subst ht
  simp [rtlvOfBytes]

/-! ### revealed MAC keys -/

theorem mem_evictedKeys (f : Slot → Bool) (ss : List Slot) (k : Id × Id) (h : k ∈ evictedKeys f ss) :
    ∃ s ∈ ss, s.used = true ∧ f s = true ∧ s.macKey = k := by
  simp only [evictedKeys, List.mem_map, List.mem_filter, Bool.and_eq_true] at h
  obtain ⟨s, ⟨hs, hu, hf⟩, hk⟩ := h
  exact ⟨s, hs, hu, hf, hk⟩

theorem calc_oldMacs (p : Party) (a b : Nat) : (p.calcDataKeys a b).1.oldMacs = p.oldMacs := by
  unfold Party.calcDataKeys
  repeat' split
  all_goals rfl

/-- **old_mac_keys_revealed_only_after_rotation.** Between receiving a verified data message and the
    next `generateData`, `c.oldMACs` grows exactly by the receiving-MAC keys of slots that were in use
    and are keyed by a key id retired by this message: my previous key id when the message was addressed
    to my current key (`rotateDHKeys`), the sender's previous key id when it used their current key.
    A message that triggers no rotation reveals nothing; looking up or re-using a slot
    (`calc_oldMacs`), storing the counter, reveal nothing. -/
theorem old_mac_keys_revealed_only_after_rotation (p : Party) (i : Nat) (c : Bytes) (rkid skid : Nat) (next : Id) :
    ∃ added, (((p.storeCtr i c).rotateMine rkid).rotateTheirs skid next).oldMacs = p.oldMacs ++ added ∧
      ((rkid ≠ p.myKeyId ∧ skid ≠ p.theirKeyId) → added = []) ∧
      ∀ k ∈ added, ∃ s : Slot, s.used = true ∧ s.macKey = k ∧
        ((rkid = p.myKeyId ∧ s.myKeyId = pred32 p.myKeyId) ∨ (skid = p.theirKeyId ∧ s.theirKeyId = pred32 skid)) := by
  have hm : (p.storeCtr i c).myKeyId = p.myKeyId := rfl
  have ho : (p.storeCtr i c).oldMacs = p.oldMacs := rfl
  generalize hp1 : p.storeCtr i c = p1 at hm ho
  by_cases h1 : rkid = p1.myKeyId
  · -- my rotation
    have e1 : p1.rotateMine rkid = p1.rotate := by simp [Party.rotateMine, h1]
    have hto : p1.rotate.theirKeyId = p1.theirKeyId := by simp [Party.rotate, Party.newId]
    have hro : p1.rotate.oldMacs = p1.oldMacs ++ evictedKeys (fun s => s.myKeyId == pred32 p1.myKeyId) p1.slots := by
      simp [Party.rotate, Party.newId]
    have ht1 : p1.theirKeyId = p.theirKeyId := by rw [← hp1]; rfl
    rw [e1]
    by_cases h2 : skid = p1.rotate.theirKeyId
    · refine ⟨evictedKeys (fun s => s.myKeyId == pred32 p1.myKeyId) p1.slots ++
          evictedKeys (fun s => s.theirKeyId == pred32 skid) p1.rotate.slots, ?_, ?_, ?_⟩
      · simp [Party.rotateTheirs, h2, hro, ho]
      · intro ⟨hn, _⟩; exact absurd (h1.trans hm) hn
      · intro k hk
        rcases List.mem_append.mp hk with hk | hk
        · obtain ⟨s, _, hu, hf, hk⟩ := mem_evictedKeys _ _ _ hk
          exact ⟨s, hu, hk, Or.inl ⟨h1.trans hm, by rw [← hm]; simpa using hf⟩⟩
        · obtain ⟨s, _, hu, hf, hk⟩ := mem_evictedKeys _ _ _ hk
          exact ⟨s, hu, hk, Or.inr ⟨by rw [h2, hto, ht1], by simpa using hf⟩⟩
    · refine ⟨evictedKeys (fun s => s.myKeyId == pred32 p1.myKeyId) p1.slots, ?_, ?_, ?_⟩
      · simp [Party.rotateTheirs, h2, hro, ho]
      · intro ⟨hn, _⟩; exact absurd (h1.trans hm) hn
      · intro k hk
        obtain ⟨s, _, hu, hf, hk⟩ := mem_evictedKeys _ _ _ hk
        exact ⟨s, hu, hk, Or.inl ⟨h1.trans hm, by rw [← hm]; simpa using hf⟩⟩
  · have e1 : p1.rotateMine rkid = p1 := by simp [Party.rotateMine, h1]
    have ht1 : p1.theirKeyId = p.theirKeyId := by rw [← hp1]; rfl
    rw [e1]
    by_cases h2 : skid = p1.theirKeyId
    · refine ⟨evictedKeys (fun s => s.theirKeyId == pred32 skid) p1.slots, ?_, ?_, ?_⟩
      · simp [Party.rotateTheirs, h2, ho]
      · intro ⟨_, hn⟩; exact absurd (h2.trans ht1) hn
      · intro k hk
        obtain ⟨s, _, hu, hf, hk⟩ := mem_evictedKeys _ _ _ hk
        exact ⟨s, hu, hk, Or.inr ⟨h2.trans ht1, by simpa using hf⟩⟩
    · refine ⟨[], ?_, fun _ => rfl, fun k hk => by cases hk⟩
      simp [Party.rotateTheirs, h2, ho]

/-- `generateData` ships exactly the collected keys and empties the list -/
theorem genData_reveals (p q : Party) (text : Bytes) (extra : Option STlv) (d : DataMsg)
    (h : p.genData text extra = .ok (q, .data d)) : d.oldMacs = p.oldMacs ∧ q.oldMacs = [] := by
  unfold Party.genData at h
  have hc := calc_oldMacs p (pred32 p.myKeyId) p.theirKeyId
  cases hcalc : p.calcDataKeys (pred32 p.myKeyId) p.theirKeyId with
  | mk p1 oi =>
    rw [hcalc] at h hc
    cases oi with
    | none => cases h
    | some i =>
      simp only [R.ok.injEq, Prod.mk.injEq, Msg.data.injEq] at h
      obtain ⟨rfl, rfl⟩ := h
      exact ⟨hc, rfl⟩

/-! ### observation O11: a rejected reveal-signature message poisons the AKE state -/

/-- B holds A's DH commit and awaits the reveal-signature message -/
def poisonStart : Option (Party × Msg) :=
  match ({ side := 0 } : Party).recv (.query [1]) with
  | .ok (a, { send := [commit], .. }) =>
    match ({ side := 1 } : Party).recv (inOfMsg commit) with
    | .ok (b, { send := [key], .. }) =>
      match a.recv (inOfMsg key) with
      | .ok (_, { send := [reveal], .. }) => some (b, reveal)
      | _ => none
    | _ => none
  | _ => none

/-- the genuine reveal-signature alone is accepted; after a failing one it is refused -/
def poisonCheck : Bool :=
  match poisonStart with
  | some (b, .reveal x y kid) =>
    (match b.recv (inOfMsg (.reveal x y kid)) with
     | .ok (b', o) => b'.st == .enc && o.change == chNewKeys
     | .panic => false) &&
    (match b.recv (.reveal true true (some x) none) with
     | .ok (b1, o1) =>
       o1.err && b1.gxB == .bad &&
       (match b1.recv (inOfMsg (.reveal x y kid)) with
        | .ok (b2, o2) => o2.err && b2.st == .plain && o2.change == 0
        | .panic => false)
     | .panic => false)
  | _ => false

/-- **reveal_sig_reject_poisons_state.** After an honest query / DH-commit / DH-key exchange B accepts A's
    genuine reveal-signature message (NewKeys). But if B first receives a reveal-signature message
    that reveals the right key `r` and fails later (bad MAC / signature — e.g. one flipped byte),
    `processRevealSig` has already decrypted `c.gxBytes` in place; the genuine message that follows is
    then rejected and B stays unencrypted. (Availability only: nothing forged is ever accepted.) -/
theorem reveal_sig_reject_poisons_state : poisonCheck = true := by decide


set_option maxRecDepth 100000 in
/-- non-vacuity of `data_roundtrip` (and of the whole symbolic data layer): after an AKE the first data
    message is delivered unchanged -/
example : (World.run {} [.query true [1], .deliver false, .deliver true, .deliver false, .deliver true,
      .send true [104, 105], .deliver false]).getLast? =
    some (some (.recv { out := [104, 105], enc := true } true [])) := by decide


/-! ## the whole API: no call ever panics -/

/-- `Inv` plus "`c.smp.saved` is an SMP1 message" -/
def FullInv (p : Party) : Prop := AkeInv p ∧ SlotInv p.slots ∧ SavedInv p

theorem fullInv_init (side : Nat) : FullInv { side := side } :=
  ⟨(inv_init side).1, (inv_init side).2, fun t ht => by cases ht⟩

theorem fullInv_of_keeps {p q : Party} (hk : Keeps p q) (h : FullInv p) : FullInv q :=
  ⟨akeInv_of_view hk.view h.1, hk.slots h.2.1, hk.saved h.2.2⟩

theorem fullInv_recv (p : Party) (h : FullInv p) (i : In) :
    p.recv i ≠ .panic ∧ ∀ p' o, p.recv i = .ok (p', o) → FullInv p' := by
  refine ⟨recv_no_panic p ⟨h.1, h.2.1⟩ i, fun p' o hr => ?_⟩
  have hi := inv_recv p ⟨h.1, h.2.1⟩ i p' o hr
  exact ⟨hi.1, hi.2, savedInv_recv p i h.2.1 h.2.2 p' o hr⟩

theorem fullInv_recvBytes (p : Party) (h : FullInv p) (orc : Oracle) (inp : Bytes) :
    p.recvBytes orc inp ≠ .panic ∧ ∀ p' o, p.recvBytes orc inp = .ok (p', o) → FullInv p' := by
  unfold Party.recvBytes
  have hfs : ∀ fs, FullInv { p with fs := fs } := fun fs => h
  generalize (frontEnd p.fs inp) = r
  obtain ⟨fs, fo⟩ := r
  cases fo with
  | err =>
    dsimp only
    refine ⟨(fun e => by cases e), ?_⟩
    intro p' o hr
    simp only [R.ok.injEq, Prod.mk.injEq] at hr
    obtain ⟨rfl, _⟩ := hr
    exact hfs fs
  | nothing =>
    dsimp only
    refine ⟨(fun e => by cases e), ?_⟩
    intro p' o hr
    simp only [R.ok.injEq, Prod.mk.injEq] at hr
    obtain ⟨rfl, _⟩ := hr
    exact hfs fs
  | msg m =>
    dsimp only
    exact fullInv_recv _ (hfs fs) _

theorem fullInv_recvMsg (p : Party) (h : FullInv p) (qdg : Bytes) (m : Msg) :
    p.recvMsg qdg m ≠ .panic ∧ ∀ p' o, p.recvMsg qdg m = .ok (p', o) → FullInv p' := by
  cases m with
  | raw b => exact fullInv_recvBytes p h _ b
  | commit x dg => simp only [Party.recvMsg]; exact fullInv_recv p h _
  | key y => simp only [Party.recvMsg]; exact fullInv_recv p h _
  | reveal x y k => simp only [Party.recvMsg]; exact fullInv_recv p h _
  | sig y x k => simp only [Party.recvMsg]; exact fullInv_recv p h _
  | data d => simp only [Party.recvMsg]; exact fullInv_recv p h _

/-- **authenticate_no_panic.** `Authenticate` returns for every question / secret: its `generateData` calls
    cannot fail (`genData_ok`), and `panic("SMP completed on the first message")` is unreachable because
    `c.smp.saved` only ever holds an SMP1 message, which `processSMP` cannot complete. -/
theorem authenticate_no_panic (p : Party) (h : FullInv p) (question secret : Bytes) :
    p.authenticate question secret ≠ .panic ∧
    ∀ p' o, p.authenticate question secret = .ok (p', o) → FullInv p' := by
  obtain ⟨q, o, hq, hv, hs, hsv⟩ := authenticate_ok p question secret h.2.1 h.2.2
  rw [hq]
  refine ⟨(fun e => by cases e), fun p' o' hr => ?_⟩
  simp only [R.ok.injEq, Prod.mk.injEq] at hr
  obtain ⟨rfl, _⟩ := hr
  exact ⟨akeInv_of_view hv h.1, hs, hsv⟩

theorem fullInv_send (p : Party) (h : FullInv p) (text : Bytes) :
    p.send text ≠ .panic ∧ ∀ p' o, p.send text = .ok (p', o) → FullInv p' := by
  unfold Party.send
  split
  · exact ⟨(fun e => by cases e), fun p' o hr => by
      simp only [R.ok.injEq, Prod.mk.injEq] at hr; obtain ⟨rfl, _⟩ := hr; exact h⟩
  · obtain ⟨q, m, hq, hk⟩ := genData_ok p text none h.2.1
    rw [hq]
    exact ⟨(fun e => by cases e), fun p' o hr => by
      simp only [R.ok.injEq, Prod.mk.injEq] at hr; obtain ⟨rfl, _⟩ := hr; exact fullInv_of_keeps hk h⟩
  · exact ⟨(fun e => by cases e), fun p' o hr => by
      simp only [R.ok.injEq, Prod.mk.injEq] at hr; obtain ⟨rfl, _⟩ := hr; exact h⟩

theorem fullInv_endConv (p : Party) (h : FullInv p) :
    p.endConv ≠ .panic ∧ ∀ p' o, p.endConv = .ok (p', o) → FullInv p' := by
  unfold Party.endConv
  split
  · exact ⟨(fun e => by cases e), fun p' o hr => by
      simp only [R.ok.injEq, Prod.mk.injEq] at hr; obtain ⟨rfl, _⟩ := hr; exact h⟩
  · have h' : FullInv { p with st := .plain } := h
    obtain ⟨q, m, hq, hk⟩ := genData_ok { p with st := .plain } [] (some .disconnect) h.2.1
    rw [hq]
    exact ⟨(fun e => by cases e), fun p' o hr => by
      simp only [R.ok.injEq, Prod.mk.injEq] at hr; obtain ⟨rfl, _⟩ := hr; exact fullInv_of_keeps hk h'⟩
  · exact ⟨(fun e => by cases e), fun p' o hr => by
      simp only [R.ok.injEq, Prod.mk.injEq] at hr; obtain ⟨rfl, _⟩ := hr; exact h⟩

def World.Good (w : World) : Prop := FullInv w.a ∧ FullInv w.b

theorem good_put (w : World) (isA : Bool) (p : Party) (out : List Msg) (hw : w.Good) (hp : FullInv p) :
    (w.put isA p out).Good := by
  unfold World.put
  cases isA
  · exact ⟨hw.1, hp⟩
  · exact ⟨hp, hw.2⟩

theorem good_party (w : World) (isA : Bool) (hw : w.Good) : FullInv (w.party isA) := by
  unfold World.party; cases isA
  · exact hw.2
  · exact hw.1

/-- one script step on a good world: no panic, and the world stays good -/
theorem step_good (w : World) (hw : w.Good) (s : Step) :
    w.step s ≠ .panic ∧ ∀ w' o, w.step s = .ok (w', o) → w'.Good := by
  cases s with
  | query isA dg =>
    obtain ⟨h1, h2⟩ := fullInv_recv (w.party isA) (good_party w isA hw) (.query dg)
    simp only [World.step]
    cases hr : (w.party isA).recv (.query dg) with
    | panic => exact absurd hr h1
    | ok r =>
      obtain ⟨p, o⟩ := r
      refine ⟨(fun e => by cases e), fun w' o' he => ?_⟩
      simp only [R.ok.injEq, Prod.mk.injEq] at he
      obtain ⟨rfl, _⟩ := he
      exact good_put w isA p _ hw (h2 p o hr)
  | deliver isA =>
    simp only [World.step]
    cases hq : (if isA = true then w.toA else w.toB) with
    | nil =>
      refine ⟨(fun e => by cases e), fun w' o' he => ?_⟩
      simp only [R.ok.injEq, Prod.mk.injEq] at he
      obtain ⟨rfl, _⟩ := he
      exact hw
    | cons m rest =>
      simp only
      have hw1 : (if isA = true then { w with toA := rest } else { w with toB := rest } : World).Good := by
        cases isA <;> exact hw
      generalize (if isA = true then { w with toA := rest } else { w with toB := rest } : World) = w1 at hw1 ⊢
      obtain ⟨h1, h2⟩ := fullInv_recvMsg (w1.party isA) (good_party w1 isA hw1) [] m
      cases hr : (w1.party isA).recvMsg [] m with
      | panic => exact absurd hr h1
      | ok r =>
        obtain ⟨p, o⟩ := r
        refine ⟨(fun e => by cases e), fun w' o' he => ?_⟩
        simp only [R.ok.injEq, Prod.mk.injEq] at he
        obtain ⟨rfl, _⟩ := he
        exact good_put w1 isA p _ hw1 (h2 p o hr)
  | send isA text =>
    obtain ⟨h1, h2⟩ := fullInv_send (w.party isA) (good_party w isA hw) text
    simp only [World.step]
    cases hr : (w.party isA).send text with
    | panic => exact absurd hr h1
    | ok r =>
      obtain ⟨p, o⟩ := r
      refine ⟨(fun e => by cases e), fun w' o' he => ?_⟩
      simp only [R.ok.injEq, Prod.mk.injEq] at he
      obtain ⟨rfl, _⟩ := he
      exact good_put w isA p _ hw (h2 p o hr)
  | endc isA =>
    obtain ⟨h1, h2⟩ := fullInv_endConv (w.party isA) (good_party w isA hw)
    simp only [World.step]
    cases hr : (w.party isA).endConv with
    | panic => exact absurd hr h1
    | ok r =>
      obtain ⟨p, o⟩ := r
      refine ⟨(fun e => by cases e), fun w' o' he => ?_⟩
      simp only [R.ok.injEq, Prod.mk.injEq] at he
      obtain ⟨rfl, _⟩ := he
      exact good_put w isA p _ hw (h2 p o hr)
  | auth isA q s =>
    obtain ⟨h1, h2⟩ := authenticate_no_panic (w.party isA) (good_party w isA hw) q s
    simp only [World.step]
    cases hr : (w.party isA).authenticate q s with
    | panic => exact absurd hr h1
    | ok r =>
      obtain ⟨p, o⟩ := r
      refine ⟨(fun e => by cases e), fun w' o' he => ?_⟩
      simp only [R.ok.injEq, Prod.mk.injEq] at he
      obtain ⟨rfl, _⟩ := he
      exact good_put w isA p _ hw (h2 p o hr)
  | inject isA b dg =>
    obtain ⟨h1, h2⟩ := fullInv_recvBytes (w.party isA) (good_party w isA hw) { qdg := dg } b
    simp only [World.step]
    cases hr : (w.party isA).recvBytes { qdg := dg } b with
    | panic => exact absurd hr h1
    | ok r =>
      obtain ⟨p, o⟩ := r
      refine ⟨(fun e => by cases e), fun w' o' he => ?_⟩
      simp only [R.ok.injEq, Prod.mk.injEq] at he
      obtain ⟨rfl, _⟩ := he
      exact good_put w isA p _ hw (h2 p o hr)

/-- **no API call of either party ever panics**, in any history of two conversations: queries, message
    deliveries in any order, Send / End / Authenticate calls, and arbitrary bytes injected by an
    attacker at any point -/
theorem world_never_panics (steps : List Step) : none ∉ World.run {} steps := by
  have : ∀ (steps : List Step) (w : World), w.Good → none ∉ w.run steps := by
    intro steps
    induction steps with
    | nil => intro w _ h; cases h
    | cons s ss ih =>
      intro w hw
      obtain ⟨h1, h2⟩ := step_good w hw s
      unfold World.run
      cases hr : w.step s with
      | panic => exact absurd hr h1
      | ok r =>
        obtain ⟨w', o⟩ := r
        simp only [List.mem_cons, not_or]
        exact ⟨(fun e => by cases e), ih w' (h2 w' o hr)⟩
  exact this steps _ ⟨fullInv_init 0, fullInv_init 1⟩



/-! ## modified data messages, SMP outcomes -/

/-- **modified data messages are rejected.** A data message whose authenticated bytes or MAC differ from
    everything a modelled party produced (`g = none`: under the MAC assumption its MAC does not verify)
    delivers no text, changes no security state, triggers no reply, and is reported as an error unless
    its IGNORE_UNREADABLE flag is set. (It may make `calcDataKeys` fill or release a cache slot.) -/
theorem modified_data_rejected (p : Party) (ok ign : Bool) (skid rkid : Nat) :
    ∃ q o, p.recv (.data ok ign skid rkid none) = .ok (q, o) ∧
      o.out = [] ∧ o.send = [] ∧ o.change = 0 ∧ q.st = p.st ∧ akeView q = akeView p ∧
      (p.st = .enc → ign = false → o.err = true) := by
  simp only [Party.recv]
  split
  · rename_i h
    exact ⟨_, _, rfl, rfl, rfl, rfl, rfl, rfl, fun he => absurd he h⟩
  split
  · exact ⟨_, _, rfl, rfl, rfl, rfl, rfl, rfl, fun _ _ => rfl⟩
  have hk := keeps_calc p rkid skid
  have hst : (p.calcDataKeys rkid skid).1.st = p.st := by
    unfold Party.calcDataKeys; repeat' split
    all_goals rfl
  cases hc : p.calcDataKeys rkid skid with
  | mk q oi =>
    rw [hc] at hk hst
    cases oi with
    | none => exact ⟨_, _, rfl, rfl, rfl, rfl, hst, hk.view, fun _ hi => by simp [hi]⟩
    | some i => exact ⟨_, _, rfl, rfl, rfl, rfl, hst, hk.view, fun _ hi => by simp [hi]⟩

/-- a replayed genuine data message (same counter) is rejected as well: `counter regressed` -/
theorem replay_rejected (p : Party) (i : Nat) (d : DataMsg)
    (h : bytesGt d.ctr (p.slots.getD i {}).lastCtr = false) :
    p.acceptData i d = .ok (p, { enc := true, err := true }) := by
  unfold Party.acceptData
  rw [h]
  rfl

/-- the script of an SMP run after an AKE: A starts with secret `sa`, B answers with `sb` -/
def smpScript (sa sb : Bytes) : List Step :=
  [.query true [1], .deliver false, .deliver true, .deliver false, .deliver true,
   .auth true [] sa, .deliver false, .auth false [] sb, .deliver true, .deliver false, .deliver true,
   .deliver false]

def changesOf (obs : List (Option Obs)) : List Nat :=
  obs.filterMap (fun o => match o with | some (.recv o _ _) => if o.change = 0 then none else some o.change | _ => none)

set_option maxRecDepth 100000 in
/-- **SMP on the symbolic model**: with equal secrets both sides report SMPComplete (3) — after NewKeys (1)
    on both sides and SMPSecretNeeded (2) at B; with different secrets B and then A report SMPFailed (4),
    and B again when A's abort arrives. (In the model the zero-knowledge comparison *is* secret
    equality; for the real code this is checked differentially.) -/
theorem smp_outcomes :
    changesOf (World.run {} (smpScript [1, 2] [1, 2])) = [1, 1, 2, 3, 3] ∧
    changesOf (World.run {} (smpScript [1, 2] [1, 3])) = [1, 1, 2, 4, 4, 4] := by
  decide


/-- non-vacuity of `recv_no_panic` / `inv_recv`: the invariant holds initially and in a non-trivial state
    (after a query the party awaits a DH key and holds a commit) -/
example : Inv { side := 0 } ∧ ∃ p' o, ({ side := 0 } : Party).recv (.query [1]) = .ok (p', o) ∧ Inv p' ∧
    p'.auth = .awKey := by
  refine ⟨inv_init 0, ?_⟩
  cases h : ({ side := 0 } : Party).recv (.query [1]) with
  | panic => exact absurd h (recv_no_panic _ (inv_init 0) _)
  | ok r =>
    obtain ⟨p', o⟩ := r
    refine ⟨p', o, rfl, inv_recv _ (inv_init 0) _ p' o h, ?_⟩
    simp only [Party.recv, Party.genCommit, Party.newId, Party.reset, R.ok.injEq, Prod.mk.injEq] at h
    rw [← h.1]

/-- non-vacuity of `modified_data_rejected`'s error clause: an encrypted party exists (see the
    `data_roundtrip` example) and rejects a forged message with an error -/
example : ∀ p : Party, p.st = .enc → ∃ q o, p.recv (.data true false 1 1 none) = .ok (q, o) ∧ o.err = true := by
  intro p hp
  obtain ⟨q, o, h, _, _, _, _, _, he⟩ := modified_data_rejected p true false 1 1
  exact ⟨q, o, h, he hp rfl⟩

/-! ## a revealed MAC key is never accepted again -/

/-- after `evictSlots f`, no slot that satisfies `f` is still in use: the receiving-MAC keys that
    `rotateDHKeys` / the peer's key rotation put into `c.oldMACs` (and hence on the wire) belong to slots
    the cache can no longer hit -/
theorem evicted_not_used (f : Slot → Bool) (hf : ∀ s : Slot, f { s with used := false } = f s)
    (ss : List Slot) : ∀ s ∈ evictSlots f ss, ¬ (s.used = true ∧ f s = true) := by
  intro s hs
  simp only [evictSlots, List.mem_map] at hs
  obtain ⟨t, _, rfl⟩ := hs
  by_cases h : (t.used && f t) = true
  · simp [h]
  · rw [if_neg h]
    intro ⟨h1, h2⟩
    exact h (by simp [h1, h2])

/-- instance for the peer's rotation: after a message with sender key id `skid` was accepted as their
    current key, a forged message under their retired key id `skid - 1` cannot be a cache hit -/
theorem retired_their_key_no_cache_hit (p : Party) (skid : Nat) (next : Id) (myKid : Nat)
    (h : skid = p.theirKeyId) :
    findSlot (p.rotateTheirs skid next).slots
      (fun s => s.used && s.theirKeyId == pred32 skid && s.myKeyId == myKid) = none := by
  simp only [Party.rotateTheirs, h, if_true, findSlot, List.findIdx?_eq_none_iff]
  intro s hs
  have := evicted_not_used (fun s => s.theirKeyId == pred32 p.theirKeyId) (fun _ => rfl) p.slots s hs
  cases hu : s.used <;> simp_all

end XC.C47
