/-
  C19 — bcrypt_pbkdf.Key: error conditions (iff), panic condition (iff), output length, and the
  strided output index map is a bijection (each output index is written exactly once).
-/
import XC.Model.C19
import XC.Proofs.C19
namespace XC.C19
open XC.C12

theorem u64be_length (w : UInt64) : (u64be w).length = 8 := by
  simp [u64be, natToBE, natToLE_length]

/-- the SHA-512 stand-in always returns 64 bytes -/
theorem sha512_length (m : Bytes) : (XC.Prim.sha512 m).length = 64 := by
  simp [XC.Prim.sha512, u64be_length]

/-- `bcryptHash`'s `panic(err)` is unreachable: NewSaltedCipher only rejects empty keys -/
theorem bcryptHash_isSome (shapass shasalt : Bytes) (hp : shapass.length = 64) (hs : shasalt.length = 64) :
    (bcryptHash shapass shasalt).isSome = true := by
  unfold bcryptHash Blowfish.newSaltedCipher
  have h1 : (shasalt.length == 0) = false := by simp [hs]
  have h2 : ¬ shapass.length < 1 := by omega
  simp [h1, h2]

theorem swap4_length (b : Bytes) : (swap4 b).length = b.length := by
  fun_induction swap4 b <;> simp_all

/-- Key returns an error exactly for: rounds < 1, empty password, empty or > 2^20-byte salt, keyLen > 1024 -/
theorem errors_iff (pw salt : Bytes) (rounds keyLen : Int) :
    key pw salt rounds keyLen = .err ↔
      rounds < 1 ∨ pw.length = 0 ∨ salt.length = 0 ∨ salt.length > 2 ^ 20 ∨ keyLen > 1024 := by
  unfold key
  by_cases h1 : rounds < 1
  · simp [h1]
  · by_cases h2 : pw.length = 0
    · simp [h1, h2]
    · by_cases h3 : salt.length = 0 ∨ salt.length > 2 ^ 20
      · simp only [h1, h2, h3, if_true, if_false, true_iff]
        rcases h3 with h | h
        · exact Or.inr (Or.inr (Or.inl h))
        · exact Or.inr (Or.inr (Or.inr (Or.inl h)))
      · by_cases h4 : keyLen > 1024
        · simp [h1, h2, h3, h4]
        · have e : ¬ (rounds < 1 ∨ pw.length = 0 ∨ salt.length = 0 ∨ salt.length > 2 ^ 20 ∨ keyLen > 1024) := by
            simp only [not_or] at h3 ⊢
            exact ⟨h1, h2, h3.1, h3.2, h4⟩
          apply iff_of_false _ e
          intro h
          simp only [h1, h2, h3, h4, if_false] at h
          split at h
          · cases h
          · split at h <;> cases h

example : key [1] [2] 0 32 = .err := by decide
example : key [] [2] 1 32 = .err := by decide

theorem foldRounds_isSome (shapass : Bytes) (hp : shapass.length = 64) (n : Nat) (tmp out : Bytes) :
    (foldRounds shapass n tmp out).isSome = true := by
  induction n generalizing tmp out with
  | zero => rfl
  | succ n ih =>
    unfold foldRounds
    have := bcryptHash_isSome shapass (XC.Prim.sha512 tmp) hp (sha512_length _)
    cases h : bcryptHash shapass (XC.Prim.sha512 tmp) with
    | none => simp [h] at this
    | some t => exact ih _ _

theorem blockOut_isSome (shapass salt : Bytes) (hp : shapass.length = 64) (rounds block : Nat) :
    (blockOut shapass salt rounds block).isSome = true := by
  unfold blockOut
  have := bcryptHash_isSome shapass (XC.Prim.sha512 (salt ++ u32be (UInt32.ofNat block))) hp (sha512_length _)
  cases h : bcryptHash shapass (XC.Prim.sha512 (salt ++ u32be (UInt32.ofNat block))) with
  | none => simp [h] at this
  | some t => exact foldRounds_isSome shapass hp _ _ _

theorem scatter_size (key : Array UInt8) (nb b : Nat) (out : Bytes) : (scatter key nb b out).size = key.size := by
  unfold scatter
  generalize out.zipIdx = l
  induction l generalizing key with
  | nil => rfl
  | cons x xs ih => simp only [List.foldl_cons]; rw [ih]; simp

theorem blocksGo_spec (shapass salt : Bytes) (hp : shapass.length = 64) (rounds nb : Nat) (todo : Nat) (key : Array UInt8) :
    ∃ k, blocksGo shapass salt rounds nb todo key = some k ∧ k.size = key.size := by
  induction todo generalizing key with
  | zero => exact ⟨key, rfl, rfl⟩
  | succ n ih =>
    unfold blocksGo
    have := blockOut_isSome shapass salt hp rounds (nb - (n + 1) + 1)
    cases h : blockOut shapass salt rounds (nb - (n + 1) + 1) with
    | none => simp [h] at this
    | some out =>
      obtain ⟨k, e1, e2⟩ := ih (scatter key nb (nb - (n + 1)) out)
      exact ⟨k, by simp only [h]; exact e1, by rw [e2, scatter_size]⟩

/-- with the error conditions excluded, Key panics exactly for a negative keyLen
    (`make([]byte, negative)` / `key[:keyLen]`); `bcryptHash`'s own panic is unreachable -/
theorem panic_iff (pw salt : Bytes) (rounds keyLen : Int) (hne : key pw salt rounds keyLen ≠ .err) :
    key pw salt rounds keyLen = .panic ↔ keyLen < 0 := by
  have hE : ¬ (rounds < 1 ∨ pw.length = 0 ∨ salt.length = 0 ∨ salt.length > 2 ^ 20 ∨ keyLen > 1024) :=
    fun h => hne ((errors_iff pw salt rounds keyLen).mpr h)
  simp only [not_or] at hE
  obtain ⟨h1, h2, h3, h4, h5⟩ := hE
  unfold key
  have h34 : ¬ (salt.length = 0 ∨ salt.length > 2 ^ 20) := by simp only [not_or]; exact ⟨h3, h4⟩
  simp only [h1, if_false, h2, h34, h5]
  by_cases hk : keyLen < 0
  · simp [hk]
  · simp only [hk, if_false, iff_false]
    obtain ⟨k, e1, _⟩ := blocksGo_spec (XC.Prim.sha512 pw) salt (sha512_length _) rounds.toNat
      ((keyLen.toNat + 31) / 32) ((keyLen.toNat + 31) / 32) (Array.replicate ((keyLen.toNat + 31) / 32 * 32) 0)
    simp [e1]

/-- Key succeeds on every documented-valid argument tuple (so `key_len` / `key_layout` are not vacuous) -/
theorem key_ok (pw salt : Bytes) (rounds keyLen : Int) (h1 : 1 ≤ rounds) (h2 : pw.length ≠ 0)
    (h3 : salt.length ≠ 0) (h4 : salt.length ≤ 2 ^ 20) (h5 : keyLen ≤ 1024) (h6 : 0 ≤ keyLen) :
    ∃ k, key pw salt rounds keyLen = .ok k := by
  have hne : key pw salt rounds keyLen ≠ .err := by
    intro h
    have := (errors_iff pw salt rounds keyLen).mp h
    omega
  cases hk : key pw salt rounds keyLen with
  | err => exact absurd hk hne
  | panic =>
    have := (panic_iff pw salt rounds keyLen hne).mp hk
    omega
  | ok k => exact ⟨k, rfl⟩

example : ∃ k, key [112] [115] 1 33 = .ok k := key_ok _ _ _ _ (by decide) (by decide) (by decide) (by decide) (by decide) (by decide)
example : key [112] [115] 1 (-1) = .panic :=
  (panic_iff _ _ _ _ (fun h => by have := (errors_iff _ _ _ _).mp h; simp at this)).mpr (by decide)

/-- a returned key has exactly keyLen bytes -/
theorem key_len (pw salt : Bytes) (rounds keyLen : Int) (k : Bytes)
    (h : key pw salt rounds keyLen = .ok k) : (k.length : Int) = keyLen := by
  unfold key at h
  split at h; · cases h
  split at h; · cases h
  split at h; · cases h
  split at h; · cases h
  split at h; · cases h
  rename_i hk
  obtain ⟨k', e1, e2⟩ := blocksGo_spec (XC.Prim.sha512 pw) salt (sha512_length _) rounds.toNat
    ((keyLen.toNat + 31) / 32) ((keyLen.toNat + 31) / 32) (Array.replicate ((keyLen.toNat + 31) / 32 * 32) 0)
  simp only [e1] at h
  injection h with h
  subst h
  simp only [List.length_take, Array.length_toList, e2, Array.size_replicate]
  omega

/-- the strided store `key[i*numBlocks + (block-1)]` (i < 32, block-1 < numBlocks) hits every index
    below 32·numBlocks exactly once: `k ↦ (k / numBlocks, k % numBlocks)` is the inverse map -/
theorem stride_is_permutation (nb : Nat) (hnb : 0 < nb) (k : Nat) (hk : k < 32 * nb) :
    (k / nb < 32 ∧ k % nb < nb ∧ (k / nb) * nb + k % nb = k) ∧
    ∀ i b, i < 32 → b < nb → i * nb + b = k → i = k / nb ∧ b = k % nb := by
  refine ⟨⟨?_, Nat.mod_lt _ hnb, ?_⟩, ?_⟩
  · exact (Nat.div_lt_iff_lt_mul hnb).mpr hk
  · rw [Nat.mul_comm]; exact Nat.div_add_mod k nb
  · intro i b _ hb h
    subst h
    constructor
    · rw [Nat.add_comm, Nat.add_mul_div_right _ _ hnb, Nat.div_eq_of_lt hb, Nat.zero_add]
    · rw [Nat.add_comm, Nat.add_mul_mod_self_right, Nat.mod_eq_of_lt hb]

/-- the returned key is OpenBSD's output layout (`key[i * stride + (count - 1)]`, truncated to keyLen):
    byte j is byte j / numBlocks of block (j % numBlocks) + 1 — proved from the Go-shaped array stores -/
theorem key_layout (pw salt : Bytes) (rounds keyLen : Int) (k : Bytes)
    (h : key pw salt rounds keyLen = .ok k) :
    k = gather ((List.range ((keyLen.toNat + 31) / 32)).map
          (fun b => (blockOut (XC.Prim.sha512 pw) salt rounds.toNat (b + 1)).getD []))
        ((keyLen.toNat + 31) / 32) keyLen.toNat :=
  key_eq_gather pw salt rounds keyLen k h

end XC.C19
