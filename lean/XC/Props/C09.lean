/-
  C09 — property theorems: Salsa20 / XSalsa20 keystream matches the specification, including the 64-bit
  counter carry; HSalsa20 and Core208 equal their definitions.

  Model: XC/Model/C09.lean (Go-shaped: 16 locals + `u`, byte-wise counter loop, block loop) and
  XC/Model/C09_Core.lean (written from the Salsa20 specification: quarterround / rowround / columnround /
  doubleround / expansion, HSalsa20, XSalsa20).  Proofs: XC/Proofs/C09.lean, XC/Proofs/C09_Stream.lean.
  The amd64 assembly is tied to the model by the correspondence run only.
-/
import XC.Proofs.C09_Stream
namespace XC.C09

/-- the 32-statement Go loop body is the specification's doubleround (columnround then rowround) -/
theorem round2_eq_doubleround (s : St) : goRound2 s = doubleRound s := goRound2_eq s

/-- `core(out, in, k, σ)` = Salsa20_k(in), the Salsa20/20 hash of the expansion σ0 k0 σ1 in σ2 k1 σ3 -/
theorem core_eq_spec (inp k : Bytes) (hk : k.length = 32) (hi : inp.length = 16) :
    coreGo inp k sigma = salsa20Block k inp := coreGo_eq inp k hk hi

/-- `HSalsa20(out, in, k, σ)` = HSalsa20 (20 rounds, no feed-forward, words 0,5,10,15,6,7,8,9) -/
theorem hsalsa20_eq_spec (inp k : Bytes) (hk : k.length = 32) (hi : inp.length = 16) :
    hsalsa20Go inp k sigma = hsalsa20 k inp := hsalsa20Go_eq inp k hk hi

/-- `Core208` = Salsa20/8 core: four doublerounds plus feed-forward -/
theorem core208_eq_spec (inp : Bytes) : core208Go inp = core208 inp := core208Go_eq inp

/-- the byte loop `u += c[i]; c[i] = byte(u); u >>= 8` over bytes 8..15 is +1 mod 2^64 on the little-endian
    block counter (carry from the low into the high word, wrap at 2^64), bytes 0..7 (the nonce) untouched -/
theorem counter_inc_is_add_one (c : Bytes) (hc : c.length = 16) :
    incCounter c = c.take 8 ++ natToLE 8 ((natOfLE (c.drop 8) + 1) % 2 ^ 64) := counter_inc_eq c hc

/-- non-vacuity / the two carries: 2^32−1 → 2^32 (carry into the high word) and 2^64−1 → 0 (wrap) -/
example : incCounter ([1,2,3,4,5,6,7,8] ++ [0xff,0xff,0xff,0xff,0,0,0,0]) = [1,2,3,4,5,6,7,8] ++ [0,0,0,0,1,0,0,0] := by
  decide
example : incCounter ([1,2,3,4,5,6,7,8] ++ [0xff,0xff,0xff,0xff,0xff,0xff,0xff,0xff]) = [1,2,3,4,5,6,7,8] ++ [0,0,0,0,0,0,0,0] := by
  decide

/-- after `i` increments the counter block is nonce ‖ le64((ctr0 + i) mod 2^64) -/
theorem counter_after (c : Bytes) (i : Nat) : incCounter (counterAt c i) = counterAt c (i + 1) :=
  incCounter_counterAt c i

/-- **genericXORKeyStream = specification** for every key, 16-byte counter block and input length:
    `out = in xor (B_0 ‖ B_1 ‖ …)[:len]` with `B_i = Salsa20_key(nonce ‖ le64((ctr0 + i) mod 2^64))` -/
theorem xor_eq_spec (key counter inp : Bytes) (hk : key.length = 32) (hc : counter.length = 16) :
    genericXORKeyStream key counter inp = xorKeyStream key counter inp :=
  genericXOR_eq key counter inp hk hc

/-- output length = input length (so a caller-side `out[:len(in)]` is fully written) -/
theorem xor_length (key counter inp : Bytes) : (xorKeyStream key counter inp).length = inp.length := by
  have hb : ∀ m i, (blocksFrom key counter i m).length = 64 * m := by
    intro m
    induction m with
    | zero => intro i; rfl
    | succ m ih => intro i; simp [blocksFrom, ih, salsa20Block_length]; omega
  simp [xorKeyStream, keystream, xorBytes_length, hb]
  omega

/-- **salsa20.XORKeyStream**: 8-byte nonce → Salsa20 from block 0; 24-byte nonce → XSalsa20
    (HSalsa20 sub-key of nonce[0:16], then nonce[16:24], block 0); any other nonce length panics -/
theorem salsa20_xor_eq_spec (key nonce inp : Bytes) (hk : key.length = 32) :
    salsa20XORKeyStream key nonce inp = salsa20Xor key nonce inp :=
  salsa20XORKeyStream_eq key nonce inp hk

theorem salsa20_panics_iff (key nonce inp : Bytes) :
    salsa20XORKeyStream key nonce inp = none ↔ (nonce.length ≠ 8 ∧ nonce.length ≠ 24) := by
  unfold salsa20XORKeyStream
  by_cases h24 : nonce.length = 24
  · simp [h24]
  · by_cases h8 : nonce.length = 8
    · simp [h8]
    · simp [h24, h8]

end XC.C09
