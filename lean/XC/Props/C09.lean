/-
  C09 — property theorems: Salsa20 / XSalsa20 keystream matches the specification, including the 64-bit
  counter carry; HSalsa20 and Core208 equal their definitions.

  Model: XC/Model/C09.lean (Go-shaped: 16 locals + `u`, byte-wise counter loop, block loop) and
  XC/Model/C09_Core.lean (written from the Salsa20 specification: quarterround / rowround / columnround /
  doubleround / expansion, HSalsa20, XSalsa20).  Proofs: XC/Proofs/C09.lean, XC/Proofs/C09_Stream.lean.
  The amd64 assembly is tied to the model by the correspondence run only.
-/
import XC.Proofs.C09_Stream
namespace XC.C09

/-- the 32-statement Go loop body is the specification's doubleround (columnround then rowround) -/
theorem round2_eq_doubleround (s : St) : goRound2 s = doubleRound s := goRound2_eq s

/-- `core(out, in, k, σ)` = Salsa20_k(in), the Salsa20/20 hash of the expansion σ0 k0 σ1 in σ2 k1 σ3 -/
theorem core_eq_spec (inp k : Bytes) (hk : k.length = 32) (hi : inp.length = 16) :
    coreGo inp k sigma = salsa20Block k inp := coreGo_eq inp k hk hi

/-- `HSalsa20(out, in, k, σ)` = HSalsa20 (20 rounds, no feed-forward, words 0,5,10,15,6,7,8,9) -/
theorem hsalsa20_eq_spec (inp k : Bytes) (hk : k.length = 32) (hi : inp.length = 16) :
    hsalsa20Go inp k sigma = hsalsa20 k inp := hsalsa20Go_eq inp k hk hi

/-- `Core208` = Salsa20/8 core: four doublerounds plus feed-forward -/
theorem core208_eq_spec (inp : Bytes) : core208Go inp = core208 inp := core208Go_eq inp

/-- the byte loop `u += c[i]; c[i] = byte(u); u >>= 8` over bytes 8..15 is +1 mod 2^64 on the little-endian
    block counter (carry from the low into the high word, wrap at 2^64), bytes 0..7 (the nonce) untouched -/
theorem counter_inc_is_add_one (c : Bytes) (hc : c.length = 16) :
    incCounter c = c.take 8 ++ natToLE 8 ((natOfLE (c.drop 8) + 1) % 2 ^ 64) := counter_inc_eq c hc

/-- non-vacuity / the two carries: 2^32−1 → 2^32 (carry into the high word) and 2^64−1 → 0 (wrap) -/
example : incCounter ([1,2,3,4,5,6,7,8] ++ [0xff,0xff,0xff,0xff,0,0,0,0]) = [1,2,3,4,5,6,7,8] ++ [0,0,0,0,1,0,0,0] := by
  decide
example : incCounter ([1,2,3,4,5,6,7,8] ++ [0xff,0xff,0xff,0xff,0xff,0xff,0xff,0xff]) = [1,2,3,4,5,6,7,8] ++ [0,0,0,0,0,0,0,0] := by
  decide

/-- after `i` increments the counter block is nonce ‖ le64((ctr0 + i) mod 2^64) -/
theorem counter_after (c : Bytes) (i : Nat) : incCounter (counterAt c i) = counterAt c (i + 1) :=
  incCounter_counterAt c i

/-- **genericXORKeyStream = specification** for every key, 16-byte counter block and input length:
    `out = in xor (B_0 ‖ B_1 ‖ …)[:len]` with `B_i = Salsa20_key(nonce ‖ le64((ctr0 + i) mod 2^64))` -/
theorem xor_eq_spec (key counter inp : Bytes) (hk : key.length = 32) (hc : counter.length = 16) :
    genericXORKeyStream key counter inp = xorKeyStream key counter inp :=
  genericXOR_eq key counter inp hk hc

/-- output length = input length (so a caller-side `out[:len(in)]` is fully written) -/
theorem xor_length (key counter inp : Bytes) : (xorKeyStream key counter inp).length = inp.length := by
  have hb : ∀ m i, (blocksFrom key counter i m).length = 64 * m := by
    intro m
    induction m with
    | zero => intro i; rfl
    | succ m ih => intro i; simp [blocksFrom, ih, salsa20Block_length]; omega
  simp [xorKeyStream, keystream, xorBytes_length, hb]
  omega

/-- **salsa20.XORKeyStream**: 8-byte nonce → Salsa20 from block 0; 24-byte nonce → XSalsa20
    (HSalsa20 sub-key of nonce[0:16], then nonce[16:24], block 0); any other nonce length panics -/
theorem salsa20_xor_eq_spec (key nonce inp : Bytes) (hk : key.length = 32) :
    salsa20XORKeyStream key nonce inp = salsa20Xor key nonce inp :=
  salsa20XORKeyStream_eq key nonce inp hk

theorem salsa20_panics_iff (key nonce inp : Bytes) :
    salsa20XORKeyStream key nonce inp = none ↔ (nonce.length ≠ 8 ∧ nonce.length ≠ 24) := by
  unfold salsa20XORKeyStream
  by_cases h24 : nonce.length = 24
  · simp [h24]
  · by_cases h8 : nonce.length = 8
    · simp [h8]
    · simp [h24, h8]

/-! ## published test vectors as non-vacuity instances (kernel-evaluated) -/

def vecSpecKey : Bytes := [1, 2, 3, 4, 5, 6, 7, 8, 9, 10, 11, 12, 13, 14, 15, 16, 201, 202, 203, 204, 205, 206, 207, 208, 209, 210, 211, 212, 213, 214, 215, 216]
def vecSpecN : Bytes := [101, 102, 103, 104, 105, 106, 107, 108, 109, 110, 111, 112, 113, 114, 115, 116]
def vecSpecOut : Bytes := [69, 37, 68, 39, 41, 15, 107, 193, 255, 139, 122, 6, 170, 233, 217, 98, 89, 144, 182, 106, 21, 51, 200, 65, 239, 49, 222, 34, 215, 114, 40, 126, 104, 197, 7, 225, 197, 153, 31, 2, 102, 78, 76, 176, 84, 245, 246, 184, 177, 160, 133, 130, 6, 72, 149, 119, 192, 195, 132, 236, 234, 103, 246, 74]
def vec7914In : Bytes := [126, 135, 154, 33, 79, 62, 201, 134, 124, 169, 64, 230, 65, 113, 143, 38, 186, 238, 85, 91, 140, 97, 193, 181, 13, 248, 70, 17, 109, 205, 59, 29, 238, 36, 243, 25, 223, 155, 61, 133, 20, 18, 30, 75, 90, 197, 170, 50, 118, 2, 29, 41, 9, 199, 72, 41, 237, 235, 198, 141, 184, 184, 194, 94]
def vec7914Out : Bytes := [164, 31, 133, 156, 102, 8, 204, 153, 59, 129, 202, 203, 2, 12, 239, 5, 4, 75, 33, 129, 162, 253, 51, 125, 253, 123, 28, 99, 150, 104, 47, 41, 180, 57, 49, 104, 227, 201, 230, 188, 254, 107, 197, 183, 160, 109, 150, 186, 228, 36, 204, 16, 44, 145, 116, 92, 36, 173, 103, 61, 199, 97, 143, 129]
def vecNaclShared : Bytes := [74, 93, 157, 91, 164, 206, 45, 225, 114, 142, 59, 244, 128, 53, 15, 37, 224, 126, 33, 201, 71, 209, 158, 51, 118, 240, 155, 60, 30, 22, 23, 66]
def vecNaclFirstKey : Bytes := [27, 39, 85, 100, 115, 233, 133, 212, 98, 205, 81, 25, 122, 154, 70, 199, 96, 9, 84, 158, 172, 100, 116, 242, 6, 196, 238, 8, 68, 246, 131, 137]

set_option maxRecDepth 100000 in
/-- Salsa20 specification §9, first example: Salsa20_k(n) for k = 1..16 ‖ 201..216, n = 101..116 —
    the specification function and the Go-shaped `core` both give the published block -/
example : salsa20Block vecSpecKey vecSpecN = vecSpecOut ∧ coreGo vecSpecN vecSpecKey sigma = vecSpecOut := by
  decide +kernel

set_option maxRecDepth 100000 in
/-- RFC 7914 §8: the Salsa20/8 core test vector -/
example : core208 vec7914In = vec7914Out ∧ core208Go vec7914In = vec7914Out := by decide +kernel

set_option maxRecDepth 100000 in
/-- "Cryptography in NaCl" §8: firstkey = HSalsa20(shared secret, 0¹⁶) -/
example : hsalsa20 vecNaclShared (zeros 16) = vecNaclFirstKey ∧
    hsalsa20Go (zeros 16) vecNaclShared sigma = vecNaclFirstKey := by decide +kernel

set_option maxRecDepth 100000 in
/-- a three-block message at block counter 2^32−1 (the carry into the high word happens after the first
    block): portable code = specification, and the counter blocks used are …ffffffff00000000, …0000000001000000 -/
example : genericXORKeyStream vecSpecKey ([1,2,3,4,5,6,7,8] ++ [0xff,0xff,0xff,0xff,0,0,0,0]) (zeros 130) =
    xorKeyStream vecSpecKey ([1,2,3,4,5,6,7,8] ++ [0xff,0xff,0xff,0xff,0,0,0,0]) (zeros 130) ∧
    counterAt ([1,2,3,4,5,6,7,8] ++ [0xff,0xff,0xff,0xff,0,0,0,0]) 1 = [1,2,3,4,5,6,7,8] ++ [0,0,0,0,1,0,0,0] := by
  decide +kernel

/-- `core(out, in, k, c)` and `HSalsa20(out, in, k, c)` for EVERY 16-byte constant c (not only σ): the Salsa20/20
    core resp. HSalsa20 of the block c0 ‖ k0 ‖ c1 ‖ in ‖ c2 ‖ k1 ‖ c3 -/
theorem core_eq_spec_any_constant (inp k c : Bytes) (hk : k.length = 32) (hi : inp.length = 16) (hc : c.length = 16) :
    coreGo inp k c = core 20 (expandC c k inp) := coreGo_eqC inp k c hk hi hc

theorem hsalsa20_eq_spec_any_constant (inp k c : Bytes) (hk : k.length = 32) (hi : inp.length = 16)
    (hc : c.length = 16) : hsalsa20Go inp k c = hsalsa20C c k inp := hsalsa20Go_eqC inp k c hk hi hc

/-- with c = σ the general definitions are the standard ones -/
theorem constant_sigma (k inp : Bytes) : expandC sigma k inp = expand k inp ∧ hsalsa20C sigma k inp = hsalsa20 k inp :=
  ⟨rfl, rfl⟩

/-- non-vacuity of `salsa20_xor_eq_spec` / `salsa20_panics_iff`: an XSalsa20 call, a Salsa20 call, a 12-byte nonce -/
example : (salsa20XORKeyStream vecSpecKey (zeros 24) [1, 2, 3]).isSome ∧
    (salsa20XORKeyStream vecSpecKey (zeros 8) [1, 2, 3]).isSome ∧
    salsa20XORKeyStream vecSpecKey (zeros 12) [1, 2, 3] = none := by
  refine ⟨by simp [salsa20XORKeyStream, zeros], by simp [salsa20XORKeyStream, zeros], by simp [salsa20XORKeyStream, zeros]⟩

end XC.C09
