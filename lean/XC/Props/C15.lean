/-
  C15 — Argon2i / Argon2id = RFC 9106: theorems over XC.Model.C15.
-/
import XC.Model.C15
import XC.Props.C05
namespace XC.C15
open XC.C05

/-! ## memory rounding (RFC 9106 §3.2: m′ = 4·p·⌊m/(4p)⌋; the implementation's floor of 8p) -/

theorem roundMemory_spec (m p : Nat) (hp : 0 < p) :
    (∃ k, roundMemory m p = k * (4 * p) ∧ 2 ≤ k) ∧
    (8 * p ≤ m → roundMemory m p = m / (4 * p) * (4 * p) ∧ roundMemory m p ≤ m ∧ m < roundMemory m p + 4 * p) ∧
    (m < 8 * p → roundMemory m p = 8 * p) := by
  have hdm := Nat.div_add_mod m (4 * p)
  have hml := Nat.mod_lt m (show 0 < 4 * p by omega)
  rw [Nat.mul_comm] at hdm
  unfold roundMemory
  simp only []
  generalize m / (4 * p) = q at *
  generalize m % (4 * p) = r at *
  refine ⟨?_, ?_, ?_⟩
  · by_cases h : q * (4 * p) < 8 * p
    · rw [if_pos h]; exact ⟨2, by omega, Nat.le_refl _⟩
    · rw [if_neg h]
      refine ⟨q, rfl, ?_⟩
      rcases Nat.lt_or_ge q 2 with h2 | h2
      · have : q = 0 ∨ q = 1 := by omega
        rcases this with h0 | h1
        · subst h0; omega
        · subst h1; omega
      · exact h2
  · intro hm
    have hq : 2 ≤ q := by
      rcases Nat.lt_or_ge q 2 with h2 | h2
      · have : q = 0 ∨ q = 1 := by omega
        rcases this with h0 | h1
        · subst h0; omega
        · subst h1; omega
      · exact h2
    have : ¬ q * (4 * p) < 8 * p := by
      have : 2 * (4 * p) ≤ q * (4 * p) := Nat.mul_le_mul_right _ hq
      omega
    rw [if_neg this]
    omega
  · intro hm
    have : q * (4 * p) < 8 * p := by omega
    rw [if_pos this]

/-! ## H0 and H′ -/

/-- H0 is BLAKE2b-512 of LE32(p)‖LE32(T)‖LE32(m)‖LE32(t)‖LE32(0x13)‖LE32(y)‖LE32(|P|)‖P‖LE32(|S|)‖S‖
    LE32(|K|)‖K‖LE32(|X|)‖X — the ten Writes collapse by chunking invariance; `m` is the *requested* memory -/
theorem initHash_eq_spec (pw salt key data : Bytes) (t m p T y : Nat) :
    initHash pw salt key data t m p T y =
      some (blake2Spec B 64 [] (le32 p ++ le32 T ++ le32 m ++ le32 t ++ le32 0x13 ++ le32 y ++
        le32 pw.length ++ pw ++ le32 salt.length ++ salt ++ le32 key.length ++ key ++ le32 data.length ++ data)) := by
  unfold initHash
  cases h : newDigest B 64 [] with
  | none => exact absurd h (by decide)
  | some d =>
    simp only [Option.map_some]
    rw [hash_writes_eq_spec B_laws 64 [] d h]
    simp [initHashChunks]

theorem rel_write_sum (d : Digest B) (size : Nat) (v : Bytes) (h : Rel size [] d []) :
    (d.write v).sum = blake2Spec B size [] v ∧ Rel size [] (d.write v).reset [] := by
  have h1 := rel_write B_laws size [] d [] v h
  refine ⟨by simpa using rel_sum B_laws size [] _ _ h1, ?_⟩
  obtain ⟨hI, hs, hk, hkey, hkl, _⟩ := h1
  exact rel_reset size [] _ hI.2 hs hk hkey hkl

/-- the `for len(out) > blake2b.Size` loop: `k` iterations when `32k + ρ` bytes are still wanted
    (32 < ρ ≤ 64), each emitting the first half of V_{i+1} = H^64(V_i) -/
theorem loop_spec (k : Nat) : ∀ (fuel : Nat) (b2 : Digest B) (v out : Bytes) (ρ : Nat),
    k ≤ fuel → 32 < ρ → ρ ≤ 64 → Rel 64 [] b2 [] →
    ∃ b2' v' pieces, blake2bHashGo.loop fuel b2 v out (32 * k + ρ) = (b2', v', out ++ pieces, ρ) ∧
      Rel 64 [] b2' [] ∧ ∀ r T, hPrimeTail r T k v = pieces ++ blake2Spec B (T - 32 * r) [] v' := by
  induction k with
  | zero =>
    intro fuel b2 v out ρ _ _ hρ hrel
    refine ⟨b2, v, [], ?_, hrel, ?_⟩
    · cases fuel with
      | zero => simp [blake2bHashGo.loop]
      | succ f =>
        simp only [blake2bHashGo.loop, Nat.mul_zero, Nat.zero_add]
        rw [if_neg (by omega)]; simp
    · intro r T; simp [hPrimeTail]
  | succ k ih =>
    intro fuel b2 v out ρ hf hρ2 hρ hrel
    cases fuel with
    | zero => omega
    | succ f =>
      obtain ⟨e1, e2⟩ := rel_write_sum b2 64 v hrel
      obtain ⟨b2', v', pieces, h1, h2, h3⟩ := ih f (b2.write v).reset (b2.write v).sum
        (out ++ ((b2.write v).sum).take 32) ρ (by omega) hρ2 hρ e2
      refine ⟨b2', v', ((b2.write v).sum).take 32 ++ pieces, ?_, h2, ?_⟩
      · simp only [blake2bHashGo.loop]
        rw [if_pos (by omega)]
        have : 32 * (k + 1) + ρ - 32 = 32 * k + ρ := by omega
        rw [this, h1, List.append_assoc]
      · intro r T
        simp only [hPrimeTail, ← e1, h3 r T, List.append_assoc]

/-- **hprime_eq_rfc**: `blake2bHash(out, in)` with `len(out) = T ≥ 1` is the variable-length hash H′^T of
    RFC 9106 §3.3 (T ≤ 64: one BLAKE2b of digest size T over LE32(T)‖A; T > 64: r = ⌈T/32⌉ − 2 chained
    64-byte hashes contributing 32 bytes each, then a final hash of T − 32r bytes) -/
theorem hprime_eq_rfc (T : Nat) (a : Bytes) (hT : 1 ≤ T) : blake2bHashGo T a = some (hPrime T a) := by
  unfold blake2bHashGo hPrime
  by_cases h64 : T ≤ 64
  · have hsz : (if T < 64 then T else 64) = T := by split <;> omega
    rw [hsz]
    cases h : newDigest B T [] with
    | none =>
      exfalso
      unfold newDigest at h
      rw [if_neg (by show ¬ (T < 1 ∨ T > 64); omega)] at h
      simp at h
    | some d =>
      simp only [if_pos h64]
      have := hash_writes_eq_spec B_laws T [] d h [le32 T, a]
      simp only [List.foldl_cons, List.foldl_nil, List.flatten_cons, List.flatten_nil, List.append_nil] at this
      rw [this]
  · have hsz : (if T < 64 then T else 64) = 64 := by split <;> omega
    rw [hsz]
    cases h : newDigest B 64 [] with
    | none => exact absurd h (by decide)
    | some d =>
      simp only [if_neg h64]
      have hrel0 := rel_new B_laws 64 [] d h
      have hv1 : ((d.write (le32 T)).write a).sum = blake2Spec B 64 [] (le32 T ++ a) := by
        have := hash_writes_eq_spec B_laws 64 [] d h [le32 T, a]
        simpa using this
      have hrel1 : Rel 64 [] ((d.write (le32 T)).write a).reset [] := by
        have h1 := rel_write B_laws 64 [] _ _ a (rel_write B_laws 64 [] d [] (le32 T) hrel0)
        obtain ⟨hI, hs, hk, hkey, hkl, _⟩ := h1
        exact rel_reset 64 [] _ hI.2 hs hk hkey hkl
      -- arithmetic of r and ρ = T − 32r
      have hr1 : 1 ≤ (T + 31) / 32 - 2 := by omega
      have hρ1 : 32 < T - 32 * ((T + 31) / 32 - 2) := by omega
      have hρ2 : T - 32 * ((T + 31) / 32 - 2) ≤ 64 := by omega
      have hsplit : T - 32 = 32 * ((T + 31) / 32 - 2 - 1) + (T - 32 * ((T + 31) / 32 - 2)) := by omega
      generalize hr : (T + 31) / 32 - 2 = r at *
      generalize hρ : T - 32 * r = ρ at *
      rw [hsplit]
      obtain ⟨b2', v', pieces, h1, h2, h3⟩ := loop_spec (r - 1) T ((d.write (le32 T)).write a).reset
        ((d.write (le32 T)).write a).sum ((((d.write (le32 T)).write a).sum).take 32) ρ (by omega) hρ1 hρ2 hrel1
      rw [h1]
      simp only []
      have hfin := h3 r T
      rw [hρ] at hfin
      by_cases hm : T % 64 > 0
      · rw [if_pos hm]
        cases hn : newDigest B ρ [] with
        | none =>
          exfalso
          unfold newDigest at hn
          rw [if_neg (by show ¬ (ρ < 1 ∨ ρ > 64); omega)] at hn
          simp at hn
        | some d2 =>
          simp only []
          have := hash_writes_eq_spec B_laws ρ [] d2 hn [v']
          simp only [List.foldl_cons, List.foldl_nil, List.flatten_cons, List.flatten_nil, List.append_nil] at this
          rw [this, ← hv1, hfin, List.append_assoc]
      · rw [if_neg hm]
        simp only []
        have hρ64 : ρ = 64 := by omega
        rw [(rel_write_sum b2' 64 v' h2).1, ← hv1, hfin, hρ64, List.append_assoc]

/-! ## the reference block: indexAlpha / phi against RFC 9106 §3.4 -/

/-- size of the reference area |W| (RFC 9106 §3.4.1.x; the case analysis of the reference
    implementation's `index_alpha`), lane length = 4·seg -/
def refAreaRFC (seg n slice index : Nat) (same : Bool) : Nat :=
  if n = 0 then
    if slice = 0 then index - 1                                   -- first slice: own lane, all but the previous block
    else if same then slice * seg + index - 1                     -- finished slices + this segment, minus previous
    else slice * seg - (if index = 0 then 1 else 0)               -- finished slices of another lane
  else
    if same then 3 * seg + index - 1                              -- lane_length − segment_length + index − 1
    else 3 * seg - (if index = 0 then 1 else 0)

/-- start position of the area inside the lane: 0 in the first pass, else the slice after the current one -/
def startRFC (seg n slice : Nat) : Nat := if n = 0 then 0 else ((slice + 1) % 4) * seg

theorem beq_zero_32 (x : UInt32) : (x == 0) = decide (x.toNat = 0) := by
  by_cases h : x.toNat = 0
  · have : x = 0 := UInt32.toNat_inj.mp h
    simp [this]
  · have : x ≠ 0 := fun e => h (by simp [e])
    simp [h, this]

theorem slice_cases (slice : UInt32) (hs : slice.toNat < 4) : slice = 0 ∨ slice = 1 ∨ slice = 2 ∨ slice = 3 := by
  have : slice.toNat = 0 ∨ slice.toNat = 1 ∨ slice.toNat = 2 ∨ slice.toNat = 3 := by omega
  rcases this with h | h | h | h
  · exact Or.inl (UInt32.toNat_inj.mp h)
  · exact Or.inr (Or.inl (UInt32.toNat_inj.mp h))
  · exact Or.inr (Or.inr (Or.inl (UInt32.toNat_inj.mp h)))
  · exact Or.inr (Or.inr (Or.inr (UInt32.toNat_inj.mp h)))

set_option maxHeartbeats 1000000 in
/-- first pass: the uint32 computation of `m, s` in indexAlpha is |W| and start of RFC 9106, and |W| ≥ 1.
    (in the first slice the code always passes `same = true` and starts at index 2) -/
theorem areaSize_pass0 (seg n slice index : UInt32) (same : Bool) (hn : (n == 0) = true)
    (hseg : 2 ≤ seg.toNat) (hseg4 : 4 * seg.toNat < 4294967296) (hs : slice.toNat < 4)
    (hi : index.toNat < seg.toNat) (hfirst : slice = 0 → same = true ∧ 2 ≤ index.toNat) :
    (areaSize seg n slice index same).1.toNat = refAreaRFC seg.toNat 0 slice.toNat index.toNat same ∧
    (areaSize seg n slice index same).2.toNat = startRFC seg.toNat 0 slice.toNat ∧
    1 ≤ (areaSize seg n slice index same).1.toNat := by
  have hidx := beq_zero_32 index
  have hsc := slice_cases slice hs
  clear hs
  rcases hsc with rfl | rfl | rfl | rfl
  · obtain ⟨rfl, h2⟩ := hfirst rfl
    clear hfirst
    have h0 : ¬ index.toNat = 0 := by omega
    simp only [areaSize, refAreaRFC, startRFC, syncPoints, hidx, hn]
    simp [h0, UInt32.toNat_add, UInt32.toNat_mul, UInt32.toNat_sub]
    omega
  all_goals
    clear hfirst
    cases same <;> by_cases h0 : index.toNat = 0 <;>
    simp only [areaSize, refAreaRFC, startRFC, syncPoints, hidx, hn] <;>
    simp [h0, UInt32.toNat_add, UInt32.toNat_mul, UInt32.toNat_sub] <;> omega

set_option maxHeartbeats 1000000 in
/-- later passes: `m = 3·seg (+ index) (− 1)`, `s = ((slice+1) mod 4)·seg` -/
theorem areaSize_later (seg n slice index : UInt32) (same : Bool) (hn : (n == 0) = false)
    (hseg : 2 ≤ seg.toNat) (hseg4 : 4 * seg.toNat < 4294967296) (hs : slice.toNat < 4)
    (hi : index.toNat < seg.toNat) :
    (areaSize seg n slice index same).1.toNat = refAreaRFC seg.toNat 1 slice.toNat index.toNat same ∧
    (areaSize seg n slice index same).2.toNat = startRFC seg.toNat 1 slice.toNat ∧
    1 ≤ (areaSize seg n slice index same).1.toNat := by
  have hidx := beq_zero_32 index
  have hsc := slice_cases slice hs
  clear hs
  rcases hsc with rfl | rfl | rfl | rfl
  all_goals
    cases same <;> by_cases h0 : index.toNat = 0 <;>
    simp only [areaSize, refAreaRFC, startRFC, syncPoints, hidx, hn] <;>
    simp [h0, UInt32.toNat_add, UInt32.toNat_mul, UInt32.toNat_sub] <;> omega

end XC.C15
