/-
  C15 — Argon2i / Argon2id = RFC 9106: theorems over XC.Model.C15.
-/
import XC.Proofs.C15
import XC.Props.C05
namespace XC.C15
open XC.C05

/-! ## memory rounding (RFC 9106 §3.2: m′ = 4·p·⌊m/(4p)⌋; the implementation's floor of 8p) -/

theorem roundMemory_spec (m p : Nat) (hp : 0 < p) :
    (∃ k, roundMemory m p = k * (4 * p) ∧ 2 ≤ k) ∧
    (8 * p ≤ m → roundMemory m p = m / (4 * p) * (4 * p) ∧ roundMemory m p ≤ m ∧ m < roundMemory m p + 4 * p) ∧
    (m < 8 * p → roundMemory m p = 8 * p) := by
  have hdm := Nat.div_add_mod m (4 * p)
  have hml := Nat.mod_lt m (show 0 < 4 * p by omega)
  rw [Nat.mul_comm] at hdm
  unfold roundMemory
  simp only []
  generalize m / (4 * p) = q at *
  generalize m % (4 * p) = r at *
  refine ⟨?_, ?_, ?_⟩
  · by_cases h : q * (4 * p) < 8 * p
    · rw [if_pos h]; exact ⟨2, by omega, Nat.le_refl _⟩
    · rw [if_neg h]
      refine ⟨q, rfl, ?_⟩
      rcases Nat.lt_or_ge q 2 with h2 | h2
      · have : q = 0 ∨ q = 1 := by omega
        rcases this with h0 | h1
        · subst h0; omega
        · subst h1; omega
      · exact h2
  · intro hm
    have hq : 2 ≤ q := by
      rcases Nat.lt_or_ge q 2 with h2 | h2
      · have : q = 0 ∨ q = 1 := by omega
        rcases this with h0 | h1
        · subst h0; omega
        · subst h1; omega
      · exact h2
    have : ¬ q * (4 * p) < 8 * p := by
      have : 2 * (4 * p) ≤ q * (4 * p) := Nat.mul_le_mul_right _ hq
      omega
    rw [if_neg this]
    omega
  · intro hm
    have : q * (4 * p) < 8 * p := by omega
    rw [if_pos this]

/-- **memory rule at the code's widths**: the uint32 / uint8 computation of deriveKey
    (`memory / (syncPoints*uint32(threads)) * (syncPoints*uint32(threads))`, floor `2*syncPoints*uint32(threads)`,
    threads widened before multiplying) never wraps for threads ≤ 255 and equals `roundMemory` -/
theorem roundMemoryGo_eq (m p : Nat) (hm : m < 4294967296) (hp1 : 1 ≤ p) (hp : p ≤ 255) :
    (roundMemoryGo (UInt32.ofNat m) (UInt8.ofNat p)).toNat = roundMemory m p := by
  unfold roundMemoryGo roundMemory
  simp only []
  have e1 : (UInt8.ofNat p).toUInt32.toNat = p := by
    rw [UInt8.toNat_toUInt32, UInt8.toNat_ofNat']; omega
  have e4 : (4 * (UInt8.ofNat p).toUInt32).toNat = 4 * p := by
    rw [UInt32.toNat_mul, e1]; show 4 * p % 4294967296 = _; omega
  have e8 : (2 * 4 * (UInt8.ofNat p).toUInt32).toNat = 8 * p := by
    rw [UInt32.toNat_mul, e1]; show 8 * p % 4294967296 = _; omega
  have em : (UInt32.ofNat m).toNat = m := by rw [UInt32.toNat_ofNat']; omega
  have hle : m / (4 * p) * (4 * p) ≤ m := Nat.div_mul_le_self _ _
  have eq : (UInt32.ofNat m / (4 * (UInt8.ofNat p).toUInt32) * (4 * (UInt8.ofNat p).toUInt32)).toNat =
      m / (4 * p) * (4 * p) := by
    rw [UInt32.toNat_mul, UInt32.toNat_div, e4, em]; omega
  by_cases h : m / (4 * p) * (4 * p) < 8 * p
  · rw [if_pos (by rw [UInt32.lt_iff_toNat_lt, eq, e8]; exact h), if_pos h, e8]
  · rw [if_neg (by rw [UInt32.lt_iff_toNat_lt, eq, e8]; exact h), if_neg h, eq]

/-! ## H0 and H′ -/

/-- H0 is BLAKE2b-512 of LE32(p)‖LE32(T)‖LE32(m)‖LE32(t)‖LE32(0x13)‖LE32(y)‖LE32(|P|)‖P‖LE32(|S|)‖S‖
    LE32(|K|)‖K‖LE32(|X|)‖X — the ten Writes collapse by chunking invariance; `m` is the *requested* memory -/
theorem initHash_eq_spec (pw salt key data : Bytes) (t m p T y : Nat) :
    initHash pw salt key data t m p T y =
      some (blake2Spec B 64 [] (le32 p ++ le32 T ++ le32 m ++ le32 t ++ le32 0x13 ++ le32 y ++
        le32 pw.length ++ pw ++ le32 salt.length ++ salt ++ le32 key.length ++ key ++ le32 data.length ++ data)) := by
  unfold initHash
  cases h : newDigest B 64 [] with
  | none => exact absurd h (by decide)
  | some d =>
    simp only [Option.map_some]
    rw [hash_writes_eq_spec B_laws 64 [] d h]
    simp [initHashChunks]

theorem rel_write_sum (d : Digest B) (size : Nat) (v : Bytes) (h : Rel size [] d []) :
    (d.write v).sum = blake2Spec B size [] v ∧ Rel size [] (d.write v).reset [] := by
  have h1 := rel_write B_laws size [] d [] v h
  refine ⟨by simpa using rel_sum B_laws size [] _ _ h1, ?_⟩
  obtain ⟨hI, hs, hk, hkey, hkl, _⟩ := h1
  exact rel_reset size [] _ hI.2 hs hk hkey hkl

/-- the `for len(out) > blake2b.Size` loop: `k` iterations when `32k + ρ` bytes are still wanted
    (32 < ρ ≤ 64), each emitting the first half of V_{i+1} = H^64(V_i) -/
theorem loop_spec (k : Nat) : ∀ (fuel : Nat) (b2 : Digest B) (v out : Bytes) (ρ : Nat),
    k ≤ fuel → 32 < ρ → ρ ≤ 64 → Rel 64 [] b2 [] →
    ∃ b2' v' pieces, blake2bHashGo.loop fuel b2 v out (32 * k + ρ) = (b2', v', out ++ pieces, ρ) ∧
      Rel 64 [] b2' [] ∧ ∀ r T, hPrimeTail r T k v = pieces ++ blake2Spec B (T - 32 * r) [] v' := by
  induction k with
  | zero =>
    intro fuel b2 v out ρ _ _ hρ hrel
    refine ⟨b2, v, [], ?_, hrel, ?_⟩
    · cases fuel with
      | zero => simp [blake2bHashGo.loop]
      | succ f =>
        simp only [blake2bHashGo.loop, Nat.mul_zero, Nat.zero_add]
        rw [if_neg (by omega)]; simp
    · intro r T; simp [hPrimeTail]
  | succ k ih =>
    intro fuel b2 v out ρ hf hρ2 hρ hrel
    cases fuel with
    | zero => omega
    | succ f =>
      obtain ⟨e1, e2⟩ := rel_write_sum b2 64 v hrel
      obtain ⟨b2', v', pieces, h1, h2, h3⟩ := ih f (b2.write v).reset (b2.write v).sum
        (out ++ ((b2.write v).sum).take 32) ρ (by omega) hρ2 hρ e2
      refine ⟨b2', v', ((b2.write v).sum).take 32 ++ pieces, ?_, h2, ?_⟩
      · simp only [blake2bHashGo.loop]
        rw [if_pos (by omega)]
        have : 32 * (k + 1) + ρ - 32 = 32 * k + ρ := by omega
        rw [this, h1, List.append_assoc]
      · intro r T
        simp only [hPrimeTail, ← e1, h3 r T, List.append_assoc]

/-- **hprime_eq_rfc**: `blake2bHash(out, in)` with `len(out) = T ≥ 1` is the variable-length hash H′^T of
    RFC 9106 §3.3 (T ≤ 64: one BLAKE2b of digest size T over LE32(T)‖A; T > 64: r = ⌈T/32⌉ − 2 chained
    64-byte hashes contributing 32 bytes each, then a final hash of T − 32r bytes) -/
theorem hprime_eq_rfc (T : Nat) (a : Bytes) (hT : 1 ≤ T) : blake2bHashGo T a = some (hPrime T a) := by
  unfold blake2bHashGo hPrime
  by_cases h64 : T ≤ 64
  · have hsz : (if T < 64 then T else 64) = T := by split <;> omega
    rw [hsz]
    cases h : newDigest B T [] with
    | none =>
      exfalso
      unfold newDigest at h
      rw [if_neg (by show ¬ (T < 1 ∨ T > 64); omega)] at h
      simp at h
    | some d =>
      simp only [if_pos h64]
      have := hash_writes_eq_spec B_laws T [] d h [le32 T, a]
      simp only [List.foldl_cons, List.foldl_nil, List.flatten_cons, List.flatten_nil, List.append_nil] at this
      rw [this]
  · have hsz : (if T < 64 then T else 64) = 64 := by split <;> omega
    rw [hsz]
    cases h : newDigest B 64 [] with
    | none => exact absurd h (by decide)
    | some d =>
      simp only [if_neg h64]
      have hrel0 := rel_new B_laws 64 [] d h
      have hv1 : ((d.write (le32 T)).write a).sum = blake2Spec B 64 [] (le32 T ++ a) := by
        have := hash_writes_eq_spec B_laws 64 [] d h [le32 T, a]
        simpa using this
      have hrel1 : Rel 64 [] ((d.write (le32 T)).write a).reset [] := by
        have h1 := rel_write B_laws 64 [] _ _ a (rel_write B_laws 64 [] d [] (le32 T) hrel0)
        obtain ⟨hI, hs, hk, hkey, hkl, _⟩ := h1
        exact rel_reset 64 [] _ hI.2 hs hk hkey hkl
      -- arithmetic of r and ρ = T − 32r
      have hr1 : 1 ≤ (T + 31) / 32 - 2 := by omega
      have hρ1 : 32 < T - 32 * ((T + 31) / 32 - 2) := by omega
      have hρ2 : T - 32 * ((T + 31) / 32 - 2) ≤ 64 := by omega
      have hsplit : T - 32 = 32 * ((T + 31) / 32 - 2 - 1) + (T - 32 * ((T + 31) / 32 - 2)) := by omega
      generalize hr : (T + 31) / 32 - 2 = r at *
      generalize hρ : T - 32 * r = ρ at *
      rw [hsplit]
      obtain ⟨b2', v', pieces, h1, h2, h3⟩ := loop_spec (r - 1) T ((d.write (le32 T)).write a).reset
        ((d.write (le32 T)).write a).sum ((((d.write (le32 T)).write a).sum).take 32) ρ (by omega) hρ1 hρ2 hrel1
      rw [h1]
      simp only []
      have hfin := h3 r T
      rw [hρ] at hfin
      by_cases hm : T % 64 > 0
      · rw [if_pos hm]
        cases hn : newDigest B ρ [] with
        | none =>
          exfalso
          unfold newDigest at hn
          rw [if_neg (by show ¬ (ρ < 1 ∨ ρ > 64); omega)] at hn
          simp at hn
        | some d2 =>
          simp only []
          have := hash_writes_eq_spec B_laws ρ [] d2 hn [v']
          simp only [List.foldl_cons, List.foldl_nil, List.flatten_cons, List.flatten_nil, List.append_nil] at this
          rw [this, ← hv1, hfin, List.append_assoc]
      · rw [if_neg hm]
        simp only []
        have hρ64 : ρ = 64 := by omega
        rw [(rel_write_sum b2' 64 v' h2).1, ← hv1, hfin, hρ64, List.append_assoc]

/-! ## the reference block: indexAlpha / phi against RFC 9106 §3.4 -/

/-- size of the reference area |W| (RFC 9106 §3.4.1.x; the case analysis of the reference
    implementation's `index_alpha`), lane length = 4·seg -/
def refAreaRFC (seg n slice index : Nat) (same : Bool) : Nat :=
  if n = 0 then
    if slice = 0 then index - 1                                   -- first slice: own lane, all but the previous block
    else if same then slice * seg + index - 1                     -- finished slices + this segment, minus previous
    else slice * seg - (if index = 0 then 1 else 0)               -- finished slices of another lane
  else
    if same then 3 * seg + index - 1                              -- lane_length − segment_length + index − 1
    else 3 * seg - (if index = 0 then 1 else 0)

/-- start position of the area inside the lane: 0 in the first pass, else the slice after the current one -/
def startRFC (seg n slice : Nat) : Nat := if n = 0 then 0 else ((slice + 1) % 4) * seg

theorem beq_zero_32 (x : UInt32) : (x == 0) = decide (x.toNat = 0) := by
  by_cases h : x.toNat = 0
  · have : x = 0 := UInt32.toNat_inj.mp h
    simp [this]
  · have : x ≠ 0 := fun e => h (by simp [e])
    simp [h, this]

theorem slice_cases (slice : UInt32) (hs : slice.toNat < 4) : slice = 0 ∨ slice = 1 ∨ slice = 2 ∨ slice = 3 := by
  have : slice.toNat = 0 ∨ slice.toNat = 1 ∨ slice.toNat = 2 ∨ slice.toNat = 3 := by omega
  rcases this with h | h | h | h
  · exact Or.inl (UInt32.toNat_inj.mp h)
  · exact Or.inr (Or.inl (UInt32.toNat_inj.mp h))
  · exact Or.inr (Or.inr (Or.inl (UInt32.toNat_inj.mp h)))
  · exact Or.inr (Or.inr (Or.inr (UInt32.toNat_inj.mp h)))

/-- indexAlpha's `m, s` transcribed over ℕ (same statements, same order) -/
def areaNat (seg n slice index : Nat) (same : Bool) : Nat × Nat :=
  let m := 3 * seg
  let s := ((slice + 1) % 4) * seg
  let m := if same then m + index else m
  let ms : Nat × Nat :=
    if n = 0 then
      let m := slice * seg
      let m := if slice = 0 ∨ same then m + index else m
      (m, 0)
    else (m, s)
  let m := if index = 0 ∨ same then ms.1 - 1 else ms.1
  (m, ms.2)

theorem areaNat_eq_rfc (seg n slice index : Nat) (same : Bool)
    (hseg : 2 ≤ seg) (hs : slice < 4) (hi : index < seg)
    (hfirst : n = 0 → slice = 0 → same = true ∧ 2 ≤ index) :
    areaNat seg n slice index same = (refAreaRFC seg n slice index same, startRFC seg n slice) ∧
    1 ≤ (areaNat seg n slice index same).1 := by
  have hsl : slice = 0 ∨ slice = 1 ∨ slice = 2 ∨ slice = 3 := by omega
  by_cases hn : n = 0
  · subst hn
    rcases hsl with rfl | rfl | rfl | rfl
    · obtain ⟨rfl, h2⟩ := hfirst rfl rfl
      have : ¬ index = 0 := by omega
      simp [areaNat, refAreaRFC, startRFC, this]; omega
    all_goals
      cases same <;> by_cases h0 : index = 0 <;> simp [areaNat, refAreaRFC, startRFC, h0] <;> omega
  · rcases hsl with rfl | rfl | rfl | rfl <;>
      cases same <;> by_cases h0 : index = 0 <;> simp [areaNat, refAreaRFC, startRFC, h0, hn] <;> omega

theorem area_bridge_aux (seg slice index : UInt32) (hseg4 : 4 * seg.toNat < 4294967296) (hs : slice.toNat < 4)
    (hi : index.toNat < seg.toNat) :
    (3 * seg).toNat = 3 * seg.toNat ∧ (slice * seg).toNat = slice.toNat * seg.toNat ∧
    (((slice + 1) % syncPoints) * seg).toNat = ((slice.toNat + 1) % 4) * seg.toNat ∧
    slice.toNat * seg.toNat ≤ 3 * seg.toNat ∧ ((slice.toNat + 1) % 4) * seg.toNat ≤ 3 * seg.toNat := by
  have b1 : slice.toNat * seg.toNat ≤ 3 * seg.toNat := Nat.mul_le_mul_right _ (by omega)
  have b2 : ((slice.toNat + 1) % 4) * seg.toNat ≤ 3 * seg.toNat := Nat.mul_le_mul_right _ (by omega)
  refine ⟨?_, ?_, ?_, b1, b2⟩
  · rw [UInt32.toNat_mul]; show 3 * seg.toNat % 4294967296 = _; omega
  · rw [UInt32.toNat_mul]; exact Nat.mod_eq_of_lt (by omega)
  · have e1 : (slice + 1).toNat = slice.toNat + 1 := by
      rw [UInt32.toNat_add]; show (slice.toNat + 1) % 4294967296 = _; omega
    have e2 : ((slice + 1) % syncPoints).toNat = (slice.toNat + 1) % 4 := by
      rw [UInt32.toNat_mod, e1]; rfl
    rw [UInt32.toNat_mul, e2]; exact Nat.mod_eq_of_lt (by omega)

theorem beq_true_iff_32 (x y : UInt32) : (x == y) = decide (x.toNat = y.toNat) := by
  by_cases h : x.toNat = y.toNat
  · have : x = y := UInt32.toNat_inj.mp h
    simp [this]
  · have : x ≠ y := fun e => h (by simp [e])
    simp [h, this]

theorem add_toNat_32 (x y : UInt32) (h : x.toNat + y.toNat < 4294967296) : (x + y).toNat = x.toNat + y.toNat := by
  rw [UInt32.toNat_add]; exact Nat.mod_eq_of_lt h

theorem sub_one_toNat_32 (x : UInt32) (h : 1 ≤ x.toNat) : (x - 1).toNat = x.toNat - 1 := by
  rw [UInt32.toNat_sub]
  show (4294967296 - 1 + x.toNat) % 4294967296 = _
  have := x.toNat_lt
  omega


set_option maxHeartbeats 1000000 in
theorem areaSize_toNat (seg n slice index : UInt32) (same : Bool)
    (hseg4 : 4 * seg.toNat < 4294967296) (hs : slice.toNat < 4) (hi : index.toNat < seg.toNat)
    (hpos : 1 ≤ (areaNat seg.toNat n.toNat slice.toNat index.toNat same).1) :
    ((areaSize seg n slice index same).1.toNat, (areaSize seg n slice index same).2.toNat) =
      areaNat seg.toNat n.toNat slice.toNat index.toNat same := by
  obtain ⟨e3, eP, eQ, bP, bQ⟩ := area_bridge_aux seg slice index hseg4 hs hi
  have hn := beq_true_iff_32 n 0
  have hsl := beq_true_iff_32 slice 0
  have hix := beq_true_iff_32 index 0
  have z : (0 : UInt32).toNat = 0 := rfl
  unfold areaSize
  unfold areaNat at hpos ⊢
  simp only [hn, hsl, hix, z] at *
  by_cases c1 : n.toNat = 0 <;> by_cases c2 : slice.toNat = 0 <;> by_cases c3 : index.toNat = 0 <;> cases same <;>
    simp only [c1, c2, c3, decide_true, decide_false, Bool.or_true, Bool.or_false,
      if_true, if_false, or_true, or_false, Bool.false_eq_true] at hpos ⊢
  all_goals
    (try simp only [c2, Nat.zero_mul] at eP bP)
    have one : (1 : UInt32).toNat = 1 := rfl
    have z' : (0 : UInt32).toNat = 0 := rfl
    simp only [UInt32.toNat_add, UInt32.toNat_sub, eP, e3, eQ, z', one]
    first | done | (refine Prod.ext ?_ ?_ <;> simp only [] <;> first | omega | (simp only [c2]) | trace_state)

/-- **indexAlpha_eq_rfc (reference area)**: for every position the code can be at — slice < 4, index inside the
    segment, segments ≥ 2, 4·segments < 2^32, and in the very first slice the own lane from index 2 on — the
    `m, s` computed by indexAlpha in uint32 arithmetic are |W| and the start position of RFC 9106 §3.4, and |W| ≥ 1 -/
theorem indexAlpha_area_rfc (seg n slice index : UInt32) (same : Bool)
    (hseg : 2 ≤ seg.toNat) (hseg4 : 4 * seg.toNat < 4294967296) (hs : slice.toNat < 4)
    (hi : index.toNat < seg.toNat)
    (hfirst : n.toNat = 0 → slice.toNat = 0 → same = true ∧ 2 ≤ index.toNat) :
    (areaSize seg n slice index same).1.toNat = refAreaRFC seg.toNat n.toNat slice.toNat index.toNat same ∧
    (areaSize seg n slice index same).2.toNat = startRFC seg.toNat n.toNat slice.toNat ∧
    1 ≤ (areaSize seg n slice index same).1.toNat := by
  obtain ⟨h1, h2⟩ := areaNat_eq_rfc seg.toNat n.toNat slice.toNat index.toNat same hseg hs hi hfirst
  have h3 := areaSize_toNat seg n slice index same hseg4 hs hi h2
  rw [h1] at h3
  have e1 := congrArg Prod.fst h3
  have e2 := congrArg Prod.snd h3
  simp only [] at e1 e2
  refine ⟨e1, e2, ?_⟩
  rw [e1]
  have := h2
  rw [h1] at this
  exact this

/-- **ref_already_written, first pass**: with |W| = refAreaRFC (start 0) and any offset `k < |W|` into the area
    (k = |W| − 1 − y in phi), the referenced position `k` of the reference lane lies strictly before the blocks
    not yet written: before `cur − 1` in the own lane (the previous block is excluded too), before the current
    slice in another lane (and before its last finished block when index = 0). -/
theorem ref_written_pass0 (seg slice index k : Nat) (same : Bool)
    (hs : slice < 4) (hi : index < seg) (hfirst : slice = 0 → same = true ∧ 2 ≤ index)
    (hk : k < refAreaRFC seg 0 slice index same) :
    (startRFC seg 0 slice + k) % (4 * seg) = k ∧
    (same = true → k + 1 < slice * seg + index) ∧
    (same = false → k < slice * seg ∧ (index = 0 → k + 1 < slice * seg)) := by
  have hst : startRFC seg 0 slice = 0 := by simp [startRFC]
  have hb : slice * seg ≤ 3 * seg := Nat.mul_le_mul_right _ (by omega)
  have hkb : k < 4 * seg ∧ (same = true → k + 1 < slice * seg + index) ∧
      (same = false → k < slice * seg ∧ (index = 0 → k + 1 < slice * seg)) := by
    unfold refAreaRFC at hk
    simp only [if_true] at hk
    by_cases h0 : slice = 0
    · obtain ⟨rfl, h2⟩ := hfirst h0
      subst h0
      simp only [if_true] at hk
      exact ⟨by omega, fun _ => by omega, fun h => Bool.noConfusion h⟩
    · simp only [h0, if_false] at hk
      cases same
      · simp only [Bool.false_eq_true, if_false] at hk
        by_cases hi0 : index = 0
        · simp only [hi0, if_true] at hk
          exact ⟨by omega, fun h => Bool.noConfusion h, fun _ => ⟨by omega, fun _ => by omega⟩⟩
        · simp only [hi0, if_false] at hk
          exact ⟨by omega, fun h => Bool.noConfusion h, fun _ => ⟨by omega, fun h => absurd h hi0⟩⟩
      · simp only [if_true] at hk
        exact ⟨by omega, fun _ => by omega, fun h => Bool.noConfusion h⟩
  refine ⟨?_, hkb.2.1, hkb.2.2⟩
  rw [hst, Nat.zero_add, Nat.mod_eq_of_lt hkb.1]

theorem mod4seg (seg x : Nat) (hx : x < 8 * seg) :
    (x % (4 * seg) = x ∧ x < 4 * seg) ∨ (x % (4 * seg) = x - 4 * seg ∧ 4 * seg ≤ x) := by
  by_cases h : x < 4 * seg
  · exact Or.inl ⟨Nat.mod_eq_of_lt h, h⟩
  · refine Or.inr ⟨?_, by omega⟩
    rw [Nat.mod_eq_sub_mod (by omega), Nat.mod_eq_of_lt (by omega)]

/-- **ref_already_written, later passes**: |W| = refAreaRFC, start s = ((slice+1) mod 4)·seg, lane length
    q = 4·seg, offset `k < |W|`: the referenced position `rel = (s + k) mod q` is never in the part of the
    current slice that is being rewritten — in the own lane not at or after `cur − 1` (cur = slice·seg + index)
    inside the slice and never the block just before `cur` (also across the lane wrap); in another lane not
    in the current slice at all (that lane's goroutine is writing it), and for index = 0 not the block just
    before the slice either. -/
theorem ref_written_later (seg slice index k : Nat) (same : Bool)
    (hseg : 2 ≤ seg) (hs : slice < 4) (hi : index < seg)
    (hk : k < refAreaRFC seg 1 slice index same) :
    (startRFC seg 1 slice + k) % (4 * seg) < 4 * seg ∧
    (same = true →
        ¬ (slice * seg + index ≤ (startRFC seg 1 slice + k) % (4 * seg) + 1 ∧
           (startRFC seg 1 slice + k) % (4 * seg) < slice * seg + seg) ∧
        ((startRFC seg 1 slice + k) % (4 * seg) + 1) % (4 * seg) ≠ slice * seg + index) ∧
    (same = false →
        ¬ (slice * seg ≤ (startRFC seg 1 slice + k) % (4 * seg) ∧
           (startRFC seg 1 slice + k) % (4 * seg) < slice * seg + seg) ∧
        (index = 0 → ((startRFC seg 1 slice + k) % (4 * seg) + 1) % (4 * seg) ≠ slice * seg)) := by
  have hst : startRFC seg 1 slice = ((slice + 1) % 4) * seg := by simp [startRFC]
  rw [hst]
  generalize hs0 : ((slice + 1) % 4) * seg = s0
  generalize hc0 : slice * seg = c0
  have hcase : (s0 = seg ∧ c0 = 0) ∨ (s0 = 2 * seg ∧ c0 = seg) ∨ (s0 = 3 * seg ∧ c0 = 2 * seg) ∨ (s0 = 0 ∧ c0 = 3 * seg) := by
    have hsl : slice = 0 ∨ slice = 1 ∨ slice = 2 ∨ slice = 3 := by omega
    rcases hsl with rfl | rfl | rfl | rfl <;> simp at hs0 hc0 <;> omega
  unfold refAreaRFC at hk
  simp only [Nat.one_ne_zero, if_false] at hk
  have hlt : (s0 + k) % (4 * seg) < 4 * seg := Nat.mod_lt _ (by omega)
  cases same
  · simp only [Bool.false_eq_true, if_false] at hk
    have hk3 : k < 3 * seg ∧ (index = 0 → k + 1 < 3 * seg) := by
      by_cases hi0 : index = 0
      · simp only [hi0, if_true] at hk; exact ⟨by omega, fun _ => by omega⟩
      · simp only [hi0, if_false] at hk; exact ⟨by omega, fun h => absurd h hi0⟩
    refine ⟨hlt, fun h => Bool.noConfusion h, fun _ => ?_⟩
    rcases mod4seg seg (s0 + k) (by omega) with ⟨e, h1⟩ | ⟨e, h1⟩ <;> rw [e] <;>
      rcases mod4seg seg (s0 + k + 1) (by omega) with ⟨e', h2⟩ | ⟨e', h2⟩ <;>
      (constructor
       · omega
       · intro h0
         have := hk3.2 h0
         first
           | (rw [e']; omega)
           | (have e2 : s0 + k - 4 * seg + 1 = s0 + k + 1 - 4 * seg := by omega
              rw [e2, Nat.mod_eq_of_lt (by omega)]; omega)
           | (rw [Nat.mod_eq_of_lt (by omega)]; omega)
           | omega)
  · simp only [if_true] at hk
    refine ⟨hlt, fun _ => ?_, fun h => Bool.noConfusion h⟩
    rcases mod4seg seg (s0 + k) (by omega) with ⟨e, h1⟩ | ⟨e, h1⟩ <;> rw [e] <;>
      rcases mod4seg seg (s0 + k + 1) (by omega) with ⟨e', h2⟩ | ⟨e', h2⟩ <;>
      (constructor
       · omega
       · first
           | (rw [e']; omega)
           | (have e2 : s0 + k - 4 * seg + 1 = s0 + k + 1 - 4 * seg := by omega
              rw [e2, Nat.mod_eq_of_lt (by omega)]; omega)
           | (rw [Nat.mod_eq_of_lt (by omega)]; omega)
           | omega)

/-- RFC 9106 §3.4.2: J1 ↦ x = J1²/2^32, y = (|W|·x)/2^32, z = |W| − 1 − y, position (start + z) mod q in lane l -/
def phiRFC (J1 m s lane lanes : Nat) : Nat :=
  let x := (J1 * J1) / 2 ^ 32
  let y := (m * x) / 2 ^ 32
  lane * lanes + (s + (m - 1 - y)) % lanes

theorem phi_eq_rfc (rand m s : UInt64) (lane lanes : UInt32)
    (hm : 1 ≤ m.toNat) (hm32 : m.toNat < 4294967296) (hs32 : s.toNat < 4294967296) (hl : 0 < lanes.toNat)
    (hmem : lane.toNat * lanes.toNat + lanes.toNat ≤ 4294967296) :
    (phi rand m s lane lanes).toNat =
      phiRFC (rand.toNat % 4294967296) m.toNat s.toNat lane.toNat lanes.toNat ∧
    (m.toNat * ((rand.toNat % 4294967296 * (rand.toNat % 4294967296)) / 2 ^ 32)) / 2 ^ 32 < m.toNat := by
  generalize hJ : rand.toNat % 4294967296 = J
  have hJlt : J < 4294967296 := by rw [← hJ]; exact Nat.mod_lt _ (by decide)
  -- p0
  have e0 : (rand &&& 0xFFFFFFFF).toNat = J := by
    rw [UInt64.toNat_and]
    show rand.toNat &&& (2 ^ 32 - 1) = J
    rw [Nat.and_two_pow_sub_one_eq_mod]; exact hJ
  have hJJ : J * J < 4294967296 * 4294967296 := Nat.mul_lt_mul'' hJlt hJlt
  -- p1 = (p0*p0) >> 32
  have e1 : (((rand &&& 0xFFFFFFFF) * (rand &&& 0xFFFFFFFF)) >>> 32).toNat = J * J / 2 ^ 32 := by
    rw [UInt64.toNat_shiftRight, UInt64.toNat_mul, e0, Nat.shiftRight_eq_div_pow]
    have : J * J % 2 ^ 64 = J * J := Nat.mod_eq_of_lt (by omega)
    rw [this]; rfl
  generalize hx : J * J / 2 ^ 32 = x at e1
  have hxlt : x < 4294967296 := by
    rw [← hx]; exact Nat.div_lt_of_lt_mul (by omega)
  have hxm : x * m.toNat < 4294967296 * m.toNat := Nat.mul_lt_mul_of_pos_right hxlt (by omega)
  have hxm2 : x * m.toNat < 4294967296 * 4294967296 := Nat.mul_lt_mul'' hxlt hm32
  -- p2 = (p1*m) >> 32
  have e2 : (((((rand &&& 0xFFFFFFFF) * (rand &&& 0xFFFFFFFF)) >>> 32) * m) >>> 32).toNat = x * m.toNat / 2 ^ 32 := by
    rw [UInt64.toNat_shiftRight, UInt64.toNat_mul, e1, Nat.shiftRight_eq_div_pow]
    have : x * m.toNat % 2 ^ 64 = x * m.toNat := Nat.mod_eq_of_lt (by omega)
    rw [this]; rfl
  generalize hy : x * m.toNat / 2 ^ 32 = y at e2
  have hylt : y < m.toNat := by
    rw [← hy]; exact Nat.div_lt_of_lt_mul (by omega)
  refine ⟨?_, by rw [Nat.mul_comm m.toNat x, hy]; exact hylt⟩
  unfold phi phiRFC
  simp only []
  rw [hx, Nat.mul_comm m.toNat x, hy]
  generalize ((((rand &&& 0xFFFFFFFF) * (rand &&& 0xFFFFFFFF)) >>> 32) * m) >>> 32 = p2 at e2 ⊢
  have e3 : (s + m - (p2 + 1)).toNat = s.toNat + (m.toNat - 1 - y) := by
    have a1 : (p2 + 1).toNat = y + 1 := by
      rw [UInt64.toNat_add, e2]; show (y + 1) % 18446744073709551616 = _; omega
    have a2 : (s + m).toNat = s.toNat + m.toNat := by
      rw [UInt64.toNat_add]; omega
    rw [UInt64.toNat_sub, a1, a2]; omega
  have e4 : ((s + m - (p2 + 1)) % lanes.toUInt64).toUInt32.toNat = (s.toNat + (m.toNat - 1 - y)) % lanes.toNat := by
    rw [UInt64.toNat_toUInt32, UInt64.toNat_mod, e3, UInt32.toNat_toUInt64]
    have := Nat.mod_lt (s.toNat + (m.toNat - 1 - y)) hl
    have := lanes.toNat_lt
    omega
  have hr := Nat.mod_lt (s.toNat + (m.toNat - 1 - y)) hl
  rw [UInt32.toNat_add, UInt32.toNat_mul, e4]
  have : lane.toNat * lanes.toNat < 4294967296 := by omega
  rw [Nat.mod_eq_of_lt this]
  omega

/-- **indexAlpha_eq_rfc**: at every position the code visits (slice < 4, index inside the segment, index ≥ 2
    in the very first slice; lane length q = 4·seg, seg ≥ 2, the reference lane's blocks below 2^32) the block
    index returned by indexAlpha — computed in uint32 / uint64 machine arithmetic — is
    `l·q + (start + (|W| − 1 − y)) mod q` with l the reference lane, |W| and start the reference area of
    RFC 9106 §3.4, and y = (|W| · (J1² / 2^32)) / 2^32 for J1 = the low 32 bits of the pseudo-random word. -/
theorem indexAlpha_eq_rfc (rand : UInt64) (lanes seg threads n slice lane index : UInt32)
    (hq : lanes.toNat = 4 * seg.toNat) (hseg : 2 ≤ seg.toNat) (hs : slice.toNat < 4)
    (hi : index.toNat < seg.toNat) (hidx2 : n.toNat = 0 → slice.toNat = 0 → 2 ≤ index.toNat)
    (hmem : (refLaneOf rand threads n slice lane).toNat * lanes.toNat + lanes.toNat ≤ 4294967296) :
    (indexAlpha rand lanes seg threads n slice lane index).toNat =
      phiRFC (rand.toNat % 4294967296)
        (refAreaRFC seg.toNat n.toNat slice.toNat index.toNat (lane == refLaneOf rand threads n slice lane))
        (startRFC seg.toNat n.toNat slice.toNat)
        (refLaneOf rand threads n slice lane).toNat lanes.toNat := by
  have hseg4 : 4 * seg.toNat < 4294967296 := by
    have := lanes.toNat_lt; omega
  have hfirst : n.toNat = 0 → slice.toNat = 0 →
      (lane == refLaneOf rand threads n slice lane) = true ∧ 2 ≤ index.toNat := by
    intro h1 h2
    have e1 : n = 0 := UInt32.toNat_inj.mp h1
    have e2 : slice = 0 := UInt32.toNat_inj.mp h2
    refine ⟨?_, hidx2 h1 h2⟩
    simp [refLaneOf, e1, e2]
  obtain ⟨a1, a2, a3⟩ := indexAlpha_area_rfc seg n slice index (lane == refLaneOf rand threads n slice lane)
    hseg hseg4 hs hi hfirst
  unfold indexAlpha
  simp only []
  have hp := (phi_eq_rfc rand (areaSize seg n slice index (lane == refLaneOf rand threads n slice lane)).1.toUInt64
    (areaSize seg n slice index (lane == refLaneOf rand threads n slice lane)).2.toUInt64
    (refLaneOf rand threads n slice lane) lanes
    (by rw [UInt32.toNat_toUInt64]; exact a3)
    (by rw [UInt32.toNat_toUInt64]; exact UInt32.toNat_lt _)
    (by rw [UInt32.toNat_toUInt64]; exact UInt32.toNat_lt _)
    (by omega) hmem).1
  rw [hp, UInt32.toNat_toUInt64, UInt32.toNat_toUInt64, a1, a2]

/-! ## the block function and the final block against RFC 9106 §3.5–3.6 / §3.2 steps 7–8
    (`processBlock_eq_G`, `processBlockXOR_eq_G`, `permute_eq_rfc` are proved in XC.Proofs.C15) -/

open XC.C15.Rfc in
theorem foldl_xorBlock_getD (g : Nat → Block) (l : List Nat) : ∀ (acc : Block) (j : Nat), j < 128 →
    (l.foldl (fun acc i => xorBlock acc (g i)) acc).getD j 0 =
      l.foldl (fun a i => a ^^^ (g i).getD j 0) (acc.getD j 0) := by
  induction l with
  | nil => intros; rfl
  | cons x r ih =>
    intro acc j hj
    simp only [List.foldl_cons]
    rw [ih _ j hj, xorBlock_eq]
    unfold xorB
    rw [ofFn_getD _ j hj]

open XC.C15.Rfc in
theorem foldl_xorB_getD (g : Nat → Block) (l : List Nat) : ∀ (acc : Block) (j : Nat), j < 128 →
    (l.foldl (fun acc i => xorB acc (g i)) acc).getD j 0 =
      l.foldl (fun a i => a ^^^ (g i).getD j 0) (acc.getD j 0) := by
  induction l with
  | nil => intros; rfl
  | cons x r ih =>
    intro acc j hj
    simp only [List.foldl_cons]
    rw [ih _ j hj]
    unfold xorB
    rw [ofFn_getD _ j hj]

theorem foldl_xor_init (f : Nat → UInt64) (l : List Nat) : ∀ a : UInt64,
    l.foldl (fun a i => a ^^^ f i) a = a ^^^ l.foldl (fun a i => a ^^^ f i) 0 := by
  induction l with
  | nil => intro a; simp
  | cons x r ih =>
    intro a
    simp only [List.foldl_cons]
    rw [ih (a ^^^ f x), ih (0 ^^^ f x), UInt64.zero_xor, UInt64.xor_assoc]

theorem flatMap_congr' {α β : Type} (l : List α) (f g : α → List β) (h : ∀ a ∈ l, f a = g a) :
    l.flatMap f = l.flatMap g := by
  induction l with
  | nil => rfl
  | cons x r ih => simp [List.flatMap_cons, h x (by simp), ih (fun a ha => h a (by simp [ha]))]

theorem u64toLE_eq_natToLE (n : Nat) (w : UInt64) : u64toLE n w = natToLE n w.toNat := by
  induction n generalizing w with
  | zero => rfl
  | succ n ih =>
    simp only [u64toLE, natToLE, ih]
    congr 1
    · apply UInt8.toNat_inj.mp
      simp [UInt64.toNat_toUInt8, UInt8.toNat_ofNat']
    · congr 1
      rw [UInt64.toNat_shiftRight]
      simp [Nat.shiftRight_eq_div_pow]

open XC.C15.Rfc in
/-- **extractKey_eq_rfc**: XOR-ing the last blocks of lanes 0 … p−2 into the last block of lane p−1 and hashing
    its 1024 bytes with blake2bHash is RFC 9106 §3.2 steps 7–8: the tag H′^T(B[0][q−1] ⊕ … ⊕ B[p−1][q−1]) -/
theorem extractKey_eq_rfc (c : Ctx) (b : Mem) (T : Nat) (hT : 1 ≤ T)
    (hp : 1 ≤ c.threads.toNat)
    (hm : c.memory.toNat = c.threads.toNat * c.lanes.toNat) :
    extractKey c b T = some (tag b c.threads.toNat c.lanes.toNat T) := by
  unfold extractKey tag
  simp only []
  rw [hprime_eq_rfc _ _ hT]
  congr 2
  generalize hpv : c.threads.toNat = p at *
  generalize hqv : c.lanes.toNat = q at *
  obtain ⟨p', rfl⟩ : ∃ p', p = p' + 1 := ⟨p - 1, by omega⟩
  have hlast : c.memory.toNat - 1 = p' * q + q - 1 := by rw [hm, Nat.succ_mul]
  -- word by word
  have hw : ∀ j, j < 128 →
      ((List.range (p' + 1 - 1)).foldl (fun acc lane => xorBlock acc (b.getD (lane * q + q - 1) zeroBlock))
        (b.getD (c.memory.toNat - 1) zeroBlock)).getD j 0 = (finalBlock b (p' + 1) q).getD j 0 := by
    intro j hj
    unfold finalBlock
    rw [foldl_xorBlock_getD (fun lane => b.getD (lane * q + q - 1) zeroBlock) _ _ j hj,
      foldl_xorB_getD (fun i => b.getD (i * q + q - 1) zeroBlock) _ _ j hj]
    have hz : (Array.replicate 128 (0 : UInt64)).getD j 0 = 0 := by simp [Array.getD, hj]
    rw [hz, Nat.add_sub_cancel, List.range_succ, List.foldl_append, hlast]
    simp only [List.foldl_cons, List.foldl_nil]
    rw [foldl_xor_init _ _ ((b.getD (p' * q + q - 1) zeroBlock).getD j 0), UInt64.xor_comm]
  unfold bytesOfBlock blockBytes
  apply flatMap_congr'
  intro i hi
  have hi' : i < 128 := by simpa using hi
  rw [u64toLE_eq_natToLE, hw i hi']

/-! ## the address generator and one iteration of the segment loop against RFC 9106 §3.2 / §3.4 -/

section
open XC.C15.Rfc

theorem G_comm (x y : Block) : Rfc.G x y = Rfc.G y x := by
  show xorB (applyCols (applyRows (xorB x y))) (xorB x y) = xorB (applyCols (applyRows (xorB y x))) (xorB y x)
  rw [xorB_comm x y]

theorem zeroBlock_eq : zeroBlock = zeroB := rfl

/-- `in[6]++; processBlock(&addresses, &in, &zero); processBlock(&addresses, &addresses, &zero)` is
    G(ZERO, G(ZERO, Z)) for the input block with its counter word incremented -/
theorem nextAddresses_eq_rfc (inp : Block) :
    (nextAddresses inp).2 = Rfc.G zeroB (Rfc.G zeroB (inp.setIfInBounds 6 (inp.getD 6 0 + 1))) ∧
    (nextAddresses inp).1 = inp.setIfInBounds 6 (inp.getD 6 0 + 1) := by
  refine ⟨?_, rfl⟩
  show processBlock (processBlock (inp.setIfInBounds 6 (inp.getD 6 0 + 1)) zeroBlock) zeroBlock = _
  rw [processBlock_eq_G, processBlock_eq_G, zeroBlock_eq, G_comm _ zeroB, G_comm _ zeroB]

theorem getD_setB (a : Block) (i j : Nat) (v : UInt64) (hi : i < a.size) :
    (a.setIfInBounds i v).getD j 0 = if j = i then v else a.getD j 0 := getD_set a i j v hi

theorem addrInput_getD (r l sl m' t y i j : Nat) (hj : j < 128) :
    (addrInput r l sl m' t y i).getD j 0 =
      if j = 0 then UInt64.ofNat r else if j = 1 then UInt64.ofNat l else if j = 2 then UInt64.ofNat sl
      else if j = 3 then UInt64.ofNat m' else if j = 4 then UInt64.ofNat t else if j = 5 then UInt64.ofNat y
      else if j = 6 then UInt64.ofNat i else 0 := by
  unfold addrInput
  rw [ofFn_getD _ j hj]
  have : j = 0 ∨ j = 1 ∨ j = 2 ∨ j = 3 ∨ j = 4 ∨ j = 5 ∨ j = 6 ∨ 7 ≤ j := by omega
  rcases this with rfl | rfl | rfl | rfl | rfl | rfl | rfl | h7
  · rfl
  · rfl
  · rfl
  · rfl
  · rfl
  · rfl
  · rfl
  · obtain ⟨k, rfl⟩ : ∃ k, j = k + 7 := ⟨j - 7, by omega⟩
    ite_omega
    rfl

theorem addrInput_size (r l sl m' t y i : Nat) : (addrInput r l sl m' t y i).size = 128 := by simp [addrInput]

/-- the `in` block processSegment builds is Z of §3.4.1.2 with counter i = 0 … -/
theorem addrInput_init (n lane slice memory time : UInt32) (mode : Nat) :
    (((((zeroBlock.setIfInBounds 0 n.toUInt64).setIfInBounds 1 lane.toUInt64).setIfInBounds 2 slice.toUInt64).setIfInBounds 3
        memory.toUInt64).setIfInBounds 4 time.toUInt64).setIfInBounds 5 (UInt64.ofNat mode) =
      addrInput n.toNat lane.toNat slice.toNat memory.toNat time.toNat mode 0 := by
  have hz : zeroBlock.size = 128 := by simp [zeroBlock]
  have hzg : ∀ j, j < 128 → zeroBlock.getD j 0 = 0 := by
    intro j hj; simp [zeroBlock, Array.getD, hj]
  have cv : ∀ x : UInt32, x.toUInt64 = UInt64.ofNat x.toNat := by
    intro x; apply UInt64.toNat_inj.mp
    rw [UInt32.toNat_toUInt64, UInt64.toNat_ofNat']
    have := x.toNat_lt; omega
  apply block_ext _ _ (by simp [hz]) (addrInput_size _ _ _ _ _ _ _)
  intro j hj
  rw [getD_setB _ _ _ _ (by simp [hz]), getD_setB _ _ _ _ (by simp [hz]),
    getD_setB _ _ _ _ (by simp [hz]), getD_setB _ _ _ _ (by simp [hz]),
    getD_setB _ _ _ _ (by simp [hz]), getD_setB _ _ _ _ (by simp [hz]), hzg j hj, addrInput_getD _ _ _ _ _ _ _ _ hj]
  simp only [cv]
  have : j = 0 ∨ j = 1 ∨ j = 2 ∨ j = 3 ∨ j = 4 ∨ j = 5 ∨ 6 ≤ j := by omega
  rcases this with rfl | rfl | rfl | rfl | rfl | rfl | h6
  · rfl
  · rfl
  · rfl
  · rfl
  · rfl
  · rfl
  · ite_omega
    by_cases h : j = 6
    · subst h; rfl
    · ite_omega

/-- … and `in[6]++` turns counter i into i + 1 -/
theorem addrInput_succ (r l sl m' t y i : Nat) :
    (addrInput r l sl m' t y i).setIfInBounds 6 ((addrInput r l sl m' t y i).getD 6 0 + 1) =
      addrInput r l sl m' t y (i + 1) := by
  apply block_ext _ _ (by simp [addrInput_size]) (addrInput_size _ _ _ _ _ _ _)
  intro j hj
  rw [getD_setB _ _ _ _ (by rw [addrInput_size]; omega), addrInput_getD _ _ _ _ _ _ _ 6 (by omega),
    addrInput_getD _ _ _ _ _ _ _ j hj, addrInput_getD _ _ _ _ _ _ _ j hj]
  by_cases h6 : j = 6
  · subst h6
    ite_omega
    apply UInt64.toNat_inj.mp
    rw [UInt64.toNat_add, UInt64.toNat_ofNat', UInt64.toNat_ofNat']
    show (i % 2 ^ 64 + 1) % 2 ^ 64 = (i + 1) % 2 ^ 64
    omega
  · rw [if_neg h6]
    have : j = 0 ∨ j = 1 ∨ j = 2 ∨ j = 3 ∨ j = 4 ∨ j = 5 ∨ 7 ≤ j := by omega
    rcases this with rfl | rfl | rfl | rfl | rfl | rfl | h7
    · rfl
    · rfl
    · rfl
    · rfl
    · rfl
    · rfl
    · ite_omega

/-- hence the address block generated for counter i is `addrBlock … i` of the RFC -/
theorem nextAddresses_addrBlock (r l sl m' t y i : Nat) :
    nextAddresses (addrInput r l sl m' t y i) = (addrInput r l sl m' t y (i + 1), addrBlock r l sl m' t y (i + 1)) := by
  obtain ⟨h1, h2⟩ := nextAddresses_eq_rfc (addrInput r l sl m' t y i)
  rw [addrInput_succ] at h1 h2
  generalize nextAddresses (addrInput r l sl m' t y i) = na at h1 h2
  obtain ⟨a, b⟩ := na
  simp only [] at h1 h2
  subst h1 h2
  rfl

/-- **one iteration of the segment loop** (index < segments): the block at `offset` becomes
    `old ⊕ G(B[prev], B[ref])` — RFC 9106 §3.2 steps 5–6 (`newBlock`) — where `ref = indexAlpha(J1‖J2, …)`
    (= the §3.4 mapping by `indexAlpha_eq_rfc`) and J1‖J2 is word `index mod 128` of the current address block
    (data-independent addressing; a new block every 128 indices) or the first word of the previous block
    (data-dependent addressing); nothing else in memory changes in this iteration -/
theorem segmentLoop_step (c : Ctx) (n slice lane : UInt32) (fuel : Nat) (index offset : UInt32)
    (inp addresses : Block) (b : Mem) (h : index < c.segments) :
    segmentLoop c n slice lane (fuel + 1) index offset inp addresses b =
      (let prev := if index == 0 && slice == 0 then offset - 1 + c.lanes else offset - 1
       let st : Block × Block :=
         if dataIndep c n slice then (if index % 128 == 0 then nextAddresses inp else (inp, addresses))
         else (inp, addresses)
       let random := if dataIndep c n slice then st.2.getD (index % 128).toNat 0
                     else (b.getD prev.toNat zeroBlock).getD 0 0
       let ref := indexAlpha random c.lanes c.segments c.threads n slice lane index
       segmentLoop c n slice lane fuel (index + 1) (offset + 1) st.1 st.2
         (b.setIfInBounds offset.toNat
           (newBlock (b.getD offset.toNat zeroBlock) (b.getD prev.toNat zeroBlock) (b.getD ref.toNat zeroBlock)))) := by
  conv => lhs; rw [segmentLoop]
  rw [if_pos h]
  by_cases hd : dataIndep c n slice = true
  · simp only [hd, if_true]
    by_cases hi : (index % 128 == 0) = true
    · simp only [hi, if_true, processBlockXOR_eq_G, newBlock]
    · simp only [hi, if_false, Bool.false_eq_true, processBlockXOR_eq_G, newBlock]
  · have hd' : dataIndep c n slice = false := by simpa using hd
    simp only [hd', Bool.false_eq_true, if_false, processBlockXOR_eq_G, newBlock]

/-- the index of the previous block computed in uint32 arithmetic (with the wrap for the first block of a
    lane) is column `prevCol q j` of the same lane -/
theorem prev_eq_rfc (c : Ctx) (slice lane index : UInt32)
    (hq : c.lanes.toNat = 4 * c.segments.toNat) (hs : slice.toNat < 4) (hi : index.toNat < c.segments.toNat)
    (hseg : 1 ≤ c.segments.toNat) (hmem : lane.toNat * c.lanes.toNat + c.lanes.toNat ≤ 4294967296)
    (offset : UInt32) (ho : offset.toNat = lane.toNat * c.lanes.toNat + slice.toNat * c.segments.toNat + index.toNat)
    (hb : slice.toNat * c.segments.toNat ≤ 3 * c.segments.toNat) :
    (if index == 0 && slice == 0 then offset - 1 + c.lanes else offset - 1).toNat =
      lane.toNat * c.lanes.toNat + prevCol c.lanes.toNat (slice.toNat * c.segments.toNat + index.toNat) := by
  have hidx := beq_true_iff_32 index 0
  have hsl := beq_true_iff_32 slice 0
  have z : (0 : UInt32).toNat = 0 := rfl
  have one : (1 : UInt32).toNat = 1 := rfl
  rw [hidx, hsl, z]
  unfold prevCol
  generalize hL : lane.toNat * c.lanes.toNat = L at *
  generalize hS : slice.toNat * c.segments.toNat = S at *
  by_cases h0 : index.toNat = 0 ∧ slice.toNat = 0
  · obtain ⟨h1, h2⟩ := h0
    have hS0 : S = 0 := by rw [← hS, h2]; simp
    simp only [h1, h2, decide_true, Bool.and_true, if_true]
    rw [UInt32.toNat_add, UInt32.toNat_sub, one, ho, hS0, h1]
    have e : (c.lanes.toNat - 1) % c.lanes.toNat = c.lanes.toNat - 1 := Nat.mod_eq_of_lt (by omega)
    simp only [Nat.zero_add, Nat.add_zero] at *
    rw [e]
    omega
  · have hne : ¬ (decide (index.toNat = 0) && decide (slice.toNat = 0)) = true := by
      simp only [Bool.and_eq_true, decide_eq_true_eq]; exact h0
    rw [if_neg hne, UInt32.toNat_sub, one, ho]
    have hpos : 1 ≤ S + index.toNat := by
      rcases Nat.eq_zero_or_pos index.toNat with hi0 | hi0
      · have hs0 : slice.toNat ≠ 0 := fun e => h0 ⟨hi0, e⟩
        have : 1 * c.segments.toNat ≤ slice.toNat * c.segments.toNat := Nat.mul_le_mul_right _ (by omega)
        omega
      · omega
    have e : (S + index.toNat + c.lanes.toNat - 1) % c.lanes.toNat = S + index.toNat - 1 := by
      have : S + index.toNat + c.lanes.toNat - 1 = (S + index.toNat - 1) + c.lanes.toNat := by omega
      rw [this, Nat.add_mod_right, Nat.mod_eq_of_lt (by omega)]
    rw [e]
    omega

end

/-! ## the memory-filling loop against an RFC-shaped iteration (RFC 9106 §3.2 steps 5–6, §3.4) -/

section
open XC.C15.Rfc

/-- an Argon2 instance after the memory rounding: p lanes of q = 4·seg blocks, t passes, m′ = p·q, type y -/
structure Inst where
  p : Nat
  q : Nat
  seg : Nat
  t : Nat
  m' : Nat
  y : Nat

/-- data-independent addressing: Argon2i always, Argon2id in the first two slices of the first pass -/
def indep (I : Inst) (r s : Nat) : Bool := I.y == 1 || (I.y == 2 && r == 0 && s < 2)

/-- the 64-bit value J1 ‖ J2 for block `idx` of segment (r, l, s): word `idx mod 128` of address block number
    ⌊idx/128⌋ + 1 (§3.4.1.2), or the first 64 bits of the previous block (§3.4.1.1) -/
def pseudoRand (I : Inst) (mem : Array Block) (r l s idx : Nat) : UInt64 :=
  if indep I r s then (addrBlock r l s I.m' I.t I.y (idx / 128 + 1)).getD (idx % 128) 0
  else (mem.getD (l * I.q + prevCol I.q (s * I.seg + idx)) zeroB).getD 0 0

/-- §3.4.2: reference lane l′ = J2 mod p (the own lane in the first slice of the first pass) and the mapping
    of J1 into the reference area; the result is the lane-major index of B[l′][z] -/
def refPos (I : Inst) (r l s idx : Nat) (J : UInt64) : Nat :=
  let l' := if r = 0 ∧ s = 0 then l else (J.toNat / 4294967296) % I.p
  phiRFC (J.toNat % 4294967296) (refAreaRFC I.seg r s idx (decide (l = l'))) (startRFC I.seg r s) l' I.q

/-- §3.2 steps 5–6 for block `idx` of segment (r, l, s) -/
def stepRFC (I : Inst) (r l s : Nat) (mem : Array Block) (idx : Nat) : Array Block :=
  let cur := l * I.q + (s * I.seg + idx)
  let prev := l * I.q + prevCol I.q (s * I.seg + idx)
  let ref := refPos I r l s idx (pseudoRand I mem r l s idx)
  mem.setIfInBounds cur (newBlock (mem.getD cur zeroB) (mem.getD prev zeroB) (mem.getD ref zeroB))

/-- one segment: its blocks in order; the first segment of a lane starts at block 2 (0 and 1 come from H0) -/
def segmentRFC (I : Inst) (r l s : Nat) (mem : Array Block) : Array Block :=
  let start := if r = 0 ∧ s = 0 then 2 else 0
  (List.range' start (I.seg - start)).foldl (stepRFC I r l s) mem

/-- passes, then the four slices, then the lanes of the slice (any order of the lanes gives the same memory in
    the RFC — they are independent within a slice; this is the order the model runs them in) -/
def fillRFC (I : Inst) (mem : Array Block) : Array Block :=
  (List.range I.t).foldl (fun mem r =>
    (List.range 4).foldl (fun mem s =>
      (List.range I.p).foldl (fun mem l => segmentRFC I r l s mem) mem) mem) mem

/-- the Go context `c` and loop variables (n, slice, lane) describe instance `I` at segment (r, l, s) -/
structure CtxOK (c : Ctx) (I : Inst) (n slice lane : UInt32) (r l s : Nat) : Prop where
  hq : c.lanes.toNat = I.q
  hseg : c.segments.toNat = I.seg
  hp : c.threads.toNat = I.p
  hm : c.memory.toNat = I.m'
  ht : c.time.toNat = I.t
  hy : c.mode = I.y
  q4 : I.q = 4 * I.seg
  seg2 : 2 ≤ I.seg
  mpq : I.m' = I.p * I.q
  hn : n.toNat = r
  hs : slice.toNat = s
  s4 : s < 4
  hl : lane.toNat = l
  lp : l < I.p

theorem dataIndep_eq (c : Ctx) (I : Inst) (n slice lane : UInt32) (r l s : Nat) (K : CtxOK c I n slice lane r l s) :
    dataIndep c n slice = indep I r s := by
  unfold dataIndep indep
  rw [K.hy, beq_true_iff_32 n 0]
  have z : (0 : UInt32).toNat = 0 := rfl
  have two : (2 : UInt32).toNat = 2 := rfl
  have e1 : decide (slice < 2) = decide (s < 2) := by
    have : slice < 2 ↔ s < 2 := by rw [UInt32.lt_iff_toNat_lt, two, K.hs]
    exact decide_eq_decide.mpr this
  rw [z, K.hn, e1]
  by_cases hr : r = 0 <;> simp [hr]

theorem refLane_toNat (c : Ctx) (I : Inst) (n slice lane : UInt32) (r l s : Nat) (K : CtxOK c I n slice lane r l s)
    (rand : UInt64) :
    (refLaneOf rand c.threads n slice lane).toNat =
      (if r = 0 ∧ s = 0 then l else (rand.toNat / 4294967296) % I.p) := by
  unfold refLaneOf
  rw [beq_true_iff_32 n 0, beq_true_iff_32 slice 0]
  have z : (0 : UInt32).toNat = 0 := rfl
  rw [z, K.hn, K.hs]
  by_cases h : r = 0 ∧ s = 0
  · obtain ⟨h1, h2⟩ := h
    simp [h1, h2, K.hl]
  · have : (decide (r = 0) && decide (s = 0)) = false := by
      rcases Nat.eq_zero_or_pos r with hr | hr
      · have : s ≠ 0 := fun e => h ⟨hr, e⟩
        simp [this]
      · have : r ≠ 0 := by omega
        simp [this]
    rw [this, if_neg h]
    simp only [Bool.false_eq_true, if_false]
    rw [UInt32.toNat_mod, UInt64.toNat_toUInt32, UInt64.toNat_shiftRight, K.hp, Nat.shiftRight_eq_div_pow]
    have := rand.toNat_lt
    have e : rand.toNat / 2 ^ (UInt64.toNat 32 % 64) = rand.toNat / 4294967296 := rfl
    rw [e]
    have : rand.toNat / 4294967296 % 2 ^ 32 = rand.toNat / 4294967296 := by omega
    rw [this]

end

end XC.C15
