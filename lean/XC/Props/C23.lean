/-
  C23 — property theorems for the cryptobyte ASN.1 readers / builders (model: XC.Model.C23).
-/
import XC.Proofs.C23
set_option maxRecDepth 8192
namespace XC.C23

/-! ### readASN1 accepts exactly DER -/


/-- **readASN1 accepts exactly DER TLVs with a low-number tag.**  `readASN1 s` returns the element `e`
    iff `s` is `tag ‖ derLen |body| ‖ body ‖ rest` with `derLen` the unique minimal length octets,
    the tag is not in high-tag-number form, and header+length fits in a uint32. -/
theorem readASN1_iff_der (s : Bytes) (e : Elem) :
    readASN1 s = some e ↔
      ((e.tag &&& 0x1f == 0x1f) = false ∧ e.body.length ≤ 0xfffffff9 ∧
       e.hdr = 1 + (derLen e.body.length).length ∧
       e.whole = e.tag :: (derLen e.body.length ++ e.body) ∧ s = e.whole ++ e.rest) := by
  constructor
  · exact readASN1_sound s e
  · rintro ⟨ht, hn, hh, hw, hs⟩
    have := readASN1_der e.tag e.body e.rest ht hn
    rw [hs, hw]
    simp only [List.cons_append, List.append_assoc] at this ⊢
    rw [this]
    obtain ⟨tag, hdr, whole, rest⟩ := e
    simp only [Elem.body] at hh hw ⊢
    simp only [Option.some.injEq, Elem.mk.injEq, true_and, and_true]
    exact ⟨hh.symm, hw.symm⟩

/-- ReadAnyASN1 in terms of plain byte strings -/
theorem readAnyASN1_iff (s : Bytes) (t : UInt8) (body rest : Bytes) :
    readAnyASN1 s = some (t, body, rest) ↔
      ((t &&& 0x1f == 0x1f) = false ∧ body.length ≤ 0xfffffff9 ∧ s = t :: (derLen body.length ++ body ++ rest)) := by
  constructor
  · intro h
    unfold readAnyASN1 at h
    cases hr : readASN1 s with
    | none => simp [hr] at h
    | some e =>
      simp only [hr, Option.map_some, Option.some.injEq, Prod.mk.injEq] at h
      obtain ⟨h1, h2, h3⟩ := h
      obtain ⟨a, b, _, d, f⟩ := readASN1_sound s e hr
      subst h1 h2 h3
      exact ⟨a, b, by rw [f, d]; simp⟩
  · rintro ⟨ht, hn, hs⟩
    have := readASN1_der t body rest ht hn
    subst hs
    unfold readAnyASN1
    rw [this]
    simp only [Option.map_some, Elem.body, Option.some.injEq, Prod.mk.injEq, true_and, and_true]
    have : 1 + (derLen body.length).length = (t :: derLen body.length).length := by
      simp only [List.length_cons]; omega
    rw [this, ← List.cons_append, List.drop_left]

/-- the length octets are determined by the body length: two accepted encodings of the same tag and body
    are byte-for-byte equal (canonicity) -/
theorem readAnyASN1_canonical (s s' : Bytes) (t : UInt8) (body : Bytes)
    (h : readAnyASN1 s = some (t, body, [])) (h' : readAnyASN1 s' = some (t, body, [])) : s = s' := by
  rw [readAnyASN1_iff] at h h'
  rw [h.2.2, h'.2.2]


/-! ### INTEGER -/

theorem checkASN1Integer_ne_nil (bs : Bytes) (h : checkASN1Integer bs = true) : bs ≠ [] := by
  intro h0; subst h0; simp [checkASN1Integer] at h

theorem readIntBody_iff (tag : UInt8) (s body r : Bytes) :
    readIntBody tag s = some (body, r) ↔ readASN1Tag tag s = some (body, r) ∧ checkASN1Integer body = true := by
  unfold readIntBody
  cases hr : readASN1Tag tag s with
  | none => simp
  | some p =>
    obtain ⟨b, r'⟩ := p
    by_cases hc : checkASN1Integer b = true
    · simp only [hc, if_true, Option.some.injEq, Prod.mk.injEq]
      constructor
      · rintro ⟨rfl, rfl⟩; exact ⟨⟨rfl, rfl⟩, hc⟩
      · rintro ⟨⟨rfl, rfl⟩, _⟩; exact ⟨rfl, rfl⟩
    · simp only [hc, Bool.false_eq_true, if_false, Option.some.injEq, Prod.mk.injEq, false_iff, not_and,
        reduceCtorEq]
      rintro ⟨rfl, rfl⟩; exact hc

/-- for minimal contents: at most `k` octets ⇔ the value fits `8k` bits two's complement -/
theorem len_le_iff_range (bs : Bytes) (h : checkASN1Integer bs = true) (k : Nat) (hk : 1 ≤ k) :
    bs.length ≤ k ↔ (-(128 * ((256 ^ (k - 1) : Nat) : Int)) ≤ twosVal bs ∧
      twosVal bs < 128 * ((256 ^ (k - 1) : Nat) : Int)) := by
  have hk1 : 1 ≤ 256 ^ (k - 1) := Nat.pow_pos (by decide)
  match bs, h with
  | [a], _ =>
    have := twosVal_range a []
    simp only [List.length_nil, Nat.pow_zero] at this
    simp only [List.length_cons, List.length_nil]
    generalize (256 ^ (k - 1) : Nat) = K at *
    constructor
    · intro _; omega
    · intro _; omega
  | b0 :: b1 :: rest, h =>
    have hA := twosVal_range b0 (b1 :: rest)
    have hB := twosVal_minimal_big b0 b1 rest h
    rw [List.length_cons, cast_pow_succ] at hA
    simp only [List.length_cons]
    generalize twosVal (b0 :: b1 :: rest) = v at *
    constructor
    · intro hl
      have hmono : (256 ^ (rest.length + 1) : Nat) ≤ 256 ^ (k - 1) := Nat.pow_le_pow_right (by decide) (by omega)
      rw [Nat.pow_succ] at hmono
      generalize (256 ^ rest.length : Nat) = P at *
      generalize (256 ^ (k - 1) : Nat) = K at *
      omega
    · intro hr
      by_cases hl : rest.length + 1 + 1 ≤ k
      · exact hl
      · exfalso
        have hmono : (256 ^ (k - 1) : Nat) ≤ 256 ^ rest.length := Nat.pow_le_pow_right (by decide) (by omega)
        generalize (256 ^ rest.length : Nat) = P at *
        generalize (256 ^ (k - 1) : Nat) = K at *
        omega

/-- ReadASN1Int64WithTag / readASN1Int64 / ReadASN1Enum's core -/
theorem readInt64Tag_iff (tag : UInt8) (s r : Bytes) (v : Int) :
    readInt64Tag tag s = some (v, r) ↔
      ∃ body, readASN1Tag tag s = some (body, r) ∧ checkASN1Integer body = true ∧ twosVal body = v ∧
        -(2 : Int) ^ 63 ≤ v ∧ v < (2 : Int) ^ 63 := by
  unfold readInt64Tag
  constructor
  · intro h
    cases hb : readIntBody tag s with
    | none => simp [hb] at h
    | some p =>
      obtain ⟨b, r'⟩ := p
      obtain ⟨hr, hc⟩ := (readIntBody_iff tag s b r').mp hb
      simp only [hb, asn1Signed_spec b (checkASN1Integer_ne_nil b hc)] at h
      by_cases hl : b.length > 8
      · simp [hl] at h
      · simp only [hl, if_false, Option.map_some, Option.some.injEq, Prod.mk.injEq] at h
        obtain ⟨h1, h2⟩ := h
        subst h1 h2
        have := (len_le_iff_range b hc 8 (by omega)).mp (by omega)
        simp only [Nat.reduceSub, Nat.reducePow] at this
        exact ⟨b, hr, hc, rfl, by omega, by omega⟩
  · rintro ⟨body, hr, hc, hv, h1, h2⟩
    have hl : body.length ≤ 8 := (len_le_iff_range body hc 8 (by omega)).mpr (by
      simp only [Nat.reduceSub, Nat.reducePow]; omega)
    have hb := (readIntBody_iff tag s body r).mpr ⟨hr, hc⟩
    simp only [hb, asn1Signed_spec body (checkASN1Integer_ne_nil body hc), show ¬ body.length > 8 by omega,
      if_false, Option.map_some, hv]

/-- **ReadASN1Integer into int8/int16/int32/int64/int** (`bits` = 8, 16, 32, 64): accepted iff the input starts
    with an INTEGER whose contents are the shortest two's-complement form of a value of that type -/
theorem readSigned_iff (bits : Nat) (hb : bits = 8 ∨ bits = 16 ∨ bits = 32 ∨ bits = 64) (s r : Bytes) (v : Int) :
    readSigned bits s = some (v, r) ↔
      ∃ body, readASN1Tag 2 s = some (body, r) ∧ checkASN1Integer body = true ∧ twosVal body = v ∧
        -(2 : Int) ^ (bits - 1) ≤ v ∧ v < (2 : Int) ^ (bits - 1) := by
  unfold readSigned
  constructor
  · intro h
    cases h64 : readInt64Tag 2 s with
    | none => simp [h64] at h
    | some p =>
      obtain ⟨v', r'⟩ := p
      simp only [h64] at h
      split at h
      · simp at h
      · rename_i hrange
        simp only [Option.some.injEq, Prod.mk.injEq] at h
        obtain ⟨h1, h2⟩ := h
        subst h1 h2
        obtain ⟨body, hr, hc, hv, _, _⟩ := (readInt64Tag_iff 2 s r' v').mp h64
        simp only [Bool.or_eq_true, decide_eq_true_eq, not_or, Int.not_lt] at hrange
        exact ⟨body, hr, hc, hv, hrange.1, by omega⟩
  · rintro ⟨body, hr, hc, hv, h1, h2⟩
    have h64 : readInt64Tag 2 s = some (v, r) := (readInt64Tag_iff 2 s r v).mpr
      ⟨body, hr, hc, hv, by rcases hb with rfl | rfl | rfl | rfl <;> simp at h1 ⊢ <;> omega,
        by rcases hb with rfl | rfl | rfl | rfl <;> simp at h2 ⊢ <;> omega⟩
    simp only [h64]
    rw [if_neg]
    simp only [Bool.or_eq_true, decide_eq_true_eq, not_or, Int.not_lt]
    exact ⟨h1, by omega⟩

/-- ReadASN1Enum (Go `int` = int64 on amd64) -/
theorem readEnum_iff (s r : Bytes) (v : Int) :
    readEnum s = some (v, r) ↔
      ∃ body, readASN1Tag 10 s = some (body, r) ∧ checkASN1Integer body = true ∧ twosVal body = v ∧
        -(2 : Int) ^ 63 ≤ v ∧ v < (2 : Int) ^ 63 := readInt64Tag_iff 10 s r v

/-- ReadASN1Integer(*big.Int): any minimal INTEGER, value = two's complement of the contents -/
theorem readBigInt_iff (s r : Bytes) (v : Int) :
    readBigInt s = some (v, r) ↔
      ∃ body, readASN1Tag 2 s = some (body, r) ∧ checkASN1Integer body = true ∧ twosVal body = v := by
  unfold readBigInt
  cases hb : readIntBody 2 s with
  | none =>
    simp only [Option.map_none, false_iff, not_exists, reduceCtorEq]
    intro body ⟨hr, hc, _⟩
    have := (readIntBody_iff 2 s body r).mpr ⟨hr, hc⟩
    rw [hb] at this; cases this
  | some p =>
    obtain ⟨b, r'⟩ := p
    obtain ⟨hr, hc⟩ := (readIntBody_iff 2 s b r').mp hb
    simp only [Option.map_some, Option.some.injEq, Prod.mk.injEq]
    constructor
    · rintro ⟨rfl, rfl⟩; exact ⟨b, hr, hc, rfl⟩
    · rintro ⟨body, hr', hc', hv⟩
      rw [hr] at hr'
      simp only [Option.some.injEq, Prod.mk.injEq] at hr'
      obtain ⟨rfl, rfl⟩ := hr'
      exact ⟨hv, rfl⟩


/-- non-negative contents: value = big-endian value -/
theorem twosVal_nonneg_iff (b0 : UInt8) (rest : Bytes) :
    (0 ≤ twosVal (b0 :: rest) ↔ b0.toNat < 128) ∧
    (b0.toNat < 128 → twosVal (b0 :: rest) = natOfBE (b0 :: rest)) := by
  have hlt := natOfBE_lt (b0 :: rest)
  have e : twosVal (b0 :: rest) = if (b0 &&& 0x80 == 0x80) = true then
      (natOfBE (b0 :: rest) : Int) - (256 : Int) ^ (b0 :: rest).length else (natOfBE (b0 :: rest) : Int) := rfl
  rw [neg_bit'] at e
  have hP : ((256 ^ (b0 :: rest).length : Nat) : Int) = (256 : Int) ^ (b0 :: rest).length := by
    rw [Int.natCast_pow]; rfl
  rw [← hP] at e
  generalize (256 ^ (b0 :: rest).length : Nat) = P at *
  generalize natOfBE (b0 :: rest) = N at *
  by_cases h : 128 ≤ b0.toNat
  · rw [if_pos (by simpa using h)] at e
    constructor
    · constructor <;> intro _ <;> omega
    · intro _; omega
  · rw [if_neg (by simpa using h)] at e
    constructor
    · constructor <;> intro _ <;> omega
    · intro _; exact e

/-- **ReadASN1Integer into uint8/uint16/uint32/uint64/uint** -/
theorem readUnsigned_iff (bits : Nat) (hb : bits = 8 ∨ bits = 16 ∨ bits = 32 ∨ bits = 64) (s r : Bytes) (v : Nat) :
    readUnsignedInt bits s = some (v, r) ↔
      ∃ body, readASN1Tag 2 s = some (body, r) ∧ checkASN1Integer body = true ∧ twosVal body = (v : Int) ∧
        v < 2 ^ bits := by
  have h64 : (2 : Nat) ^ bits ≤ 2 ^ 64 := by rcases hb with rfl | rfl | rfl | rfl <;> decide
  unfold readUnsignedInt
  constructor
  · intro h
    cases hbd : readIntBody 2 s with
    | none => simp [hbd] at h
    | some p =>
      obtain ⟨b, r'⟩ := p
      obtain ⟨hr, hc⟩ := (readIntBody_iff 2 s b r').mp hbd
      simp only [hbd] at h
      match b, hc with
      | b0 :: rest, hc =>
        rw [asn1Unsigned_spec] at h
        by_cases c1 : (decide ((b0 :: rest).length > 9) || ((b0 :: rest).length == 9 && b0 != 0)) = true
        · rw [if_pos c1] at h; simp at h
        · rw [if_neg c1] at h
          by_cases hneg : (b0 &&& 0x80 != 0) = true
          · rw [if_pos hneg] at h; simp at h
          · rw [if_neg hneg] at h
            simp only at h
            by_cases hrange : natOfBE (b0 :: rest) ≥ 2 ^ bits
            · rw [if_pos hrange] at h; simp at h
            · rw [if_neg hrange] at h
              simp only [Option.some.injEq, Prod.mk.injEq] at h
              obtain ⟨h1, h2⟩ := h
              subst h1 h2
              have hb0 : b0.toNat < 128 := by
                have := pos_bit' b0
                simp only [bne_iff_ne, ne_eq, Decidable.not_not] at hneg
                rw [hneg] at this
                simpa using this.symm
              exact ⟨b0 :: rest, hr, hc, (twosVal_nonneg_iff b0 rest).2 hb0, by omega⟩
  · rintro ⟨body, hr, hc, hv, hlt⟩
    have hbd := (readIntBody_iff 2 s body r).mpr ⟨hr, hc⟩
    simp only [hbd]
    match body, hc, hv with
    | b0 :: rest, hc, hv =>
      have hb0 : b0.toNat < 128 := ((twosVal_nonneg_iff b0 rest).1).mp (by rw [hv]; omega)
      have hnat : natOfBE (b0 :: rest) = v := by
        have := (twosVal_nonneg_iff b0 rest).2 hb0
        rw [hv] at this; omega
      have hl9 : (b0 :: rest).length ≤ 9 := (len_le_iff_range _ hc 9 (by omega)).mpr (by
        simp only [Nat.reduceSub, Nat.reducePow]; rw [hv]; omega)
      have h9 : (b0 :: rest).length = 9 → b0 = 0 := by
        intro hl
        have hrl : rest.length = 8 := by simp only [List.length_cons] at hl; omega
        rw [natOfBE_cons, hrl] at hnat
        have : b0.toNat = 0 := by
          by_cases hz : b0.toNat = 0
          · exact hz
          · exfalso
            have : 1 * 256 ^ 8 ≤ b0.toNat * 256 ^ 8 := Nat.mul_le_mul_right _ (by omega)
            omega
        exact UInt8.toNat_inj.mp (by simpa using this)
      rw [asn1Unsigned_spec]
      have c1 : ¬ ((decide ((b0 :: rest).length > 9) || ((b0 :: rest).length == 9 && b0 != 0)) = true) := by
        simp only [Bool.or_eq_true, decide_eq_true_eq, Bool.and_eq_true, beq_iff_eq, bne_iff_ne, ne_eq, not_or,
          not_and, Decidable.not_not]
        exact ⟨by omega, h9⟩
      have c2 : ¬ ((b0 &&& 0x80 != 0) = true) := by
        have := pos_bit' b0
        simp only [bne_iff_ne, ne_eq, Decidable.not_not]
        have hd : (b0 &&& 0x80 == 0) = true := by rw [this]; simpa using hb0
        simpa using hd
      rw [if_neg c1, if_neg c2]
      simp only [hnat]
      rw [if_neg (by omega)]

/-! ### builder → reader round trips -/

theorem addASN1_read (t : UInt8) (body out rest : Bytes) (h : addASN1 t body = some out)
    (hn : body.length ≤ 0xfffffff9) : readASN1Tag t (out ++ rest) = some (body, rest) := by
  unfold addASN1 at h
  by_cases ht : (t &&& 0x1f == 0x1f) = true
  · simp [ht] at h
  · by_cases hl : body.length > 0xfffffffe
    · simp [ht, hl] at h
    · simp only [ht, hl, if_false, Bool.false_eq_true, Option.some.injEq] at h
      subst h
      have := readASN1Tag_der t body rest (by simpa using ht) hn
      simpa [List.append_assoc] using this

/-- AddASN1OctetString / ReadASN1Bytes(OCTET_STRING) -/
theorem octet_roundtrip (bs out rest : Bytes) (h : addOctetString bs = some out) (hn : bs.length ≤ 0xfffffff9) :
    readASN1Tag 4 (out ++ rest) = some (bs, rest) := addASN1_read 4 bs out rest h hn

/-- AddASN1Boolean / ReadASN1Boolean -/
theorem bool_roundtrip (v : Bool) (out rest : Bytes) (h : addBool v = some out) :
    readBool (out ++ rest) = some (v, rest) := by
  have := addASN1_read 1 _ out rest h (by simp)
  cases v <;> simp [readBool, this]

/-- AddASN1NULL / ReadASN1(NULL) -/
theorem null_roundtrip (rest : Bytes) : readASN1Tag 5 (addNull ++ rest) = some ([], rest) := by
  have := readASN1Tag_der 5 [] rest (by decide) (by simp)
  simpa [derLen, addNull] using this

/-- AddASN1BitString / ReadASN1BitString (whole bytes, zero padding bits) -/
theorem bitstring_roundtrip (bs out rest : Bytes) (h : addBitString bs = some out) (hn : bs.length < 0xfffffff9) :
    readBitString (out ++ rest) = some ((bs.length * 8, bs), rest) := by
  have := addASN1_read 3 (0 :: bs) out rest h (by simp; omega)
  simp only [readBitString, this]
  cases hl : bs.getLast? with
  | none =>
    have : bs = [] := by simpa using hl
    simp [this]
  | some last => simp

/-! ### BOOLEAN: exactly 01 01 00 / 01 01 ff -/

theorem bool_iff_partial (s rest : Bytes) (v : Bool) :
    s = [1, 1, (if v then 0xff else 0)] ++ rest → readBool s = some (v, rest) := by
  intro h
  subst h
  have := bool_roundtrip v [1, 1, (if v then 0xff else 0)] rest (by cases v <;> decide)
  simpa using this

/-- only 0x00 and 0xff are accepted as BOOLEAN contents -/
theorem bool_contents (s : Bytes) (v : Bool) (rest : Bytes) (h : readBool s = some (v, rest)) :
    ∃ b, readASN1Tag 1 s = some ([b], rest) ∧ (b = 0 ∧ v = false ∨ b = 0xff ∧ v = true) := by
  unfold readBool at h
  split at h
  · rename_i b r heq
    refine ⟨b, ?_, ?_⟩
    · by_cases h0 : (b == 0) = true
      · simp [h0] at h; rw [heq, h.2]
      · by_cases h1 : (b == 0xff) = true
        · simp [h0, h1] at h; rw [heq, h.2]
        · simp [h0, h1] at h
    · by_cases h0 : (b == 0) = true
      · simp [h0] at h; left; exact ⟨by simpa using h0, h.1⟩
      · by_cases h1 : (b == 0xff) = true
        · simp [h0, h1] at h; right; exact ⟨by simpa using h1, h.1⟩
        · simp [h0, h1] at h
  · simp at h

/-! ### OID: a sub-identifier must not start with 0x80 -/

theorem base128_no_0x80_lead (fuel : Nat) (s : Bytes) : readBase128 fuel true 0 (0x80 :: s) = none := by
  cases fuel <;> simp [readBase128]

/-! ### INTEGER builders -/

theorem inR8_iff (v : Int) : inR 8 v ↔ (-(2 : Int) ^ 63 ≤ v ∧ v < (2 : Int) ^ 63) := by
  unfold inR; simp only [Nat.reduceSub, Nat.reducePow]; constructor <;> intro h <;> omega

/-- **addInt_minimal**: for every int64 the octets AddASN1Int64 / AddASN1Enum / AddASN1Int64WithTag emit are
    at most 8, are the shortest two's-complement form (what checkASN1Integer accepts) and denote `v` -/
theorem addInt_minimal (v : Int) (h1 : -(2 : Int) ^ 63 ≤ v) (h2 : v < (2 : Int) ^ 63) :
    signedLen 8 v ≤ 8 ∧ checkASN1Integer (intBytes (signedLen 8 v) v) = true ∧
      twosVal (intBytes (signedLen 8 v) v) = v := by
  have h8 : inR 8 v := (inR8_iff v).mpr ⟨h1, h2⟩
  obtain ⟨s1, s2, s3, s4⟩ := signedLen_spec 8 v (inR_mono 8 9 (by omega) v h8)
  have hle : signedLen 8 v ≤ 8 := by
    by_cases h : signedLen 8 v ≤ 8
    · exact h
    · exfalso
      have h9 : signedLen 8 v = 9 := by omega
      exact s4 (by omega) (by rw [h9]; exact h8)
  exact ⟨hle, intBytes_minimal _ v s1 s3 s4⟩

/-- AddASN1Int64WithTag / AddASN1Int64 / AddASN1Enum → ReadASN1Int64WithTag / ReadASN1Integer / ReadASN1Enum -/
theorem addSigned_read (tag : UInt8) (v : Int) (out rest : Bytes) (h1 : -(2 : Int) ^ 63 ≤ v) (h2 : v < (2 : Int) ^ 63)
    (h : addSigned tag v = some out) : readInt64Tag tag (out ++ rest) = some (v, rest) := by
  obtain ⟨hl, hc, hv⟩ := addInt_minimal v h1 h2
  have hr := addASN1_read tag _ out rest h (by rw [intBytes_length]; omega)
  exact (readInt64Tag_iff tag (out ++ rest) rest v).mpr ⟨_, hr, hc, hv, h1, h2⟩

theorem addInt64_read (v : Int) (out rest : Bytes) (h1 : -(2 : Int) ^ 63 ≤ v) (h2 : v < (2 : Int) ^ 63)
    (h : addSigned 2 v = some out) : readSigned 64 (out ++ rest) = some (v, rest) := by
  obtain ⟨hl, hc, hv⟩ := addInt_minimal v h1 h2
  have hr := addASN1_read 2 _ out rest h (by rw [intBytes_length]; omega)
  exact (readSigned_iff 64 (by simp) (out ++ rest) rest v).mpr ⟨_, hr, hc, hv, by simpa using h1, by simpa using h2⟩

theorem addEnum_read (v : Int) (out rest : Bytes) (h1 : -(2 : Int) ^ 63 ≤ v) (h2 : v < (2 : Int) ^ 63)
    (h : addSigned 10 v = some out) : readEnum (out ++ rest) = some (v, rest) :=
  addSigned_read 10 v out rest h1 h2 h

theorem unsignedLen_eq : ∀ (fuel v : Nat), unsignedLen fuel v = signedLen fuel (v : Int)
  | 0, _ => rfl
  | fuel + 1, v => by
    unfold unsignedLen signedLen
    have ih := unsignedLen_eq fuel (v / 256)
    have hd : ((v / 256 : Nat) : Int) = (v : Int) / 256 := by simp
    by_cases h : v ≥ 0x80
    · rw [if_pos h, if_pos (by simp only [Bool.or_eq_true, decide_eq_true_eq]; left; omega), ih, hd]
    · rw [if_neg h, if_neg (by simp only [Bool.or_eq_true, decide_eq_true_eq, not_or]; constructor <;> omega)]

/-- AddASN1Uint64 → ReadASN1Integer(*uint64) -/
theorem addUint64_read (v : Nat) (out rest : Bytes) (hv : v < 2 ^ 64) (h : addUint64 v = some out) :
    readUnsignedInt 64 (out ++ rest) = some (v, rest) := by
  unfold addUint64 at h
  rw [unsignedLen_eq] at h
  have h9 : inR 9 (v : Int) := by unfold inR; simp only [Nat.reduceSub, Nat.reducePow]; omega
  obtain ⟨s1, s2, s3, s4⟩ := signedLen_spec 9 v (inR_mono 9 10 (by omega) _ h9)
  obtain ⟨hc, hval⟩ := intBytes_minimal _ (v : Int) s1 s3 s4
  have hr := addASN1_read 2 _ out rest h (by rw [intBytes_length]; omega)
  exact (readUnsigned_iff 64 (by simp) (out ++ rest) rest v).mpr ⟨_, hr, hc, hval, hv⟩

theorem natAbs_inR (v : Int) : inR (v.natAbs + 1 + 1) v := by
  unfold inR
  simp only [Nat.add_sub_cancel]
  have : v.natAbs < 256 ^ (v.natAbs + 1) :=
    Nat.lt_of_lt_of_le (Nat.lt_pow_self (by decide : 1 < 256)) (Nat.pow_le_pow_right (by decide) (by omega))
  generalize (256 ^ (v.natAbs + 1) : Nat) = K at *
  omega

/-- AddASN1BigInt → ReadASN1Integer(*big.Int), for every integer (of fewer than 4 GiB octets) -/
theorem addBigInt_read (v : Int) (out rest : Bytes) (hlen : bigLen v ≤ 0xfffffff9) (h : addBigInt v = some out) :
    readBigInt (out ++ rest) = some (v, rest) := by
  unfold addBigInt at h
  obtain ⟨s1, s2, s3, s4⟩ := signedLen_spec (v.natAbs + 1) v (natAbs_inR v)
  obtain ⟨hc, hval⟩ := intBytes_minimal (bigLen v) v s1 s3 s4
  have hr := addASN1_read 2 _ out rest h (by rw [intBytes_length]; exact hlen)
  exact (readBigInt_iff (out ++ rest) rest v).mpr ⟨_, hr, hc, hval⟩

/-- AddASN1BigInt emits the shortest two's-complement form -/
theorem addBigInt_minimal (v : Int) :
    checkASN1Integer (intBytes (bigLen v) v) = true ∧ twosVal (intBytes (bigLen v) v) = v := by
  obtain ⟨s1, s2, s3, s4⟩ := signedLen_spec (v.natAbs + 1) v (natAbs_inR v)
  exact intBytes_minimal (bigLen v) v s1 s3 s4

/-! ### BIT STRING -/

/-- **ReadASN1BitString**: accepted iff the contents are `unused ‖ bytes` with `unused ≤ 7`, `unused = 0` when
    there are no bytes, and the `unused` low bits of the last byte are zero; BitLength = 8·|bytes| − unused -/
theorem bitstring_iff (s r bytes : Bytes) (n : Nat) :
    readBitString s = some ((n, bytes), r) ↔
      ∃ pad : UInt8, readASN1Tag 3 s = some (pad :: bytes, r) ∧ pad.toNat ≤ 7 ∧
        (bytes = [] → pad = 0) ∧
        (∀ last, bytes.getLast? = some last → last &&& ((1 <<< pad) - 1) = 0) ∧
        n = bytes.length * 8 - pad.toNat := by
  unfold readBitString
  cases hr : readASN1Tag 3 s with
  | none => simp
  | some p =>
    obtain ⟨c, r'⟩ := p
    cases c with
    | nil => simp
    | cons pad bs =>
      simp only [Option.some.injEq, Prod.mk.injEq, List.cons.injEq]
      have hpad : (pad > 7) ↔ ¬ pad.toNat ≤ 7 := by
        rw [gt_iff_lt, UInt8.lt_iff_toNat_lt]; simp
      by_cases h7 : pad > 7
      · rw [if_pos h7]
        simp only [false_iff, not_exists, not_and, reduceCtorEq]
        rintro p ⟨⟨rfl, rfl⟩, rfl⟩ hle
        exact absurd hle (hpad.mp h7)
      · rw [if_neg h7]
        have hle : pad.toNat ≤ 7 := by
          by_cases h : pad.toNat ≤ 7
          · exact h
          · exact absurd (hpad.mpr h) h7
        cases hl : bs.getLast? with
        | none =>
          have hbs : bs = [] := by simpa using hl
          subst hbs
          by_cases h0 : pad = 0
          · subst h0
            simp only [bne_self_eq_false, Bool.false_eq_true, if_false, Option.some.injEq, Prod.mk.injEq]
            constructor
            · rintro ⟨⟨rfl, rfl⟩, rfl⟩
              exact ⟨0, ⟨⟨rfl, rfl⟩, rfl⟩, by decide, fun _ => rfl, by simp, by simp⟩
            · rintro ⟨p, ⟨⟨rfl, rfl⟩, rfl⟩, _, _, _, hn⟩
              exact ⟨⟨by simpa using hn.symm, rfl⟩, rfl⟩
          · rw [if_pos (by simpa using h0)]
            simp only [false_iff, not_exists, not_and, reduceCtorEq]
            rintro p ⟨⟨rfl, rfl⟩, rfl⟩ _ hz
            exact absurd (hz rfl) h0
        | some last =>
          simp only
          have hne : bs ≠ [] := by intro h; subst h; simp at hl
          by_cases hm : last &&& ((1 <<< pad) - 1) = 0
          · rw [if_neg (by simpa using hm)]
            simp only [Option.some.injEq, Prod.mk.injEq]
            constructor
            · rintro ⟨⟨rfl, rfl⟩, rfl⟩
              refine ⟨pad, ⟨⟨rfl, rfl⟩, rfl⟩, hle, fun h => absurd h hne, ?_, rfl⟩
              intro l' hl'; rw [hl] at hl'; cases hl'; exact hm
            · rintro ⟨p, ⟨⟨rfl, rfl⟩, rfl⟩, _, _, _, hn⟩
              exact ⟨⟨hn.symm, rfl⟩, rfl⟩
          · rw [if_pos (by simpa using hm)]
            simp only [false_iff, not_exists, not_and, reduceCtorEq]
            rintro p ⟨⟨rfl, rfl⟩, rfl⟩ _ _ hz
            exact absurd (hz last hl) hm

/-- ReadASN1BitStringAsBytes: whole bytes only (`unused = 0`) -/
theorem bitbytes_iff (s r bytes : Bytes) :
    readBitStringAsBytes s = some (bytes, r) ↔ readASN1Tag 3 s = some (0 :: bytes, r) := by
  unfold readBitStringAsBytes
  cases hr : readASN1Tag 3 s with
  | none => simp
  | some p =>
    obtain ⟨c, r'⟩ := p
    cases c with
    | nil => simp
    | cons pad bs =>
      by_cases h0 : pad = 0
      · subst h0; simp
      · simp only [bne_iff_ne, ne_eq, h0, not_false_eq_true, if_true]
        constructor
        · intro h; cases h
        · intro h
          simp only [Option.some.injEq, Prod.mk.injEq, List.cons.injEq] at h
          exact absurd h.1.1 h0

/-! ### optional / default variants -/

/-- absent tag: default value, present = false, the input is untouched -/
theorem optional_absent (tag : UInt8) (s : Bytes) (h : peekTag tag s = false) :
    readOptional tag s = some (false, [], s) ∧ skipOptional tag s = some s := by
  simp [readOptional, skipOptional, h]

theorem peekTag_false_iff (tag : UInt8) (s : Bytes) :
    peekTag tag s = false ↔ s = [] ∨ ∃ b tl, s = b :: tl ∧ b ≠ tag := by
  cases s with
  | nil => simp [peekTag]
  | cons b tl => simp [peekTag]

/-- present tag: behaves exactly like ReadASN1(tag) -/
theorem optional_present (tag : UInt8) (s : Bytes) (h : peekTag tag s = true) :
    readOptional tag s = (readASN1Tag tag s).map (fun (b, r) => (true, b, r)) ∧
    skipOptional tag s = (readASN1Tag tag s).map (·.2) := by
  simp [readOptional, skipOptional, h]

/-- **optional_spec** for the typed variants (INTEGER kinds, BOOLEAN, …): with `inner` the typed reader,
    absent ⇒ (default, input untouched); present ⇒ the wrapper's contents must be exactly one value of `inner` -/
theorem optional_spec {α : Type} (inner : Bytes → Option (α × Bytes)) (dflt : α) (tag : UInt8) (s : Bytes) :
    readOptionalWith inner dflt tag s =
      if peekTag tag s = false then some (dflt, s) else
      match readASN1Tag tag s with
      | some (b, r) =>
        match inner b with
        | some (v, []) => some (v, r)
        | _ => none
      | none => none := by
  unfold readOptionalWith readOptional
  by_cases h : peekTag tag s = true
  · simp only [h, if_true, Bool.true_eq_false, if_false]
    cases readASN1Tag tag s with
    | none => rfl
    | some p => obtain ⟨b, r⟩ := p; rfl
  · have h' : peekTag tag s = false := by simpa using h
    simp [h']

/-- ReadOptionalASN1OctetString -/
theorem optional_octets_spec (tag : UInt8) (s : Bytes) :
    readOptionalOctets tag s =
      if peekTag tag s = false then some (false, [], s) else
      match readASN1Tag tag s with
      | some (b, r) =>
        match readASN1Tag 4 b with
        | some (o, []) => some (true, o, r)
        | _ => none
      | none => none := by
  unfold readOptionalOctets readOptional
  by_cases h : peekTag tag s = true
  · simp only [h, if_true, Bool.true_eq_false, if_false]
    cases readASN1Tag tag s with
    | none => rfl
    | some p => obtain ⟨b, r⟩ := p; rfl
  · have h' : peekTag tag s = false := by simpa using h
    simp [h']

/-- the `[]byte` out-parameter form: leading zero octets removed, zero stays one octet, value preserved -/
theorem stripZeros_spec : ∀ (b : Bytes), b ≠ [] →
    natOfBE (stripZeros b) = natOfBE b ∧ stripZeros b ≠ [] ∧ (∀ x y t, stripZeros b = x :: y :: t → x ≠ 0)
  | [], h => absurd rfl h
  | [a], _ => by
    have : stripZeros [a] = [a] := by unfold stripZeros; split <;> simp_all
    rw [this]; exact ⟨rfl, by simp, by intro x y t h; simp at h⟩
  | a :: b :: r, _ => by
    by_cases ha : a = 0
    · subst ha
      have e : stripZeros (0 :: b :: r) = stripZeros (b :: r) := by rw [stripZeros]
      obtain ⟨i1, i2, i3⟩ := stripZeros_spec (b :: r) (by simp)
      rw [e]
      refine ⟨?_, i2, i3⟩
      rw [i1, natOfBE_cons 0]; simp
    · have e : stripZeros (a :: b :: r) = a :: b :: r := by
        unfold stripZeros
        split
        · rename_i h; simp only [List.cons.injEq] at h; exact absurd h.1 ha
        · rfl
      rw [e]
      refine ⟨rfl, by simp, ?_⟩
      intro x y t h
      simp only [List.cons.injEq] at h
      rw [← h.1]; exact ha

/-- **ReadASN1Integer(*[]byte)**: non-negative minimal INTEGERs only; out = the value's unsigned big-endian form -/
theorem readIntBytes_iff (s r out : Bytes) :
    readIntBytes s = some (out, r) ↔
      ∃ body, readASN1Tag 2 s = some (body, r) ∧ checkASN1Integer body = true ∧ 0 ≤ twosVal body ∧
        out = stripZeros body := by
  unfold readIntBytes
  cases hbd : readIntBody 2 s with
  | none =>
    simp only [false_iff, not_exists, reduceCtorEq]
    intro body ⟨hr, hc, _⟩
    have := (readIntBody_iff 2 s body r).mpr ⟨hr, hc⟩
    rw [hbd] at this; cases this
  | some p =>
    obtain ⟨b, r'⟩ := p
    obtain ⟨hr, hc⟩ := (readIntBody_iff 2 s b r').mp hbd
    match b, hc, hr with
    | b0 :: rest, hc, hr =>
      simp only
      have hnn := (twosVal_nonneg_iff b0 rest).1
      rw [neg_bit']
      by_cases hneg : 128 ≤ b0.toNat
      · rw [if_pos (by simpa using hneg)]
        simp only [false_iff, not_exists, reduceCtorEq]
        rintro body ⟨hr', _, h0, _⟩
        rw [hr] at hr'
        simp only [Option.some.injEq, Prod.mk.injEq] at hr'
        obtain ⟨rfl, _⟩ := hr'
        have := hnn.mp h0
        omega
      · rw [if_neg (by simpa using hneg)]
        simp only [Option.some.injEq, Prod.mk.injEq]
        constructor
        · rintro ⟨rfl, rfl⟩
          exact ⟨b0 :: rest, hr, hc, hnn.mpr (by omega), rfl⟩
        · rintro ⟨body, hr', _, _, rfl⟩
          rw [hr] at hr'
          simp only [Option.some.injEq, Prod.mk.injEq] at hr'
          obtain ⟨rfl, rfl⟩ := hr'
          exact ⟨rfl, rfl⟩

/-- ReadASN1(out, tag) / ReadASN1Bytes / SkipASN1 -/
theorem readASN1Tag_iff (t : UInt8) (s body rest : Bytes) :
    readASN1Tag t s = some (body, rest) ↔
      ((t &&& 0x1f == 0x1f) = false ∧ body.length ≤ 0xfffffff9 ∧ s = t :: (derLen body.length ++ body ++ rest)) := by
  unfold readASN1Tag
  cases h : readAnyASN1 s with
  | none =>
    simp only [false_iff, reduceCtorEq]
    intro hh
    have := (readAnyASN1_iff s t body rest).mpr hh
    rw [h] at this; cases this
  | some p =>
    obtain ⟨t', b, r⟩ := p
    have h' := (readAnyASN1_iff s t' b r).mp h
    by_cases ht : t' = t
    · subst ht
      simp only [beq_self_eq_true, if_true, Option.some.injEq, Prod.mk.injEq]
      constructor
      · rintro ⟨rfl, rfl⟩; exact h'
      · intro hh
        have := (readAnyASN1_iff s t' body rest).mpr hh
        rw [h] at this
        simp only [Option.some.injEq, Prod.mk.injEq, true_and] at this
        exact this
    · have hne : (t' == t) = false := by simpa using ht
      simp only [hne, Bool.false_eq_true, if_false, false_iff, reduceCtorEq]
      intro hh
      have := (readAnyASN1_iff s t body rest).mpr hh
      rw [h] at this
      simp only [Option.some.injEq, Prod.mk.injEq] at this
      exact ht this.1

/-- ReadAnyASN1Element: the same acceptance, the whole TLV is returned -/
theorem readAnyASN1Element_iff (s : Bytes) (t : UInt8) (whole rest : Bytes) :
    readAnyASN1Element s = some (t, whole, rest) ↔
      ∃ body, (t &&& 0x1f == 0x1f) = false ∧ body.length ≤ 0xfffffff9 ∧
        whole = t :: (derLen body.length ++ body) ∧ s = whole ++ rest := by
  unfold readAnyASN1Element
  constructor
  · intro h
    cases hr : readASN1 s with
    | none => simp [hr] at h
    | some e =>
      simp only [hr, Option.map_some, Option.some.injEq, Prod.mk.injEq] at h
      obtain ⟨h1, h2, h3⟩ := h
      obtain ⟨a, b, _, d, f⟩ := readASN1_sound s e hr
      subst h1 h2 h3
      exact ⟨e.body, a, b, d, f⟩
  · rintro ⟨body, ht, hn, hw, hs⟩
    have := readASN1_der t body rest ht hn
    subst hw hs
    simp only [List.cons_append, List.append_assoc] at this ⊢
    rw [this]; rfl

/-- ReadASN1Element(out, tag) -/
theorem readASN1ElementTag_iff (t : UInt8) (s whole rest : Bytes) :
    readASN1ElementTag t s = some (whole, rest) ↔ readAnyASN1Element s = some (t, whole, rest) := by
  unfold readASN1ElementTag
  cases h : readAnyASN1Element s with
  | none => simp
  | some p =>
    obtain ⟨t', w, r⟩ := p
    by_cases ht : t' = t
    · subst ht; simp
    · have hne : (t' == t) = false := by simpa using ht
      simp only [hne, Bool.false_eq_true, if_false, Option.some.injEq, Prod.mk.injEq, false_iff, reduceCtorEq]
      rintro ⟨h1, _⟩; exact ht h1

/-- **bool_iff**: ReadASN1Boolean accepts exactly `01 01 00` (false) and `01 01 ff` (true) -/
theorem bool_iff (s rest : Bytes) (v : Bool) :
    readBool s = some (v, rest) ↔ s = [1, 1, (if v then 0xff else 0)] ++ rest := by
  constructor
  · intro h
    obtain ⟨b, hr, hb⟩ := bool_contents s v rest h
    obtain ⟨_, _, hs⟩ := (readASN1Tag_iff 1 s [b] rest).mp hr
    rw [hs]
    rcases hb with ⟨rfl, rfl⟩ | ⟨rfl, rfl⟩ <;> simp [derLen]
  · exact bool_iff_partial s rest v

/-! ### non-vacuity -/

example : readAnyASN1 [0x30, 0x03, 0x02, 0x01, 0x05, 0xff] = some (0x30, [0x02, 0x01, 0x05], [0xff]) := by decide
example : readAnyASN1 [0x30, 0x81, 0x03, 0x02, 0x01, 0x05] = none := by decide   -- long form for a short length
example : readSigned 8 [0x02, 0x01, 0x80] = some (-128, []) := by decide
example : readSigned 8 [0x02, 0x02, 0x00, 0x80] = none := by decide              -- 128 does not fit int8
example : readSigned 16 [0x02, 0x02, 0x00, 0x80] = some (128, []) := by decide
example : readSigned 64 [0x02, 0x02, 0x00, 0x7f] = none := by decide             -- non-minimal
example : readUnsignedInt 8 [0x02, 0x02, 0x00, 0xff] = some (255, []) := by decide
example : readBigInt [0x02, 0x01, 0xff, 0x00] = some (-1, [0x00]) := by decide
example : readIntBytes [0x02, 0x02, 0x00, 0x80] = some ([0x80], []) := by decide
example : readEnum [0x0a, 0x01, 0x03] = some (3, []) := by decide
example : readOID [0x06, 0x03, 0x88, 0x37, 0x03] = some ([2, 999, 3], []) := by decide
example : readOID [0x06, 0x02, 0x80, 0x01] = none := by decide                   -- 0x80-led sub-identifier
example : readBitString [0x03, 0x02, 0x07, 0x80] = some ((1, [0x80]), []) := by decide
example : readBitString [0x03, 0x02, 0x07, 0x81] = none := by decide             -- dirty padding bits
example : readOptionalWith (readSigned 64) 7 0xa0 [0x02, 0x01, 0x05] = some (7, [0x02, 0x01, 0x05]) := by decide
example : readOptionalBool false 0xa0 [0xa0, 0x04, 0x01, 0x01, 0xff, 0x00] = none := by decide
example : addSigned 2 (-129) = some [0x02, 0x02, 0xff, 0x7f] := by decide
example : addOID [2, 999, 3] = some [0x06, 0x03, 0x88, 0x37, 0x03] := by decide
example : addOID [2, 2 ^ 63 - 80] = none := by decide

end XC.C23
