/-
  C23 — property theorems for the cryptobyte ASN.1 readers / builders (model: XC.Model.C23).
-/
import XC.Proofs.C23
namespace XC.C23

/-! ### builder → reader round trips -/

theorem addASN1_read (t : UInt8) (body out rest : Bytes) (h : addASN1 t body = some out)
    (hn : body.length ≤ 0xfffffff9) : readASN1Tag t (out ++ rest) = some (body, rest) := by
  unfold addASN1 at h
  by_cases ht : (t &&& 0x1f == 0x1f) = true
  · simp [ht] at h
  · by_cases hl : body.length > 0xfffffffe
    · simp [ht, hl] at h
    · simp only [ht, hl, if_false, Bool.false_eq_true, Option.some.injEq] at h
      subst h
      have := readASN1Tag_der t body rest (by simpa using ht) hn
      simpa [List.append_assoc] using this

/-- AddASN1OctetString / ReadASN1Bytes(OCTET_STRING) -/
theorem octet_roundtrip (bs out rest : Bytes) (h : addOctetString bs = some out) (hn : bs.length ≤ 0xfffffff9) :
    readASN1Tag 4 (out ++ rest) = some (bs, rest) := addASN1_read 4 bs out rest h hn

/-- AddASN1Boolean / ReadASN1Boolean -/
theorem bool_roundtrip (v : Bool) (out rest : Bytes) (h : addBool v = some out) :
    readBool (out ++ rest) = some (v, rest) := by
  have := addASN1_read 1 _ out rest h (by simp)
  cases v <;> simp [readBool, this]

/-- AddASN1NULL / ReadASN1(NULL) -/
theorem null_roundtrip (rest : Bytes) : readASN1Tag 5 (addNull ++ rest) = some ([], rest) := by
  have := readASN1Tag_der 5 [] rest (by decide) (by simp)
  simpa [derLen, addNull] using this

/-- AddASN1BitString / ReadASN1BitString (whole bytes, zero padding bits) -/
theorem bitstring_roundtrip (bs out rest : Bytes) (h : addBitString bs = some out) (hn : bs.length < 0xfffffff9) :
    readBitString (out ++ rest) = some ((bs.length * 8, bs), rest) := by
  have := addASN1_read 3 (0 :: bs) out rest h (by simp; omega)
  simp only [readBitString, this]
  cases hl : bs.getLast? with
  | none =>
    have : bs = [] := by simpa using hl
    simp [this]
  | some last => simp

/-! ### BOOLEAN: exactly 01 01 00 / 01 01 ff -/

theorem bool_iff_partial (s rest : Bytes) (v : Bool) :
    s = [1, 1, (if v then 0xff else 0)] ++ rest → readBool s = some (v, rest) := by
  intro h
  subst h
  have := bool_roundtrip v [1, 1, (if v then 0xff else 0)] rest (by cases v <;> decide)
  simpa using this

/-- only 0x00 and 0xff are accepted as BOOLEAN contents -/
theorem bool_contents (s : Bytes) (v : Bool) (rest : Bytes) (h : readBool s = some (v, rest)) :
    ∃ b, readASN1Tag 1 s = some ([b], rest) ∧ (b = 0 ∧ v = false ∨ b = 0xff ∧ v = true) := by
  unfold readBool at h
  split at h
  · rename_i b r heq
    refine ⟨b, ?_, ?_⟩
    · by_cases h0 : (b == 0) = true
      · simp [h0] at h; rw [heq, h.2]
      · by_cases h1 : (b == 0xff) = true
        · simp [h0, h1] at h; rw [heq, h.2]
        · simp [h0, h1] at h
    · by_cases h0 : (b == 0) = true
      · simp [h0] at h; left; exact ⟨by simpa using h0, h.1⟩
      · by_cases h1 : (b == 0xff) = true
        · simp [h0, h1] at h; right; exact ⟨by simpa using h1, h.1⟩
        · simp [h0, h1] at h
  · simp at h

/-! ### OID: a sub-identifier must not start with 0x80 -/

theorem base128_no_0x80_lead (fuel : Nat) (s : Bytes) : readBase128 fuel true 0 (0x80 :: s) = none := by
  cases fuel <;> simp [readBase128]

end XC.C23
