/-
  C23 — property theorems for the cryptobyte ASN.1 readers / builders (model: XC.Model.C23).
-/
import XC.Proofs.C23
namespace XC.C23

/-! ### readASN1 accepts exactly DER -/


/-- **readASN1 accepts exactly DER TLVs with a low-number tag.**  `readASN1 s` returns the element `e`
    iff `s` is `tag ‖ derLen |body| ‖ body ‖ rest` with `derLen` the unique minimal length octets,
    the tag is not in high-tag-number form, and header+length fits in a uint32. -/
theorem readASN1_iff_der (s : Bytes) (e : Elem) :
    readASN1 s = some e ↔
      ((e.tag &&& 0x1f == 0x1f) = false ∧ e.body.length ≤ 0xfffffff9 ∧
       e.hdr = 1 + (derLen e.body.length).length ∧
       e.whole = e.tag :: (derLen e.body.length ++ e.body) ∧ s = e.whole ++ e.rest) := by
  constructor
  · exact readASN1_sound s e
  · rintro ⟨ht, hn, hh, hw, hs⟩
    have := readASN1_der e.tag e.body e.rest ht hn
    rw [hs, hw]
    simp only [List.cons_append, List.append_assoc] at this ⊢
    rw [this]
    obtain ⟨tag, hdr, whole, rest⟩ := e
    simp only [Elem.body] at hh hw ⊢
    simp only [Option.some.injEq, Elem.mk.injEq, true_and, and_true]
    exact ⟨hh.symm, hw.symm⟩

/-- ReadAnyASN1 in terms of plain byte strings -/
theorem readAnyASN1_iff (s : Bytes) (t : UInt8) (body rest : Bytes) :
    readAnyASN1 s = some (t, body, rest) ↔
      ((t &&& 0x1f == 0x1f) = false ∧ body.length ≤ 0xfffffff9 ∧ s = t :: (derLen body.length ++ body ++ rest)) := by
  constructor
  · intro h
    unfold readAnyASN1 at h
    cases hr : readASN1 s with
    | none => simp [hr] at h
    | some e =>
      simp only [hr, Option.map_some, Option.some.injEq, Prod.mk.injEq] at h
      obtain ⟨h1, h2, h3⟩ := h
      obtain ⟨a, b, _, d, f⟩ := readASN1_sound s e hr
      subst h1 h2 h3
      exact ⟨a, b, by rw [f, d]; simp⟩
  · rintro ⟨ht, hn, hs⟩
    have := readASN1_der t body rest ht hn
    subst hs
    unfold readAnyASN1
    rw [this]
    simp only [Option.map_some, Elem.body, Option.some.injEq, Prod.mk.injEq, true_and, and_true]
    have : 1 + (derLen body.length).length = (t :: derLen body.length).length := by
      simp only [List.length_cons]; omega
    rw [this, ← List.cons_append, List.drop_left]

/-- the length octets are determined by the body length: two accepted encodings of the same tag and body
    are byte-for-byte equal (canonicity) -/
theorem readAnyASN1_canonical (s s' : Bytes) (t : UInt8) (body : Bytes)
    (h : readAnyASN1 s = some (t, body, [])) (h' : readAnyASN1 s' = some (t, body, [])) : s = s' := by
  rw [readAnyASN1_iff] at h h'
  rw [h.2.2, h'.2.2]


/-! ### INTEGER -/

/-- **checkASN1Integer = DER minimality**: the contents are accepted iff they are a shortest non-empty
    two's-complement representation of their value. -/
theorem checkASN1Integer_iff_shortest (bs : Bytes) :
    checkASN1Integer bs = true ↔
      bs ≠ [] ∧ ∀ bs' : Bytes, bs' ≠ [] → twosVal bs' = twosVal bs → bs.length ≤ bs'.length := by
  match bs with
  | [] => simp [checkASN1Integer]
  | [a] =>
    simp only [checkASN1Integer, ne_eq, List.cons_ne_self, not_false_eq_true, List.length_cons,
      List.length_nil, true_and, true_iff, reduceCtorEq]
    intro bs' hne _
    cases bs' with
    | nil => exact absurd rfl hne
    | cons c r => simp
  | b0 :: b1 :: rest =>
    constructor
    · intro h
      refine ⟨by simp, ?_⟩
      intro bs' hne hv
      cases bs' with
      | nil => exact absurd rfl hne
      | cons c0 rest' =>
        by_cases hlen : rest'.length ≤ rest.length
        · exfalso
          have hA := twosVal_range c0 rest'
          have hB := twosVal_minimal_big b0 b1 rest h
          rw [hv] at hA
          have hmono : (256 ^ rest'.length : Nat) ≤ 256 ^ rest.length := Nat.pow_le_pow_right (by decide) hlen
          generalize twosVal (b0 :: b1 :: rest) = v at *
          generalize (256 ^ rest'.length : Nat) = P' at *
          generalize (256 ^ rest.length : Nat) = P at *
          omega
        · simp only [List.length_cons]; omega
    · intro ⟨_, h⟩
      by_cases hc : checkASN1Integer (b0 :: b1 :: rest) = true
      · exact hc
      · have hC := twosVal_redundant b0 b1 rest (by simpa using hc)
        have := h (b1 :: rest) (by simp) hC.symm
        simp only [List.length_cons] at this
        omega

/-- the accepted encoding of a value is unique -/
theorem checkASN1Integer_unique (a b : Bytes) (ha : checkASN1Integer a = true) (hb : checkASN1Integer b = true)
    (hv : twosVal a = twosVal b) : a.length = b.length := by
  obtain ⟨ha0, ha1⟩ := (checkASN1Integer_iff_shortest a).mp ha
  obtain ⟨hb0, hb1⟩ := (checkASN1Integer_iff_shortest b).mp hb
  have := ha1 b hb0 hv.symm
  have := hb1 a ha0 hv
  omega

/-- `asn1Signed`'s length limit is exactly the int64 range (for minimal contents) -/
theorem int64_range_iff (bs : Bytes) (h : checkASN1Integer bs = true) :
    bs.length ≤ 8 ↔ (-(2 : Int) ^ 63 ≤ twosVal bs ∧ twosVal bs < (2 : Int) ^ 63) := by
  match bs, h with
  | [a], _ =>
    have := twosVal_range a []
    simp only [List.length_nil, Nat.pow_zero] at this
    simp only [List.length_cons, List.length_nil]
    constructor
    · intro _; omega
    · intro _; omega
  | b0 :: b1 :: rest, h =>
    have hA := twosVal_range b0 (b1 :: rest)
    have hB := twosVal_minimal_big b0 b1 rest h
    rw [List.length_cons, cast_pow_succ] at hA
    simp only [List.length_cons]
    generalize twosVal (b0 :: b1 :: rest) = v at *
    constructor
    · intro hl
      have hmono : (256 ^ rest.length : Nat) ≤ 256 ^ 6 := Nat.pow_le_pow_right (by decide) (by omega)
      generalize (256 ^ rest.length : Nat) = P at *
      omega
    · intro hr
      by_cases hl : rest.length ≤ 6
      · omega
      · exfalso
        have hmono : (256 ^ 7 : Nat) ≤ 256 ^ rest.length := Nat.pow_le_pow_right (by decide) (by omega)
        generalize (256 ^ rest.length : Nat) = P at *
        omega



/-- ReadASN1Integer(*int64) accepts exactly: an INTEGER element whose contents are the shortest
    two's-complement form of a value in the int64 range, and returns that value -/
theorem readInt64_iff (s r : Bytes) (v : Int) :
    readSigned 64 s = some (v, r) ↔
      ∃ body, readASN1Tag 2 s = some (body, r) ∧ checkASN1Integer body = true ∧ twosVal body = v ∧
        -(2 : Int) ^ 63 ≤ v ∧ v < (2 : Int) ^ 63 := by
  unfold readSigned readInt64Tag readIntBody asn1Signed
  constructor
  · intro h
    cases hr : readASN1Tag 2 s with
    | none => simp [hr] at h
    | some p =>
      obtain ⟨b, r'⟩ := p
      simp only [hr] at h
      by_cases hc : checkASN1Integer b = true
      · simp only [hc, if_true] at h
        by_cases hl : b.length > 8
        · simp [hl] at h
        · simp only [hl, if_false, Option.map_some] at h
          have hrange := (int64_range_iff b hc).mp (by omega)
          split at h
          · simp at h
          · simp only [Option.some.injEq, Prod.mk.injEq] at h
            obtain ⟨h1, h2⟩ := h
            subst h1 h2
            exact ⟨b, rfl, hc, rfl, hrange.1, hrange.2⟩
      · simp [hc] at h
  · rintro ⟨body, hr, hc, hv, h1, h2⟩
    have hl := (int64_range_iff body hc).mpr (by rw [hv]; exact ⟨h1, h2⟩)
    simp only [hr, hc, if_true, show ¬ body.length > 8 by omega, if_false, Option.map_some, hv]
    have : ¬ ((decide (v < -(2 : Int) ^ (64 - 1)) || decide (v ≥ (2 : Int) ^ (64 - 1))) = true) := by
      simp only [Bool.or_eq_true, decide_eq_true_eq, not_or]
      constructor <;> omega
    rw [if_neg this]


/-! ### builder → reader round trips -/

theorem addASN1_read (t : UInt8) (body out rest : Bytes) (h : addASN1 t body = some out)
    (hn : body.length ≤ 0xfffffff9) : readASN1Tag t (out ++ rest) = some (body, rest) := by
  unfold addASN1 at h
  by_cases ht : (t &&& 0x1f == 0x1f) = true
  · simp [ht] at h
  · by_cases hl : body.length > 0xfffffffe
    · simp [ht, hl] at h
    · simp only [ht, hl, if_false, Bool.false_eq_true, Option.some.injEq] at h
      subst h
      have := readASN1Tag_der t body rest (by simpa using ht) hn
      simpa [List.append_assoc] using this

/-- AddASN1OctetString / ReadASN1Bytes(OCTET_STRING) -/
theorem octet_roundtrip (bs out rest : Bytes) (h : addOctetString bs = some out) (hn : bs.length ≤ 0xfffffff9) :
    readASN1Tag 4 (out ++ rest) = some (bs, rest) := addASN1_read 4 bs out rest h hn

/-- AddASN1Boolean / ReadASN1Boolean -/
theorem bool_roundtrip (v : Bool) (out rest : Bytes) (h : addBool v = some out) :
    readBool (out ++ rest) = some (v, rest) := by
  have := addASN1_read 1 _ out rest h (by simp)
  cases v <;> simp [readBool, this]

/-- AddASN1NULL / ReadASN1(NULL) -/
theorem null_roundtrip (rest : Bytes) : readASN1Tag 5 (addNull ++ rest) = some ([], rest) := by
  have := readASN1Tag_der 5 [] rest (by decide) (by simp)
  simpa [derLen, addNull] using this

/-- AddASN1BitString / ReadASN1BitString (whole bytes, zero padding bits) -/
theorem bitstring_roundtrip (bs out rest : Bytes) (h : addBitString bs = some out) (hn : bs.length < 0xfffffff9) :
    readBitString (out ++ rest) = some ((bs.length * 8, bs), rest) := by
  have := addASN1_read 3 (0 :: bs) out rest h (by simp; omega)
  simp only [readBitString, this]
  cases hl : bs.getLast? with
  | none =>
    have : bs = [] := by simpa using hl
    simp [this]
  | some last => simp

/-! ### BOOLEAN: exactly 01 01 00 / 01 01 ff -/

theorem bool_iff_partial (s rest : Bytes) (v : Bool) :
    s = [1, 1, (if v then 0xff else 0)] ++ rest → readBool s = some (v, rest) := by
  intro h
  subst h
  have := bool_roundtrip v [1, 1, (if v then 0xff else 0)] rest (by cases v <;> decide)
  simpa using this

/-- only 0x00 and 0xff are accepted as BOOLEAN contents -/
theorem bool_contents (s : Bytes) (v : Bool) (rest : Bytes) (h : readBool s = some (v, rest)) :
    ∃ b, readASN1Tag 1 s = some ([b], rest) ∧ (b = 0 ∧ v = false ∨ b = 0xff ∧ v = true) := by
  unfold readBool at h
  split at h
  · rename_i b r heq
    refine ⟨b, ?_, ?_⟩
    · by_cases h0 : (b == 0) = true
      · simp [h0] at h; rw [heq, h.2]
      · by_cases h1 : (b == 0xff) = true
        · simp [h0, h1] at h; rw [heq, h.2]
        · simp [h0, h1] at h
    · by_cases h0 : (b == 0) = true
      · simp [h0] at h; left; exact ⟨by simpa using h0, h.1⟩
      · by_cases h1 : (b == 0xff) = true
        · simp [h0, h1] at h; right; exact ⟨by simpa using h1, h.1⟩
        · simp [h0, h1] at h
  · simp at h

/-! ### OID: a sub-identifier must not start with 0x80 -/

theorem base128_no_0x80_lead (fuel : Nat) (s : Bytes) : readBase128 fuel true 0 (0x80 :: s) = none := by
  cases fuel <;> simp [readBase128]

end XC.C23
