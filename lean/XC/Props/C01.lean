/-
  C01 — ChaCha20-Poly1305 / XChaCha20-Poly1305 compute the RFC 8439 AEAD.

  Statement: for every 32-byte key, nonce, plaintext and additional data, Seal returns dst followed by exactly
  the RFC 8439 ciphertext and tag (XChaCha20-Poly1305 per draft-irtf-cfrg-xchacha for 24-byte nonces); Open of
  that output with the same key, nonce and additional data returns the plaintext appended to dst.

  `sealSpec` is the RFC construction over the RFC block function (`XC.C03.block`) and the arithmetic
  definition of Poly1305 (`XC.C04.tagSpec`); `aeadSeal`/`aeadOpen`/`xaeadSeal`/`xaeadOpen` are the Go-shaped
  exported methods over the limb-level Poly1305 MAC object.  Slice lengths are below 2^64 in Go (`int`), which
  is the only side condition.
-/
import XC.Proofs.C01
namespace XC.C01

/-- `Seal` = `dst ‖ RFC 8439 AEAD(key, nonce, pt, ad)` whenever it does not panic -/
theorem seal_eq_spec (key nonce dst pt ad : Bytes) (hn : nonce.length = 12) (hp : pt.length ≤ maxPlaintext)
    (ha : ad.length < 2 ^ 64) :
    aeadSeal key nonce dst pt ad = some (dst ++ sealSpec key nonce pt ad) := by
  have hp' : pt.length < 2 ^ 64 := by simp only [maxPlaintext] at hp; omega
  simp only [aeadSeal, hn, bne_self_eq_false, Bool.false_eq_true, if_false]
  rw [if_neg (by omega)]
  exact sealGeneric_eq_spec key nonce dst pt ad ha hp'

/-- `Seal` panics exactly on a wrong nonce length or an over-long plaintext -/
theorem seal_panics_iff (key nonce dst pt ad : Bytes) (ha : ad.length < 2 ^ 64) :
    aeadSeal key nonce dst pt ad = none ↔ nonce.length ≠ 12 ∨ pt.length > maxPlaintext := by
  by_cases hn : nonce.length = 12
  · by_cases hp : pt.length ≤ maxPlaintext
    · rw [seal_eq_spec key nonce dst pt ad hn hp ha]; simp [hn]; omega
    · simp [aeadSeal, hn, hp]; omega
  · simp [aeadSeal, hn]

theorem sealSpec_length (key nonce pt ad : Bytes) : (sealSpec key nonce pt ad).length = pt.length + 16 := by
  simp [sealSpec, xorStream_length, C04.tagSpec_length]

/-- `len(Seal(dst, …)) = len(dst) + len(pt) + Overhead` -/
theorem seal_length (key nonce dst pt ad r : Bytes) (h : aeadSeal key nonce dst pt ad = some r)
    (ha : ad.length < 2 ^ 64) : r.length = dst.length + pt.length + 16 := by
  by_cases hn : nonce.length = 12
  · by_cases hp : pt.length ≤ maxPlaintext
    · rw [seal_eq_spec key nonce dst pt ad hn hp ha] at h
      injection h with h; subst h
      simp [sealSpec_length]; omega
    · simp [aeadSeal, hn, hp] at h
  · simp [aeadSeal, hn] at h

/-- `Open(dst, nonce, Seal-output, ad)` returns `dst ‖ pt` -/
theorem open_seal (key nonce dst pt ad : Bytes) (hn : nonce.length = 12) (hp : pt.length ≤ maxPlaintext)
    (ha : ad.length < 2 ^ 64) :
    aeadOpen key nonce dst (sealSpec key nonce pt ad) ad = .ok (dst ++ pt) := by
  have hl := sealSpec_length key nonce pt ad
  simp only [maxPlaintext] at hp
  simp only [aeadOpen, hn, bne_self_eq_false, Bool.false_eq_true, if_false, hl, maxCiphertext]
  rw [if_neg (by omega), if_neg (by omega), openGeneric_eq _ _ _ _ _ ha (by omega)]
  simp only [hl]
  have hct : (C03.xorStream key nonce 1 pt).length = pt.length := xorStream_length ..
  have e1 : pt.length + 16 - 16 = pt.length := by omega
  simp only [e1, sealSpec]
  rw [← hct, List.take_left, List.drop_left]
  simp [xorStream_involutive]

/-- non-vacuity: a concrete Seal / Open pair with a dst prefix, a 3-byte message and a 13-byte ad -/
example : aeadSeal (zeros 32) (zeros 12) [9] [1, 2, 3] (zeros 13) = some ([9] ++ sealSpec (zeros 32) (zeros 12) [1, 2, 3] (zeros 13)) ∧
    aeadOpen (zeros 32) (zeros 12) [9] (sealSpec (zeros 32) (zeros 12) [1, 2, 3] (zeros 13)) (zeros 13) = .ok [9, 1, 2, 3] :=
  ⟨seal_eq_spec _ _ _ _ _ (by simp [zeros]) (by simp [maxPlaintext]) (by simp [zeros]),
   open_seal _ _ _ _ _ (by simp [zeros]) (by simp [maxPlaintext]) (by simp [zeros])⟩

/-- both panic conditions of `seal_panics_iff` occur: a 13-byte nonce panics -/
example : aeadSeal (zeros 32) (zeros 13) [] [] [] = none :=
  (seal_panics_iff _ _ _ _ _ (by simp)).mpr (Or.inl (by simp [zeros]))

example : aeadSeal (zeros 32) (zeros 12) [] [] [] ≠ none := by
  rw [seal_eq_spec _ _ _ _ _ (by simp [zeros]) (by simp [maxPlaintext]) (by simp)]; simp

/-! ### XChaCha20-Poly1305 -/

theorem xseal_eq_spec (key nonce dst pt ad : Bytes) (hn : nonce.length = 24) (hp : pt.length ≤ maxPlaintext)
    (ha : ad.length < 2 ^ 64) :
    xaeadSeal key nonce dst pt ad = some (dst ++ xsealSpec key nonce pt ad) := by
  have hp' : pt.length < 2 ^ 64 := by simp only [maxPlaintext] at hp; omega
  simp only [xaeadSeal, hn, bne_self_eq_false, Bool.false_eq_true, if_false]
  rw [if_neg (by omega)]
  exact sealGeneric_eq_spec _ _ dst pt ad ha hp'

theorem xseal_panics_iff (key nonce dst pt ad : Bytes) (ha : ad.length < 2 ^ 64) :
    xaeadSeal key nonce dst pt ad = none ↔ nonce.length ≠ 24 ∨ pt.length > maxPlaintext := by
  by_cases hn : nonce.length = 24
  · by_cases hp : pt.length ≤ maxPlaintext
    · rw [xseal_eq_spec key nonce dst pt ad hn hp ha]; simp [hn]; omega
    · simp [xaeadSeal, hn, hp]; omega
  · simp [xaeadSeal, hn]

theorem xopen_xseal (key nonce dst pt ad : Bytes) (hn : nonce.length = 24) (hp : pt.length ≤ maxPlaintext)
    (ha : ad.length < 2 ^ 64) :
    xaeadOpen key nonce dst (xsealSpec key nonce pt ad) ad = .ok (dst ++ pt) := by
  have h := open_seal (C03.xkey key nonce) (C03.xnonce nonce) dst pt ad (by simp [C03.xnonce, zeros, hn]) hp ha
  have hl := sealSpec_length (C03.xkey key nonce) (C03.xnonce nonce) pt ad
  simp only [maxPlaintext] at hp
  simp only [aeadOpen, xaeadOpen, xsealSpec, hl, maxCiphertext] at h ⊢
  rw [if_neg (by simp [C03.xnonce, zeros, hn]), if_neg (by omega), if_neg (by omega)] at h
  rw [if_neg (by simp [hn]), if_neg (by omega), if_neg (by omega)]
  exact h

example : xaeadSeal (zeros 32) (zeros 24) [9] [1, 2, 3] [5] = some ([9] ++ xsealSpec (zeros 32) (zeros 24) [1, 2, 3] [5]) ∧
    xaeadOpen (zeros 32) (zeros 24) [9] (xsealSpec (zeros 32) (zeros 24) [1, 2, 3] [5]) [5] = .ok [9, 1, 2, 3] :=
  ⟨xseal_eq_spec _ _ _ _ _ (by simp [zeros]) (by simp [maxPlaintext]) (by simp),
   xopen_xseal _ _ _ _ _ (by simp [zeros]) (by simp [maxPlaintext]) (by simp)⟩

end XC.C01
