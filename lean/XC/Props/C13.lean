/-
  C13 — XTS = IEEE 1619 (no ciphertext stealing), inverts, panics exactly on bad geometry.
  All theorems are over abstract block functions E1 / D1 / E2.
-/
import XC.Model.C13
import XC.Proofs.C13
namespace XC.C13

/-- the byte loop with carry and 0x87 feedback is multiplication by x in GF(2^128)/(x^128+x^7+x^2+x+1)
    on the little-endian integer of the 16 tweak bytes -/
theorem mul2_eq_gf (t : Bytes) (ht : t.length = 16) : natOfLE (mul2 t) = gfDouble (natOfLE t) :=
  mul2_eq_gfDouble t ht

example : gfDouble (2 ^ 127) = 0x87 := by decide
example : gfDouble 1 = 2 := by decide

/-- the loop, started at any 16-byte tweak that equals `T0 · x^j`, produces the IEEE formula from
    block index j on -/
theorem loop_eq_spec (f E2 : Bytes → Bytes) (sector : UInt64) (ps : List Bytes) (tw : Bytes) (j : Nat)
    (hl : tw.length = 16) (ht : natOfLE tw = gfPow j (natOfLE (initTweak E2 sector))) :
    loop f ps tw = specFrom f E2 sector j ps := by
  induction ps generalizing tw j with
  | nil => rfl
  | cons p ps ih =>
    have htw : tweakAt E2 sector j = tw := by
      unfold tweakAt
      rw [← ht, ← hl, natToLE_natOfLE]
    simp only [loop, specFrom, htw]
    congr 1
    apply ih
    · rw [mul2_length, hl]
    · rw [mul2_eq_gfDouble tw hl, ht, gfPow_succ]

/-- tweak of block j = E2(sector) · x^j -/
theorem tweak_j (E2 : Bytes → Bytes) (sector : UInt64) (hE2 : ∀ x, (E2 x).length = 16) (j : Nat) :
    natOfLE (Nat.rec (initTweak E2 sector) (fun _ t => mul2 t) j) = gfPow j (natOfLE (initTweak E2 sector))
    ∧ (Nat.rec (initTweak E2 sector) (fun _ t => mul2 t) j : Bytes).length = 16 := by
  induction j with
  | zero => exact ⟨rfl, hE2 _⟩
  | succ j ih =>
    obtain ⟨a, b⟩ := ih
    refine ⟨?_, by simp only; rw [mul2_length]; exact b⟩
    simp only
    rw [mul2_eq_gfDouble _ b, a, gfPow_succ]

/-- Encrypt (when it does not panic) is IEEE 1619 XTS without ciphertext stealing:
    C_j = E1(P_j ⊕ T_j) ⊕ T_j,  T_j = E2(sector) ⊗ α^j — for every length -/
theorem encrypt_eq_ieee1619 (E1 E2 : Bytes → Bytes) (hE2 : ∀ x, (E2 x).length = 16)
    (dstLen : Nat) (ovl : Option Int) (src : Bytes) (sector : UInt64) (out : Bytes)
    (h : encrypt E1 E2 dstLen ovl src sector = .ok out) : out = ieee1619 E1 E2 sector src := by
  unfold encrypt at h
  split at h; · cases h
  split at h; · cases h
  split at h; · cases h
  injection h with h
  rw [← h]
  exact loop_eq_spec E1 E2 sector _ _ 0 (hE2 _) rfl

theorem decrypt_eq_ieee1619 (D1 E2 : Bytes → Bytes) (hE2 : ∀ x, (E2 x).length = 16)
    (dstLen : Nat) (ovl : Option Int) (src : Bytes) (sector : UInt64) (out : Bytes)
    (h : decrypt D1 E2 dstLen ovl src sector = .ok out) : out = ieee1619 D1 E2 sector src := by
  unfold decrypt at h
  split at h; · cases h
  split at h; · cases h
  split at h; · cases h
  injection h with h
  rw [← h]
  exact loop_eq_spec D1 E2 sector _ _ 0 (hE2 _) rfl

/-- block-list form of the round trip: decrypting the chunked output of the encryption loop with the
    same starting tweak gives the blocks back -/
theorem loop_inv (E1 D1 : Bytes → Bytes) (hD : ∀ x, x.length = 16 → D1 (E1 x) = x)
    (hL : ∀ x, x.length = 16 → (E1 x).length = 16)
    (ps : List Bytes) (tw : Bytes) (hp : ∀ p ∈ ps, p.length = 16) (ht : tw.length = 16) :
    loop D1 (chunks 16 (loop E1 ps tw)) tw = ps.flatten ∧ (loop E1 ps tw).length = 16 * ps.length := by
  induction ps generalizing tw with
  | nil => simp [loop, chunks_nil]
  | cons p ps ih =>
    have hp16 : p.length = 16 := hp p (by simp)
    have hx : (xorBytes p tw).length = 16 := by simp [xorBytes_length, hp16, ht]
    have hc : (xorBytes (E1 (xorBytes p tw)) tw).length = 16 := by
      simp [xorBytes_length, hL _ hx, ht]
    obtain ⟨i1, i2⟩ := ih (mul2 tw) (fun q hq => hp q (by simp [hq])) (by rw [mul2_length, ht])
    simp only [loop]
    rw [chunks_append 16 (by decide) _ _ hc]
    simp only [loop, List.flatten_cons]
    rw [xorBytes_cancel _ tw (by rw [hL _ hx, ht]), hD _ hx, xorBytes_cancel p tw (by rw [hp16, ht]), i1]
    refine ⟨rfl, ?_⟩
    rw [List.length_append, hc, i2, List.length_cons]; omega

/-- Decrypt ∘ Encrypt = id for every plaintext whose length is a multiple of 16 (any number of
    blocks), given only that D1 inverts E1 on 16-byte blocks -/
theorem decrypt_encrypt (E1 D1 E2 : Bytes → Bytes) (hD : ∀ x, x.length = 16 → D1 (E1 x) = x)
    (hL : ∀ x, x.length = 16 → (E1 x).length = 16) (hE2 : ∀ x, (E2 x).length = 16)
    (src : Bytes) (sector : UInt64) (hs : src.length % 16 = 0) :
    ∃ ct, encrypt E1 E2 src.length none src sector = .ok ct ∧ ct.length = src.length ∧
      decrypt D1 E2 ct.length none ct sector = .ok src := by
  have hk : src.length = (src.length / 16) * 16 := by omega
  obtain ⟨f1, f2⟩ := chunks_spec 16 (by decide) src _ hk
  obtain ⟨i1, i2⟩ := loop_inv E1 D1 hD hL (chunks 16 src) (initTweak E2 sector) f2 (hE2 _)
  have hlen : (loop E1 (chunks 16 src) (initTweak E2 sector)).length = src.length := by
    rw [i2]
    have : (chunks 16 src).flatten.length = 16 * (chunks 16 src).length := by
      generalize chunks 16 src = cs at f2
      induction cs with
      | nil => rfl
      | cons c cs ih =>
        simp only [List.flatten_cons, List.length_append, List.length_cons]
        rw [ih (fun q hq => f2 q (by simp [hq])), f2 c (by simp)]; omega
    rw [← this, f1]
  refine ⟨loop E1 (chunks 16 src) (initTweak E2 sector), ?_, hlen, ?_⟩
  · simp [encrypt, hs, inexactOverlap]
  · rw [hlen]
    simp only [decrypt, hlen, hs, inexactOverlap]
    simp [i1, f1]

example : ∃ ct, encrypt id id 32 none (zeros 32) 7 = .ok ct := ⟨_, rfl⟩

/-- Encrypt panics exactly for: dst shorter than src, length not a multiple of 16, or inexact overlap
    of dst[:len(src)] and src; otherwise it returns exactly len(src) bytes … -/
theorem encrypt_panic_iff (E1 E2 : Bytes → Bytes) (dstLen : Nat) (ovl : Option Int) (src : Bytes) (sector : UInt64) :
    encrypt E1 E2 dstLen ovl src sector = .panic ↔
      dstLen < src.length ∨ src.length % 16 ≠ 0 ∨ inexactOverlap src.length ovl = true := by
  unfold encrypt
  by_cases h1 : dstLen < src.length
  · simp [h1]
  · by_cases h2 : src.length % 16 = 0
    · by_cases h3 : inexactOverlap src.length ovl = true
      · simp [h1, h2, h3]
      · simp [h1, h2, h3]
    · simp [h1, h2]

theorem decrypt_panic_iff (D1 E2 : Bytes → Bytes) (dstLen : Nat) (ovl : Option Int) (src : Bytes) (sector : UInt64) :
    decrypt D1 E2 dstLen ovl src sector = .panic ↔
      dstLen < src.length ∨ src.length % 16 ≠ 0 ∨ inexactOverlap src.length ovl = true := by
  unfold decrypt
  by_cases h1 : dstLen < src.length
  · simp [h1]
  · by_cases h2 : src.length % 16 = 0
    · by_cases h3 : inexactOverlap src.length ovl = true
      · simp [h1, h2, h3]
      · simp [h1, h2, h3]
    · simp [h1, h2]

/-- in place (offset 0) and separate buffers never count as inexact overlap; two windows of one
    buffer overlap inexactly iff their offsets differ by less than the length -/
theorem inexactOverlap_iff (n : Nat) (d : Int) :
    inexactOverlap n (some d) = true ↔ d ≠ 0 ∧ d.natAbs < n := by
  unfold inexactOverlap
  by_cases hn : n = 0
  · subst hn; simp
  · simp [hn]

/-- the toy block cipher of the harness really is a permutation with `dec` as inverse (so the
    round-trip theorem applies to the toy runs) -/
theorem toy_dec_enc_byte (x k : UInt8) : ((((x ^^^ k) * 5 + 17) - 17) * 205) ^^^ k = x := by
  have h : (((x ^^^ k) * 5 + 17) - 17) * 205 = x ^^^ k := by
    rw [UInt8.add_sub_cancel, UInt8.mul_assoc]
    have : (5 : UInt8) * 205 = 1 := by decide
    rw [this, UInt8.mul_one]
  rw [h, UInt8.xor_assoc, UInt8.xor_self, UInt8.xor_zero]

end XC.C13
