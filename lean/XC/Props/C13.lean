/-
  C13 — XTS = IEEE 1619 (no ciphertext stealing), inverts, panics exactly on bad geometry.
  All theorems are over abstract block functions E1 / D1 / E2.
-/
import XC.Model.C13
import XC.Proofs.C13
import XC.Proofs.C13_MemXts
namespace XC.C13

/-- the byte loop with carry and 0x87 feedback is multiplication by x in GF(2^128)/(x^128+x^7+x^2+x+1)
    on the little-endian integer of the 16 tweak bytes -/
theorem mul2_eq_gf (t : Bytes) (ht : t.length = 16) : natOfLE (mul2 t) = gfDouble (natOfLE t) :=
  mul2_eq_gfDouble t ht

example : gfDouble (2 ^ 127) = 0x87 := by decide
example : gfDouble 1 = 2 := by decide

/-- the loop, started at any 16-byte tweak that equals `T0 · x^j`, produces the IEEE formula from
    block index j on -/
theorem loop_eq_spec (f E2 : Bytes → Bytes) (sector : UInt64) (ps : List Bytes) (tw : Bytes) (j : Nat)
    (hl : tw.length = 16) (ht : natOfLE tw = gfPow j (natOfLE (initTweak E2 sector))) :
    loop f ps tw = specFrom f E2 sector j ps := by
  induction ps generalizing tw j with
  | nil => rfl
  | cons p ps ih =>
    have htw : tweakAt E2 sector j = tw := by
      unfold tweakAt
      rw [← ht, ← hl, natToLE_natOfLE]
    simp only [loop, specFrom, htw]
    congr 1
    apply ih
    · rw [mul2_length, hl]
    · rw [mul2_eq_gfDouble tw hl, ht, gfPow_succ]

/-- tweak of block j = E2(sector) · x^j -/
theorem tweak_j (E2 : Bytes → Bytes) (sector : UInt64) (hE2 : ∀ x, (E2 x).length = 16) (j : Nat) :
    natOfLE (Nat.rec (initTweak E2 sector) (fun _ t => mul2 t) j) = gfPow j (natOfLE (initTweak E2 sector))
    ∧ (Nat.rec (initTweak E2 sector) (fun _ t => mul2 t) j : Bytes).length = 16 := by
  induction j with
  | zero => exact ⟨rfl, hE2 _⟩
  | succ j ih =>
    obtain ⟨a, b⟩ := ih
    refine ⟨?_, by simp only; rw [mul2_length]; exact b⟩
    simp only
    rw [mul2_eq_gfDouble _ b, a, gfPow_succ]

/-- Encrypt (when it does not panic) is IEEE 1619 XTS without ciphertext stealing:
    C_j = E1(P_j ⊕ T_j) ⊕ T_j,  T_j = E2(sector) ⊗ α^j — for every length -/
theorem encrypt_eq_ieee1619 (E1 E2 : Bytes → Bytes) (hE2 : ∀ x, (E2 x).length = 16)
    (dstLen : Nat) (ovl : Option Int) (src : Bytes) (sector : UInt64) (out : Bytes)
    (h : encrypt E1 E2 dstLen ovl src sector = .ok out) : out = ieee1619 E1 E2 sector src := by
  unfold encrypt at h
  split at h; · cases h
  split at h; · cases h
  split at h; · cases h
  injection h with h
  rw [← h]
  exact loop_eq_spec E1 E2 sector _ _ 0 (hE2 _) rfl

theorem decrypt_eq_ieee1619 (D1 E2 : Bytes → Bytes) (hE2 : ∀ x, (E2 x).length = 16)
    (dstLen : Nat) (ovl : Option Int) (src : Bytes) (sector : UInt64) (out : Bytes)
    (h : decrypt D1 E2 dstLen ovl src sector = .ok out) : out = ieee1619 D1 E2 sector src := by
  unfold decrypt at h
  split at h; · cases h
  split at h; · cases h
  split at h; · cases h
  injection h with h
  rw [← h]
  exact loop_eq_spec D1 E2 sector _ _ 0 (hE2 _) rfl

/-- block-list form of the round trip: decrypting the chunked output of the encryption loop with the
    same starting tweak gives the blocks back -/
theorem loop_inv (E1 D1 : Bytes → Bytes) (hD : ∀ x, x.length = 16 → D1 (E1 x) = x)
    (hL : ∀ x, x.length = 16 → (E1 x).length = 16)
    (ps : List Bytes) (tw : Bytes) (hp : ∀ p ∈ ps, p.length = 16) (ht : tw.length = 16) :
    loop D1 (chunks 16 (loop E1 ps tw)) tw = ps.flatten ∧ (loop E1 ps tw).length = 16 * ps.length := by
  induction ps generalizing tw with
  | nil => simp [loop, chunks_nil]
  | cons p ps ih =>
    have hp16 : p.length = 16 := hp p (by simp)
    have hx : (xorBytes p tw).length = 16 := by simp [xorBytes_length, hp16, ht]
    have hc : (xorBytes (E1 (xorBytes p tw)) tw).length = 16 := by
      simp [xorBytes_length, hL _ hx, ht]
    obtain ⟨i1, i2⟩ := ih (mul2 tw) (fun q hq => hp q (by simp [hq])) (by rw [mul2_length, ht])
    simp only [loop]
    rw [chunks_append 16 (by decide) _ _ hc]
    simp only [loop, List.flatten_cons]
    rw [xorBytes_cancel _ tw (by rw [hL _ hx, ht]), hD _ hx, xorBytes_cancel p tw (by rw [hp16, ht]), i1]
    refine ⟨rfl, ?_⟩
    rw [List.length_append, hc, i2, List.length_cons]; omega

/-- Decrypt ∘ Encrypt = id for every plaintext whose length is a multiple of 16 (any number of
    blocks), given only that D1 inverts E1 on 16-byte blocks -/
theorem decrypt_encrypt (E1 D1 E2 : Bytes → Bytes) (hD : ∀ x, x.length = 16 → D1 (E1 x) = x)
    (hL : ∀ x, x.length = 16 → (E1 x).length = 16) (hE2 : ∀ x, (E2 x).length = 16)
    (src : Bytes) (sector : UInt64) (hs : src.length % 16 = 0) :
    ∃ ct, encrypt E1 E2 src.length none src sector = .ok ct ∧ ct.length = src.length ∧
      decrypt D1 E2 ct.length none ct sector = .ok src := by
  have hk : src.length = (src.length / 16) * 16 := by omega
  obtain ⟨f1, f2⟩ := chunks_spec 16 (by decide) src _ hk
  obtain ⟨i1, i2⟩ := loop_inv E1 D1 hD hL (chunks 16 src) (initTweak E2 sector) f2 (hE2 _)
  have hlen : (loop E1 (chunks 16 src) (initTweak E2 sector)).length = src.length := by
    rw [i2]
    have : (chunks 16 src).flatten.length = 16 * (chunks 16 src).length := by
      generalize chunks 16 src = cs at f2
      induction cs with
      | nil => rfl
      | cons c cs ih =>
        simp only [List.flatten_cons, List.length_append, List.length_cons]
        rw [ih (fun q hq => f2 q (by simp [hq])), f2 c (by simp)]; omega
    rw [← this, f1]
  refine ⟨loop E1 (chunks 16 src) (initTweak E2 sector), ?_, hlen, ?_⟩
  · simp [encrypt, hs, inexactOverlap]
  · rw [hlen]
    simp only [decrypt, hlen, hs, inexactOverlap]
    simp [i1, f1]

example : ∃ ct, encrypt id id 32 none (zeros 32) 7 = .ok ct := ⟨_, rfl⟩

/-- Encrypt panics exactly for: dst shorter than src, length not a multiple of 16, or inexact overlap
    of dst[:len(src)] and src; otherwise it returns exactly len(src) bytes … -/
theorem encrypt_panic_iff (E1 E2 : Bytes → Bytes) (dstLen : Nat) (ovl : Option Int) (src : Bytes) (sector : UInt64) :
    encrypt E1 E2 dstLen ovl src sector = .panic ↔
      dstLen < src.length ∨ src.length % 16 ≠ 0 ∨ inexactOverlap src.length ovl = true := by
  unfold encrypt
  by_cases h1 : dstLen < src.length
  · simp [h1]
  · by_cases h2 : src.length % 16 = 0
    · by_cases h3 : inexactOverlap src.length ovl = true
      · simp [h1, h2, h3]
      · simp [h1, h2, h3]
    · simp [h1, h2]

theorem decrypt_panic_iff (D1 E2 : Bytes → Bytes) (dstLen : Nat) (ovl : Option Int) (src : Bytes) (sector : UInt64) :
    decrypt D1 E2 dstLen ovl src sector = .panic ↔
      dstLen < src.length ∨ src.length % 16 ≠ 0 ∨ inexactOverlap src.length ovl = true := by
  unfold decrypt
  by_cases h1 : dstLen < src.length
  · simp [h1]
  · by_cases h2 : src.length % 16 = 0
    · by_cases h3 : inexactOverlap src.length ovl = true
      · simp [h1, h2, h3]
      · simp [h1, h2, h3]
    · simp [h1, h2]

/-- in place (offset 0) and separate buffers never count as inexact overlap; two windows of one
    buffer overlap inexactly iff their offsets differ by less than the length -/
theorem inexactOverlap_iff (n : Nat) (d : Int) :
    inexactOverlap n (some d) = true ↔ d ≠ 0 ∧ d.natAbs < n := by
  unfold inexactOverlap
  by_cases hn : n = 0
  · subst hn; simp
  · simp [hn]

/-! ## memory model: in place = out of place, overlap panic -/

theorem inexactOverlapSl_iff (d s n : Nat) :
    inexactOverlapSl ⟨d, n⟩ ⟨s, n⟩ = true ↔ n ≠ 0 ∧ d ≠ s ∧ d < s + n ∧ s < d + n := by
  unfold inexactOverlapSl
  by_cases hn : n = 0
  · subst hn; simp
  · by_cases hds : d = s
    · subst hds; simp
    · simp only [hn, hds, Bool.or_self, Bool.false_eq_true, if_false, Bool.and_eq_true, decide_eq_true_eq]
      omega

/-- the arena version panics under exactly the same conditions as the functional model, the overlap
    condition being `alias.InexactOverlap(dst[:len(src)], src)` on the two windows -/
theorem cryptMem_panic_iff (f E2 : Bytes → Bytes) (mem : Bytes) (dst src : Sl) (sector : UInt64) :
    cryptMem f E2 mem dst src sector = .panic ↔
      dst.len < src.len ∨ src.len % 16 ≠ 0 ∨
        (src.len ≠ 0 ∧ dst.off ≠ src.off ∧ dst.off < src.off + src.len ∧ src.off < dst.off + src.len) := by
  unfold cryptMem
  rw [← inexactOverlapSl_iff]
  by_cases h1 : dst.len < src.len
  · simp [h1]
  · by_cases h2 : src.len % 16 = 0
    · by_cases h3 : inexactOverlapSl ⟨dst.off, src.len⟩ ⟨src.off, src.len⟩ = true
      · simp [h1, h2, h3]
      · simp [h1, h2, h3]
    · simp [h1, h2]

/-- **in place = out of place** (f = E1 for Encrypt, D1 for Decrypt): whenever the call on the arena does
    not panic — dst[:n] and src are the same window or do not overlap — the arena afterwards is the
    arena before with dst[:n] replaced by the result of the functional model on a separate copy of src.
    Block j is read before block j is written; the pooled tweak array is not part of the arena. -/
theorem xts_inplace_eq (f E2 : Bytes → Bytes) (hf : ∀ x, x.length = 16 → (f x).length = 16)
    (hE2 : ∀ x, (E2 x).length = 16) (mem : Bytes) (dst src : Sl) (sector : UInt64) (mem' : Bytes)
    (hd : dst.off + dst.len ≤ mem.length) (hs : src.off + src.len ≤ mem.length)
    (h : cryptMem f E2 mem dst src sector = .ok mem') :
    ∃ out, encrypt f E2 dst.len none (Mem.rd mem src.off src.len) sector = .ok out ∧
      out.length = src.len ∧ mem' = Mem.wr mem dst.off out ∧ Mem.rd mem' dst.off src.len = out := by
  unfold cryptMem at h
  split at h; · cases h
  rename_i h1
  split at h; · cases h
  rename_i h2
  split at h; · cases h
  rename_i h3
  injection h with h
  have h2' : src.len % 16 = 0 := by simpa using h2
  have hk : src.len = 16 * (src.len / 16) := by omega
  have hov : dst.off ≤ src.off ∨ src.off + 16 * (src.len / 16) ≤ dst.off := by
    rw [← hk]
    have hno : ¬ (src.len ≠ 0 ∧ dst.off ≠ src.off ∧ dst.off < src.off + src.len ∧ src.off < dst.off + src.len) :=
      fun hc => h3 ((inexactOverlapSl_iff dst.off src.off src.len).mpr hc)
    omega
  have hrl : (Mem.rd mem src.off src.len).length = src.len := Mem.rd_length _ _ _ hs
  have hm := memLoop_eq f hf (initTweak E2 sector) (by unfold initTweak; exact hE2 _) (src.len / 16) mem dst.off src.off
    (by omega) (by omega) hov
  rw [← hk] at hm
  have hout : (loop f (chunks 16 (Mem.rd mem src.off src.len)) (initTweak E2 sector)).length = src.len := by
    have hk' : (Mem.rd mem src.off src.len).length = (src.len / 16) * 16 := by rw [hrl]; omega
    obtain ⟨c1, c2⟩ := chunks_spec 16 (by decide) _ _ hk'
    have : ∀ (ps : List Bytes) (tw : Bytes), (∀ p ∈ ps, p.length = 16) → tw.length = 16 →
        (loop f ps tw).length = 16 * ps.length := by
      intro ps
      induction ps with
      | nil => intro tw _ _; rfl
      | cons p ps ih =>
        intro tw hp ht
        have hp16 := hp p (by simp)
        have hx : (xorBytes p tw).length = 16 := by simp [xorBytes_length, hp16, ht]
        simp only [loop, List.length_append, List.length_cons]
        rw [ih (mul2 tw) (fun q hq => hp q (by simp [hq])) (by rw [mul2_length, ht])]
        simp [xorBytes_length, hf _ hx, ht]; omega
    rw [this _ (initTweak E2 sector) c2 (by unfold initTweak; exact hE2 _)]
    have hfl : (chunks 16 (Mem.rd mem src.off src.len)).flatten.length = 16 * (chunks 16 (Mem.rd mem src.off src.len)).length := by
      generalize chunks 16 (Mem.rd mem src.off src.len) = cs at c2
      induction cs with
      | nil => rfl
      | cons c cs ih =>
        simp only [List.flatten_cons, List.length_append, List.length_cons]
        rw [ih (fun q hq => c2 q (by simp [hq])), c2 c (by simp)]; omega
    rw [← hfl, c1, hrl]
  refine ⟨loop f (chunks 16 (Mem.rd mem src.off src.len)) (initTweak E2 sector), ?_, hout, ?_, ?_⟩
  · unfold encrypt
    simp [hrl, h1, h2', inexactOverlap]
  · rw [← h, hm]
  · rw [← h, hm]
    have := rd_wr_same mem dst.off _ (by rw [hout]; omega)
    rw [hout] at this
    exact this

example : ∃ m, cryptMem id id (zeros 64) ⟨0, 32⟩ ⟨0, 32⟩ 5 = .ok m := ⟨_, rfl⟩      -- in place
example : ∃ m, cryptMem id id (zeros 64) ⟨32, 32⟩ ⟨0, 32⟩ 5 = .ok m := ⟨_, rfl⟩     -- disjoint
example : cryptMem id id (zeros 64) ⟨8, 32⟩ ⟨0, 32⟩ 5 = .panic := rfl                -- inexact overlap

/-- **arguments unmodified**: a non-panicking call changes no arena byte outside dst[:len(src)] — in
    particular not src when the windows are disjoint, nor anything behind dst[:len(src)] -/
theorem cryptMem_outside (f E2 : Bytes → Bytes) (hf : ∀ x, x.length = 16 → (f x).length = 16)
    (hE2 : ∀ x, (E2 x).length = 16) (mem : Bytes) (dst src : Sl) (sector : UInt64) (mem' : Bytes)
    (hd : dst.off + dst.len ≤ mem.length) (hs : src.off + src.len ≤ mem.length)
    (h : cryptMem f E2 mem dst src sector = .ok mem') :
    mem'.take dst.off = mem.take dst.off ∧ mem'.drop (dst.off + src.len) = mem.drop (dst.off + src.len) := by
  obtain ⟨out, _, hl, hw, _⟩ := xts_inplace_eq f E2 hf hE2 mem dst src sector mem' hd hs h
  have hle : dst.len ≥ src.len := by
    unfold cryptMem at h
    split at h
    · cases h
    · omega
  subst hw
  unfold Mem.wr
  have h1 : (mem.take dst.off).length = dst.off := by simp; omega
  constructor
  · rw [List.append_assoc, List.take_append_of_le_length (by omega), List.take_of_length_le (by omega)]
  · rw [hl]
    have : dst.off + src.len = (mem.take dst.off ++ out).length := by simp [hl]; omega
    conv => lhs; rw [this, List.drop_left']
    rw [← this]

/-- the toy block cipher of the harness really is a permutation with `dec` as inverse (so the
    round-trip theorem applies to the toy runs) -/
theorem toy_dec_enc_byte (x k : UInt8) : ((((x ^^^ k) * 5 + 17) - 17) * 205) ^^^ k = x := by
  have h : (((x ^^^ k) * 5 + 17) - 17) * 205 = x ^^^ k := by
    rw [UInt8.add_sub_cancel, UInt8.mul_assoc]
    have : (5 : UInt8) * 205 = 1 := by decide
    rw [this, UInt8.mul_one]
  rw [h, UInt8.xor_assoc, UInt8.xor_self, UInt8.xor_zero]

end XC.C13
