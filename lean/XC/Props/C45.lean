/-
  C45 — the byte-level OpenPGP readers are total: every model function below is defined by
  well-founded recursion on the number of unread bytes (no fuel, no `partial`), so each definition
  being accepted is the termination proof; the theorems state what the termination arguments rest on
  (every step consumes at least one byte; every length is checked against what remains).
-/
import XC.Model.C45
import XC.Model.C46
import XC.Model.C45_Keys
namespace XC.C45
open XC

/-! ## new-format lengths -/

/-- `readLength` consumes between 1 and 5 bytes and leaves a suffix of its input -/
theorem readLength_consumes {s r : Bytes} {n : Nat} {p : Bool} (h : readLength s = .ok (n, p, r)) :
    ∃ k, 1 ≤ k ∧ k ≤ 5 ∧ r = s.drop k := by
  unfold readLength at h
  split at h
  · simp at h
  · split at h
    · simp only [Except.ok.injEq, Prod.mk.injEq] at h; obtain ⟨_, _, rfl⟩ := h; exact ⟨1, by simp⟩
    · split at h
      · split at h
        · simp at h
        · simp only [Except.ok.injEq, Prod.mk.injEq] at h; obtain ⟨_, _, rfl⟩ := h; exact ⟨2, by simp⟩
      · split at h
        · simp only [Except.ok.injEq, Prod.mk.injEq] at h; obtain ⟨_, _, rfl⟩ := h; exact ⟨1, by simp⟩
        · split at h
          · simp only [Except.ok.injEq, Prod.mk.injEq] at h; obtain ⟨_, _, rfl⟩ := h; exact ⟨5, by simp⟩
          · simp at h

/-- a partial-length chunk is at least one byte long (so the partial reader's loop makes progress) -/
theorem partial_chunk_pos {s r : Bytes} {n : Nat} (h : readLength s = .ok (n, true, r)) : 0 < n :=
  readLength_partial_pos h

/-! ## packet bodies read to EOF -/

/-- **read_to_eof_terminates (partial-length reader)**: `readPartial` is total, and what it delivers
    plus what it leaves unread never exceeds its input. -/
theorem readPartial_bounds (n : Nat) (p : Bool) (s : Bytes) :
    (readPartial n p s).1.length + (readPartial n p s).2.2.length ≤ s.length := by
  induction hl : s.length using Nat.strongRecOn generalizing n p s with
  | _ k ih =>
    rw [readPartial]
    split
    · simp; omega
    · split
      · simp only [List.length_take, List.length_drop]; omega
      · split
        · simp only [List.length_take, List.length_nil]; omega
        · rename_i m p' r heq
          have h1 := readLength_lt heq
          simp only [List.length_drop] at h1
          have := ih r.length (by omega) m p' r rfl
          simp only [List.length_append, List.length_take]
          omega

/-- the same for the three kinds of body reader `readHeader` returns -/
theorem readBody_bounds (b : Body) (s : Bytes) :
    (readBody b s).1.length + (readBody b s).2.2.length ≤ s.length := by
  cases b with
  | span n =>
    simp only [readBody]; split
    · simp
    · simp only [List.length_take, List.length_drop]; omega
  | indet => simp [readBody]
  | part n => exact readPartial_bounds n true s

/-- a successful body read leaves strictly less input than the header started with: the packet loop
    (`OpaqueReader.Next`, `packet.Read`) consumes at least one byte per packet -/
theorem packet_progress {s : Bytes} {h : Header} (hh : readHeader s = .ok h) :
    (readBody h.body h.rest).2.2.length < s.length := by
  have h1 := readHeader_lt hh
  have h2 := readBody_rest_le h.body h.rest
  omega

/-- **the packet sequence has at most as many packets as input bytes** -/
theorem opaqueAll_count (s : Bytes) : (opaqueAll s).1.length ≤ s.length := by
  induction hl : s.length using Nat.strongRecOn generalizing s with
  | _ k ih =>
    rw [opaqueAll]
    split
    · simp
    · rename_i hd hh
      have h1 := readHeader_lt hh
      split
      · simp; omega
      · rename_i c rest hb
        have h2 := readBody_rest_le hd.body hd.rest
        rw [hb] at h2
        simp only at h2
        have := ih rest.length (by omega) rest rfl
        simp only [List.length_cons]
        omega

/-- **packet.Read dispatch**: whatever the packet parser selected by the tag consumes of the contents
    (`k` bytes — `packet.Read` does not skip what a parser leaves unread), the reader stands strictly
    further in the input after one `Read` than before: every iteration of `Reader.Next` / `ReadMessage` /
    `ReadKeyRing` consumes at least the header octet, or ends with an error / EOF. -/
theorem read_dispatch_progress {s : Bytes} {h : Header} (hh : readHeader s = .ok h) (k : Nat) :
    (h.rest.drop k).length < s.length := by
  have := readHeader_lt hh
  simp only [List.length_drop]; omega

/-! ## key-ring assembly (keys.go) -/

/-- **readEntity_total**: `ReadEntity` (a well-founded recursion over the items `Reader.Next` yields) always
    consumes at least one item — except when the first packet is not a key: then that packet is put back
    and is not a primary public key, so `readToNextPublicKey` consumes it. This is the progress argument of
    the `ReadKeyRing` loop (`C45K.readKeyRing` is defined by well-founded recursion using exactly it). -/
theorem readEntity_total (s : List C45K.Item) :
    match C45K.readEntity s with
    | .ok (_, r) => r.length < s.length
    | .error (.notKey, r) => r.length ≤ s.length ∧ C45K.headNotPrimary r = true
    | .error (.eof, _) => True
    | .error (_, r) => r.length < s.length :=
  C45K.readEntity_progress s

/-- the inner loops never hand back more than they were given (Unread puts back exactly one item) -/
theorem keyring_loops_consume (prim u k : Nat) (b : Bool) (e : C45K.Entity) (s : List C45K.Item) :
    (C45K.addUserID prim u b s).rest.length ≤ s.length ∧
    (C45K.addSubkey prim k b s).rest.length ≤ s.length ∧
    (C45K.eachPacket e s).rest.length ≤ s.length :=
  ⟨C45K.addUserID_le prim u b s, C45K.addSubkey_le prim k b s, C45K.eachPacket_le e s⟩

/-- `readToNextPublicKey` consumes the item in front unless it is a primary public key -/
theorem readToNext_progress (s r : List C45K.Item) (hp : C45K.headNotPrimary s = true)
    (h : C45K.readToNext s = .ok r) : r.length < s.length :=
  C45K.readToNext_lt s r hp h

/-! ## MPIs -/

/-- `readMPI` reads exactly `2 + ⌈bits/8⌉` bytes -/
theorem readMPI_consumed {s b r : Bytes} {bits : Nat} (h : readMPI s = .ok (b, bits, r)) :
    b.length = (bits + 7) / 8 ∧ s.length = 2 + b.length + r.length ∧ bits < 65536 := by
  unfold readMPI at h
  split at h
  · rename_i b0 b1 t
    dsimp only at h
    split at h
    · simp at h
    · rename_i hlen
      simp only [Except.ok.injEq, Prod.mk.injEq] at h
      obtain ⟨rfl, rfl, rfl⟩ := h
      have h0 := b0.toNat_lt
      have h1 := b1.toNat_lt
      simp only [List.length_take, List.length_drop, List.length_cons]
      omega
  · simp at h

/-! ## signature subpackets -/

/-- `serializeSubpacketLength` (signature.go) -/
def encSubLen (n : Nat) : Bytes :=
  if n < 192 then [UInt8.ofNat n]
  else if n < 16320 then [UInt8.ofNat ((n - 192) / 256 + 192), UInt8.ofNat ((n - 192) % 256)]
  else 255 :: natToBE 4 n

theorem natOfBE4 (n : Nat) (h : n < 2 ^ 32) : natOfBE (natToBE 4 n) = n := by
  simp only [natOfBE, natToBE, List.reverse_reverse]
  rw [natOfLE_natToLE]
  exact Nat.mod_eq_of_lt (by simpa using h)

/-- **subpacket_len_forms**: the reader inverts the writer on all three length forms -/
theorem subpacket_len_forms (n : Nat) (h : n < 2 ^ 32) (rest : Bytes) :
    subLen (encSubLen n ++ rest) = some (n, rest) := by
  unfold encSubLen
  by_cases h1 : n < 192
  · have : (UInt8.ofNat n < 192) = True := by
      simp [UInt8.lt_iff_toNat_lt, UInt8.toNat_ofNat']; omega
    simp [h1, subLen, this, UInt8.toNat_ofNat']
    omega
  · by_cases h2 : n < 16320
    · have hb : (n - 192) / 256 + 192 < 255 := by omega
      have a1 : ¬ (UInt8.ofNat ((n - 192) / 256 + 192) < 192) := by
        simp [UInt8.lt_iff_toNat_lt, UInt8.toNat_ofNat']; omega
      have a2 : UInt8.ofNat ((n - 192) / 256 + 192) < 255 := by
        simp [UInt8.lt_iff_toNat_lt, UInt8.toNat_ofNat']; omega
      simp only [h1, h2, ↓reduceIte, List.cons_append, List.nil_append, subLen, a1, a2,
        Option.some.injEq, Prod.mk.injEq, and_true]
      simp [UInt8.toNat_ofNat']
      omega
    · have a1 : ¬ ((255 : UInt8) < 192) := by decide
      have a2 : ¬ ((255 : UInt8) < 255) := by decide
      have hl : (natToBE 4 n).length = 4 := by simp [natToBE, natToLE_length]
      obtain ⟨b0, b1, b2, b3, hb⟩ : ∃ b0 b1 b2 b3, natToBE 4 n = [b0, b1, b2, b3] := by
        match hh : natToBE 4 n, hl with
        | [b0, b1, b2, b3], _ => exact ⟨b0, b1, b2, b3, rfl⟩
      have := natOfBE4 n h
      rw [hb] at this
      simp only [h1, h2, ↓reduceIte, List.cons_append, subLen, a1, a2, hb, List.nil_append, this]

/-- `parseSignatureSubpacket`: a subpacket accepted by the framing lies within the area
    (its contents and the rest are disjoint pieces of the input; `length ≤ remaining`) -/
theorem nextSigSub_within {s c r : Bytes} {t : UInt8} {k : Bool} (h : nextSigSub s = .ok (t, k, c, r)) :
    c.length + 1 + r.length < s.length + 1 ∧ c.length < s.length ∧ r.length < s.length := by
  have hlt := nextSigSub_lt h
  unfold nextSigSub at h
  split at h
  · simp at h
  · rename_i n r0 heq
    have h0 := subLen_lt heq
    split at h
    · simp at h
    · split at h
      · simp at h
      · rename_i t0 c0 htk
        simp only [Except.ok.injEq, Prod.mk.injEq] at h
        obtain ⟨_, _, rfl, rfl⟩ := h
        have : (r0.take n).length = (t0 :: c0).length := by rw [htk]
        simp only [List.length_take, List.length_cons] at this
        simp only [List.length_drop]
        omega

/-- `OpaqueSubpackets` returns at most as many subpackets as there are bytes -/
theorem opaqueSubs_count (s : Bytes) : (opaqueSubs s).1.length ≤ s.length := by
  induction hl : s.length using Nat.strongRecOn generalizing s with
  | _ k ih =>
    rw [opaqueSubs]
    split
    · simp
    · rename_i n r heq
      have h0 := subLen_lt heq
      split
      · simp
      · split
        · simp
        · have := ih (r.drop n).length (by simp only [List.length_drop]; omega) (r.drop n) rfl
          simp only [List.length_cons, List.length_drop] at this ⊢
          omega

/-! ## armor line reader -/

/-- `bufio.Reader(100).ReadLine`: a returned line (or fragment) is at most 100 bytes -/
theorem readLine_len {s l r : Bytes} {p : Bool} (h : XC.C46.readLine s = some (l, p, r)) : l.length ≤ 100 := by
  unfold XC.C46.readLine at h
  split at h
  · simp at h
  · dsimp only at h
    split at h
    · rename_i hlt
      split at h
      · simp only [Option.some.injEq, Prod.mk.injEq] at h
        obtain ⟨rfl, _, _⟩ := h
        have : (XC.C46.dropLastCR (XC.C46.splitLF s).1).length ≤ (XC.C46.splitLF s).1.length := by
          unfold XC.C46.dropLastCR; split <;> simp
        simp only [XC.C46.bufSize] at hlt; omega
      · simp only [Option.some.injEq, Prod.mk.injEq] at h
        obtain ⟨rfl, _, _⟩ := h
        simp only [XC.C46.bufSize] at hlt; omega
    · split at h <;>
      · simp only [Option.some.injEq, Prod.mk.injEq] at h
        obtain ⟨rfl, _, _⟩ := h
        simp only [XC.C46.bufSize, List.length_take]; omega

/-- **the 96-byte cap**: every line the armor `lineReader` hands to the base64 decoder is ≤ 96 bytes;
    longer lines end the body with `ArmorCorrupt` -/
theorem lineReader_cap (s : Bytes) : ∀ l ∈ (XC.C46.bodyLines s).1, l.length ≤ 96 := by
  induction hl : s.length using Nat.strongRecOn generalizing s with
  | _ k ih =>
    rw [XC.C46.bodyLines]
    split
    · simp
    · rename_i line isPrefix rest heq
      have hlt := XC.C46.readLine_lt heq
      have ihr := ih rest.length (by omega) rest rfl
      dsimp only
      repeat' split
      all_goals first
        | (intro l hl'; simp at hl'; done)
        | (intro l hl'
           rcases List.mem_cons.1 hl' with rfl | hl'
           · first
             | simp
             | (rename_i hle; simp only [gt_iff_lt, Nat.not_lt] at hle; exact hle)
           · exact ihr l hl')

/-! ## non-vacuity: concrete inputs satisfying the hypotheses of the theorems above -/

example : readLength [200, 5, 9] = .ok (2245, false, [9]) := by simp [readLength]
example : readLength [0xE3, 1] = .ok (8, true, [1]) := by simp [readLength]          -- a partial length (2^3)
example : ∃ k, 1 ≤ k ∧ k ≤ 5 ∧ ([9] : Bytes) = ([200, 5, 9] : Bytes).drop k :=
  readLength_consumes (s := [200, 5, 9]) (n := 2245) (p := false) (by simp [readLength])
example : 0 < 8 := partial_chunk_pos (s := [0xE3, 1]) (r := [1]) (by simp [readLength])
example : (readHeader [0xCB, 2, 1, 2, 0xC0]).toOption.map (·.rest) = some [1, 2, 0xC0] := by decide
example : readMPI [0, 9, 1, 2, 3] = .ok ([1, 2], 9, [3]) := by simp [readMPI]
example : subLen (encSubLen 300 ++ [7]) = some (300, [7]) := subpacket_len_forms 300 (by decide) [7]
example : nextSigSub [2, 0x90, 7, 5] = .ok (0x10, true, [7], [5]) := by simp [nextSigSub, subLen]; decide
example : C45K.readToNext [.uid 1, .eUnsup, .key 2 false, .uid 2] = .ok [.key 2 false, .uid 2] := by
  simp [C45K.readToNext, C45K.next]
example : C45K.headNotPrimary [.uid 1, .eUnsup, .key 2 false, .uid 2] = true := by decide

end XC.C45
