import XC.DrvMain
import XC.Drv.C15
def main : IO UInt32 := XC.drvMain XC.C15.handle
