import XC.DrvMain
import XC.Drv.C11
def main : IO UInt32 := XC.drvMain XC.C11.handle
