import XC.DrvMain
import XC.Drv.C16
def main : IO UInt32 := XC.drvMain XC.C16.handle
