import XC.DrvMain
import XC.Drv.C48
def main : IO UInt32 := XC.drvMain XC.C48.handle
