import XC.DrvMain
import XC.Drv.C47
def main : IO UInt32 := XC.drvMain XC.C47.handle
