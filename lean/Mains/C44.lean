import XC.DrvMain
import XC.Drv.C44
def main : IO UInt32 := XC.drvMain XC.C44.handle
