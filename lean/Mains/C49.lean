import XC.DrvMain
import XC.Drv.C49
def main : IO UInt32 := XC.drvMain XC.C49.handle
