import XC.DrvMain
import XC.Drv.C39
def main : IO UInt32 := XC.drvMain XC.C39.handle
