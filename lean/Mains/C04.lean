import XC.DrvMain
import XC.Drv.C04
def main : IO UInt32 := XC.drvMain XC.C04.handle
