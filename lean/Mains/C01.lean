import XC.DrvMain
import XC.Drv.C01
def main : IO UInt32 := XC.drvMain XC.C01.handle
