import XC.DrvMain
import XC.Drv.C52
def main : IO UInt32 := XC.drvMain XC.C52.handle
