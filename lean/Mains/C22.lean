import XC.DrvMain
import XC.Drv.C22
def main : IO UInt32 := XC.drvMain XC.C22.handle
