import XC.DrvMain
import XC.Drv.C08
def main : IO UInt32 := XC.drvMain XC.C08.handle
