import XC.DrvMain
import XC.Drv.C30
def main : IO UInt32 := XC.drvMain XC.C30.handle
