import XC.DrvMain
import XC.Drv.C20
def main : IO UInt32 := XC.drvMain XC.C20.handle
