import XC.DrvMain
import XC.Drv.C29
def main : IO UInt32 := XC.drvMain XC.C29.handle
