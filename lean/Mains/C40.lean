import XC.DrvMain
import XC.Drv.C40
def main : IO UInt32 := XC.drvMain XC.C40.handle
