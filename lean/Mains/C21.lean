import XC.DrvMain
import XC.Drv.C21
def main : IO UInt32 := XC.drvMain XC.C21.handle
