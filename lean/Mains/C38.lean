import XC.DrvMain
import XC.Drv.C38
def main : IO UInt32 := XC.drvMain XC.C38.handle
