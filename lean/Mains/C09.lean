import XC.DrvMain
import XC.Drv.C09
def main : IO UInt32 := XC.drvMain XC.C09.handle
