import XC.DrvMain
import XC.Drv.C07
def main : IO UInt32 := XC.drvMain XC.C07.handle
