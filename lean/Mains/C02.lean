import XC.DrvMain
import XC.Drv.C02
def main : IO UInt32 := XC.drvMain XC.C02.handle
