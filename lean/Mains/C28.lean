import XC.DrvMain
import XC.Drv.C28
def main : IO UInt32 := XC.drvMain XC.C28.handle
