import XC.DrvMain
import XC.Drv.C43
def main : IO UInt32 := XC.drvMain XC.C43.handle
