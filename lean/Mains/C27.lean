import XC.DrvMain
import XC.Drv.C27
def main : IO UInt32 := XC.drvMain XC.C27.handle
