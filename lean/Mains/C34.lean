import XC.DrvMain
import XC.Drv.C34
def main : IO UInt32 := XC.drvMain XC.C34.handle
