import XC.DrvMain
import XC.Drv.C53
def main : IO UInt32 := XC.drvMain XC.C53.handle
