import XC.DrvMain
import XC.Drv.C45
def main : IO UInt32 := XC.drvMain XC.C45.handle
