import XC.DrvMain
import XC.Drv.C37
def main : IO UInt32 := XC.drvMain XC.C37.handle
