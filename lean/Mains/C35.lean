import XC.DrvMain
import XC.Drv.C35
def main : IO UInt32 := XC.drvMain XC.C35.handle
