import XC.DrvMain
import XC.Drv.C12
def main : IO UInt32 := XC.drvMain XC.C12.handle
