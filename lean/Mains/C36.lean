import XC.DrvMain
import XC.Drv.C36
def main : IO UInt32 := XC.drvMain XC.C36.handle
