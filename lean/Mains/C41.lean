import XC.DrvMain
import XC.Drv.C41
def main : IO UInt32 := XC.drvMain XC.C41.handle
