import XC.DrvMain
import XC.Drv.C19
def main : IO UInt32 := XC.drvMain XC.C19.handle
