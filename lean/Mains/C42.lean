import XC.DrvMain
import XC.Drv.C42
def main : IO UInt32 := XC.drvMain XC.C42.handle
