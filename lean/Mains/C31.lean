import XC.DrvMain
import XC.Drv.C31
def main : IO UInt32 := XC.drvMain XC.C31.handle
