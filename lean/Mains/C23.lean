import XC.DrvMain
import XC.Drv.C23
def main : IO UInt32 := XC.drvMain XC.C23.handle
