import XC.DrvMain
import XC.Drv.C14
def main : IO UInt32 := XC.drvMain XC.C14.handle
