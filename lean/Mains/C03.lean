import XC.DrvMain
import XC.Drv.C03
def main : IO UInt32 := XC.drvMain XC.C03.handle
