import XC.DrvMain
import XC.Drv.C24
def main : IO UInt32 := XC.drvMain XC.C24.handle
