import XC.DrvMain
import XC.Drv.C25
def main : IO UInt32 := XC.drvMain XC.C25.handle
