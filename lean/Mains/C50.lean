import XC.DrvMain
import XC.Drv.C50
def main : IO UInt32 := XC.drvMain XC.C50.handle
