import XC.DrvMain
import XC.Drv.C13
def main : IO UInt32 := XC.drvMain XC.C13.handle
