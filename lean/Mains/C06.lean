import XC.DrvMain
import XC.Drv.C06
def main : IO UInt32 := XC.drvMain XC.C06.handle
