import XC.DrvMain
import XC.Drv.C10
def main : IO UInt32 := XC.drvMain XC.C10.handle
