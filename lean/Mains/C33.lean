import XC.DrvMain
import XC.Drv.C33
def main : IO UInt32 := XC.drvMain XC.C33.handle
