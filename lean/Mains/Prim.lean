import XC.DrvMain
import XC.Prim.Drv
def main : IO UInt32 := XC.drvMain XC.Prim.handle
