import XC.DrvMain
import XC.Drv.C26
def main : IO UInt32 := XC.drvMain XC.C26.handle
