import XC.DrvMain
import XC.Drv.C17
def main : IO UInt32 := XC.drvMain XC.C17.handle
