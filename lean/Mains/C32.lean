import XC.DrvMain
import XC.Drv.C32
def main : IO UInt32 := XC.drvMain XC.C32.handle
