import XC.DrvMain
import XC.Drv.C18
def main : IO UInt32 := XC.drvMain XC.C18.handle
