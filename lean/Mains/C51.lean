import XC.DrvMain
import XC.Drv.C51
def main : IO UInt32 := XC.drvMain XC.C51.handle
