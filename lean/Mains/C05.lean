import XC.DrvMain
import XC.Drv.C05
def main : IO UInt32 := XC.drvMain XC.C05.handle
