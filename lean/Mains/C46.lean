import XC.DrvMain
import XC.Drv.C46
def main : IO UInt32 := XC.drvMain XC.C46.handle
