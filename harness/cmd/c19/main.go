// C19 — ssh/internal/bcrypt_pbkdf.Key through the hook ssh.VerifBcryptPbkdfKey.
// Observable: `ok <key hex>` | `err` | `panic`.
package main

import (
	"bytes"
	"fmt"

	"golang.org/x/crypto/ssh"
	"verifharness/hx"
)

func gen(g *hx.Gen) {
	n := g.Count(150, 1500)
	r := g.R
	for i := 0; i < n; i++ {
		pw := r.Bytes(r.Range(1, 100))
		if r.Chance(1, 6) {
			pw = r.Bytes(r.PickInt(1, 63, 64, 65, 72, 73, 127, 128, 129, 200)) // SHA-512 block / blowfish key boundaries
		}
		salt := r.Bytes(r.Range(1, 64))
		rep := 1
		rounds := r.PickInt(1, 1, 2, 2, 3, 5)
		if g.Thorough() {
			rounds = r.Range(1, 32)
		}
		kl := r.Range(1, 70)
		if g.Thorough() || r.Chance(1, 5) {
			kl = r.Range(1, 200)
		}
		switch r.Intn(8) {
		case 0:
			kl = r.PickInt(1, 31, 32, 33, 63, 64, 65, 95, 96, 97, 128)
			rounds = r.PickInt(1, 2)
			g.Stat("keylen.block-boundary")
		case 1:
			kl = r.Range(1, 32)
		}
		switch r.Intn(24) {
		case 0:
			rounds = r.PickInt(0, 0, -1, -5)
			g.Stat("bad.rounds")
		case 1:
			pw = nil
			g.Stat("bad.empty-password")
		case 2:
			salt = nil
			g.Stat("bad.empty-salt")
		case 3:
			kl = r.PickInt(1025, 1026, 2048, 1<<20)
			g.Stat("bad.keylen-large")
		case 4:
			kl = r.PickInt(0, 0, -1, -2, -31, -32, -33, -63, -64, -65, -1024)
			g.Stat("keylen.nonpositive")
		case 5:
			salt = r.Bytes(r.PickInt(1, 2, 4))
			rep = (1<<20)/len(salt) + 1 // one pattern more than 2^20 bytes → error before any hashing
			g.Stat("bad.salt-over-1MiB")
		case 6:
			if g.Thorough() && r.Chance(1, 20) {
				salt = r.Bytes(16)
				rep = 1 << 16 // exactly 2^20 bytes: accepted
				kl, rounds = 32, 1
				g.Stat("salt.exactly-1MiB")
			} else {
				kl = r.PickInt(1024, 1023, 993, 992, 512)
				rounds = 1
				g.Stat("keylen.max")
			}
		}
		g.Stat("op.key")
		// caller-memory layout: 0 = salt and password apart, sentinel-filled spare capacity behind each;
		// 1 = the password sits directly behind the salt INSIDE the salt slice's capacity; 2 = password first
		lay := r.Intn(3)
		g.Stat(fmt.Sprintf("layout.%d", lay))
		g.Emit("key pw=%s salt=%s rep=%d rounds=%d keylen=%d lay=%d", hx.Hex(pw), hx.Hex(salt), rep, rounds, kl, lay)
	}
}

func exec(line string) string {
	o := hx.Parse(line)
	if o.Cmd != "key" {
		return "bad-op"
	}
	saltB := bytes.Repeat(o.Hex("salt"), o.Int("rep"))
	pwB := o.Hex("pw")
	lay := 0
	if o.Has("lay") {
		lay = o.Int("lay")
	}
	var ar *arena
	var pw, salt []byte
	switch lay {
	case 1: // salt, then the password inside the salt's spare capacity
		var in [][]byte
		ar, in = build(spec{name: "salt", data: saltB, capInto: len(pwB) + 8}, spec{name: "pw", data: pwB, spare: 8})
		salt, pw = in[0], in[1]
	case 2:
		var in [][]byte
		ar, in = build(spec{name: "pw", data: pwB, spare: 8}, spec{name: "salt", data: saltB, spare: 8})
		pw, salt = in[0], in[1]
	default:
		var in [][]byte
		ar, in = build(spec{name: "salt", data: saltB, spare: 8}, spec{name: "pw", data: pwB, spare: 8})
		salt, pw = in[0], in[1]
	}
	mut := mutated{}
	var k []byte
	var err error
	if txt, p := hx.PanicText(func() { k, err = ssh.VerifBcryptPbkdfKey(pw, salt, o.Int("rounds"), o.Int("keylen")) }); p {
		_ = txt
		mut.add(ar.changed())
		return "panic " + mut.String()
	}
	mut.add(ar.changed())
	if err != nil {
		if k != nil {
			return "err-with-key"
		}
		return "err " + mut.String()
	}
	out := "ok " + hx.Hex(k) + " " + mut.String()
	if o.Has("expect") {
		if hx.Hex(k) == o.Str("expect") {
			return out + " kat=ok"
		}
		return out + " kat=IMPL-MISMATCH"
	}
	return out
}

func main() { hx.Main(hx.Harness{Gen: gen, Exec: exec}) }
