// C19 — ssh/internal/bcrypt_pbkdf.Key through the hook ssh.VerifBcryptPbkdfKey.
// Observable: `ok <key hex>` | `err` | `panic`.
package main

import (
	"bytes"
	"sort"
	"strconv"
	"fmt"

	"golang.org/x/crypto/ssh"
	"verifharness/hx"
)

// feature tags of the op being generated; every unordered pair is counted as pair.<a>+<b>
var tags []string

func tag(s string) { tags = append(tags, s) }
func flushPairs(g *hx.Gen) {
	sort.Strings(tags)
	for i := range tags {
		for j := i + 1; j < len(tags); j++ {
			if tags[i] != tags[j] {
				g.Stat("pair." + tags[i] + "+" + tags[j])
			}
		}
	}
	tags = tags[:0]
}

func opTags(pwLen, saltLen, rounds, kl, lay int) {
	switch {
	case pwLen == 0:
		tag("pw.empty")
	case pwLen == 1:
		tag("pw.1byte")
	case pwLen >= 63 && pwLen <= 65, pwLen >= 127 && pwLen <= 129:
		tag("pw.sha512-block-boundary")
	case pwLen > 72:
		tag("pw.over72")
	default:
		tag("pw.other")
	}
	switch {
	case saltLen == 0:
		tag("salt.empty")
	case saltLen > 1<<20:
		tag("salt.over-1MiB")
	case saltLen == 1<<20:
		tag("salt.exactly-1MiB")
	case saltLen <= 4:
		tag("salt.1-4")
	default:
		tag("salt.other")
	}
	switch {
	case rounds < 1:
		tag("rounds.nonpositive")
	case rounds == 1:
		tag("rounds.1")
	default:
		tag("rounds.2plus")
	}
	switch {
	case kl < 0:
		tag("keylen.negative")
	case kl == 0:
		tag("keylen.0")
	case kl > 1024:
		tag("keylen.over1024")
	case kl == 1024:
		tag("keylen.1024")
	case kl%32 == 0:
		tag("keylen.multiple-of-32")
	case kl < 32:
		tag("keylen.below-32")
	default:
		tag("keylen.partial-last-block")
	}
	tag("lay." + strconv.Itoa(lay))
}

func gen(g *hx.Gen) {
	n := g.Count(110, 1500)
	r := g.R
	// ---- systematic: every PAIR of special argument classes (two invalid arguments at once decide
	// which check fires first: error vs. the negative-keyLen panic), memory layout rotating
	type arg struct{ pw, salt, rep, rounds, kl int }
	base := arg{3, 3, 1, 1, 16}
	mods := []func(a *arg){
		func(a *arg) { a.rounds = 0 }, func(a *arg) { a.pw = 0 }, func(a *arg) { a.salt = 0 },
		func(a *arg) { a.salt, a.rep = 1, 1<<20 + 1 }, func(a *arg) { a.kl = 1025 }, func(a *arg) { a.kl = -1 },
		func(a *arg) { a.kl = 0 }, func(a *arg) { a.pw = 1 }, func(a *arg) { a.pw = 64 }, func(a *arg) { a.pw = 100 },
		func(a *arg) { a.rounds = 2 }, func(a *arg) { a.kl = 33 }, func(a *arg) { a.kl = 64 }, func(a *arg) { a.salt = 32 },
	}
	cnt := 0
	for i := range mods {
		for j := i + 1; j < len(mods); j++ {
			a := base
			mods[i](&a)
			mods[j](&a)
			lay := cnt % 3
			cnt++
			opTags(a.pw, a.salt*a.rep, a.rounds, a.kl, lay)
			flushPairs(g)
			g.Stat("op.key.pairwise")
			g.Emit("key pw=%s salt=%s rep=%d rounds=%d keylen=%d lay=%d", hx.Hex(r.Bytes(a.pw)), hx.Hex(r.Bytes(a.salt)), a.rep, a.rounds, a.kl, lay)
		}
	}
	{ // the documented maximum key length once per layout (32 blocks)
		for lay := 0; lay < 3; lay++ {
			opTags(8, 8, 1, 1024, lay)
			flushPairs(g)
			g.Emit("key pw=%s salt=%s rep=1 rounds=1 keylen=1024 lay=%d", hx.Hex(r.Bytes(8)), hx.Hex(r.Bytes(8)), lay)
		}
	}
	// ---- systematic: every memory layout x every argument class that is cheap (errors, tiny keys)
	for lay := 0; lay < 3; lay++ {
		for _, c := range []struct {
			pw, salt      int
			rounds, kl int
		}{{1, 1, 0, 32}, {0, 4, 1, 32}, {3, 0, 1, 32}, {3, 3, 1, 1025}, {3, 3, 1, -1}, {3, 3, 1, 0}, {3, 3, -2, 16},
			{1, 1, 1, 1}, {64, 4, 1, 32}, {65, 5, 2, 33}, {73, 16, 1, 64}, {128, 2, 2, 31}, {5, 64, 1, 65}} {
			opTags(c.pw, c.salt, c.rounds, c.kl, lay)
			flushPairs(g)
			g.Stat("op.key.systematic")
			g.Emit("key pw=%s salt=%s rep=1 rounds=%d keylen=%d lay=%d", hx.Hex(r.Bytes(c.pw)), hx.Hex(r.Bytes(c.salt)), c.rounds, c.kl, lay)
		}
	}
	for i := 0; i < n; i++ {
		pw := r.Bytes(r.Range(1, 100))
		if r.Chance(1, 6) {
			pw = r.Bytes(r.PickInt(1, 63, 64, 65, 72, 73, 127, 128, 129, 200)) // SHA-512 block / blowfish key boundaries
		}
		salt := r.Bytes(r.Range(1, 64))
		rep := 1
		rounds := r.PickInt(1, 1, 2, 2, 3, 5)
		if g.Thorough() {
			rounds = r.Range(1, 32)
		}
		kl := r.Range(1, 70)
		if g.Thorough() || r.Chance(1, 5) {
			kl = r.Range(1, 200)
		}
		switch r.Intn(8) {
		case 0:
			kl = r.PickInt(1, 31, 32, 33, 63, 64, 65, 95, 96, 97, 128)
			rounds = r.PickInt(1, 2)
			g.Stat("keylen.block-boundary")
		case 1:
			kl = r.Range(1, 32)
		}
		switch r.Intn(24) {
		case 0:
			rounds = r.PickInt(0, 0, -1, -5)
			g.Stat("bad.rounds")
		case 1:
			pw = nil
			g.Stat("bad.empty-password")
		case 2:
			salt = nil
			g.Stat("bad.empty-salt")
		case 3:
			kl = r.PickInt(1025, 1026, 2048, 1<<20)
			g.Stat("bad.keylen-large")
		case 4:
			kl = r.PickInt(0, 0, -1, -2, -31, -32, -33, -63, -64, -65, -1024)
			g.Stat("keylen.nonpositive")
		case 5:
			salt = r.Bytes(r.PickInt(1, 2, 4))
			rep = (1<<20)/len(salt) + 1 // one pattern more than 2^20 bytes → error before any hashing
			g.Stat("bad.salt-over-1MiB")
		case 6:
			if g.Thorough() && r.Chance(1, 20) {
				salt = r.Bytes(16)
				rep = 1 << 16 // exactly 2^20 bytes: accepted
				kl, rounds = 32, 1
				g.Stat("salt.exactly-1MiB")
			} else {
				kl = r.PickInt(1024, 1023, 993, 992, 512)
				rounds = 1
				g.Stat("keylen.max")
			}
		}
		g.Stat("op.key")
		// caller-memory layout: 0 = salt and password apart, sentinel-filled spare capacity behind each;
		// 1 = the password sits directly behind the salt INSIDE the salt slice's capacity; 2 = password first
		lay := r.Intn(3)
		g.Stat(fmt.Sprintf("layout.%d", lay))
		opTags(len(pw), len(salt)*rep, rounds, kl, lay)
		flushPairs(g)
		g.Emit("key pw=%s salt=%s rep=%d rounds=%d keylen=%d lay=%d", hx.Hex(pw), hx.Hex(salt), rep, rounds, kl, lay)
	}
}

func exec(line string) string {
	o := hx.Parse(line)
	if o.Cmd != "key" {
		return "bad-op"
	}
	saltB := bytes.Repeat(o.Hex("salt"), o.Int("rep"))
	pwB := o.Hex("pw")
	lay := 0
	if o.Has("lay") {
		lay = o.Int("lay")
	}
	var ar *arena
	var pw, salt []byte
	switch lay {
	case 1: // salt, then the password inside the salt's spare capacity
		var in [][]byte
		ar, in = build(spec{name: "salt", data: saltB, capInto: len(pwB) + 8}, spec{name: "pw", data: pwB, spare: 8})
		salt, pw = in[0], in[1]
	case 2:
		var in [][]byte
		ar, in = build(spec{name: "pw", data: pwB, spare: 8}, spec{name: "salt", data: saltB, spare: 8})
		pw, salt = in[0], in[1]
	default:
		var in [][]byte
		ar, in = build(spec{name: "salt", data: saltB, spare: 8}, spec{name: "pw", data: pwB, spare: 8})
		salt, pw = in[0], in[1]
	}
	mut := mutated{}
	var k []byte
	var err error
	if txt, p := hx.PanicText(func() { k, err = ssh.VerifBcryptPbkdfKey(pw, salt, o.Int("rounds"), o.Int("keylen")) }); p {
		_ = txt
		mut.add(ar.changed())
		return "panic " + mut.String()
	}
	mut.add(ar.changed())
	if err != nil {
		if k != nil {
			return "err-with-key"
		}
		return "err " + mut.String()
	}
	out := "ok " + hx.Hex(k) + " " + mut.String()
	if o.Has("expect") {
		if hx.Hex(k) == o.Str("expect") {
			return out + " kat=ok"
		}
		return out + " kat=IMPL-MISMATCH"
	}
	return out
}

func main() { hx.Main(hx.Harness{Gen: gen, Exec: exec}) }
