// C31 — re-keying under concurrent application traffic. A real client and a real server handshakeTransport
// (hooks ssh/verif_c30.go + ssh/verif_c31.go: real transport wrapped in a recording keyingTransport) over a
// buffered in-memory pipe; 1–8 writer goroutines per side, small RekeyThreshold, explicit re-key requests
// from both sides, optional stall of the peer's replies so that more than 64 packets queue up.
// conf mode "accept": the observable is the recorded wire trace of each side (KEXINIT / kex message /
// NEWKEYS / application packet (writer, seqno)), what each side's reader received, and per-writer counts;
// the Lean driver evaluates the safety predicates of the model on it. A run that does not finish = `hang`.
package main

import (
	"crypto/ed25519"
	"crypto/rand"
	"errors"
	"fmt"
	"io"
	"net"
	"runtime"
	"strings"
	"sync"
	"sync/atomic"
	"time"

	"golang.org/x/crypto/ssh"
	"verifharness/hx"
)

// ---------------------------------------------------------------- buffered in-memory duplex pipe with a gate

type half struct {
	mu     sync.Mutex
	cond   *sync.Cond
	buf    []byte
	closed bool
	gated  bool // while set, readers see no data (the bytes are "in flight")
	cap    int  // > 0: a bounded connection buffer — Write blocks while it is full
}

func newHalf() *half { h := &half{}; h.cond = sync.NewCond(&h.mu); return h }

func (h *half) Write(p []byte) (int, error) {
	h.mu.Lock()
	defer h.mu.Unlock()
	for h.cap > 0 && len(h.buf) > 0 && len(h.buf)+len(p) > h.cap && !h.closed {
		h.cond.Wait()
	}
	if h.closed {
		return 0, io.ErrClosedPipe
	}
	h.buf = append(h.buf, p...)
	h.cond.Broadcast()
	return len(p), nil
}
func (h *half) Read(p []byte) (int, error) {
	h.mu.Lock()
	defer h.mu.Unlock()
	for (len(h.buf) == 0 || h.gated) && !h.closed {
		h.cond.Wait()
	}
	if h.closed {
		return 0, io.EOF
	}
	n := copy(p, h.buf)
	h.buf = h.buf[n:]
	h.cond.Broadcast() // room for a blocked writer
	return n, nil
}
func (h *half) Close() {
	h.mu.Lock()
	h.closed = true
	h.cond.Broadcast()
	h.mu.Unlock()
}
func (h *half) gate(on bool) {
	h.mu.Lock()
	h.gated = on
	h.cond.Broadcast()
	h.mu.Unlock()
}

type duplex struct{ r, w *half }

func (d *duplex) Read(p []byte) (int, error)  { return d.r.Read(p) }
func (d *duplex) Write(p []byte) (int, error) { return d.w.Write(p) }
func (d *duplex) Close() error                { d.r.Close(); d.w.Close(); return nil }

// ---------------------------------------------------------------- recording

type trace struct {
	mu  sync.Mutex
	tok []string
	kex int
}

const appType = 94 // msgChannelData: passes through handshakeTransport untouched

func (t *trace) rec(p []byte, bytesLeft int64, pktsLeft uint32) {
	var s string
	switch {
	case len(p) == 0:
		s = "X"
	case p[0] == 20:
		s = "K"
	case p[0] == 21:
		s = "N"
	case p[0] == appType && len(p) >= 6 && p[1] == 0xA5:
		// writer . seqno . size . writeBytesLeft at the push ('m' = minus)
		s = fmt.Sprintf("a%d.%d.%d.%s", p[2], int(p[3])<<16|int(p[4])<<8|int(p[5]), len(p), strings.Replace(fmt.Sprint(bytesLeft), "-", "m", 1))
		if pktsLeft == 0 {
			s += ".p0"
		}
	default:
		s = "X"
	}
	t.mu.Lock()
	t.tok = append(t.tok, s)
	if s == "K" {
		t.kex++
	}
	t.mu.Unlock()
}
func (t *trace) String() string {
	t.mu.Lock()
	defer t.mu.Unlock()
	if len(t.tok) == 0 {
		return "-"
	}
	return strings.Join(t.tok, ",")
}

var (
	hostOnce sync.Once
	hostKey  ssh.Signer
)

func signer() ssh.Signer {
	hostOnce.Do(func() {
		_, priv, _ := ed25519.GenerateKey(rand.Reader)
		hostKey, _ = ssh.NewSignerFromKey(priv)
	})
	return hostKey
}

type side struct {
	h      *ssh.VerifHandshake
	wire   trace
	rmu    sync.Mutex
	recv   []string
	nrecv  atomic.Int64
	sub    []int // per writer: packets for which WritePacket returned nil
	werr   atomic.Int64
	maxp   atomic.Int64
	closed atomic.Bool
}

func (s *side) reader() {
	for {
		p, err := s.h.ReadPacket()
		if err != nil {
			return
		}
		if len(p) >= 6 && p[0] == appType && p[1] == 0xA5 {
			s.rmu.Lock()
			s.recv = append(s.recv, fmt.Sprintf("%d.%d", p[2], int(p[3])<<16|int(p[4])<<8|int(p[5])))
			s.rmu.Unlock()
			s.nrecv.Add(1)
		}
	}
}

func (s *side) recvString() string {
	s.rmu.Lock()
	defer s.rmu.Unlock()
	if len(s.recv) == 0 {
		return "-"
	}
	return strings.Join(s.recv, ",")
}

func execRK(o hx.Op) string {
	r := hx.NewRand(o.U64("seed"))
	cw, sw, n := o.Int("cw"), o.Int("sw"), o.Int("n")
	size, req, stallMode, yield := o.Int("size"), o.Int("req"), o.Int("stall"), o.Int("yield")
	stall := stallMode != 0
	a, b := newHalf(), newHalf() // a: client→server bytes, b: server→client bytes
	if o.Has("bcap") {
		a.cap, b.cap = o.Int("bcap"), o.Int("bcap")
	}
	fixed := o.Str("fix") == "1"
	cconn, sconn := &duplex{r: b, w: a}, &duplex{r: a, w: b}
	var cs, ss side
	cs.sub, ss.sub = make([]int, cw), make([]int, sw)
	cv, sv := []byte("SSH-2.0-verifC"), []byte("SSH-2.0-verifS")
	ccfg := &ssh.ClientConfig{User: "u", HostKeyCallback: ssh.InsecureIgnoreHostKey()}
	ccfg.KeyExchanges = []string{"curve25519-sha256"}
	ccfg.HostKeyAlgorithms = []string{"ssh-ed25519"}
	ccfg.RekeyThreshold = o.U64("thr")
	ccfg.Ciphers = []string{o.Str("cipher")}
	scfg := &ssh.ServerConfig{NoClientAuth: true}
	scfg.KeyExchanges = []string{"curve25519-sha256"}
	scfg.RekeyThreshold = o.U64("sthr")
	scfg.AddHostKey(signer())
	cs.h = ssh.VerifNewClientHandshakeRec2(cconn, cv, sv, ccfg, cs.wire.rec)
	ss.h = ssh.VerifNewServerHandshakeRec2(sconn, cv, sv, scfg, ss.wire.rec)
	errc := make(chan error, 2)
	go func() { errc <- cs.h.WaitSession() }()
	go func() { errc <- ss.h.WaitSession() }()
	status := "ok"
	for i := 0; i < 2; i++ {
		select {
		case err := <-errc:
			if err != nil {
				status = "err"
			}
		case <-time.After(10 * time.Second):
			status = "hang"
		}
	}
	finish := func() string {
		cconn.Close()
		sconn.Close()
		go cs.h.Close()
		go ss.h.Close()
		return fmt.Sprintf("r st=%s cwire=%s swire=%s crecv=%s srecv=%s csub=%s ssub=%s cerr=%d serr=%d maxp=%d maxps=%d ck=%d sk=%d",
			status, cs.wire.String(), ss.wire.String(), cs.recvString(), ss.recvString(), hx.JoinInts(cs.sub), hx.JoinInts(ss.sub),
			cs.werr.Load(), ss.werr.Load(), cs.maxp.Load(), ss.maxp.Load(), cs.wire.kex, ss.wire.kex) + fmt.Sprintf(" qidle=%v/%v", cs.closed.Load(), ss.closed.Load())
	}
	if status != "ok" {
		return finish()
	}
	go cs.reader()
	go ss.reader()

	var stop atomic.Bool
	// monitor: samples the pending-queue length; in a stall run it re-opens the gate once the queue is full
	var mon sync.WaitGroup
	mon.Add(1)
	// the side whose key exchange is held open (its peer's bytes do not arrive), and the held-back direction
	stalled, held := &cs, b
	if stallMode == 2 {
		stalled, held = &ss, a
	}
	both := stallMode == 3 // both directions held, both sides start a key exchange, both queue application data
	if both {
		a.gate(true)
		b.gate(true)
		cs.h.RequestKeyExchange()
		ss.h.RequestKeyExchange()
		t0 := time.Now()
		for time.Since(t0) < 5*time.Second { // writers start once both KEXINITs are out: everything they write is queued
			k1, _ := cs.h.KexState()
			k2, _ := ss.h.KexState()
			if k1 && k2 {
				break
			}
			time.Sleep(100 * time.Microsecond)
		}
	} else if stall {
		held.gate(true)
		stalled.h.RequestKeyExchange()
	}
	go func() {
		defer mon.Done()
		t0 := time.Now()
		fullSince := time.Time{}
		gated := stall
		for !stop.Load() {
			for _, s := range []*side{&cs, &ss} {
				k, p := s.h.KexState()
				if int64(p) > s.maxp.Load() {
					s.maxp.Store(int64(p))
				}
				if !k && p > 0 { // packets queued although no key exchange is in progress: must never be observable
					s.closed.Store(true)
				}
			}
			if gated && both {
				_, p1 := cs.h.KexState()
				_, p2 := ss.h.KexState()
				want := n
				if want > 40 {
					want = 40
				}
				if (p1 >= want && p2 >= want) || time.Since(t0) > 3*time.Second {
					a.gate(false)
					b.gate(false)
					gated = false
				}
			} else if gated {
				_, p := stalled.h.KexState()
				if p >= ssh.VerifMaxPendingPackets && fullSince.IsZero() {
					fullSince = time.Now()
				}
				// open when the queue has been full for a moment (writers are parked), or after 1.5 s at the latest
				if (!fullSince.IsZero() && time.Since(fullSince) > 30*time.Millisecond) || time.Since(t0) > 1500*time.Millisecond {
					held.gate(false)
					gated = false
				}
			}
			time.Sleep(100 * time.Microsecond)
		}
		held.gate(false)
		a.gate(false)
		b.gate(false)
	}()

	var wg sync.WaitGroup
	writer := func(s *side, w int, rr *hx.Rand) {
		defer wg.Done()
		buf := make([]byte, 6+size) // one buffer per writer, reused: writePacket must not keep a reference
		for k := 0; k < n; k++ {
			p := buf[:6+rr.Intn(size+1)]
			if fixed {
				p = buf[:6+size]
			}
			p[0], p[1], p[2] = appType, 0xA5, byte(w)
			p[3], p[4], p[5] = byte(k>>16), byte(k>>8), byte(k)
			if err := s.h.WritePacket(p); err != nil {
				s.werr.Add(1)
				return
			}
			s.sub[w]++
			switch {
			case yield == 1 && rr.Chance(1, 3):
				runtime.Gosched()
			case yield == 2 && rr.Chance(1, 4):
				time.Sleep(time.Duration(rr.Intn(200)) * time.Microsecond)
			}
		}
	}
	for w := 0; w < cw; w++ {
		wg.Add(1)
		go writer(&cs, w, r.Fork())
	}
	for w := 0; w < sw; w++ {
		wg.Add(1)
		go writer(&ss, w, r.Fork())
	}
	// explicit re-key requests from both sides at random moments
	for i, s := range []*side{&cs, &ss} {
		rr := r.Fork()
		_ = i
		wg.Add(1)
		go func(s *side) {
			defer wg.Done()
			for k := 0; k < req; k++ {
				time.Sleep(time.Duration(rr.Intn(400)) * time.Microsecond)
				s.h.RequestKeyExchange()
			}
		}(s)
	}
	done := make(chan struct{})
	go func() { wg.Wait(); close(done) }()
	select {
	case <-done:
	case <-time.After(25 * time.Second):
		status = "hang"
	}
	if status == "ok" {
		// everything that was accepted must arrive at the peer
		wantS, wantC := int64(0), int64(0)
		for _, c := range cs.sub {
			wantS += int64(c)
		}
		for _, c := range ss.sub {
			wantC += int64(c)
		}
		t0 := time.Now()
		for ss.nrecv.Load() < wantS || cs.nrecv.Load() < wantC {
			if time.Since(t0) > 15*time.Second {
				status = "lost"
				break
			}
			time.Sleep(200 * time.Microsecond)
		}
		// let a key exchange that is still running finish (its packets are already recorded either way)
		// (a re-key requested by the last pushes is started by kexLoop within moments: wait until both sides have
		// been idle for 20 ms in a row, so that its KEXINIT is part of the recorded wire)
		t1 := time.Now()
		idleSince := time.Now()
		for time.Since(t1) < 5*time.Second {
			k1, _ := cs.h.KexState()
			k2, _ := ss.h.KexState()
			if k1 || k2 {
				idleSince = time.Now()
			} else if time.Since(idleSince) > 20*time.Millisecond {
				break
			}
			time.Sleep(200 * time.Microsecond)
		}
	}
	if status != "ok" { // unblock whatever is stuck inside the transport (it may hold t.mu) before joining the monitor
		cconn.Close()
		sconn.Close()
	}
	stop.Store(true)
	mon.Wait()
	return finish()
}

// execFailKex: a re-key whose host key check fails while q application packets are queued.
func execFailKex(o hx.Op) string {
	q := o.Int("n")
	a, b := newHalf(), newHalf()
	cconn, sconn := &duplex{r: b, w: a}, &duplex{r: a, w: b}
	var cs, ss side
	var calls atomic.Int64
	ccfg := &ssh.ClientConfig{User: "u", HostKeyCallback: func(string, net.Addr, ssh.PublicKey) error {
		if calls.Add(1) >= 2 {
			return errors.New("host key rejected on re-key")
		}
		return nil
	}}
	ccfg.KeyExchanges = []string{"curve25519-sha256"}
	ccfg.Ciphers = []string{o.Str("cipher")}
	scfg := &ssh.ServerConfig{NoClientAuth: true}
	scfg.AddHostKey(signer())
	cv, sv := []byte("SSH-2.0-verifC"), []byte("SSH-2.0-verifS")
	cs.h = ssh.VerifNewClientHandshakeRec2(cconn, cv, sv, ccfg, cs.wire.rec)
	ss.h = ssh.VerifNewServerHandshakeRec2(sconn, cv, sv, scfg, ss.wire.rec)
	defer func() { cconn.Close(); sconn.Close(); go cs.h.Close(); go ss.h.Close() }()
	errc := make(chan error, 2)
	go func() { errc <- cs.h.WaitSession() }()
	go func() { errc <- ss.h.WaitSession() }()
	for i := 0; i < 2; i++ {
		select {
		case err := <-errc:
			if err != nil {
				return "r st=err fk=0 cwire=" + cs.wire.String()
			}
		case <-time.After(10 * time.Second):
			return "r st=hang fk=0 cwire=" + cs.wire.String()
		}
	}
	go cs.reader()
	go ss.reader()
	b.gate(true)
	cs.h.RequestKeyExchange()
	t0 := time.Now()
	for {
		if k, _ := cs.h.KexState(); k || time.Since(t0) > 5*time.Second {
			break
		}
		time.Sleep(100 * time.Microsecond)
	}
	for k := 0; k < q; k++ {
		cs.h.WritePacket([]byte{appType, 0xA5, 0, 0, 0, byte(k)})
	}
	b.gate(false) // the server's KEXINIT and reply arrive, the host key callback rejects
	// wait until the failed key exchange has been wound up (sentInitMsg cleared) …
	t0 = time.Now()
	for time.Since(t0) < 5*time.Second {
		if k, _ := cs.h.KexState(); !k {
			break
		}
		time.Sleep(100 * time.Microsecond)
	}
	// … from then on every write must fail
	wok := 0
	for k := 0; k < 20; k++ {
		if err := cs.h.WritePacket([]byte{appType, 0xA5, 1, 0, 0, byte(k)}); err == nil {
			wok++
		}
		time.Sleep(200 * time.Microsecond)
	}
	// application packets recorded after the last KEXINIT
	cs.wire.mu.Lock()
	fk := 0
	for i := len(cs.wire.tok) - 1; i >= 0 && cs.wire.tok[i] != "K"; i-- {
		if strings.HasPrefix(cs.wire.tok[i], "a") {
			fk++
		}
	}
	cs.wire.mu.Unlock()
	return fmt.Sprintf("r st=failkex fk=%d wok=%d cwire=%s", fk, wok, cs.wire.String())
}

// execCloseKex: Close() on the client while its re-key is open, the queue is full and writers are parked.
func execCloseKex(o hx.Op) string {
	nw := o.Int("cw")
	a, b := newHalf(), newHalf()
	cconn, sconn := &duplex{r: b, w: a}, &duplex{r: a, w: b}
	var cs, ss side
	ccfg := &ssh.ClientConfig{User: "u", HostKeyCallback: ssh.InsecureIgnoreHostKey()}
	ccfg.KeyExchanges = []string{"curve25519-sha256"}
	ccfg.Ciphers = []string{o.Str("cipher")}
	scfg := &ssh.ServerConfig{NoClientAuth: true}
	scfg.AddHostKey(signer())
	cv, sv := []byte("SSH-2.0-verifC"), []byte("SSH-2.0-verifS")
	cs.h = ssh.VerifNewClientHandshakeRec2(cconn, cv, sv, ccfg, cs.wire.rec)
	ss.h = ssh.VerifNewServerHandshakeRec2(sconn, cv, sv, scfg, ss.wire.rec)
	defer func() { cconn.Close(); sconn.Close(); go ss.h.Close() }()
	errc := make(chan error, 2)
	go func() { errc <- cs.h.WaitSession() }()
	go func() { errc <- ss.h.WaitSession() }()
	for i := 0; i < 2; i++ {
		select {
		case err := <-errc:
			if err != nil {
				return "r st=err closeret=0 released=0 wok=0 fk=0 cwire=" + cs.wire.String()
			}
		case <-time.After(10 * time.Second):
			return "r st=hang closeret=0 released=0 wok=0 fk=0 cwire=" + cs.wire.String()
		}
	}
	go cs.reader()
	go ss.reader()
	b.gate(true)
	cs.h.RequestKeyExchange()
	t0 := time.Now()
	for time.Since(t0) < 5*time.Second {
		if k, _ := cs.h.KexState(); k {
			break
		}
		time.Sleep(100 * time.Microsecond)
	}
	// writers: write until an error comes back — they fill the queue (64) and park
	var wg sync.WaitGroup
	var werrs atomic.Int64
	for w := 0; w < nw; w++ {
		wg.Add(1)
		go func(w int) {
			defer wg.Done()
			for k := 0; k < 100000; k++ {
				if err := cs.h.WritePacket([]byte{appType, 0xA5, byte(w), byte(k >> 16), byte(k >> 8), byte(k)}); err != nil {
					werrs.Add(1)
					return
				}
			}
		}(w)
	}
	t0 = time.Now()
	for time.Since(t0) < 5*time.Second {
		if k, p := cs.h.KexState(); k && p >= ssh.VerifMaxPendingPackets {
			break
		}
		time.Sleep(100 * time.Microsecond)
	}
	time.Sleep(20 * time.Millisecond) // the remaining writers are parked in writeCond.Wait by now
	closed := make(chan struct{})
	go func() { cs.h.Close(); close(closed) }()
	closeret, released := 0, 0
	select {
	case <-closed:
		closeret = 1
	case <-time.After(10 * time.Second):
	}
	done := make(chan struct{})
	go func() { wg.Wait(); close(done) }()
	select {
	case <-done:
		if int(werrs.Load()) == nw { // every writer ended with an error (none ran to completion: 40·nw > 64)
			released = 1
		}
	case <-time.After(10 * time.Second):
	}
	wok := 0
	for k := 0; k < 10; k++ {
		if err := cs.h.WritePacket([]byte{appType, 0xA5, 200, 0, 0, byte(k)}); err == nil {
			wok++
		}
	}
	cs.wire.mu.Lock()
	fk := 0
	for i := len(cs.wire.tok) - 1; i >= 0 && cs.wire.tok[i] != "K"; i-- {
		if strings.HasPrefix(cs.wire.tok[i], "a") {
			fk++
		}
	}
	cs.wire.mu.Unlock()
	return fmt.Sprintf("r st=closed closeret=%d released=%d wok=%d fk=%d cwire=%s", closeret, released, wok, fk, cs.wire.String())
}

func exec(line string) string {
	o := hx.Parse(line)
	if o.Cmd != "rk" {
		return "bad-op"
	}
	if o.Str("closekex") == "1" {
		return execCloseKex(o)
	}
	if o.Str("failkex") == "1" {
		return execFailKex(o)
	}
	return execRK(o)
}

func gen(g *hx.Gen) {
	r := g.R
	total := g.Count(180, 20000)
	ciphers := []string{"aes128-ctr", "aes128-gcm@openssh.com", "chacha20-poly1305@openssh.com"}
	// error path (regression for the fixed defect d4069c3): a re-key that fails its host key check while packets are queued
	for _, q := range []int{1, 10, 64} {
		g.Emit("rk seed=%d cw=1 sw=0 n=%d thr=0 sthr=0 size=0 req=0 stall=0 yield=0 cipher=%s failkex=1", r.U64()>>1, q, hx.Pick(r, ciphers))
		g.Stat("failkex")
	}
	// Close() during a key exchange with parked writers
	for _, c := range ciphers {
		g.Emit("rk seed=%d cw=%d sw=0 n=40 thr=0 sthr=0 size=0 req=0 stall=0 yield=0 cipher=%s closekex=1", r.U64()>>1, r.Range(2, 6), c)
		g.Stat("closekex")
		g.Stat("pair.close-during-kex+" + c)
	}
	// both sides queue more application data during a key exchange than the connection buffers hold (64 KiB pipe,
	// 40 × 8 KiB queued per side): the read loops must be released before the queues are flushed
	for _, c := range ciphers {
		g.Emit("rk seed=%d cw=1 sw=1 n=40 thr=%d sthr=%d size=8192 req=0 stall=3 yield=0 cipher=%s bcap=65536 fix=1", r.U64()>>1, 1<<30, 1<<30, c)
		g.Emit("rk seed=%d cw=2 sw=2 n=30 thr=%d sthr=%d size=4096 req=1 stall=3 yield=1 cipher=%s bcap=16384 fix=1", r.U64()>>1, 1<<30, 1<<30, c)
		g.Stat("bounded-pipe.both-queued")
		g.Stat("pair.bounded-pipe+" + c)
	}
	// RekeyThreshold edge values on both sides (0 = cipher default, 255 → 256, 2^63 and 2^64−1 → 2^63−1)
	edges := []uint64{0, 255, 256, 257, 1 << 63, 1<<64 - 1, 1<<63 - 1}
	for i, e := range edges {
		for j, c := range ciphers {
			se := edges[(i+j+1)%len(edges)]
			g.Emit("rk seed=%d cw=%d sw=%d n=%d thr=%d sthr=%d size=%d req=%d stall=%d yield=1 cipher=%s", r.U64()>>1, r.Range(1, 4), r.Range(1, 3), r.Range(20, 45), e, se, r.PickInt(0, 40), r.PickInt(1, 3), (i+j)%3, c)
			g.Stat(fmt.Sprintf("thr.edge.%d", e))
			g.Stat(fmt.Sprintf("pair.thr-edge:%d+%s", e, c))
		}
	}
	g.Stat(fmt.Sprintf("table.rekeyBytes=%d/%d", 2, 2)) // AES arm (ctr, gcm) and the default arm (chacha20-poly1305) with thr=0
	for i := 0; i < total; i++ {
		cw := r.Range(1, 8)
		sw := r.PickInt(0, 0, 1, 2, 4)
		n := r.Range(5, 60)
		thr := r.PickInt(256, 256, 300, 512, 1024, 4096, 1<<20)
		sthr := r.PickInt(256, 512, 2048, 1<<20)
		size := r.PickInt(0, 10, 60, 200, 600)
		req := r.PickInt(0, 0, 1, 3, 10)
		stall := 0
		if i%5 == 0 { // queue overflow: the peer's answers are held back until 64 packets are queued
			stall = 1
			cw = r.Range(2, 8)
			n = r.Range(40, 70)
			g.Stat("stall")
		} else if i%5 == 1 { // the same on the server side: the server initiates, the client's answers are held back
			stall = 2
			sw = r.Range(2, 4)
			n = r.Range(40, 70)
			g.Stat("stall.server-side")
		}
		yield := r.Intn(3)
		cipher := ciphers[i%len(ciphers)]
		g.Emit("rk seed=%d cw=%d sw=%d n=%d thr=%d sthr=%d size=%d req=%d stall=%d yield=%d cipher=%s", r.U64()>>1, cw, sw, n, thr, sthr, size, req, stall, yield, cipher)
		// feature pairs
		feats := []string{cipher, fmt.Sprintf("stall%d", stall)}
		if thr <= 512 {
			feats = append(feats, "small-threshold")
		}
		if req > 0 {
			feats = append(feats, "explicit-rekey")
		}
		if sw > 0 {
			feats = append(feats, "server-writers")
		}
		if cw > 1 {
			feats = append(feats, "many-writers")
		}
		if size >= 200 {
			feats = append(feats, "big-packets")
		}
		for x := 0; x < len(feats); x++ {
			for y := x + 1; y < len(feats); y++ {
				g.Stat("pair." + feats[x] + "+" + feats[y])
			}
		}
		g.Stat(fmt.Sprintf("cw.%d", cw))
		if thr <= 512 {
			g.Stat("thr.small")
		}
		if req > 0 {
			g.Stat("explicit-rekey")
		}
	}
}

func main() { hx.Main(hx.Harness{Gen: gen, Exec: exec, OpTimeout: 150 * time.Second}) }
