// Command mutate enumerates and applies small syntactic mutations to one Go
// source file (self red-team of the checks; see DESIGN.md §10b). It is not part
// of any registered check.
//
//	mutate -file F [-funcs RE] -list            one line per mutant: idx<TAB>op<TAB>line<TAB>func<TAB>description
//	mutate -file F [-funcs RE] -apply K -out P  write the K-th mutant of F to P
package main

import (
	"flag"
	"fmt"
	"go/ast"
	"go/parser"
	"go/token"
	"os"
	"regexp"
	"sort"
	"strconv"
	"strings"
)

type mutant struct {
	op         string
	start, end int // byte offsets in src replaced by repl
	repl       string
	line       int
	fn         string
	desc       string
}

var swap = map[token.Token]string{
	token.LSS: "<=", token.LEQ: "<", token.GTR: ">=", token.GEQ: ">",
	token.EQL: "!=", token.NEQ: "==", token.ADD: "-", token.SUB: "+",
	token.LAND: "||", token.LOR: "&&", token.AND: "|", token.OR: "&",
	token.SHL: ">>", token.SHR: "<<", token.XOR: "&", token.MUL: "+",
	token.REM: "/", token.AND_NOT: "&",
}

func main() {
	file := flag.String("file", "", "Go source file")
	funcs := flag.String("funcs", "", "regexp on enclosing function name (Recv.Name or Name)")
	list := flag.Bool("list", false, "list mutants")
	apply := flag.Int("apply", -1, "mutant index to apply")
	out := flag.String("out", "", "output path for -apply")
	flag.Parse()
	src, err := os.ReadFile(*file)
	if err != nil {
		fmt.Fprintln(os.Stderr, err)
		os.Exit(2)
	}
	fset := token.NewFileSet()
	f, err := parser.ParseFile(fset, *file, src, 0)
	if err != nil {
		fmt.Fprintln(os.Stderr, err)
		os.Exit(2)
	}
	var re *regexp.Regexp
	if *funcs != "" {
		re = regexp.MustCompile(*funcs)
	}
	off := func(p token.Pos) int { return fset.Position(p).Offset }
	var ms []mutant
	for _, d := range f.Decls {
		fd, ok := d.(*ast.FuncDecl)
		if !ok || fd.Body == nil {
			continue
		}
		name := fd.Name.Name
		if fd.Recv != nil && len(fd.Recv.List) > 0 {
			t := fd.Recv.List[0].Type
			if s, ok := t.(*ast.StarExpr); ok {
				t = s.X
			}
			if ix, ok := t.(*ast.IndexExpr); ok {
				t = ix.X
			}
			if id, ok := t.(*ast.Ident); ok {
				name = id.Name + "." + name
			}
		}
		if re != nil && !re.MatchString(name) {
			continue
		}
		add := func(op string, s, e int, repl string, pos token.Pos, desc string) {
			ms = append(ms, mutant{op, s, e, repl, fset.Position(pos).Line, name, desc})
		}
		stmtList := func(l []ast.Stmt) {
			for _, s := range l {
				switch st := s.(type) {
				case *ast.ExprStmt:
					add("delstmt", off(st.Pos()), off(st.End()), "{}", st.Pos(), "delete call statement")
				case *ast.AssignStmt:
					if st.Tok != token.DEFINE {
						add("delstmt", off(st.Pos()), off(st.End()), "{}", st.Pos(), "delete assignment")
					}
				case *ast.IncDecStmt:
					add("delstmt", off(st.Pos()), off(st.End()), "{}", st.Pos(), "delete inc/dec")
				}
			}
		}
		ast.Inspect(fd.Body, func(n ast.Node) bool {
			switch x := n.(type) {
			case *ast.BinaryExpr:
				if r, ok := swap[x.Op]; ok {
					// skip string concatenation-looking '+' on literals
					if bl, ok := x.X.(*ast.BasicLit); ok && bl.Kind == token.STRING {
						break
					}
					if bl, ok := x.Y.(*ast.BasicLit); ok && bl.Kind == token.STRING {
						break
					}
					add("binop", off(x.OpPos), off(x.OpPos)+len(x.Op.String()), r, x.OpPos, x.Op.String()+" -> "+r)
				}
			case *ast.BasicLit:
				if x.Kind == token.INT {
					if v, err := strconv.ParseUint(strings.ReplaceAll(x.Value, "_", ""), 0, 64); err == nil && v < 1<<62 {
						add("intlit", off(x.Pos()), off(x.End()), strconv.FormatUint(v+1, 10), x.Pos(), x.Value+" -> "+strconv.FormatUint(v+1, 10))
						if v > 0 {
							add("intlit", off(x.Pos()), off(x.End()), strconv.FormatUint(v-1, 10), x.Pos(), x.Value+" -> "+strconv.FormatUint(v-1, 10))
						}
					}
				}
			case *ast.IfStmt:
				s, e := off(x.Cond.Pos()), off(x.Cond.End())
				c := string(src[s:e])
				add("iftrue", s, e, "true || ("+c+")", x.Cond.Pos(), "if-condition forced true")
				add("iffalse", s, e, "false && ("+c+")", x.Cond.Pos(), "if-condition forced false")
			case *ast.UnaryExpr:
				if x.Op == token.NOT {
					add("delnot", off(x.OpPos), off(x.OpPos)+1, "", x.OpPos, "remove !")
				}
			case *ast.BlockStmt:
				stmtList(x.List)
			case *ast.CaseClause:
				stmtList(x.Body)
			case *ast.CommClause:
				stmtList(x.Body)
			}
			return true
		})
	}
	sort.SliceStable(ms, func(i, j int) bool { return ms[i].start < ms[j].start })
	if *list {
		for i, m := range ms {
			fmt.Printf("%d\t%s\t%d\t%s\t%s\n", i, m.op, m.line, m.fn, m.desc)
		}
		return
	}
	if *apply < 0 || *apply >= len(ms) || *out == "" {
		fmt.Fprintln(os.Stderr, "need -list, or -apply K (0 <= K <", len(ms), ") with -out")
		os.Exit(2)
	}
	m := ms[*apply]
	res := string(src[:m.start]) + m.repl + string(src[m.end:])
	if err := os.WriteFile(*out, []byte(res), 0o644); err != nil {
		fmt.Fprintln(os.Stderr, err)
		os.Exit(2)
	}
}
