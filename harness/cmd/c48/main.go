// C48 — OCSP: ParseResponseForCert / ParseRequest decision logic and the CreateResponse / CreateRequest
// field mapping. The harness owns an independent copy of the RFC 6960 ASN.1 schema: it builds responses
// and requests itself, and it extracts from any byte string the facts (what encoding/asn1 and crypto/x509
// say about it, including which signatures verify) that the Lean decision model takes as input.
package main

import (
	"bytes"
	"crypto"
	"crypto/ecdsa"
	"crypto/ed25519"
	"crypto/elliptic"
	"crypto/rsa"
	_ "crypto/sha1"
	_ "crypto/sha256"
	_ "crypto/sha512"
	"crypto/x509"
	"crypto/x509/pkix"
	"encoding/asn1"
	"encoding/hex"
	"fmt"
	"math/big"
	"sort"
	"strconv"
	"strings"
	"time"

	"golang.org/x/crypto/ocsp"
	"verifharness/hx"
)

// ---------------------------------------------------------------- fixed PKI (generated once, embedded)

type entity struct {
	name string
	key  crypto.Signer
	cert *x509.Certificate
	styp string
	by   int // id of the entity that signed the certificate
}

var raw = []struct{ name, key, cert string }{
	{"Issuer RSA", "308204be020100300d06092a864886f70d0101010500048204a8308204a40201000282010100cc48d0c9983a776edae1c4e5a4f18abcc1c27f0d328b78328acc48361da2a6a6d4f2075b50ce1de6c932b053ebff8dd3f909f70c113749dbd505296f95dd1cef6057a982f14a6f96e46383b68a63e2831f7a0fe211ce21c6794facd6fc6d5589b863984e4f9b825eba01ce68dda9b94cb5e5a6b59b7874e44e5f1a3a67cd3a723e66f19f1ad52d8407fb24f0a5b86a3ed2ea290bdc9582d66df32ce1847a69ad9dc32edf28f4d7a8d2ba08b5075121a985e64571eaa590f8f54538ffe975dae6a7fc447b7a62e6c3c1ff302793070d7e23a1f06f72eed42d6b1f036f161b8f74e10eb0e78f3fed70bc14c3287785b526093f1124c8a12a04db61b8ab16a865fd020301000102820100618bcb96d7c7e34bdddcbca66392ab0ae302baa454a4606ad1f825eb214f8f804e629bbcb0e31b481e7ec3cfeefb02805b84b4a0e07fa41702ab0a542c1d7f3996a98559ef59f9daf587c7571cd20151577073b1218b6a7959680042501aed236c16b29d8249e180d61512b8e44fad19c229bce72f2bdfb53cef10991f03d289ec36d923b504b428fdc1a60bd2e4725299e64140540e3ec10e8223a466387bf755585faf990e46f0dd15ed533c21ed2f8de886a9c92fdf970146521afa9f01dfd973aa96fbc76de16963371872d31a44d7479cb7729b0c13b82c70d57b2a7bcd3424bfb1948c84e6e5665dd15ae0e38a0735e2cdd00927f8eb8227fca7b95c4902818100d9e15326dacc316af0fbbc8a14b9c15d707cfa03845b7491b1aa6fac64d8cebb17a773a70d77bcea0730e64731c4b69cc5356bbd54c50fbcbb0e481c7188121182feb762daa9c4bbc3aef275b67758df45274be0176d577a90ca435843691cd2c8d584f6f8f97d713dbad773ab600a265dbaf4fc91f2478daf4685881cc379f702818100f0068c77d6fe8d9d6b01894e8ea2f6812e213e3a27303326ddcc47aeab97931018005e0b30c24b863c2878763b5640a9ad98cfbd314ae4d138395e122c4eff4ebea3e48a4c0030fe9fe3a20a106de5150c493b9452032cc4e16e2ef3a16f3aa1d552e044844b2b98fd59e0c7866a2afba7c95546929b835ffe38a753576e02ab02818100d91b05d879bd6ea0b9709ef698a06065d3693557bbd3c5dc47c525720b2b5f145f05a4e09932ef33e3e67e10032f9927adfb0558abd7914ee6b5dc753b4bf3752faad0e1d831c2afb6d5e51416b5e600d4cfcb7388e4937eb63855d2e5991ff789d7f99e7f895bce334cb2d3b7b903642791dbfcb11152eb83f429aaefbe79110281801d560f910e1bea9f14d7093b2abfcc3519b8426cc52164ff1918c0a21ea2d5fc9f925bec2e377117a4fea54a7e121ab122608cf368b4e8a691a2a156c3479c78b9603aac9481697b957b32f0dbf5328c9205d95c5571c1e506507b3897c08a80011cb2006dd2ea2f36b7e77b3b787a6c6ba375e2bc4479981ff038b33cfa5b2502818100accc9c27702d4b769530525bdbf6f47a290e87f2ec54cb6e8ac94ea34a6cceffc4a40e0750c27e65edb94c99805986485dda6a23b98037bfcc3fec205dc78dd7c21ea481d510443834ce666499f6074833ec34ea2da2998a32da3760c7c293f1150a384803bbb2665ceb5595d4cba66feffcf947195c4a03aa7f00e9e5b4fd82", "30820307308201efa003020102020101300d06092a864886f70d01010b05003025310e300c060355040a13057665726966311330110603550403130a49737375657220525341301e170d3230303130313030303030305a170d3430303130313030303030305a3025310e300c060355040a13057665726966311330110603550403130a4973737565722052534130820122300d06092a864886f70d01010105000382010f003082010a0282010100cc48d0c9983a776edae1c4e5a4f18abcc1c27f0d328b78328acc48361da2a6a6d4f2075b50ce1de6c932b053ebff8dd3f909f70c113749dbd505296f95dd1cef6057a982f14a6f96e46383b68a63e2831f7a0fe211ce21c6794facd6fc6d5589b863984e4f9b825eba01ce68dda9b94cb5e5a6b59b7874e44e5f1a3a67cd3a723e66f19f1ad52d8407fb24f0a5b86a3ed2ea290bdc9582d66df32ce1847a69ad9dc32edf28f4d7a8d2ba08b5075121a985e64571eaa590f8f54538ffe975dae6a7fc447b7a62e6c3c1ff302793070d7e23a1f06f72eed42d6b1f036f161b8f74e10eb0e78f3fed70bc14c3287785b526093f1124c8a12a04db61b8ab16a865fd0203010001a3423040300e0603551d0f0101ff040403020284300f0603551d130101ff040530030101ff301d0603551d0e04160414633ba9aea1bb941f1a5c9cb85914fad5a09c169f300d06092a864886f70d01010b050003820101008b5bfcb53dddddf71db5d9d02da4d16c65a2165909972b8ecd7a0381639471cf199134a2af3422c369748ebd0592518414fde04fa5e549332d0ddf86a0c7a3d7e8d9a37c895dbed08d0b48fc5e900107319e646ad360931c4f83f3d1f15a6ce0c8263ea8cc1905444a26cec2e8ddbc208d6c824061888a2fecef19e08933fba407671c666a48a2f0b6333d851eb12c9ff50afd03a23222a5709353041d5ffaa871845938155f68a3df1bee34506b0ad8375b0080c9df42462aec55bd1813eb467042144cd3873aca294fcd9e7fefc0464ecba95719159a50d21c702781705bf3d7179137b70e17ec6787541c913298bc19e1cbef658dded371ecdfc2bdd0cf69"},
	{"Issuer EC", "308187020100301306072a8648ce3d020106082a8648ce3d030107046d306b0201010420004752c0f8b074c2cb8c76fd19bb9ec17390c6f0db4dbea4853bb923d8a16bdea144034200042a4df9dac8c85760215310ae3c24ed8bd15b62f5cc894a8ef5df52d488c96009c0c0854aa4abd212651286e7b309a08c29b991eccee96f6e7b7860bc7f26dd55", "3082017a3082011fa003020102020102300a06082a8648ce3d0403023024310e300c060355040a130576657269663112301006035504031309497373756572204543301e170d3230303130313030303030305a170d3430303130313030303030305a3024310e300c060355040a1305766572696631123010060355040313094973737565722045433059301306072a8648ce3d020106082a8648ce3d030107034200042a4df9dac8c85760215310ae3c24ed8bd15b62f5cc894a8ef5df52d488c96009c0c0854aa4abd212651286e7b309a08c29b991eccee96f6e7b7860bc7f26dd55a3423040300e0603551d0f0101ff040403020284300f0603551d130101ff040530030101ff301d0603551d0e04160414df534a4fc5612d582851d6dd328e5f5b18ef7766300a06082a8648ce3d04030203490030460221009fabcb1169ffc5ee00214324dcb80ec04d3f3c679c78616a704480c54e0c711f022100df7dadca6f79067340c76fba6003ba8ca70e80722c9276873d7b86701753fed5"},
	{"Stranger CA", "3081b6020100301006072a8648ce3d020106052b8104002204819e30819b020101043083b3ea47a966977be8c1113bc291e0c5521f0cf32b2b7620bb60aae45236ef664da3934802da2f7bc0e7f163b2d77160a16403620004fef10b115fc2bfd14f6481043663717dbb951310d044d14bd42a8d14e6b37d326661c28b5191c1e7bc2114f6d201a8d728bbeb20a77dc3ed1bdbfa7b88390bb85d4b3203b02eec6043e963418c2de298fef0e50a4b0f9b2eb8ac2c9ee4fae520", "308201ba30820140a003020102020103300a06082a8648ce3d0403033026310e300c060355040a13057665726966311430120603550403130b537472616e676572204341301e170d3230303130313030303030305a170d3430303130313030303030305a3026310e300c060355040a13057665726966311430120603550403130b537472616e6765722043413076301006072a8648ce3d020106052b8104002203620004fef10b115fc2bfd14f6481043663717dbb951310d044d14bd42a8d14e6b37d326661c28b5191c1e7bc2114f6d201a8d728bbeb20a77dc3ed1bdbfa7b88390bb85d4b3203b02eec6043e963418c2de298fef0e50a4b0f9b2eb8ac2c9ee4fae520a3423040300e0603551d0f0101ff040403020284300f0603551d130101ff040530030101ff301d0603551d0e041604143a86da1976f9cff614d99d58e00472c8c4c75da9300a06082a8648ce3d0403030368003065023068dc338758fc61a1f7bf6234ae82c894e34be0b5f641704ae74ca20b587d8c556adfe92b9932971c4ad0dee970bfcc2e023100ff0d0df07c4d14ae75eb8204588e26b8da6d246f99d7adc9e7ba8c8de0c0eb4a9aa008a787d03057342032e26a2ae163"},
	{"Responder EC by Issuer RSA", "308187020100301306072a8648ce3d020106082a8648ce3d030107046d306b0201010420187566cf19bc1d8fb2fd63e561e6f19b60099862b97dda9115438eb8fd4dd776a144034200041e6d71be222664ee9802c8e08d530285df4a2a37ac98ba33d7a0cbbeb0a8a7e884af6334fe022b13f275de6999df20d2c8aba341d31f9dd2e00dc69a78edd09b", "3082026030820148a00302010202010b300d06092a864886f70d01010b05003025310e300c060355040a13057665726966311330110603550403130a49737375657220525341301e170d3230303130313030303030305a170d3430303130313030303030305a3035310e300c060355040a13057665726966312330210603550403131a526573706f6e64657220454320627920497373756572205253413059301306072a8648ce3d020106082a8648ce3d030107034200041e6d71be222664ee9802c8e08d530285df4a2a37ac98ba33d7a0cbbeb0a8a7e884af6334fe022b13f275de6999df20d2c8aba341d31f9dd2e00dc69a78edd09ba3563054300e0603551d0f0101ff04040302028430130603551d25040c300a06082b06010505070309300c0603551d130101ff04023000301f0603551d23041830168014633ba9aea1bb941f1a5c9cb85914fad5a09c169f300d06092a864886f70d01010b050003820101007b1e668f65cc143264d3103c1189f035e80807f67b2c603245cfc17bf9df11736c6cc37457fd05deeebb604f4bb4e9998b07538da74eb6da2ca549f79c5d2db460aa409794f2b325e901367085163f5c3eb7ff3a9ce70a27e1555a47a829979049c8f59e5314718bc0d333ffb8fb9ae259c263d11270e408646e8dc8595442882daf9a84eb23912dadcd26bee8b5a695983cdc33eda8efda1b8cc3b86b6ce2f9a1f39cee95d70e7deeb30ec640832ca06ffc8d5d31955a5219a7fdfd4d7ef73b90b0095350b38a9aac2412139aef2fc1410bbe97fdc9a6c0ad46ee61794ca84405a13d8a0fe2df260352c65f216844b02c2e77ca43bac296236f2634fd668155"},
	{"Responder RSA by Issuer EC", "308204bd020100300d06092a864886f70d0101010500048204a7308204a30201000282010100c7e391638c775ca8f9e4616f9217f6661eeed7400444c187c69f5ae9c2ad1a400957f4627fe4bcdfe7acde3f02f2af410c4cfaa56f05d38c15053cb782cb4e0665f8d98a1901649983667954de2fb8d19cb53e24ecd0ffdf649d2106f006c477837644043e69c2b1c33377d03d2085acda893ebbeb61178a016d71eb60544d784532c0f2f72851111eeb7a427f880551d1c658849706480e9244ec3e7cb72e23e8a30bca5e06481dfa87d0aa52aace55710e3834004e3b13a1b62f9fb897565909062030c0a956a5bb5c8a561c082a94043524e17911f1fa436e685b33fb1c31e3260141325472c7e2bdfe19b9571e20ee9761ce4d7da4874fd11b9f238a56650203010001028201000576a4bbf5667c160521f4c064ee914f64f70cd362af0dd842ebf867bd4405aef0f7025449c009c6b3383ccdb8f555713ddaf8c89113918c875969b9940dc23a0e4209238fdfb128a74aa398ea1932f7044e807555a0dcc8f5ea0e1f2f6c0b5c1a9d9ec572ec69640c7362ae8bb1be959be8ad47dba191994832b4e5b282323b41a9c0b4a61831fd567958f08e0975aae0ea2e562329337b9e7f91647d91acfea9874b2a86e48018eac989a0435004c7bfafef16fd1b170d302a4d16db0b36d792b565b515286f9bf63b107ee0ac71c61c108f3d13f48b378681860390edd4bf667971fb8fac219927a353bdb2fb0e876d1bfaad8950b65eb93c4aeecac71c0102818100eba02ca3e9422e996a64b2c7eda84dc20611fb6fb10838da9eb8dd9cffd4fd114982411bbcb8c2f0a1ea4c4b52a7871f6ceecbd8b4f13ce63a017b49c93bece14046e8a1c308bb51d52e97cda788d61f8d7232aef6f47724c3c852716bc10459a47345588a05c942bdc210ac86bbbb32508edf13c05b60e50d6832ec94c8fb0102818100d92c5297b4215ee7c3e773d8e0453a716f64d8d730c511304773a7a483d25ec1c7a927af0275c8592d10477f6e0ea83df90fc68171e5e1d1f8686efffbd784c10a7369c14126d0e25361ecf27e5a6f587f095c016b91806097fa5f17c48e756b9e6e8f56cfd61b283ca8cca25c54fabd6cc5a3090854c2027a0045945cca4f6502818100bbd0b6248556e2ac1919614469d4a0fe8a3625349769556035ea6783b08d069793ff8684647ee5ac4773ea129434c349325c7a1227d0aed958dd3b77ca36c10f9f5ba62ce2b8800faf9cef15d778042dac629db1c7597feac740532ee3543c7273da0a2994031eb4db6ae83d8d3bf0f01f3472ee5c82ba0e7a0c57a32ac9b501028180644474759a32f61067808b1a0ca1a9d409ac33f9568905e0967cad5fe584d13f02a1f4b2769e4ebbed7460ae52efed797f6e6b2604a2305ab327f467b7accf9c18e9246097660677182c542bb96ea38de64939f365e8adaeeb3c2b7f5bbeb233d7d80fd1f2ef5566846b22dfab6588c6c05b97646a3647c4c0f3332cc692998902818061270c84f2975edb00d9fe57c14ba75976a6cd944d88244398dcbc1953d268f4c627f71986d74780f0bc8d601b5627a9d941cb39eaa3f6e8ace859cf1e062a4a898fafaebe2cab63073b722d9f6ed7c3572c92eb3af7adc34baba8ecff4173efaa5ed754d16a9db6eb536c5f7ffc89a46657658ccc0ce718d1b6536836df1b4b", "308202693082020fa00302010202010c300a06082a8648ce3d0403023024310e300c060355040a130576657269663112301006035504031309497373756572204543301e170d3230303130313030303030305a170d3430303130313030303030305a3035310e300c060355040a13057665726966312330210603550403131a526573706f6e646572205253412062792049737375657220454330820122300d06092a864886f70d01010105000382010f003082010a0282010100c7e391638c775ca8f9e4616f9217f6661eeed7400444c187c69f5ae9c2ad1a400957f4627fe4bcdfe7acde3f02f2af410c4cfaa56f05d38c15053cb782cb4e0665f8d98a1901649983667954de2fb8d19cb53e24ecd0ffdf649d2106f006c477837644043e69c2b1c33377d03d2085acda893ebbeb61178a016d71eb60544d784532c0f2f72851111eeb7a427f880551d1c658849706480e9244ec3e7cb72e23e8a30bca5e06481dfa87d0aa52aace55710e3834004e3b13a1b62f9fb897565909062030c0a956a5bb5c8a561c082a94043524e17911f1fa436e685b33fb1c31e3260141325472c7e2bdfe19b9571e20ee9761ce4d7da4874fd11b9f238a56650203010001a3563054300e0603551d0f0101ff04040302028430130603551d25040c300a06082b06010505070309300c0603551d130101ff04023000301f0603551d23041830168014df534a4fc5612d582851d6dd328e5f5b18ef7766300a06082a8648ce3d0403020348003045022100ae08636829dc7b4c0b6e9be64969fa4df1f8d3b12980e06082ddfca918ecbbab02201505fec1c61d6cee61c63b06b4e7f28e146f3fe1c19a13042d34e60f43377325"},
	{"Responder P521 by Stranger", "3081ee020100301006072a8648ce3d020106052b810400230481d63081d3020101044201df3a1025e2246e695a8afeb8cd883816496175a80217b7c3dc7316e097724eec3ae58e6a4c16e71d62fad90956177704f21f51c21b96e79c8df960ccfbb9078f1aa18189038186000401281bdb79010c6ccc3c47c39c65288d648268d58001942f118e22801eb70b1fd037d149b4ac60af2c9d3b0e240caf5d8f3223faf9028acea7e5a632613337f5017601ad56c733d09cdade56ced269b9d3406454ea767e28ebffc8d949abe35a5377393e9ac4cb728b1398f9197c798ffd1567e1dd9400922f047f07b77c6f7667651fbe", "3082020330820189a00302010202010d300a06082a8648ce3d0403033026310e300c060355040a13057665726966311430120603550403130b537472616e676572204341301e170d3230303130313030303030305a170d3430303130313030303030305a3035310e300c060355040a13057665726966312330210603550403131a526573706f6e646572205035323120627920537472616e67657230819b301006072a8648ce3d020106052b81040023038186000401281bdb79010c6ccc3c47c39c65288d648268d58001942f118e22801eb70b1fd037d149b4ac60af2c9d3b0e240caf5d8f3223faf9028acea7e5a632613337f5017601ad56c733d09cdade56ced269b9d3406454ea767e28ebffc8d949abe35a5377393e9ac4cb728b1398f9197c798ffd1567e1dd9400922f047f07b77c6f7667651fbea3563054300e0603551d0f0101ff04040302028430130603551d25040c300a06082b06010505070309300c0603551d130101ff04023000301f0603551d230418301680143a86da1976f9cff614d99d58e00472c8c4c75da9300a06082a8648ce3d0403030368003065023020aef31d99219737c1da5a3aa90ea80ea6728bf8e9c96a436049f71b3dd749aba28ffc9f83182e2716f6660ed7268515023100b079d1e4b376719837430becff430031ad8b1ba12ebd31705de0e2c02c6ef99dac2b93377ae2ce5eb2f1c26f159e6940"},
	{"Responder P384 by Issuer RSA", "3081b6020100301006072a8648ce3d020106052b8104002204819e30819b0201010430d54c49df5c9e58dcc8609fa1064a353e50a3bb0e60390b09c4f8c608fc76d4af5616196b2ac6e5fa5c8a97c1c73d9191a164036200042ba16a5e3daf7c68f223da1cbec9d6dbbb6ad3e7c0078ea85cc119951f139179984b8906d1ae0e3521b5f0d6957d22e8ce05da29865407ecff2669c7a9de5b8fb72ce8cc0094d7e9db0066865db03997a61deeff7de08adfbc5cb6d31fb15f7c", "3082027f30820167a00302010202010e300d06092a864886f70d01010b05003025310e300c060355040a13057665726966311330110603550403130a49737375657220525341301e170d3230303130313030303030305a170d3430303130313030303030305a3037310e300c060355040a13057665726966312530230603550403131c526573706f6e646572205033383420627920497373756572205253413076301006072a8648ce3d020106052b81040022036200042ba16a5e3daf7c68f223da1cbec9d6dbbb6ad3e7c0078ea85cc119951f139179984b8906d1ae0e3521b5f0d6957d22e8ce05da29865407ecff2669c7a9de5b8fb72ce8cc0094d7e9db0066865db03997a61deeff7de08adfbc5cb6d31fb15f7ca3563054300e0603551d0f0101ff04040302028430130603551d25040c300a06082b06010505070309300c0603551d130101ff04023000301f0603551d23041830168014633ba9aea1bb941f1a5c9cb85914fad5a09c169f300d06092a864886f70d01010b050003820101008fffc80cbc11641838401a6cf54f0e386a0dae51e03ff80da65bd11a378f7c35c552c577f2290c8f6f6e9b779ff876218a15fe3fcb1e285533e097e78800b77bebbf4ade2d92f64f657de97db9ec882ddab4092374d2dbe16201e5e9ecd3aa8f823b01daea89973cf779ef331a0852066e49d54c3438414227979ce70f6bbbc688a182c7fc4019e799bb8ac80823d05fd84012c5c2ca3b1122f0e6466d971ab4e084560518ab2ce861a861af30e08c540cc4db6a3ae66a22fae0a70043fc2f9180d8cba0b20e1e212c2df8b4455fc1a77895d983a591253be23be274f190583723d440f573c00658586221213156a510e24b17e92c7f04ac6befe1ba261b360c"},
}

// ids: 1 Issuer RSA, 2 Issuer EC(P-256), 3 Stranger CA (P-384), 4 responder P-256 by 1, 5 responder RSA by 2,
// 6 responder P-521 by 3, 7 responder P-384 by 1, 8 an Ed25519 key without certificate
var ents = map[int]*entity{}

func init() {
	by := []int{1, 2, 3, 1, 2, 3, 1}
	for i, r := range raw {
		kb, _ := hex.DecodeString(r.key)
		cb, _ := hex.DecodeString(r.cert)
		k, err := x509.ParsePKCS8PrivateKey(kb)
		if err != nil {
			panic(err)
		}
		c, err := x509.ParseCertificate(cb)
		if err != nil {
			panic(err)
		}
		e := &entity{name: r.name, key: k.(crypto.Signer), cert: c, by: by[i]}
		switch pk := c.PublicKey.(type) {
		case *rsa.PublicKey:
			e.styp = "rsa"
		case *ecdsa.PublicKey:
			switch pk.Curve {
			case elliptic.P256():
				e.styp = "ec256"
			case elliptic.P384():
				e.styp = "ec384"
			case elliptic.P521():
				e.styp = "ec521"
			}
		}
		ents[i+1] = e
	}
	ents[8] = &entity{name: "ed25519", key: ed25519.NewKeyFromSeed(bytes.Repeat([]byte{7}, 32)), cert: ents[4].cert, styp: "other", by: 1}
}

// ---------------------------------------------------------------- the RFC 6960 schema (own copy)

var oidBasic = asn1.ObjectIdentifier{1, 3, 6, 1, 5, 5, 7, 48, 1, 1}

type certID struct {
	HashAlgorithm pkix.AlgorithmIdentifier
	NameHash      []byte
	IssuerKeyHash []byte
	SerialNumber  *big.Int
}
type ocspRequest struct {
	TBSRequest        tbsRequest
	OptionalSignature asn1.RawValue `asn1:"explicit,tag:0,optional"`
}
type tbsRequest struct {
	Version       int              `asn1:"explicit,tag:0,default:0,optional"`
	RequestorName pkix.RDNSequence `asn1:"explicit,tag:1,optional"`
	RequestList   []request
}
type request struct{ Cert certID }
type responseASN1 struct {
	Status   asn1.Enumerated
	Response responseBytes `asn1:"explicit,tag:0,optional"`
}
type responseBytes struct {
	ResponseType asn1.ObjectIdentifier
	Response     []byte
}
type basicResponse struct {
	TBSResponseData    responseData
	SignatureAlgorithm pkix.AlgorithmIdentifier
	Signature          asn1.BitString
	Certificates       []asn1.RawValue `asn1:"explicit,tag:0,optional"`
}
type responseData struct {
	Raw            asn1.RawContent
	Version        int `asn1:"optional,default:0,explicit,tag:0"`
	RawResponderID asn1.RawValue
	ProducedAt     time.Time `asn1:"generalized"`
	Responses      []singleResponse
}
type singleResponse struct {
	CertID           certID
	Good             asn1.Flag        `asn1:"tag:0,optional"`
	Revoked          revokedInfo      `asn1:"tag:1,optional"`
	Unknown          asn1.Flag        `asn1:"tag:2,optional"`
	ThisUpdate       time.Time        `asn1:"generalized"`
	NextUpdate       time.Time        `asn1:"generalized,explicit,tag:0,optional"`
	SingleExtensions []pkix.Extension `asn1:"explicit,tag:1,optional"`
}
type revokedInfo struct {
	RevocationTime time.Time       `asn1:"generalized"`
	Reason         asn1.Enumerated `asn1:"explicit,tag:0,optional"`
}

var hashOID = map[int]asn1.ObjectIdentifier{
	3: {1, 3, 14, 3, 2, 26}, 5: {2, 16, 840, 1, 101, 3, 4, 2, 1}, 6: {2, 16, 840, 1, 101, 3, 4, 2, 2}, 7: {2, 16, 840, 1, 101, 3, 4, 2, 3},
	2: {1, 2, 840, 113549, 2, 5}, 4: {2, 16, 840, 1, 101, 3, 4, 2, 4},
}

func hashNum(oid asn1.ObjectIdentifier) int {
	for _, h := range []int{3, 5, 6, 7} {
		if oid.Equal(hashOID[h]) {
			return h
		}
	}
	return 0
}

var sigOID = map[int]asn1.ObjectIdentifier{
	1: {1, 2, 840, 113549, 1, 1, 2}, 2: {1, 2, 840, 113549, 1, 1, 4}, 3: {1, 2, 840, 113549, 1, 1, 5},
	4: {1, 2, 840, 113549, 1, 1, 11}, 5: {1, 2, 840, 113549, 1, 1, 12}, 6: {1, 2, 840, 113549, 1, 1, 13},
	7: {1, 2, 840, 10040, 4, 3}, 8: {2, 16, 840, 1, 101, 3, 4, 3, 2},
	9: {1, 2, 840, 10045, 4, 1}, 10: {1, 2, 840, 10045, 4, 3, 2}, 11: {1, 2, 840, 10045, 4, 3, 3}, 12: {1, 2, 840, 10045, 4, 3, 4},
}
var sigHash = map[int]crypto.Hash{2: crypto.MD5, 3: crypto.SHA1, 4: crypto.SHA256, 5: crypto.SHA384, 6: crypto.SHA512,
	9: crypto.SHA1, 10: crypto.SHA256, 11: crypto.SHA384, 12: crypto.SHA512}

func sigNum(oid asn1.ObjectIdentifier) int {
	for n := 1; n <= 12; n++ {
		if oid.Equal(sigOID[n]) {
			return n
		}
	}
	return 0
}

func oidStr(o asn1.ObjectIdentifier) string {
	if len(o) == 0 {
		return "-"
	}
	return o.String()
}

func b01(b bool) string {
	if b {
		return "1"
	}
	return "0"
}

// ---------------------------------------------------------------- facts

// respFacts: what the standard library says about der (and about its signatures w.r.t. issuer).
func respFacts(der []byte, issuer *x509.Certificate) string {
	outerOk, outerRest, status, typeBasic, basicOk, basicRest := false, false, 0, false, false, false
	pa, ridTag, ridOk, sigIss := int64(0), 0, false, false
	singles, certs, sigOidS := "-", "-", "-"
	func() {
		var outer responseASN1
		rest, err := asn1.Unmarshal(der, &outer)
		if err != nil {
			return
		}
		outerOk, outerRest, status = true, len(rest) > 0, int(outer.Status)
		typeBasic = outer.Response.ResponseType.Equal(oidBasic)
		var basic basicResponse
		rest, err = asn1.Unmarshal(outer.Response.Response, &basic)
		if err != nil {
			return
		}
		basicOk, basicRest = true, len(rest) > 0
		tbs := basic.TBSResponseData
		pa = tbs.ProducedAt.Unix()
		var ss []string
		for _, s := range tbs.Responses {
			crit := false
			for _, e := range s.SingleExtensions {
				crit = crit || e.Critical
			}
			ss = append(ss, fmt.Sprintf("%s:%s:%s:%s:%s:%d:%d:%d:%d:%d", s.CertID.SerialNumber.String(), b01(bool(s.Good)), b01(bool(s.Unknown)),
				b01(crit), oidStr(s.CertID.HashAlgorithm.Algorithm), s.ThisUpdate.Unix(), s.NextUpdate.Unix(),
				s.Revoked.RevocationTime.Unix(), int(s.Revoked.Reason), len(s.SingleExtensions)))
		}
		if len(ss) > 0 {
			singles = strings.Join(ss, ";")
		}
		ridTag = tbs.RawResponderID.Tag
		switch ridTag {
		case 1:
			var rdn pkix.RDNSequence
			r, e := asn1.Unmarshal(tbs.RawResponderID.Bytes, &rdn)
			ridOk = e == nil && len(r) == 0
		case 2:
			var kh []byte
			r, e := asn1.Unmarshal(tbs.RawResponderID.Bytes, &kh)
			ridOk = e == nil && len(r) == 0
		}
		alg := sigNum(basic.SignatureAlgorithm.Algorithm) // the harness's own table; the model has its own
		sigOidS = oidStr(basic.SignatureAlgorithm.Algorithm)
		sig := basic.Signature.RightAlign()
		var cs []string
		for _, rc := range basic.Certificates { // facts about EVERY embedded certificate
			ok, signed, byIss := false, false, false
			if c, e := x509.ParseCertificate(rc.FullBytes); e == nil {
				ok = true
				signed = c.CheckSignature(x509.SignatureAlgorithm(alg), tbs.Raw, sig) == nil
				if issuer != nil {
					byIss = issuer.CheckSignature(c.SignatureAlgorithm, c.RawTBSCertificate, c.Signature) == nil
				}
			}
			cs = append(cs, b01(ok)+":"+b01(signed)+":"+b01(byIss))
		}
		if len(cs) > 0 {
			certs = strings.Join(cs, ";")
		}
		if issuer != nil {
			sigIss = issuer.CheckSignature(x509.SignatureAlgorithm(alg), tbs.Raw, sig) == nil
		}
	}()
	return fmt.Sprintf("f.outerOk=%s f.outerRest=%s f.status=%d f.typeBasic=%s f.basicOk=%s f.basicRest=%s f.pa=%d f.singles=%s f.ridTag=%d f.ridOk=%s f.certs=%s f.sigIss=%s f.sigOid=%s",
		b01(outerOk), b01(outerRest), status, b01(typeBasic), b01(basicOk), b01(basicRest), pa, singles, ridTag, b01(ridOk), certs,
		b01(sigIss), sigOidS)
}

func reqFacts(der []byte) string {
	ok, rest, hasSig, n, h, serial := false, false, false, 0, "-", "0"
	var nh, kh []byte
	func() {
		var req ocspRequest
		r, err := asn1.Unmarshal(der, &req)
		if err != nil {
			return
		}
		ok, rest, hasSig, n = true, len(r) > 0, len(req.OptionalSignature.FullBytes) > 0, len(req.TBSRequest.RequestList)
		if n > 0 {
			c := req.TBSRequest.RequestList[0].Cert
			h, nh, kh, serial = oidStr(c.HashAlgorithm.Algorithm), c.NameHash, c.IssuerKeyHash, c.SerialNumber.String()
		}
	}()
	return fmt.Sprintf("f.ok=%s f.rest=%s f.hasSig=%s f.n=%d f.hashOid=%s f.nh=%s f.kh=%s f.serial=%s", b01(ok), b01(rest), b01(hasSig), n, h, hx.Hex(nh), hx.Hex(kh), serial)
}

// ---------------------------------------------------------------- observables of the real code

func classify(err error) string {
	switch e := err.(type) {
	case ocsp.ParseError:
		return "err:parse"
	case ocsp.ResponseError:
		return fmt.Sprintf("err:resp:%d", int(e.Status))
	}
	return "err:other" // whatever encoding/asn1 or crypto/x509 returned (not an ocsp error type)
}

func showResp(r *ocsp.Response, withPa bool, der []byte) string {
	pa := " pa60=" + b01(r.ProducedAt.Unix()%60 == 0)
	if withPa {
		pa = fmt.Sprintf(" pa=%d", r.ProducedAt.Unix())
	}
	byname := len(r.RawResponderName) > 0 || r.ResponderKeyHash == nil
	return fmt.Sprintf("ok st=%d serial=%s%s this=%d next=%d rev=%d reason=%d hash=%d alg=%d byname=%s cert=%s next=%d",
		r.Status, r.SerialNumber.String(), pa, r.ThisUpdate.Unix(), r.NextUpdate.Unix(), r.RevokedAt.Unix(), r.RevocationReason,
		int(r.IssuerHash), int(r.SignatureAlgorithm), b01(byname), b01(r.Certificate != nil), len(r.Extensions)) +
		" raw=" + b01(bytes.Equal(r.Raw, der))
}

func certArg(o hx.Op, k string) *x509.Certificate {
	if o.Str(k) == "-" {
		return nil
	}
	n, _ := new(big.Int).SetString(o.Str(k), 10)
	return &x509.Certificate{SerialNumber: n}
}

func issuerArg(o hx.Op, k string) *x509.Certificate {
	if o.Str(k) == "-" {
		return nil
	}
	return ents[o.Int(k)].cert
}

func execResp(o hx.Op) string {
	if o.Str("csf") == "1" { // two-step use: parse without issuer, then Response.CheckSignatureFrom(issuer)
		r, err := ocsp.ParseResponseForCert(o.Hex("der"), certArg(o, "cert"), nil)
		if err != nil {
			return classify(err)
		}
		return showResp(r, true, o.Hex("der")) + " csf=" + b01(r.CheckSignatureFrom(issuerArg(o, "iss")) == nil)
	}
	var r *ocsp.Response
	var err error
	if o.Str("pr") == "1" { // the ParseResponse entry point (cert == nil)
		r, err = ocsp.ParseResponse(o.Hex("der"), issuerArg(o, "iss"))
	} else {
		r, err = ocsp.ParseResponseForCert(o.Hex("der"), certArg(o, "cert"), issuerArg(o, "iss"))
	}
	if err != nil {
		return classify(err)
	}
	return showResp(r, true, o.Hex("der"))
}

func mkTemplate(o hx.Op) ocsp.Response {
	t := ocsp.Response{Status: o.Int("status"), ThisUpdate: time.Unix(int64(o.Int("this")), 0), NextUpdate: time.Unix(int64(o.Int("next")), 0),
		RevokedAt: time.Unix(int64(o.Int("rev")), 0), RevocationReason: o.Int("reason"), IssuerHash: crypto.Hash(o.Int("ihash")),
		SignatureAlgorithm: x509.SignatureAlgorithm(o.Int("alg"))}
	if o.Str("serial") != "-" {
		t.SerialNumber, _ = new(big.Int).SetString(o.Str("serial"), 10)
	}
	for i, c := range o.List("exts") {
		t.ExtraExtensions = append(t.ExtraExtensions, pkix.Extension{Id: asn1.ObjectIdentifier{1, 2, 3, 4, i}, Critical: c == "1", Value: []byte{4, 1, byte(i)}})
	}
	if o.Str("cert") != "-" {
		id, _ := strconv.Atoi(strings.Split(o.Str("cert"), ":")[0])
		t.Certificate = ents[id].cert
	}
	if o.Str("loc") == "1" { // the same instants in another zone: CreateResponse converts to UTC
		z := time.FixedZone("x", 5*3600+1800)
		t.ThisUpdate, t.NextUpdate, t.RevokedAt = t.ThisUpdate.In(z), t.NextUpdate.In(z), t.RevokedAt.In(z)
	}
	return t
}

func execCr(o hx.Op) string {
	signer := ents[o.Int("signer")]
	der, err := ocsp.CreateResponse(ents[1].cert, signer.cert, mkTemplate(o), signer.key)
	if err != nil {
		return "create-err"
	}
	r, err := ocsp.ParseResponseForCert(der, certArg(o, "pcert"), issuerArg(o, "issuer"))
	if err != nil {
		return classify(err)
	}
	return showResp(r, false, der)
}

func showReq(r *ocsp.Request) string {
	return fmt.Sprintf("ok hash=%d nh=%s kh=%s serial=%s", int(r.HashAlgorithm), hx.Hex(r.IssuerNameHash), hx.Hex(r.IssuerKeyHash), r.SerialNumber.String())
}

func classifyReq(err error) string {
	if _, ok := err.(ocsp.ParseError); ok {
		return "err:parse"
	}
	return "err:other"
}

func execReq(o hx.Op) string {
	n, _ := new(big.Int).SetString(o.Str("serial"), 10)
	var der []byte
	var err error
	switch o.Str("via") {
	case "marshal": // (*Request).Marshal called directly with the oracle hashes
		req := &ocsp.Request{HashAlgorithm: crypto.Hash(o.Int("hash")), IssuerNameHash: o.Hex("o.nh"), IssuerKeyHash: o.Hex("o.kh"), SerialNumber: n}
		if req.HashAlgorithm == 0 {
			req.HashAlgorithm = crypto.SHA1
		}
		der, err = req.Marshal()
	case "nilopts":
		der, err = ocsp.CreateRequest(&x509.Certificate{SerialNumber: n}, ents[o.Int("issuer")].cert, nil)
	default:
		der, err = ocsp.CreateRequest(&x509.Certificate{SerialNumber: n}, ents[o.Int("issuer")].cert, &ocsp.RequestOptions{Hash: crypto.Hash(o.Int("hash"))})
	}
	if err != nil {
		return "create-err"
	}
	r, err := ocsp.ParseRequest(der)
	if err != nil {
		return classifyReq(err)
	}
	return showReq(r)
}

func execPreq(o hx.Op) string {
	r, err := ocsp.ParseRequest(o.Hex("der"))
	if err != nil {
		return classifyReq(err)
	}
	return showReq(r)
}

func joinInts(xs ...int) string {
	s := make([]string, len(xs))
	for i, x := range xs {
		s[i] = strconv.Itoa(x)
	}
	return strings.Join(s, ",")
}

func execConst() string {
	var names []string
	for _, n := range []int{0, 1, 2, 3, 4, 5, 6, 7, -1} {
		names = append(names, ocsp.ResponseStatus(n).String())
	}
	return fmt.Sprintf("status=%s reasons=%s rs=%s names=%s",
		joinInts(ocsp.Good, ocsp.Revoked, ocsp.Unknown, ocsp.ServerFailed),
		joinInts(ocsp.Unspecified, ocsp.KeyCompromise, ocsp.CACompromise, ocsp.AffiliationChanged, ocsp.Superseded, ocsp.CessationOfOperation,
			ocsp.CertificateHold, ocsp.RemoveFromCRL, ocsp.PrivilegeWithdrawn, ocsp.AACompromise),
		joinInts(int(ocsp.Success), int(ocsp.Malformed), int(ocsp.InternalError), int(ocsp.TryLater), int(ocsp.SignatureRequired), int(ocsp.Unauthorized)),
		strings.Join(names, "|"))
}

var errVars = map[string][]byte{
	"MalformedRequestErrorResponse": ocsp.MalformedRequestErrorResponse, "InternalErrorErrorResponse": ocsp.InternalErrorErrorResponse,
	"TryLaterErrorResponse": ocsp.TryLaterErrorResponse, "SigRequredErrorResponse": ocsp.SigRequredErrorResponse,
	"UnauthorizedErrorResponse": ocsp.UnauthorizedErrorResponse,
}

func execErrvar(o hx.Op) string {
	var iss *x509.Certificate
	if o.Str("issuer") == "1" {
		iss = ents[1].cert
	}
	r, err := ocsp.ParseResponse(errVars[o.Str("name")], iss)
	if err != nil {
		return classify(err)
	}
	return showResp(r, true, errVars[o.Str("name")])
}

func exec(line string) string {
	o := hx.Parse(line)
	switch o.Cmd {
	case "const":
		return execConst()
	case "errvar":
		return execErrvar(o)
	case "resp":
		return execResp(o)
	case "cr":
		return execCr(o)
	case "req":
		return execReq(o)
	case "preq":
		return execPreq(o)
	}
	return "bad-op"
}

// ---------------------------------------------------------------- generators

// pairs counts every pair of features present in one op (feature-interaction coverage).
func pairs(g *hx.Gen, feats []string) {
	for i := 0; i < len(feats); i++ {
		for j := i + 1; j < len(feats); j++ {
			a, b := feats[i], feats[j]
			if a > b {
				a, b = b, a
			}
			g.Stat("pair." + a + "+" + b)
		}
	}
}

var tableHit = map[string]map[int]bool{}

func hit(table string, idx int) {
	if tableHit[table] == nil {
		tableHit[table] = map[int]bool{}
	}
	tableHit[table][idx] = true
}

func reportTables(g *hx.Gen) {
	total := map[string]int{"sigOID.parse": 12, "sigAlg.create": 17, "hashOID.response": 4, "hashOID.request": 4, "respStatus": 8, "certStatus": 4,
		"reason": 11, "keyType": 4, "errvar": 5, "ridTag": 3}
	for t, n := range total {
		g.StatN(fmt.Sprintf("table.%s=%d/%d", t, len(tableHit[t]), n), 1)
	}
}

func must[T any](v T, err error) T {
	if err != nil {
		panic(err)
	}
	return v
}

func randTime(r *hx.Rand) time.Time {
	switch r.Intn(10) {
	case 0:
		return time.Time{}
	case 1:
		return time.Unix(0, 0).UTC()
	case 2:
		return time.Date(9999, 12, 31, 23, 59, 59, 0, time.UTC)
	}
	return time.Unix(int64(r.Range(1_000_000_000, 2_000_000_000)), 0).UTC()
}

func randSerial(r *hx.Rand) *big.Int {
	switch r.Intn(6) {
	case 0:
		return big.NewInt(int64(r.Intn(4)))
	case 1:
		return new(big.Int).SetBytes(r.Bytes(20))
	case 2:
		return new(big.Int).Neg(big.NewInt(int64(r.Intn(1000))))
	case 3:
		return new(big.Int).SetBytes(r.Bytes(40))
	}
	return big.NewInt(int64(r.Intn(100000)))
}

func sign(e *entity, alg int, msg []byte) []byte {
	h := sigHash[alg]
	hh := h.New()
	hh.Write(msg)
	return must(e.key.Sign(nil, hh.Sum(nil), h)) // nil rand: PKCS#1 v1.5 / RFC 6979, both deterministic
}

func defaultAlg(e *entity) int {
	switch e.styp {
	case "rsa":
		return []int{4, 4, 3, 5, 6, 2}[0]
	case "ec384":
		return 11
	case "ec521":
		return 12
	}
	return 10
}

// buildResponse assembles an OCSP response with our own schema; returns DER and the serials it contains.
func buildResponse(g *hx.Gen, r *hx.Rand) (der []byte, serials []*big.Int, issuerPick int, feats []string) {
	signer := r.Range(1, 7)
	e := ents[signer]
	fset := map[string]bool{}
	defer func() {
		for f := range fset {
			feats = append(feats, f)
		}
		sort.Strings(feats)
	}()
	if e.styp == "rsa" {
		fset["rsa"] = true
	} else {
		fset["ecdsa"] = true
	}
	hit("keyType", map[string]int{"rsa": 0, "ec256": 1, "ec384": 2, "ec521": 3}[e.styp])
	clean := r.Chance(3, 5) // mostly-valid stream: at most the signature / issuer / selection vary
	d := func(k int) int { // defect selector: in clean mode never picks a defect branch
		if clean {
			return 1 << 20
		}
		return r.Intn(k)
	}
	n := 1
	if clean && r.Chance(1, 4) {
		n = r.Range(2, 4)
	}
	switch d(8) {
	case 0:
		n = 0
	case 1, 2:
		n = r.Range(2, 4)
	}
	var singles []singleResponse
	for i := 0; i < n; i++ {
		h := hx.Pick(r, []int{3, 3, 5, 6, 7, 7, 2, 4})
		if clean {
			h = hx.Pick(r, []int{3, 5, 6, 7})
		}
		if h == 3 || h >= 5 {
			hit("hashOID.response", h)
			if h != 3 {
				fset["sha2-certid"] = true
			}
		}
		s := singleResponse{CertID: certID{HashAlgorithm: pkix.AlgorithmIdentifier{Algorithm: hashOID[h], Parameters: asn1.RawValue{Tag: 5}},
			NameHash: r.Bytes(20), IssuerKeyHash: r.Bytes(20), SerialNumber: randSerial(r)}, ThisUpdate: randTime(r), NextUpdate: randTime(r)}
		if i > 0 && r.Chance(1, 3) {
			s.CertID.SerialNumber = singles[r.Intn(i)].CertID.SerialNumber // duplicate serial: the first one must win
			g.Stat("resp.duplicate-serial")
		}
		kind := r.Intn(7)
		switch kind {
		case 0, 1:
			hit("certStatus", 0)
		case 2:
			hit("certStatus", 2)
			fset["unknown"] = true
		case 3, 4:
			hit("certStatus", 1)
			fset["revoked"] = true
		case 6:
			hit("certStatus", 3)
		}
		switch kind {
		case 0, 1:
			s.Good = true
		case 2:
			s.Unknown = true
		case 3:
			rsn := r.Intn(11)
			hit("reason", rsn)
			s.Revoked = revokedInfo{RevocationTime: randTime(r), Reason: asn1.Enumerated(rsn)}
		case 4:
			s.Revoked = revokedInfo{RevocationTime: time.Unix(int64(r.Range(1e9, 2e9)), 0).UTC(), Reason: asn1.Enumerated(hx.Pick(r, []int{0, 1, -1, 2147483647}))}
		case 5: // good and revoked at once
			s.Good = true
			s.Revoked = revokedInfo{RevocationTime: randTime(r), Reason: 1}
			g.Stat("resp.good+revoked")
		case 6: // no certStatus at all
			g.Stat("resp.no-certstatus")
		}
		for k := r.Intn(3); k > 0; k-- {
			crit := r.Chance(1, 4) && !(clean && r.Chance(9, 10))
			if crit {
				g.Stat("resp.critical-extension")
				fset["crit"] = true
			} else {
				fset["ext"] = true
			}
			s.SingleExtensions = append(s.SingleExtensions, pkix.Extension{Id: asn1.ObjectIdentifier{1, 3, 6, 1, 5, 5, 7, 48, 1, r.Range(2, 9)}, Critical: crit, Value: r.Bytes(r.Range(1, 6))})
		}
		singles = append(singles, s)
		serials = append(serials, s.CertID.SerialNumber)
	}
	rid := asn1.RawValue{Class: 2, Tag: 1, IsCompound: true, Bytes: e.cert.RawSubject}
	if clean && r.Chance(1, 3) {
		rid = asn1.RawValue{Class: 2, Tag: 2, IsCompound: true, Bytes: must(asn1.Marshal(r.Bytes(20)))}
		g.Stat("resp.rid-keyhash")
	}
	switch d(8) {
	case 0, 1:
		rid = asn1.RawValue{Class: 2, Tag: 2, IsCompound: true, Bytes: must(asn1.Marshal(r.Bytes(20)))}
		g.Stat("resp.rid-keyhash")
	case 2:
		rid = asn1.RawValue{Class: 2, Tag: hx.Pick(r, []int{0, 3, 5}), IsCompound: true, Bytes: e.cert.RawSubject}
		g.Stat("resp.rid-bad-tag")
	case 3:
		rid = asn1.RawValue{Class: 2, Tag: r.Range(1, 2), IsCompound: true, Bytes: append(must(asn1.Marshal(r.Bytes(4))), r.Bytes(r.Intn(3))...)}
		g.Stat("resp.rid-odd-content")
	}
	if rid.Tag >= 0 && rid.Tag <= 2 {
		hit("ridTag", rid.Tag)
	}
	if rid.Tag == 2 {
		fset["keyhash"] = true
	}
	if n > 1 {
		fset["multi"] = true
	}
	tbs := responseData{RawResponderID: rid, ProducedAt: randTime(r), Responses: singles}
	if n == 0 {
		tbs.Responses = []singleResponse{}
	}
	tbsDER := must(asn1.Marshal(tbs))
	alg := defaultAlg(e)
	if r.Chance(1, 4) {
		if e.styp == "rsa" {
			alg = hx.Pick(r, []int{2, 3, 4, 5, 6})
		} else {
			alg = hx.Pick(r, []int{9, 10, 11, 12})
		}
	}
	sig := sign(e, alg, tbsDER)
	algOID := sigOID[alg]
	switch d(16) {
	case 0:
		sig[r.Intn(len(sig))] ^= 1
		g.Stat("resp.bad-signature")
	case 1:
		algOID = asn1.ObjectIdentifier{1, 2, 3, 4}
		g.Stat("resp.unknown-sigalg")
	case 2:
		algOID = sigOID[hx.Pick(r, []int{1, 3, 4, 10, 11, 7, 8})] // algorithm that may not match the signature
	}
	if n := sigNum(algOID); n > 0 {
		hit("sigOID.parse", n)
	}
	if alg != defaultAlg(e) {
		fset["nondefault-alg"] = true
	}
	resp := basicResponse{TBSResponseData: tbs, SignatureAlgorithm: pkix.AlgorithmIdentifier{Algorithm: algOID}, Signature: asn1.BitString{Bytes: sig, BitLength: 8 * len(sig)}}
	if e.styp == "rsa" {
		resp.SignatureAlgorithm.Parameters = asn1.RawValue{Tag: 5}
	}
	// splice the exact signed bytes back in (Marshal re-encodes the struct)
	chainIssuer := 0
	switch r.Intn(8) {
	case 0:
		resp.Certificates = []asn1.RawValue{{FullBytes: e.cert.Raw}}
		g.Stat("resp.embedded-signer")
	case 1:
		resp.Certificates = []asn1.RawValue{{FullBytes: ents[r.Range(1, 7)].cert.Raw}}
		g.Stat("resp.embedded-other")
	case 2:
		resp.Certificates = []asn1.RawValue{{FullBytes: e.cert.Raw}, {FullBytes: ents[r.Range(1, 7)].cert.Raw}}
		g.Stat("resp.embedded-two")
	case 3:
		if r.Chance(1, 3) {
			resp.Certificates = []asn1.RawValue{{FullBytes: must(asn1.Marshal([]int{1, 2}))}}
			g.Stat("resp.embedded-garbage")
		}
	case 4: // chain [signer, other]: the check against the issuer must use the FIRST certificate
		o := r.Range(4, 7)
		resp.Certificates = []asn1.RawValue{{FullBytes: e.cert.Raw}, {FullBytes: ents[o].cert.Raw}}
		chainIssuer = ents[o].by
		g.Stat("resp.chain-signer-first")
	case 5: // chain [other, signer]: the first certificate did not sign the response
		o := r.Range(4, 7)
		resp.Certificates = []asn1.RawValue{{FullBytes: ents[o].cert.Raw}, {FullBytes: e.cert.Raw}}
		chainIssuer = hx.Pick(r, []int{ents[o].by, e.by})
		g.Stat("resp.chain-signer-last")
	}
	if len(resp.Certificates) > 0 {
		fset["emb"] = true
	}
	if len(resp.Certificates) > 1 {
		fset["chain"] = true
	}
	basicDER := must(asn1.Marshal(resp))
	typ := oidBasic
	status := 0
	switch d(14) {
	case 0:
		typ = asn1.ObjectIdentifier{1, 3, 6, 1, 5, 5, 7, 48, 1, 2}
	case 1:
		status = hx.Pick(r, []int{1, 2, 3, 5, 6, 4, 7, -1})
		hit("respStatus", status)
	case 2:
		basicDER = append(basicDER, 0)
		g.Stat("resp.inner-trailing")
	}
	der = must(asn1.Marshal(responseASN1{Status: asn1.Enumerated(status), Response: responseBytes{ResponseType: typ, Response: basicDER}}))
	if !clean && r.Chance(1, 20) {
		der = append(der, byte(r.Intn(256)))
		g.Stat("resp.outer-trailing")
	}
	if clean {
		g.Stat("resp.clean-base")
	}
	// who checks: the signer's own CA most of the time
	issuerPick = hx.Pick(r, []int{e.by, e.by, e.by, signer, r.Range(1, 3), 0})
	if chainIssuer != 0 && r.Chance(3, 4) {
		issuerPick = chainIssuer
	}
	return
}

func emitResp(g *hx.Gen, r *hx.Rand, der []byte, serials []*big.Int, iss int, feats []string) {
	feats = append([]string(nil), feats...)
	cert := "-"
	if (r.Chance(1, 2) || (len(serials) > 1 && r.Chance(4, 5))) && len(serials) > 0 {
		if r.Chance(1, 6) {
			cert = "424242"
		} else {
			cert = hx.Pick(r, serials).String()
		}
	} else if r.Chance(1, 10) {
		cert = "7"
	}
	issS := "-"
	var issuer *x509.Certificate
	if iss > 0 {
		issS, issuer = strconv.Itoa(iss), ents[iss].cert
	}
	csf := ""
	if issuer != nil && r.Chance(1, 6) {
		csf = " csf=1"
		g.Stat("resp.two-step-CheckSignatureFrom")
		feats = append(feats, "csf")
	} else if cert == "-" && r.Chance(1, 3) {
		csf = " pr=1"
		g.Stat("resp.via-ParseResponse")
		feats = append(feats, "ParseResponse")
	}
	if issuer != nil {
		feats = append(feats, "issuer")
	}
	if cert != "-" {
		feats = append(feats, "certarg")
	}
	pairs(g, feats)
	g.Emit("resp cert=%s issuer=%s iss=%s%s %s der=%s", cert, b01(issuer != nil), issS, csf, respFacts(der, issuer), hx.Hex(der))
}

func mutateDER(r *hx.Rand, der []byte) []byte {
	b := append([]byte(nil), der...)
	if len(b) == 0 {
		return b
	}
	switch r.Intn(6) {
	case 0:
		b[r.Intn(len(b))] ^= 1 << r.Intn(8)
	case 1:
		b[r.Intn(len(b))] = byte(r.Intn(256))
	case 2:
		b = b[:r.Intn(len(b))]
	case 3:
		at := r.Intn(len(b))
		b = append(b[:at], append([]byte{byte(r.Intn(256))}, b[at:]...)...)
	case 4: // a length / tag octet near the start
		b[r.Intn(min(len(b), 24))] = byte(r.Intn(256))
	default:
		at := r.Intn(len(b))
		b = append(b[:at], b[min(len(b), at+r.Range(1, 4)):]...)
	}
	return b
}

func genResp(g *hx.Gen, n int) {
	r := g.R
	for i := 0; i < n; i++ {
		der, serials, iss, feats := buildResponse(g, r)
		emitResp(g, r, der, serials, iss, feats)
		for k := 2; k > 0; k-- {
			g.Stat("resp.mutant")
			emitResp(g, r, mutateDER(r, der), serials, iss, append(feats, "mutant"))
		}
		if r.Chance(1, 4) {
			g.Stat("resp.random-der")
			var junk []byte
			switch r.Intn(3) {
			case 0:
				junk = r.Bytes(r.Intn(40))
			case 1:
				junk = append([]byte{0x30, byte(r.Intn(40))}, r.Bytes(r.Intn(40))...)
			default:
				junk = append([]byte{0x30, 0x03, 0x0a, 0x01, byte(r.Intn(8))}, r.Bytes(r.Intn(2))...)
			}
			emitResp(g, r, junk, nil, r.Intn(4), []string{"random-der"})
		}
	}
}

func genCr(g *hx.Gen, n int) {
	r := g.R
	for i := 0; i < n; i++ {
		signer := r.Range(1, 8)
		if r.Chance(1, 2) {
			signer = hx.Pick(r, []int{1, 2, 4, 5, 7})
		}
		clean := r.Chance(2, 3)
		if clean && signer == 8 {
			signer = 4
		}
		e := ents[signer]
		status := hx.Pick(r, []int{0, 0, 1, 1, 1, 2, 3, 7, -1})
		serial := randSerial(r).String()
		if r.Chance(1, 30) && !clean {
			serial = "-"
		}
		tm := func() int64 {
			k := r.Intn(12)
			if clean && k != 0 && k != 3 {
				k = 11
			}
			switch k {
			case 0:
				return -62135596800 // zero time
			case 1:
				return 253402300800 // year 10000: not a GeneralizedTime
			case 2:
				return -62167219201 // year -1
			case 3:
				return 253402300799
			}
			return int64(r.Range(1_000_000_000, 2_000_000_000))
		}
		reason := hx.Pick(r, []int{0, 0, 1, 4, 6, 10, -1, 2147483647, -2147483648})
		ihash := hx.Pick(r, []int{0, 0, 3, 5, 6, 7, 2, 4, 9})
		alg := 0
		if r.Chance(1, 3) {
			alg = r.Intn(17)
		}
		if clean {
			ihash = hx.Pick(r, []int{0, 3, 5, 6, 7})
			alg = 0
			if r.Chance(1, 3) {
				if e.styp == "rsa" {
					alg = hx.Pick(r, []int{2, 3, 4, 5, 6})
				} else {
					alg = hx.Pick(r, []int{9, 10, 11, 12})
				}
			}
			g.Stat("cr.clean")
		}
		var exts []string
		for k := r.Intn(3); k > 0; k-- {
			exts = append(exts, b01(r.Chance(1, 5) && !(clean && r.Chance(4, 5))))
		}
		cert := "-"
		switch r.Intn(5) {
		case 0:
			cert = fmt.Sprintf("%d:%d", signer%8+0, e.by)
			if signer == 8 {
				cert = "4:1"
			}
			g.Stat("cr.cert-of-signer")
		case 1:
			o := r.Range(1, 7)
			cert = fmt.Sprintf("%d:%d", o, ents[o].by)
			g.Stat("cr.cert-of-other")
		}
		issuer := hx.Pick(r, []string{"-", strconv.Itoa(e.by), strconv.Itoa(e.by), strconv.Itoa(signer % 8), strconv.Itoa(r.Range(1, 3))})
		if issuer == "0" {
			issuer = "1"
		}
		pcert := "-"
		if r.Chance(1, 4) && serial != "-" {
			pcert = serial
			if r.Chance(1, 4) {
				pcert = "5"
			}
		}
		g.Stat("cr.template")
		hit("sigAlg.create", alg)
		if status >= 0 && status <= 3 {
			hit("certStatus.create", status)
		}
		if issuer != "-" && issuer != strconv.Itoa(e.by) && issuer != strconv.Itoa(signer) {
			g.Stat("cr.wrong-issuer")
		}
		{
			var f []string
			f = append(f, map[int]string{0: "cr-good", 1: "cr-revoked", 2: "cr-unknown"}[status])
			if status < 0 || status > 2 {
				f[0] = "cr-badstatus"
			}
			if cert != "-" {
				f = append(f, "cr-cert")
			}
			if issuer == "-" {
				f = append(f, "cr-noissuer")
			}
			if alg != 0 {
				f = append(f, "cr-alg")
			}
			if len(exts) > 0 {
				f = append(f, "cr-exts")
			}
			if pcert != "-" {
				f = append(f, "cr-certarg")
			}
			if ihash != 0 && ihash != 3 {
				f = append(f, "cr-sha2")
			}
			if e.styp != "rsa" {
				f = append(f, "cr-ec")
			}
			pairs(g, f)
		}
		g.Emit("cr status=%d serial=%s this=%d next=%d rev=%d reason=%d ihash=%d alg=%d exts=%s cert=%s signer=%d styp=%s issuer=%s pcert=%s loc=%s",
			status, serial, tm(), tm(), tm(), reason, ihash, alg, hx.JoinStrs(exts), cert, signer, e.styp, issuer, pcert, b01(r.Chance(1, 4)))
	}
}

func spkiBits(c *x509.Certificate) []byte {
	var spki struct {
		Algorithm pkix.AlgorithmIdentifier
		PublicKey asn1.BitString
	}
	must(asn1.Unmarshal(c.RawSubjectPublicKeyInfo, &spki))
	return spki.PublicKey.RightAlign()
}

func genReq(g *hx.Gen, n int) {
	r := g.R
	for i := 0; i < n; i++ {
		h := hx.Pick(r, []int{0, 0, 3, 5, 6, 7, 2, 4, 8, 9})
		iss := r.Range(1, 7)
		nh, kh := "-", "-"
		eff := h
		if eff == 0 {
			eff = 3
		}
		if eff == 3 || eff == 5 || eff == 6 || eff == 7 {
			hh := crypto.Hash(eff).New()
			hh.Write(ents[iss].cert.RawSubject)
			nh = hx.Hex(hh.Sum(nil))
			hh.Reset()
			hh.Write(spkiBits(ents[iss].cert))
			kh = hx.Hex(hh.Sum(nil))
		}
		g.Stat("req.roundtrip")
		if eff == 3 || eff >= 5 && eff <= 7 {
			hit("hashOID.request", eff)
		}
		via := hx.Pick(r, []string{"create", "create", "marshal"})
		if h == 0 && r.Chance(1, 2) {
			via = "nilopts"
		}
		g.Stat("req.via-" + via)
		g.Emit("req hash=%d serial=%s issuer=%d o.nh=%s o.kh=%s via=%s", h, randSerial(r).String(), iss, nh, kh, via)
	}
}

func genPreq(g *hx.Gen, n int) {
	r := g.R
	for i := 0; i < n; i++ {
		var req ocspRequest
		k := 1
		switch r.Intn(6) {
		case 0:
			k = 0
			req.TBSRequest.RequestList = []request{}
		case 1:
			k = r.Range(2, 3)
		}
		for j := 0; j < k; j++ {
			h := hx.Pick(r, []int{3, 3, 5, 6, 7, 2, 4})
			req.TBSRequest.RequestList = append(req.TBSRequest.RequestList, request{certID{pkix.AlgorithmIdentifier{Algorithm: hashOID[h], Parameters: asn1.RawValue{Tag: 5}},
				r.Bytes(hx.Pick(r, []int{20, 32, 0, 5})), r.Bytes(20), randSerial(r)}})
		}
		if r.Chance(1, 8) {
			inner := must(asn1.Marshal(struct{ A, B []byte }{r.Bytes(3), r.Bytes(3)}))
			req.OptionalSignature = asn1.RawValue{FullBytes: must(asn1.Marshal(asn1.RawValue{Class: 2, Tag: 0, IsCompound: true, Bytes: inner}))}
			g.Stat("preq.signed")
		}
		der := must(asn1.Marshal(req))
		if r.Chance(1, 12) {
			der = append(der, 0)
		}
		g.Emit("preq %s der=%s", reqFacts(der), hx.Hex(der))
		for m := 0; m < 2; m++ {
			d := mutateDER(r, der)
			g.Stat("preq.mutant")
			g.Emit("preq %s der=%s", reqFacts(d), hx.Hex(d))
		}
		if r.Chance(1, 5) {
			g.Stat("preq.random-bytes")
			d := r.Bytes(r.Intn(30))
			g.Emit("preq %s der=%s", reqFacts(d), hx.Hex(d))
		}
	}
}

func genConst(g *hx.Gen) {
	g.Emit("const")
	i := 0
	for name := range errVars {
		_ = name
		i++
	}
	for k, name := range []string{"MalformedRequestErrorResponse", "InternalErrorErrorResponse", "TryLaterErrorResponse", "SigRequredErrorResponse", "UnauthorizedErrorResponse"} {
		hit("errvar", k)
		g.Emit("errvar name=%s issuer=0", name)
		g.Emit("errvar name=%s issuer=1", name)
	}
}

func gen(g *hx.Gen) {
	genConst(g)
	genResp(g, g.Count(1500, 40000))
	genCr(g, g.Count(800, 20000))
	genReq(g, g.Count(200, 5000))
	genPreq(g, g.Count(500, 20000))
	reportTables(g)
}

func main() { hx.Main(hx.Harness{Gen: gen, Exec: exec}) }
