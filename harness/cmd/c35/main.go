// C35 — channel flow control: the REAL mux/channel code (ssh.VerifC35NewMux over an in-memory monitored packet
// pipe) against a scripted peer.
//
//	snd: the real channel writes (1–4 concurrent writers on distinct extended codes, several Write calls each);
//	     the peer advertised a small window / max packet and grants window on stalls or eagerly.
//	     Observable: open result, every data packet (code, length, content check) and every grant in wire order,
//	     stall markers, Write return values.
//	rcv: the real channel receives scripted data / extended data packets and the application reads with given
//	     buffer sizes. Observable per step: window adjusts on the wire, read counts (content checked), teardown.
//
// The Lean driver (accept mode) decides whether the trace is accepted by the flow-control model.
package main

import (
	"encoding/binary"
	"fmt"
	"io"
	"runtime"
	"strconv"
	"strings"
	"sync"
	"sync/atomic"
	"time"

	"golang.org/x/crypto/ssh"
	"verifharness/hx"
)

const peerID = 77

func pat(code uint32, i int) byte { return byte(int(code)*53 + i*7 + (i>>8)*3 + (i >> 16)) }

func fill(code uint32, off, n int) []byte {
	b := make([]byte, n)
	for i := range b {
		b[i] = pat(code, off+i)
	}
	return b
}

// ---------------------------------------------------------------- common: channel set-up

type base struct {
	p        *pipe
	mux      *ssh.VerifC35Mux
	mu       sync.Mutex
	ev       []string
	clientID uint32
	w0, m    uint32
	rejected chan uint32
	onData   func(code uint32, payload []byte)
	onAdjust func(n uint32)
}

func (s *base) event(e string) { s.mu.Lock(); s.ev = append(s.ev, e); s.mu.Unlock() }

func (s *base) onWrite(b []byte) {
	switch b[0] {
	case 90: // channel open from the real side: confirm with the scripted window / max packet
		_, rest, ok := rdStr(b[1:])
		if !ok || len(rest) < 12 {
			return
		}
		s.clientID = binary.BigEndian.Uint32(rest)
		r := []byte{91}
		r = append(r, sshU32(s.clientID)...)
		r = append(r, sshU32(peerID)...)
		r = append(r, sshU32(s.w0)...)
		r = append(r, sshU32(s.m)...)
		s.p.send(r)
	case 91:
		if len(b) >= 9 {
			s.clientID = binary.BigEndian.Uint32(b[5:])
		}
	case 92:
		select {
		case s.rejected <- binary.BigEndian.Uint32(b[5:]):
		default:
		}
	case 80, 81, 82, 97, 98, 99, 100:
		// requests / replies / close written by the real side while tearing down: not part of this observable
	default:
		s.event(fmt.Sprintf("Xtype%d", b[0])) // not a connection-protocol packet: a clobbered or corrupted header
	case 96:
		s.event("F")
	case 93:
		if s.onAdjust != nil && len(b) >= 9 {
			s.onAdjust(binary.BigEndian.Uint32(b[5:]))
		}
	case 94:
		if len(b) >= 9 && s.onData != nil {
			if binary.BigEndian.Uint32(b[1:]) != peerID || int(binary.BigEndian.Uint32(b[5:])) != len(b)-9 {
				s.event("Xbadhdr")
				return
			}
			s.onData(0, b[9:])
		}
	case 95:
		if len(b) >= 13 && s.onData != nil {
			if binary.BigEndian.Uint32(b[1:]) != peerID || int(binary.BigEndian.Uint32(b[9:])) != len(b)-13 {
				s.event("Xbadhdr")
				return
			}
			s.onData(binary.BigEndian.Uint32(b[5:]), b[13:])
		}
	}
}

// open establishes one channel; returns (channel, "ok"|"err"|"rej").
func (s *base) open(dir string) (ssh.Channel, string) {
	s.rejected = make(chan uint32, 1)
	s.p.onWrite = s.onWrite
	s.mux = ssh.VerifC35NewMux(s.p)
	if dir == "out" {
		type res struct {
			ch  ssh.Channel
			rq  <-chan *ssh.Request
			err error
		}
		rc := make(chan res, 1)
		go func() { c, r, e := s.mux.OpenChannel("verif", nil); rc <- res{c, r, e} }()
		select {
		case r := <-rc:
			if r.err != nil {
				return nil, "err"
			}
			go ssh.DiscardRequests(r.rq)
			return r.ch, "ok"
		case <-time.After(10 * time.Second):
			return nil, "hang"
		}
	}
	b := []byte{90}
	b = append(b, sshStr("verif")...)
	b = append(b, sshU32(peerID)...)
	b = append(b, sshU32(s.w0)...)
	b = append(b, sshU32(s.m)...)
	s.p.send(b)
	select {
	case nc, ok := <-s.mux.IncomingChannels():
		if !ok {
			return nil, "err"
		}
		ch, rq, err := nc.Accept()
		if err != nil {
			return nil, "err"
		}
		go ssh.DiscardRequests(rq)
		return ch, "ok"
	case <-s.rejected:
		return nil, "rej"
	case <-time.After(10 * time.Second):
		return nil, "hang"
	}
}

func (s *base) muxEnded(d time.Duration) bool {
	done := make(chan struct{})
	go func() { s.mux.Wait(); close(done) }()
	select {
	case <-done:
		return true
	case <-time.After(d):
		return false
	}
}

// ---------------------------------------------------------------- snd

type writerSpec struct {
	code  uint32
	sizes []int
}

func execSnd(o hx.Op) string {
	s := &base{p: newPipe(), w0: uint32(o.U64("w0")), m: uint32(o.U64("m"))}
	pol := o.Str("pol")
	eagerK := 0
	if strings.HasPrefix(pol, "eager") {
		eagerK, _ = strconv.Atoi(pol[5:])
	}
	var grants []uint32
	for _, g := range o.List("grants") {
		v, _ := strconv.ParseUint(g, 10, 32)
		grants = append(grants, uint32(v))
	}
	var writers []writerSpec
	for _, w := range o.List("writers") {
		c, szs, _ := strings.Cut(w, ":")
		cv, _ := strconv.Atoi(c)
		ws := writerSpec{code: uint32(cv)}
		for _, z := range strings.Split(szs, "+") {
			v, _ := strconv.Atoi(z)
			ws.sizes = append(ws.sizes, v)
		}
		writers = append(writers, ws)
	}
	single := len(writers) == 1
	var ch ssh.Channel
	granted, used := uint64(s.w0), uint64(0)
	offs := map[uint32]int{}
	nData := 0
	grantInFlight := false
	overflowSent := false
	// sendGrant is called with s.mu held
	sendGrant := func(fromStall bool) {
		g := grants[0]
		grants = grants[1:]
		s.ev = append(s.ev, fmt.Sprintf("A%d", g))
		winBefore := granted - used
		granted += uint64(g)
		grantInFlight = true
		s.mu.Unlock()
		adj := append([]byte{93}, sshU32(s.clientID)...)
		adj = append(adj, sshU32(g)...)
		s.p.send(adj)
		// hand the adjust to the mux synchronously (wire order = processing order)
		deadline := time.Now().Add(5 * time.Second)
		overflow := g != 0 && winBefore+uint64(g) > 0xffffffff
		if overflow {
			overflowSent = true
		}
		for time.Now().Before(deadline) {
			if single && !overflow && !fromStall {
				if w, _, closed, _ := ssh.VerifC35SenderState(ch); uint64(w) == winBefore+uint64(g) || closed {
					break
				}
			} else if s.p.idle() || s.p.isClosed() {
				break
			} else if overflow && s.p.empty() {
				time.Sleep(5 * time.Millisecond)
				break
			}
			time.Sleep(50 * time.Microsecond)
		}
		s.mu.Lock()
		grantInFlight = false
	}
	s.onData = func(code uint32, payload []byte) {
		s.mu.Lock()
		defer s.mu.Unlock()
		okc := true
		off := offs[code]
		for i, c := range payload {
			if c != pat(code, off+i) {
				okc = false
				break
			}
		}
		offs[code] = off + len(payload)
		used += uint64(len(payload))
		nData++
		e := fmt.Sprintf("D%d.%d", code, len(payload))
		if !okc {
			e += "!"
		}
		s.ev = append(s.ev, e)
		if eagerK > 0 && nData%eagerK == 0 && len(grants) > 0 {
			sendGrant(false)
		}
	}
	var st string
	ch, st = s.open(o.Str("dir"))
	s.event("O=" + st)
	if st != "ok" {
		if st == "err" && s.muxEnded(5*time.Second) {
			s.event("E")
		}
		return strings.Join(s.ev, ",")
	}
	// writers
	type wres struct {
		code uint32
		n    int
		err  error
	}
	results := make([]wres, len(writers))
	var wg sync.WaitGroup
	var doneCount int
	for i, w := range writers {
		wg.Add(1)
		go func(i int, w writerSpec) {
			defer wg.Done()
			var wr io.Writer = ch
			if w.code == 1 {
				wr = ch.Stderr()
			} else if w.code > 1 {
				wr = ssh.VerifC35Extended(ch, w.code)
			}
			off, tot := 0, 0
			var err error
			for _, z := range w.sizes {
				var n int
				n, err = wr.Write(fill(w.code, off, z))
				tot += n
				off += z
				if err != nil {
					break
				}
			}
			results[i] = wres{w.code, tot, err}
			s.mu.Lock()
			doneCount++
			s.mu.Unlock()
		}(i, w)
	}
	// monitor: detect "a writer is blocked in reserve with window 0 and nothing is in flight"
	start := time.Now()
	for {
		s.mu.Lock()
		done := doneCount == len(writers)
		inflight := grantInFlight
		s.mu.Unlock()
		if done {
			break
		}
		if time.Since(start) > 60*time.Second {
			return "hang"
		}
		win, waiters, closed, _ := ssh.VerifC35SenderState(ch)
		if closed {
			break
		}
		if !inflight && win == 0 && waiters > 0 && s.p.idle() {
			// re-check under the lock that no grant raced in
			s.mu.Lock()
			if grantInFlight {
				s.mu.Unlock()
				continue
			}
			s.ev = append(s.ev, "S")
			if len(grants) == 0 {
				s.mu.Unlock()
				// final stall: window 0, a writer blocked, no grant left. Packets already reserved by other
				// writers are still on their way to the wire: every reserved byte must appear (used == granted).
				for dl := time.Now().Add(3 * time.Second); time.Now().Before(dl); time.Sleep(100 * time.Microsecond) {
					s.mu.Lock()
					all := used == granted
					s.mu.Unlock()
					if all {
						break
					}
				}
				break
			}
			sendGrant(true)
			s.mu.Unlock()
			continue
		}
		time.Sleep(100 * time.Microsecond)
	}
	s.mu.Lock()
	ovf := overflowSent
	s.mu.Unlock()
	if ovf {
		s.muxEnded(5 * time.Second)
	}
	// CloseWrite, then a Write on stdout and on stderr: (0, io.EOF) and nothing on the wire
	if o.Str("eof") == "1" && !ovf && !s.p.isClosed() {
		s.mu.Lock()
		allDone := doneCount == len(writers)
		s.mu.Unlock()
		if allDone {
			allOK := true
			for _, r := range results {
				if r.err != nil {
					allOK = false
				}
			}
			if allOK {
				ch.CloseWrite()
				for _, code := range []uint32{0, 1} {
					var wr io.Writer = ch
					if code == 1 {
						wr = ch.Stderr()
					}
					n, err := wr.Write([]byte{1})
					switch {
					case n == 0 && err == io.EOF:
						s.event(fmt.Sprintf("Z%d=eof", code))
					case err == nil:
						s.event(fmt.Sprintf("Z%d=wrote%d", code, n))
					default:
						s.event(fmt.Sprintf("Z%d=err", code))
					}
				}
			}
		}
	}
	clientClosedFirst := s.p.isClosed()
	if !clientClosedFirst {
		// give an overflow teardown the chance to show before the peer hangs up
		s.mu.Lock()
		done := doneCount == len(writers)
		s.mu.Unlock()
		if !done {
			_, _, closed, _ := ssh.VerifC35SenderState(ch)
			if closed {
				s.muxEnded(5 * time.Second)
				clientClosedFirst = s.p.isClosed()
			}
		}
	}
	s.p.Close()
	fin := make(chan struct{})
	go func() { wg.Wait(); close(fin) }()
	select {
	case <-fin:
	case <-time.After(20 * time.Second):
		return "hang"
	}
	s.mu.Lock()
	defer s.mu.Unlock()
	if clientClosedFirst {
		s.ev = append(s.ev, "E")
	}
	for _, r := range results {
		stt := "ok"
		if r.err == io.EOF {
			stt = "eof"
		} else if r.err != nil {
			stt = "err"
		}
		s.ev = append(s.ev, fmt.Sprintf("W%d=%d.%s", r.code, r.n, stt))
	}
	return strings.Join(s.ev, ",")
}

// ---------------------------------------------------------------- rcv

func execRcv(o hx.Op) string {
	s := &base{p: newPipe(), w0: 1 << 20, m: 1 << 15}
	sendOff := map[uint32]int{}
	var refillOn atomic.Bool
	s.onAdjust = func(n uint32) {
		s.event(fmt.Sprintf("A%d", n))
		if !refillOn.Load() {
			return
		}
		// We are inside the mux's own writePacket of the window adjust. A compliant but fast peer uses the whole
		// new grant at once; give the mux read loop the chance to handle that data BEFORE this writePacket returns
		// (if the receiver credits myWindow only after writing the adjust, handleData finds the window too small).
		left := int(n)
		for left > 0 {
			l := left
			if l > 1<<15 {
				l = 1 << 15
			}
			b := append([]byte{94}, sshU32(s.clientID)...)
			b = append(b, sshU32(uint32(l))...)
			b = append(b, fill(0, sendOff[0], l)...)
			sendOff[0] += l
			s.p.send(b)
			left -= l
		}
		for dl := time.Now().Add(20 * time.Millisecond); time.Now().Before(dl); {
			if s.p.idle() || s.p.isClosed() {
				break
			}
			runtime.Gosched()
			if s.p.empty() {
				time.Sleep(20 * time.Microsecond)
			}
		}
	}
	ch, st := s.open(o.Str("dir"))
	if st != "ok" {
		return "open-" + st
	}
	readOff := map[uint32]int{}
	var segs []string
	flush := func() {
		s.mu.Lock()
		if len(s.ev) == 0 {
			segs = append(segs, "-")
		} else {
			segs = append(segs, strings.Join(s.ev, ","))
		}
		s.ev = s.ev[:0]
		s.mu.Unlock()
	}
	// wait until the mux loop has handled everything sent (or has torn the connection down)
	settle := func() bool {
		deadline := time.Now().Add(20 * time.Second)
		for time.Now().Before(deadline) {
			if s.p.isClosed() {
				return false
			}
			if s.p.idle() {
				return true
			}
			time.Sleep(50 * time.Microsecond)
		}
		return true
	}
	dataPkt := func(code uint32, lenField, actual int) []byte {
		var b []byte
		if code == 0 {
			b = append([]byte{94}, sshU32(s.clientID)...)
		} else {
			b = append([]byte{95}, sshU32(s.clientID)...)
			b = append(b, sshU32(code)...)
		}
		b = append(b, sshU32(uint32(lenField))...)
		b = append(b, fill(code, sendOff[code], actual)...)
		if lenField == actual && lenField <= 1<<15 {
			sendOff[code] += actual
		}
		return b
	}
	for _, t := range o.List("steps") {
		switch t[0] {
		case 'd', 'e', 'b', 'D':
			var pk [][]byte
			switch t[0] {
			case 'd':
				n, _ := strconv.Atoi(t[1:])
				pk = append(pk, dataPkt(0, n, n))
			case 'e':
				c, l, _ := strings.Cut(t[1:], ".")
				cv, _ := strconv.Atoi(c)
				n, _ := strconv.Atoi(l)
				pk = append(pk, dataPkt(uint32(cv), n, n))
			case 'b':
				l, a, _ := strings.Cut(t[1:], ".")
				lf, _ := strconv.Atoi(l)
				ac, _ := strconv.Atoi(a)
				pk = append(pk, dataPkt(0, lf, ac))
			case 'D':
				c, l, _ := strings.Cut(t[1:], "x")
				cnt, _ := strconv.Atoi(c)
				n, _ := strconv.Atoi(l)
				for i := 0; i < cnt; i++ {
					pk = append(pk, dataPkt(0, n, n))
				}
			}
			for _, b := range pk {
				s.p.send(b)
			}
			if !settle() {
				// torn down: the error observable replaces this step's segment and ends the trace
				s.mu.Lock()
				s.ev = s.ev[:0]
				s.mu.Unlock()
				segs = append(segs, "X")
				return strings.Join(segs, "|")
			}
			flush()
		case 'r', 's', 'R':
			n, _ := strconv.Atoi(t[1:])
			refillOn.Store(t[0] == 'R')
			code := uint32(0)
			var rd io.Reader = ch
			if t[0] == 's' {
				code, rd = 1, ch.Stderr()
			}
			type rr struct {
				k   int
				err error
				buf []byte
			}
			rc := make(chan rr, 1)
			go func() { b := make([]byte, n); k, err := rd.Read(b); rc <- rr{k, err, b} }()
			select {
			case r := <-rc:
				e := fmt.Sprintf("R%d", r.k)
				if r.err != nil {
					e = "Rerr"
				}
				for i := 0; i < r.k; i++ {
					if r.buf[i] != pat(code, readOff[code]+i) {
						e += "!"
						break
					}
				}
				readOff[code] += r.k
				s.mu.Lock()
				s.ev = append([]string{e}, s.ev...)
				s.mu.Unlock()
			case <-time.After(60 * time.Second):
				return "hang"
			}
			refillOn.Store(false)
			if t[0] == 'R' && !settle() {
				// the refill tore the connection down
				flush()
				segs = append(segs, "X")
				return strings.Join(segs, "|")
			}
			flush()
		default:
			return "bad-op"
		}
	}
	return strings.Join(segs, "|")
}

func exec(line string) string {
	o := hx.Parse(line)
	switch o.Cmd {
	case "snd":
		return execSnd(o)
	case "rcv":
		return execRcv(o)
	case "pair":
		return execPair(o)
	}
	return "bad-op"
}

// ---------------------------------------------------------------- pair: two REAL muxes, free-running goroutines

// execPair connects two real muxes back to back. Side A opens a channel and writes (one goroutine per
// extended code), side B accepts and reads stdout / stderr with the given buffer sizes and pauses; code > 1
// data is discarded by B. A monitor linearises every data packet (A→B) and window adjust (B→A) in the order
// of the writePacket calls. Nothing is serialised: this is the "all schedules" sample of the real code.
func execPair(o hx.Op) string {
	var mu sync.Mutex
	var ev []string
	offs := map[uint32]int{}
	a, b := newPipe(), newPipe()
	var aChan uint32
	a.onWrite = func(p []byte) { // A writes → B reads
		mu.Lock()
		switch p[0] {
		case 94:
			if len(p) >= 9 {
				ev = append(ev, dataEvent(0, p[9:], offs))
			}
		case 95:
			if len(p) >= 13 {
				ev = append(ev, dataEvent(binary.BigEndian.Uint32(p[5:]), p[13:], offs))
			}
		}
		mu.Unlock()
		b.send(p)
	}
	b.onWrite = func(p []byte) { // B writes → A reads
		mu.Lock()
		if p[0] == 93 && len(p) >= 9 && binary.BigEndian.Uint32(p[1:]) == aChan {
			ev = append(ev, fmt.Sprintf("J%d", binary.BigEndian.Uint32(p[5:])))
		}
		mu.Unlock()
		a.send(p)
	}
	ma, mb := ssh.VerifC35NewMux(a), ssh.VerifC35NewMux(b)
	type acc struct {
		ch  ssh.Channel
		err error
	}
	bc := make(chan acc, 1)
	go func() {
		nc, ok := <-mb.IncomingChannels()
		if !ok {
			bc <- acc{nil, io.EOF}
			return
		}
		ch, rq, err := nc.Accept()
		if err == nil {
			go ssh.DiscardRequests(rq)
		}
		bc <- acc{ch, err}
	}()
	cha, rqa, err := ma.OpenChannel("verif", nil)
	if err != nil {
		return "open-err"
	}
	go ssh.DiscardRequests(rqa)
	id, _, _ := ssh.VerifC35ChannelIDs(cha)
	mu.Lock()
	aChan = id
	mu.Unlock()
	ba := <-bc
	if ba.err != nil {
		return "accept-err"
	}
	chb := ba.ch
	var wg sync.WaitGroup
	totals := map[uint32]int{}
	type wres struct {
		code uint32
		n    int
		err  error
	}
	var writers []writerSpec
	for _, w := range o.List("writers") {
		c, szs, _ := strings.Cut(w, ":")
		cv, _ := strconv.Atoi(c)
		ws := writerSpec{code: uint32(cv)}
		for _, z := range strings.Split(szs, "+") {
			v, _ := strconv.Atoi(z)
			ws.sizes = append(ws.sizes, v)
			totals[ws.code] += v
		}
		writers = append(writers, ws)
	}
	wr := make([]wres, len(writers))
	for i, w := range writers {
		wg.Add(1)
		go func(i int, w writerSpec) {
			defer wg.Done()
			var dst io.Writer = cha
			if w.code == 1 {
				dst = cha.Stderr()
			} else if w.code > 1 {
				dst = ssh.VerifC35Extended(cha, w.code)
			}
			off, tot := 0, 0
			var err error
			for _, z := range w.sizes {
				var n int
				n, err = dst.Write(fill(w.code, off, z))
				tot += n
				off += z
				if err != nil {
					break
				}
			}
			wr[i] = wres{w.code, tot, err}
		}(i, w)
	}
	// readers on B
	type rres struct {
		n  int
		ok bool
	}
	rr := map[uint32]*rres{0: {ok: true}, 1: {ok: true}}
	bufs := map[uint32]int{0: o.Int("r0"), 1: o.Int("r1")}
	pause := o.Int("pause")
	var rg sync.WaitGroup
	for _, code := range []uint32{0, 1} {
		if totals[code] == 0 {
			continue
		}
		rg.Add(1)
		go func(code uint32) {
			defer rg.Done()
			var src io.Reader = chb
			if code == 1 {
				src = chb.Stderr()
			}
			buf := make([]byte, bufs[code])
			res := rr[code]
			for k := 0; res.n < totals[code]; k++ {
				n, err := src.Read(buf)
				for i := 0; i < n; i++ {
					if buf[i] != pat(code, res.n+i) {
						res.ok = false
					}
				}
				res.n += n
				if err != nil {
					return
				}
				if pause > 0 && k%pause == pause-1 {
					time.Sleep(time.Duration(50+10*(k%7)) * time.Microsecond)
				}
			}
		}(code)
	}
	fin := make(chan struct{})
	go func() { wg.Wait(); rg.Wait(); close(fin) }()
	hang := false
	select {
	case <-fin:
	case <-time.After(60 * time.Second):
		hang = true
	}
	// let both mux loops handle everything that is still queued (discarded extended data is credited by B's loop)
	if !hang {
		for dl := time.Now().Add(20 * time.Second); time.Now().Before(dl); time.Sleep(100 * time.Microsecond) {
			if (a.idle() || a.isClosed()) && (b.idle() || b.isClosed()) {
				if (a.idle() || a.isClosed()) && (b.idle() || b.isClosed()) {
					break
				}
			}
		}
	}
	aEnded, bEnded := a.isClosed(), b.isClosed()
	a.Close()
	b.Close()
	if hang {
		return "hang"
	}
	mu.Lock()
	defer mu.Unlock()
	out := append([]string(nil), ev...)
	if aEnded || bEnded {
		out = append(out, "E")
	}
	for _, r := range wr {
		st := "ok"
		if r.err != nil {
			st = "err"
		}
		out = append(out, fmt.Sprintf("W%d=%d.%s", r.code, r.n, st))
	}
	for _, code := range []uint32{0, 1} {
		if totals[code] > 0 {
			st := "ok"
			if !rr[code].ok {
				st = "bad"
			}
			out = append(out, fmt.Sprintf("R%d=%d.%s", code, rr[code].n, st))
		}
	}
	return strings.Join(out, ",")
}

func dataEvent(code uint32, payload []byte, offs map[uint32]int) string {
	okc := true
	off := offs[code]
	for i, c := range payload {
		if c != pat(code, off+i) {
			okc = false
			break
		}
	}
	offs[code] = off + len(payload)
	e := fmt.Sprintf("D%d.%d", code, len(payload))
	if !okc {
		e += "!"
	}
	return e
}

func genPair(g *hx.Gen) {
	r := g.R
	codes := []int{0, 1, 7}
	hx.Shuffle(r, codes)
	nw := r.PickInt(1, 2, 3)
	var ws []string
	for i := 0; i < nw; i++ {
		var szs []string
		for j := r.Range(1, 3); j > 0; j-- {
			z := r.PickInt(0, 1, 32767, 32768, 32769, 98304, 98305, 1<<20, 1<<21, 1<<21+1, r.Range(0, 3<<20))
			szs = append(szs, strconv.Itoa(z))
		}
		ws = append(ws, fmt.Sprintf("%d:%s", codes[i], strings.Join(szs, "+")))
	}
	g.Stat(fmt.Sprintf("pair.writers=%d", nw))
	r0, r1 := r.PickInt(1, 100, 4096, 32768, 65536, 1<<20), r.PickInt(1, 7, 1000, 32768, 1<<20)
	for i, w := range ws { // tiny read buffers only with small streams
		tot := 0
		for _, z := range strings.Split(w[strings.Index(w, ":")+1:], "+") {
			v, _ := strconv.Atoi(z)
			tot += v
		}
		if tot > 20000 {
			if codes[i] == 0 && r0 < 4096 {
				r0 = 4096
			}
			if codes[i] == 1 && r1 < 4096 {
				r1 = 4096
			}
		}
	}
	g.Emit("pair writers=%s r0=%d r1=%d pause=%d", strings.Join(ws, ","), r0, r1, r.PickInt(0, 1, 3, 10))
}

// ---------------------------------------------------------------- generators

func genSnd(g *hx.Gen) {
	r := g.R
	m := r.Range(9, 64)
	if r.Chance(1, 6) {
		m = 9
	}
	switch r.Intn(12) {
	case 0:
		m = 1 << 15
	case 1:
		m = r.PickInt(0, 1, 8, 1<<31+1, 1<<32-1)
		g.Stat("snd.invalid-maxpacket")
	case 2:
		m = r.PickInt(9, 10, 1<<31)
	}
	w0 := r.PickInt(0, 1, m-1, m, m+1, r.Range(0, 300), r.Range(0, 5000), 1<<16, 1<<21)
	if w0 < 0 {
		w0 = 0
	}
	codes := []int{0, 1, 2, 7}
	hx.Shuffle(r, codes)
	nw := r.PickInt(1, 1, 1, 2, 3, 4)
	budget := 2500 // packets
	if g.Thorough() {
		budget = 20000
	}
	var ws []string
	total := 0
	for i := 0; i < nw; i++ {
		var szs []string
		for j := r.Range(1, 3); j > 0; j-- {
			z := r.PickInt(0, 1, m-1, m, m+1, 2*m, r.Range(0, 40*min(m, 64)), r.Range(0, 2000))
			if r.Chance(1, 4) && m >= 1<<15 && m <= 1<<31 {
				z = r.Range(100000, 200000)
				g.Stat("snd.write-100k+")
			}
			if z < 0 {
				z = 0
			}
			mm := m
			if mm < 9 || mm > 1<<15 {
				mm = 9
			}
			if (total+z)/mm > budget {
				z = 0
			}
			total += z
			szs = append(szs, strconv.Itoa(z))
		}
		ws = append(ws, fmt.Sprintf("%d:%s", codes[i], strings.Join(szs, "+")))
	}
	var grants []int
	need := total - w0
	pol := "stall"
	if r.Chance(1, 2) {
		pol = fmt.Sprintf("eager%d", r.PickInt(1, 2, 5))
	}
	sum := 0
	for k := r.Range(0, 8); k > 0 && len(grants) < 8; k-- {
		gr := r.PickInt(0, 1, m, r.Range(1, 200), r.Range(1, 3000), max(need/3, 1), max(need, 1))
		if gr < 0 {
			gr = 1
		}
		grants = append(grants, gr)
		sum += gr
	}
	if r.Chance(2, 3) && sum < need { // usually give enough window to finish
		grants = append(grants, need-sum+r.Intn(50))
	}
	if nw == 1 && r.Chance(1, 5) { // an adjust that overflows the uint32 window
		grants = append(grants, 1<<32-1)
		if r.Bool() {
			w0 = 1<<32 - 1 - r.Intn(3)
		}
		pol = "eager1"
		g.Stat("snd.overflow-grant")
	}
	if nw > 1 { // several writers: the window at the time of an adjust is not determined by the wire, so no overflow games
		for i := range grants {
			if grants[i] > 1<<24 {
				grants[i] = 1 << 24
			}
		}
		if w0 > 1<<30 {
			w0 = 1 << 21
		}
	}
	g.Stat(fmt.Sprintf("snd.writers=%d", nw))
	g.Stat("snd.pol=" + pol[:5])
	gsum := 0
	for _, x := range grants {
		gsum += x
	}
	if w0+gsum >= total { // every writer must finish (adjust_unblocks: each stall is followed by progress)
		g.Stat("snd.window-sufficient-after-stalls")
	} else { // the run must end stalled with every granted byte used
		g.Stat("snd.window-insufficient-ends-stalled")
	}
	eof := r.Intn(2)
	dir := r.PickStr("out", "in")
	feat := map[string]bool{"multi-writer": nw > 1, "stall": pol == "stall", "eager": pol != "stall", "w0=0": w0 == 0, "w0<m": w0 < m,
		"m=9": m == 9, "m>=32768": m >= 1<<15 && m <= 1<<31, "invalid-m": m < 9 || m > 1<<31, "window-insufficient": w0+gsum < total,
		"closewrite": eof == 1, "dir-in": dir == "in"}
	for i := 0; i < nw; i++ {
		switch {
		case codes[i] == 0:
			feat["stdout"] = true
		case codes[i] == 1:
			feat["stderr"] = true
		default:
			feat["ext>1"] = true
		}
	}
	for _, w := range ws {
		for _, z := range strings.Split(w[strings.Index(w, ":")+1:], "+") {
			if z == "0" {
				feat["zero-write"] = true
			}
			if v, _ := strconv.Atoi(z); v >= 100000 {
				feat["write>=2M"] = true
			}
		}
	}
	for _, x := range grants {
		if x == 0 {
			feat["zero-grant"] = true
		}
		if x == 1<<32-1 {
			feat["overflow-grant"] = true
		}
	}
	notePairs(sndFeatures, feat)
	g.Emit("snd dir=%s w0=%d m=%d pol=%s grants=%s writers=%s eof=%d", dir, w0, m, pol, hx.JoinInts(grants), strings.Join(ws, ","), eof)
	_ = dir
}

// generator-side mirror of the receiver accounting (only to keep reads from blocking and to aim at thresholds)
type grcv struct{ win, consumed, pend, ext int }

const gW, gM = 64 * 32768, 32768

func (r *grcv) adjust(n int) bool {
	r.consumed += n
	if gW-r.win > 3*gM || r.win < gW/2 {
		r.win += r.consumed
		r.consumed = 0
		return true
	}
	return false
}

func genRcv(g *hx.Gen) {
	r := g.R
	st := &grcv{win: gW}
	var toks []string
	feat := map[string]bool{}
	n := r.Range(3, 24)
	dead := false
	for i := 0; i < n && !dead; i++ {
		switch c := r.Intn(100); {
		case c < 34: // data
			l := r.PickInt(1, 2, 100, gM-1, gM, r.Range(1, gM), r.Range(1, 3000))
			if l > st.win {
				g.Stat("rcv.window-exceeded")
				feat["window-exceeded"] = true
				dead = true
			}
			feat["stdout-data"] = true
			toks = append(toks, fmt.Sprintf("d%d", l))
			st.win -= l
			st.pend += l
		case c < 44: // burst towards the thresholds (3*32768 outstanding, half window) and the window limit
			cnt := r.PickInt(3, 4, 31, 32, 33, 63, 64)
			l := r.PickInt(gM, gM, gM-1, 1000)
			if cnt*l > st.win {
				g.Stat("rcv.window-exceeded")
				dead = true
			}
			feat["burst"] = true
			if cnt*l > st.win {
				feat["window-exceeded"] = true
			}
			toks = append(toks, fmt.Sprintf("D%dx%d", cnt, l))
			st.win -= cnt * l
			st.pend += cnt * l
		case c < 52: // extended data
			code := r.PickInt(1, 1, 2, 7, 1<<31)
			l := r.PickInt(1, 100, gM, r.Range(1, gM))
			if l > st.win {
				dead = true
			}
			toks = append(toks, fmt.Sprintf("e%d.%d", code, l))
			st.win -= l
			if code == 1 {
				st.ext += l
				feat["stderr-data"] = true
			} else {
				if st.adjust(l) {
					feat["adjust-sent"] = true
				}
				g.Stat("rcv.discarded-ext")
				feat["discarded-ext"] = true
			}
		case c < 59:
			switch r.Intn(3) {
			case 0:
				toks = append(toks, "d0") // zero-length data: ignored
				feat["zero-len"] = true
			case 1:
				toks = append(toks, fmt.Sprintf("d%d", gM+r.Range(1, 3))) // larger than maxIncomingPayload
				dead = true
				g.Stat("rcv.too-large")
				feat["too-large"] = true
			case 2:
				toks = append(toks, fmt.Sprintf("b%d.%d", r.Range(1, 50), r.Range(51, 60))) // wrong length field
				dead = true
				g.Stat("rcv.wrong-length")
				feat["wrong-length"] = true
			}
		default: // read
			if st.pend == 0 && st.ext == 0 {
				i--
				if len(toks) > 40 {
					i++
				}
				toks = append(toks, fmt.Sprintf("d%d", r.Range(1, 500)))
				l, _ := strconv.Atoi(toks[len(toks)-1][1:])
				st.win -= l
				st.pend += l
				continue
			}
			useExt := st.ext > 0 && (st.pend == 0 || r.Chance(1, 3))
			avail := st.pend
			if useExt {
				avail = st.ext
			}
			nn := r.PickInt(1, avail, avail+10, r.Range(1, avail), gM, 3*gM+1, 1<<20)
			k := min(nn, avail)
			if useExt {
				toks = append(toks, fmt.Sprintf("s%d", nn))
				st.ext -= k
			} else {
				toks = append(toks, fmt.Sprintf("r%d", nn))
				st.pend -= k
			}
			if st.adjust(k) {
				feat["adjust-sent"] = true
			}
			feat["read-1"] = feat["read-1"] || nn == 1
			feat["read>avail"] = feat["read>avail"] || nn > avail
			feat["read-stderr"] = feat["read-stderr"] || useExt
			g.Stat("rcv.read")
		}
	}
	dir := r.PickStr("out", "in")
	feat["dir-in"] = dir == "in"
	notePairs(rcvFeatures, feat)
	g.Emit("rcv dir=%s steps=%s", dir, strings.Join(toks, ","))
}

// ---- feature-pair coverage counters (pair.<a>+<b>), per op family
var sndFeatures = []string{"multi-writer", "stdout", "stderr", "ext>1", "zero-write", "write>=2M", "stall", "eager", "w0=0", "w0<m", "m=9",
	"m>=32768", "invalid-m", "overflow-grant", "zero-grant", "window-insufficient", "closewrite", "dir-in"}
var rcvFeatures = []string{"burst", "stdout-data", "stderr-data", "discarded-ext", "zero-len", "too-large", "wrong-length", "window-exceeded",
	"read-1", "read>avail", "read-stderr", "adjust-sent", "refill-race", "dir-in"}
var pairCount = map[string]int{}

var seenFeature = map[string]bool{}

func notePairs(list []string, feat map[string]bool) {
	for i, a := range list {
		if !feat[a] {
			continue
		}
		seenFeature[a] = true
		for _, b := range list[i+1:] {
			if feat[b] {
				pairCount[a+"+"+b]++
			}
		}
	}
}

// pairs that cannot occur in one op (alternatives of one choice, or the first of them ends the op / makes the other moot)
func impossiblePair(a, b string) bool {
	in := func(x string, set ...string) bool {
		for _, y := range set {
			if x == y {
				return true
			}
		}
		return false
	}
	both := func(set ...string) bool { return in(a, set...) && in(b, set...) }
	switch {
	case both("stall", "eager"), both("m=9", "m>=32768", "invalid-m"), both("too-large", "wrong-length", "window-exceeded"):
		return true
	case (a == "invalid-m" || b == "invalid-m") && !both("invalid-m", "dir-in", "w0=0", "w0<m"): // the open fails: nothing else happens
		return true
	case both("overflow-grant", "multi-writer", "window-insufficient", "stall"): // overflow grants: single writer, eager, ends the op
		return a == "overflow-grant" || b == "overflow-grant" || false
	case both("write>=2M", "m=9"): // big writes only with big packets (packet budget)
		return true
	case (a == "refill-race" || b == "refill-race") && (in(a, "too-large", "wrong-length", "window-exceeded") || in(b, "too-large", "wrong-length", "window-exceeded")):
		return true
	}
	return false
}

func emitPairs(g *hx.Gen) {
	cnt := func(arms ...string) string {
		n := 0
		for _, a := range arms {
			if seenFeature[a] {
				n++
			}
		}
		return fmt.Sprintf("%d/%d", n, len(arms))
	}
	// the arms of channel.handleData and of the sender's extended-code switch
	g.Stat("table.handleData-arm=" + cnt("zero-len", "too-large", "wrong-length", "window-exceeded", "stdout-data", "stderr-data", "discarded-ext"))
	g.Stat("table.write-stream=" + cnt("stdout", "stderr", "ext>1"))
	for _, list := range [][]string{sndFeatures, rcvFeatures} {
		for i, a := range list {
			for _, b := range list[i+1:] {
				if impossiblePair(a, b) {
					continue
				}
				g.StatN("pair."+a+"+"+b, pairCount[a+"+"+b])
			}
		}
	}
}

// genRace: the receive window is exactly exhausted, then every Read's window adjust is answered by the peer at once,
// from inside the writePacket of the adjust, with data that uses the whole new grant — 30..90 times per op.
// (adjustWindow must advertise and credit in one critical section: theorem adjust_must_be_atomic)
func genRace(g *hx.Gen) {
	r := g.R
	var toks []string
	switch r.Intn(3) {
	case 0:
		toks = append(toks, "D64x32768")
	case 1:
		toks = append(toks, "D63x32768", "d32768")
	case 2:
		toks = append(toks, "D32x32768", "e1.32768", "D31x32768")
	}
	feat := map[string]bool{"refill-race": true, "burst": true, "stdout-data": true, "adjust-sent": true, "read>avail": true, "read-1": true}
	if r.Chance(1, 3) { // a discarded extended packet in the middle of the fill: credited at once, the window is exhausted all the same
		toks = []string{"D32x32768", "e7.32768", "D32x32768"}
		feat["discarded-ext"] = true
	}
	stderrLeft := 0
	if strings.Contains(strings.Join(toks, ","), "e1.") {
		stderrLeft = 32768
		feat["stderr-data"] = true
	}
	for i := r.Range(30, 90); i > 0; i-- {
		toks = append(toks, fmt.Sprintf("R%d", r.PickInt(32768, 32768, 1, 100, 4096, 65536, 98305, 1<<20)))
		if r.Chance(1, 12) {
			toks = append(toks, "d0")
			feat["zero-len"] = true
		}
		if stderrLeft > 0 && r.Chance(1, 8) { // (no refill for stderr reads: the window simply re-opens by that much)
			n := r.PickInt(1, 100, 4096)
			toks = append(toks, fmt.Sprintf("s%d", n))
			stderrLeft -= n
			feat["read-stderr"] = true
		}
	}
	g.Stat("rcv.race-refill")
	dir := r.PickStr("out", "in")
	feat["dir-in"] = dir == "in"
	notePairs(rcvFeatures, feat)
	g.Emit("rcv dir=%s steps=%s", dir, strings.Join(toks, ","))
}

func gen(g *hx.Gen) {
	n := g.Count(300, 40000)
	for i := 0; i < n; i++ {
		switch {
		case i%8 == 7:
			genPair(g)
		case i%8 == 3 && (!g.Thorough() || i%40 == 3): // (each race op moves > 2 MiB: thinner in the thorough tier)
			genRace(g)
		case i%2 == 0:
			genSnd(g)
		default:
			genRcv(g)
		}
	}
	emitPairs(g)
}

func main() {
	hx.Main(hx.Harness{Gen: gen, Exec: exec})
}
