package main

import (
	"encoding/binary"
	"io"
	"sync"
)

// pipe is the in-memory, monitored packet transport handed to the real mux through the
// ssh.VerifC35PacketConn hook. The harness is the peer: packets it wants the client to read are
// queued with send (unbounded, so the scripted peer never blocks); every packet the client writes is
// handed synchronously to onWrite (wire order = call order); the caller's slice is clobbered afterwards, as an
// in-place cipher would do.
type pipe struct {
	mu      sync.Mutex
	cond    *sync.Cond
	q       [][]byte
	closed  bool
	reading bool // the mux loop is parked in ReadPacket on an empty queue
	onWrite func(p []byte)
}

func newPipe() *pipe {
	p := &pipe{}
	p.cond = sync.NewCond(&p.mu)
	return p
}

func (p *pipe) WritePacket(b []byte) error {
	p.mu.Lock()
	closed := p.closed
	p.mu.Unlock()
	if closed {
		return io.EOF
	}
	p.onWrite(append([]byte(nil), b...))
	// The real aes*-ctr / arcfour packet ciphers encrypt the slice handed to writePacket IN PLACE: after the call
	// the caller's buffer holds ciphertext. This transport records a copy and then scribbles over the caller's
	// slice the same way, so code that re-uses (parts of) a packet buffer after writePacket shows up on the wire.
	for i := range b {
		b[i] = ^b[i] ^ byte(i*7)
	}
	return nil
}

func (p *pipe) ReadPacket() ([]byte, error) {
	p.mu.Lock()
	defer p.mu.Unlock()
	for len(p.q) == 0 && !p.closed {
		p.reading = true
		p.cond.Wait()
	}
	p.reading = false
	if len(p.q) > 0 {
		b := p.q[0]
		p.q = p.q[1:]
		return b, nil
	}
	return nil, io.EOF
}

func (p *pipe) Close() error {
	p.mu.Lock()
	p.closed = true
	p.cond.Broadcast()
	p.mu.Unlock()
	return nil
}

func (p *pipe) send(b []byte) {
	p.mu.Lock()
	p.q = append(p.q, b)
	p.cond.Broadcast()
	p.mu.Unlock()
}

// idle: everything the peer sent has been consumed and the mux loop waits for more.
func (p *pipe) idle() bool {
	p.mu.Lock()
	defer p.mu.Unlock()
	return len(p.q) == 0 && p.reading
}

func sshStr(s string) []byte {
	b := make([]byte, 4+len(s))
	binary.BigEndian.PutUint32(b, uint32(len(s)))
	copy(b[4:], s)
	return b
}
func sshU32(v uint32) []byte { b := make([]byte, 4); binary.BigEndian.PutUint32(b, v); return b }

// rdStr reads an SSH string; ok=false on truncation.
func rdStr(b []byte) (s string, rest []byte, ok bool) {
	if len(b) < 4 {
		return "", nil, false
	}
	n := binary.BigEndian.Uint32(b)
	if uint64(len(b)-4) < uint64(n) {
		return "", nil, false
	}
	return string(b[4 : 4+n]), b[4+n:], true
}

func (p *pipe) isClosed() bool { p.mu.Lock(); defer p.mu.Unlock(); return p.closed }
func (p *pipe) empty() bool    { p.mu.Lock(); defer p.mu.Unlock(); return len(p.q) == 0 }
