// C30 — strict key exchange. Real client and server handshakeTransports (hook ssh/verif_c30.go) over an
// in-memory man-in-the-middle that inserts / deletes / swaps plaintext packets before the first NEWKEYS
// ("mitm"), and a real endpoint against a scripted peer whose KEXINIT may lack the strict marker
// ("peerc" = scripted client vs real server, "peers" = scripted server vs real client).
// conf mode "accept": the observable carries, per real endpoint, the outcome (ok / err / stall), the
// transport's sequence numbers right after NEWKEYS, and the packet types delivered to / sent by it;
// the Lean model replays the delivered types through its receive-path transition system.
package main

import (
	"crypto/ed25519"
	"crypto/rand"
	"encoding/binary"
	"errors"
	"fmt"
	"io"
	"strconv"
	"strings"
	"sync"
	"sync/atomic"
	"time"

	"golang.org/x/crypto/ssh"
	"verifharness/hx"
)

// ---------------------------------------------------------------- buffered in-memory duplex pipe

type half struct {
	mu     sync.Mutex
	cond   *sync.Cond
	buf    []byte
	closed bool
	act    *atomic.Int64
}

func newHalf(act *atomic.Int64) *half { h := &half{act: act}; h.cond = sync.NewCond(&h.mu); return h }

func (h *half) Write(p []byte) (int, error) {
	h.mu.Lock()
	defer h.mu.Unlock()
	if h.closed {
		return 0, io.ErrClosedPipe
	}
	h.buf = append(h.buf, p...)
	h.act.Store(time.Now().UnixNano())
	h.cond.Broadcast()
	return len(p), nil
}
func (h *half) Read(p []byte) (int, error) {
	h.mu.Lock()
	defer h.mu.Unlock()
	for len(h.buf) == 0 && !h.closed {
		h.cond.Wait()
	}
	if len(h.buf) == 0 {
		return 0, io.EOF
	}
	n := copy(p, h.buf)
	h.buf = h.buf[n:]
	h.act.Store(time.Now().UnixNano())
	return n, nil
}
func (h *half) Close() {
	h.mu.Lock()
	h.closed = true
	h.cond.Broadcast()
	h.mu.Unlock()
}

type duplex struct{ r, w *half }

func (d *duplex) Read(p []byte) (int, error)  { return d.r.Read(p) }
func (d *duplex) Write(p []byte) (int, error) { return d.w.Write(p) }
func (d *duplex) Close() error                { d.r.Close(); d.w.Close(); return nil }

func pipePair(act *atomic.Int64) (*duplex, *duplex) {
	a, b := newHalf(act), newHalf(act)
	return &duplex{r: a, w: b}, &duplex{r: b, w: a}
}

// ---------------------------------------------------------------- plaintext packet framing (RFC 4253 §6, cipher none)

func frame(payload []byte) []byte {
	pad := 8 - (5+len(payload))%8
	if pad < 4 {
		pad += 8
	}
	out := make([]byte, 4, 5+len(payload)+pad)
	binary.BigEndian.PutUint32(out, uint32(1+len(payload)+pad))
	out = append(out, byte(pad))
	out = append(out, payload...)
	return append(out, make([]byte, pad)...)
}

func readFrame(r io.Reader) (raw, payload []byte, err error) {
	var l [4]byte
	if _, err = io.ReadFull(r, l[:]); err != nil {
		return
	}
	n := binary.BigEndian.Uint32(l[:])
	if n < 2 || n > 1<<20 {
		return nil, nil, errors.New("bad frame length")
	}
	body := make([]byte, n)
	if _, err = io.ReadFull(r, body); err != nil {
		return
	}
	pad := int(body[0])
	if pad+1 >= int(n) {
		return nil, nil, errors.New("bad padding")
	}
	return append(l[:], body...), body[1 : int(n)-pad], nil
}

func wStr(s []byte) []byte {
	b := make([]byte, 4, 4+len(s))
	binary.BigEndian.PutUint32(b, uint32(len(s)))
	return append(b, s...)
}

func nameList(xs ...string) []byte { return wStr([]byte(strings.Join(xs, ","))) }

// kexInit builds a KEXINIT payload offering exactly one kex method and ssh-ed25519.
func kexInit(r *hx.Rand, kex string, extra []string) []byte {
	return kexInitList(r, append([]string{kex}, extra...))
}

// kexInitList: the kex_algorithms name-list is given verbatim (marker positions, duplicates, fillers)
func kexInitList(r *hx.Rand, kexAlgos []string) []byte {
	p := []byte{20}
	p = append(p, r.Bytes(16)...)
	p = append(p, nameList(kexAlgos...)...)
	p = append(p, nameList("ssh-ed25519")...)
	for i := 0; i < 2; i++ {
		p = append(p, nameList("aes128-ctr", "aes128-gcm@openssh.com")...)
	}
	for i := 0; i < 2; i++ {
		p = append(p, nameList("hmac-sha2-256")...)
	}
	for i := 0; i < 2; i++ {
		p = append(p, nameList("none")...)
	}
	p = append(p, nameList()...) // languages c2s
	p = append(p, nameList()...) // languages s2c
	p = append(p, 0)             // first_kex_packet_follows
	return append(p, 0, 0, 0, 0)
}

// injected builds a well-formed message of the given type.
func injected(ty int, r *hx.Rand, kex string) []byte {
	switch ty {
	case 1:
		return append(append([]byte{1, 0, 0, 0, 2}, wStr([]byte("bye"))...), wStr(nil)...)
	case 2:
		return append([]byte{2}, wStr(r.Bytes(r.Intn(20)))...)
	case 3:
		return []byte{3, 0, 0, 0, byte(r.Intn(5))}
	case 4:
		return append(append([]byte{4, byte(r.Intn(2))}, wStr([]byte("dbg"))...), wStr(nil)...)
	case 5:
		return append([]byte{5}, wStr([]byte("ssh-userauth"))...)
	case 7:
		return []byte{7, 0, 0, 0, 0}
	case 20:
		return kexInit(r, kex, []string{"ext-info-c", "kex-strict-c-v00@openssh.com", "kex-strict-s-v00@openssh.com"})
	case 21:
		return []byte{21}
	case 80:
		return append(append([]byte{80}, wStr([]byte("keepalive@openssh.com"))...), 1)
	}
	return append([]byte{byte(ty)}, r.Bytes(r.Intn(12))...)
}

// ---------------------------------------------------------------- the run

var (
	hostOnce sync.Once
	hostKey  ssh.Signer
)

func signer() ssh.Signer {
	hostOnce.Do(func() {
		_, priv, _ := ed25519.GenerateKey(rand.Reader)
		hostKey, _ = ssh.NewSignerFromKey(priv)
	})
	return hostKey
}

type tlog struct {
	mu sync.Mutex
	t  []int
}

func (l *tlog) add(ty byte) { l.mu.Lock(); l.t = append(l.t, int(ty)); l.mu.Unlock() }
func (l *tlog) String() string {
	l.mu.Lock()
	defer l.mu.Unlock()
	return hx.JoinInts(l.t)
}

type endpoint struct {
	h      *ssh.VerifHandshake
	status string // ok err stall
	done   chan struct{}
	rs, ws uint32
	strict bool
	idone  bool
}

func startEndpoint(isClient bool, conn io.ReadWriteCloser, kex string, closedByWatchdog *atomic.Bool) *endpoint {
	e := &endpoint{done: make(chan struct{}), status: "stall"}
	cv, sv := []byte("SSH-2.0-verifC"), []byte("SSH-2.0-verifS")
	if isClient {
		cfg := &ssh.ClientConfig{User: "u", HostKeyCallback: ssh.InsecureIgnoreHostKey()}
		cfg.KeyExchanges = []string{kex}
		cfg.HostKeyAlgorithms = []string{"ssh-ed25519"}
		e.h = ssh.VerifNewClientHandshake(conn, cv, sv, cfg)
	} else {
		cfg := &ssh.ServerConfig{NoClientAuth: true}
		cfg.KeyExchanges = []string{kex}
		cfg.AddHostKey(signer())
		e.h = ssh.VerifNewServerHandshake(conn, cv, sv, cfg)
	}
	go func() {
		err := e.h.WaitSession()
		byWatchdog := closedByWatchdog.Load()
		if err == nil {
			e.status = "ok"
			e.rs, e.ws, e.strict, e.idone = e.h.SeqNums()
		} else if !byWatchdog {
			e.status = "err"
		}
		close(e.done)
	}()
	return e
}

func (e *endpoint) String(tag string) string {
	if e == nil {
		return fmt.Sprintf(" %s=- %srs=0 %sws=0 %sstrict=0", tag, tag, tag, tag)
	}
	b := 0
	if e.strict {
		b = 1
	}
	return fmt.Sprintf(" %s=%s %srs=%d %sws=%d %sstrict=%d", tag, e.status, tag, e.rs, tag, e.ws, tag, b)
}

type action struct {
	dir  string // c2s s2c (mitm) — in peer modes the peer's own send stream
	act  string // none ins del swap
	pos  int
	ty   int
	pos2 int // second injection (thorough): -1 = none
	ty2  int
}

// forward copies plaintext frames src → dst up to and including NEWKEYS, applying the action.
func forward(src io.Reader, dst io.Writer, a *action, r *hx.Rand, kex string, delivered, sent *tlog, wg *sync.WaitGroup) {
	defer wg.Done()
	idx := 0
	var held []byte
	var heldTy byte
	stop := false
	// everything after the first NEWKEYS that reaches the receiver belongs to the encrypted phase: withheld
	deliver := func(raw []byte, ty byte) {
		if stop {
			return
		}
		dst.Write(raw)
		delivered.add(ty)
		if ty == 21 {
			stop = true
		}
	}
	for !stop {
		raw, payload, err := readFrame(src)
		if err != nil {
			return
		}
		ty := payload[0]
		sent.add(ty)
		if a != nil && a.act == "ins" && idx == a.pos {
			p := injected(a.ty, r, kex)
			deliver(frame(p), p[0])
		}
		if a != nil && a.pos2 == idx && a.pos2 >= 0 {
			p := injected(a.ty2, r, kex)
			deliver(frame(p), p[0])
		}
		switch {
		case a != nil && a.act == "del" && idx == a.pos:
			// dropped
		case a != nil && a.act == "swap" && idx == a.pos:
			held, heldTy = raw, ty
		default:
			deliver(raw, ty)
			if held != nil {
				deliver(held, heldTy)
				held = nil
			}
		}
		idx++
		if ty == 21 { // what the sender writes after its NEWKEYS is encrypted
			return
		}
	}
}

// adapter lets the C29 kex hooks run the peer's side of the kex method over plaintext frames.
type adapter struct {
	conn  io.ReadWriter
	send  func(payload []byte)
	rlog  *tlog
}

func (a *adapter) WritePacket(p []byte) error { a.send(append([]byte(nil), p...)); return nil }
func (a *adapter) ReadPacket() ([]byte, error) {
	_, payload, err := readFrame(a.conn)
	if err != nil {
		return nil, err
	}
	a.rlog.add(payload[0])
	return payload, nil
}

func scriptedPeer(peerIsClient bool, conn io.ReadWriter, o hx.Op, a *action, r *hx.Rand, delivered, sent *tlog, wg *sync.WaitGroup) {
	defer wg.Done()
	kex := o.Str("m")
	idx := 0
	stop := false
	deliver := func(p []byte) {
		if stop {
			return
		}
		conn.Write(frame(p))
		delivered.add(p[0])
		if p[0] == 21 {
			stop = true
		}
	}
	send := func(payload []byte) {
		if a.act == "ins" && idx == a.pos {
			deliver(injected(a.ty, r, kex))
		}
		if a.pos2 == idx && a.pos2 >= 0 {
			deliver(injected(a.ty2, r, kex))
		}
		if !(a.act == "del" && idx == a.pos) {
			deliver(payload)
		}
		idx++
	}
	ad := &adapter{conn: conn, send: send, rlog: sent}
	var extra []string
	if peerIsClient {
		if o.Str("extinfo") == "1" {
			extra = append(extra, "ext-info-c")
		}
		if o.Str("strict") == "1" {
			extra = append(extra, "kex-strict-c-v00@openssh.com")
		}
	} else if o.Str("strict") == "1" {
		extra = append(extra, "kex-strict-s-v00@openssh.com")
	}
	mine := kexInit(r, kex, extra)
	if o.Has("kl") {
		mine = kexInitList(r, o.List("kl"))
	}
	// the real endpoint sends its KEXINIT spontaneously
	theirs, err := ad.ReadPacket()
	if err != nil || theirs[0] != 20 {
		return
	}
	send(mine)
	cv, sv := []byte("SSH-2.0-verifC"), []byte("SSH-2.0-verifS")
	if peerIsClient {
		_, err = ssh.VerifKexClient(kex, ad, r, cv, sv, mine, theirs)
	} else {
		_, err = ssh.VerifKexServer(kex, ad, r, cv, sv, theirs, mine, []ssh.Signer{signer()}, "ssh-ed25519")
	}
	if err != nil {
		return
	}
	send([]byte{21})
	// keep reading what the real endpoint sends up to its NEWKEYS (for the write-side sequence number)
	for {
		p, err := ad.ReadPacket()
		if err != nil || p[0] == 21 {
			return
		}
	}
}

// execRekey: no attacker. First key exchange, then `rk` further key exchanges requested alternately by the two
// sides with `app` application packets in each direction in between; the transports' sequence numbers are
// sampled when everything is quiescent. Packet types are recorded by the recording keyingTransport (C31 hook).
func execRekey(o hx.Op) string {
	kex := o.Str("m")
	var act atomic.Int64
	c, s := pipePair(&act)
	var sc, ss tlog
	cv, sv := []byte("SSH-2.0-verifC"), []byte("SSH-2.0-verifS")
	ccfg := &ssh.ClientConfig{User: "u", HostKeyCallback: ssh.InsecureIgnoreHostKey()}
	ccfg.KeyExchanges = []string{kex}
	ccfg.HostKeyAlgorithms = []string{"ssh-ed25519"}
	scfg := &ssh.ServerConfig{NoClientAuth: true}
	scfg.KeyExchanges = []string{kex}
	scfg.AddHostKey(signer())
	ch := ssh.VerifNewClientHandshakeRec(c, cv, sv, ccfg, func(p []byte) { sc.add(p[0]) })
	sh := ssh.VerifNewServerHandshakeRec(s, cv, sv, scfg, func(p []byte) { ss.add(p[0]) })
	defer func() { c.Close(); s.Close(); go ch.Close(); go sh.Close() }()
	res := make(chan error, 2)
	go func() { res <- ch.WaitSession() }()
	go func() { res <- sh.WaitSession() }()
	status := "ok"
	for i := 0; i < 2; i++ {
		select {
		case err := <-res:
			if err != nil {
				status = "err"
			}
		case <-time.After(20 * time.Second):
			status = "stall"
		}
	}
	var crecv, srecv atomic.Int64
	var samples []string
	reader := func(h *ssh.VerifHandshake, n *atomic.Int64) {
		for {
			p, err := h.ReadPacket()
			if err != nil {
				return
			}
			if p[0] == 94 {
				n.Add(1)
			}
		}
	}
	count := func(l *tlog, ty int) int {
		l.mu.Lock()
		defer l.mu.Unlock()
		k := 0
		for _, t := range l.t {
			if t == ty {
				k++
			}
		}
		return k
	}
	sidStable, sidEqual := 1, 1
	var sid0 []byte
	if status == "ok" {
		// getSessionID: the first exchange hash, identical on both sides, never replaced by a re-key
		sid0 = append([]byte(nil), ch.SessionID()...)
		if len(sid0) == 0 || string(sid0) != string(sh.SessionID()) {
			sidEqual = 0
		}
		go reader(ch, &crecv)
		go reader(sh, &srecv)
		rk, app := o.Int("rk"), o.Int("app")
		sent := int64(0)
		length := func(l *tlog) int { l.mu.Lock(); defer l.mu.Unlock(); return len(l.t) }
		for k := 0; k < rk && status == "ok"; k++ {
			for j := 0; j < app; j++ {
				ch.WritePacket([]byte{94, 0, 0, 0, byte(j)})
				sh.WritePacket([]byte{94, 0, 0, 0, byte(j)})
			}
			sent += int64(app)
			t0 := time.Now()
			for crecv.Load() < sent || srecv.Load() < sent {
				if time.Since(t0) > 15*time.Second {
					status = "stall"
					break
				}
				time.Sleep(100 * time.Microsecond)
			}
			if k%2 == 0 {
				ch.RequestKeyExchange()
			} else {
				sh.RequestKeyExchange()
			}
			// wait until both sides have sent k+2 NEWKEYS and are idle again
			t0 = time.Now()
			for {
				a, _ := ch.KexState()
				b, _ := sh.KexState()
				if !a && !b && count(&sc, 21) >= k+2 && count(&ss, 21) >= k+2 {
					break
				}
				if time.Since(t0) > 15*time.Second {
					status = "stall"
					break
				}
				time.Sleep(100 * time.Microsecond)
			}
			if status == "ok" {
				// right after this re-key's NEWKEYS in both directions, before any further packet: sample all four counters
				cr, cwq, _, _ := ch.SeqNums()
				sr, swq, _, _ := sh.SeqNums()
				samples = append(samples, fmt.Sprintf("%d.%d.%d.%d.%d.%d", length(&sc), length(&ss), cr, cwq, sr, swq))
				if string(ch.SessionID()) != string(sid0) || string(sh.SessionID()) != string(sid0) {
					sidStable = 0
				}
			}
		}
		// trailing application packets after the last NEWKEYS
		tail := o.Int("tail")
		for j := 0; j < tail; j++ {
			ch.WritePacket([]byte{94, 0, 0, 1, byte(j)})
			sh.WritePacket([]byte{94, 0, 0, 1, byte(j)})
		}
		sent += int64(tail)
		t0 := time.Now()
		for crecv.Load() < sent || srecv.Load() < sent {
			if time.Since(t0) > 15*time.Second {
				status = "stall"
				break
			}
			time.Sleep(100 * time.Microsecond)
		}
		time.Sleep(2 * time.Millisecond)
	}
	ce, se := &endpoint{status: status}, &endpoint{status: status}
	ce.rs, ce.ws, ce.strict, ce.idone = ch.SeqNums()
	se.rs, se.ws, se.strict, se.idone = sh.SeqNums()
	// what one side sent is what the other received (no attacker)
	return "r" + ce.String("c") + se.String("s") + " dc=" + ss.String() + " ds=" + sc.String() + " sc=" + sc.String() + " ss=" + ss.String() + " samples=" + hx.JoinStrs(samples) + fmt.Sprintf(" sid=%d%d sidlen=%d", sidStable, sidEqual, len(sid0))
}

func execHS(o hx.Op) string {
	if o.Str("mode") == "rekey" {
		return execRekey(o)
	}
	kex := o.Str("m")
	a := &action{dir: o.Str("dir"), act: o.Str("act"), pos: o.Int("pos"), ty: o.Int("ty"), pos2: -1}
	if o.Has("pos2") {
		a.pos2, a.ty2 = o.Int("pos2"), o.Int("ty2")
	}
	r := hx.NewRand(o.U64("seed"))
	var act atomic.Int64
	act.Store(time.Now().UnixNano())
	var closed atomic.Bool
	var dc, ds, sc, ss tlog // delivered to client / server; sent by client / server (plaintext part)
	var cli, srv *endpoint
	var wg sync.WaitGroup
	var closers []io.Closer
	switch o.Str("mode") {
	case "mitm":
		c, mc := pipePair(&act)
		ms, s := pipePair(&act)
		closers = []io.Closer{c, mc, ms, s}
		var ac, as *action
		if a.dir == "c2s" {
			ac = a
		} else {
			as = a
		}
		wg.Add(2)
		go forward(mc, ms, ac, r.Fork(), kex, &ds, &sc, &wg)
		go forward(ms, mc, as, r.Fork(), kex, &dc, &ss, &wg)
		cli = startEndpoint(true, c, kex, &closed)
		srv = startEndpoint(false, s, kex, &closed)
	case "peers": // scripted server, real client
		c, p := pipePair(&act)
		closers = []io.Closer{c, p}
		wg.Add(1)
		go scriptedPeer(false, p, o, a, r.Fork(), &dc, &sc, &wg)
		cli = startEndpoint(true, c, kex, &closed)
	case "peerc": // scripted client, real server
		p, s := pipePair(&act)
		closers = []io.Closer{p, s}
		wg.Add(1)
		go scriptedPeer(true, p, o, a, r.Fork(), &ds, &ss, &wg)
		srv = startEndpoint(false, s, kex, &closed)
	default:
		return "bad-op"
	}
	idle := time.Duration(o.Int("idle")) * time.Millisecond
	isDone := func(e *endpoint) bool {
		if e == nil {
			return true
		}
		select {
		case <-e.done:
			return true
		default:
			return false
		}
	}
	deadline := time.Now().Add(60 * time.Second)
	for {
		if isDone(cli) && isDone(srv) {
			break
		}
		if time.Since(time.Unix(0, act.Load())) > idle || time.Now().After(deadline) {
			break
		}
		time.Sleep(5 * time.Millisecond)
	}
	// give a peer that is still draining a moment, then tear everything down
	if isDone(cli) && isDone(srv) {
		t0 := time.Now()
		for time.Since(time.Unix(0, act.Load())) < 30*time.Millisecond && time.Since(t0) < 500*time.Millisecond {
			time.Sleep(2 * time.Millisecond)
		}
	}
	closed.Store(true)
	for _, c := range closers {
		c.Close()
	}
	for _, e := range []*endpoint{cli, srv} {
		if e != nil {
			select {
			case <-e.done:
			case <-time.After(10 * time.Second):
			}
			go e.h.Close()
		}
	}
	wg.Wait()
	return "r" + cli.String("c") + srv.String("s") + " dc=" + dc.String() + " ds=" + ds.String() + " sc=" + sc.String() + " ss=" + ss.String()
}

func exec(line string) string {
	o := hx.Parse(line)
	if o.Cmd != "hs" {
		return "bad-op"
	}
	return execHS(o)
}

// ---------------------------------------------------------------- gen

var allKex = []string{"curve25519-sha256", "curve25519-sha256@libssh.org", "ecdh-sha2-nistp256", "ecdh-sha2-nistp384", "ecdh-sha2-nistp521",
	"diffie-hellman-group14-sha256", "diffie-hellman-group14-sha1", "diffie-hellman-group1-sha1", "diffie-hellman-group16-sha512",
	"diffie-hellman-group-exchange-sha256", "diffie-hellman-group-exchange-sha1", "mlkem768x25519-sha256"}

// number of plaintext packets an endpoint sends up to and including NEWKEYS
func nPackets(kex string) int {
	if strings.HasPrefix(kex, "diffie-hellman-group-exchange") {
		return 4
	}
	return 3
}

var injectKinds = []int{2, 4, 3, 1, 20, 21, 5, 7, 80, 192}

func gen(g *hx.Gen) {
	r := g.R
	kexes := []string{"curve25519-sha256"}
	if g.Thorough() {
		kexes = allKex
	}
	idle := 1500
	typesHit := map[int]bool{}
	emit := func(m, mode, strict, dir, act string, pos, ty int, extra string) {
		g.Emit("hs m=%s mode=%s strict=%s dir=%s act=%s pos=%d ty=%d idle=%d seed=%d%s", m, mode, strict, dir, act, pos, ty, idle, r.U64()>>1, extra)
		g.Stat("mode." + mode + ".strict" + strict)
		g.Stat("act." + act)
		// feature pairs: who is under test × strict × action × position × injected type
		role := map[string]string{"mitm": "both-real", "peers": "real-client", "peerc": "real-server"}[mode]
		if mode == "mitm" {
			role += "." + dir
		}
		g.Stat("pair." + role + "+strict" + strict)
		g.Stat("pair." + role + "+" + act)
		g.Stat(fmt.Sprintf("pair.strict%s+%s@%d", strict, act, pos))
		if act == "ins" {
			typesHit[ty] = true
			g.Stat(fmt.Sprintf("pair.strict%s+type%d", strict, ty))
			g.Stat(fmt.Sprintf("pair.%s+type%d", role, ty))
			g.Stat(fmt.Sprintf("pair.pos%d+type%d", pos, ty))
		}
	}
	defer func() {
		// arms of the receive path's type switch: NEWKEYS, DISCONNECT, IGNORE, DEBUG, KEXINIT, expected kex message, other
		arms := 0
		for _, t := range []int{21, 1, 2, 4, 20} {
			if typesHit[t] {
				arms++
			}
		}
		if typesHit[3] || typesHit[192] {
			arms++ // "other"
		}
		arms++ // the expected kex messages occur in every run
		g.Stat(fmt.Sprintf("table.recv-type-switch=%d/7", arms))
	}()
	for _, m := range kexes {
		n := nPackets(m)
		// real client + real server + man in the middle (strict mode is always negotiated)
		emit(m, "mitm", "1", "c2s", "none", 0, 0, "")
		for _, dir := range []string{"c2s", "s2c"} {
			for pos := 0; pos < n; pos++ {
				for _, ty := range injectKinds {
					emit(m, "mitm", "1", dir, "ins", pos, ty, "")
				}
				emit(m, "mitm", "1", dir, "del", pos, 0, "")
				if pos+1 < n {
					emit(m, "mitm", "1", dir, "swap", pos, 0, "")
				}
			}
		}
		// scripted peer, with and without the strict marker
		for _, mode := range []string{"peers", "peerc"} {
			for _, strict := range []string{"0", "1"} {
				exts := []string{""}
				if mode == "peerc" {
					exts = []string{" extinfo=1", " extinfo=0"}
				}
				for i, ext := range exts {
					emit(m, mode, strict, "-", "none", 0, 0, ext)
					for pos := 0; pos < n; pos++ {
						for _, ty := range injectKinds {
							if i > 0 && ty != 2 && ty != 4 {
								continue
							}
							emit(m, mode, strict, "-", "ins", pos, ty, ext)
						}
						if i == 0 {
							emit(m, mode, strict, "-", "del", pos, 0, ext)
						}
					}
					// several IGNORE / DEBUG packets at two positions
					for k := 0; k < 3; k++ {
						p1, p2 := r.Intn(n), r.Intn(n)
						emit(m, mode, strict, "-", "ins", p1, r.PickInt(2, 4), ext+" pos2="+strconv.Itoa(p2)+" ty2="+strconv.Itoa(r.PickInt(2, 4)))
					}
				}
			}
		}
	}
	// position of the pseudo-algorithm markers in the peer's kex_algorithms list
	for _, m := range kexes[:1] {
		for _, mode := range []string{"peers", "peerc"} {
			mk, wrong := "kex-strict-s-v00@openssh.com", "kex-strict-c-v00@openssh.com"
			ei := "ext-info-s"
			if mode == "peerc" {
				mk, wrong, ei = wrong, mk, "ext-info-c"
			}
			f := func(i int) string { return fmt.Sprintf("filler-%d@verif", i) }
			lists := [][]string{
				{m}, {mk}, {mk, m}, {m, mk}, {m, wrong}, {m, ei}, {ei, m},
				{mk, m, f(1)}, {m, mk, f(1)}, {m, f(1), mk}, {mk, mk, m}, {m, mk, mk}, {mk, m, ei}, {m, ei, mk}, {ei, mk, m}, {mk, ei, m},
				{mk, f(1), f(2), f(3), m, f(4), f(5)}, {m, f(1), f(2), mk, f(3), ei, f(4)}, {m, f(1), f(2), f(3), f(4), f(5), mk},
				{f(1), mk, f(2), m, f(3), mk, f(4)}, {ei, f(1), m, f(2), f(3), f(4), f(5)}, {m, f(1), f(2), f(3), f(4), mk, ei},
				{m, f(1), f(2), f(3), f(4), ei, mk}, {mk, ei, f(1), f(2), f(3), f(4), m}, {m, f(1), f(2), f(3), f(4), f(5), f(6)},
			}
			for _, kl := range lists {
				pos := "absent"
				for i, n := range kl {
					if n == mk {
						switch {
						case i == 0:
							pos = "first"
						case i == len(kl)-1:
							pos = "last"
						default:
							pos = "middle"
						}
						break
					}
				}
				for _, act := range []string{"none", "ins"} {
					emit(m, mode, "-", "-", act, 1, 2, " kl="+strings.Join(kl, ","))
					g.Stat(fmt.Sprintf("pair.marker-%s+len%d", pos, len(kl)))
					g.Stat("pair.marker-" + pos + "+" + mode)
				}
			}
		}
	}
	// no attacker: sequence numbers after further key exchanges (strict mode stays on, every NEWKEYS resets)
	for _, m := range kexes {
		for _, rk := range []int{1, 2, 3} {
			for _, app := range []int{0, 1, 5} {
				g.Emit("hs m=%s mode=rekey strict=1 dir=- act=none pos=0 ty=0 idle=%d seed=%d rk=%d app=%d tail=%d", m, idle, r.U64()>>1, rk, app, r.Intn(4))
				g.Stat("mode.rekey")
			}
		}
	}
	if g.Thorough() { // double faults through the man in the middle
		for i := 0; i < 300; i++ {
			m := hx.Pick(r, allKex)
			n := nPackets(m)
			emit(m, "mitm", "1", r.PickStr("c2s", "s2c"), r.PickStr("ins", "del", "swap"), r.Intn(n), hx.Pick(r, injectKinds),
				" pos2="+strconv.Itoa(r.Intn(n))+" ty2="+strconv.Itoa(hx.Pick(r, injectKinds)))
		}
	}
}

func main() { hx.Main(hx.Harness{Gen: gen, Exec: exec, OpTimeout: 120 * time.Second}) }
