package sauth

import (
	"encoding/binary"
	"errors"
	"fmt"
	"io"
	"net"
	"strings"

	"golang.org/x/crypto/ssh"
	"verifharness/hx"
)

type item struct {
	req int // index into reqs
	top bool
	fol string
}

type run struct {
	reqs   []Req
	stream []item
	pos    int
	gssIdx int
	idx    int // 1-based index of the current (last read) top-level request
	evs   []string
	perms map[int]*ssh.Permissions
	ids   map[*ssh.Permissions]int
}

// uhex: the user name a callback sees, hex-encoded as on the op line
func uhex(conn ssh.ConnMetadata) string {
	if string(conn.SessionID()) != string(SessionID) {
		return "?sid"
	}
	return hx.Hex([]byte(conn.User()))
}

func (x *run) ev(format string, a ...any) { x.evs = append(x.evs, fmt.Sprintf(format, a...)) }

func (x *run) permID(p *ssh.Permissions) string {
	if p == nil {
		return "0"
	}
	if id, ok := x.ids[p]; ok {
		return itoa(id)
	}
	return "?"
}

func (x *run) cur() Req {
	if x.idx >= 1 && x.idx <= len(x.reqs) {
		return x.reqs[x.idx-1]
	}
	return Req{}
}

// callbacks builds the ServerAuthCallbacks for a `pw pk kbd` bit string; gen tags the invocations.
func (x *run) callbacks(bits string, gen int) ssh.ServerAuthCallbacks {
	var c ssh.ServerAuthCallbacks
	if len(bits) != 3 && len(bits) != 4 {
		panic("bad cbs " + bits)
	}
	if bits[0] == '1' {
		c.PasswordCallback = func(conn ssh.ConnMetadata, pw []byte) (*ssh.Permissions, error) {
			x.ev("cb.pw(%d,%s,%s)", gen, uhex(conn), pw)
			return x.outcome(x.cur().Cb)
		}
	}
	if bits[1] == '1' {
		c.PublicKeyCallback = func(conn ssh.ConnMetadata, key ssh.PublicKey) (*ssh.Permissions, error) {
			x.ev("cb.pk(%d,%s,%s)", gen, uhex(conn), KeyIDOf(key.Marshal()))
			return x.outcome(x.cur().Cb)
		}
	}
	if bits[2] == '1' {
		c.KeyboardInteractiveCallback = func(conn ssh.ConnMetadata, ch ssh.KeyboardInteractiveChallenge) (*ssh.Permissions, error) {
			x.ev("cb.kbd(%d,%s)", gen, uhex(conn))
			for _, q := range x.cur().KbdRounds {
				if q == 99 { // questions and echos of different length: Challenge fails before any I/O
					if _, err := ch("name", "instruction", []string{"q?"}, nil); err != nil {
						return nil, err
					}
					continue
				}
				qs := make([]string, q)
				for i := range qs {
					qs[i] = "q?"
				}
				if _, err := ch("name", "instruction", qs, make([]bool, q)); err != nil {
					return nil, err
				}
			}
			return x.outcome(x.cur().Cb)
		}
	}
	if len(bits) == 4 && bits[3] == '1' {
		c.GSSAPIWithMICConfig = &ssh.GSSAPIWithMICConfig{
			Server: &gssServer{x},
			AllowLogin: func(conn ssh.ConnMetadata, srcName string) (*ssh.Permissions, error) {
				if srcName != gssSrcName {
					x.ev("?src")
				}
				x.ev("cb.gss(%d,%s)", gen, uhex(conn))
				return x.outcome(x.cur().Cb)
			},
		}
	}
	return c
}

const gssSrcName = "user@VERIF.REALM"

// gssServer is the scripted GSSAPIServer: AcceptSecContext replays the request's steps, VerifyMIC
// accepts the token GoodMIC over exactly the RFC 4462 §3.5 MIC field (built by the harness).
type gssServer struct{ x *run }

func (g *gssServer) AcceptSecContext(token []byte) ([]byte, string, bool, error) {
	x := g.x
	x.ev("gss.accept")
	steps := x.cur().GssSteps
	if x.gssIdx >= len(steps) {
		return nil, "", false, errors.New("gss: script exhausted")
	}
	s := steps[x.gssIdx]
	x.gssIdx++
	if s[0] == '1' {
		return nil, "", false, errors.New("gss: scripted failure")
	}
	var out []byte
	if s[1] == '1' {
		out = []byte("server-token")
	}
	return out, gssSrcName, s[2] == '1', nil
}

func (g *gssServer) VerifyMIC(micField, micToken []byte) error {
	g.x.ev("gss.mic")
	r := g.x.cur()
	if string(micToken) == GoodMIC && string(micField) == string(MICField(SessionID, r.User, r.Service)) {
		return nil
	}
	return errors.New("gss: MIC mismatch")
}

func (g *gssServer) DeleteSecContext() error { g.x.ev("gss.del"); return nil }

func (x *run) outcome(o string) (*ssh.Permissions, error) {
	switch {
	case o == "R" || o == "":
		return nil, errors.New("rejected")
	case o == "B0":
		return nil, &ssh.BannerError{Err: errors.New("rejected"), Message: ""}
	case o == "B1":
		return nil, &ssh.BannerError{Err: errors.New("rejected"), Message: "banner from callback"}
	case o == "B2": // no inner error
		return nil, &ssh.BannerError{Message: "banner from callback"}
	case o == "BP": // wrapping a PartialSuccessError: still a plain failure (the type assertion does not unwrap)
		return nil, &ssh.BannerError{Err: &ssh.PartialSuccessError{Next: x.callbacks("111", x.idx)}, Message: "banner from callback"}
	case o == "BW": // itself wrapped: errors.As finds it
		return nil, fmt.Errorf("wrapped: %w", &ssh.BannerError{Err: errors.New("rejected"), Message: "banner from callback"})
	case o[0] == 'A':
		var id int
		fmt.Sscan(o[1:], &id)
		return x.perms[id], nil
	case o[0] == 'P':
		bits, ps, _ := strings.Cut(o[1:], ".")
		var id int
		fmt.Sscan(ps, &id)
		return x.perms[id], &ssh.PartialSuccessError{Next: x.callbacks(bits, x.idx)}
	}
	panic("bad outcome " + o)
}

func rdStr(b []byte) ([]byte, []byte, bool) {
	if len(b) < 4 {
		return nil, nil, false
	}
	n := binary.BigEndian.Uint32(b)
	if uint32(len(b)-4) < n {
		return nil, nil, false
	}
	return b[4 : 4+n], b[4+n:], true
}

// onWrite turns a packet written by the server into its property-level event.
func (x *run) onWrite(p []byte) error {
	if len(p) == 0 {
		x.ev("?empty")
		return nil
	}
	switch p[0] {
	case 51:
		ms, rest, ok := rdStr(p[1:])
		if !ok || len(rest) != 1 {
			x.ev("?F")
			return nil
		}
		m := string(ms)
		if m == "" {
			m = "-"
		}
		x.ev("F:%s:%d", m, rest[0])
	case 61:
		x.ev("GT")
	case 60:
		switch x.cur().Method {
		case "keyboard-interactive":
			_, r1, ok1 := rdStr(p[1:])
			_, r2, ok2 := rdStr(r1)
			_, r3, ok3 := rdStr(r2)
			if !ok1 || !ok2 || !ok3 || len(r3) < 4 {
				x.ev("?IQ")
				return nil
			}
			x.ev("IQ:%d", binary.BigEndian.Uint32(r3))
			return nil
		case "gssapi-with-mic":
			x.ev("GR")
			return nil
		}
		algo, rest, ok := rdStr(p[1:])
		blob, rest2, ok2 := rdStr(rest)
		if !ok || !ok2 || len(rest2) != 0 {
			x.ev("?K")
			return nil
		}
		x.ev("K:%s:%s", algo, KeyIDOf(blob))
	case 53:
		x.ev("B")
	case 52:
		x.ev("S")
	case 1:
		x.ev("D")
	default:
		x.ev("?%d", p[0])
	}
	return nil
}

func (x *run) read() ([]byte, error) {
	if x.pos >= len(x.stream) {
		return nil, io.EOF
	}
	it := x.stream[x.pos]
	x.pos++
	if !it.top {
		return x.reqs[it.req].FollowPacket(it.fol), nil
	}
	x.idx = it.req + 1
	x.gssIdx = 0
	r := x.reqs[x.idx-1]
	switch r.T {
	case "eof":
		return nil, io.EOF
	case "io":
		return nil, errors.New("scripted i/o error")
	case "bad":
		if r.BadKind == "type" {
			return SStr(SStr(SStr([]byte{5}, "a"), "ssh-connection"), "none"), nil
		}
		return []byte{50, 0, 0, 0, 9, 'a'}, nil
	}
	return r.Packet(), nil
}

// Exec runs one `sauth` op line on the real server auth loop.
func Exec(line string) string {
	Init()
	o := hx.Parse(line)
	if o.Cmd == "sdata" { // the bytes covered by a publickey signature (buildDataSignedForAuth)
		return hx.Hex(ssh.VerifBuildDataSignedForAuth(o.Hex("sid"), string(o.Hex("user")), string(o.Hex("svc")),
			string(o.Hex("meth")), string(o.Hex("algo")), o.Hex("key")))
	}
	if o.Cmd != "sauth" {
		return "bad-op"
	}
	x := &run{perms: map[int]*ssh.Permissions{}, ids: map[*ssh.Permissions]int{}}
	if s := o.Str("reqs"); s != "-" && s != "" {
		for _, f := range strings.Split(s, ";") {
			x.reqs = append(x.reqs, ParseReq(f))
		}
	}
	for i, q := range x.reqs {
		x.stream = append(x.stream, item{req: i, top: true})
		for _, f := range q.Follow {
			x.stream = append(x.stream, item{req: i, fol: f})
		}
	}
	// permissions table
	saVal := map[string]string{}
	if s := o.Str("psa"); s != "-" {
		for _, row := range strings.Split(s, "|") {
			id, v, _ := strings.Cut(row, "~")
			saVal[id] = v
		}
	}
	if s := o.Str("perms"); s != "-" {
		for _, row := range strings.Split(s, "|") {
			f := strings.Split(row, "~")
			var id int
			fmt.Sscan(f[0], &id)
			p := &ssh.Permissions{}
			if f[1] != "-" {
				v := saVal[f[0]]
				if v == "E" {
					v = ""
				}
				v = strings.ReplaceAll(strings.ReplaceAll(v, "+", ","), "_", " ")
				p.CriticalOptions = map[string]string{"source-address": v}
			}
			if f[2] == "1" {
				p.Extensions = map[string]string{"no-touch-required": ""}
			}
			x.perms[id] = p
			x.ids[p] = id
		}
	}
	cfg := &ssh.ServerConfig{MaxAuthTries: o.Int("mt"), NoClientAuth: o.Str("nca") == "1"}
	if o.Str("ncacb") == "1" {
		cfg.NoClientAuthCallback = func(conn ssh.ConnMetadata) (*ssh.Permissions, error) {
			x.ev("cb.none(%s)", uhex(conn))
			return x.outcome(x.cur().Cb)
		}
	}
	cbs := x.callbacks(o.Str("cbs"), 0)
	cfg.PasswordCallback, cfg.PublicKeyCallback, cfg.KeyboardInteractiveCallback = cbs.PasswordCallback, cbs.PublicKeyCallback, cbs.KeyboardInteractiveCallback
	cfg.GSSAPIWithMICConfig = cbs.GSSAPIWithMICConfig
	if o.Str("vpk") == "1" {
		cfg.VerifiedPublicKeyCallback = func(conn ssh.ConnMetadata, key ssh.PublicKey, perms *ssh.Permissions, sigAlgo string) (*ssh.Permissions, error) {
			x.ev("cb.vpk(%s,%s,%s,%s)", uhex(conn), KeyIDOf(key.Marshal()), x.permID(perms), sigAlgo)
			return x.outcome(x.cur().Vcb)
		}
	}
	switch o.Str("ban") {
	case "e":
		cfg.BannerCallback = func(conn ssh.ConnMetadata) string { x.ev("cb.ban(%s)", uhex(conn)); return "" }
	case "m":
		cfg.BannerCallback = func(conn ssh.ConnMetadata) string { x.ev("cb.ban(%s)", uhex(conn)); return "hello" }
	}
	switch o.Str("pre") {
	case "c":
		cfg.PreAuthConnCallback = func(c ssh.ServerPreAuthConn) { x.ev("cb.pre") }
	case "b":
		cfg.PreAuthConnCallback = func(c ssh.ServerPreAuthConn) {
			x.ev("cb.pre")
			if err := c.SendAuthBanner("pre-auth banner"); err != nil {
				x.ev("?prebanner")
			}
		}
	}
	cfg.PublicKeyAuthAlgorithms = o.List("algs")
	cfg.AuthLogCallback = func(conn ssh.ConnMetadata, method string, err error) {
		res := "fail"
		if err == nil {
			res = "ok"
		} else if _, isPartial := err.(*ssh.PartialSuccessError); isPartial {
			res = "partial"
		}
		x.ev("log(%s,%s)", method, res)
	}
	var remote net.Addr
	switch a := o.Str("addr"); {
	case a == "nil":
	case a == "unix":
		remote = &net.UnixAddr{Name: "/tmp/verif.sock", Net: "unix"}
	case strings.HasPrefix(a, "tcp~"):
		remote = &net.TCPAddr{IP: net.ParseIP(a[4:]), Port: 40022}
	default:
		return "bad-op"
	}
	perms, err := ssh.VerifServerAuthenticate(cfg, SessionID, remote, x.read, x.onWrite)
	res := ""
	var sae *ssh.ServerAuthError
	switch {
	case err == nil:
		res = "ok:" + x.permID(perms)
	case errors.As(err, &sae):
		k := 0
		for _, e := range sae.Errors {
			if e == ssh.ErrNoAuth {
				k++
			}
		}
		res = fmt.Sprintf("autherr:%d:%d", len(sae.Errors), k)
	default:
		res = "err"
	}
	evs := "-"
	if len(x.evs) > 0 {
		evs = strings.Join(x.evs, " ")
	}
	return "res=" + res + " ev=" + evs
}
