package sauth

import (
	"encoding/binary"
	"errors"
	"fmt"
	"io"
	"net"
	"strings"

	"golang.org/x/crypto/ssh"
	"verifharness/hx"
)

type run struct {
	reqs  []Req
	idx   int // number of reads so far = 1-based index of the current request
	evs   []string
	perms map[int]*ssh.Permissions
	ids   map[*ssh.Permissions]int
}

func (x *run) ev(format string, a ...any) { x.evs = append(x.evs, fmt.Sprintf(format, a...)) }

func (x *run) permID(p *ssh.Permissions) string {
	if p == nil {
		return "0"
	}
	if id, ok := x.ids[p]; ok {
		return itoa(id)
	}
	return "?"
}

func (x *run) cur() Req {
	if x.idx >= 1 && x.idx <= len(x.reqs) {
		return x.reqs[x.idx-1]
	}
	return Req{}
}

// callbacks builds the ServerAuthCallbacks for a `pw pk kbd` bit string; gen tags the invocations.
func (x *run) callbacks(bits string, gen int) ssh.ServerAuthCallbacks {
	var c ssh.ServerAuthCallbacks
	if len(bits) != 3 {
		panic("bad cbs " + bits)
	}
	if bits[0] == '1' {
		c.PasswordCallback = func(conn ssh.ConnMetadata, pw []byte) (*ssh.Permissions, error) {
			x.ev("cb.pw(%d,%s,%s)", gen, conn.User(), pw)
			return x.outcome(x.cur().Cb)
		}
	}
	if bits[1] == '1' {
		c.PublicKeyCallback = func(conn ssh.ConnMetadata, key ssh.PublicKey) (*ssh.Permissions, error) {
			x.ev("cb.pk(%d,%s,%s)", gen, conn.User(), KeyIDOf(key.Marshal()))
			return x.outcome(x.cur().Cb)
		}
	}
	if bits[2] == '1' {
		c.KeyboardInteractiveCallback = func(conn ssh.ConnMetadata, ch ssh.KeyboardInteractiveChallenge) (*ssh.Permissions, error) {
			x.ev("cb.kbd(%d,%s)", gen, conn.User())
			return x.outcome(x.cur().Cb)
		}
	}
	return c
}

func (x *run) outcome(o string) (*ssh.Permissions, error) {
	switch {
	case o == "R" || o == "":
		return nil, errors.New("rejected")
	case o == "B0":
		return nil, &ssh.BannerError{Err: errors.New("rejected"), Message: ""}
	case o == "B1":
		return nil, &ssh.BannerError{Err: errors.New("rejected"), Message: "banner from callback"}
	case o[0] == 'A':
		var id int
		fmt.Sscan(o[1:], &id)
		return x.perms[id], nil
	case o[0] == 'P':
		bits, ps, _ := strings.Cut(o[1:], ".")
		var id int
		fmt.Sscan(ps, &id)
		return x.perms[id], &ssh.PartialSuccessError{Next: x.callbacks(bits, x.idx)}
	}
	panic("bad outcome " + o)
}

func rdStr(b []byte) ([]byte, []byte, bool) {
	if len(b) < 4 {
		return nil, nil, false
	}
	n := binary.BigEndian.Uint32(b)
	if uint32(len(b)-4) < n {
		return nil, nil, false
	}
	return b[4 : 4+n], b[4+n:], true
}

// onWrite turns a packet written by the server into its property-level event.
func (x *run) onWrite(p []byte) error {
	if len(p) == 0 {
		x.ev("?empty")
		return nil
	}
	switch p[0] {
	case 51:
		ms, rest, ok := rdStr(p[1:])
		if !ok || len(rest) != 1 {
			x.ev("?F")
			return nil
		}
		m := string(ms)
		if m == "" {
			m = "-"
		}
		x.ev("F:%s:%d", m, rest[0])
	case 60:
		algo, rest, ok := rdStr(p[1:])
		blob, rest2, ok2 := rdStr(rest)
		if !ok || !ok2 || len(rest2) != 0 {
			x.ev("?K")
			return nil
		}
		x.ev("K:%s:%s", algo, KeyIDOf(blob))
	case 53:
		x.ev("B")
	case 52:
		x.ev("S")
	case 1:
		x.ev("D")
	default:
		x.ev("?%d", p[0])
	}
	return nil
}

func (x *run) read() ([]byte, error) {
	x.idx++
	if x.idx > len(x.reqs) {
		return nil, io.EOF
	}
	r := x.reqs[x.idx-1]
	switch r.T {
	case "eof":
		return nil, io.EOF
	case "io":
		return nil, errors.New("scripted i/o error")
	case "bad":
		if r.BadKind == "type" {
			return SStr(SStr(SStr([]byte{5}, "a"), "ssh-connection"), "none"), nil
		}
		return []byte{50, 0, 0, 0, 9, 'a'}, nil
	}
	return r.Packet(), nil
}

// Exec runs one `sauth` op line on the real server auth loop.
func Exec(line string) string {
	Init()
	o := hx.Parse(line)
	if o.Cmd != "sauth" {
		return "bad-op"
	}
	x := &run{perms: map[int]*ssh.Permissions{}, ids: map[*ssh.Permissions]int{}}
	if s := o.Str("reqs"); s != "-" && s != "" {
		for _, f := range strings.Split(s, ";") {
			x.reqs = append(x.reqs, ParseReq(f))
		}
	}
	// permissions table
	saVal := map[string]string{}
	if s := o.Str("psa"); s != "-" {
		for _, row := range strings.Split(s, "|") {
			id, v, _ := strings.Cut(row, "~")
			saVal[id] = v
		}
	}
	if s := o.Str("perms"); s != "-" {
		for _, row := range strings.Split(s, "|") {
			f := strings.Split(row, "~")
			var id int
			fmt.Sscan(f[0], &id)
			p := &ssh.Permissions{}
			if f[1] != "-" {
				v := saVal[f[0]]
				if v == "E" {
					v = ""
				}
				v = strings.ReplaceAll(strings.ReplaceAll(v, "+", ","), "_", " ")
				p.CriticalOptions = map[string]string{"source-address": v}
			}
			if f[2] == "1" {
				p.Extensions = map[string]string{"no-touch-required": ""}
			}
			x.perms[id] = p
			x.ids[p] = id
		}
	}
	cfg := &ssh.ServerConfig{MaxAuthTries: o.Int("mt"), NoClientAuth: o.Str("nca") == "1"}
	if o.Str("ncacb") == "1" {
		cfg.NoClientAuthCallback = func(conn ssh.ConnMetadata) (*ssh.Permissions, error) {
			x.ev("cb.none(%s)", conn.User())
			return x.outcome(x.cur().Cb)
		}
	}
	cbs := x.callbacks(o.Str("cbs"), 0)
	cfg.PasswordCallback, cfg.PublicKeyCallback, cfg.KeyboardInteractiveCallback = cbs.PasswordCallback, cbs.PublicKeyCallback, cbs.KeyboardInteractiveCallback
	if o.Str("vpk") == "1" {
		cfg.VerifiedPublicKeyCallback = func(conn ssh.ConnMetadata, key ssh.PublicKey, perms *ssh.Permissions, sigAlgo string) (*ssh.Permissions, error) {
			x.ev("cb.vpk(%s,%s,%s,%s)", conn.User(), KeyIDOf(key.Marshal()), x.permID(perms), sigAlgo)
			return x.outcome(x.cur().Vcb)
		}
	}
	switch o.Str("ban") {
	case "e":
		cfg.BannerCallback = func(conn ssh.ConnMetadata) string { x.ev("cb.ban(%s)", conn.User()); return "" }
	case "m":
		cfg.BannerCallback = func(conn ssh.ConnMetadata) string { x.ev("cb.ban(%s)", conn.User()); return "hello" }
	}
	cfg.PublicKeyAuthAlgorithms = o.List("algs")
	cfg.AuthLogCallback = func(conn ssh.ConnMetadata, method string, err error) {
		res := "fail"
		if err == nil {
			res = "ok"
		} else if _, isPartial := err.(*ssh.PartialSuccessError); isPartial {
			res = "partial"
		}
		x.ev("log(%s,%s)", method, res)
	}
	var remote net.Addr
	switch a := o.Str("addr"); {
	case a == "nil":
	case a == "unix":
		remote = &net.UnixAddr{Name: "/tmp/verif.sock", Net: "unix"}
	case strings.HasPrefix(a, "tcp~"):
		remote = &net.TCPAddr{IP: net.ParseIP(a[4:]), Port: 40022}
	default:
		return "bad-op"
	}
	perms, err := ssh.VerifServerAuthenticate(cfg, SessionID, remote, x.read, x.onWrite)
	res := ""
	var sae *ssh.ServerAuthError
	switch {
	case err == nil:
		res = "ok:" + x.permID(perms)
	case errors.As(err, &sae):
		res = "autherr"
	default:
		res = "err"
	}
	evs := "-"
	if len(x.evs) > 0 {
		evs = strings.Join(x.evs, " ")
	}
	return "res=" + res + " ev=" + evs
}
