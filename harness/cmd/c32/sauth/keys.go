// Package sauth is the shared part of the C32 / C33 harnesses: fixed client keys, an SSH wire
// encoder written here (not the repo's Marshal), request-packet construction from the abstract
// request description on the op line, the stdlib-only signature oracle, and Exec, which runs the
// real serverAuthenticate (hook ssh.VerifServerAuthenticate) over the scripted packets.
package sauth

import (
	"crypto"
	"crypto/ecdsa"
	"crypto/ed25519"
	"crypto/rsa"
	"crypto/sha1"
	"crypto/sha256"
	"crypto/sha512"
	"crypto/x509"
	"encoding/binary"
	"encoding/pem"
	"math/big"
	"sync"

	"golang.org/x/crypto/ssh"
	"golang.org/x/crypto/ssh/testdata"
	"verifharness/hx"
)

// ---- wire encoding (RFC 4251 §5), written here so that it is independent of ssh.Marshal

func U32(b []byte, v uint32) []byte { return binary.BigEndian.AppendUint32(b, v) }
func Str(b []byte, s []byte) []byte { return append(U32(b, uint32(len(s))), s...) }
func SStr(b []byte, s string) []byte { return Str(b, []byte(s)) }
func Mpint(b []byte, n *big.Int) []byte {
	x := n.Bytes()
	if len(x) > 0 && x[0]&0x80 != 0 {
		x = append([]byte{0}, x...)
	}
	return Str(b, x)
}

// ---- keys

type Key struct {
	ID     int
	Blob   []byte
	Parses bool   // by construction
	Type   string // by construction: what PublicKey.Type() must report
	CertNT bool   // certificate carrying the no-touch-required extension
	SK     bool   // security-key (FIDO) ed25519 key: signatures carry flags + counter
	App    string // SK application string
	// the key that signs for it (private half; for certificates the certified key)
	ed  ed25519.PrivateKey
	ec  *ecdsa.PrivateKey
	rs  *rsa.PrivateKey
	pub crypto.PublicKey
}

var (
	Keys     map[int]*Key
	keysOnce sync.Once
)

func edKey(seedByte byte) ed25519.PrivateKey {
	seed := make([]byte, 32)
	for i := range seed {
		seed[i] = seedByte + byte(i)*7
	}
	return ed25519.NewKeyFromSeed(seed)
}

func mustPEM(name string) []byte {
	blk, _ := pem.Decode(testdata.PEMBytes[name])
	if blk == nil {
		panic("no pem " + name)
	}
	return blk.Bytes
}

type fixedRand struct{}

func (fixedRand) Read(p []byte) (int, error) {
	for i := range p {
		p[i] = byte(i*31 + 7)
	}
	return len(p), nil
}

func mkCert(pub ssh.PublicKey, ca ssh.Signer, ext map[string]string) []byte {
	c := &ssh.Certificate{
		Key: pub, Serial: 1, CertType: ssh.UserCert, KeyId: "k", ValidPrincipals: []string{"a"},
		ValidAfter: 0, ValidBefore: ssh.CertTimeInfinity,
		Permissions: ssh.Permissions{Extensions: ext},
	}
	if err := c.SignCert(fixedRand{}, ca); err != nil {
		panic(err)
	}
	return c.Marshal()
}

// Init builds the fixed key table:
//
//	1,2 ed25519 · 3 ecdsa-p256 · 4 rsa-2048 · 5 ed25519 certificate (key 1, CA 2) · 6 rsa certificate (key 4, CA 2)
//	7 unknown key type (does not parse) · 8 ed25519 blob with a 31-byte key (does not parse)
//	9 sk-ssh-ed25519 · 10 certificate of key 9 with the no-touch-required extension · 11 certificate of key 9 without it
func Init() {
	keysOnce.Do(func() {
		Keys = map[int]*Key{}
		e1, e2 := edKey(1), edKey(2)
		edBlob := func(k ed25519.PrivateKey) []byte {
			return Str(SStr(nil, "ssh-ed25519"), k.Public().(ed25519.PublicKey))
		}
		Keys[1] = &Key{ID: 1, Blob: edBlob(e1), Parses: true, Type: "ssh-ed25519", ed: e1, pub: e1.Public()}
		Keys[2] = &Key{ID: 2, Blob: edBlob(e2), Parses: true, Type: "ssh-ed25519", ed: e2, pub: e2.Public()}
		ec, err := x509.ParseECPrivateKey(mustPEM("ecdsap256"))
		if err != nil {
			panic(err)
		}
		pt, err := ec.PublicKey.Bytes()
		if err != nil {
			panic(err)
		}
		Keys[3] = &Key{ID: 3, Blob: Str(SStr(SStr(nil, "ecdsa-sha2-nistp256"), "nistp256"), pt), Parses: true,
			Type: "ecdsa-sha2-nistp256", ec: ec, pub: &ec.PublicKey}
		rs, err := x509.ParsePKCS1PrivateKey(mustPEM("rsa"))
		if err != nil {
			panic(err)
		}
		Keys[4] = &Key{ID: 4, Blob: Mpint(Mpint(SStr(nil, "ssh-rsa"), big.NewInt(int64(rs.E))), rs.N), Parses: true,
			Type: "ssh-rsa", rs: rs, pub: &rs.PublicKey}
		ca, err := ssh.NewSignerFromKey(e2)
		if err != nil {
			panic(err)
		}
		p1, err := ssh.NewPublicKey(e1.Public())
		if err != nil {
			panic(err)
		}
		p4, err := ssh.NewPublicKey(&rs.PublicKey)
		if err != nil {
			panic(err)
		}
		Keys[5] = &Key{ID: 5, Blob: mkCert(p1, ca, nil), Parses: true, Type: "ssh-ed25519-cert-v01@openssh.com", ed: e1, pub: e1.Public()}
		Keys[6] = &Key{ID: 6, Blob: mkCert(p4, ca, nil), Parses: true, Type: "ssh-rsa-cert-v01@openssh.com", rs: rs, pub: &rs.PublicKey}
		Keys[7] = &Key{ID: 7, Blob: Str(SStr(nil, "foo"), []byte{1, 2, 3})}
		Keys[8] = &Key{ID: 8, Blob: Str(SStr(nil, "ssh-ed25519"), make([]byte, 31))}
		e3 := edKey(3)
		skBlob := SStr(Str(SStr(nil, SKEd25519), e3.Public().(ed25519.PublicKey)), "ssh:")
		Keys[9] = &Key{ID: 9, Blob: skBlob, Parses: true, Type: SKEd25519, SK: true, App: "ssh:", ed: e3, pub: e3.Public()}
		p9, err := ssh.ParsePublicKey(skBlob)
		if err != nil {
			panic(err)
		}
		Keys[10] = &Key{ID: 10, Blob: mkCert(p9, ca, map[string]string{"no-touch-required": ""}), Parses: true, Type: SKEd25519Cert,
			CertNT: true, SK: true, App: "ssh:", ed: e3, pub: e3.Public()}
		Keys[11] = &Key{ID: 11, Blob: mkCert(p9, ca, nil), Parses: true, Type: SKEd25519Cert, SK: true, App: "ssh:", ed: e3, pub: e3.Public()}
	})
}

// KeyIDOf names a blob seen on the wire.
func KeyIDOf(blob []byte) string {
	for id, k := range Keys {
		if string(k.Blob) == string(blob) {
			return itoa(id)
		}
	}
	return "?"
}

func itoa(i int) string { return hx.JoinInts([]int{i}) }

const (
	SKEd25519     = "sk-ssh-ed25519@openssh.com"
	SKEd25519Cert = "sk-ssh-ed25519-cert-v01@openssh.com"
)

// skSigned is what a security key signs: SHA256(application) || flags || counter || SHA256(data).
func skSigned(app string, flags byte, counter uint32, data []byte) []byte {
	a := sha256.Sum256([]byte(app))
	d := sha256.Sum256(data)
	b := append(a[:], flags)
	b = U32(b, counter)
	return append(b, d[:]...)
}

// SKSign: the ed25519 signature a security key with these flags / counter produces.
func SKSign(k *Key, flags byte, counter uint32, data []byte) []byte {
	return ed25519.Sign(k.ed, skSigned(k.App, flags, counter, data))
}

// OracleVerifySK states validity of an sk-ssh-ed25519 signature with the stdlib: cryptographically
// valid (noUP), and additionally asserting user presence (withUP).
func OracleVerifySK(k *Key, format string, blob []byte, flags byte, counter uint32, data []byte) (withUP, noUP bool) {
	if !k.SK || format != SKEd25519 || len(blob) != ed25519.SignatureSize {
		return false, false
	}
	noUP = ed25519.Verify(k.pub.(ed25519.PublicKey), skSigned(k.App, flags, counter, data), blob)
	return noUP && flags&1 != 0, noUP
}

// ---- signing

var sigCache sync.Map // key: id|format|data  →  blob

func rsaHash(format string) (crypto.Hash, bool) {
	switch format {
	case "ssh-rsa":
		return crypto.SHA1, true
	case "rsa-sha2-256":
		return crypto.SHA256, true
	case "rsa-sha2-512":
		return crypto.SHA512, true
	}
	return 0, false
}

func digest(h crypto.Hash, data []byte) []byte {
	switch h {
	case crypto.SHA1:
		d := sha1.Sum(data)
		return d[:]
	case crypto.SHA256:
		d := sha256.Sum256(data)
		return d[:]
	case crypto.SHA512:
		d := sha512.Sum512(data)
		return d[:]
	}
	panic("hash")
}

// SignBlob makes the signature blob key k produces for data when asked for format; a format the key
// cannot produce yields 64 zero bytes.
func SignBlob(k *Key, format string, data []byte) []byte {
	ck := itoa(k.ID) + "|" + format + "|" + string(data)
	if v, ok := sigCache.Load(ck); ok {
		return v.([]byte)
	}
	var blob []byte
	switch {
	case k.ed != nil && !k.SK && format == "ssh-ed25519":
		blob = ed25519.Sign(k.ed, data)
	case k.ec != nil && format == "ecdsa-sha2-nistp256":
		r, s, err := ecdsa.Sign(fixedRand{}, k.ec, digest(crypto.SHA256, data))
		if err != nil {
			panic(err)
		}
		blob = Mpint(Mpint(nil, r), s)
	case k.rs != nil:
		if h, ok := rsaHash(format); ok {
			var err error
			blob, err = rsa.SignPKCS1v15(nil, k.rs, h, digest(h, data))
			if err != nil {
				panic(err)
			}
		}
	}
	if blob == nil {
		blob = make([]byte, 64)
	}
	sigCache.Store(ck, blob)
	return blob
}

var verCache sync.Map

// OracleVerify is the stdlib-only statement of "the signature (format, blob) by the holder of key k
// over data is valid" (RFC 8332 / RFC 5656 / RFC 8709 formats). It does not touch the ssh package.
func OracleVerify(k *Key, format string, blob, data []byte) bool {
	if !k.Parses || k.SK {
		return false
	}
	ck := itoa(k.ID) + "|" + format + "|" + string(blob) + "|" + string(data)
	if v, ok := verCache.Load(ck); ok {
		return v.(bool)
	}
	ok := false
	switch pub := k.pub.(type) {
	case ed25519.PublicKey:
		ok = format == "ssh-ed25519" && len(blob) == ed25519.SignatureSize && ed25519.Verify(pub, data, blob)
	case *ecdsa.PublicKey:
		if format == "ecdsa-sha2-nistp256" {
			r, rest, ok1 := readMpint(blob)
			s, rest2, ok2 := readMpint(rest)
			ok = ok1 && ok2 && len(rest2) == 0 && ecdsa.Verify(pub, digest(crypto.SHA256, data), r, s)
		}
	case *rsa.PublicKey:
		if h, hok := rsaHash(format); hok {
			ok = rsa.VerifyPKCS1v15(pub, h, digest(h, data), blob) == nil
		}
	}
	verCache.Store(ck, ok)
	return ok
}

func readMpint(b []byte) (*big.Int, []byte, bool) {
	if len(b) < 4 {
		return nil, nil, false
	}
	n := binary.BigEndian.Uint32(b)
	if uint32(len(b)-4) < n {
		return nil, nil, false
	}
	return new(big.Int).SetBytes(b[4 : 4+n]), b[4+n:], true
}

// SessionID is the session identifier of every scripted connection; OtherSessionID is used for
// signatures made "for another session".
var SessionID = []byte("verif-session-id-0123456789abcdef")
var OtherSessionID = []byte("verif-session-id-XXXXXXXXXXXXXXXX")

// SignedData is RFC 4252 §7: string session id, byte 50, user, service, "publickey", TRUE, algo, key blob.
func SignedData(session []byte, user, service, algo string, keyBlob []byte) []byte {
	b := Str(nil, session)
	b = append(b, 50)
	b = SStr(b, user)
	b = SStr(b, service)
	b = SStr(b, "publickey")
	b = append(b, 1)
	b = SStr(b, algo)
	return Str(b, keyBlob)
}

// CryptoSigner returns the private key (for certificates: the certified key's private key).
func (k *Key) CryptoSigner() crypto.Signer {
	switch {
	case k.ed != nil:
		return k.ed
	case k.ec != nil:
		return k.ec
	case k.rs != nil:
		return k.rs
	}
	return nil
}
