package sauth

import (
	"fmt"
	"sort"
	"strings"

	"verifharness/hx"
)

// ---- feature classification of a generated history (generator side, by inspection of the op)

// ServerFeatures lists the model features a history exercises.
var ServerFeatures = []string{"none", "password", "kbd-rounds", "pk-query", "pk-sign", "gss", "cache-hit", "partial", "vpk",
	"ncacb", "sa-perms", "notouch", "banner-err", "user-change", "mt-small", "cert-key", "sk-key", "precb", "malformed", "leftover"}

func Features(c Cfg, reqs []Req) map[string]bool {
	f := map[string]bool{}
	users := map[string]bool{}
	for i, q := range reqs {
		if q.T != "r" {
			f["malformed"] = true
			continue
		}
		users[q.User] = true
		switch q.Method {
		case "none":
			f["none"] = true
			if c.NCA && c.NCACb {
				f["ncacb"] = true
			}
		case "password":
			f["password"] = true
			if q.PwShape != "ok" {
				f["malformed"] = true
			}
		case "keyboard-interactive":
			if len(q.KbdRounds) > 0 {
				f["kbd-rounds"] = true
			}
		case "gssapi-with-mic":
			f["gss"] = true
			if q.GssPay == "m" {
				f["malformed"] = true
			}
		case "publickey":
			if q.Query {
				f["pk-query"] = true
			} else {
				f["pk-sign"] = true
				if c.Vpk {
					f["vpk"] = true
				}
				if q.SigShape != "ok" {
					f["malformed"] = true
				}
			}
			if q.PkShape != "ok" {
				f["malformed"] = true
			}
			switch q.Key {
			case 5, 6:
				f["cert-key"] = true
			case 9:
				f["sk-key"] = true
			case 10, 11:
				f["cert-key"], f["sk-key"] = true, true
			}
			if i > 0 && reqs[i-1].T == "r" && reqs[i-1].Method == "publickey" && reqs[i-1].Key == q.Key && reqs[i-1].User == q.User && q.PkShape == "ok" && reqs[i-1].PkShape == "ok" {
				f["cache-hit"] = true
			}
		}
		for _, o := range []string{q.Cb, q.Vcb} {
			switch {
			case strings.HasPrefix(o, "P"):
				f["partial"] = true
			case strings.HasPrefix(o, "B"):
				f["banner-err"] = true
			case o == "A4":
				f["notouch"] = true
			case strings.HasPrefix(o, "A") && o != "A0" && o != "A1":
				f["sa-perms"] = true
			}
		}
		if len(q.Follow) > len(q.KbdRounds) && q.Method == "keyboard-interactive" {
			f["leftover"] = true
		}
	}
	if len(users) > 1 {
		f["user-change"] = true
	}
	if c.MaxTries >= 1 && c.MaxTries <= 3 {
		f["mt-small"] = true
	}
	if c.Pre == "c" || c.Pre == "b" {
		f["precb"] = true
	}
	return f
}

// PairStats counts every unordered pair of features a case exercises as pair.<a>+<b>.
func PairStats(g *hx.Gen, c Cfg, reqs []Req) {
	f := Features(c, reqs)
	var on []string
	for _, k := range ServerFeatures {
		if f[k] {
			on = append(on, k)
		}
	}
	for i := range on {
		for j := i + 1; j < len(on); j++ {
			g.Stat("pair." + on[i] + "+" + on[j])
		}
	}
}

// snippet returns requests (none of them ending the loop, except for the two terminal features) and
// a configuration tweak that make a history exercise feature f.
func snippet(f string, c *Cfg) []Req {
	rej := func(q Req) Req { q.Cb, q.Vcb = "R", "R"; return q }
	switch f {
	case "none":
		return []Req{rej(None(U0))}
	case "password":
		return []Req{rej(Pw(U0, "pw1"))}
	case "kbd-rounds":
		q := rej(Kbd(U0))
		q.KbdRounds, q.Follow = []int{2, 0}, []string{"i2", "i0"}
		return []Req{q}
	case "pk-query":
		q := Query(U0, 2)
		q.Cb, q.Vcb = "A1", "R"
		return []Req{q}
	case "pk-sign":
		return []Req{rej(Sign(U0, 3))}
	case "gss":
		c.Cbs = "1111"
		q := rej(Other(U0, "gssapi-with-mic"))
		q.GssPay, q.GssSteps, q.Follow, q.MicGood = "k", []string{"011", "000"}, []string{"gt", "gt", "gm"}, true
		return []Req{q}
	case "cache-hit":
		q := Query(U0, 1)
		q.Cb, q.Vcb = "A1", "R"
		return []Req{q, q}
	case "partial":
		q := Pw(U0, "pw1")
		q.Cb, q.Vcb = "P1111.0", "R"
		if c.Cbs == "1111" {
			q.Cb = "P1111.0"
		} else {
			q.Cb = "P111.0"
		}
		return []Req{q}
	case "vpk":
		c.Vpk = true
		q := Sign(U0, 1)
		q.Cb, q.Vcb = "A1", "R"
		return []Req{q}
	case "ncacb":
		c.NCA, c.NCACb = true, true
		return []Req{rej(None(U0))}
	case "sa-perms":
		q := Pw(U0, "pw1")
		q.Cb, q.Vcb = "A2", "A2" // source-address that does not match: a failure
		return []Req{q}
	case "notouch":
		c.Vpk = true
		q := Sign(U0, 9)
		q.SigNoUP = true
		q.Cb, q.Vcb = "A4", "R" // verified without user presence thanks to the permissions, then refused
		return []Req{q}
	case "banner-err":
		q := Pw(U0, "pw1")
		q.Cb, q.Vcb = "B1", "BW"
		return []Req{q}
	case "user-change":
		return []Req{rej(Pw(U0, "pw1")), rej(Pw("Alice", "pw1"))}
	case "mt-small":
		c.MaxTries = 3
		return []Req{rej(Pw(U0, "x"))}
	case "cert-key":
		q := Query(U0, 5)
		q.Cb, q.Vcb = "A1", "R"
		return []Req{q}
	case "sk-key":
		q := Query(U0, 9)
		q.Cb, q.Vcb = "A1", "R"
		return []Req{q}
	case "precb":
		c.Pre = "b"
		return nil
	case "malformed": // terminal
		q := rej(Pw(U0, "pw1"))
		q.PwShape = "trail"
		return []Req{q}
	case "leftover": // terminal
		q := rej(Kbd(U0))
		q.KbdRounds, q.Follow = []int{1}, []string{"i1", "i0"}
		return []Req{q}
	}
	panic("snippet " + f)
}

// EmitPairs emits, for every unordered pair of features, histories that exercise both (each order where
// neither ends the loop), so that every pair.<a>+<b> counter is non-zero in every run.
func EmitPairs(g *hx.Gen, emit func(Cfg, []Req)) {
	terminal := map[string]bool{"malformed": true, "leftover": true}
	fs := ServerFeatures
	for i := range fs {
		for j := i + 1; j < len(fs); j++ {
			for _, ord := range [][2]string{{fs[i], fs[j]}, {fs[j], fs[i]}} {
				if terminal[ord[0]] { // a terminal feature goes last
					continue
				}
				for _, mt := range []int{-1, 6} {
					c := Cfg{MaxTries: mt, Cbs: "111", Ban: "n", Addr: "tcp~10.1.2.3"}
					c.Perms = StdPerms(c.Addr)
					var reqs []Req
					// configuration tweaks of both first (gss switches the callback set, which the partial snippet reads)
					b := snippet(ord[1], &c)
					a := snippet(ord[0], &c)
					reqs = append(append(reqs, a...), b...)
					emit(c, reqs)
				}
			}
		}
	}
}

// ---- table coverage

// TableCov records which entries of an input-indexed table or switch the generated cases hit.
type TableCov struct {
	total map[string][]string
	hit   map[string]map[string]bool
}

func NewTableCov() *TableCov {
	return &TableCov{total: map[string][]string{}, hit: map[string]map[string]bool{}}
}

func (t *TableCov) Define(name string, entries ...string) {
	t.total[name] = entries
	t.hit[name] = map[string]bool{}
}

func (t *TableCov) Hit(name, entry string) {
	if h, ok := t.hit[name]; ok {
		h[entry] = true
	}
}

// Report emits one counter table.<name>=hit/total per table (and table-miss.<name>.<entry> for holes).
func (t *TableCov) Report(g *hx.Gen) {
	names := make([]string, 0, len(t.total))
	for n := range t.total {
		names = append(names, n)
	}
	sort.Strings(names)
	for _, n := range names {
		hit := 0
		for _, e := range t.total[n] {
			if t.hit[n][e] {
				hit++
			} else {
				g.Stat("table-miss." + n + "." + e)
			}
		}
		g.Stat(fmt.Sprintf("table.%s=%d/%d", n, hit, len(t.total[n])))
	}
}

// ServerTables defines the server-side tables and switches indexed by request-derived values.
func ServerTables() *TableCov {
	t := NewTableCov()
	t.Define("method-switch", "none", "password", "keyboard-interactive", "publickey", "gssapi-with-mic", "other")
	certs, plain := []string{}, []string{}
	for _, a := range allAlgos {
		if strings.Contains(a, "-cert-v01@") {
			certs = append(certs, a)
		} else if a != "bogus-algo" {
			plain = append(plain, a)
		}
	}
	t.Define("certKeyAlgoNames.algo", certs...)
	t.Define("PublicKeyAuthAlgorithms.underlying", plain...)
	t.Define("sig-format", plain...)
	t.Define("algorithmsForKeyFormat.arm", "ssh-rsa", "ssh-rsa-cert-v01@openssh.com", "default")
	t.Define("outcome", "A", "R", "B0", "B1", "B2", "BP", "BW", "P")
	t.Define("follow-kind", "i", "ib", "ij", "gt", "gm", "o")
	t.Define("gss-payload", "k", "k2", "nk", "n0", "m")
	t.Define("sa-entry", "eq", "ne", "in", "out", "bad")
	t.Define("addr-kind", "nil", "unix", "tcp")
	t.Define("read-kind", "r", "eof", "io", "bad")
	t.Define("pw-shape", "ok", "empty", "nz", "trunc", "trail")
	t.Define("pk-shape", "ok", "empty", "noalgo", "nokey", "qtrail")
	t.Define("sig-shape", "ok", "none", "trunc", "trail", "btrail")
	t.Define("key", "1", "2", "3", "4", "5", "6", "7", "8", "9", "10", "11")
	return t
}

// Record notes the table entries one case hits.
func (t *TableCov) Record(c Cfg, reqs []Req) {
	switch {
	case strings.HasPrefix(c.Addr, "tcp~"):
		t.Hit("addr-kind", "tcp")
	default:
		t.Hit("addr-kind", c.Addr)
	}
	for _, p := range c.Perms {
		for _, o := range p.Oracle {
			t.Hit("sa-entry", o)
		}
	}
	for _, q := range reqs {
		t.Hit("read-kind", q.T)
		if q.T != "r" {
			continue
		}
		switch q.Method {
		case "none", "password", "keyboard-interactive", "publickey", "gssapi-with-mic":
			t.Hit("method-switch", q.Method)
		default:
			t.Hit("method-switch", "other")
		}
		for _, o := range []string{q.Cb, q.Vcb} {
			switch {
			case o == "":
			case o[0] == 'A' || o[0] == 'P' || o == "R":
				t.Hit("outcome", o[:1])
			default:
				t.Hit("outcome", o)
			}
		}
		for _, f := range q.Follow {
			switch {
			case strings.HasPrefix(f, "ij"):
				t.Hit("follow-kind", "ij")
			case f == "ib" || f == "gt" || f == "gm" || f == "o":
				t.Hit("follow-kind", f)
			default:
				t.Hit("follow-kind", "i")
			}
		}
		switch q.Method {
		case "password":
			t.Hit("pw-shape", q.PwShape)
		case "gssapi-with-mic":
			t.Hit("gss-payload", q.GssPay)
		case "publickey":
			t.Hit("pk-shape", q.PkShape)
			t.Hit("key", itoa(q.Key))
			t.Hit("certKeyAlgoNames.algo", q.Algo)
			t.Hit("PublicKeyAuthAlgorithms.underlying", q.Algo)
			if !q.Query {
				t.Hit("sig-shape", q.SigShape)
				t.Hit("sig-format", q.SigFmt)
			}
			switch Keys[q.Key].Type {
			case "ssh-rsa", "ssh-rsa-cert-v01@openssh.com":
				t.Hit("algorithmsForKeyFormat.arm", Keys[q.Key].Type)
			default:
				t.Hit("algorithmsForKeyFormat.arm", "default")
			}
		}
	}
}
