package sauth

import (
	"net"
	"strings"

	"verifharness/hx"
)

const Svc = "ssh-connection"

// U0 is the default user; Users are names that differ from it and from each other only by case
// folding, Unicode confusables, normalisation form or blanks (plus the empty name): the server must
// treat every one of them as a different user (byte comparison).
const U0 = "alice"

var Users = []string{"alice", "Alice", "ALICE", "al\u0131ce", "alice ", "k", "\u212a", "K", "\u00e9", "e\u0301", ""}

// OtherUser picks a pool name different from u (a confusable of it where the pool has one).
func OtherUser(r *hx.Rand, u string) string {
	for {
		if v := hx.Pick(r, Users); v != u {
			return v
		}
	}
}

// ---- request letters

func None(u string) Req     { return Req{T: "r", User: u, Service: Svc, Method: "none"} }
func Pw(u, pw string) Req   { return Req{T: "r", User: u, Service: Svc, Method: "password", PwShape: "ok", Password: pw} }
func Kbd(u string) Req      { return Req{T: "r", User: u, Service: Svc, Method: "keyboard-interactive"} }
func Other(u, m string) Req { return Req{T: "r", User: u, Service: Svc, Method: m} }

// NaturalAlgo is the algorithm name a well-behaved client puts in the request for key k, and the
// signature format that goes with it.
func NaturalAlgo(k int) (algo, sigFmt string) {
	switch k {
	case 3:
		return "ecdsa-sha2-nistp256", "ecdsa-sha2-nistp256"
	case 4:
		return "rsa-sha2-256", "rsa-sha2-256"
	case 5:
		return "ssh-ed25519-cert-v01@openssh.com", "ssh-ed25519"
	case 6:
		return "rsa-sha2-512-cert-v01@openssh.com", "rsa-sha2-512"
	case 9:
		return SKEd25519, SKEd25519
	case 10, 11:
		return SKEd25519Cert, SKEd25519
	}
	return "ssh-ed25519", "ssh-ed25519"
}

func Query(u string, k int) Req {
	a, _ := NaturalAlgo(k)
	return Req{T: "r", User: u, Service: Svc, Method: "publickey", PkShape: "ok", Query: true, Algo: a, Key: k}
}

func Sign(u string, k int) Req {
	a, f := NaturalAlgo(k)
	return Req{T: "r", User: u, Service: Svc, Method: "publickey", PkShape: "ok", Algo: a, Key: k,
		SigShape: "ok", SigFmt: f, SigKey: k, SigData: "ok"}
}

// RandKbd: a keyboard-interactive request whose callback makes 0..3 Challenge calls; the answers follow
// the request, mostly well-formed; after a bad one the client sends nothing more for this request
// (sometimes one extra packet, which the server then reads as the next request).
func RandKbd(r *hx.Rand, g *hx.Gen, u string) Req {
	q := Kbd(u)
	n := r.PickInt(0, 1, 1, 2, 3)
	for i := 0; i < n; i++ {
		qs := r.PickInt(0, 1, 1, 2, 3)
		if r.Chance(1, 25) {
			qs = 99 // Challenge called with questions / echos of different length
			g.Stat("req.kbd-echo-mismatch")
		}
		q.KbdRounds = append(q.KbdRounds, qs)
	}
	for _, qs := range q.KbdRounds {
		if qs == 99 {
			return q
		}
		if r.Chance(1, 7) {
			q.Follow = append(q.Follow, r.PickStr("i"+itoa(qs+1), "ib", "gt", "gm", "o", "i"+itoa(qs+2), "ij"+itoa(qs), "ij"+itoa(qs)))
			g.Stat("req.kbd-bad-response")
			if r.Chance(1, 3) {
				q.Follow = append(q.Follow, "i0")
			}
			return q
		}
		q.Follow = append(q.Follow, "i"+itoa(qs))
	}
	if r.Chance(1, 15) {
		q.Follow = append(q.Follow, r.PickStr("i0", "gt", "o"))
		g.Stat("req.leftover-packet")
	}
	g.Stat("req.kbd-rounds")
	return q
}

// RandGss: a gssapi-with-mic request with a scripted AcceptSecContext sequence and the token / MIC
// packets that go with it.
func RandGss(r *hx.Rand, g *hx.Gen, u string) Req {
	q := Other(u, "gssapi-with-mic")
	q.GssPay = r.PickStr("k", "k", "k", "k", "k2", "nk", "n0", "m")
	q.MicGood = r.Chance(3, 4)
	ns := r.PickInt(1, 1, 2, 3)
	for i := 0; i < ns; i++ {
		e, o, c := "0", b01(r.Bool()), "1"
		if i == ns-1 {
			c = "0"
		}
		if r.Chance(1, 9) {
			e = "1"
		}
		q.GssSteps = append(q.GssSteps, e+o+c)
	}
	if r.Chance(1, 12) { // a server that wants to go on although the script ends
		q.GssSteps[ns-1] = "0" + q.GssSteps[ns-1][1:2] + "1"
	}
	if q.GssPay != "k" && q.GssPay != "k2" {
		return q
	}
	g.Stat("req.gss-exchange")
	bad := func(alts ...string) bool {
		if r.Chance(1, 10) {
			q.Follow = append(q.Follow, hx.Pick(r, alts))
			g.Stat("req.gss-bad-packet")
			return true
		}
		return false
	}
	if bad("gm", "ib", "i2", "o") {
		return q
	}
	q.Follow = append(q.Follow, r.PickStr("gt", "gt", "gt", "i0"))
	for _, s := range q.GssSteps {
		if s[0] == '1' {
			break
		}
		if s[2] == '1' {
			if bad("gm", "ib", "i1", "o") {
				return q
			}
			q.Follow = append(q.Follow, r.PickStr("gt", "gt", "i0"))
		} else {
			if bad("gt", "i0", "i1", "o") {
				return q
			}
			q.Follow = append(q.Follow, "gm")
		}
	}
	if r.Chance(1, 15) {
		q.Follow = append(q.Follow, r.PickStr("gt", "gm"))
		g.Stat("req.leftover-packet")
	}
	return q
}

// Letters is the base alphabet of the bounded-exhaustive enumeration (14 letters).
func Letters() []Req {
	wrongSess := Sign(U0, 1)
	wrongSess.SigData = "sess"
	wrongKey := Sign(U0, 1)
	wrongKey.SigKey = 2
	return []Req{
		None(U0), Pw(U0, "pw1"), Kbd(U0),
		Query(U0, 1), Sign(U0, 1), wrongSess, Query(U0, 2), Sign(U0, 2),
		Sign("Alice", 1), Pw("Alice", "pw2"), Sign(U0, 4), Other(U0, "hostbased"),
		Sign(U0, 5), wrongKey,
	}
}

// every entry of certKeyAlgoNames (both columns), defaultPubKeyAuthAlgos, plus an unknown name
var allAlgos = []string{"ssh-ed25519", "ecdsa-sha2-nistp256", "ecdsa-sha2-nistp384", "ecdsa-sha2-nistp521", "rsa-sha2-256", "rsa-sha2-512", "ssh-rsa",
	"ssh-dss", SKEd25519, "sk-ecdsa-sha2-nistp256@openssh.com",
	"ssh-ed25519-cert-v01@openssh.com", "rsa-sha2-256-cert-v01@openssh.com", "rsa-sha2-512-cert-v01@openssh.com",
	"ssh-rsa-cert-v01@openssh.com", "ssh-dss-cert-v01@openssh.com", "ecdsa-sha2-nistp256-cert-v01@openssh.com",
	"ecdsa-sha2-nistp384-cert-v01@openssh.com", "ecdsa-sha2-nistp521-cert-v01@openssh.com",
	"sk-ecdsa-sha2-nistp256-cert-v01@openssh.com", SKEd25519Cert, "bogus-algo"}

// AllAlgos exposes the table to the generators' coverage counters.
func AllAlgos() []string { return allAlgos }

// RandReq draws from the extended alphabet: the base letters plus algorithm/format mismatches,
// malformed payloads, signatures over the wrong data, keys that do not parse, other services, read errors.
func RandReq(r *hx.Rand, g *hx.Gen) Req {
	u := U0
	if r.Chance(1, 8) {
		u = OtherUser(r, U0)
		g.Stat("req.other-user")
	}
	switch r.Intn(20) {
	case 0:
		return None(u)
	case 1, 2:
		q := Pw(u, r.PickStr("pw1", "pw2", "x"))
		if r.Chance(1, 6) {
			q.PwShape = r.PickStr("empty", "nz", "trunc", "trail")
			g.Stat("req.pw-malformed")
		}
		return q
	case 3:
		return RandKbd(r, g, u)
	case 4:
		if r.Chance(2, 3) {
			return RandGss(r, g, u)
		}
		return Other(u, r.PickStr("hostbased", "NONE", "publickey2"))
	case 5:
		switch r.Intn(8) {
		case 0:
			return Req{T: "eof"}
		case 1:
			return Req{T: "io"}
		case 2:
			return Req{T: "bad", BadKind: r.PickStr("trunc", "type")}
		default:
			q := None(u)
			q.Service = r.PickStr("ssh-userauth", "ssh-connection2", "x")
			g.Stat("req.other-service")
			return q
		}
	case 6, 7, 8:
		return Query(u, r.PickInt(1, 1, 2, 3, 4, 5, 6, 9, 10, 11))
	case 9:
		q := Query(u, r.PickInt(1, 2, 4, 5, 7, 8))
		switch r.Intn(4) {
		case 0:
			q.PkShape = r.PickStr("empty", "noalgo", "nokey", "qtrail")
			g.Stat("req.pk-malformed")
		case 1:
			q.Algo = hx.Pick(r, allAlgos)
		}
		return q
	}
	// signature requests
	k := r.PickInt(1, 1, 1, 2, 3, 4, 4, 5, 6, 6, 7, 8, 9, 9, 10, 10, 11)
	q := Sign(u, k)
	if k >= 9 {
		q.SigNoUP = r.Chance(1, 2)
		g.Stat("req.sk-signature")
	}
	switch r.Intn(12) {
	case 0:
		q.Algo = hx.Pick(r, allAlgos)
		g.Stat("req.sig-algo-random")
	case 1:
		q.SigFmt = hx.Pick(r, allAlgos)
		g.Stat("req.sig-format-random")
	case 2:
		if k == 4 || k == 6 { // RSA families: every (algo, format) pair of the family
			if k == 4 {
				q.Algo = r.PickStr("ssh-rsa", "rsa-sha2-256", "rsa-sha2-512")
			} else {
				q.Algo = r.PickStr("ssh-rsa-cert-v01@openssh.com", "rsa-sha2-256-cert-v01@openssh.com", "rsa-sha2-512-cert-v01@openssh.com")
			}
			q.SigFmt = r.PickStr("ssh-rsa", "rsa-sha2-256", "rsa-sha2-512")
			g.Stat("req.sig-rsa-family")
		}
	case 3:
		q.SigData = r.PickStr("sess", "user", "svc", "algo", "key", "flip")
		g.Stat("req.sig-wrong-data")
	case 4:
		q.SigKey = r.PickInt(1, 2, 3, 4)
		g.Stat("req.sig-other-signer")
	case 5:
		q.SigShape = r.PickStr("none", "trunc", "trail", "btrail")
		g.Stat("req.sig-malformed")
	case 6:
		q.PkShape = r.PickStr("empty", "noalgo", "nokey")
		g.Stat("req.pk-malformed")
	}
	return q
}

// ---- scripted outcomes

var randOutcomes = []string{"A0", "A1", "A1", "A2", "A3", "A4", "A4", "R", "R", "B0", "B1", "P111.0", "P010.0", "P100.0", "P001.0", "P000.0", "P110.1", "P011.0", "P0001.0", "P1111.0", "P0011.0", "B2", "BP", "BW"}

// SetOutcomes fills cb / vcb of every request according to a table:
//
//	0 accept everywhere (perms 1) · 1 reject everywhere · 2 partial-success chain (pw → pk → kbd → accept)
//	3 uniform over all outcome kinds · 4 mostly accept, source-address variety · 5 accept, VerifiedPublicKeyCallback decides
func SetOutcomes(r *hx.Rand, table int, reqs []Req) {
	for i := range reqs {
		q := &reqs[i]
		if q.T != "r" {
			continue
		}
		switch table {
		case 0:
			q.Cb, q.Vcb = "A1", "A1"
		case 1:
			q.Cb, q.Vcb = "R", "R"
		case 2:
			switch q.Method {
			case "password":
				q.Cb = "P010.0"
			case "publickey":
				q.Cb = "P001.0"
			default:
				q.Cb = "A1"
			}
			q.Vcb = r.PickStr("A1", "P001.0", "P100.0")
		case 3:
			q.Cb, q.Vcb = hx.Pick(r, randOutcomes), hx.Pick(r, randOutcomes)
		case 4:
			q.Cb, q.Vcb = r.PickStr("A1", "A2", "A3", "A0", "R", "A4", "A5"), r.PickStr("A1", "A2", "A3", "A0", "A5")
		default:
			q.Cb, q.Vcb = r.PickStr("A1", "A3", "A4"), hx.Pick(r, randOutcomes)
		}
	}
}

// ---- configuration

// SAOracle classifies each entry of a source-address list against ip with the stdlib, the way
// RFC-level "IP equals / CIDR contains" is defined: eq ne in out bad.
func SAOracle(ip net.IP, entries []string) []string {
	out := make([]string, len(entries))
	for i, e := range entries {
		if a := net.ParseIP(e); a != nil {
			if a.Equal(ip) {
				out[i] = "eq"
			} else {
				out[i] = "ne"
			}
		} else if _, n, err := net.ParseCIDR(e); err == nil {
			if n.Contains(ip) {
				out[i] = "in"
			} else {
				out[i] = "out"
			}
		} else {
			out[i] = "bad"
		}
	}
	return out
}

func MkPerm(addr string, entries []string, noTouch bool) PermRow {
	p := PermRow{NoTouch: noTouch}
	if entries != nil {
		p.HasSA, p.SA = true, entries
		var ip net.IP
		if strings.HasPrefix(addr, "tcp~") {
			ip = net.ParseIP(addr[4:])
		}
		p.Oracle = SAOracle(ip, entries)
	}
	return p
}

// StdPerms: 1 = no options, 2 = source-address that does not match 10.1.2.3, 3 = one that does,
// 4 = the no-touch-required extension, 5 = a source-address list starting with an unparsable entry.
func StdPerms(addr string) map[int]PermRow {
	return map[int]PermRow{
		1: MkPerm(addr, nil, false),
		2: MkPerm(addr, []string{"192.168.7.7", "172.16.0.0/12"}, false),
		3: MkPerm(addr, []string{"192.168.7.7", "10.0.0.0/8"}, false),
		4: MkPerm(addr, nil, true),
		5: MkPerm(addr, []string{"not-an-address", "10.0.0.0/8"}, false), // unparsable entry first: never matches
	}
}

var algSets = [][]string{
	{"ssh-ed25519"},
	{"rsa-sha2-256", "rsa-sha2-512"},
	{"ssh-ed25519", "rsa-sha2-512", "ecdsa-sha2-nistp256"},
	{"ssh-rsa", "ssh-ed25519"},
}

// RandCfg draws a configuration; friendly = the common, permissive shape (all callbacks, default
// algorithms, TCP peer) so that the enumerated histories mostly get past the guards.
func RandCfg(r *hx.Rand, friendly bool) Cfg {
	c := Cfg{MaxTries: r.PickInt(-1, 0, 1, 2, 3, 6), Cbs: r.PickStr("111", "1111", "1111"), Ban: "n", Addr: "tcp~10.1.2.3"}
	if friendly {
		c.MaxTries = r.PickInt(-1, 0, 3, 6)
	}
	c.NCA = r.Chance(1, 3)
	c.NCACb = r.Chance(1, 2)
	c.Vpk = r.Chance(1, 3)
	if r.Chance(1, 4) {
		c.Ban = r.PickStr("e", "m")
	}
	if r.Chance(1, 6) {
		c.Pre = r.PickStr("c", "b")
	}
	if !friendly || r.Chance(1, 8) {
		c.Cbs = r.PickStr("111", "1111", "110", "010", "100", "011", "001", "000", "101", "0001", "0011", "1101", "0000")
		if c.Cbs == "000" || c.Cbs == "0000" {
			c.NCA = true
		}
		if r.Chance(1, 3) {
			c.Algs = hx.Pick(r, algSets)
		}
		if r.Chance(1, 6) {
			c.Addr = r.PickStr("nil", "unix", "tcp~192.168.7.7", "tcp~::1")
		}
	}
	c.Perms = StdPerms(c.Addr)
	return c
}

// Finish fills the oracle fields and renders the op line.
func Finish(c Cfg, reqs []Req) string {
	Init()
	for i := range reqs {
		// for SK formats anything after the blob is the flags/counter field, not trailing garbage
		if strings.HasPrefix(reqs[i].SigFmt, "sk-") && reqs[i].SigShape == "btrail" {
			reqs[i].SigShape = "trail"
		}
		reqs[i].FillOracle()
	}
	return c.String(reqs)
}
