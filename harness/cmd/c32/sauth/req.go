package sauth

import (
	"encoding/asn1"
	"fmt"
	"sort"
	"strings"

	"verifharness/hx"
)

// Req is one scripted read of the server's auth loop, exactly the `k:v/k:v/…` record of the op line.
// Fields marked ORACLE are computed by FillOracle (stdlib / by construction) and are only read by the
// Lean model; Exec ignores them and builds the real packet from the other fields.
type Req struct {
	T       string // r | eof | io | bad
	BadKind string // t=bad: trunc | type   (Go only)
	User    string
	Service string
	Method  string
	Cb, Vcb string // scripted outcomes: A<p> | R | B0 | B1 | P<bits>.<p>

	PwShape  string // ok | empty | nz | trunc | trail
	Password string

	PkShape  string // ok | empty | noalgo | nokey | qtrail
	Query    bool
	Algo     string
	Key      int
	SigShape string // ok | none | trunc | trail | btrail
	SigFmt   string
	SigKey   int    // key that signs (Go only)
	SigData  string // ok | sess | user | svc | algo | key | flip   (Go only)
	SigNoUP  bool   // SK signatures: user-presence flag clear   (Go only)

	KbdRounds []int    // keyboard-interactive: questions per Challenge call of the callback
	Follow    []string // packets after this request: i<n> | ib | gt | gm | o
	GssPay    string   // gssapi-with-mic payload: k | k2 (Go only: krb5 as 2nd OID) | nk | n0 | m
	GssSteps  []string // scripted AcceptSecContext results: <err><out><cont> bits
	MicGood   bool     // the MIC packet carries the token the scripted GSSAPIServer accepts (Go only)
	MicOk     bool     // ORACLE: VerifyMIC succeeds

	KeyParses bool   // ORACLE
	KeyType   string // ORACLE
	CertNT    bool   // ORACLE
	SigValid  bool   // ORACLE
	SigValidN bool   // ORACLE
}

func b01(b bool) string {
	if b {
		return "1"
	}
	return "0"
}

func (r Req) String() string {
	var f []string
	add := func(k, v string) { f = append(f, k+":"+v) }
	add("t", r.T)
	switch r.T {
	case "bad":
		add("bk", r.BadKind)
		return strings.Join(f, "/")
	case "eof", "io":
		return strings.Join(f, "/")
	}
	add("u", hx.Hex([]byte(r.User))) // hex: names differ by case folding / normalisation / blanks only
	add("s", r.Service)
	add("m", r.Method)
	if r.Cb != "" {
		add("cb", r.Cb)
	}
	if r.Vcb != "" {
		add("vcb", r.Vcb)
	}
	if len(r.Follow) > 0 {
		add("fl", strings.Join(r.Follow, "."))
	}
	switch r.Method {
	case "keyboard-interactive":
		if len(r.KbdRounds) > 0 {
			ss := make([]string, len(r.KbdRounds))
			for i, q := range r.KbdRounds {
				ss[i] = itoa(q)
			}
			add("kr", strings.Join(ss, "."))
		}
	case "gssapi-with-mic":
		gp := r.GssPay
		if gp == "k2" {
			gp = "k"
			add("gp2", "1")
		}
		add("gp", gp)
		if len(r.GssSteps) > 0 {
			add("gs", strings.Join(r.GssSteps, "."))
		}
		add("gmg", b01(r.MicGood))
		add("gmo", b01(r.MicOk))
	case "password":
		add("pws", r.PwShape)
		add("pw", r.Password)
	case "publickey":
		add("pks", r.PkShape)
		add("q", b01(r.Query))
		add("a", r.Algo)
		add("k", itoa(r.Key))
		add("kp", b01(r.KeyParses))
		add("kt", r.KeyType)
		add("cnt", b01(r.CertNT))
		if !r.Query {
			add("sg", r.SigShape)
			add("sf", r.SigFmt)
			add("sk", itoa(r.SigKey))
			add("sd", r.SigData)
			if r.SigNoUP {
				add("nup", "1")
			}
			add("sv", b01(r.SigValid))
			add("svn", b01(r.SigValidN))
		}
	}
	return strings.Join(f, "/")
}

func ParseReq(s string) Req {
	r := Req{PwShape: "ok", PkShape: "ok", SigShape: "ok", SigData: "ok"}
	for _, f := range strings.Split(s, "/") {
		k, v, _ := strings.Cut(f, ":")
		switch k {
		case "t":
			r.T = v
		case "bk":
			r.BadKind = v
		case "u":
			r.User = string(hx.UnHex(v))
		case "s":
			r.Service = v
		case "m":
			r.Method = v
		case "cb":
			r.Cb = v
		case "vcb":
			r.Vcb = v
		case "pws":
			r.PwShape = v
		case "pw":
			r.Password = v
		case "pks":
			r.PkShape = v
		case "q":
			r.Query = v == "1"
		case "a":
			r.Algo = v
		case "k":
			fmt.Sscan(v, &r.Key)
		case "sg":
			r.SigShape = v
		case "sf":
			r.SigFmt = v
		case "sk":
			fmt.Sscan(v, &r.SigKey)
		case "sd":
			r.SigData = v
		case "nup":
			r.SigNoUP = v == "1"
		case "fl":
			r.Follow = strings.Split(v, ".")
		case "kr":
			for _, q := range strings.Split(v, ".") {
				var n int
				fmt.Sscan(q, &n)
				r.KbdRounds = append(r.KbdRounds, n)
			}
		case "gp":
			if r.GssPay != "k2" {
				r.GssPay = v
			}
		case "gp2":
			r.GssPay = "k2"
		case "gs":
			r.GssSteps = strings.Split(v, ".")
		case "gmg":
			r.MicGood = v == "1"
		case "gmo":
			r.MicOk = v == "1"
		case "kp":
			r.KeyParses = v == "1"
		case "kt":
			r.KeyType = v
		case "cnt":
			r.CertNT = v == "1"
		case "sv":
			r.SigValid = v == "1"
		case "svn":
			r.SigValidN = v == "1"
		}
	}
	return r
}

const skCounter = 7

func (r Req) skFlags() byte {
	if r.SigNoUP {
		return 0
	}
	return 1
}

// isSKSig: the signer is a security key asked for its own format.
func (r Req) isSKSig() bool {
	sk := Keys[r.SigKey]
	if sk == nil {
		sk = Keys[r.Key]
	}
	return sk.SK && r.SigFmt == SKEd25519
}

// sigBody is the content of the signature string: format, blob and, for SK signatures, flags + counter.
func (r Req) sigBody() []byte {
	body := Str(SStr(nil, r.SigFmt), r.sigBlob())
	if r.isSKSig() {
		body = U32(append(body, r.skFlags()), skCounter)
	}
	return body
}

// sigBlob returns the signature blob the request carries.
func (r Req) sigBlob() []byte {
	k := Keys[r.Key]
	sk := Keys[r.SigKey]
	if sk == nil {
		sk = k
	}
	session, user, svc, algo, blob := SessionID, r.User, r.Service, r.Algo, k.Blob
	switch r.SigData {
	case "sess":
		session = OtherSessionID
	case "user":
		user = r.User + "x"
	case "svc":
		svc = "ssh-other"
	case "algo":
		algo = r.Algo + "x"
	case "key":
		blob = Keys[2].Blob
		if r.Key == 2 {
			blob = Keys[1].Blob
		}
	}
	var sig []byte
	if r.isSKSig() {
		sig = SKSign(sk, r.skFlags(), skCounter, SignedData(session, user, svc, algo, blob))
	} else {
		sig = SignBlob(sk, r.SigFmt, SignedData(session, user, svc, algo, blob))
	}
	if r.SigData == "flip" {
		sig = append([]byte(nil), sig...)
		sig[len(sig)/2] ^= 0x10
	}
	return sig
}

// Packet builds the SSH_MSG_USERAUTH_REQUEST the description stands for.
func (r Req) Packet() []byte {
	p := SStr(SStr(SStr([]byte{50}, r.User), r.Service), r.Method)
	switch r.Method {
	case "password":
		switch r.PwShape {
		case "ok":
			p = SStr(append(p, 0), r.Password)
		case "empty":
		case "nz":
			p = SStr(append(p, 1), r.Password)
		case "trunc":
			p = append(U32(append(p, 0), uint32(len(r.Password)+3)), r.Password...)
		case "trail":
			p = append(SStr(append(p, 0), r.Password), 0)
		}
	case "publickey":
		if r.PkShape == "empty" {
			return p
		}
		if r.Query {
			p = append(p, 0)
		} else {
			p = append(p, 1)
		}
		if r.PkShape == "noalgo" {
			return append(U32(p, uint32(len(r.Algo)+5)), r.Algo...)
		}
		p = SStr(p, r.Algo)
		blob := Keys[r.Key].Blob
		if r.PkShape == "nokey" {
			return append(U32(p, uint32(len(blob)+1)), blob...)
		}
		p = Str(p, blob)
		if r.Query {
			if r.PkShape == "qtrail" {
				p = append(p, 0, 0)
			}
			return p
		}
		body := r.sigBody()
		switch r.SigShape {
		case "ok":
			p = Str(p, body)
		case "none":
		case "trunc":
			p = append(U32(p, uint32(len(body)+4)), body...)
		case "trail":
			p = append(Str(p, body), 7)
		case "btrail":
			p = Str(p, append(body, 0, 0, 0, 0))
		}
	case "keyboard-interactive":
		p = SStr(SStr(p, ""), "") // language tag, submethods
	case "gssapi-with-mic":
		krb, _ := asn1.Marshal(asn1.ObjectIdentifier{1, 2, 840, 113554, 1, 2, 2})
		oth, _ := asn1.Marshal(asn1.ObjectIdentifier{1, 3, 6, 1, 5, 5, 2})
		switch r.GssPay {
		case "k":
			p = Str(U32(p, 1), krb)
		case "k2":
			p = Str(Str(U32(p, 2), oth), krb)
		case "nk":
			p = Str(U32(p, 1), oth)
		case "n0":
			p = U32(p, 0)
		default: // malformed: one mechanism announced, the string is cut short
			p = append(U32(U32(p, 1), 9), krb[:5]...)
		}
	}
	return p
}

// FollowPacket builds a packet that follows a request: i<n> INFO_RESPONSE with n answers · ib malformed
// INFO_RESPONSE · gt GSSAPI_TOKEN · gm GSSAPI_MIC · o a message of another type.
func (r Req) FollowPacket(f string) []byte {
	switch {
	case f == "ib":
		return SStr(U32([]byte{61}, 2), "a")
	case f == "gt":
		return Str([]byte{61}, []byte{0xff, 0xff, 0xff, 0xff, 0xff, 0xff, 0xff, 0xff})
	case f == "gm":
		if r.MicGood {
			return SStr([]byte{66}, GoodMIC)
		}
		return SStr([]byte{66}, "bad-mic")
	case f == "o": // a message no part of the auth code expects (SSH_MSG_UNIMPLEMENTED)
		return U32([]byte{3}, 7)
	case strings.HasPrefix(f, "ij"): // the right number of answers, then junk
		var n int
		fmt.Sscan(f[2:], &n)
		p := U32([]byte{61}, uint32(n))
		for i := 0; i < n; i++ {
			p = SStr(p, "ans")
		}
		return append(p, 0x2a)
	case strings.HasPrefix(f, "i"):
		var n int
		fmt.Sscan(f[1:], &n)
		p := U32([]byte{61}, uint32(n))
		for i := 0; i < n; i++ {
			p = SStr(p, "ans")
		}
		return p
	}
	panic("follow " + f)
}

// GoodMIC is the MIC token the scripted GSSAPIServer accepts (given the right MIC field).
const GoodMIC = "good-mic"

// MICField is RFC 4462 §3.5: string session id, byte 50, user, service, "gssapi-with-mic".
func MICField(session []byte, user, service string) []byte {
	return SStr(SStr(SStr(append(Str(nil, session), 50), user), service), "gssapi-with-mic")
}

// FillOracle sets the ORACLE fields: key facts by construction, signature validity by verifying the
// carried blob with the stdlib over the RFC 4252 §7 data of *this* request and the real session id.
func (r *Req) FillOracle() {
	if r.T == "r" && r.Method == "gssapi-with-mic" {
		r.MicOk = r.MicGood // by construction of the scripted GSSAPIServer (it also checks the MIC field)
	}
	if r.T != "r" || r.Method != "publickey" {
		return
	}
	k := Keys[r.Key]
	r.KeyParses, r.KeyType, r.CertNT = k.Parses, k.Type, k.CertNT
	if r.Query || !k.Parses {
		return
	}
	want := SignedData(SessionID, r.User, r.Service, r.Algo, k.Blob)
	if k.SK {
		// the flags / counter the packet carries (none if the signer was not an SK key: Verify then fails)
		if r.isSKSig() {
			r.SigValid, r.SigValidN = OracleVerifySK(k, r.SigFmt, r.sigBlob(), r.skFlags(), skCounter, want)
		}
		return
	}
	r.SigValid = OracleVerify(k, r.SigFmt, r.sigBlob(), want)
	r.SigValidN = r.SigValid // user presence does not apply to ordinary keys
}

// Cfg is the configuration part of the op line.
type Cfg struct {
	MaxTries int
	NCA      bool
	NCACb    bool
	Cbs      string // pw pk kbd bits
	Vpk      bool
	Ban      string // n | e | m
	Pre      string // PreAuthConnCallback: n | c (set) | b (set, sends a banner)
	Algs     []string
	Addr     string         // nil | unix | tcp~<ip>
	Perms    map[int]PermRow // id ≥ 1
}

type PermRow struct {
	HasSA   bool
	SA      []string // entries (Go side), joined by ","
	Oracle  []string // eq ne in out bad — ORACLE, per entry
	NoTouch bool
}

func (c Cfg) String(reqs []Req) string {
	var sb strings.Builder
	algs := "-"
	if len(c.Algs) > 0 {
		algs = strings.Join(c.Algs, ",")
	}
	pre := c.Pre
	if pre == "" {
		pre = "n"
	}
	fmt.Fprintf(&sb, "sauth mt=%d nca=%s ncacb=%s cbs=%s vpk=%s ban=%s pre=%s algs=%s addr=%s", c.MaxTries, b01(c.NCA), b01(c.NCACb),
		c.Cbs, b01(c.Vpk), c.Ban, pre, algs, c.Addr)
	ids := make([]int, 0, len(c.Perms))
	for id := range c.Perms {
		ids = append(ids, id)
	}
	sort.Ints(ids)
	var pm, ps []string
	for _, id := range ids {
		p := c.Perms[id]
		sa, sv := "-", "-"
		if p.HasSA {
			sa, sv = strings.Join(p.Oracle, "+"), strings.Join(p.SA, "+")
			if len(p.SA) == 1 && p.SA[0] == "" {
				sv = "E" // the empty option value
			}
		}
		pm = append(pm, fmt.Sprintf("%d~%s~%s", id, sa, b01(p.NoTouch)))
		ps = append(ps, fmt.Sprintf("%d~%s", id, strings.ReplaceAll(sv, " ", "_"))) // op-line fields are space-separated
	}
	if len(pm) == 0 {
		sb.WriteString(" perms=- psa=-")
	} else {
		fmt.Fprintf(&sb, " perms=%s psa=%s", strings.Join(pm, "|"), strings.Join(ps, "|"))
	}
	sb.WriteString(" reqs=")
	if len(reqs) == 0 {
		sb.WriteString("-")
	}
	for i, r := range reqs {
		if i > 0 {
			sb.WriteByte(';')
		}
		sb.WriteString(r.String())
	}
	return sb.String()
}
