// C32 — server user authentication is sound: drives the real ssh serverAuthenticate (hook
// ssh.VerifServerAuthenticate) over scripted USERAUTH_REQUEST histories with scripted callbacks.
package main

import (
	"verifharness/cmd/c32/sauth"
	"verifharness/hx"
)

var tables *sauth.TableCov

func emit(g *hx.Gen, c sauth.Cfg, reqs []sauth.Req) {
	line := sauth.Finish(c, reqs) // normalises the requests (oracle fields, shapes)
	sauth.PairStats(g, c, reqs)
	tables.Record(c, reqs)
	g.Emit("%s", line)
}

func clone(rs []sauth.Req) []sauth.Req { return append([]sauth.Req(nil), rs...) }

func gen(g *hx.Gen) {
	r := g.R
	sauth.Init()
	tables = sauth.ServerTables()
	defer func() { tables.Report(g) }()
	letters := sauth.Letters()
	if g.N == 0 {
		// every pair of model features, by construction
		sauth.EmitPairs(g, func(c sauth.Cfg, reqs []sauth.Req) { emit(g, c, reqs) })
		// every entry of the algorithm-name tables, as request algorithm and as signature format
		for _, a := range sauth.AllAlgos() {
			for _, k := range []int{1, 4, 6} {
				q1, q2 := sauth.Sign(sauth.U0, k), sauth.Sign(sauth.U0, k)
				q1.Algo, q2.SigFmt = a, a
				q1.Cb, q1.Vcb, q2.Cb, q2.Vcb = "A1", "A1", "A1", "A1"
				c := sauth.RandCfg(r, true)
				emit(g, c, []sauth.Req{q1})
				emit(g, c, []sauth.Req{q2})
			}
		}
	}
	L := len(letters)
	maxLen := 3
	tables := []int{0, 1, 2, 3, 4, 5}
	if g.Thorough() {
		maxLen = 4
	}
	if g.N > 0 { // -n: random part only
		maxLen = 0
	}
	// bounded-exhaustive: every sequence of length ≤ maxLen over the base alphabet × every outcome table
	var seq []int
	var rec func(depth int)
	rec = func(depth int) {
		if len(seq) > 0 {
			for _, t := range tables {
				if g.Thorough() && len(seq) == 4 && t != r.Intn(6) { // length 4: one table per sequence
					continue
				}
				if !g.Thorough() && len(seq) == 3 && t > 1 && r.Chance(5, 8) { // quick: ~3.5 of the 6 tables at length 3
					continue
				}
				reqs := make([]sauth.Req, len(seq))
				for i, l := range seq {
					reqs[i] = letters[l]
				}
				sauth.SetOutcomes(r, t, reqs)
				emit(g, sauth.RandCfg(r, true), reqs)
				g.Stat("exhaustive.len" + string(rune('0'+len(seq))))
			}
		}
		if depth == maxLen {
			return
		}
		for l := 0; l < L; l++ {
			seq = append(seq, l)
			rec(depth + 1)
			seq = seq[:len(seq)-1]
		}
	}
	rec(0)
	// signed data of publickey authentication: random field contents incl. empty and binary strings
	for i := 0; i < g.Count(400, 5000) && g.N == 0; i++ {
		f := func(max int) string { return hx.Hex(r.Bytes(r.PickInt(0, 0, 1, 3, max, r.Intn(max+1)))) }
		g.Emit("sdata sid=%s user=%s svc=%s meth=%s algo=%s key=%s", f(32), f(12), f(14), f(9), f(40), f(300))
		g.Stat("clause.signed-data")
	}
	// keyboard-interactive challenge rounds and gssapi-with-mic exchanges (follow-up packets)
	nx := g.Count(2000, 60000)
	for i := 0; i < nx && g.N == 0; i++ {
		ln := r.Range(1, 4)
		reqs := make([]sauth.Req, ln)
		for j := range reqs {
			switch r.Intn(8) {
			case 0:
				reqs[j] = letters[r.Intn(L)]
			case 1, 2, 3:
				reqs[j] = sauth.RandKbd(r, g, sauth.U0)
			default:
				reqs[j] = sauth.RandGss(r, g, sauth.U0)
			}
		}
		sauth.SetOutcomes(r, r.PickInt(0, 0, 2, 3, 3, 4), reqs)
		c := sauth.RandCfg(r, true)
		c.Cbs = r.PickStr("1111", "1111", "1111", "0011", "0001", "0010", "1110")
		emit(g, c, clone(reqs))
		g.Stat("exchange")
	}
	// random longer histories over the extended alphabet
	n := g.Count(3000, 200000)
	for i := 0; i < n; i++ {
		ln := r.Range(1, 12)
		reqs := make([]sauth.Req, ln)
		for j := range reqs {
			if r.Chance(1, 3) {
				reqs[j] = letters[r.Intn(L)]
			} else {
				reqs[j] = sauth.RandReq(r, g)
			}
		}
		sauth.SetOutcomes(r, r.PickInt(0, 2, 3, 3, 3, 4, 5), reqs)
		emit(g, sauth.RandCfg(r, r.Chance(2, 3)), clone(reqs))
		g.Stat("random")
	}
}

func main() { hx.Main(hx.Harness{Gen: gen, Exec: sauth.Exec}) }
