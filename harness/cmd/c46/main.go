// C46 — ASCII armor and cleartext signatures: armor.Encode/Decode, clearsign.Encode/Decode and
// signature verification of the clearsigned text through openpgp.CheckDetachedSignature.
package main

import (
	"bytes"
	"crypto"
	_ "crypto/md5"
	_ "crypto/sha1"
	_ "crypto/sha256"
	_ "crypto/sha512"
	"encoding/base64"
	"fmt"
	"io"
	"os"
	"os/exec"
	"path/filepath"
	"sort"
	"strings"
	"sync"
	"time"

	"golang.org/x/crypto/openpgp"
	"golang.org/x/crypto/openpgp/armor"
	"golang.org/x/crypto/openpgp/clearsign"
	pgperr "golang.org/x/crypto/openpgp/errors"
	"golang.org/x/crypto/openpgp/packet"
	_ "golang.org/x/crypto/ripemd160"
	"verifharness/hx"
)

// ------------------------------------------------------------------ exec side

func hexList(o hx.Op, k string) [][]byte {
	var out [][]byte
	for _, s := range o.List(k) {
		if s == "e" { // an empty element ("-" is the empty list)
			out = append(out, []byte{})
		} else {
			out = append(out, hx.UnHex(s))
		}
	}
	return out
}

func splitBy(b []byte, sizes []int) [][]byte {
	var out [][]byte
	for _, n := range sizes {
		if n > len(b) {
			n = len(b)
		}
		out = append(out, b[:n])
		b = b[n:]
	}
	if len(b) > 0 {
		out = append(out, b)
	}
	return out
}

func showHdr(m map[string]string) string {
	if len(m) == 0 {
		return "-"
	}
	var e []string
	for k, v := range m {
		e = append(e, hx.Hex([]byte(k))+":"+hx.Hex([]byte(v)))
	}
	sort.Slice(e, func(i, j int) bool {
		return strings.SplitN(e[i], ":", 2)[0] < strings.SplitN(e[j], ":", 2)[0]
	})
	return strings.Join(e, ",")
}

// readBody reads with one large buffer per Read (the model's base64 stream decoder is fed one armor line per refill).
func readBody(r io.Reader) ([]byte, string) {
	var out []byte
	buf := make([]byte, 4096)
	for i := 0; i < 1<<20; i++ {
		n, err := r.Read(buf)
		out = append(out, buf[:n]...)
		if err == nil {
			continue
		}
		switch {
		case err == io.EOF:
			return out, "eof"
		case err == armor.ArmorCorrupt:
			return out, "corrupt"
		case err == io.ErrUnexpectedEOF:
			return out, "ueof"
		}
		if _, ok := err.(base64.CorruptInputError); ok {
			return out, "b64"
		}
		return out, "other"
	}
	return out, "hang"
}

func showBlock(b *armor.Block) string {
	body, end := readBody(b.Body)
	return fmt.Sprintf("ty=%s hdr=%s body=%s end=%s", hx.Hex([]byte(b.Type)), showHdr(b.Header), hx.Hex(body), end)
}

func showDec(data []byte) string {
	b, err := armor.Decode(bytes.NewReader(data))
	if err != nil || b == nil {
		return "nil"
	}
	return showBlock(b)
}

// normalise the order of the header lines of an encoded block (Go map iteration order is random)
func sortHeaderBlock(out []byte) []byte {
	i := bytes.IndexByte(out, '\n')
	j := bytes.Index(out, []byte("\n\n"))
	if i < 0 || j < i {
		return out
	}
	lines := strings.Split(string(out[i+1:j]), "\n")
	sort.Strings(lines)
	var r []byte
	r = append(r, out[:i+1]...)
	r = append(r, strings.Join(lines, "\n")...)
	r = append(r, out[j:]...)
	return r
}

var (
	keyOnce sync.Once
	entity  *openpgp.Entity
)

func key() *openpgp.Entity {
	keyOnce.Do(func() {
		e, err := openpgp.NewEntity("verif", "c46", "verif@example.org", &packet.Config{RSABits: 2048, Time: func() time.Time { return time.Unix(1700000000, 0) }})
		if err != nil {
			panic(err)
		}
		entity = e
	})
	return entity
}

var hashes = map[string]crypto.Hash{"SHA256": crypto.SHA256, "SHA1": crypto.SHA1, "SHA512": crypto.SHA512, "SHA384": crypto.SHA384, "SHA224": crypto.SHA224,
	"MD5": crypto.MD5, "RIPEMD160": crypto.RIPEMD160, "MD4": crypto.MD4, "SHA3_256": crypto.SHA3_256}

var (
	key2Once sync.Once
	entity2  *openpgp.Entity
)

func key2() *openpgp.Entity {
	key2Once.Do(func() {
		e, err := openpgp.NewEntity("verif2", "c46", "verif2@example.org", &packet.Config{RSABits: 2048})
		if err != nil {
			panic(err)
		}
		entity2 = e
	})
	return entity2
}

// clearsign.EncodeMulti with nk keys (alternating the two test keys); enc=1 marks the first key as encrypted
func clrMulti(o hx.Op) string {
	h := hashes[string(o.Hex("hash"))]
	ents := []*openpgp.Entity{key(), key2(), key()}[:o.Int("nk")]
	var keys []*packet.PrivateKey
	for _, e := range ents {
		keys = append(keys, e.PrivateKey)
	}
	if o.Int("enc") == 1 && len(keys) > 0 {
		c := *keys[0]
		c.Encrypted = true
		keys[0] = &c
	}
	var buf bytes.Buffer
	cfg := &packet.Config{DefaultHash: h, Time: func() time.Time { return time.Unix(1700000001, 0) }}
	w, err := clearsign.EncodeMulti(&buf, keys, cfg)
	if err != nil {
		switch err.(type) {
		case pgperr.InvalidArgumentError:
			return "err:arg"
		case pgperr.UnsupportedError:
			return "err:unsup"
		}
		return "err:other"
	}
	for _, c := range splitBy(o.Hex("pt"), o.Ints("ch")) {
		w.Write(c)
	}
	if err := w.Close(); err != nil {
		return "err:close"
	}
	out := buf.Bytes()
	i := bytes.LastIndex(out, []byte("-----BEGIN PGP SIGNATURE-----"))
	if i < 0 {
		return "no-signature"
	}
	b, rest := clearsign.Decode(out)
	if b == nil {
		return fmt.Sprintf("text=%s dec=nil", hx.Hex(out[:i]))
	}
	sigBytes, _ := io.ReadAll(b.ArmoredSignature.Body)
	nsig := 0
	pr := packet.NewReader(bytes.NewReader(sigBytes))
	for {
		p, err := pr.Next()
		if err != nil {
			break
		}
		if _, ok := p.(*packet.Signature); ok {
			nsig++
		}
	}
	sig := "none"
	if len(ents) > 0 {
		sig = "ok"
		for _, e := range ents { // each signer's key alone must find and verify its own signature packet
			if _, err := openpgp.CheckDetachedSignature(openpgp.EntityList{e}, bytes.NewReader(b.Bytes), bytes.NewReader(sigBytes)); err != nil {
				sig = "bad"
			}
		}
	}
	return fmt.Sprintf("text=%s dec=ok hashes=%s pt=%s bytes=%s rest=%s nsig=%d sig=%s", hx.Hex(out[:i]), showHashes(b.Headers["Hash"]),
		hx.Hex(b.Plaintext), hx.Hex(b.Bytes), hx.Hex(rest), nsig, sig)
}

func clearsignText(h crypto.Hash, chunks [][]byte) []byte {
	var buf bytes.Buffer
	cfg := &packet.Config{DefaultHash: h, Time: func() time.Time { return time.Unix(1700000001, 0) }}
	w, err := clearsign.Encode(&buf, key().PrivateKey, cfg)
	if err != nil {
		panic(err)
	}
	for _, c := range chunks {
		if _, err := w.Write(c); err != nil {
			panic(err)
		}
	}
	if err := w.Close(); err != nil {
		panic(err)
	}
	return buf.Bytes()
}

func showHashes(v []string) string {
	if len(v) == 0 {
		return "-"
	}
	s := make([]string, len(v))
	for i, x := range v {
		s[i] = hx.Hex([]byte(x))
	}
	return strings.Join(s, ",")
}

func checkSig(signed []byte, b *clearsign.Block) string {
	_, err := openpgp.CheckDetachedSignature(openpgp.EntityList{key()}, bytes.NewReader(signed), b.ArmoredSignature.Body)
	if err == nil {
		return "ok"
	}
	return "bad"
}

func run(line string) string {
	o := hx.Parse(line)
	switch o.Cmd {
	case "arm":
		hk, hv := hexList(o, "hk"), hexList(o, "hv")
		var hdr map[string]string
		if len(hk) > 0 {
			hdr = map[string]string{}
			for i := range hk {
				hdr[string(hk[i])] = string(hv[i])
			}
		}
		var buf bytes.Buffer
		w, err := armor.Encode(&buf, string(o.Hex("ty")), hdr)
		if err != nil {
			return "err"
		}
		for _, c := range splitBy(o.Hex("body"), o.Ints("ch")) {
			if _, err := w.Write(c); err != nil {
				return "err"
			}
		}
		if err := w.Close(); err != nil {
			return "err"
		}
		out := buf.Bytes()
		shown := out
		if len(hdr) >= 2 {
			shown = sortHeaderBlock(out)
		}
		return fmt.Sprintf("out=%s %s", hx.Hex(shown), showDec(out))
	case "dec":
		return showDec(o.Hex("data"))
	case "clr":
		h, ok := hashes[string(o.Hex("hash"))]
		if !ok {
			return "bad-op"
		}
		out := clearsignText(h, splitBy(o.Hex("pt"), o.Ints("ch")))
		i := bytes.LastIndex(out, []byte("-----BEGIN PGP SIGNATURE-----"))
		if i < 0 {
			return "no-signature"
		}
		text := out[:i]
		b, rest := clearsign.Decode(out)
		if b == nil {
			return fmt.Sprintf("text=%s dec=nil", hx.Hex(text))
		}
		return fmt.Sprintf("text=%s dec=ok hashes=%s pt=%s bytes=%s rest=%s sig=%s", hx.Hex(text), showHashes(b.Headers["Hash"]),
			hx.Hex(b.Plaintext), hx.Hex(b.Bytes), hx.Hex(rest), checkSig(b.Bytes, b))
	case "clrm":
		if _, ok := hashes[string(o.Hex("hash"))]; !ok {
			return "bad-op"
		}
		return clrMulti(o)
	case "clr2":
		out1 := clearsignText(crypto.SHA256, splitBy(o.Hex("pt"), o.Ints("ch")))
		b1, _ := clearsign.Decode(out1)
		if b1 == nil {
			return "dec1=nil"
		}
		out2 := clearsignText(crypto.SHA256, [][]byte{o.Hex("pt2")})
		b2, _ := clearsign.Decode(out2)
		if b2 == nil {
			return "dec=nil"
		}
		return "sig=" + checkSig(b2.Bytes, b1)
	case "clrdec":
		data := o.Hex("data")
		b, rest := clearsign.Decode(data)
		if b == nil {
			if !bytes.Equal(rest, data) {
				return "nil-but-rest-differs"
			}
			return "nil"
		}
		return fmt.Sprintf("ok hashes=%s pt=%s bytes=%s arm=[%s] rest=%s", showHashes(b.Headers["Hash"]), hx.Hex(b.Plaintext), hx.Hex(b.Bytes),
			showBlock(b.ArmoredSignature), hx.Hex(rest))
	case "gpgclr":
		return gpgClr(o)
	}
	return "bad-op"
}

// ------------------------------------------------------------------ gpg support (thorough tier only)

var (
	gpgOnce sync.Once
	gpgHome string
	gpgMu   sync.Mutex
)

func gpgSetup() {
	gpgOnce.Do(func() {
		root := os.Getenv("VERIF_BUILD")
		if root == "" {
			root = "/verif/.build"
		}
		home := filepath.Join(root, fmt.Sprintf("gnupg-c46-%d", os.Getpid()))
		os.RemoveAll(home)
		if err := os.MkdirAll(home, 0o700); err != nil {
			return
		}
		var pub bytes.Buffer
		if err := key().Serialize(&pub); err != nil {
			return
		}
		cmd := exec.Command("gpg", "--batch", "--quiet", "--homedir", home, "--import")
		cmd.Stdin = &pub
		if err := cmd.Run(); err != nil {
			return
		}
		gpgHome = home
	})
}

// gpgClr: clearsign with the real code, `gpg --verify` must accept (model answer: constant "gpg=ok").
func gpgClr(o hx.Op) string {
	gpgSetup()
	if gpgHome == "" {
		return "gpg=unavailable"
	}
	out := clearsignText(crypto.SHA256, splitBy(o.Hex("pt"), o.Ints("ch")))
	gpgMu.Lock()
	defer gpgMu.Unlock()
	cmd := exec.Command("gpg", "--batch", "--quiet", "--homedir", gpgHome, "--trust-model", "always", "--verify")
	cmd.Stdin = bytes.NewReader(out)
	if err := cmd.Run(); err != nil {
		return "gpg=bad"
	}
	return "gpg=ok"
}

// ------------------------------------------------------------------ generators

const printable = "abcdefghijklmnopqrstuvwxyzABCDEFGHIJKLMNOPQRSTUVWXYZ0123456789 :-_/.,=+()"

func word(r *hx.Rand, lo, hi int) []byte {
	n := r.Range(lo, hi)
	b := make([]byte, n)
	for i := range b {
		b[i] = printable[r.Intn(len(printable))]
	}
	return b
}

// a key/value that satisfies the well-formedness predicate of the round-trip theorem
func goodKey(r *hx.Rand) []byte {
	if r.Chance(2, 3) {
		return []byte(r.PickStr("Version", "Comment", "Hash", "Charset", "MessageID", "X"))
	}
	for {
		k := word(r, 1, 12)
		if !bytes.Contains(k, []byte(": ")) && k[0] != ' ' {
			return k
		}
	}
}
func goodVal(r *hx.Rand) []byte {
	for {
		v := word(r, 1, 40)
		if v[len(v)-1] != ' ' {
			return v
		}
	}
}

var uniSpaces = [][]byte{{0xC2, 0x85}, {0xC2, 0xA0}, {0xE1, 0x9A, 0x80}, {0xE2, 0x80, 0x80}, {0xE2, 0x80, 0x8A}, {0xE2, 0x80, 0xA8}, {0xE2, 0x80, 0xAF}, {0xE2, 0x81, 0x9F}, {0xE3, 0x80, 0x80}, {0xE2, 0x80, 0x8B}, {0xC2, 0x86}, {0xE2, 0x80}}

func cat(bs ...[]byte) []byte { return bytes.Join(bs, nil) }

// an entry outside the well-formedness predicate (the excluded points of the theorem)
func badEntry(r *hx.Rand, g *hx.Gen) (k, v []byte) {
	k, v = goodKey(r), goodVal(r)
	switch c := r.Intn(16); c {
	case 0:
		k = cat(k, []byte(": "), word(r, 0, 5))
		g.Stat("hdr.key-with-colon-space")
	case 1:
		v = nil
		g.Stat("hdr.empty-value")
	case 2:
		v = cat([]byte(r.PickStr(" ", "\t", "  ")), v)
		g.Stat("hdr.value-leading-blank")
	case 3:
		v = cat(v, []byte(r.PickStr(" ", "\t", "\r", " \t ", "\v")))
		g.Stat("hdr.value-trailing-blank")
	case 4:
		k = cat([]byte(r.PickStr(" ", "\t")), k)
		g.Stat("hdr.key-leading-blank")
	case 5:
		v = cat(v, []byte("\n"), word(r, 0, 8))
		g.Stat("hdr.value-with-lf")
	case 6:
		k = cat(k, []byte("\n"), word(r, 0, 4))
		g.Stat("hdr.key-with-lf")
	case 7:
		v = cat(v, hx.Pick(r, uniSpaces))
		g.Stat("hdr.value-trailing-unicode")
	case 8:
		k = cat(hx.Pick(r, uniSpaces), k)
		g.Stat("hdr.key-leading-unicode")
	case 9: // long line: total length around the 100-byte bufio window
		n := r.Range(94, 104) - len(k) - 2
		if n < 1 {
			n = 1
		}
		v = bytes.Repeat([]byte{'a'}, n)
		if r.Bool() {
			v[r.Intn(len(v))] = ' '
		}
		g.Stat("hdr.line-near-100")
	case 10: // a blank exactly at the fragment boundary (byte 100 of the line)
		pre := 100 - len(k) - 2
		v = cat(bytes.Repeat([]byte{'b'}, pre-1), []byte(r.PickStr(" ", "\r", "\t")), word(r, 1, 30))
		g.Stat("hdr.blank-at-100")
	case 11:
		v = cat(word(r, 100, 260), []byte("x"))
		g.Stat("hdr.long-value")
	case 12:
		k = bytes.Repeat([]byte{'K'}, r.Range(96, 130))
		g.Stat("hdr.long-key")
	case 13:
		k = nil
		g.Stat("hdr.empty-key")
	case 14:
		v = cat(v, []byte("\n\n"), word(r, 0, 8))
		g.Stat("hdr.value-with-blank-line")
	case 15:
		k = cat([]byte("-----BEGIN X-----\n"), k)
		g.Stat("hdr.key-with-begin")
	}
	return
}

// parsedKey mimics nothing of the repo: it only tells the generator whether two entries could interact
func simpleEntry(k, v []byte) bool {
	l := cat(k, []byte(": "), v)
	if len(l) > 99 || bytes.ContainsAny(l, "\n") {
		return false
	}
	for _, c := range l {
		if c >= 0x80 {
			return false
		}
	}
	return len(bytes.TrimSpace(v)) > 0
}

func bodyLen(r *hx.Rand, g *hx.Gen) int {
	switch r.Intn(10) {
	case 0:
		return r.PickInt(0, 1, 2, 3, 4, 5)
	case 1:
		return r.PickInt(47, 48, 49, 50, 51) // 48 bytes = one full 64-column line
	case 2:
		return 48*r.Range(1, 6) + r.PickInt(-1, 0, 1, 2, 3)
	case 3:
		if g.Thorough() || r.Chance(1, 4) {
			g.Stat("body.large")
			return r.Range(2000, 10000)
		}
		return r.Range(300, 1200)
	}
	return r.Range(0, 300)
}

func chunking(r *hx.Rand, n int) []int {
	var out []int
	switch r.Intn(5) {
	case 0:
		return nil // one Write
	case 1: // byte at a time at the start
		for i := 0; i < 8 && n > 0; i++ {
			out = append(out, 1)
			n--
		}
	}
	maxc := r.PickInt(2, 3, 7, 48, 64, 100, 1000)
	for n > 0 && len(out) < 400 {
		c := r.Intn(maxc + 1)
		if c > n {
			c = n
		}
		out = append(out, c)
		n -= c
	}
	return out
}

func hexJoin(xs [][]byte) string {
	s := make([]string, len(xs))
	for i, x := range xs {
		s[i] = hx.Hex(x)
		if len(x) == 0 {
			s[i] = "e"
		}
	}
	return hx.JoinStrs(s)
}

func genArm(g *hx.Gen) {
	r := g.R
	ty := []byte(r.PickStr("PGP MESSAGE", "PGP SIGNATURE", "PGP PUBLIC KEY BLOCK", "PGP PRIVATE KEY BLOCK", "X"))
	if r.Chance(1, 4) {
		ty = word(r, 1, 30)
	}
	if r.Chance(1, 12) {
		g.Stat("type.excluded")
		switch r.Intn(6) {
		case 0:
			ty = nil
		case 1:
			ty = cat(ty, []byte("\n"), word(r, 0, 5))
		case 2:
			ty = word(r, 80, 120)
		case 3:
			ty = cat(ty, []byte(" "))
		case 4:
			ty = cat([]byte(" "), ty)
		case 5:
			ty = bytes.Repeat([]byte{'T'}, r.Range(82, 85))
		}
	}
	var ks, vs [][]byte
	n := r.PickInt(0, 0, 1, 1, 1, 2, 3)
	if bytes.ContainsAny(ty, "\n") && n > 1 {
		n = 1
	}
	bad := r.Chance(1, 5)
	seen := map[string]bool{}
	for i := 0; i < n; i++ {
		var k, v []byte
		if bad && i == 0 {
			k, v = badEntry(r, g)
			if !simpleEntry(k, v) {
				// order-sensitive: keep this one alone (Go's map iteration order is random)
				ks, vs = [][]byte{k}, [][]byte{v}
				break
			}
		} else {
			k, v = goodKey(r), goodVal(r)
		}
		// decoded keys must stay distinct for an order-independent result
		dk := string(bytes.TrimSpace(bytes.SplitN(cat(k, []byte(": "), v), []byte(": "), 2)[0]))
		if seen[dk] {
			continue
		}
		seen[dk] = true
		ks, vs = append(ks, k), append(vs, v)
	}
	// canonical order = order of the encoded lines
	idx := make([]int, len(ks))
	for i := range idx {
		idx[i] = i
	}
	sort.Slice(idx, func(a, b int) bool {
		return string(cat(ks[idx[a]], []byte(": "), vs[idx[a]])) < string(cat(ks[idx[b]], []byte(": "), vs[idx[b]]))
	})
	var ks2, vs2 [][]byte
	for _, i := range idx {
		ks2, vs2 = append(ks2, ks[i]), append(vs2, vs[i])
	}
	body := r.Bytes(bodyLen(r, g))
	g.Stat("arm")
	g.Stat(fmt.Sprintf("arm.headers=%d", len(ks2)))
	chk := chunking(r, len(body))
	coverT("header-count", fmt.Sprint(len(ks2)))
	coverT("body-class", bclass(len(body)))
	g.Stat(fmt.Sprintf("pair.arm.headers=%d+body=%s", len(ks2), bclass(len(body))))
	g.Stat(fmt.Sprintf("pair.arm.body=%s+writes=%s", bclass(len(body)), wclass(chk)))
	switch string(ty) {
	case "PGP MESSAGE", "PGP SIGNATURE", "PGP PUBLIC KEY BLOCK", "PGP PRIVATE KEY BLOCK", "X":
		coverT("armor-type", string(ty))
	}
	g.Emit("arm ty=%s hk=%s hv=%s ch=%s body=%s", hx.Hex(ty), hexJoin(ks2), hexJoin(vs2), hx.JoinInts(chk), hx.Hex(body))
}

func armorOf(ty string, hdr map[string]string, body []byte) []byte {
	var buf bytes.Buffer
	w, _ := armor.Encode(&buf, ty, hdr)
	w.Write(body)
	w.Close()
	return buf.Bytes()
}

// rewrap the base64 text of a block at another width
func rewrap(r *hx.Rand, body []byte, width int, eol string) []byte {
	text := base64.StdEncoding.EncodeToString(body)
	var sb bytes.Buffer
	for len(text) > width {
		sb.WriteString(text[:width])
		sb.WriteString(eol)
		text = text[width:]
	}
	sb.WriteString(text)
	return sb.Bytes()
}

func crcLine(data []byte) string {
	// independent of the repo: bitwise CRC-24 as in RFC 4880 §6.1
	crc := uint32(0xB704CE)
	for _, b := range data {
		crc ^= uint32(b) << 16
		for i := 0; i < 8; i++ {
			crc <<= 1
			if crc&0x1000000 != 0 {
				crc ^= 0x1864CFB
			}
		}
	}
	crc &= 0xFFFFFF
	return "=" + base64.StdEncoding.EncodeToString([]byte{byte(crc >> 16), byte(crc >> 8), byte(crc)})
}

const b64alpha = "ABCDEFGHIJKLMNOPQRSTUVWXYZabcdefghijklmnopqrstuvwxyz0123456789+/"

func genDec(g *hx.Gen) {
	r := g.R
	body := r.Bytes(bodyLen(r, g) % 700)
	eol := "\n"
	if r.Chance(1, 5) {
		eol = "\r\n"
	}
	hdr := ""
	if r.Chance(1, 2) {
		hdr = "Version: GnuPG v1" + eol
	}
	if r.Chance(1, 6) {
		hdr += "Comment: " + string(bytes.Repeat([]byte("c "), r.Range(40, 120))) + "x" + eol // continuation lines
		g.Stat("dec.header-continuation")
	}
	width := 64
	if r.Chance(1, 3) {
		width = r.PickInt(1, 3, 4, 5, 60, 61, 76, 92, 95, 96, 97, 98, 99, 100, 101, 120, 200)
	}
	text := string(rewrap(r, body, width, eol))
	crc := crcLine(body)
	end := "-----END PGP MESSAGE-----"
	kind := r.Intn(24)
	g.Stat("dec")
	g.Stat(fmt.Sprintf("dec.kind=%02d", kind))
	switch kind {
	case 0, 1, 2: // flip one base64 character of the body → CRC mismatch (or base64 error)
		if len(text) > 0 {
			b := []byte(text)
			i := r.Intn(len(b))
			if b[i] != '\n' && b[i] != '\r' {
				b[i] = b64alpha[r.Intn(64)]
			}
			text = string(b)
		}
	case 3, 4: // another checksum
		b := []byte(crc)
		b[1+r.Intn(4)] = b64alpha[r.Intn(64)]
		crc = string(b)
	case 5:
		crc = "" // no checksum line: accepted without check
	case 6:
		end = "" // no END line
	case 7:
		end = r.PickStr("-----END", "----END PGP MESSAGE-----", "garbage", "-----END ", " -----END PGP MESSAGE-----")
	case 8:
		crc = r.PickStr("=QQ==", "=QUI=", "=\r\r\r\r", "=ab", "=abcde", "=ab=d", "=a\rbc", "====", "=A===", "= AAA")
	case 9: // invalid character / padding inside the text
		b := []byte(text)
		if len(b) > 0 {
			b[r.Intn(len(b))] = r.PickStr("=", " ", "-", "*", "\t", "\r", "\x00", "\xff")[0]
		}
		text = string(b)
	case 10: // blank lines and CRs inside the body
		text = strings.ReplaceAll(text, eol, eol+r.PickStr("", "\r", eol, "\r\r")+eol)
	case 11: // leading garbage, incl. over-long garbage lines and a fake short BEGIN
		pre := r.PickStr("garbage\n", "-----BEGIN -----\n", "-----BEGIN\n", string(bytes.Repeat([]byte("g"), r.Range(95, 310)))+"\n", "\n\n", "  ")
		g.Emit("dec data=%s", hx.Hex([]byte(pre+"-----BEGIN PGP MESSAGE-----"+eol+hdr+eol+text+eol+crc+eol+end)))
		return
	case 12: // header without ": " → block search restarts; a second block follows
		g.Emit("dec data=%s", hx.Hex([]byte("-----BEGIN PGP MESSAGE-----"+eol+r.PickStr("NoColon", "A:b", "Key:", "K: ")+eol+eol+text+eol+crc+eol+end+eol+string(armorOf("SECOND", map[string]string{"A": "b"}, body)))))
		return
	case 13: // truncated anywhere
		all := []byte("-----BEGIN PGP MESSAGE-----" + eol + hdr + eol + text + eol + crc + eol + end)
		g.Emit("dec data=%s", hx.Hex(all[:r.Intn(len(all)+1)]))
		return
	case 14: // padded quanta on their own lines ("QQ==" twice is accepted: padding ends a Read)
		text = strings.Join([]string{"QQ==", "QkM=", "QQ==QQ==", "RERE"}[:r.Range(1, 4)], eol)
		crc = ""
	case 15: // random bytes
		g.Emit("dec data=%s", hx.Hex(r.Bytes(r.Range(0, 300))))
		return
	case 16: // BEGIN line variants
		begin := r.PickStr("-----BEGIN PGP MESSAGE", "  -----BEGIN PGP MESSAGE-----  ", "-----BEGIN  -----", "-----BEGIN X-----trailing", "\xc2\xa0-----BEGIN PGP MESSAGE-----\xe2\x80\x80", "-----BEGIN "+string(bytes.Repeat([]byte("T"), r.Range(80, 90)))+"-----")
		g.Emit("dec data=%s", hx.Hex([]byte(begin+eol+hdr+eol+text+eol+crc+eol+end)))
		return
	case 17: // trailing whitespace on body lines, whitespace-only header separator
		g.Emit("dec data=%s", hx.Hex([]byte("-----BEGIN PGP MESSAGE-----"+eol+hdr+r.PickStr(" ", "\t", "\xc2\xa0", " \t ")+eol+text+eol+crc+eol+end)))
		return
	case 18: // data after the checksum line that is not END
		end = r.PickStr("AAAA", "", "=AAAA") + eol + end
	}
	g.Emit("dec data=%s", hx.Hex([]byte("-----BEGIN PGP MESSAGE-----"+eol+hdr+eol+text+eol+crc+eol+end+r.PickStr("", eol, eol+"trailing"))))
}

var ptTokens = []string{"-", "- ", "--", "-----BEGIN PGP SIGNATURE-----", "-----BEGIN PGP SIGNED MESSAGE-----", "-----END PGP SIGNATURE-----", "From ", "Hash: SHA1",
	" ", "  ", "\t", "\r", "\n", "\n", "\n", "\r\n", "\r\n", "\n\n", "a", "b", "word", "x-y", "\xc3\xa9", "\xff", "\x00", "\v", "\f", ":"}

func plaintext(r *hx.Rand, g *hx.Gen) []byte {
	var sb bytes.Buffer
	n := r.Range(0, 30)
	if r.Chance(1, 20) {
		n = r.Range(100, 300)
		if g.Thorough() {
			n = r.Range(200, 800)
		}
		g.Stat("pt.long")
	}
	for i := 0; i < n; i++ {
		sb.WriteString(hx.Pick(r, ptTokens))
	}
	return sb.Bytes()
}

// long runs: trailing blanks (SP/TAB/CR mixes) at line end, mid-line and at the end of the text, very long
// lines, long runs of '-' at line start, long CR runs before LF — with Write boundaries placed at every
// offset near the start and the end of the run
func longRun(r *hx.Rand, g *hx.Gen) ([]byte, []int) {
	n := r.PickInt(255, 256, 257, 254, 258, 511, 512, 513, 1000, 300)
	if r.Chance(1, 12) {
		n = 5000
	}
	var run []byte
	kind := r.Intn(7)
	g.Stat(fmt.Sprintf("pt.longrun.kind=%d", kind))
	switch kind {
	case 0, 1, 2: // blanks
		alpha := r.PickStr(" ", "\t", "\r", " \t", " \r", " \t\r", "\t\r")
		for i := 0; i < n; i++ {
			run = append(run, alpha[r.Intn(len(alpha))])
		}
	case 3:
		run = bytes.Repeat([]byte("a"), n)
	case 4:
		run = bytes.Repeat([]byte("-"), n)
	case 5:
		run = bytes.Repeat([]byte("\r"), n)
	default:
		run = bytes.Repeat([]byte("- "), n/2)
	}
	pre := r.PickStr("", "x", "line\n", "- d\nword ", "\n", "-", " ")
	post := r.PickStr("\n", "\n", "", "x\n", "x", "\nnext\n", "\r\n", " \n", "-\n")
	pt := []byte(pre + string(run) + post)
	// one to three Write boundaries near the run's start / end
	start, end := len(pre), len(pre)+len(run)
	marks := map[int]bool{}
	for i, k := 0, r.Range(1, 3); i < k; i++ {
		b := r.PickInt(start, end, start+255, start+256, start+257) + r.Range(-2, 2)
		if b > 0 && b < len(pt) {
			marks[b] = true
		}
	}
	var ch []int
	last := 0
	for i := 1; i < len(pt); i++ {
		if marks[i] {
			ch = append(ch, i-last)
			last = i
		}
	}
	return pt, ch
}

// a text with the same or a nearly-same canonical form
func variant(r *hx.Rand, g *hx.Gen, pt []byte) []byte {
	s := string(pt)
	k := r.Intn(9)
	g.Stat(fmt.Sprintf("clr2.variant=%d", k))
	switch k {
	case 0:
		return pt
	case 1:
		return []byte(strings.ReplaceAll(s, "\n", " \t\n"))
	case 2:
		return []byte(strings.ReplaceAll(strings.ReplaceAll(s, "\r\n", "\n"), "\n", "\r\n"))
	case 3:
		if strings.HasSuffix(s, "\n") {
			return []byte(strings.TrimSuffix(s, "\n"))
		}
		return []byte(s + "\n")
	case 4:
		return []byte(s + r.PickStr(" ", "\t", "\r", "\n", "x"))
	case 5:
		if len(pt) == 0 {
			return []byte("a")
		}
		b := append([]byte(nil), pt...)
		b[r.Intn(len(b))] ^= byte(1 << r.Intn(8))
		return b
	case 6:
		return []byte(strings.Replace(s, "\n", "\r\r\n", 1))
	case 7:
		return []byte(strings.Replace(s, "a", "a\r", 1))
	}
	return []byte(strings.Replace(s, "\n", "\n\n", 1))
}

func genClrDec(g *hx.Gen) {
	r := g.R
	eol := r.PickStr("\n", "\n", "\r\n")
	sig := string(armorOf("PGP SIGNATURE", nil, r.Bytes(r.Range(0, 120))))
	if eol == "\r\n" {
		sig = strings.ReplaceAll(sig, "\n", "\r\n")
	}
	var lines []string
	for i, n := 0, r.Range(0, 8); i < n; i++ {
		l := ""
		for j, m := 0, r.Range(0, 4); j < m; j++ {
			l += r.PickStr("- ", "-", "- -", "a", "word", " ", "\t", "\r", "-----BEGIN PGP SIGNATURE-----", "\xc3\xa9", "x ")
		}
		lines = append(lines, l)
	}
	text := strings.Join(lines, eol)
	if len(lines) > 0 {
		text += eol
	}
	head := "-----BEGIN PGP SIGNED MESSAGE-----"
	hdrs := "Hash: SHA256" + eol
	pre, post := "", ""
	kind := r.Intn(16)
	g.Stat("clrdec")
	g.Stat(fmt.Sprintf("clrdec.kind=%02d", kind))
	switch kind {
	case 0:
		pre = r.PickStr("garbage\n", "x", "\n", "-----BEGIN PGP SIGNED MESSAGE-----x\n")
	case 1:
		hdrs = r.PickStr("", "Hash: SHA1"+eol+"Hash:SHA512, MD5"+eol, "Hash : RIPEMD160 "+eol, " Hash:x"+eol)
	case 2:
		hdrs = r.PickStr("Foo: bar"+eol, "Hash"+eol, "Hash: \x01"+eol, "Hash: \xc3\xa9"+eol, "hash: SHA1"+eol, ": x"+eol, "Hash: a\tb"+eol)
	case 3:
		head += r.PickStr(" ", "x", "\r", "-")
	case 4:
		post = r.PickStr("\n", "\r\n\r\n", "\n\nrest", "rest", "\r", "\n\r\n-----BEGIN PGP SIGNED MESSAGE-----\n")
	case 5:
		sig = strings.Replace(sig, "-----END PGP SIGNATURE-----", r.PickStr("-----END PGP SIGNATURE", "", "-----END PGP MESSAGE-----"), 1)
	case 6:
		sig = strings.Replace(sig, "\n\n", "\n"+r.PickStr("NoColon", "Version: 1", "A:b")+"\n\n", 1)
	case 7: // no blank line after the headers / nothing at all after them
		g.Emit("clrdec data=%s", hx.Hex([]byte(pre+head+eol+hdrs+r.PickStr("", text+sig))))
		return
	case 8: // cut anywhere
		all := []byte(head + eol + hdrs + eol + text + sig)
		g.Emit("clrdec data=%s", hx.Hex(all[:r.Intn(len(all)+1)]))
		return
	case 9:
		g.Emit("clrdec data=%s", hx.Hex(r.Bytes(r.Range(0, 200))))
		return
	case 10: // the signature's END marker occurs inside the text
		text = "-----END PGP SIGNATURE-----" + eol + text
	}
	g.Emit("clrdec data=%s", hx.Hex([]byte(pre+head+eol+hdrs+eol+text+sig+post)))
}

var tHit = map[string]map[string]bool{}
var tSize = map[string]int{"hash-name": 9, "armor-type": 5, "header-count": 4, "body-class": 5}

func coverT(t, e string) {
	if tHit[t] == nil {
		tHit[t] = map[string]bool{}
	}
	tHit[t][e] = true
}

func wclass(ch []int) string {
	switch {
	case len(ch) == 0:
		return "1"
	case len(ch) < 8:
		return "few"
	}
	return "many"
}

func bclass(n int) string {
	switch {
	case n == 0:
		return "0"
	case n < 48:
		return "<1line"
	case n%48 == 0:
		return "k*48"
	case n < 2000:
		return "lines"
	}
	return "large"
}

func gen(g *hx.Gen) {
	defer func() {
		for t, total := range tSize {
			g.StatN(fmt.Sprintf("table.%s=%d/%d", t, len(tHit[t]), total), 1)
		}
	}()
	// sweep: every hash name × every signer count, every header count × body class
	for _, hn := range []string{"SHA256", "SHA1", "SHA512", "SHA384", "SHA224", "MD5", "RIPEMD160", "MD4", "SHA3_256", "SHA256", "SHA1", "MD5", "RIPEMD160", "SHA512", "SHA384", "SHA224", "MD4", "SHA3_256"} {
		for nk := 0; nk < 4; nk++ {
			pt := plaintext(g.R, g)
			g.Stat("clrm")
			g.Stat("pair.clrm.hash=" + hn + "+keys=" + fmt.Sprint(nk))
			coverT("hash-name", hn)
			g.Emit("clrm nk=%d enc=0 hash=%s ch=%s pt=%s", nk, hx.Hex([]byte(hn)), hx.JoinInts(chunking(g.R, len(pt))), hx.Hex(pt))
		}
	}
	n := g.Count(2850, 100000)
	r := g.R
	for i := 0; i < n; i++ {
		switch k := r.Intn(20); {
		case k < 7:
			genArm(g)
		case k < 12:
			genDec(g)
		case k < 15:
			pt := plaintext(r, g)
			if r.Chance(1, 6) { // EncodeMulti: 0..3 signers, every hash name of nameOfHash, refused configurations
				hn := r.PickStr("SHA256", "SHA1", "SHA512", "SHA384", "SHA224", "MD5", "RIPEMD160")
				nk, enc := r.Intn(4), 0
				switch r.Intn(10) {
				case 0:
					hn = r.PickStr("MD4", "SHA3_256") // not an OpenPGP hash name: UnsupportedError
				case 1:
					enc = 1 // encrypted signing key: InvalidArgumentError
				}
				ch := chunking(r, len(pt))
				g.Stat("clrm")
				g.Stat("pair.clrm.hash=" + hn + "+keys=" + fmt.Sprint(nk))
				coverT("hash-name", hn)
				g.Emit("clrm nk=%d enc=%d hash=%s ch=%s pt=%s", nk, enc, hx.Hex([]byte(hn)), hx.JoinInts(ch), hx.Hex(pt))
				continue
			}
			if r.Chance(1, 5) {
				lp, ch := longRun(r, g)
				g.Stat("clr")
				g.Emit("clr hash=%s ch=%s pt=%s", hx.Hex([]byte(r.PickStr("SHA256", "SHA1", "SHA512"))), hx.JoinInts(ch), hx.Hex(lp))
				continue
			}
			g.Stat("clr")
			hn := r.PickStr("SHA256", "SHA256", "SHA1", "SHA512", "SHA384", "SHA224", "MD5", "RIPEMD160")
			ch := chunking(r, len(pt))
			coverT("hash-name", hn)
			g.Stat(fmt.Sprintf("pair.clr.hash=%s+writes=%s", hn, wclass(ch)))
			g.Emit("clr hash=%s ch=%s pt=%s", hx.Hex([]byte(hn)), hx.JoinInts(ch), hx.Hex(pt))
		case k < 17:
			pt := plaintext(r, g)
			g.Stat("clr2")
			g.Emit("clr2 ch=%s pt=%s pt2=%s", hx.JoinInts(chunking(r, len(pt))), hx.Hex(pt), hx.Hex(variant(r, g, pt)))
		default:
			genClrDec(g)
		}
	}
	if g.Thorough() {
		for i := 0; i < 300; i++ {
			// GnuPG's cleartext filter is not NUL-safe (every one of its rejections in 2×300 samples had a NUL in
			// the text, none without): the interop sample uses NUL-free texts
			pt := bytes.ReplaceAll(plaintext(r, g), []byte{0}, []byte("0"))
			g.Stat("gpgclr")
			g.Emit("gpgclr ch=%s pt=%s", hx.JoinInts(chunking(r, len(pt))), hx.Hex(pt))
		}
	}
}

func main() {
	hx.Main(hx.Harness{Gen: gen, Exec: run})
	if gpgHome != "" {
		os.RemoveAll(gpgHome)
	}
}
