// C33 — server auth limits and bindings: same scripted server-auth harness as C32 (package sauth),
// with generators aimed at MaxAuthTries accounting, the 128-request cap, user changes around partial
// success, source-address lists against many peer addresses, and the size-1 public key cache.
package main

import (
	"net"
	"net/netip"
	"strconv"
	"strings"

	"verifharness/cmd/c32/sauth"
	"verifharness/hx"
)

var ips = []string{"10.1.2.3", "10.1.2.4", "192.168.7.7", "172.16.5.5", "::1", "2001:db8::1", "2001:db8:1::7", "::ffff:10.1.2.3", "0.0.0.0", "255.255.255.255"}
var saEntries = []string{"10.1.2.3", "10.1.2.4", "192.168.7.7", "10.0.0.0/8", "10.1.2.0/24", "10.1.2.3/32", "172.16.0.0/12", "0.0.0.0/0",
	"::1", "2001:db8::/32", "2001:db8::1", "::/0", "::ffff:10.1.2.3", "::ffff:0:0/96",
	"", " 10.1.2.3", "10.1.2.3 ", "10.1.2", "10.1.2.3/33", "10.1.2.3/", "host.example.com", "*", "10.1.2.*", "010.001.002.003", "10.1.2.3/24x", "!10.1.2.3",
	// IPv4-mapped IPv6, zone ids, malformed / inconsistent masks
	"::ffff:10.1.2.3/128", "::ffff:10.0.0.0/104", "::ffff:a01:203", "0:0:0:0:0:ffff:10.1.2.3", "::10.1.2.3", "fe80::1%eth0", "fe80::1%eth0/64", "::1%lo",
	"10.1.2.3/24", "10.1.2.0/-1", "10.1.2.0/024", "10.1.2.0/ 24", "10.1.2.0/24/24", "/24", "10.1.2.0/0x18", "2001:db8::1/32", "2001:db8::/129", "2001:db8::/+32", "10.1.2.0/255.255.255.0"}

// osshClass is the harness's reading of one list entry under OpenSSH's addr_match_cidr_list
// (addrmatch.c): "m" match, "n" no match, "i" invalid. Used for the input-distribution statistics
// only (how often the entry-level verdicts of Go's stdlib and OpenSSH differ); the check itself
// compares the Go code with the Lean model of the Go code.
func osshClass(peer net.IP, e string) string {
	if e == "" || len(e) > 46+3 || strings.Trim(e, "0123456789abcdefABCDEF.:/") != "" {
		return "i"
	}
	host, mask, hasMask := strings.Cut(e, "/")
	a, err := netip.ParseAddr(host)
	if err != nil || a.Zone() != "" {
		return "i"
	}
	bits := a.BitLen()
	if hasMask {
		n, err := strconv.ParseUint(mask, 10, 32)
		if err != nil || mask == "" || int(n) > bits || strings.HasPrefix(mask, "+") {
			return "i"
		}
		bits = int(n)
		if netip.PrefixFrom(a, bits).Masked().Addr() != a {
			return "i" // "Inconsistent mask length": host bits set
		}
	}
	if peer == nil {
		return "n"
	}
	p, ok := netip.AddrFromSlice(peer)
	if !ok {
		return "n"
	}
	p = p.Unmap() // sshd normalises a v4-mapped peer; list entries keep their family
	if p.Is4() != a.Is4() {
		return "n"
	}
	if netip.PrefixFrom(a, bits).Contains(p) {
		return "m"
	}
	return "n"
}


// pickEntry: half of the time one of the 14 well-formed entries, else anything from the pool
func pickEntry(r *hx.Rand) string {
	if r.Chance(1, 2) {
		return saEntries[r.Intn(14)]
	}
	return hx.Pick(r, saEntries)
}

func randSA(r *hx.Rand, g *hx.Gen) []string {
	switch r.Intn(8) {
	case 0:
		g.Stat("sa.empty-value")
		return []string{""}
	case 1:
		return []string{pickEntry(r)}
	}
	n := r.Range(2, 5)
	out := make([]string, n)
	for i := range out {
		out[i] = pickEntry(r)
	}
	return out
}

func randAddr(r *hx.Rand) string {
	switch r.Intn(12) {
	case 0:
		return "nil"
	case 1:
		return "unix"
	}
	return "tcp~" + hx.Pick(r, ips)
}

// permsFor builds a permissions table whose ids 1..5 carry random source-address options.
func permsFor(r *hx.Rand, g *hx.Gen, addr string) map[int]sauth.PermRow {
	m := map[int]sauth.PermRow{1: sauth.MkPerm(addr, nil, false)}
	for id := 2; id <= 5; id++ {
		m[id] = sauth.MkPerm(addr, randSA(r, g), false)
		var ip net.IP
		if strings.HasPrefix(addr, "tcp~") {
			ip = net.ParseIP(addr[4:])
		}
		goAcc, osshAcc, osshErr, matched := false, false, false, false
		for j, o := range m[id].Oracle {
			g.Stat("sa.entry." + o)
			oc := osshClass(ip, m[id].SA[j])
			goM, goBad := o == "eq" || o == "in", o == "bad"
			if goM != (oc == "m") || goBad != (oc == "i") {
				g.Stat("sa.entry-verdict-differs-from-openssh.go=" + o + ",openssh=" + oc)
			}
			if !matched && !goBad && goM {
				goAcc, matched = true, true
			} else if !matched && goBad {
				matched = true // Go stops here with an error
			}
			if oc == "i" {
				osshErr = true
			} else if oc == "m" {
				osshAcc = true
			}
		}
		if ip != nil && goAcc != (osshAcc && !osshErr) {
			g.Stat("sa.list-verdict-differs-from-openssh")
		}
	}
	return m
}

var saOutcomes = []string{"A1", "A2", "A3", "A4", "A5", "A0", "R", "P111.0", "P010.0"}

func gen(g *hx.Gen) {
	r := g.R
	letters := sauth.Letters()
	sauth.Init()
	// the tables / switches C33's clauses index: method switch (failure accounting), MaxAuthTries values,
	// source-address entry classes, peer address kinds
	tables := sauth.NewTableCov()
	tables.Define("method-switch", "none", "password", "keyboard-interactive", "publickey", "gssapi-with-mic", "other")
	tables.Define("sa-entry", "eq", "ne", "in", "out", "bad")
	tables.Define("addr-kind", "nil", "unix", "tcp")
	tables.Define("max-auth-tries", "-1", "0", "1", "2", "3", "6")
	defer func() { tables.Report(g) }()
	emit := func(c sauth.Cfg, reqs []sauth.Req) {
		line := sauth.Finish(c, reqs)
		sauth.PairStats(g, c, reqs)
		tables.Record(c, reqs)
		tables.Hit("max-auth-tries", strconv.Itoa(c.MaxTries))
		g.Emit("%s", line)
	}
	if g.N == 0 {
		sauth.EmitPairs(g, emit)
	}

	// (1) failure accounting: histories of failing / free / partial / query requests around the limit
	n1 := g.Count(3000, 70000)
	for i := 0; i < n1; i++ {
		c := sauth.RandCfg(r, true)
		c.MaxTries = r.PickInt(-1, 0, 1, 2, 3, 6)
		c.Vpk = r.Chance(1, 5)
		c.NCA = r.Chance(1, 6)
		ln := r.Range(1, 10)
		reqs := make([]sauth.Req, ln)
		for j := range reqs {
			switch r.Intn(10) {
			case 0, 1:
				reqs[j] = sauth.None(sauth.U0)
			case 2:
				reqs[j] = sauth.Query(sauth.U0, r.PickInt(1, 2))
			case 3:
				reqs[j] = sauth.Other(sauth.U0, "hostbased")
			case 4:
				reqs[j] = sauth.Kbd(sauth.U0)
			case 5:
				reqs[j] = sauth.Sign(sauth.U0, r.PickInt(1, 2))
			default:
				reqs[j] = sauth.Pw(sauth.U0, "pw1")
			}
			reqs[j].Cb = r.PickStr("R", "R", "R", "R", "B1", "P111.0", "P100.0", "A1")
			reqs[j].Vcb = r.PickStr("R", "A1", "P100.0")
			if j < ln-1 && reqs[j].Cb == "A1" && r.Chance(3, 4) {
				reqs[j].Cb = "R"
			}
		}
		if r.Chance(1, 3) { // leading none: the free attempt
			reqs[0] = sauth.None(sauth.U0)
			reqs[0].Cb = "R"
		}
		emit(c, reqs)
		g.Stat("failures")
	}

	// (2) the 128-request cap: long histories that never fail for real (queries, partial successes,
	//     unlimited tries), lengths around 128 and up to 140
	n2 := g.Count(90, 3000)
	for i := 0; i < n2; i++ {
		c := sauth.RandCfg(r, true)
		c.Vpk, c.Ban = false, "n"
		ln := r.PickInt(126, 127, 128, 129, 130, 140, r.Range(100, 140))
		kind := r.Intn(3)
		if kind == 0 {
			c.MaxTries = -1
		} else {
			c.MaxTries = r.PickInt(-1, 0, 1, 3, 6)
		}
		reqs := make([]sauth.Req, ln)
		for j := range reqs {
			switch kind {
			case 0: // failing passwords, unlimited tries
				reqs[j] = sauth.Pw(sauth.U0, "x")
				reqs[j].Cb = "R"
			case 1: // accepted queries (attempts, not failures)
				reqs[j] = sauth.Query(sauth.U0, 1+j%2)
				reqs[j].Cb = "A1"
			default: // partial successes forever
				reqs[j] = sauth.Pw(sauth.U0, "x")
				reqs[j].Cb = "P111.0"
			}
		}
		if r.Chance(1, 2) { // finish with something that would succeed if it were read
			last := sauth.Pw(sauth.U0, "pw1")
			last.Cb = "A1"
			reqs[len(reqs)-1] = last
			if r.Chance(1, 2) && ln > 128 {
				reqs[127] = last
			}
		}
		emit(c, reqs)
		g.Stat("cap128")
	}

	// (3) user changes around partial success
	n3 := g.Count(2000, 60000)
	for i := 0; i < n3; i++ {
		c := sauth.RandCfg(r, true)
		ln := r.Range(2, 6)
		reqs := make([]sauth.Req, ln)
		for j := range reqs {
			// the same name mostly; otherwise one that differs by case / confusable / normalisation / blank
			u := sauth.U0
			if r.Chance(2, 5) {
				u = sauth.OtherUser(r, sauth.U0)
				g.Stat("user-change.confusable")
			}
			switch r.Intn(6) {
			case 0:
				reqs[j] = sauth.None(u)
			case 1:
				reqs[j] = sauth.Query(u, r.PickInt(1, 2))
			case 2:
				reqs[j] = sauth.Sign(u, r.PickInt(1, 2))
			case 3:
				reqs[j] = sauth.Kbd(u)
			default:
				reqs[j] = sauth.Pw(u, "pw1")
			}
			reqs[j].Cb = r.PickStr("P111.0", "P111.0", "P110.0", "A1", "R", "P011.0")
			reqs[j].Vcb = r.PickStr("A1", "P111.0")
		}
		emit(c, reqs)
		g.Stat("user-change")
	}

	// (4) source-address: random option values on every permissions id × random peers
	n4 := g.Count(4000, 70000)
	for i := 0; i < n4; i++ {
		c := sauth.RandCfg(r, true)
		c.Addr = randAddr(r)
		c.Perms = permsFor(r, g, c.Addr)
		c.Vpk = r.Chance(1, 2)
		if strings.HasPrefix(c.Addr, "tcp~") {
			g.Stat("sa.addr.tcp")
		} else {
			g.Stat("sa.addr." + c.Addr)
		}
		ln := r.Range(1, 4)
		reqs := make([]sauth.Req, ln)
		for j := range reqs {
			switch r.Intn(7) {
			case 0:
				reqs[j] = sauth.None(sauth.U0)
			case 1:
				reqs[j] = sauth.Kbd(sauth.U0)
			case 2:
				reqs[j] = sauth.Pw(sauth.U0, "pw1")
			case 3, 4:
				reqs[j] = sauth.Query(sauth.U0, r.PickInt(1, 2))
			default:
				reqs[j] = sauth.Sign(sauth.U0, r.PickInt(1, 2))
			}
			reqs[j].Cb, reqs[j].Vcb = hx.Pick(r, saOutcomes), hx.Pick(r, saOutcomes)
		}
		emit(c, reqs)
	}

	// (5) the size-1 key cache: interleavings of queries / signatures over 3 keys and 2 users
	n5 := g.Count(2500, 60000)
	for i := 0; i < n5; i++ {
		c := sauth.RandCfg(r, true)
		c.MaxTries = -1
		ln := r.Range(2, 7)
		reqs := make([]sauth.Req, ln)
		for j := range reqs {
			u := sauth.U0 // a cache hit must need the byte-identical user
			if r.Chance(1, 3) {
				u = r.PickStr("Alice", "ALICE", "al\u0131ce", "alice ", "")
				g.Stat("key-cache.confusable-user")
			}
			k := r.PickInt(1, 1, 2, 5)
			if r.Chance(1, 2) {
				reqs[j] = sauth.Query(u, k)
			} else {
				reqs[j] = sauth.Sign(u, k)
			}
			if r.Chance(1, 10) {
				reqs[j] = letters[r.Intn(len(letters))]
			}
			reqs[j].Cb = r.PickStr("A1", "A1", "A3", "R", "A2", "P010.0", "B1")
			reqs[j].Vcb = r.PickStr("A1", "A3", "R")
		}
		emit(c, reqs)
		g.Stat("key-cache")
	}
}

func main() { hx.Main(hx.Harness{Gen: gen, Exec: sauth.Exec}) }
